/-
  SrcTie/LikelyMinimize.lean — `likelysubtags::minimize`: the definition srclean derives from the CURRENT Rust source text (the tables are the model's
  parameters `T : Tables`, `L : Layout`; `binary_search_by_key(..).ok()` + `TABLE[i]` with its out-of-range panic, `.unwrap()`,
  the integer conversions by contract) equals the hand-written model definition, for all inputs and all tables.
-/
import UnicLocale.SrcTie.LikelyMaximize

set_option linter.unusedSimpArgs false
set_option linter.unusedVariables false

namespace UL.SrcTie
open UL

theorem beq_dec {α} [BEq α] [LawfulBEq α] [DecidableEq α] (a b : α) : (a == b) = decide (a = b) := by
  by_cases h : a = b <;> simp [h]

/-- closes the goals of the `minimize` cascade: case analysis on every remaining `if` / `match`, equalities of triples decided
    through `decide` so that the hypotheses of the splits rewrite them -/
macro "min_close" : tactic =>
  `(tactic| ((try simp [Res.bind, beq_dec]) <;> repeat (split <;> (try simp_all [Res.bind, beq_dec]))))

theorem Likely.minimize_eq : ∀ T l s r, UL.Src.Likely.minimize T l s r = UL.Likely.minimize T l s r := by
  intro T l s r
  unfold UL.Src.Likely.minimize UL.Likely.minimize UL.Likely.trial
  simp only [Language.isEmpty_eq, Likely.maximize_eq]
  by_cases h0 : (l.isSome && s.isSome && r.isSome) = true
  · have h0' : ((!l.isNone) && s.isSome && r.isSome) = true := by cases l <;> simp_all
    simp only [h0, h0', if_true]
    cases UL.Likely.maximize T l none none with
    | err e => simp [Res.bind]
    | panic => simp [Res.bind]
    | ok o1 =>
      cases UL.Likely.maximize T l none r with
      | err e => cases o1 <;> min_close
      | panic => cases o1 <;> min_close
      | ok o2 =>
        cases UL.Likely.maximize T l s none with
        | err e => cases o1 <;> cases o2 <;> min_close
        | panic => cases o1 <;> cases o2 <;> min_close
        | ok o3 => cases o1 <;> cases o2 <;> cases o3 <;> min_close
  · have h0' : ¬ ((!l.isNone) && s.isSome && r.isSome) = true := by cases l <;> simp_all
    simp only [h0, h0']
    cases UL.Likely.maximize T l s r with
    | err e => simp [Res.bind]
    | panic => simp [Res.bind]
    | ok om =>
      cases om with
      | none => simp [Res.bind]
      | some mx =>
        simp [Res.bind, -beq_iff_eq]
        cases UL.Likely.maximize T mx.1 none none with
        | err e => simp [Res.bind]
        | panic => simp [Res.bind]
        | ok o1 =>
          cases UL.Likely.maximize T mx.1 none mx.2.2 with
          | err e =>
            cases UL.Likely.maximize T mx.1 mx.2.1 none with
            | err e => cases o1 <;> min_close
            | panic => cases o1 <;> min_close
            | ok o3 => cases o1 <;> cases o3 <;> min_close
          | panic =>
            cases UL.Likely.maximize T mx.1 mx.2.1 none with
            | err e => cases o1 <;> min_close
            | panic => cases o1 <;> min_close
            | ok o3 => cases o1 <;> cases o3 <;> min_close
          | ok o2 =>
            cases UL.Likely.maximize T mx.1 mx.2.1 none with
            | err e => cases o1 <;> cases o2 <;> min_close
            | panic => cases o1 <;> cases o2 <;> min_close
            | ok o3 => cases o1 <;> cases o2 <;> cases o3 <;> min_close

end UL.SrcTie
