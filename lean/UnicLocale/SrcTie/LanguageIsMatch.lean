/-
  SrcTie/LanguageIsMatch.lean — the definition srclean derives from the Rust source text of this item equals
  the hand-written model definition `UL.Language.isMatch`, for all inputs.
-/
import UnicLocale.SrcTie.Tactic
import UnicLocale.Gen.Src
import UnicLocale.Model.Subtags

set_option linter.unusedSimpArgs false

namespace UL.SrcTie

theorem Language.isMatch_eq : ∀ a b ra rb, UL.Src.Language.isMatch a b ra rb = UL.Language.isMatch a b ra rb := by
  src_tie_tac [UL.Src.Language.isMatch, UL.Language.isMatch]

end UL.SrcTie
