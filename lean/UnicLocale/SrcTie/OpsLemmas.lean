/-
  SrcTie/OpsLemmas.lean — `collectOpt` = the model's `collectTypes`; `binary_search` returns an index within bounds: the definition srclean derives from the CURRENT Rust source text (`&mut self` translated as a
  returned new value, `Vec` / `BTreeMap` mutation as rebinding, `binary_search` / `Vec::insert` / `Vec::remove` with their
  panic branches) equals the hand-written model definition, for all inputs.
-/
import UnicLocale.Gen.SrcParse
import UnicLocale.Model.Locale

set_option linter.unusedSimpArgs false
set_option linter.unusedVariables false

namespace UL.SrcTie
open UL

theorem collectOpt_eq (p q : Bytes → Res (Option Bytes)) (h : ∀ t, p t = q t) (l : List Bytes) :
    UL.Src.collectOpt p l = collectTypes q l := by
  induction l with
  | nil => rfl
  | cons t ts ih =>
    unfold UL.Src.collectOpt collectTypes
    rw [h t, ih]
    cases q t with
    | ok o => cases collectTypes q ts <;> rfl
    | err e => rfl
    | panic => rfl

/-- `binary_search` returns an index within bounds, so `Vec::insert` at `Err(idx)` does not panic -/
theorem bsLoop_le {α} (a : List α) (gt : α → Bool) : ∀ (fuel base size : Nat), base + size ≤ a.length → 0 < size →
    bsLoop a gt fuel base size < base + size := by
  intro fuel
  induction fuel with
  | zero => intro base size h hs; simp [bsLoop]; omega
  | succ f ih =>
    intro base size h hs
    unfold bsLoop
    by_cases h1 : size > 1
    · simp only [h1, if_true]
      have hmid : base + size / 2 < a.length := by omega
      rw [List.getElem?_eq_getElem hmid]
      simp only []
      by_cases hg : gt a[base + size / 2] = true
      · simp only [hg, if_true]
        have := ih base (size - size / 2) (by omega) (by omega)
        omega
      · simp only [hg]
        have := ih (base + size / 2) (size - size / 2) (by omega) (by omega)
        simp at this ⊢
        omega
    · simp [h1]; omega

theorem binarySearchBy_inr_le {α} (a : List α) (cmp : α → Nat) (i : Nat) (h : binarySearchBy a cmp = .inr i) :
    i ≤ a.length := by
  unfold binarySearchBy at h
  by_cases h0 : (a.length == 0) = true
  · simp [h0] at h; omega
  · have hl : 0 < a.length := by cases a <;> simp_all
    have hb := bsLoop_le a (fun x => cmp x == 2) a.length 0 a.length (by omega) hl
    rw [if_neg h0] at h
    simp only [] at h
    generalize bsLoop a (fun x => cmp x == 2) a.length 0 a.length = base at h hb
    have hlt : base < a.length := by omega
    rw [List.getElem?_eq_getElem hlt] at h
    simp only [] at h
    split at h
    · cases h
    · injection h with h; split at h <;> omega

theorem binarySearchBy_inl_lt {α} (a : List α) (cmp : α → Nat) (i : Nat) (h : binarySearchBy a cmp = .inl i) :
    i < a.length := by
  unfold binarySearchBy at h
  by_cases h0 : (a.length == 0) = true
  · simp [h0] at h
  · have hl : 0 < a.length := by cases a <;> simp_all
    have hb := bsLoop_le a (fun x => cmp x == 2) a.length 0 a.length (by omega) hl
    rw [if_neg h0] at h
    simp only [] at h
    generalize bsLoop a (fun x => cmp x == 2) a.length 0 a.length = base at h hb
    have hlt : base < a.length := by omega
    rw [List.getElem?_eq_getElem hlt] at h
    simp only [] at h
    split at h
    · injection h with h; omega
    · cases h

end UL.SrcTie
