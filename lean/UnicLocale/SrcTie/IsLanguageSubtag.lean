/-
  SrcTie/IsLanguageSubtag.lean — the definition srclean derives from the Rust source text of this item equals
  the hand-written model definition `UL.isLanguageSubtag`, for all inputs.
-/
import UnicLocale.SrcTie.Tactic
import UnicLocale.Gen.Src
import UnicLocale.Model.Ext

set_option linter.unusedSimpArgs false

namespace UL.SrcTie

theorem isLanguageSubtag_eq : ∀ v, UL.Src.isLanguageSubtag v = UL.isLanguageSubtag v := by
  src_tie_tac [UL.Src.isLanguageSubtag, UL.isLanguageSubtag]

end UL.SrcTie
