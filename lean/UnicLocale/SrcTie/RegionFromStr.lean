/-
  SrcTie/RegionFromStr.lean — `FromStr for Region`: the definition srclean derives from the CURRENT Rust source text of this trait impl / method equals the
  hand-written model definition, for all inputs.
-/
import UnicLocale.Gen.SrcParse
import UnicLocale.Model.Locale
import UnicLocale.SrcTie.Subtags

set_option linter.unusedSimpArgs false
set_option linter.unusedVariables false

namespace UL.SrcTie
open UL

theorem Region.fromStr_eq : ∀ v, UL.Src.Region.fromStr v = UL.Region.fromBytes v := by
  intro v; exact Region.fromBytes_eq v

end UL.SrcTie
