/-
  SrcTie/LikelyLemmas.lean — search + index = the model's look-up: the definition srclean derives from the CURRENT Rust source text (the tables are the model's
  parameters `T : Tables`, `L : Layout`; `binary_search_by_key(..).ok()` + `TABLE[i]` with its out-of-range panic, `.unwrap()`,
  the integer conversions by contract) equals the hand-written model definition, for all inputs and all tables.
-/
import UnicLocale.Gen.SrcLikely
import UnicLocale.Model.Likely

set_option linter.unusedSimpArgs false
set_option linter.unusedVariables false

namespace UL.SrcTie
open UL

/-- `binary_search_by_key(..).ok()` followed by `TABLE[i]` is the model's `lookup1` -/
theorem search1_some {a : Array Row1} {k i : Nat} (h : UL.Src.tblSearch1 a k = some i) :
    ∃ row, a[i]? = some row ∧ lookup1 a k = some row := by
  unfold UL.Src.tblSearch1 at h
  unfold lookup1 lookupBy
  by_cases h0 : (a.size == 0) = true
  · simp [h0] at h
  · rw [if_neg h0] at h ⊢
    simp only [] at h ⊢
    generalize bsLoopA a (fun x => cmpNat k x.k == 2) a.size 0 a.size = base at h ⊢
    cases hb : a[base]? with
    | none => simp [hb] at h
    | some x =>
      simp only [hb] at h ⊢
      by_cases hc : (cmpNat k x.k == 1) = true
      · simp [hc] at h ⊢; subst h; exact hb
      · simp [hc] at h

theorem search1_none {a : Array Row1} {k : Nat} (h : UL.Src.tblSearch1 a k = none) : lookup1 a k = none := by
  unfold UL.Src.tblSearch1 at h
  unfold lookup1 lookupBy
  by_cases h0 : (a.size == 0) = true
  · simp [h0]
  · rw [if_neg h0] at h ⊢
    simp only [] at h ⊢
    generalize bsLoopA a (fun x => cmpNat k x.k == 2) a.size 0 a.size = base at h ⊢
    cases hb : a[base]? with
    | none => simp
    | some x =>
      simp only [hb] at h ⊢
      by_cases hc : (cmpNat k x.k == 1) = true
      · simp [hc] at h
      · simp [hc]

theorem search2_some {a : Array Row2} {k1 k2 i : Nat} (h : UL.Src.tblSearch2 a k1 k2 = some i) :
    ∃ row, a[i]? = some row ∧ lookup2 a k1 k2 = some row := by
  unfold UL.Src.tblSearch2 at h
  unfold lookup2 lookupBy
  by_cases h0 : (a.size == 0) = true
  · simp [h0] at h
  · rw [if_neg h0] at h ⊢
    simp only [] at h ⊢
    generalize bsLoopA a (fun x => cmpPair k1 k2 x.k1 x.k2 == 2) a.size 0 a.size = base at h ⊢
    cases hb : a[base]? with
    | none => simp [hb] at h
    | some x =>
      simp only [hb] at h ⊢
      by_cases hc : (cmpPair k1 k2 x.k1 x.k2 == 1) = true
      · simp [hc] at h ⊢; subst h; exact hb
      · simp [hc] at h

theorem search2_none {a : Array Row2} {k1 k2 : Nat} (h : UL.Src.tblSearch2 a k1 k2 = none) : lookup2 a k1 k2 = none := by
  unfold UL.Src.tblSearch2 at h
  unfold lookup2 lookupBy
  by_cases h0 : (a.size == 0) = true
  · simp [h0]
  · rw [if_neg h0] at h ⊢
    simp only [] at h ⊢
    generalize bsLoopA a (fun x => cmpPair k1 k2 x.k1 x.k2 == 2) a.size 0 a.size = base at h ⊢
    cases hb : a[base]? with
    | none => simp
    | some x =>
      simp only [hb] at h ⊢
      by_cases hc : (cmpPair k1 k2 x.k1 x.k2 == 1) = true
      · simp [hc] at h
      · simp [hc]

end UL.SrcTie
