/-
  SrcTie/TExtTfield.lean — `tfield`: the definition srclean derives from the CURRENT Rust source text (`&mut self` translated as a
  returned new value, `Vec` / `BTreeMap` mutation as rebinding, `binary_search` / `Vec::insert` / `Vec::remove` with their
  panic branches) equals the hand-written model definition, for all inputs.
-/
import UnicLocale.SrcTie.OpsLemmas
import UnicLocale.SrcTie.Ext

set_option linter.unusedSimpArgs false
set_option linter.unusedVariables false

namespace UL.SrcTie
open UL

theorem TExt.tfield_eq : ∀ u k, UL.Src.TExt.tfield u k = UL.TExt.tfield u k := by
  intro u k
  unfold UL.Src.TExt.tfield UL.TExt.tfield
  rw [parseTKey_eq]
  cases UL.parseTKey k with
  | ok x => cases h : AMap.get x u.tfields <;> simp [Res.bind, Res.map, h]
  | err e => rfl
  | panic => rfl

end UL.SrcTie
