/-
  SrcTie/LangIdFromParts.lean — `LanguageIdentifier::from_parts`: the definition srclean derives from the CURRENT Rust source text (`&mut self` translated as a
  returned new value, `Vec` / `BTreeMap` mutation as rebinding, `binary_search` / `Vec::insert` / `Vec::remove` with their
  panic branches) equals the hand-written model definition, for all inputs.
-/
import UnicLocale.SrcTie.OpsLemmas
import UnicLocale.SrcTie.Ext

set_option linter.unusedSimpArgs false
set_option linter.unusedVariables false

namespace UL.SrcTie
open UL

theorem LangId.fromParts_eq : ∀ l s r vs, UL.Src.LangId.fromParts l s r vs = UL.LangId.fromParts l s r vs := by
  intro l s r vs
  unfold UL.Src.LangId.fromParts UL.LangId.fromParts UL.LangId.finishVariants
  cases vs <;> simp

end UL.SrcTie
