/-
  SrcTie/MacrosLangidSlice.lean — the list macro `langidSlice` of `unic-langid/src/lib.rs`: read from its CURRENT `macro_rules!` text (exactly the two-arm shape
  "map every element through `langid!`, with or without a trailing comma" is accepted by srclean), it is the model's `Macros.list` over the
  source-derived `langid!`, hence equal to the model of the list macro for every list of literals.
-/
import UnicLocale.Gen.SrcMacros
import UnicLocale.SrcTie.MacrosLangid

set_option linter.unusedSimpArgs false
set_option linter.unusedVariables false

namespace UL.SrcTie
open UL

theorem Macros.langidSlice_eq : ∀ ls, UL.Src.Macros.langidSlice ls = (UL.Macros.list UL.Macros.langid) ls := by
  intro ls
  unfold UL.Src.Macros.langidSlice
  have h : UL.Src.Macros.langid = UL.Macros.langid := funext UL.SrcTie.Macros.langid_eq
  rw [h]

end UL.SrcTie
