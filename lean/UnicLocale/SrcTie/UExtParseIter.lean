/-
  SrcTie/UExtParseIter.lean — `UnicodeExtensionList::try_from_iter` and its `while let` loop
  (the definition srclean derives from the CURRENT Rust source text equals the hand-written model definition, for all
  inputs; a `while let` loop of the source is a fuel-driven definition in `Gen/SrcParse.lean`, the lemmas hold for every fuel
  above the number of subtags left and the callers pass `length + 2`, so the equality is also the proof that the Rust loop
  terminates: out of fuel would be `Res.panic`, which the model provably never returns)
-/
import UnicLocale.SrcTie.Ext
import UnicLocale.SrcTie.ParseLemmas
import UnicLocale.Model.Ext

set_option linter.unusedSimpArgs false
set_option linter.unusedVariables false

namespace UL.SrcTie
open UL

/-! ### `-u-` -/

def uProj (o : List Bytes × UExt × Option Bytes × Option Bytes × List Bytes) : UExt × List Bytes :=
  (UExt.finish o.2.1 o.2.2.2.1 o.2.2.2.2, o.1)

theorem UExt.loop1_eq (ts : List Bytes) : ∀ (fuel : Nat) (u : UExt) (ck : Option Bytes) (ct : List Bytes),
    ts.length < fuel →
    (UL.Src.UExt.parseIter.loop1 fuel ts u ts.head? ck ct).map uProj = UL.UExt.loop ts u ck ct := by
  induction ts with
  | nil =>
    intro fuel u ck ct h
    cases fuel with
    | zero => simp at h
    | succ f => simp [UL.Src.UExt.parseIter.loop1, UL.UExt.loop, Res.map, uProj]
  | cons t ts ih =>
    intro fuel u ck ct h
    cases fuel with
    | zero => simp at h
    | succ f =>
      have hf : ts.length < f := by simp at h; omega
      unfold UL.Src.UExt.parseIter.loop1 UL.UExt.loop
      simp only [List.head?_cons, List.tail_cons, parseKey_eq, parseType_eq, parseAttribute_eq, isType_eq, isAttribute_eq]
      by_cases h1 : (t.length == 2) = true
      · simp only [h1, if_true]
        cases ck with
        | some k0 =>
          cases hk : UL.parseKey t with
          | ok k => simp [Res.bind, UExt.flush, ih f _ (some k) [] hf]
          | err e => simp [Res.bind, Res.map]
          | panic => simp [Res.bind, Res.map]
        | none =>
          cases hk : UL.parseKey t with
          | ok k => simp [Res.bind, UExt.flush, ih f _ (some k) ct hf]
          | err e => simp [Res.bind, Res.map]
          | panic => simp [Res.bind, Res.map]
      · simp only [h1]
        by_cases h2 : (ck.isSome && isTypeShape t) = true
        · simp only [h2, if_true]
          cases hk : UL.parseType t with
          | ok o =>
            cases o with
            | some ty => simp [Res.bind, ih f u ck (ct ++ [ty]) hf]
            | none => simp [Res.bind, ih f u ck ct hf]
          | err e => simp [Res.bind, Res.map]
          | panic => simp [Res.bind, Res.map]
        · simp only [h2]
          by_cases h3 : isTypeShape t = true
          · simp only [h3, if_true]
            cases hk : UL.parseAttribute t with
            | ok a => simp [Res.bind, ih f _ ck ct hf]
            | err e => simp [Res.bind, Res.map]
            | panic => simp [Res.bind, Res.map]
          · simp [h3, Res.map, uProj]

/-- `UnicodeExtensionList::try_from_iter` as the source says it = the model's `UExt.parseIter`. -/
theorem UExt.parseIter_eq : ∀ ts, UL.Src.UExt.parseIter ts = UL.UExt.parseIter ts := by
  intro ts
  unfold UL.Src.UExt.parseIter UL.UExt.parseIter
  refine Eq.trans (bind_eq_map _ _ uProj ?_) (UExt.loop1_eq ts _ {} none [] (by omega))
  intro ⟨it, u, sp, ck, ct⟩
  cases ck <;> simp [uProj, UExt.finish, UExt.flush]

end UL.SrcTie
