/-
  SrcTie/ExtMapParseIter.lean — `ExtensionsMap::try_from_iter` and its `while let` loop
  (the definition srclean derives from the CURRENT Rust source text equals the hand-written model definition, for all
  inputs; a `while let` loop of the source is a fuel-driven definition in `Gen/SrcParse.lean`, the lemmas hold for every fuel
  above the number of subtags left and the callers pass `length + 2`, so the equality is also the proof that the Rust loop
  terminates: out of fuel would be `Res.panic`, which the model provably never returns)
-/
import UnicLocale.SrcTie.UExtParseIter
import UnicLocale.SrcTie.TExtParseIter
import UnicLocale.SrcTie.PExtParseIter
import UnicLocale.SrcTie.ExtTypeFromByte
import UnicLocale.Lemmas.Total

set_option linter.unusedSimpArgs false
set_option linter.unusedVariables false

namespace UL.SrcTie
open UL

/-! ### the extensions map -/

theorem ExtType.fromByte_ne_panic (b : Nat) : UL.ExtType.fromByte b ≠ .panic := by
  unfold UL.ExtType.fromByte
  simp only []
  split
  · simp
  · split
    · simp
    · split
      · simp
      · split <;> simp

/-- the source's loop keeps the current subtag in `st` and the rest in the iterator; the model's loop runs on the
    list `st :: rest`.  Both are driven by fuel (the sub-parsers hand back a list that is not a syntactic sub-term). -/
theorem ExtMap.loop1_eq : ∀ (fs : Nat) (xs : List Bytes) (fm : Nat) (m : ExtMap) (su st : Bool),
    xs.length < fs → xs.length < fm →
    (UL.Src.ExtMap.parseIter.loop1 fs xs.tail m su st xs.head?).map (fun o => (o.2.1, o.1))
      = (UL.ExtMap.loop fm xs m su st).map (fun r => (r, [])) := by
  intro fs
  induction fs with
  | zero => intro xs fm m su st h; simp at h
  | succ f ih =>
    intro xs fm m su st hs hm
    cases fm with
    | zero => simp at hm
    | succ g =>
      cases xs with
      | nil => simp [UL.Src.ExtMap.parseIter.loop1, UL.ExtMap.loop, Res.map]
      | cons t ts =>
        have hf : ts.length < f := by simp at hs; omega
        have hg : ts.length < g := by simp at hm; omega
        unfold UL.Src.ExtMap.parseIter.loop1 UL.ExtMap.loop
        simp only [List.head?_cons, List.tail_cons, ExtType.fromByte_eq, UExt.parseIter_eq, TExt.parseIter_eq, PExt.parseIter_eq]
        by_cases h1 : t.length > 1
        · simp [h1, Res.map]
        · simp only [h1, decide_false, Bool.false_eq_true, if_false]
          cases t with
          | nil =>
            simp only [List.head?_nil, Option.map_none]
            exact ih ts g m su st hf hg
          | cons b bs =>
            simp only [List.head?_cons, Option.map_some]
            have hnp := ExtType.fromByte_ne_panic b
            cases hb : UL.ExtType.fromByte b with
            | panic => exact absurd hb hnp
            | err e => simp [Res.map]
            | ok ty =>
              cases ty with
              | unicode =>
                simp only []
                by_cases hsu : su = true
                · simp [hsu, Res.map]
                · simp only [hsu, Bool.false_eq_true, if_false]
                  cases hu : UL.UExt.parseIter ts with
                  | err e => simp [Res.bind, Res.map]
                  | panic => simp [Res.bind, Res.map]
                  | ok o =>
                    obtain ⟨u, rest⟩ := o
                    have hl := UL.Tot.UExt.parseIter_rest_length hu
                    simp only [Res.bind]
                    exact ih rest g _ true st (by omega) (by omega)
              | transform =>
                simp only []
                by_cases hst : st = true
                · simp [hst, Res.map]
                · simp only [hst, Bool.false_eq_true, if_false]
                  cases hu : UL.TExt.parseIter ts with
                  | err e => simp [Res.bind, Res.map]
                  | panic => simp [Res.bind, Res.map]
                  | ok o =>
                    obtain ⟨x, rest⟩ := o
                    have hl := UL.Tot.TExt.parseIter_rest_length hu
                    simp only [Res.bind]
                    exact ih rest g _ su true (by omega) (by omega)
              | priv =>
                simp only []
                cases hu : UL.PExt.parseIter ts with
                | err e => simp [Res.bind, Res.map]
                | panic => simp [Res.bind, Res.map]
                | ok p =>
                  simp only [Res.bind, Res.map, List.tail_nil, List.head?_nil]
                  cases f with
                  | zero => omega
                  | succ f' => simp [UL.Src.ExtMap.parseIter.loop1, Res.map]
              | other => simp [Res.map]

/-- `ExtensionsMap::try_from_iter` as the source says it = the model's `ExtMap.parseIter`. -/
theorem ExtMap.parseIter_eq : ∀ ts, UL.Src.ExtMap.parseIter ts = (UL.ExtMap.parseIter ts).map (fun m => (m, [])) := by
  intro ts
  unfold UL.Src.ExtMap.parseIter UL.ExtMap.parseIter
  refine Eq.trans (bind_eq_map _ _ (fun o => (o.2.1, o.1)) ?_) ?_
  · intro ⟨a, b, c, d, e⟩; rfl
  · exact ExtMap.loop1_eq (List.length ts.tail + 2) ts (ts.length + 1) {} false false
      (by cases ts <;> simp) (by omega)

end UL.SrcTie
