/-
  SrcTie/MacrosLocales.lean — the list macro `locales` of `unic-locale/src/lib.rs`: read from its CURRENT `macro_rules!` text (exactly the two-arm shape
  "map every element through `locale!`, with or without a trailing comma" is accepted by srclean), it is the model's `Macros.list` over the
  source-derived `locale!`, hence equal to the model of the list macro for every list of literals.
-/
import UnicLocale.Gen.SrcMacros
import UnicLocale.SrcTie.MacrosLocale

set_option linter.unusedSimpArgs false
set_option linter.unusedVariables false

namespace UL.SrcTie
open UL

theorem Macros.locales_eq : ∀ ls, UL.Src.Macros.locales ls = (UL.Macros.list UL.Macros.locale) ls := by
  intro ls
  unfold UL.Src.Macros.locales
  have h : UL.Src.Macros.locale = UL.Macros.locale := funext UL.SrcTie.Macros.locale_eq
  rw [h]

end UL.SrcTie
