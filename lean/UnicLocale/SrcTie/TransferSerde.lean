/-
  SrcTie/TransferSerde.lean — C19 about the SOURCE-DERIVED serde impls (`UL.Src.Serde.*`, what srclean derives from the current text
  of `unic-langid-impl/src/serde.rs`), the source-derived `Display` and the source-derived parser: the serialised form is the canonical
  string, a string deserialises exactly as it parses, every obtainable value round-trips, anything that is not a string is an error,
  never a panic.  serde's own side (`Wire`) is the contract of `Model/Serde.lean`.
-/
import UnicLocale.SrcTie.Serde
import UnicLocale.SrcTie.Parse
import UnicLocale.Props.C19

namespace UL.SrcTie.TransferSerde
open UL

theorem serialize_is_display (x : LangId) : UL.Src.Serde.serialize x = .str (UL.Src.LangId.fmt x []) := rfl

theorem serialized_is_canonical (x : LangId) (h : x.inv = true) :
    ∃ s, UL.Src.Serde.serialize x = .str s ∧ Spec.isCanonicalLangId s = true ∧
      ∀ b ∈ s, isAlnum b = true ∨ b = 45 := by
  rw [UL.SrcTie.Serde.serialize_eq]
  exact UL.Props.C19.serialized_is_canonical x h

theorem deserialize_str (s : Bytes) : UL.Src.Serde.deserialize (.str s) = UL.Src.LangId.fromBytes s := by
  rw [UL.SrcTie.Serde.deserialize_eq, UL.SrcTie.LangId.fromBytes_eq]; rfl

theorem roundtrip (x : LangId) (h : x.inv = true) : UL.Src.Serde.deserialize (UL.Src.Serde.serialize x) = .ok x := by
  rw [UL.SrcTie.Serde.deserialize_eq, UL.SrcTie.Serde.serialize_eq]
  exact UL.Props.C19.roundtrip x h

theorem roundtrip_parsed (bs : Bytes) (x : LangId) (h : UL.Src.LangId.fromBytes bs = .ok x) :
    UL.Src.Serde.deserialize (UL.Src.Serde.serialize x) = .ok x := by
  rw [UL.SrcTie.LangId.fromBytes_eq] at h
  rw [UL.SrcTie.Serde.deserialize_eq, UL.SrcTie.Serde.serialize_eq]
  exact UL.Props.C19.roundtrip_parsed bs x h

theorem never_panics (w : Wire) : (UL.Src.Serde.deserialize w).isPanic = false := by
  rw [UL.SrcTie.Serde.deserialize_eq]; exact UL.Props.C19.never_panics w

end UL.SrcTie.TransferSerde
