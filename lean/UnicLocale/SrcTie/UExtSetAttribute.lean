/-
  SrcTie/UExtSetAttribute.lean — `set_attribute`: the definition srclean derives from the CURRENT Rust source text (`&mut self` translated as a
  returned new value, `Vec` / `BTreeMap` mutation as rebinding, `binary_search` / `Vec::insert` / `Vec::remove` with their
  panic branches) equals the hand-written model definition, for all inputs.
-/
import UnicLocale.SrcTie.OpsLemmas
import UnicLocale.SrcTie.Ext

set_option linter.unusedSimpArgs false
set_option linter.unusedVariables false

namespace UL.SrcTie
open UL

theorem UExt.setAttribute_eq : ∀ u a, UL.Src.UExt.setAttribute u a = UL.UExt.setAttribute u a := by
  intro u a
  unfold UL.Src.UExt.setAttribute UL.UExt.setAttribute
  rw [parseAttribute_eq]
  cases UL.parseAttribute a with
  | ok x =>
    simp only [Res.bind, Res.map]
    cases h : binarySearchBy u.attributes (cmpBytes x) with
    | inl i => rfl
    | inr i =>
      have := binarySearchBy_inr_le _ _ _ h
      simp [UL.Src.vecInsert, this, Res.bind]
  | err e => rfl
  | panic => rfl

end UL.SrcTie
