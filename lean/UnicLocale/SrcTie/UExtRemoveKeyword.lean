/-
  SrcTie/UExtRemoveKeyword.lean — `remove_keyword`: the definition srclean derives from the CURRENT Rust source text (`&mut self` translated as a
  returned new value, `Vec` / `BTreeMap` mutation as rebinding, `binary_search` / `Vec::insert` / `Vec::remove` with their
  panic branches) equals the hand-written model definition, for all inputs.
-/
import UnicLocale.SrcTie.OpsLemmas
import UnicLocale.SrcTie.Ext

set_option linter.unusedSimpArgs false
set_option linter.unusedVariables false

namespace UL.SrcTie
open UL

theorem UExt.removeKeyword_eq : ∀ u k, UL.Src.UExt.removeKeyword u k = UL.UExt.removeKeyword u k := by
  intro u k
  unfold UL.Src.UExt.removeKeyword UL.UExt.removeKeyword
  rw [parseKey_eq]
  cases UL.parseKey k <;> simp [Res.bind, Res.map]

end UL.SrcTie
