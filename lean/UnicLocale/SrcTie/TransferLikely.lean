/-
  SrcTie/TransferLikely.lean — property theorems restated about the likely-subtags cascade and `character_direction` that `srclean`
  derives from the CURRENT Rust source text (`Gen/SrcLikely.lean`), instantiated at the tables read from the compiled crate on this
  run (`Gen.tables`, `Gen.layout`).  Each is the theorem of `Props/` rewritten with `UL.SrcTie.*_eq`.
-/
import UnicLocale.SrcTie.Likely
import UnicLocale.Props.C01
import UnicLocale.Props.C06
import UnicLocale.Props.C07
import UnicLocale.Props.C08

namespace UL.SrcTie.TransferLikely
open UL

/-- C01: on the compiled tables neither the `.unwrap()` of `lang_from_parts` nor a table index out of range is reachable, for
    any (language, script, region) — valid subtags or not -/
theorem likely_never_panics (l : Language) (s r : Option Bytes) :
    (Src.Likely.maximize Gen.tables l s r).isPanic = false ∧ (Src.Likely.minimize Gen.tables l s r).isPanic = false := by
  rw [UL.SrcTie.Likely.maximize_eq, UL.SrcTie.Likely.minimize_eq]; exact UL.Props.C01.likely_total_compiled l s r

theorem direction_never_panics (x : LangId) : (Src.LangId.direction Gen.tables Gen.layout x).isPanic = false := by
  rw [UL.SrcTie.LangId.direction_eq]; exact UL.Props.C01.direction_total_compiled true x

/-- C06: `maximize`, as the source says it, on the compiled tables is the dictionary specification over the CLDR data -/
theorem maximize_is_cldr (l : Language) (s r : Option Bytes) (hv : validTriple l s r = true) :
    Src.Likely.maximize Gen.tables l s r = .ok (Spec.maximize (Spec.findAssoc Gen.cldr) l s r) := by
  rw [UL.SrcTie.Likely.maximize_eq]; exact UL.Props.C06.maximize_eq_cldr l s r hv

/-- C07: it only adds subtags and fills all three (any well-formed tables) -/
theorem maximize_extends (T : Tables) (hT : tablesWF T = true) (l : Language) (s r : Option Bytes)
    (hv : validTriple l s r = true)
    (l' : Language) (s' r' : Option Bytes) (h : Src.Likely.maximize T l s r = .ok (some (l', s', r'))) :
    (l.isSome = true → l' = l) ∧ (s.isSome = true → s' = s) ∧ (r.isSome = true → r' = r) ∧
      l'.isSome = true ∧ s'.isSome = true ∧ r'.isSome = true ∧ validTriple l' s' r' = true := by
  rw [UL.SrcTie.Likely.maximize_eq] at h; exact UL.Props.C07.maximize_extends T hT l s r hv l' s' r' h

end UL.SrcTie.TransferLikely
