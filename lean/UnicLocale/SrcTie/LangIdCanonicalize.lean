/-
  SrcTie/LangIdCanonicalize.lean — `canonicalize` (unic-langid-impl): the definition srclean derives from the CURRENT Rust source text (`fmt::Formatter` translated as the
  bytes written so far, `for` loops as structural recursion over the list) equals the hand-written model definition, for all
  inputs.
-/
import UnicLocale.SrcTie.LangIdFmt
import UnicLocale.SrcTie.LangIdFromBytes

set_option linter.unusedSimpArgs false
set_option linter.unusedVariables false

namespace UL.SrcTie
open UL

theorem LangId.canonicalize_eq : ∀ bs, UL.Src.LangId.canonicalize bs = UL.LangId.canonicalize bs := by
  intro bs
  unfold UL.Src.LangId.canonicalize UL.LangId.canonicalize
  rw [LangId.fromBytes_eq]
  cases UL.LangId.fromBytes bs <;> simp [Res.bind, Res.map, LangId.fmt_eq]

end UL.SrcTie
