/-
  SrcTie/LanguageToRawRef.lean — `From<&Language> for Option<u64>`: the definition srclean derives from the CURRENT Rust source text of this conversion equals the
  model's reading of it (`u64::from_le_bytes(*s.all_bytes())` is `pack`, `TinyStrN::from_bytes_unchecked(v.to_le_bytes())` is `unpack`:
  tinystr's contract, `Model/Likely.lean`), for all inputs.  Every `.into()` / `from_raw_unchecked(..)` call site of the likely-subtags
  cascade and of `character_direction` rests on these theorems.
-/
import UnicLocale.Gen.SrcLikely
import UnicLocale.Model.Likely
import UnicLocale.Model.Locale

set_option linter.unusedSimpArgs false
set_option linter.unusedVariables false

namespace UL.SrcTie
open UL

theorem Language.toRawRef_eq : ∀ (l : Option Bytes), UL.Src.Language.toRawRef l = Option.map UL.pack l := by intro l; rfl

end UL.SrcTie
