/-
  SrcTie/RegionFromBytes.lean — the definition srclean derives from the Rust source text of this item equals
  the hand-written model definition `UL.Region.fromBytes`, for all inputs.
-/
import UnicLocale.SrcTie.Tactic
import UnicLocale.Gen.Src
import UnicLocale.Model.Subtags

set_option linter.unusedSimpArgs false

namespace UL.SrcTie

theorem Region.fromBytes_eq : ∀ v, UL.Src.Region.fromBytes v = UL.Region.fromBytes v := by
  src_tie_tac [UL.Src.Region.fromBytes, UL.Region.fromBytes]

end UL.SrcTie
