/-
  SrcTie/VariantEqStr2.lean — `PartialEq<str> for Variant`: the definition srclean derives from the CURRENT Rust source text of this trait impl / method equals the
  hand-written model definition, for all inputs.
-/
import UnicLocale.Gen.SrcParse
import UnicLocale.Model.Locale

set_option linter.unusedSimpArgs false
set_option linter.unusedVariables false

namespace UL.SrcTie
open UL

theorem Variant.eqStr2_eq : ∀ (s t : Bytes), UL.Src.Variant.eqStr2 s t = (s == t) := by intro s t; rfl

end UL.SrcTie
