/-
  SrcTie/LocaleCanonicalize.lean — `canonicalize` (unic-locale-impl): the definition srclean derives from the CURRENT Rust source text (`fmt::Formatter` translated as the
  bytes written so far, `for` loops as structural recursion over the list) equals the hand-written model definition, for all
  inputs.
-/
import UnicLocale.SrcTie.LocaleFmt
import UnicLocale.SrcTie.LocaleFromBytes

set_option linter.unusedSimpArgs false
set_option linter.unusedVariables false

namespace UL.SrcTie
open UL

theorem Locale.canonicalize_eq : ∀ bs, UL.Src.Locale.canonicalize bs = UL.Locale.canonicalize bs := by
  intro bs
  unfold UL.Src.Locale.canonicalize UL.Locale.canonicalize
  rw [Locale.fromBytes_eq]
  cases UL.Locale.fromBytes bs <;> simp [Res.bind, Res.map, Locale.fmt_eq]

end UL.SrcTie
