/-
  SrcTie/UExtRemoveAttribute.lean — `remove_attribute`: the definition srclean derives from the CURRENT Rust source text (`&mut self` translated as a
  returned new value, `Vec` / `BTreeMap` mutation as rebinding, `binary_search` / `Vec::insert` / `Vec::remove` with their
  panic branches) equals the hand-written model definition, for all inputs.
-/
import UnicLocale.SrcTie.OpsLemmas
import UnicLocale.SrcTie.Ext

set_option linter.unusedSimpArgs false
set_option linter.unusedVariables false

namespace UL.SrcTie
open UL

theorem UExt.removeAttribute_eq : ∀ u a, UL.Src.UExt.removeAttribute u a = UL.UExt.removeAttribute u a := by
  intro u a
  unfold UL.Src.UExt.removeAttribute UL.UExt.removeAttribute
  rw [parseAttribute_eq]
  cases UL.parseAttribute a with
  | ok x =>
    simp only [Res.bind, Res.map]
    cases h : binarySearchBy u.attributes (cmpBytes x) with
    | inl i =>
      have := binarySearchBy_inl_lt _ _ _ h
      simp [UL.Src.vecRemove, List.getElem?_eq_getElem this, Res.bind]
    | inr i => rfl
  | err e => rfl
  | panic => rfl

end UL.SrcTie
