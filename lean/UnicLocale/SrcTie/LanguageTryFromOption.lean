/-
  SrcTie/LanguageTryFromOption.lean — `TryFrom<Option<T>> for Language`: the definition srclean derives from the CURRENT Rust source text of this trait impl / method equals the
  hand-written model definition, for all inputs.
-/
import UnicLocale.Gen.SrcParse
import UnicLocale.Model.Locale
import UnicLocale.SrcTie.Subtags

set_option linter.unusedSimpArgs false
set_option linter.unusedVariables false

namespace UL.SrcTie
open UL

theorem Language.tryFromOption_eq : ∀ o, UL.Src.Language.tryFromOption o = UL.Language.tryFromOption o := by
  intro o
  cases o with
  | none => rfl
  | some v =>
    simp only [UL.Src.Language.tryFromOption, UL.Language.tryFromOption, Language.fromBytes_eq]
    cases UL.Language.fromBytes v <;> rfl

end UL.SrcTie
