/-
  SrcTie/PExtAddTag.lean — `add_tag`: the definition srclean derives from the CURRENT Rust source text (`&mut self` translated as a
  returned new value, `Vec` / `BTreeMap` mutation as rebinding, `binary_search` / `Vec::insert` / `Vec::remove` with their
  panic branches) equals the hand-written model definition, for all inputs.
-/
import UnicLocale.SrcTie.OpsLemmas
import UnicLocale.SrcTie.Ext

set_option linter.unusedSimpArgs false
set_option linter.unusedVariables false

namespace UL.SrcTie
open UL

theorem PExt.addTag_eq : ∀ (p : List Bytes) t, UL.Src.PExt.addTag p t = UL.PExt.addTag p t := by
  intro p t
  unfold UL.Src.PExt.addTag UL.PExt.addTag
  rw [parsePrivate_eq]
  cases UL.parsePrivate t <;> simp [Res.bind, Res.map]

end UL.SrcTie
