/-
  SrcTie/Serde.lean — group module: the two serde impls as the source says them equal the model.
-/
import UnicLocale.SrcTie.SerdeSerialize
import UnicLocale.SrcTie.SerdeDeserialize
