/-
  SrcTie/Glue.lean — group module: FromStr / PartialEq<&str> / conversion impls as the source says them equal the model.
-/
import UnicLocale.SrcTie.LanguageFromStr
import UnicLocale.SrcTie.ScriptFromStr
import UnicLocale.SrcTie.RegionFromStr
import UnicLocale.SrcTie.VariantFromStr
import UnicLocale.SrcTie.ScriptAsStr
import UnicLocale.SrcTie.RegionAsStr
import UnicLocale.SrcTie.VariantAsStr
import UnicLocale.SrcTie.LanguageEqStr
import UnicLocale.SrcTie.ScriptEqStr
import UnicLocale.SrcTie.RegionEqStr
import UnicLocale.SrcTie.VariantEqStr
import UnicLocale.SrcTie.VariantEqStr2
import UnicLocale.SrcTie.LanguageClear
import UnicLocale.SrcTie.LanguageTryFromOption
import UnicLocale.SrcTie.LangIdFromStr
import UnicLocale.SrcTie.LangIdEqStr
import UnicLocale.SrcTie.ExtMapFromStr
import UnicLocale.SrcTie.LocaleFromStr
import UnicLocale.SrcTie.LocaleOfLangId
import UnicLocale.SrcTie.LocaleToLangId
