/-
  SrcTie/LangIdMinimize.lean — `LanguageIdentifier::minimize`: the definition srclean derives from the CURRENT Rust source text (the tables are the model's
  parameters `T : Tables`, `L : Layout`; `binary_search_by_key(..).ok()` + `TABLE[i]` with its out-of-range panic, `.unwrap()`,
  the integer conversions by contract) equals the hand-written model definition, for all inputs and all tables.
-/
import UnicLocale.SrcTie.LikelyMinimize

set_option linter.unusedSimpArgs false
set_option linter.unusedVariables false

namespace UL.SrcTie
open UL

theorem LangId.minimize_eq : ∀ T x, UL.Src.LangId.minimize T x = UL.LangId.minimize T x := by
  intro T x
  unfold UL.Src.LangId.minimize UL.LangId.minimize UL.LangId.applyTriple
  rw [Likely.minimize_eq]
  cases UL.Likely.minimize T x.language x.script x.region with
  | ok o => cases o with
    | none => rfl
    | some t => obtain ⟨a, b, c⟩ := t; rfl
  | err e => rfl
  | panic => rfl

end UL.SrcTie
