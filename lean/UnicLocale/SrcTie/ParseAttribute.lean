/-
  SrcTie/ParseAttribute.lean — the definition srclean derives from the Rust source text of this item equals
  the hand-written model definition `UL.parseAttribute`, for all inputs.
-/
import UnicLocale.SrcTie.Tactic
import UnicLocale.Gen.Src
import UnicLocale.Model.Ext

set_option linter.unusedSimpArgs false

namespace UL.SrcTie

theorem parseAttribute_eq : ∀ v, UL.Src.parseAttribute v = UL.parseAttribute v := by
  src_tie_tac [UL.Src.parseAttribute, UL.parseAttribute]

end UL.SrcTie
