/-
  SrcTie/LanguageAsStr.lean — the definition srclean derives from the Rust source text of this item equals
  the hand-written model definition `UL.Language.asStr`, for all inputs.
-/
import UnicLocale.SrcTie.Tactic
import UnicLocale.Gen.Src
import UnicLocale.Model.Subtags

set_option linter.unusedSimpArgs false

namespace UL.SrcTie

theorem Language.asStr_eq : ∀ l, UL.Src.Language.asStr l = UL.Language.asStr l := by
  src_tie_tac [UL.Src.Language.asStr, UL.Language.asStr]

end UL.SrcTie
