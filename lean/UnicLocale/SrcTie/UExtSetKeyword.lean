/-
  SrcTie/UExtSetKeyword.lean — `set_keyword`: the definition srclean derives from the CURRENT Rust source text (`&mut self` translated as a
  returned new value, `Vec` / `BTreeMap` mutation as rebinding, `binary_search` / `Vec::insert` / `Vec::remove` with their
  panic branches) equals the hand-written model definition, for all inputs.
-/
import UnicLocale.SrcTie.OpsLemmas
import UnicLocale.SrcTie.Ext

set_option linter.unusedSimpArgs false
set_option linter.unusedVariables false

namespace UL.SrcTie
open UL

theorem UExt.setKeyword_eq : ∀ u k vs, UL.Src.UExt.setKeyword u k vs = UL.UExt.setKeyword u k vs := by
  intro u k vs
  unfold UL.Src.UExt.setKeyword UL.UExt.setKeyword
  rw [parseKey_eq, collectOpt_eq _ parseType (fun t => parseType_eq t)]
  cases UL.parseKey k with
  | ok x => cases collectTypes parseType vs <;> simp [Res.bind, Res.map]
  | err e => rfl
  | panic => rfl

end UL.SrcTie
