/-
  SrcTie/LangIdParseIter.lean — `parse_language_identifier_from_iter` and its `while let` loop
  (the definition srclean derives from the CURRENT Rust source text equals the hand-written model definition, for all
  inputs; a `while let` loop of the source is a fuel-driven definition in `Gen/SrcParse.lean`, the lemmas hold for every fuel
  above the number of subtags left and the callers pass `length + 2`, so the equality is also the proof that the Rust loop
  terminates: out of fuel would be `Res.panic`, which the model provably never returns)
-/
import UnicLocale.SrcTie.Subtags
import UnicLocale.SrcTie.ParseLemmas

set_option linter.unusedSimpArgs false
set_option linter.unusedVariables false

namespace UL.SrcTie
open UL

/-- what the source-derived loop returns, in the model loop's order -/
def liProj (o : List Bytes × Option Bytes × Option Bytes × List Bytes × Nat) :
    Option Bytes × Option Bytes × List Bytes × List Bytes := (o.2.1, o.2.2.1, o.2.2.2.1, o.1)

theorem LangId.loop1_eq (ts : List Bytes) : ∀ (fuel pos : Nat) (ae : Bool) (lang s r : Option Bytes) (vs : List Bytes),
    ts.length < fuel →
    (UL.Src.LangId.parseIter.loop1 fuel ts ae lang s r vs pos).map liProj = UL.LangId.loop pos ts s r vs := by
  induction ts with
  | nil =>
    intro fuel pos ae lang s r vs h
    cases fuel with
    | zero => simp at h
    | succ f => simp [UL.Src.LangId.parseIter.loop1, UL.LangId.loop, Res.map, liProj]
  | cons t ts ih =>
    intro fuel pos ae lang s r vs h
    cases fuel with
    | zero => simp at h
    | succ f =>
      have hf : ts.length < f := by simp at h; omega
      unfold UL.Src.LangId.parseIter.loop1 UL.LangId.loop
      simp only [List.head?_cons, List.tail_cons, Script.fromBytes_eq, Region.fromBytes_eq, Variant.fromBytes_eq]
      by_cases h1 : (pos == 1) = true
      · simp only [h1, if_true]
        cases hs : UL.Script.fromBytes t with
        | ok sc => simp [ih f 2 ae lang (some sc) r vs hf]
        | panic => simp [Res.map]
        | err e =>
          simp only []
          cases hr : UL.Region.fromBytes t with
          | ok rg => simp [ih f 3 ae lang s (some rg) vs hf]
          | panic => simp [Res.map]
          | err e =>
            simp only []
            cases hv : UL.Variant.fromBytes t with
            | ok v => simp [ih f 3 ae lang s r (vs ++ [v]) hf]
            | panic => simp [Res.map]
            | err e => simp [Res.map, liProj]
      · simp only [h1]
        by_cases h2 : (pos == 2) = true
        · simp only [h2, if_true]
          cases hr : UL.Region.fromBytes t with
          | ok rg => simp [ih f 3 ae lang s (some rg) vs hf]
          | panic => simp [Res.map]
          | err e =>
            simp only []
            cases hv : UL.Variant.fromBytes t with
            | ok v => simp [ih f 3 ae lang s r (vs ++ [v]) hf]
            | panic => simp [Res.map]
            | err e => simp [Res.map, liProj]
        · simp only [h2]
          cases hv : UL.Variant.fromBytes t with
          | ok v => simp [ih f pos ae lang s r (vs ++ [v]) hf]
          | panic => simp [Res.map]
          | err e => simp [Res.map, liProj]


/-- the model loop never changes its mind about a panic: a convenient form of `loop1_eq` -/
theorem LangId.loop1_cases (ts : List Bytes) (fuel pos : Nat) (ae : Bool) (lang s r : Option Bytes) (vs : List Bytes)
    (h : ts.length < fuel) :
    (match UL.LangId.loop pos ts s r vs with
     | .ok (s', r', vs', rest) => ∃ p, UL.Src.LangId.parseIter.loop1 fuel ts ae lang s r vs pos = .ok (rest, s', r', vs', p)
     | .err e => UL.Src.LangId.parseIter.loop1 fuel ts ae lang s r vs pos = .err e
     | .panic => UL.Src.LangId.parseIter.loop1 fuel ts ae lang s r vs pos = .panic) := by
  have := LangId.loop1_eq ts fuel pos ae lang s r vs h
  cases hl : UL.Src.LangId.parseIter.loop1 fuel ts ae lang s r vs pos with
  | ok o =>
    rw [hl] at this; simp [Res.map, liProj] at this
    rw [← this]; obtain ⟨a, b, c, d, e⟩ := o; simp
  | err e => rw [hl] at this; simp [Res.map] at this; rw [← this]
  | panic => rw [hl] at this; simp [Res.map] at this; rw [← this]

/-- `parse_language_identifier_from_iter` as the source says it = the model's `LangId.parseIter`. -/
theorem LangId.parseIter_eq : ∀ ts ae, UL.Src.LangId.parseIter ts ae = UL.LangId.parseIter ts ae := by
  intro ts ae
  unfold UL.Src.LangId.parseIter UL.LangId.parseIter
  cases ts with
  | nil =>
    simp only [List.head?_nil, List.tail_nil, List.length_nil, Nat.zero_add]
    have h := LangId.loop1_cases [] 2 1 ae none none none [] (by simp)
    revert h
    cases UL.LangId.loop 1 [] none none [] with
    | ok o =>
      obtain ⟨s', r', vs', rest⟩ := o
      rintro ⟨p, hp⟩
      simp only [hp, Res.bind, Language.default, LangId.finishVariants]
      cases rest <;> cases ae <;> cases vs' <;> simp
    | err e => intro h; simp only [] at h; simp [h, Res.bind, Language.default]
    | panic => intro h; simp only [] at h; simp [h, Res.bind, Language.default]
  | cons t r0 =>
    simp only [List.head?_cons, List.tail_cons, Language.fromBytes_eq]
    cases hl : UL.Language.fromBytes t with
    | err e => simp [Res.bind, Res.map]
    | panic => simp [Res.bind, Res.map]
    | ok language =>
      simp only [Res.bind, Res.map]
      have h := LangId.loop1_cases r0 (List.length r0 + 2) 1 ae language none none [] (by omega)
      revert h
      cases UL.LangId.loop 1 r0 none none [] with
      | ok o =>
        obtain ⟨s', r', vs', rest⟩ := o
        rintro ⟨p, hp⟩
        simp only [hp, LangId.finishVariants]
        cases rest <;> cases ae <;> cases vs' <;> simp
      | err e => intro h; simp only [] at h; simp [h]
      | panic => intro h; simp only [] at h; simp [h]

end UL.SrcTie
