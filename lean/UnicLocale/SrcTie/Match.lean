/-
  SrcTie/Match.lean — group `Match`: all source-tie theorems of the group (one module per function,
  so that a failure can be attributed to a single function).
-/
import UnicLocale.SrcTie.LangIdSubtagMatches
import UnicLocale.SrcTie.LangIdIsOptionEmpty
import UnicLocale.SrcTie.LangIdSubtagsMatch
import UnicLocale.SrcTie.LangIdIsMatch
