/-
  SrcTie/ExtMapFromStr.lean — `FromStr for ExtensionsMap`: the definition srclean derives from the CURRENT Rust source text of this trait impl / method equals the
  hand-written model definition, for all inputs.
-/
import UnicLocale.Gen.SrcParse
import UnicLocale.Model.Locale
import UnicLocale.SrcTie.ExtMapFromBytes

set_option linter.unusedSimpArgs false
set_option linter.unusedVariables false

namespace UL.SrcTie
open UL

theorem ExtMap.fromStr_eq : ∀ v, UL.Src.ExtMap.fromStr v = UL.ExtMap.fromBytes v := by
  intro v; exact ExtMap.fromBytes_eq v

end UL.SrcTie
