/-
  SrcTie/ScriptFromBytes.lean — the definition srclean derives from the Rust source text of this item equals
  the hand-written model definition `UL.Script.fromBytes`, for all inputs.
-/
import UnicLocale.SrcTie.Tactic
import UnicLocale.Gen.Src
import UnicLocale.Model.Subtags

set_option linter.unusedSimpArgs false

namespace UL.SrcTie

theorem Script.fromBytes_eq : ∀ v, UL.Src.Script.fromBytes v = UL.Script.fromBytes v := by
  src_tie_tac [UL.Src.Script.fromBytes, UL.Script.fromBytes]

end UL.SrcTie
