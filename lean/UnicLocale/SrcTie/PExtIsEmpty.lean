/-
  SrcTie/PExtIsEmpty.lean — `PrivateExtensionList::is_empty`: the definition srclean derives from the CURRENT Rust source text (`fmt::Formatter` translated as the
  bytes written so far, `for` loops as structural recursion over the list) equals the hand-written model definition, for all
  inputs.
-/
import UnicLocale.SrcTie.FmtLemmas

set_option linter.unusedSimpArgs false
set_option linter.unusedVariables false

namespace UL.SrcTie
open UL

theorem PExt.isEmpty_eq : ∀ (p : List Bytes), UL.Src.PExt.isEmpty p = List.isEmpty p := by intro u; rfl

end UL.SrcTie
