/-
  SrcTie/ParseKey.lean — the definition srclean derives from the Rust source text of this item equals
  the hand-written model definition `UL.parseKey`, for all inputs.
-/
import UnicLocale.SrcTie.Tactic
import UnicLocale.Gen.Src
import UnicLocale.Model.Ext

set_option linter.unusedSimpArgs false

namespace UL.SrcTie

theorem parseKey_eq : ∀ v, UL.Src.parseKey v = UL.parseKey v := by
  src_tie_tac [UL.Src.parseKey, UL.parseKey]

end UL.SrcTie
