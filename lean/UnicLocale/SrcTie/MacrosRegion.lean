/-
  SrcTie/MacrosRegion.lean — the proc macro `region!`: the definition srclean derives from the CURRENT source text of `unic-langid-macros-impl/src/lib.rs`
  (parse the literal at build time, `quote!` an expression of `UL.MTok`, evaluate it as rustc does: `Model/MacroSem.lean`) equals the
  hand-written model of the expansion (`Model/Macros.lean`), for every literal.
-/
import UnicLocale.Gen.SrcMacros
import UnicLocale.SrcTie.Glue
import UnicLocale.SrcTie.Raw

set_option linter.unusedSimpArgs false
set_option linter.unusedVariables false

namespace UL.SrcTie
open UL

theorem Macros.region_eq : ∀ lit, UL.Src.Macros.region lit = UL.Macros.region lit := by
  intro lit
  unfold UL.Src.Macros.region UL.Macros.region
  rw [UL.SrcTie.Region.fromStr_eq]
  cases h : Region.fromBytes lit <;> simp [MTok.evalRegion, Macros.viaRaw]

end UL.SrcTie
