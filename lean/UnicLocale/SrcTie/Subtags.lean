/-
  SrcTie/Subtags.lean — group `Subtags`: all source-tie theorems of the group (one module per function,
  so that a failure can be attributed to a single function).
-/
import UnicLocale.SrcTie.LanguageFromBytes
import UnicLocale.SrcTie.LanguageAsStr
import UnicLocale.SrcTie.LanguageIsMatch
import UnicLocale.SrcTie.ScriptFromBytes
import UnicLocale.SrcTie.RegionFromBytes
import UnicLocale.SrcTie.VariantFromBytes
