/-
  SrcTie/SerdeDeserialize.lean — `impl Deserialize for LanguageIdentifier`: the definition srclean derives from the CURRENT text of
  `unic-langid-impl/src/serde.rs` (a visitor that defines `visit_str` only, which parses with the source-derived `FromStr`) equals the model.
-/
import UnicLocale.Gen.SrcSerde
import UnicLocale.SrcTie.LangIdFromStr

set_option linter.unusedSimpArgs false
set_option linter.unusedVariables false

namespace UL.SrcTie
open UL

theorem Serde.deserialize_eq : ∀ w, UL.Src.Serde.deserialize w = UL.Serde.deserialize w := by
  intro w
  unfold UL.Src.Serde.deserialize UL.Serde.deserialize
  cases w <;> simp only [UL.SrcTie.LangId.fromStr_eq]

end UL.SrcTie
