/-
  SrcTie/ListMacros.lean — group module: the declarative list macros of the façade crates.
-/
import UnicLocale.SrcTie.MacrosLangids
import UnicLocale.SrcTie.MacrosLangidSlice
import UnicLocale.SrcTie.MacrosLocales
