/-
  SrcTie/Transfer.lean — the property theorems, restated about the definitions that `srclean` derives from the CURRENT
  Rust source text (`UL.Src.*`, regenerated on every run).  Each is the corresponding theorem of `Props/` rewritten with the
  source-tie equality `UL.SrcTie.<f>_eq`: what is proved about the hand-written model holds, by proof, of what the source says.

  Built by `checklib/srctie.py` after the per-function theorems (module `UnicLocale.SrcTie.Transfer`); when a function is not
  tied on the current tree this module does not build and the evidence says so (the property theorems about the model stand
  regardless, tied to the code by the correspondence streams).
-/
import UnicLocale.SrcTie.Subtags
import UnicLocale.SrcTie.Match
import UnicLocale.Props.C15
import UnicLocale.Props.C11

namespace UL.SrcTie.Transfer
open UL

/-! ### C15: each subtag constructor, as the source text defines it, accepts exactly its UTS #35 production -/

theorem language_exact (v : Bytes) :
    Src.Language.fromBytes v = if Spec.isLanguage v then .ok (Spec.canonLanguage v) else .err .invalidLanguage := by
  rw [UL.SrcTie.Language.fromBytes_eq]; exact UL.Props.C15.language_exact v

theorem script_exact (v : Bytes) :
    Src.Script.fromBytes v = if Spec.isScript v then .ok (title v) else .err .invalidSubtag := by
  rw [UL.SrcTie.Script.fromBytes_eq]; exact UL.Props.C15.script_exact v

theorem region_exact (v : Bytes) :
    Src.Region.fromBytes v = if Spec.isRegion v then .ok (upper v) else .err .invalidSubtag := by
  rw [UL.SrcTie.Region.fromBytes_eq]; exact UL.Props.C15.region_exact v

theorem variant_exact (v : Bytes) :
    Src.Variant.fromBytes v = if Spec.isVariant v then .ok (lower v) else .err .invalidSubtag := by
  rw [UL.SrcTie.Variant.fromBytes_eq]; exact UL.Props.C15.variant_exact v

/-- the indexing `v[0]`, `v[1..]` of `Variant::from_bytes`, translated with its panic branch, never panics -/
theorem variant_no_panic (v : Bytes) : (Src.Variant.fromBytes v).isPanic = false := by
  rw [UL.SrcTie.Variant.fromBytes_eq]; exact UL.Props.C15.variant_no_panic v

theorem language_no_panic (v : Bytes) : (Src.Language.fromBytes v).isPanic = false := by
  rw [UL.SrcTie.Language.fromBytes_eq]; exact UL.Props.C15.language_no_panic v

theorem variant_roundtrip (v s : Bytes) (h : Src.Variant.fromBytes v = .ok s) : Src.Variant.fromBytes s = .ok s := by
  rw [UL.SrcTie.Variant.fromBytes_eq] at h ⊢; exact UL.Props.C15.variant_roundtrip v s h

theorem language_asStr (l : Language) : Src.Language.asStr l = UL.Language.asStr l := UL.SrcTie.Language.asStr_eq l

/-! ### C11: `matches`, as the source text defines it, is the field-wise wildcard predicate -/

theorem isMatch_eq_oracle (a b : LangId) (ra rb : Bool) : Src.LangId.isMatch a b ra rb = Spec.matchesB a b ra rb := by
  rw [UL.SrcTie.LangId.isMatch_eq]; exact UL.Props.C11.isMatch_eq_oracle a b ra rb

theorem isMatch_false_false (a b : LangId) : Src.LangId.isMatch a b false false = true ↔ a = b := by
  rw [UL.SrcTie.LangId.isMatch_eq]; exact UL.Props.C11.isMatch_false_false a b

theorem isMatch_swap (a b : LangId) (ra rb : Bool) : Src.LangId.isMatch a b ra rb = Src.LangId.isMatch b a rb ra := by
  rw [UL.SrcTie.LangId.isMatch_eq, UL.SrcTie.LangId.isMatch_eq]; exact UL.Props.C11.isMatch_swap a b ra rb

theorem isMatch_refl (a : LangId) (ra rb : Bool) : Src.LangId.isMatch a a ra rb = true := by
  rw [UL.SrcTie.LangId.isMatch_eq]; exact UL.Props.C11.isMatch_refl a ra rb

end UL.SrcTie.Transfer
