/-
  SrcTie/PExtHasTag.lean — `has_tag`: the definition srclean derives from the CURRENT Rust source text (`&mut self` translated as a
  returned new value, `Vec` / `BTreeMap` mutation as rebinding, `binary_search` / `Vec::insert` / `Vec::remove` with their
  panic branches) equals the hand-written model definition, for all inputs.
-/
import UnicLocale.SrcTie.OpsLemmas
import UnicLocale.SrcTie.Ext

set_option linter.unusedSimpArgs false
set_option linter.unusedVariables false

namespace UL.SrcTie
open UL

theorem PExt.hasTag_eq : ∀ (p : List Bytes) t, UL.Src.PExt.hasTag p t = UL.PExt.hasTag p t := by
  intro p t
  unfold UL.Src.PExt.hasTag UL.PExt.hasTag
  rw [parsePrivate_eq]
  cases UL.parsePrivate t <;> simp [Res.bind, Res.map]

end UL.SrcTie
