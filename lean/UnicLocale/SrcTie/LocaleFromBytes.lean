/-
  SrcTie/LocaleFromBytes.lean — `Locale::from_bytes`
  (the definition srclean derives from the CURRENT Rust source text equals the hand-written model definition, for all
  inputs; a `while let` loop of the source is a fuel-driven definition in `Gen/SrcParse.lean`, the lemmas hold for every fuel
  above the number of subtags left and the callers pass `length + 2`, so the equality is also the proof that the Rust loop
  terminates: out of fuel would be `Res.panic`, which the model provably never returns)
-/
import UnicLocale.SrcTie.LocaleParse

set_option linter.unusedSimpArgs false
set_option linter.unusedVariables false

namespace UL.SrcTie
open UL

/-- `Locale::from_bytes` -/
theorem Locale.fromBytes_eq : ∀ bs, UL.Src.Locale.fromBytes bs = UL.Locale.fromBytes bs := by
  intro bs
  unfold UL.Src.Locale.fromBytes
  simp only [Locale.parse_eq]
  cases UL.Locale.fromBytes bs <;> simp [Res.bind]

end UL.SrcTie
