/-
  SrcTie/TransferCfg.lean — C20 about the SOURCE-DERIVED definitions of every feature configuration.

  `srclean --features .. --ns ..` translates the current Rust source text once per cargo feature set of the implementation
  crates (`#[cfg]`, `#[cfg_attr]`, `cfg!` resolved for exactly that set first): `UL.SrcF0` (no feature), `UL.SrcFS` (serde),
  `UL.SrcFLS` (likelysubtags + serde + serde_json + binary); `UL.Src` is the default translation (likelysubtags).
  `Gen/<ns>/Eq.lean` (generated, proof scripts checked by Lean) proves every definition of every configuration equal to the
  default one for all inputs; `Gen/<ns>/Model.lean` chains that with `UL.SrcTie.<f>_eq` to the model.

  The statements below are what C20 says, about the code as the source text defines it in each configuration: the parsers,
  the printers, `canonicalize`, `matches`, `== &str` and the subtag constructors are THE SAME FUNCTIONS in all four feature
  sets (each equals one model definition that has no configuration parameter), and the one configuration-dependent function,
  `character_direction`, differs between a build without and a build with `likelysubtags` only for identifiers whose script
  decides nothing and whose language is RTL-listed, where the feature-less build answers RTL.
-/
import UnicLocale.Gen.F0.Model
import UnicLocale.Gen.FS.Model
import UnicLocale.Gen.FLS.Model
import UnicLocale.Props.C20

namespace UL.SrcTie.TransferCfg
open UL

/-- `Locale::from_bytes`: one function in all four feature sets -/
theorem locale_fromBytes_configs :
    @UL.SrcF0.Locale.fromBytes = UL.Locale.fromBytes ∧ @UL.SrcFS.Locale.fromBytes = UL.Locale.fromBytes ∧
    @UL.SrcFLS.Locale.fromBytes = UL.Locale.fromBytes ∧ @UL.Src.Locale.fromBytes = UL.Locale.fromBytes :=
  ⟨UL.CfgTie.F0.Locale.fromBytes_model, UL.CfgTie.FS.Locale.fromBytes_model, UL.CfgTie.FLS.Locale.fromBytes_model,
   funext UL.SrcTie.Locale.fromBytes_eq⟩

/-- `LanguageIdentifier::from_bytes` -/
theorem langid_fromBytes_configs :
    @UL.SrcF0.LangId.fromBytes = UL.LangId.fromBytes ∧ @UL.SrcFS.LangId.fromBytes = UL.LangId.fromBytes ∧
    @UL.SrcFLS.LangId.fromBytes = UL.LangId.fromBytes ∧ @UL.Src.LangId.fromBytes = UL.LangId.fromBytes :=
  ⟨UL.CfgTie.F0.LangId.fromBytes_model, UL.CfgTie.FS.LangId.fromBytes_model, UL.CfgTie.FLS.LangId.fromBytes_model,
   funext UL.SrcTie.LangId.fromBytes_eq⟩

/-- `ExtensionsMap::from_bytes` -/
theorem extmap_fromBytes_configs :
    @UL.SrcF0.ExtMap.fromBytes = UL.ExtMap.fromBytes ∧ @UL.SrcFS.ExtMap.fromBytes = UL.ExtMap.fromBytes ∧
    @UL.SrcFLS.ExtMap.fromBytes = UL.ExtMap.fromBytes :=
  ⟨UL.CfgTie.F0.ExtMap.fromBytes_model, UL.CfgTie.FS.ExtMap.fromBytes_model, UL.CfgTie.FLS.ExtMap.fromBytes_model⟩

/-- the two `canonicalize` -/
theorem canonicalize_configs :
    (@UL.SrcF0.Locale.canonicalize = UL.Locale.canonicalize ∧ @UL.SrcFS.Locale.canonicalize = UL.Locale.canonicalize ∧
     @UL.SrcFLS.Locale.canonicalize = UL.Locale.canonicalize) ∧
    (@UL.SrcF0.LangId.canonicalize = UL.LangId.canonicalize ∧ @UL.SrcFS.LangId.canonicalize = UL.LangId.canonicalize ∧
     @UL.SrcFLS.LangId.canonicalize = UL.LangId.canonicalize) :=
  ⟨⟨UL.CfgTie.F0.Locale.canonicalize_model, UL.CfgTie.FS.Locale.canonicalize_model, UL.CfgTie.FLS.Locale.canonicalize_model⟩,
   ⟨UL.CfgTie.F0.LangId.canonicalize_model, UL.CfgTie.FS.LangId.canonicalize_model, UL.CfgTie.FLS.LangId.canonicalize_model⟩⟩

/-- `Display for Locale` writes the same bytes in every configuration -/
theorem locale_display_configs (x : Locale) (f : Bytes) :
    UL.SrcF0.Locale.fmt x f = f ++ UL.Locale.display x ∧ UL.SrcFS.Locale.fmt x f = f ++ UL.Locale.display x ∧
    UL.SrcFLS.Locale.fmt x f = f ++ UL.Locale.display x := by
  refine ⟨?_, ?_, ?_⟩
  · rw [UL.CfgTie.F0.Locale.fmt_model]
  · rw [UL.CfgTie.FS.Locale.fmt_model]
  · rw [UL.CfgTie.FLS.Locale.fmt_model]

/-- `matches` of both types -/
theorem matches_configs :
    (@UL.SrcF0.LangId.isMatch = UL.LangId.isMatch ∧ @UL.SrcFS.LangId.isMatch = UL.LangId.isMatch ∧
     @UL.SrcFLS.LangId.isMatch = UL.LangId.isMatch) ∧
    (@UL.SrcF0.Locale.isMatch = UL.Locale.isMatch ∧ @UL.SrcFS.Locale.isMatch = UL.Locale.isMatch ∧
     @UL.SrcFLS.Locale.isMatch = UL.Locale.isMatch) :=
  ⟨⟨UL.CfgTie.F0.LangId.isMatch_model, UL.CfgTie.FS.LangId.isMatch_model, UL.CfgTie.FLS.LangId.isMatch_model⟩,
   ⟨UL.CfgTie.F0.Locale.isMatch_model, UL.CfgTie.FS.Locale.isMatch_model, UL.CfgTie.FLS.Locale.isMatch_model⟩⟩

/-- `== &str` -/
theorem eqStr_configs :
    @UL.SrcF0.LangId.eqStr = UL.LangId.eqStr ∧ @UL.SrcFS.LangId.eqStr = UL.LangId.eqStr ∧ @UL.SrcFLS.LangId.eqStr = UL.LangId.eqStr :=
  ⟨UL.CfgTie.F0.LangId.eqStr_model, UL.CfgTie.FS.LangId.eqStr_model, UL.CfgTie.FLS.LangId.eqStr_model⟩

/-- the four subtag constructors -/
theorem subtags_configs :
    (@UL.SrcF0.Language.fromBytes = UL.Language.fromBytes ∧ @UL.SrcFS.Language.fromBytes = UL.Language.fromBytes ∧
     @UL.SrcFLS.Language.fromBytes = UL.Language.fromBytes) ∧
    (@UL.SrcF0.Script.fromBytes = UL.Script.fromBytes ∧ @UL.SrcFS.Script.fromBytes = UL.Script.fromBytes ∧
     @UL.SrcFLS.Script.fromBytes = UL.Script.fromBytes) ∧
    (@UL.SrcF0.Region.fromBytes = UL.Region.fromBytes ∧ @UL.SrcFS.Region.fromBytes = UL.Region.fromBytes ∧
     @UL.SrcFLS.Region.fromBytes = UL.Region.fromBytes) ∧
    (@UL.SrcF0.Variant.fromBytes = UL.Variant.fromBytes ∧ @UL.SrcFS.Variant.fromBytes = UL.Variant.fromBytes ∧
     @UL.SrcFLS.Variant.fromBytes = UL.Variant.fromBytes) :=
  ⟨⟨UL.CfgTie.F0.Language.fromBytes_model, UL.CfgTie.FS.Language.fromBytes_model, UL.CfgTie.FLS.Language.fromBytes_model⟩,
   ⟨UL.CfgTie.F0.Script.fromBytes_model, UL.CfgTie.FS.Script.fromBytes_model, UL.CfgTie.FLS.Script.fromBytes_model⟩,
   ⟨UL.CfgTie.F0.Region.fromBytes_model, UL.CfgTie.FS.Region.fromBytes_model, UL.CfgTie.FLS.Region.fromBytes_model⟩,
   ⟨UL.CfgTie.F0.Variant.fromBytes_model, UL.CfgTie.FS.Variant.fromBytes_model, UL.CfgTie.FLS.Variant.fromBytes_model⟩⟩

/-- a mutator of each extension list, and of the identifier -/
theorem mutators_configs :
    (@UL.SrcF0.UExt.setKeyword = UL.UExt.setKeyword ∧ @UL.SrcFS.UExt.setKeyword = UL.UExt.setKeyword ∧
     @UL.SrcFLS.UExt.setKeyword = UL.UExt.setKeyword) ∧
    (@UL.SrcF0.TExt.setTField = UL.TExt.setTField ∧ @UL.SrcFS.TExt.setTField = UL.TExt.setTField ∧
     @UL.SrcFLS.TExt.setTField = UL.TExt.setTField) ∧
    (@UL.SrcF0.PExt.addTag = UL.PExt.addTag ∧ @UL.SrcFS.PExt.addTag = UL.PExt.addTag ∧ @UL.SrcFLS.PExt.addTag = UL.PExt.addTag) ∧
    (@UL.SrcF0.LangId.setVariants = UL.LangId.setVariants ∧ @UL.SrcFS.LangId.setVariants = UL.LangId.setVariants ∧
     @UL.SrcFLS.LangId.setVariants = UL.LangId.setVariants) :=
  ⟨⟨UL.CfgTie.F0.UExt.setKeyword_model, UL.CfgTie.FS.UExt.setKeyword_model, UL.CfgTie.FLS.UExt.setKeyword_model⟩,
   ⟨UL.CfgTie.F0.TExt.setTField_model, UL.CfgTie.FS.TExt.setTField_model, UL.CfgTie.FLS.TExt.setTField_model⟩,
   ⟨UL.CfgTie.F0.PExt.addTag_model, UL.CfgTie.FS.PExt.addTag_model, UL.CfgTie.FLS.PExt.addTag_model⟩,
   ⟨UL.CfgTie.F0.LangId.setVariants_model, UL.CfgTie.FS.LangId.setVariants_model, UL.CfgTie.FLS.LangId.setVariants_model⟩⟩

/-- serde alone changes nothing in `character_direction`: the two builds without `likelysubtags` agree, and so do the two
    builds with it -/
theorem direction_serde_irrelevant :
    @UL.SrcFS.LangId.directionNoLikely = @UL.SrcF0.LangId.directionNoLikely ∧ @UL.SrcFLS.LangId.direction = @UL.Src.LangId.direction := by
  refine ⟨?_, UL.CfgTie.FLS.LangId.direction_eq⟩
  rw [UL.CfgTie.FS.LangId.directionNoLikely_eq, UL.CfgTie.F0.LangId.directionNoLikely_eq]

/-- the model's feature-less `character_direction` never looks at the likely-subtags tables -/
theorem direction_false_tables (T T' : Tables) (L : Layout) (x : LangId) :
    LangId.direction false T L x = LangId.direction false T' L x := by
  rw [UL.Dir.LangId.direction_eq, UL.Dir.LangId.direction_eq, UL.Dir.LangId.byLang_false, UL.Dir.LangId.byLang_false]

/-- the one documented refinement, about the source-derived definitions of a build without and a build with `likelysubtags`:
    they can differ only when no listed script decides and the language is RTL-listed, and then the feature-less build says RTL -/
theorem direction_configs_differ_only (T : Tables) (L : Layout) (x : LangId)
    (h : UL.SrcF0.LangId.directionNoLikely L x ≠ UL.SrcFLS.LangId.direction T L x) :
    x.scriptListed L = false ∧ (∃ lb, x.language = some lb ∧ L.rtlLangs.contains (pack lb) = true) ∧
      UL.SrcF0.LangId.directionNoLikely L x = .ok .rtl := by
  rw [UL.CfgTie.F0.LangId.directionNoLikely_model, UL.CfgTie.FLS.LangId.direction_model] at h
  rw [UL.CfgTie.F0.LangId.directionNoLikely_model]
  simp only at h ⊢
  rw [direction_false_tables _ T] at h ⊢
  exact UL.Props.C20.direction_configs_differ_only T L x h

end UL.SrcTie.TransferCfg
