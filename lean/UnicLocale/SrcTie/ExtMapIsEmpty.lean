/-
  SrcTie/ExtMapIsEmpty.lean — `ExtensionsMap::is_empty`: the definition srclean derives from the CURRENT Rust source text (`fmt::Formatter` translated as the
  bytes written so far, `for` loops as structural recursion over the list) equals the hand-written model definition, for all
  inputs.
-/
import UnicLocale.SrcTie.UExtIsEmpty
import UnicLocale.SrcTie.TExtIsEmpty
import UnicLocale.SrcTie.PExtIsEmpty

set_option linter.unusedSimpArgs false
set_option linter.unusedVariables false

namespace UL.SrcTie
open UL

theorem ExtMap.isEmpty_eq : ∀ m, UL.Src.ExtMap.isEmpty m = UL.ExtMap.isEmpty m := by intro m; rfl

end UL.SrcTie
