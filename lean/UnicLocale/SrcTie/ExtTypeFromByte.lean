/-
  SrcTie/ExtTypeFromByte.lean — the definition srclean derives from the Rust source text of this item equals
  the hand-written model definition `UL.ExtType.fromByte`, for all inputs.
-/
import UnicLocale.SrcTie.Tactic
import UnicLocale.Gen.SrcExtType
import UnicLocale.Model.Ext

set_option linter.unusedSimpArgs false

namespace UL.SrcTie

theorem ExtType.fromByte_eq : ∀ k, UL.Src.ExtType.fromByte k = UL.ExtType.fromByte k := by
  src_tie_tac [UL.Src.ExtType.fromByte, UL.ExtType.fromByte]

end UL.SrcTie
