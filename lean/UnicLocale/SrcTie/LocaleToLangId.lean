/-
  SrcTie/LocaleToLangId.lean — `From<Locale> for LanguageIdentifier`: the definition srclean derives from the CURRENT Rust source text of this trait impl / method equals the
  hand-written model definition, for all inputs.
-/
import UnicLocale.Gen.SrcParse
import UnicLocale.Model.Locale

set_option linter.unusedSimpArgs false
set_option linter.unusedVariables false

namespace UL.SrcTie
open UL

theorem Locale.toLangId_eq : ∀ x, UL.Src.Locale.toLangId x = UL.Locale.toLangId x := by intro x; rfl

end UL.SrcTie
