/-
  SrcTie/PExtParseIter.lean — `PrivateExtensionList::try_from_iter` and its `for` loop
  (the definition srclean derives from the CURRENT Rust source text equals the hand-written model definition, for all
  inputs; a `while let` loop of the source is a fuel-driven definition in `Gen/SrcParse.lean`, the lemmas hold for every fuel
  above the number of subtags left and the callers pass `length + 2`, so the equality is also the proof that the Rust loop
  terminates: out of fuel would be `Res.panic`, which the model provably never returns)
-/
import UnicLocale.SrcTie.Ext
import UnicLocale.SrcTie.ParseLemmas
import UnicLocale.Model.Ext

set_option linter.unusedSimpArgs false
set_option linter.unusedVariables false

namespace UL.SrcTie
open UL

/-! ### `-x-` -/

theorem PExt.for1_eq (ts : List Bytes) : ∀ (it acc : List Bytes),
    UL.Src.PExt.parseIter.for1 ts it acc = (collectAll parsePrivate ts).map (fun r => ([], acc ++ r)) := by
  induction ts with
  | nil => intro it acc; simp [UL.Src.PExt.parseIter.for1, collectAll, Res.map]
  | cons t ts ih =>
    intro it acc
    unfold UL.Src.PExt.parseIter.for1 collectAll
    simp only [parsePrivate_eq]
    cases hp : UL.parsePrivate t with
    | ok a =>
      simp only [Res.bind]
      rw [ih]
      cases collectAll parsePrivate ts <;> simp [Res.map]
    | err e => simp [Res.bind, Res.map]
    | panic => simp [Res.bind, Res.map]

/-- `PrivateExtensionList::try_from_iter` as the source says it = the model's `PExt.parseIter`; the iterator is
    left empty. -/
theorem PExt.parseIter_eq : ∀ ts, UL.Src.PExt.parseIter ts = (UL.PExt.parseIter ts).map (fun p => (p, [])) := by
  intro ts
  unfold UL.Src.PExt.parseIter UL.PExt.parseIter
  simp only [PExt.for1_eq]
  cases collectAll parsePrivate ts <;> simp [Res.bind, Res.map]

end UL.SrcTie
