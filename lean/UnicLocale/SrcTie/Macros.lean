/-
  SrcTie/Macros.lean — group module: the six proc macros as the source says them equal the model of the expansions.
-/
import UnicLocale.SrcTie.MacrosLang
import UnicLocale.SrcTie.MacrosScript
import UnicLocale.SrcTie.MacrosRegion
import UnicLocale.SrcTie.MacrosVariant
import UnicLocale.SrcTie.MacrosLangid
import UnicLocale.SrcTie.MacrosLocale
