/-
  SrcTie/LangIdClearVariants.lean — `clear_variants`: the definition srclean derives from the CURRENT Rust source text (`&mut self` translated as a
  returned new value, `Vec` / `BTreeMap` mutation as rebinding, `binary_search` / `Vec::insert` / `Vec::remove` with their
  panic branches) equals the hand-written model definition, for all inputs.
-/
import UnicLocale.SrcTie.OpsLemmas
import UnicLocale.SrcTie.Ext

set_option linter.unusedSimpArgs false
set_option linter.unusedVariables false

namespace UL.SrcTie
open UL

theorem LangId.clearVariants_eq : ∀ x, UL.Src.LangId.clearVariants x = UL.LangId.clearVariants x := by intro x; rfl

end UL.SrcTie
