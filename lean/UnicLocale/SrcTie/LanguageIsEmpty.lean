/-
  SrcTie/LanguageIsEmpty.lean — `Language::is_empty`: the definition srclean derives from the CURRENT Rust source text (the tables are the model's
  parameters `T : Tables`, `L : Layout`; `binary_search_by_key(..).ok()` + `TABLE[i]` with its out-of-range panic, `.unwrap()`,
  the integer conversions by contract) equals the hand-written model definition, for all inputs and all tables.
-/
import UnicLocale.Gen.SrcLikely
import UnicLocale.Model.Likely

set_option linter.unusedSimpArgs false
set_option linter.unusedVariables false

namespace UL.SrcTie
open UL

theorem Language.isEmpty_eq : ∀ (l : Option Bytes), UL.Src.Language.isEmpty l = Option.isNone l := by intro l; rfl

end UL.SrcTie
