/-
  SrcTie/ExtMapFmt.lean — `Display for ExtensionsMap`: the definition srclean derives from the CURRENT Rust source text (`fmt::Formatter` translated as the
  bytes written so far, `for` loops as structural recursion over the list) equals the hand-written model definition, for all
  inputs.
-/
import UnicLocale.SrcTie.UExtFmt
import UnicLocale.SrcTie.TExtFmt
import UnicLocale.SrcTie.PExtFmt

set_option linter.unusedSimpArgs false
set_option linter.unusedVariables false

namespace UL.SrcTie
open UL

theorem ExtMap.fmt_eq : ∀ m f, UL.Src.ExtMap.fmt m f = f ++ UL.ExtMap.display m := by
  intro m f
  simp [UL.Src.ExtMap.fmt, UL.ExtMap.display, UL.ExtMap.tokens, TExt.fmt_eq, UExt.fmt_eq, PExt.fmt_eq, dashAll_app]

end UL.SrcTie
