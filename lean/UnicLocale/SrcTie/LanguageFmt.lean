/-
  SrcTie/LanguageFmt.lean — `Display for Language`: the definition srclean derives from the CURRENT Rust source text (`fmt::Formatter` translated as the
  bytes written so far, `for` loops as structural recursion over the list) equals the hand-written model definition, for all
  inputs.
-/
import UnicLocale.SrcTie.FmtLemmas
import UnicLocale.SrcTie.LanguageAsStr

set_option linter.unusedSimpArgs false
set_option linter.unusedVariables false

namespace UL.SrcTie
open UL

theorem Language.fmt_eq : ∀ l f, UL.Src.Language.fmt l f = f ++ UL.Language.asStr l := by
  intro l f; cases l <;> simp [UL.Src.Language.fmt, UL.Language.asStr, undBytes]

end UL.SrcTie
