/-
  SrcTie/MacrosScript.lean — the proc macro `script!`: the definition srclean derives from the CURRENT source text of `unic-langid-macros-impl/src/lib.rs`
  (parse the literal at build time, `quote!` an expression of `UL.MTok`, evaluate it as rustc does: `Model/MacroSem.lean`) equals the
  hand-written model of the expansion (`Model/Macros.lean`), for every literal.
-/
import UnicLocale.Gen.SrcMacros
import UnicLocale.SrcTie.Glue
import UnicLocale.SrcTie.Raw

set_option linter.unusedSimpArgs false
set_option linter.unusedVariables false

namespace UL.SrcTie
open UL

theorem Macros.script_eq : ∀ lit, UL.Src.Macros.script lit = UL.Macros.script lit := by
  intro lit
  unfold UL.Src.Macros.script UL.Macros.script
  rw [UL.SrcTie.Script.fromStr_eq]
  cases h : Script.fromBytes lit <;> simp [MTok.evalScript, Macros.viaRaw]

end UL.SrcTie
