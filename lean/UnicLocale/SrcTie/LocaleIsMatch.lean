/-
  SrcTie/LocaleIsMatch.lean — `Locale::matches`: the definition srclean derives from the CURRENT Rust source text (`&mut self` translated as a
  returned new value, `Vec` / `BTreeMap` mutation as rebinding, `binary_search` / `Vec::insert` / `Vec::remove` with their
  panic branches) equals the hand-written model definition, for all inputs.
-/
import UnicLocale.SrcTie.OpsLemmas
import UnicLocale.SrcTie.Ext
import UnicLocale.SrcTie.PExtIsEmpty
import UnicLocale.SrcTie.Match

set_option linter.unusedSimpArgs false
set_option linter.unusedVariables false

namespace UL.SrcTie
open UL

theorem Locale.isMatch_eq : ∀ a b ra rb, UL.Src.Locale.isMatch a b ra rb = UL.Locale.isMatch a b ra rb := by
  intro a b ra rb
  unfold UL.Src.Locale.isMatch UL.Locale.isMatch
  simp [PExt.isEmpty_eq, LangId.isMatch_eq]

end UL.SrcTie
