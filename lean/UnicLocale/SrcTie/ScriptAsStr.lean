/-
  SrcTie/ScriptAsStr.lean — `Script::as_str`: the definition srclean derives from the CURRENT Rust source text of this trait impl / method equals the
  hand-written model definition, for all inputs.
-/
import UnicLocale.Gen.SrcParse
import UnicLocale.Model.Locale

set_option linter.unusedSimpArgs false
set_option linter.unusedVariables false

namespace UL.SrcTie
open UL

theorem Script.asStr_eq : ∀ (s : Bytes), UL.Src.Script.asStr s = s := by intro s; rfl

end UL.SrcTie
