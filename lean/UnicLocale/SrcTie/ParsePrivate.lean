/-
  SrcTie/ParsePrivate.lean — the definition srclean derives from the Rust source text of this item equals
  the hand-written model definition `UL.parsePrivate`, for all inputs.
-/
import UnicLocale.SrcTie.Tactic
import UnicLocale.Gen.Src
import UnicLocale.Model.Ext

set_option linter.unusedSimpArgs false

namespace UL.SrcTie

theorem parsePrivate_eq : ∀ v, UL.Src.parsePrivate v = UL.parsePrivate v := by
  src_tie_tac [UL.Src.parsePrivate, UL.parsePrivate]

end UL.SrcTie
