/-
  SrcTie/TExtClearTLang.lean — `clear_tlang`: the definition srclean derives from the CURRENT Rust source text (`&mut self` translated as a
  returned new value, `Vec` / `BTreeMap` mutation as rebinding, `binary_search` / `Vec::insert` / `Vec::remove` with their
  panic branches) equals the hand-written model definition, for all inputs.
-/
import UnicLocale.SrcTie.OpsLemmas
import UnicLocale.SrcTie.Ext

set_option linter.unusedSimpArgs false
set_option linter.unusedVariables false

namespace UL.SrcTie
open UL

theorem TExt.clearTLang_eq : ∀ x, UL.Src.TExt.clearTLang x = UL.TExt.clearTLang x := by intro x; rfl

end UL.SrcTie
