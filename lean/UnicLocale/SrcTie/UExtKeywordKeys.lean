/-
  SrcTie/UExtKeywordKeys.lean — `keyword_keys`: the definition srclean derives from the CURRENT Rust source text (`&mut self` translated as a
  returned new value, `Vec` / `BTreeMap` mutation as rebinding, `binary_search` / `Vec::insert` / `Vec::remove` with their
  panic branches) equals the hand-written model definition, for all inputs.
-/
import UnicLocale.SrcTie.OpsLemmas
import UnicLocale.SrcTie.Ext

set_option linter.unusedSimpArgs false
set_option linter.unusedVariables false

namespace UL.SrcTie
open UL

theorem UExt.keywordKeys_eq : ∀ u, UL.Src.UExt.keywordKeys u = UL.UExt.keywordKeys u := by
  intro u; simp [UL.Src.UExt.keywordKeys, UL.UExt.keywordKeys]

end UL.SrcTie
