/-
  SrcTie/SerdeSerialize.lean — `impl Serialize for LanguageIdentifier`: the definition srclean derives from the CURRENT text of
  `unic-langid-impl/src/serde.rs` (the string handed to `serializer.serialize_str`, i.e. the source-derived `Display`) equals the model.
-/
import UnicLocale.Gen.SrcSerde
import UnicLocale.SrcTie.LangIdFmt

set_option linter.unusedSimpArgs false
set_option linter.unusedVariables false

namespace UL.SrcTie
open UL

theorem Serde.serialize_eq : ∀ x, UL.Src.Serde.serialize x = UL.Serde.serialize x := by
  intro x
  unfold UL.Src.Serde.serialize UL.Serde.serialize
  rw [UL.SrcTie.LangId.fmt_eq]
  rfl

end UL.SrcTie
