/-
  SrcTie/UExtHasAttribute.lean — `has_attribute`: the definition srclean derives from the CURRENT Rust source text (`&mut self` translated as a
  returned new value, `Vec` / `BTreeMap` mutation as rebinding, `binary_search` / `Vec::insert` / `Vec::remove` with their
  panic branches) equals the hand-written model definition, for all inputs.
-/
import UnicLocale.SrcTie.OpsLemmas
import UnicLocale.SrcTie.Ext

set_option linter.unusedSimpArgs false
set_option linter.unusedVariables false

namespace UL.SrcTie
open UL

theorem UExt.hasAttribute_eq : ∀ u a, UL.Src.UExt.hasAttribute u a = UL.UExt.hasAttribute u a := by
  intro u a
  unfold UL.Src.UExt.hasAttribute UL.UExt.hasAttribute
  rw [parseAttribute_eq]
  cases UL.parseAttribute a <;> simp [Res.bind, Res.map]

end UL.SrcTie
