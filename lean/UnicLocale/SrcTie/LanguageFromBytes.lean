/-
  SrcTie/LanguageFromBytes.lean — the definition srclean derives from the Rust source text of this item equals
  the hand-written model definition `UL.Language.fromBytes`, for all inputs.
-/
import UnicLocale.SrcTie.Tactic
import UnicLocale.Gen.Src
import UnicLocale.Model.Subtags

set_option linter.unusedSimpArgs false

namespace UL.SrcTie

theorem Language.fromBytes_eq : ∀ v, UL.Src.Language.fromBytes v = UL.Language.fromBytes v := by
  src_tie_tac [UL.Src.Language.fromBytes, UL.Language.fromBytes]

end UL.SrcTie
