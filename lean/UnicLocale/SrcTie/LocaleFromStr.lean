/-
  SrcTie/LocaleFromStr.lean — `FromStr for Locale`: the definition srclean derives from the CURRENT Rust source text of this trait impl / method equals the
  hand-written model definition, for all inputs.
-/
import UnicLocale.Gen.SrcParse
import UnicLocale.Model.Locale
import UnicLocale.SrcTie.LocaleParse

set_option linter.unusedSimpArgs false
set_option linter.unusedVariables false

namespace UL.SrcTie
open UL

theorem Locale.fromStr_eq : ∀ v, UL.Src.Locale.fromStr v = UL.Locale.fromBytes v := by
  intro v
  unfold UL.Src.Locale.fromStr
  rw [Locale.parse_eq]
  cases UL.Locale.fromBytes v <;> rfl

end UL.SrcTie
