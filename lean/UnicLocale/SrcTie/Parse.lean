/-
  SrcTie/Parse.lean — group module: the parsers (loops, mutation, the subtag iterator) as the source says them equal the model.
-/
import UnicLocale.SrcTie.LangIdParseIter
import UnicLocale.SrcTie.LangIdParse
import UnicLocale.SrcTie.LangIdTryFromIter
import UnicLocale.SrcTie.LangIdFromBytes
import UnicLocale.SrcTie.UExtParseIter
import UnicLocale.SrcTie.TExtParseIter
import UnicLocale.SrcTie.PExtParseIter
import UnicLocale.SrcTie.ExtMapParseIter
import UnicLocale.SrcTie.ExtMapFromBytes
import UnicLocale.SrcTie.LocaleParse
import UnicLocale.SrcTie.LocaleFromBytes
