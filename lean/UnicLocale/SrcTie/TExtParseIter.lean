/-
  SrcTie/TExtParseIter.lean — `TransformExtensionList::try_from_iter` and its `while let` loop
  (the definition srclean derives from the CURRENT Rust source text equals the hand-written model definition, for all
  inputs; a `while let` loop of the source is a fuel-driven definition in `Gen/SrcParse.lean`, the lemmas hold for every fuel
  above the number of subtags left and the callers pass `length + 2`, so the equality is also the proof that the Rust loop
  terminates: out of fuel would be `Res.panic`, which the model provably never returns)
-/
import UnicLocale.SrcTie.Ext
import UnicLocale.SrcTie.LangIdTryFromIter
import UnicLocale.Model.Ext
import UnicLocale.Lemmas.LiLoop

set_option linter.unusedSimpArgs false
set_option linter.unusedVariables false

namespace UL.SrcTie
open UL

/-! ### `-t-` -/

def tProj (o : List Bytes × TExt × Option Bytes × Option Bytes × List Bytes) : TExt × List Bytes :=
  (TExt.flush o.2.1 o.2.2.2.1 o.2.2.2.2, o.1)

/-- the test `slen == 2 && subtag[0].is_ascii_alphabetic() && subtag[1].is_ascii_digit()` with its two
    index operations, as translated, is the model's `isTKeyShape` (it never panics: the length is tested first) -/
theorem tkeyTest_eq {α : Type} (t : Bytes) (k : Bool → Res α) :
    (Res.bind (if (t.length == 2) then (Res.bind (UL.Src.idx t 0) fun x => (Res.ok (isAlpha x))) else (Res.ok false)) fun x_1 =>
      Res.bind (if x_1 then (Res.bind (UL.Src.idx t 1) fun x_2 => (Res.ok (isDigit x_2))) else (Res.ok false)) fun x_3 => k x_3)
    = k (isTKeyShape t) := by
  rcases t with _ | ⟨a, _ | ⟨b, _ | ⟨c, t⟩⟩⟩ <;> simp [Res.bind, UL.Src.idx, isTKeyShape]
  cases isAlpha a <;> simp

/-- does the tlang branch of the loop fire on the first subtag of `ts`? -/
def headIsLang (ts : List Bytes) : Bool :=
  match ts with
  | t :: _ => !isTKeyShape t && t.length != 1 && isLanguageSubtag t
  | [] => false

/-- once no tlang can be read any more (one was read, a tkey was seen, or the next subtag does not start one) the
    source's single loop is the model's `fieldLoop` -/
theorem TExt.loop1_eq (ts : List Bytes) : ∀ (fuel : Nat) (x : TExt) (ck : Option Bytes) (cv : List Bytes),
    ts.length < fuel → (x.tlang.isSome ∨ ck.isSome ∨ headIsLang ts = false) →
    (UL.Src.TExt.parseIter.loop1 fuel ts x ts.head? ck cv).map tProj = UL.TExt.fieldLoop ts x ck cv := by
  induction ts with
  | nil =>
    intro fuel x ck cv h _
    cases fuel with
    | zero => simp at h
    | succ f => simp [UL.Src.TExt.parseIter.loop1, UL.TExt.fieldLoop, Res.map, tProj]
  | cons t ts ih =>
    intro fuel x ck cv h hc
    cases fuel with
    | zero => simp at h
    | succ f =>
      have hf : ts.length < f := by simp at h; omega
      unfold UL.Src.TExt.parseIter.loop1 UL.TExt.fieldLoop
      simp only [List.head?_cons, List.tail_cons, parseTKey_eq, parseTValue_eq, isLanguageSubtag_eq]
      rw [tkeyTest_eq]
      by_cases h1 : isTKeyShape t = true
      · simp only [h1, if_true]
        cases ck with
        | some k0 =>
          cases hk : UL.parseTKey t with
          | ok k => simp [Res.bind, TExt.flush, ih f _ (some k) [] hf]
          | err e => simp [Res.bind, Res.map]
          | panic => simp [Res.bind, Res.map]
        | none =>
          cases hk : UL.parseTKey t with
          | ok k => simp [Res.bind, TExt.flush, ih f _ (some k) cv hf]
          | err e => simp [Res.bind, Res.map]
          | panic => simp [Res.bind, Res.map]
      · simp only [h1]
        by_cases h2 : (t.length == 1) = true
        · simp [h2, Res.map, tProj]
        · simp only [h2]
          cases ck with
          | some k0 =>
            simp only [Option.isSome_some, if_true]
            cases hk : UL.parseTValue t with
            | ok o =>
              cases o with
              | some v => simp [Res.bind, ih f x (some k0) (cv ++ [v]) hf]
              | none => simp [Res.bind, ih f x (some k0) cv hf]
            | err e => simp [Res.bind, Res.map]
            | panic => simp [Res.bind, Res.map]
          | none =>
            have hdead : (x.tlang.isNone && isLanguageSubtag t) = false := by
              rcases hc with hc | hc | hc
              · cases hx : x.tlang <;> simp_all
              · simp at hc
              · simp [headIsLang] at hc
                cases hx : x.tlang <;> simp_all
            simp [hdead, Res.map, tProj]

/-- `TransformExtensionList::try_from_iter` as the source says it = the model's `TExt.parseIter`
    (which reads an optional tlang first and then runs `fieldLoop`: the restructuring is proved here). -/
theorem TExt.parseIter_eq : ∀ ts, UL.Src.TExt.parseIter ts = UL.TExt.parseIter ts := by
  intro ts
  unfold UL.Src.TExt.parseIter
  refine Eq.trans (bind_eq_map _ _ tProj ?_) ?_
  · intro ⟨it, u, sp, ck, ct⟩
    cases ck <;> simp [tProj, TExt.flush]
  unfold UL.TExt.parseIter
  cases ts with
  | nil => simp [UL.Src.TExt.parseIter.loop1, Res.map, tProj, TExt.flush]
  | cons t ts' =>
    simp only []
    by_cases h1 : isTKeyShape t = true
    · simp only [h1, if_true]
      exact TExt.loop1_eq (t :: ts') _ {} none [] (by simp) (Or.inr (Or.inr (by simp [headIsLang, h1])))
    · simp only [h1]
      by_cases h2 : (t.length == 1) = true
      · simp only [h2, if_true]
        rw [TExt.loop1_eq (t :: ts') _ {} none [] (by simp) (Or.inr (Or.inr (by simp [headIsLang, h1]; simp at h2; simp [h2])))]
        simp [UL.TExt.fieldLoop, h1, h2, TExt.flush]
      · simp only [h2]
        by_cases h3 : isLanguageSubtag t = true
        · simp only [h3, if_true]
          -- the first iteration of the source's loop reads the tlang
          simp only [List.length_cons]
          unfold UL.Src.TExt.parseIter.loop1
          simp only [List.head?_cons, isLanguageSubtag_eq, LangId.tryFromIter_eq]
          rw [tkeyTest_eq]
          simp only [h1, h2, h3]
          cases hli : UL.LangId.parseIter (t :: ts') true with
          | err e => simp [Res.bind, Res.map, Res.mapErr]
          | panic => simp [Res.bind, Res.map, Res.mapErr]
          | ok o =>
            obtain ⟨li, rest⟩ := o
            obtain ⟨pre, hpre, happ⟩ := LangId.parseIter_suffix (by simp) hli
            have hlen : rest.length < ts'.length + 1 := by
              have := congrArg List.length happ
              simp at this
              have : 0 < pre.length := List.length_pos_iff.mpr hpre
              omega
            simp only [Res.bind, Res.mapErr, Option.isSome, Option.isNone]
            simp
            exact TExt.loop1_eq rest _ { tlang := some li } none [] (by omega) (Or.inl (by simp))
        · simp only [h3]
          rw [TExt.loop1_eq (t :: ts') _ {} none [] (by simp) (Or.inr (Or.inr (by simp [headIsLang, h1, h2, h3])))]
          simp [UL.TExt.fieldLoop, h1, h2, TExt.flush]

end UL.SrcTie
