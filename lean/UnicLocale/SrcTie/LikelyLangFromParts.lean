/-
  SrcTie/LikelyLangFromParts.lean — `lang_from_parts`: the definition srclean derives from the CURRENT Rust source text (the tables are the model's
  parameters `T : Tables`, `L : Layout`; `binary_search_by_key(..).ok()` + `TABLE[i]` with its out-of-range panic, `.unwrap()`,
  the integer conversions by contract) equals the hand-written model definition, for all inputs and all tables.
-/
import UnicLocale.SrcTie.LikelyLemmas

set_option linter.unusedSimpArgs false
set_option linter.unusedVariables false

namespace UL.SrcTie
open UL

/-- `lang_from_parts` as the source says it, for all arguments (the `.unwrap()` is the only way it can panic) -/
theorem Likely.langFromParts_eq : ∀ (i : Option Nat × Option Nat × Option Nat) (lang : Option (Option Bytes)) (script region : Option Bytes),
    UL.Src.Likely.langFromParts i lang script region =
      (match (lang.orElse fun _ => i.1.map fun s => some (UL.unpack s)) with
        | some l => Res.ok (some (l, script.orElse (fun _ => i.2.1.map UL.unpack), region.orElse (fun _ => i.2.2.map UL.unpack)))
        | none => Res.panic) := by
  intro i lang script region
  unfold UL.Src.Likely.langFromParts
  cases (lang.orElse fun _ => i.1.map fun s => some (UL.unpack s)) <;> simp [UL.Src.unwrapOpt, Res.bind]

/-- `lang_from_parts` as the source says it (on the decoded table value) = the model's (on the stored numbers) -/
theorem Likely.langFromParts_model (l s r : Nat) (script region : Option Bytes) :
    UL.Src.Likely.langFromParts (optOf l, optOf s, optOf r) none script region = UL.Likely.langFromParts l s r script region := by
  unfold UL.Src.Likely.langFromParts UL.Likely.langFromParts
  cases optOf l <;> cases script <;> cases region <;> simp [UL.Src.unwrapOpt, Res.bind, Option.orElse]

end UL.SrcTie
