/-
  SrcTie/LangIdIsMatch.lean — the definition srclean derives from the Rust source text of this item equals
  the hand-written model definition `UL.LangId.isMatch`, for all inputs.
  The helpers the source calls are unfolded on both sides as well, so the proof does not depend on
  whether the Rust code keeps them as separate functions or inlines them.
-/
import UnicLocale.SrcTie.Tactic
import UnicLocale.Gen.SrcMatch
import UnicLocale.Model.LangId

set_option linter.unusedSimpArgs false

namespace UL.SrcTie

theorem LangId.isMatch_eq : ∀ x y ra rb, UL.Src.LangId.isMatch x y ra rb = UL.LangId.isMatch x y ra rb := by
  src_tie_tac [UL.Src.LangId.isMatch, UL.LangId.isMatch, UL.Src.Language.isMatch, UL.Language.isMatch, UL.Src.LangId.subtagMatches, UL.LangId.subtagMatches, UL.Src.LangId.subtagsMatch, UL.LangId.subtagsMatch, UL.Src.LangId.isOptionEmpty, UL.LangId.isOptionEmpty]

end UL.SrcTie
