/-
  SrcTie/LocaleOfLangId.lean — `From<LanguageIdentifier> for Locale`: the definition srclean derives from the CURRENT Rust source text of this trait impl / method equals the
  hand-written model definition, for all inputs.
-/
import UnicLocale.Gen.SrcParse
import UnicLocale.Model.Locale

set_option linter.unusedSimpArgs false
set_option linter.unusedVariables false

namespace UL.SrcTie
open UL

theorem Locale.ofLangId_eq : ∀ i, UL.Src.Locale.ofLangId i = UL.Locale.ofLangId i := by intro i; rfl

end UL.SrcTie
