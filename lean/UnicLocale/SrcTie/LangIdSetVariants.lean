/-
  SrcTie/LangIdSetVariants.lean — `set_variants`: the definition srclean derives from the CURRENT Rust source text (`&mut self` translated as a
  returned new value, `Vec` / `BTreeMap` mutation as rebinding, `binary_search` / `Vec::insert` / `Vec::remove` with their
  panic branches) equals the hand-written model definition, for all inputs.
-/
import UnicLocale.SrcTie.OpsLemmas
import UnicLocale.SrcTie.Ext

set_option linter.unusedSimpArgs false
set_option linter.unusedVariables false

namespace UL.SrcTie
open UL

theorem LangId.setVariants_eq : ∀ x vs, UL.Src.LangId.setVariants x vs = UL.LangId.setVariants x vs := by
  intro x vs
  unfold UL.Src.LangId.setVariants UL.LangId.setVariants UL.LangId.finishVariants
  cases vs <;> simp

end UL.SrcTie
