/-
  SrcTie/LikelyMaximize.lean — `likelysubtags::maximize`: the definition srclean derives from the CURRENT Rust source text (the tables are the model's
  parameters `T : Tables`, `L : Layout`; `binary_search_by_key(..).ok()` + `TABLE[i]` with its out-of-range panic, `.unwrap()`,
  the integer conversions by contract) equals the hand-written model definition, for all inputs and all tables.
-/
import UnicLocale.SrcTie.LikelyLangFromParts
import UnicLocale.SrcTie.LanguageIsEmpty

set_option linter.unusedSimpArgs false
set_option linter.unusedVariables false

namespace UL.SrcTie
open UL

/-- search, index, `lang_from_parts`: one step of the cascade on a one-key table -/
theorem step1 (a : Array Row1) (k : Nat) (script region : Option Bytes) (g : Res (Option Triple)) :
    (match UL.Src.tblSearch1 a k with
      | some i => Res.bind (UL.Src.tblRow1 a i) fun x => Res.bind (UL.Src.Likely.langFromParts x.2 none script region) fun y => Res.ok y
      | none => g)
    = (match lookup1 a k with
      | some row => UL.Likely.langFromParts row.l row.s row.r script region
      | none => g) := by
  cases h : UL.Src.tblSearch1 a k with
  | none => rw [search1_none h]
  | some i =>
    obtain ⟨row, h1, h2⟩ := search1_some h
    rw [h2]
    simp only [UL.Src.tblRow1, h1, Res.bind, Likely.langFromParts_model]
    cases UL.Likely.langFromParts row.l row.s row.r script region <;> rfl

theorem step2 (a : Array Row2) (k1 k2 : Nat) (script region : Option Bytes) (g : Res (Option Triple)) :
    (match UL.Src.tblSearch2 a k1 k2 with
      | some i => Res.bind (UL.Src.tblRow2 a i) fun x => Res.bind (UL.Src.Likely.langFromParts x.2.2 none script region) fun y => Res.ok y
      | none => g)
    = (match lookup2 a k1 k2 with
      | some row => UL.Likely.langFromParts row.l row.s row.r script region
      | none => g) := by
  cases h : UL.Src.tblSearch2 a k1 k2 with
  | none => rw [search2_none h]
  | some i =>
    obtain ⟨row, h1, h2⟩ := search2_some h
    rw [h2]
    simp only [UL.Src.tblRow2, h1, Res.bind, Likely.langFromParts_model]
    cases UL.Likely.langFromParts row.l row.s row.r script region <;> rfl


theorem bind_ok_id {α : Type} (r : Res α) : (Res.bind r fun y => Res.ok y) = r := by cases r <;> rfl

/-- closes a leaf of the cascade: a search result `hS` and the corresponding model look-up -/
syntax "leaf1" ident : tactic
macro_rules
  | `(tactic| leaf1 $hS) => `(tactic|
      (first
        | (obtain ⟨row, h1, h2⟩ := search1_some $hS
           simp [h1, h2, UL.Src.tblRow1, Res.bind, Likely.langFromParts_model, bind_ok_id]
           try (split <;> simp_all))
        | (have h2 := search1_none $hS
           simp [h2])))
syntax "leaf2" ident : tactic
macro_rules
  | `(tactic| leaf2 $hS) => `(tactic|
      (first
        | (obtain ⟨row, h1, h2⟩ := search2_some $hS
           simp [h1, h2, UL.Src.tblRow2, Res.bind, Likely.langFromParts_model, bind_ok_id]
           try (split <;> simp_all))
        | (have h2 := search2_none $hS
           simp [h2])))

theorem Likely.maximize_eq : ∀ T l s r, UL.Src.Likely.maximize T l s r = UL.Likely.maximize T l s r := by
  intro T l s r
  unfold UL.Src.Likely.maximize UL.Likely.maximize
  simp only [Language.isEmpty_eq]
  cases l with
  | none =>
    cases s with
    | none =>
      cases r with
      | none => simp
      | some rb =>
        simp
        cases hS : UL.Src.tblSearch1 T.regionOnly (pack rb) <;> leaf1 hS
    | some sb =>
      cases r with
      | none =>
        simp
        cases hS : UL.Src.tblSearch1 T.scriptOnly (pack sb) <;> leaf1 hS
      | some rb =>
        simp
        cases hS : UL.Src.tblSearch2 T.scriptRegion (pack sb) (pack rb) with
        | some i => leaf2 hS
        | none =>
          have h2 := search2_none hS
          simp [h2]
          cases hS1 : UL.Src.tblSearch1 T.scriptOnly (pack sb) <;> leaf1 hS1
  | some lb =>
    cases r with
    | none =>
      cases s with
      | none =>
        simp
        cases hS : UL.Src.tblSearch1 T.langOnly (pack lb) <;> leaf1 hS
      | some sb =>
        simp
        cases hS : UL.Src.tblSearch2 T.langScript (pack lb) (pack sb) with
        | some i => leaf2 hS
        | none =>
          have h2 := search2_none hS
          simp [h2]
          cases hS1 : UL.Src.tblSearch1 T.langOnly (pack lb) <;> leaf1 hS1
    | some rb =>
      cases s with
      | none =>
        simp
        cases hS : UL.Src.tblSearch2 T.langRegion (pack lb) (pack rb) with
        | some i => leaf2 hS
        | none =>
          have h2 := search2_none hS
          simp [h2]
          cases hS1 : UL.Src.tblSearch1 T.langOnly (pack lb) <;> leaf1 hS1
      | some sb =>
        simp

end UL.SrcTie
