/-
  SrcTie/IsAttribute.lean — the definition srclean derives from the Rust source text of this item equals
  the hand-written model definition `UL.isTypeShape`, for all inputs.
-/
import UnicLocale.SrcTie.Tactic
import UnicLocale.Gen.Src
import UnicLocale.Model.Ext

set_option linter.unusedSimpArgs false

namespace UL.SrcTie

theorem isAttribute_eq : ∀ v, UL.Src.isAttribute v = UL.isTypeShape v := by
  src_tie_tac [UL.Src.isAttribute, UL.isTypeShape]

end UL.SrcTie
