/-
  SrcTie/LocaleFmt.lean — `Display for Locale`: the definition srclean derives from the CURRENT Rust source text (`fmt::Formatter` translated as the
  bytes written so far, `for` loops as structural recursion over the list) equals the hand-written model definition, for all
  inputs.
-/
import UnicLocale.SrcTie.LangIdFmt
import UnicLocale.SrcTie.ExtMapFmt

set_option linter.unusedSimpArgs false
set_option linter.unusedVariables false

namespace UL.SrcTie
open UL

theorem Locale.fmt_eq : ∀ x f, UL.Src.Locale.fmt x f = f ++ UL.Locale.display x := by
  intro x f
  simp [UL.Src.Locale.fmt, UL.Locale.display, LangId.fmt_eq, ExtMap.fmt_eq]

end UL.SrcTie
