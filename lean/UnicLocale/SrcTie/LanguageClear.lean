/-
  SrcTie/LanguageClear.lean — `Language::clear`: the definition srclean derives from the CURRENT Rust source text of this trait impl / method equals the
  hand-written model definition, for all inputs.
-/
import UnicLocale.Gen.SrcParse
import UnicLocale.Model.Locale

set_option linter.unusedSimpArgs false
set_option linter.unusedVariables false

namespace UL.SrcTie
open UL

theorem Language.clear_eq : ∀ (l : Option Bytes), UL.Src.Language.clear l = (none : Option Bytes) := by intro l; rfl

end UL.SrcTie
