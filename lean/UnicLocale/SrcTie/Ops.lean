/-
  SrcTie/Ops.lean — group module: the mutators and getters (`&mut self`, `Vec` / `BTreeMap` mutation, `binary_search`) as the source
  says them equal the model.
-/
import UnicLocale.SrcTie.UExtKeyword
import UnicLocale.SrcTie.UExtKeywordKeys
import UnicLocale.SrcTie.UExtSetKeyword
import UnicLocale.SrcTie.UExtRemoveKeyword
import UnicLocale.SrcTie.UExtClearKeywords
import UnicLocale.SrcTie.UExtHasAttribute
import UnicLocale.SrcTie.UExtAttributes
import UnicLocale.SrcTie.UExtSetAttribute
import UnicLocale.SrcTie.UExtRemoveAttribute
import UnicLocale.SrcTie.UExtClearAttributes
import UnicLocale.SrcTie.TExtTlang
import UnicLocale.SrcTie.TExtSetTLang
import UnicLocale.SrcTie.TExtClearTLang
import UnicLocale.SrcTie.TExtTfield
import UnicLocale.SrcTie.TExtTfieldKeys
import UnicLocale.SrcTie.TExtSetTField
import UnicLocale.SrcTie.TExtRemoveTField
import UnicLocale.SrcTie.TExtClearTFields
import UnicLocale.SrcTie.PExtHasTag
import UnicLocale.SrcTie.PExtAddTag
import UnicLocale.SrcTie.PExtRemoveTag
import UnicLocale.SrcTie.PExtClearTags
import UnicLocale.SrcTie.LangIdFromParts
import UnicLocale.SrcTie.LangIdIntoParts
import UnicLocale.SrcTie.LangIdVariants
import UnicLocale.SrcTie.LangIdSetVariants
import UnicLocale.SrcTie.LangIdHasVariant
import UnicLocale.SrcTie.LangIdClearVariants
import UnicLocale.SrcTie.LocaleFromParts
import UnicLocale.SrcTie.LocaleIntoParts
import UnicLocale.SrcTie.LocaleIsMatch
import UnicLocale.SrcTie.LangIdFromRawParts
import UnicLocale.SrcTie.LocaleFromRawParts
