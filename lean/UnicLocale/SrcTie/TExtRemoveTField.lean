/-
  SrcTie/TExtRemoveTField.lean — `remove_tfield`: the definition srclean derives from the CURRENT Rust source text (`&mut self` translated as a
  returned new value, `Vec` / `BTreeMap` mutation as rebinding, `binary_search` / `Vec::insert` / `Vec::remove` with their
  panic branches) equals the hand-written model definition, for all inputs.
-/
import UnicLocale.SrcTie.OpsLemmas
import UnicLocale.SrcTie.Ext

set_option linter.unusedSimpArgs false
set_option linter.unusedVariables false

namespace UL.SrcTie
open UL

theorem TExt.removeTField_eq : ∀ u k, UL.Src.TExt.removeTField u k = UL.TExt.removeTField u k := by
  intro u k
  unfold UL.Src.TExt.removeTField UL.TExt.removeTField
  rw [parseTKey_eq]
  cases UL.parseTKey k <;> simp [Res.bind, Res.map]

end UL.SrcTie
