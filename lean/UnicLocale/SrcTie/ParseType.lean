/-
  SrcTie/ParseType.lean — the definition srclean derives from the Rust source text of this item equals
  the hand-written model definition `UL.parseType`, for all inputs.
-/
import UnicLocale.SrcTie.Tactic
import UnicLocale.Gen.Src
import UnicLocale.Model.Ext

set_option linter.unusedSimpArgs false

namespace UL.SrcTie

theorem parseType_eq : ∀ v, UL.Src.parseType v = UL.parseType v := by
  src_tie_tac [UL.Src.parseType, UL.parseType]

end UL.SrcTie
