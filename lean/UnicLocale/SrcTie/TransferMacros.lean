/-
  SrcTie/TransferMacros.lean — C16 about the SOURCE-DERIVED macros and the SOURCE-DERIVED run-time parsers.

  `UL.Src.Macros.*` is what srclean derives from the current text of the proc-macro crates (`tr_macro.rs`: parse the literal at
  build time with the source-derived `FromStr`, emit an expression of `UL.MTok` with `quote!`, evaluate it as rustc does —
  `Model/MacroSem.lean`); `UL.Src.*.fromStr` is the run-time parser as the source text defines it.  For EVERY literal each macro
  yields exactly the value run-time parsing yields, a compile error iff run-time parsing fails, and `locale!` never panics at
  run time (its emitted extension string always re-parses: C05).
-/
import UnicLocale.SrcTie.Macros
import UnicLocale.SrcTie.ListMacros
import UnicLocale.Props.C16

namespace UL.SrcTie.TransferMacros
open UL UL.Props.C16

theorem lang_macro (lit : Bytes) : UL.Src.Macros.lang lit = required (UL.Src.Language.fromStr lit) := by
  rw [UL.SrcTie.Macros.lang_eq, UL.SrcTie.Language.fromStr_eq]; exact UL.Props.C16.lang_macro lit

theorem script_macro (lit : Bytes) : UL.Src.Macros.script lit = required (UL.Src.Script.fromStr lit) := by
  rw [UL.SrcTie.Macros.script_eq, UL.SrcTie.Script.fromStr_eq]; exact UL.Props.C16.script_macro lit

theorem region_macro (lit : Bytes) : UL.Src.Macros.region lit = required (UL.Src.Region.fromStr lit) := by
  rw [UL.SrcTie.Macros.region_eq, UL.SrcTie.Region.fromStr_eq]; exact UL.Props.C16.region_macro lit

theorem variant_macro (lit : Bytes) : UL.Src.Macros.variant lit = required (UL.Src.Variant.fromStr lit) := by
  rw [UL.SrcTie.Macros.variant_eq, UL.SrcTie.Variant.fromStr_eq]; exact UL.Props.C16.variant_macro lit

theorem langid_macro (lit : Bytes) : UL.Src.Macros.langid lit = required (UL.Src.LangId.fromStr lit) := by
  rw [UL.SrcTie.Macros.langid_eq, UL.SrcTie.LangId.fromStr_eq]; exact UL.Props.C16.langid_macro lit

theorem locale_macro (lit : Bytes) : UL.Src.Macros.locale lit = required (UL.Src.Locale.fromStr lit) := by
  rw [UL.SrcTie.Macros.locale_eq, UL.SrcTie.Locale.fromStr_eq]; exact UL.Props.C16.locale_macro lit

/-- `locale!` of the source never panics at run time -/
theorem locale_macro_no_runtime_panic (lit : Bytes) : UL.Src.Macros.locale lit ≠ .runtimePanic := by
  rw [UL.SrcTie.Macros.locale_eq]; exact UL.Props.C16.locale_macro_no_runtime_panic lit

/-- the list macros as their `macro_rules!` text says them: a value (the list of the elements' run-time parses) iff every element
    parses, a compile error otherwise; `langids!`, `langid_slice!` -/
theorem langids_macro (ls : List Bytes) :
    UL.Src.Macros.langids ls =
      (if ls.all (fun l => (UL.Src.LangId.fromStr l).isOk) then .value (ls.filterMap (fun l => (UL.Src.LangId.fromStr l).toOption))
       else .compileError) ∧
    UL.Src.Macros.langidSlice ls = UL.Src.Macros.langids ls := by
  have hf : UL.Src.LangId.fromStr = LangId.fromBytes := funext UL.SrcTie.LangId.fromStr_eq
  refine ⟨?_, ?_⟩
  · rw [UL.SrcTie.Macros.langids_eq, hf]; exact UL.Props.C16.langids_macro ls
  · rw [UL.SrcTie.Macros.langidSlice_eq, UL.SrcTie.Macros.langids_eq]

/-- `locales!` -/
theorem locales_macro (ls : List Bytes) :
    UL.Src.Macros.locales ls =
      if ls.all (fun l => (UL.Src.Locale.fromStr l).isOk) then .value (ls.filterMap (fun l => (UL.Src.Locale.fromStr l).toOption))
      else .compileError := by
  have hf : UL.Src.Locale.fromStr = Locale.fromBytes := funext UL.SrcTie.Locale.fromStr_eq
  rw [UL.SrcTie.Macros.locales_eq, hf]; exact UL.Props.C16.locales_macro ls

end UL.SrcTie.TransferMacros
