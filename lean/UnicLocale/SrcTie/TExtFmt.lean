/-
  SrcTie/TExtFmt.lean — `Display for TransformExtensionList`: the definition srclean derives from the CURRENT Rust source text (`fmt::Formatter` translated as the
  bytes written so far, `for` loops as structural recursion over the list) equals the hand-written model definition, for all
  inputs.
-/
import UnicLocale.SrcTie.TExtIsEmpty
import UnicLocale.SrcTie.LangIdFmt

set_option linter.unusedSimpArgs false
set_option linter.unusedVariables false

namespace UL.SrcTie
open UL

theorem TExt.fmt_for2_eq (vs : List Bytes) : ∀ (u : TExt) (f k : Bytes) (t : List Bytes),
    UL.Src.TExt.fmt.for2 vs u f k t = f ++ dashAll vs := by
  induction vs with
  | nil => intro u f k t; simp [UL.Src.TExt.fmt.for2, dashAll]
  | cons v vs ih => intro u f k t; simp [UL.Src.TExt.fmt.for2, dashAll, ih]

theorem TExt.fmt_for1_eq (m : AMap) : ∀ (u : TExt) (f : Bytes), UL.Src.TExt.fmt.for1 m u f = f ++ dashAll (AMap.tokens m) := by
  induction m with
  | nil => intro u f; simp [UL.Src.TExt.fmt.for1, AMap.tokens, dashAll]
  | cons kv m ih =>
    intro u f
    obtain ⟨k, t⟩ := kv
    simp [UL.Src.TExt.fmt.for1, TExt.fmt_for2_eq, AMap.tokens, dashAll, dashAll_app, ih]

theorem TExt.fmt_eq : ∀ x f, UL.Src.TExt.fmt x f = f ++ dashAll (UL.TExt.tokens x) := by
  intro x f
  unfold UL.Src.TExt.fmt UL.TExt.tokens
  rw [TExt.isEmpty_eq]
  by_cases h : x.isEmpty = true
  · simp [h, dashAll]
  · cases ht : x.tlang with
    | none => simp [h, ht, TExt.fmt_for1_eq, dashAll, dashAll_app]
    | some li => simp [h, ht, TExt.fmt_for1_eq, LangId.fmt_eq, dashAll, dashAll_app, dashAll_tokens]

end UL.SrcTie
