/-
  SrcTie/UExtFmt.lean — `Display for UnicodeExtensionList`: the definition srclean derives from the CURRENT Rust source text (`fmt::Formatter` translated as the
  bytes written so far, `for` loops as structural recursion over the list) equals the hand-written model definition, for all
  inputs.
-/
import UnicLocale.SrcTie.UExtIsEmpty

set_option linter.unusedSimpArgs false
set_option linter.unusedVariables false

namespace UL.SrcTie
open UL

theorem UExt.fmt_for1_eq (vs : List Bytes) : ∀ (u : UExt) (f : Bytes), UL.Src.UExt.fmt.for1 vs u f = f ++ dashAll vs := by
  induction vs with
  | nil => intro u f; simp [UL.Src.UExt.fmt.for1, dashAll]
  | cons v vs ih => intro u f; simp [UL.Src.UExt.fmt.for1, dashAll, ih]

theorem UExt.fmt_for3_eq (vs : List Bytes) : ∀ (u : UExt) (f k : Bytes) (t : List Bytes),
    UL.Src.UExt.fmt.for3 vs u f k t = f ++ dashAll vs := by
  induction vs with
  | nil => intro u f k t; simp [UL.Src.UExt.fmt.for3, dashAll]
  | cons v vs ih => intro u f k t; simp [UL.Src.UExt.fmt.for3, dashAll, ih]

theorem UExt.fmt_for2_eq (m : AMap) : ∀ (u : UExt) (f : Bytes), UL.Src.UExt.fmt.for2 m u f = f ++ dashAll (AMap.tokens m) := by
  induction m with
  | nil => intro u f; simp [UL.Src.UExt.fmt.for2, AMap.tokens, dashAll]
  | cons kv m ih =>
    intro u f
    obtain ⟨k, t⟩ := kv
    simp [UL.Src.UExt.fmt.for2, UExt.fmt_for3_eq, AMap.tokens, dashAll, dashAll_app, ih]

theorem UExt.fmt_eq : ∀ u f, UL.Src.UExt.fmt u f = f ++ dashAll (UL.UExt.tokens u) := by
  intro u f
  unfold UL.Src.UExt.fmt UL.UExt.tokens
  rw [UExt.isEmpty_eq]
  by_cases h : u.isEmpty = true
  · simp [h, dashAll]
  · simp [h, UExt.fmt_for1_eq, UExt.fmt_for2_eq, dashAll, dashAll_app]

end UL.SrcTie
