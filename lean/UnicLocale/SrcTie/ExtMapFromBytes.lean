/-
  SrcTie/ExtMapFromBytes.lean — `ExtensionsMap::from_bytes`
  (the definition srclean derives from the CURRENT Rust source text equals the hand-written model definition, for all
  inputs; a `while let` loop of the source is a fuel-driven definition in `Gen/SrcParse.lean`, the lemmas hold for every fuel
  above the number of subtags left and the callers pass `length + 2`, so the equality is also the proof that the Rust loop
  terminates: out of fuel would be `Res.panic`, which the model provably never returns)
-/
import UnicLocale.SrcTie.ExtMapParseIter

set_option linter.unusedSimpArgs false
set_option linter.unusedVariables false

namespace UL.SrcTie
open UL

/-- `ExtensionsMap::from_bytes` -/
theorem ExtMap.fromBytes_eq : ∀ bs, UL.Src.ExtMap.fromBytes bs = UL.ExtMap.fromBytes bs := by
  intro bs
  unfold UL.Src.ExtMap.fromBytes UL.ExtMap.fromBytes
  simp only [splitOn_sep_eq, ExtMap.parseIter_eq]
  cases UL.ExtMap.parseIter (splitSep bs) <;> simp [Res.map]

end UL.SrcTie
