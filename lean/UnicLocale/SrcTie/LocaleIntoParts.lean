/-
  SrcTie/LocaleIntoParts.lean — `Locale::into_parts`: the definition srclean derives from the CURRENT Rust source text (`&mut self` translated as a
  returned new value, `Vec` / `BTreeMap` mutation as rebinding, `binary_search` / `Vec::insert` / `Vec::remove` with their
  panic branches) equals the hand-written model definition, for all inputs.
-/
import UnicLocale.SrcTie.OpsLemmas
import UnicLocale.SrcTie.Ext
import UnicLocale.SrcTie.LangIdIntoParts
import UnicLocale.SrcTie.ExtMapFmt

set_option linter.unusedSimpArgs false
set_option linter.unusedVariables false

namespace UL.SrcTie
open UL

theorem Locale.intoParts_eq : ∀ x, UL.Src.Locale.intoParts x = UL.Locale.intoParts x := by
  intro x
  unfold UL.Src.Locale.intoParts UL.Locale.intoParts
  rw [LangId.intoParts_eq, ExtMap.fmt_eq]
  simp [UL.LangId.intoParts]

end UL.SrcTie
