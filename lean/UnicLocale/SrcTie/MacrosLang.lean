/-
  SrcTie/MacrosLang.lean — the proc macro `lang!`: the definition srclean derives from the CURRENT source text of `unic-langid-macros-impl/src/lib.rs`
  (parse the literal at build time, `quote!` an expression of `UL.MTok`, evaluate it as rustc does: `Model/MacroSem.lean`) equals the
  hand-written model of the expansion (`Model/Macros.lean`), for every literal.
-/
import UnicLocale.Gen.SrcMacros
import UnicLocale.SrcTie.Glue
import UnicLocale.SrcTie.Raw

set_option linter.unusedSimpArgs false
set_option linter.unusedVariables false

namespace UL.SrcTie
open UL

theorem Macros.lang_eq : ∀ lit, UL.Src.Macros.lang lit = UL.Macros.lang lit := by
  intro lit
  unfold UL.Src.Macros.lang UL.Macros.lang
  rw [UL.SrcTie.Language.fromStr_eq]
  cases h : Language.fromBytes lit with
  | ok l => cases l <;> simp [MTok.evalLang, Macros.viaRaw]
  | err e => rfl
  | panic => rfl

end UL.SrcTie
