/-
  SrcTie/TExtSetTField.lean — `set_tfield`: the definition srclean derives from the CURRENT Rust source text (`&mut self` translated as a
  returned new value, `Vec` / `BTreeMap` mutation as rebinding, `binary_search` / `Vec::insert` / `Vec::remove` with their
  panic branches) equals the hand-written model definition, for all inputs.
-/
import UnicLocale.SrcTie.OpsLemmas
import UnicLocale.SrcTie.Ext

set_option linter.unusedSimpArgs false
set_option linter.unusedVariables false

namespace UL.SrcTie
open UL

theorem TExt.setTField_eq : ∀ u k vs, UL.Src.TExt.setTField u k vs = UL.TExt.setTField u k vs := by
  intro u k vs
  unfold UL.Src.TExt.setTField UL.TExt.setTField
  rw [parseTKey_eq, collectOpt_eq _ parseTValue (fun t => parseTValue_eq t)]
  cases UL.parseTKey k with
  | ok x => cases collectTypes parseTValue vs <;> simp [Res.bind, Res.map]
  | err e => rfl
  | panic => rfl

end UL.SrcTie
