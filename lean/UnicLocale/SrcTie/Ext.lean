/-
  SrcTie/Ext.lean — group `Ext`: all source-tie theorems of the group (one module per function,
  so that a failure can be attributed to a single function).
-/
import UnicLocale.SrcTie.ParseKey
import UnicLocale.SrcTie.ParseType
import UnicLocale.SrcTie.ParseAttribute
import UnicLocale.SrcTie.IsType
import UnicLocale.SrcTie.IsAttribute
import UnicLocale.SrcTie.ParseTKey
import UnicLocale.SrcTie.ParseTValue
import UnicLocale.SrcTie.IsLanguageSubtag
import UnicLocale.SrcTie.ParsePrivate
import UnicLocale.SrcTie.ExtTypeFromByte
