/-
  SrcTie/ParseLemmas.lean — library-contract lemmas shared by the parser ties
  (the definition srclean derives from the CURRENT Rust source text equals the hand-written model definition, for all
  inputs; a `while let` loop of the source is a fuel-driven definition in `Gen/SrcParse.lean`, the lemmas hold for every fuel
  above the number of subtags left and the callers pass `length + 2`, so the equality is also the proof that the Rust loop
  terminates: out of fuel would be `Res.panic`, which the model provably never returns)
-/
import UnicLocale.Gen.SrcParse
import UnicLocale.Model.LangId

set_option linter.unusedSimpArgs false
set_option linter.unusedVariables false

namespace UL.SrcTie
open UL

/-- `bytes.split(|c| *c == b'-' || *c == b'_')` as the source says it = the model's `splitSep`. -/
theorem splitOn_sep_eq (bs : Bytes) : UL.Src.splitOn (fun c => ((c == 45) || (c == 95))) bs = splitSep bs := by
  induction bs with
  | nil => simp [UL.Src.splitOn, splitSep]
  | cons b t ih =>
    unfold UL.Src.splitOn splitSep
    rw [ih]
    by_cases hb : (b == 45 || b == 95) = true <;> simp [isSep, hb] <;> cases splitSep t <;> rfl

theorem bind_eq_map {α β : Type} (r : Res α) (f : α → Res β) (g : α → β) (h : ∀ a, f a = .ok (g a)) :
    r.bind f = r.map g := by
  cases r <;> simp [Res.bind, Res.map, h]

end UL.SrcTie
