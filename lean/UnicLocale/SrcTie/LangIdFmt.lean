/-
  SrcTie/LangIdFmt.lean — `Display for LanguageIdentifier`: the definition srclean derives from the CURRENT Rust source text (`fmt::Formatter` translated as the
  bytes written so far, `for` loops as structural recursion over the list) equals the hand-written model definition, for all
  inputs.
-/
import UnicLocale.SrcTie.LanguageFmt
import UnicLocale.SrcTie.ScriptFmt
import UnicLocale.SrcTie.RegionFmt
import UnicLocale.SrcTie.VariantFmt

set_option linter.unusedSimpArgs false
set_option linter.unusedVariables false

namespace UL.SrcTie
open UL

theorem LangId.fmt_for1_eq (vs : List Bytes) : ∀ (x : LangId) (f : Bytes) (w : List Bytes),
    UL.Src.LangId.fmt.for1 vs x f w = f ++ dashAll vs := by
  induction vs with
  | nil => intro x f w; simp [UL.Src.LangId.fmt.for1, dashAll]
  | cons v vs ih => intro x f w; simp [UL.Src.LangId.fmt.for1, Variant.fmt_eq, dashAll, ih]

theorem LangId.fmt_eq : ∀ x f, UL.Src.LangId.fmt x f = f ++ UL.LangId.display x := by
  intro x f
  obtain ⟨l, s, r, vs⟩ := x
  unfold UL.Src.LangId.fmt UL.LangId.display UL.LangId.tokens
  cases s <;> cases r <;> cases vs <;>
    simp [Language.fmt_eq, Script.fmt_eq, Region.fmt_eq, LangId.fmt_for1_eq, join, dashAll, dashAll_app]

theorem dashAll_tokens (x : LangId) : dashAll (LangId.tokens x) = 45 :: LangId.display x := by
  obtain ⟨l, s, r, vs⟩ := x
  simp [LangId.tokens, LangId.display, dashAll, join]

end UL.SrcTie
