/-
  SrcTie/VariantFromBytes.lean — the definition srclean derives from the Rust source text of this item equals
  the hand-written model definition `UL.Variant.fromBytes`, for all inputs.
-/
import UnicLocale.SrcTie.Tactic
import UnicLocale.Gen.Src
import UnicLocale.Model.Subtags

set_option linter.unusedSimpArgs false

namespace UL.SrcTie

theorem Variant.fromBytes_eq : ∀ v, UL.Src.Variant.fromBytes v = UL.Variant.fromBytes v := by
  src_tie_tac [UL.Src.Variant.fromBytes, UL.Variant.fromBytes]

end UL.SrcTie
