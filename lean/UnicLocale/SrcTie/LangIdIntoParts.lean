/-
  SrcTie/LangIdIntoParts.lean — `into_parts`: the definition srclean derives from the CURRENT Rust source text (`&mut self` translated as a
  returned new value, `Vec` / `BTreeMap` mutation as rebinding, `binary_search` / `Vec::insert` / `Vec::remove` with their
  panic branches) equals the hand-written model definition, for all inputs.
-/
import UnicLocale.SrcTie.OpsLemmas
import UnicLocale.SrcTie.Ext

set_option linter.unusedSimpArgs false
set_option linter.unusedVariables false

namespace UL.SrcTie
open UL

theorem LangId.intoParts_eq : ∀ x, UL.Src.LangId.intoParts x = UL.LangId.intoParts x := by
  intro x
  unfold UL.Src.LangId.intoParts UL.LangId.intoParts
  cases x.variants <;> rfl

end UL.SrcTie
