/-
  SrcTie/PExtFmt.lean — `Display for PrivateExtensionList`: the definition srclean derives from the CURRENT Rust source text (`fmt::Formatter` translated as the
  bytes written so far, `for` loops as structural recursion over the list) equals the hand-written model definition, for all
  inputs.
-/
import UnicLocale.SrcTie.PExtIsEmpty

set_option linter.unusedSimpArgs false
set_option linter.unusedVariables false

namespace UL.SrcTie
open UL

theorem PExt.fmt_for1_eq (vs : List Bytes) : ∀ (p : List Bytes) (f : Bytes), UL.Src.PExt.fmt.for1 vs p f = f ++ dashAll vs := by
  induction vs with
  | nil => intro u f; simp [UL.Src.PExt.fmt.for1, dashAll]
  | cons v vs ih => intro u f; simp [UL.Src.PExt.fmt.for1, dashAll, ih]

theorem PExt.fmt_eq : ∀ (p : List Bytes) f, UL.Src.PExt.fmt p f = f ++ dashAll (UL.PExt.tokens p) := by
  intro p f
  unfold UL.Src.PExt.fmt UL.PExt.tokens
  rw [PExt.isEmpty_eq]
  by_cases h : p.isEmpty = true
  · simp [h, dashAll]
  · simp [h, PExt.fmt_for1_eq, dashAll]

end UL.SrcTie
