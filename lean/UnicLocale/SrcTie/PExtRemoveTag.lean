/-
  SrcTie/PExtRemoveTag.lean — `remove_tag`: the definition srclean derives from the CURRENT Rust source text (`&mut self` translated as a
  returned new value, `Vec` / `BTreeMap` mutation as rebinding, `binary_search` / `Vec::insert` / `Vec::remove` with their
  panic branches) equals the hand-written model definition, for all inputs.
-/
import UnicLocale.SrcTie.OpsLemmas
import UnicLocale.SrcTie.Ext

set_option linter.unusedSimpArgs false
set_option linter.unusedVariables false

namespace UL.SrcTie
open UL

theorem PExt.removeTag_eq : ∀ (p : List Bytes) t, UL.Src.PExt.removeTag p t = UL.PExt.removeTag p t := by
  intro p t
  unfold UL.Src.PExt.removeTag UL.PExt.removeTag
  rw [parsePrivate_eq]
  cases UL.parsePrivate t with
  | ok x =>
    simp only [Res.bind, Res.map]
    cases h : binarySearchBy p (cmpBytes x) with
    | inl i =>
      have := binarySearchBy_inl_lt _ _ _ h
      simp [UL.Src.vecRemove, List.getElem?_eq_getElem this, Res.bind]
    | inr i => rfl
  | err e => rfl
  | panic => rfl

end UL.SrcTie
