/-
  SrcTie/LangIdIsOptionEmpty.lean — the definition srclean derives from the Rust source text of this item equals
  the hand-written model definition `UL.LangId.isOptionEmpty`, for all inputs.
-/
import UnicLocale.SrcTie.Tactic
import UnicLocale.Gen.SrcMatch
import UnicLocale.Model.LangId

set_option linter.unusedSimpArgs false

namespace UL.SrcTie

theorem LangId.isOptionEmpty_eq : ∀ o, UL.Src.LangId.isOptionEmpty o = UL.LangId.isOptionEmpty o := by
  src_tie_tac [UL.Src.LangId.isOptionEmpty, UL.LangId.isOptionEmpty]

end UL.SrcTie
