/-
  SrcTie/TransferOps.lean — operation histories on the SOURCE-DERIVED mutators and getters.

  `UL.Src.step` is the public API of `Locale` as one step function (exactly `Model/Ops.lean`'s `step`, the harness's reading of an
  operation: text arguments are parsed first) in which every call goes to the definition `srclean` derives from the current Rust
  source text (`UL.Src.UExt.setKeyword`, `UL.Src.PExt.removeTag`, `UL.Src.LangId.maximize`, …).  `step_eq` proves it equal to the
  model's `step` from the per-function source-tie theorems; the history theorems of C10 / C01 then hold of histories run on the
  source-derived definitions.
-/
import UnicLocale.SrcTie.Ops
import UnicLocale.SrcTie.Likely
import UnicLocale.SrcTie.Parse
import UnicLocale.SrcTie.Fmt
import UnicLocale.Props.C10
import UnicLocale.Props.C01

namespace UL.Src
open UL

/-- one public API call, on the source-derived definitions -/
def step (T : Tables) (x : Locale) : Op → Locale × Out
  | .setLanguage v => outOfUnit x (UL.Src.Language.fromBytes v) fun l => setId x { x.id with language := l }
  | .setScript none => (setId x { x.id with script := none }, .unit)
  | .setScript (some v) => outOfUnit x (UL.Src.Script.fromBytes v) fun s => setId x { x.id with script := some s }
  | .setRegion none => (setId x { x.id with region := none }, .unit)
  | .setRegion (some v) => outOfUnit x (UL.Src.Region.fromBytes v) fun r => setId x { x.id with region := some r }
  | .setVariants vs => outOfUnit x (collectRes UL.Src.Variant.fromBytes vs) fun l => setId x (UL.Src.LangId.setVariants x.id l)
  | .clearVariants => (setId x (UL.Src.LangId.clearVariants x.id), .unit)
  | .hasVariant v => outOfQuery x ((UL.Src.Variant.fromBytes v).map fun w => UL.Src.LangId.hasVariant x.id w)
  | .setKeyword k vs => outOfUnit x (UL.Src.UExt.setKeyword x.ext.unicode k vs) (setU x)
  | .removeKeyword k => outOfBool x (UL.Src.UExt.removeKeyword x.ext.unicode k) (setU x)
  | .clearKeywords => (setU x (UL.Src.UExt.clearKeywords x.ext.unicode), .unit)
  | .keyword k => outOfList x (UL.Src.UExt.keyword x.ext.unicode k)
  | .setAttribute a => outOfUnit x (UL.Src.UExt.setAttribute x.ext.unicode a) (setU x)
  | .removeAttribute a => outOfBool x (UL.Src.UExt.removeAttribute x.ext.unicode a) (setU x)
  | .clearAttributes => (setU x (UL.Src.UExt.clearAttributes x.ext.unicode), .unit)
  | .hasAttribute a => outOfQuery x (UL.Src.UExt.hasAttribute x.ext.unicode a)
  | .setTLang l => outOfUnit x ((UL.Src.LangId.fromBytes l).bind fun li => UL.Src.TExt.setTLang x.ext.transform li) (setT x)
  | .clearTLang => (setT x (UL.Src.TExt.clearTLang x.ext.transform), .unit)
  | .setTField k vs => outOfUnit x (UL.Src.TExt.setTField x.ext.transform k vs) (setT x)
  | .removeTField k => outOfBool x (UL.Src.TExt.removeTField x.ext.transform k) (setT x)
  | .clearTFields => (setT x (UL.Src.TExt.clearTFields x.ext.transform), .unit)
  | .tfield k => outOfList x (UL.Src.TExt.tfield x.ext.transform k)
  | .addTag t => outOfUnit x (UL.Src.PExt.addTag x.ext.priv t) (setP x)
  | .removeTag t => outOfBool x (UL.Src.PExt.removeTag x.ext.priv t) (setP x)
  | .clearTags => (setP x (UL.Src.PExt.clearTags x.ext.priv), .unit)
  | .hasTag t => outOfQuery x (UL.Src.PExt.hasTag x.ext.priv t)
  | .maximize => outOfBool x (UL.Src.LangId.maximize T x.id) (setId x)
  | .minimize => outOfBool x (UL.Src.LangId.minimize T x.id) (setId x)

def run (T : Tables) (x : Locale) : List Op → List (Locale × Out)
  | [] => []
  | o :: os =>
    let r := step T x o
    r :: run T r.1 os

end UL.Src

namespace UL.SrcTie.TransferOps
open UL

theorem collectRes_congr {α} (p q : Bytes → Res α) (h : ∀ v, p v = q v) (l : List Bytes) : collectRes p l = collectRes q l := by
  induction l with
  | nil => rfl
  | cons t ts ih => simp [collectRes, h, ih]

/-- every operation, on the source-derived definitions, does what the model's `step` does -/
theorem step_eq (T : Tables) (x : Locale) (o : Op) : UL.Src.step T x o = UL.step T x o := by
  cases o with
  | setScript v => cases v <;> simp [UL.Src.step, UL.step, UL.SrcTie.Script.fromBytes_eq]
  | setRegion v => cases v <;> simp [UL.Src.step, UL.step, UL.SrcTie.Region.fromBytes_eq]
  | setVariants vs =>
    simp only [UL.Src.step, UL.step, UL.SrcTie.LangId.setVariants_eq]
    rw [collectRes_congr _ _ UL.SrcTie.Variant.fromBytes_eq]
  | setTLang l =>
    simp only [UL.Src.step, UL.step, UL.SrcTie.LangId.fromBytes_eq, UL.SrcTie.TExt.setTLang_eq]
    cases UL.LangId.fromBytes l <;> rfl
  | _ =>
    simp [UL.Src.step, UL.step, UL.SrcTie.Language.fromBytes_eq, UL.SrcTie.Variant.fromBytes_eq, UL.SrcTie.LangId.clearVariants_eq,
      UL.SrcTie.LangId.hasVariant_eq, UL.SrcTie.UExt.setKeyword_eq, UL.SrcTie.UExt.removeKeyword_eq, UL.SrcTie.UExt.clearKeywords_eq,
      UL.SrcTie.UExt.keyword_eq, UL.SrcTie.UExt.setAttribute_eq, UL.SrcTie.UExt.removeAttribute_eq, UL.SrcTie.UExt.clearAttributes_eq,
      UL.SrcTie.UExt.hasAttribute_eq, UL.SrcTie.TExt.clearTLang_eq, UL.SrcTie.TExt.setTField_eq, UL.SrcTie.TExt.removeTField_eq,
      UL.SrcTie.TExt.clearTFields_eq, UL.SrcTie.TExt.tfield_eq, UL.SrcTie.PExt.addTag_eq, UL.SrcTie.PExt.removeTag_eq,
      UL.SrcTie.PExt.clearTags_eq, UL.SrcTie.PExt.hasTag_eq, UL.SrcTie.LangId.maximize_eq, UL.SrcTie.LangId.minimize_eq]

theorem run_eq (T : Tables) (os : List Op) : ∀ x, UL.Src.run T x os = UL.run T x os := by
  induction os with
  | nil => intro x; rfl
  | cons o os ih => intro x; simp [UL.Src.run, UL.run, step_eq, ih]

/-- C10, on histories of source-derived operations: from any value with the representation invariant, for every operation list,
    the abstract value and the output of every call are the reference model's, the invariant holds after every call, and the value
    is re-read from the text the SOURCE-DERIVED `Display` writes by the SOURCE-DERIVED parser -/
theorem histories_full (T : Tables) (hT : tablesWF T = true) (x : Locale) (hx : x.inv = true) (os : List Op) :
    (UL.Src.run T x os).map (fun r => (UL.Rf.abs r.1, r.2)) = Spec.absRun (UL.Rf.modelLikely T) (UL.Rf.abs x) os ∧
    (∀ r ∈ UL.Src.run T x os, r.1.inv = true ∧ UL.Src.Locale.fromBytes (UL.Src.Locale.fmt r.1 []) = .ok r.1) := by
  rw [run_eq]
  have h := UL.Props.C10.histories_full T hT x hx os
  refine ⟨h.1, fun r hr => ?_⟩
  have h2 := h.2.2 r hr
  refine ⟨h2.1, ?_⟩
  rw [UL.SrcTie.Locale.fmt_eq, UL.SrcTie.Locale.fromBytes_eq]
  simpa using h2.2.1

/-- C01, on the compiled tables: no call of any history of source-derived operations panics (in particular `Vec::insert` /
    `Vec::remove` after `binary_search`, table indexing and the `.unwrap()` of `lang_from_parts` are never out of range) -/
theorem histories_never_panic (os : List Op) (x : Locale) : ∀ p ∈ UL.Src.run Gen.tables x os, p.2 ≠ .panic := by
  rw [run_eq]; exact UL.Props.C01.histories_total_compiled os x

end UL.SrcTie.TransferOps
