/-
  SrcTie/LangIdMaximize.lean — `LanguageIdentifier::maximize`: the definition srclean derives from the CURRENT Rust source text (the tables are the model's
  parameters `T : Tables`, `L : Layout`; `binary_search_by_key(..).ok()` + `TABLE[i]` with its out-of-range panic, `.unwrap()`,
  the integer conversions by contract) equals the hand-written model definition, for all inputs and all tables.
-/
import UnicLocale.SrcTie.LikelyMaximize

set_option linter.unusedSimpArgs false
set_option linter.unusedVariables false

namespace UL.SrcTie
open UL

theorem LangId.maximize_eq : ∀ T x, UL.Src.LangId.maximize T x = UL.LangId.maximize T x := by
  intro T x
  unfold UL.Src.LangId.maximize UL.LangId.maximize UL.LangId.applyTriple
  rw [Likely.maximize_eq]
  cases UL.Likely.maximize T x.language x.script x.region with
  | ok o => cases o with
    | none => rfl
    | some t => obtain ⟨a, b, c⟩ := t; rfl
  | err e => rfl
  | panic => rfl

end UL.SrcTie
