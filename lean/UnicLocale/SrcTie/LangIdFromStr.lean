/-
  SrcTie/LangIdFromStr.lean — `FromStr for LanguageIdentifier`: the definition srclean derives from the CURRENT Rust source text of this trait impl / method equals the
  hand-written model definition, for all inputs.
-/
import UnicLocale.Gen.SrcParse
import UnicLocale.Model.Locale
import UnicLocale.SrcTie.LangIdFromBytes

set_option linter.unusedSimpArgs false
set_option linter.unusedVariables false

namespace UL.SrcTie
open UL

theorem LangId.fromStr_eq : ∀ v, UL.Src.LangId.fromStr v = UL.LangId.fromBytes v := by
  intro v; exact LangId.fromBytes_eq v

end UL.SrcTie
