/-
  SrcTie/TransferParse.lean — property theorems restated about the parsers that `srclean` derives from the CURRENT Rust source
  text (`UL.Src.LangId.fromBytes`, `UL.Src.Locale.fromBytes`, `UL.Src.ExtMap.fromBytes`: loops, mutation and the subtag iterator
  translated statement by statement, `Gen/SrcParse.lean`).  Each is the theorem of `Props/` rewritten with the source-tie
  equalities `UL.SrcTie.*_eq`: what is proved about the hand-written model holds, by proof, of what the source says — including
  that the three `while let` loops and the `for` loop of the source terminate on every input (the source-derived loops are
  driven by fuel and out of fuel is `Res.panic`; `*_never_panics` below excludes it).

  Built by `checklib/srctie.py`-driven checks after the per-function theorems; when a function is not tied on the current tree
  this module does not build and the evidence says so (the property theorems about the model stand regardless, tied to the code
  by the correspondence streams).
-/
import UnicLocale.SrcTie.Parse
import UnicLocale.SrcTie.Fmt
import UnicLocale.Props.C01
import UnicLocale.Props.C02
import UnicLocale.Props.C03
import UnicLocale.Props.C04
import UnicLocale.Props.C05
import UnicLocale.Props.C09
import UnicLocale.Props.C13

namespace UL.SrcTie.TransferParse
open UL UL.Ez

/-! ### C01: the parsers, as the source text defines them, never panic and their loops terminate -/

theorem langid_never_panics (bs : Bytes) : (Src.LangId.fromBytes bs).isPanic = false := by
  rw [UL.SrcTie.LangId.fromBytes_eq]; exact UL.Props.C01.langid_fromBytes_total bs

theorem locale_never_panics (bs : Bytes) : (Src.Locale.fromBytes bs).isPanic = false := by
  rw [UL.SrcTie.Locale.fromBytes_eq]; exact UL.Props.C01.locale_fromBytes_total bs

theorem extmap_never_panics (bs : Bytes) : (Src.ExtMap.fromBytes bs).isPanic = false := by
  rw [UL.SrcTie.ExtMap.fromBytes_eq]; exact UL.Props.C01.extmap_fromBytes_total bs

/-- the fuel the source-derived `-u-` loop is started with is never used up, whatever subtags are left in the iterator -/
theorem uext_loop_terminates (ts : List Bytes) : (Src.UExt.parseIter ts).isPanic = false := by
  rw [UL.SrcTie.UExt.parseIter_eq]; exact UL.Props.C01.uext_parse_total ts

theorem text_loop_terminates (ts : List Bytes) : (Src.TExt.parseIter ts).isPanic = false := by
  rw [UL.SrcTie.TExt.parseIter_eq]; exact UL.Props.C01.text_parse_total ts

theorem langid_loop_terminates (ts : List Bytes) (a : Bool) : (Src.LangId.parseIter ts a).isPanic = false := by
  rw [UL.SrcTie.LangId.parseIter_eq]; exact UL.Props.C01.langid_parseIter_total ts a

/-! ### C02: `LanguageIdentifier::from_bytes`, as the source says it, is the UTS #35 reader -/

theorem langid_exact (bs : Bytes) :
    Src.LangId.fromBytes bs =
      match Spec.langIdResult bs with
      | .ok v => .ok (concreteLi v)
      | .invalidLanguage => .err .invalidLanguage
      | .invalidSubtag => .err .invalidSubtag := by
  rw [UL.SrcTie.LangId.fromBytes_eq]; exact UL.Props.C02.fromBytes_exact bs

/-! ### C03: `Locale::from_bytes`, as the source says it, accepts the must-accept zone and never drops input -/

theorem locale_zone_accept (bs : Bytes) (v : Spec.LocV) (h : Spec.zone bs = .accept v) :
    Src.Locale.fromBytes bs = .ok (concreteLoc v) := by
  rw [UL.SrcTie.Locale.fromBytes_eq]; exact UL.Props.C03.zone_accept_bytes bs v h

theorem locale_never_drops (bs : Bytes) (x : Locale) (h : Src.Locale.fromBytes bs = .ok x) :
    ∃ st, Spec.readLocale false (Spec.strip (splitSep bs)) = some st ∧ x = concreteLoc st.v := by
  rw [UL.SrcTie.Locale.fromBytes_eq] at h; exact UL.Props.C03.never_drops_bytes bs x h

theorem locale_zone_reject (bs : Bytes) (h : Spec.zone bs = .reject) : (Src.Locale.fromBytes bs).isOk = false := by
  rw [UL.SrcTie.Locale.fromBytes_eq]; exact UL.Props.C03.zone_reject_bytes bs h

/-! ### C04 / C05: what the source-derived parser returns prints canonically and is re-read by the source-derived parser -/

theorem locale_parse_canonical (bs : Bytes) (x : Locale) (h : Src.Locale.fromBytes bs = .ok x) :
    Spec.isCanonical (Locale.display x) = true := by
  rw [UL.SrcTie.Locale.fromBytes_eq] at h; exact UL.Props.C04.locale_parse_canonical bs x h

theorem locale_roundtrip (x : Locale) (h : x.inv = true) : Src.Locale.fromBytes (Locale.display x) = .ok x := by
  rw [UL.SrcTie.Locale.fromBytes_eq]; exact UL.Props.C05.locale_roundtrip x h

theorem parsed_locale_roundtrip (bs : Bytes) (x : Locale) (h : Src.Locale.fromBytes bs = .ok x) :
    Src.Locale.fromBytes (Locale.display x) = .ok x := by
  rw [UL.SrcTie.Locale.fromBytes_eq] at h
  exact locale_roundtrip x (UL.Props.C05.parsed_locale_inv bs x h)

/-! ### C09: case and separator insensitivity of the source-derived parsers -/

theorem locale_case_sep (bs bs' : Bytes) (h : bs.map UL.Norm.norm = bs'.map UL.Norm.norm) :
    Src.Locale.fromBytes bs = Src.Locale.fromBytes bs' := by
  rw [UL.SrcTie.Locale.fromBytes_eq, UL.SrcTie.Locale.fromBytes_eq]; exact UL.Props.C09.locale_case_sep bs bs' h

theorem langid_case_sep (bs bs' : Bytes) (h : bs.map UL.Norm.norm = bs'.map UL.Norm.norm) :
    Src.LangId.fromBytes bs = Src.LangId.fromBytes bs' := by
  rw [UL.SrcTie.LangId.fromBytes_eq, UL.SrcTie.LangId.fromBytes_eq]; exact UL.Props.C09.langid_case_sep bs bs' h

/-! ### C13: the two source-derived parsers agree on language identifiers -/

theorem superset (bs : Bytes) (i : LangId) (h : Src.LangId.fromBytes bs = .ok i) :
    Src.Locale.fromBytes bs = .ok { id := i, ext := {} } := by
  rw [UL.SrcTie.LangId.fromBytes_eq] at h
  rw [UL.SrcTie.Locale.fromBytes_eq]; exact UL.Props.C13.superset bs i h

/-! ### C04 / C05 on the source-derived `Display` and `canonicalize` -/

/-- what the source-derived `Display for Locale` writes for a value the source-derived parser returned is canonical -/
theorem parsed_locale_prints_canonical (bs : Bytes) (x : Locale) (h : Src.Locale.fromBytes bs = .ok x) :
    Spec.isCanonical (Src.Locale.fmt x []) = true := by
  rw [UL.SrcTie.Locale.fmt_eq]; simpa using locale_parse_canonical bs x h

/-- string round trip entirely on source-derived definitions: print with the source's `Display`, re-read with the source's
    parser -/
theorem locale_roundtrip_src (x : Locale) (h : x.inv = true) : Src.Locale.fromBytes (Src.Locale.fmt x []) = .ok x := by
  rw [UL.SrcTie.Locale.fmt_eq]; simpa using locale_roundtrip x h

/-- `canonicalize` (unic-locale-impl), as the source says it, is idempotent -/
theorem canonicalize_idem (bs s : Bytes) (h : Src.Locale.canonicalize bs = .ok s) : Src.Locale.canonicalize s = .ok s := by
  rw [UL.SrcTie.Locale.canonicalize_eq] at h ⊢; exact UL.Props.C05.canonicalize_idem bs s h

theorem langid_canonicalize_idem (bs s : Bytes) (h : Src.LangId.canonicalize bs = .ok s) : Src.LangId.canonicalize s = .ok s := by
  rw [UL.SrcTie.LangId.canonicalize_eq] at h ⊢; exact UL.Props.C05.langid_canonicalize_idem bs s h

end UL.SrcTie.TransferParse
