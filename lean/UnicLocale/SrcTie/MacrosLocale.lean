/-
  SrcTie/MacrosLocale.lean — the proc macro `locale!`: the definition srclean derives from the CURRENT source text of `unic-locale-macros-impl/src/lib.rs`
  (parse the literal at build time, `quote!` an expression of `UL.MTok`, evaluate it as rustc does: `Model/MacroSem.lean`) equals the
  hand-written model of the expansion (`Model/Macros.lean`), for every literal.
-/
import UnicLocale.SrcTie.MacrosLemmas

set_option linter.unusedSimpArgs false
set_option linter.unusedVariables false

namespace UL.SrcTie
open UL

theorem Macros.locale_eq : ∀ lit, UL.Src.Macros.locale lit = UL.Macros.locale lit := by
  intro lit
  unfold UL.Src.Macros.locale UL.Macros.locale
  rw [UL.SrcTie.Locale.fromStr_eq]
  cases h : Locale.fromBytes lit with
  | ok x =>
    simp only [UL.SrcTie.Locale.intoParts_eq, Locale.intoParts, MTok.evalLocale]
    first
    | (refine (congrArg (fun z => MacroOut.both (fun (i : LangId) (m : ExtMap) => ({ id := i, ext := m } : Locale)) z
        (MTok.evalExt (MTok.parseExpect (MTok.str (ExtMap.display x.ext))))) (Macros.evalLangId_parts x.id)).trans ?_
       simp only [MTok.evalExt]
       cases hm : ExtMap.fromBytes (ExtMap.display x.ext) <;> simp [MacroOut.both])
    | -- the same case analysis on the term as the source writes it (branches in another order, another condition)
      (obtain ⟨⟨l, s, r, vs⟩, e⟩ := x
       cases l <;> cases s <;> cases r <;> cases hv : (vs.getD []).isEmpty <;> cases hm : ExtMap.fromBytes (ExtMap.display e) <;>
         simp [MTok.evalLangId, MTok.evalLang, MTok.evalOptScript, MTok.evalOptRegion, MTok.evalScript, MTok.evalRegion,
           MTok.evalVariants, MTok.evalExt, Macros.evalArr_variants, MacroOut.both, MacroOut.map, Macros.idViaRaw, Macros.viaRaw, hv, hm])
  | err e => rfl
  | panic => rfl

end UL.SrcTie
