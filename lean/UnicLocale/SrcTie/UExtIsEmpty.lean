/-
  SrcTie/UExtIsEmpty.lean — `UnicodeExtensionList::is_empty`: the definition srclean derives from the CURRENT Rust source text (`fmt::Formatter` translated as the
  bytes written so far, `for` loops as structural recursion over the list) equals the hand-written model definition, for all
  inputs.
-/
import UnicLocale.SrcTie.FmtLemmas

set_option linter.unusedSimpArgs false
set_option linter.unusedVariables false

namespace UL.SrcTie
open UL

theorem UExt.isEmpty_eq : ∀ u, UL.Src.UExt.isEmpty u = UL.UExt.isEmpty u := by intro u; rfl

end UL.SrcTie
