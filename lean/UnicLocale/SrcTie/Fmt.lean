/-
  SrcTie/Fmt.lean — group module: the `Display` impls, `is_empty` and `canonicalize` as the source says them equal the model.
-/
import UnicLocale.SrcTie.LanguageFmt
import UnicLocale.SrcTie.ScriptFmt
import UnicLocale.SrcTie.RegionFmt
import UnicLocale.SrcTie.VariantFmt
import UnicLocale.SrcTie.LangIdFmt
import UnicLocale.SrcTie.UExtIsEmpty
import UnicLocale.SrcTie.TExtIsEmpty
import UnicLocale.SrcTie.PExtIsEmpty
import UnicLocale.SrcTie.ExtMapIsEmpty
import UnicLocale.SrcTie.UExtFmt
import UnicLocale.SrcTie.TExtFmt
import UnicLocale.SrcTie.PExtFmt
import UnicLocale.SrcTie.ExtMapFmt
import UnicLocale.SrcTie.LocaleFmt
import UnicLocale.SrcTie.LangIdCanonicalize
import UnicLocale.SrcTie.LocaleCanonicalize
