/-
  SrcTie/ParseTValue.lean — the definition srclean derives from the Rust source text of this item equals
  the hand-written model definition `UL.parseTValue`, for all inputs.
-/
import UnicLocale.SrcTie.Tactic
import UnicLocale.Gen.Src
import UnicLocale.Model.Ext

set_option linter.unusedSimpArgs false

namespace UL.SrcTie

theorem parseTValue_eq : ∀ v, UL.Src.parseTValue v = UL.parseTValue v := by
  src_tie_tac [UL.Src.parseTValue, UL.parseTValue]

end UL.SrcTie
