/-
  SrcTie/UExtAttributes.lean — `attributes`: the definition srclean derives from the CURRENT Rust source text (`&mut self` translated as a
  returned new value, `Vec` / `BTreeMap` mutation as rebinding, `binary_search` / `Vec::insert` / `Vec::remove` with their
  panic branches) equals the hand-written model definition, for all inputs.
-/
import UnicLocale.SrcTie.OpsLemmas
import UnicLocale.SrcTie.Ext

set_option linter.unusedSimpArgs false
set_option linter.unusedVariables false

namespace UL.SrcTie
open UL

theorem UExt.attributes_eq : ∀ (u : UExt), UL.Src.UExt.attributes u = u.attributes := by
  intro u; simp [UL.Src.UExt.attributes]

end UL.SrcTie
