/-
  SrcTie/MacrosLangid.lean — the proc macro `langid!`: the definition srclean derives from the CURRENT source text of `unic-langid-macros-impl/src/lib.rs`
  (parse the literal at build time, `quote!` an expression of `UL.MTok`, evaluate it as rustc does: `Model/MacroSem.lean`) equals the
  hand-written model of the expansion (`Model/Macros.lean`), for every literal.
-/
import UnicLocale.SrcTie.MacrosLemmas

set_option linter.unusedSimpArgs false
set_option linter.unusedVariables false

namespace UL.SrcTie
open UL

theorem Macros.langid_eq : ∀ lit, UL.Src.Macros.langid lit = UL.Macros.langid lit := by
  intro lit
  unfold UL.Src.Macros.langid UL.Macros.langid
  rw [UL.SrcTie.LangId.fromStr_eq]
  cases h : LangId.fromBytes lit with
  | ok x =>
    simp only [UL.SrcTie.LangId.intoParts_eq, LangId.intoParts]
    first
    | exact Macros.evalLangId_parts x
    | -- the same case analysis on the term as the source writes it (branches in another order, another condition)
      (obtain ⟨l, s, r, vs⟩ := x
       cases l <;> cases s <;> cases r <;> cases hv : (vs.getD []).isEmpty <;>
         simp [MTok.evalLangId, MTok.evalLang, MTok.evalOptScript, MTok.evalOptRegion, MTok.evalScript, MTok.evalRegion,
           MTok.evalVariants, Macros.evalArr_variants, MacroOut.both, MacroOut.map, Macros.idViaRaw, Macros.viaRaw, hv])
  | err e => rfl
  | panic => rfl

end UL.SrcTie
