/-
  SrcTie/LanguageFromStr.lean — `FromStr for Language`: the definition srclean derives from the CURRENT Rust source text of this trait impl / method equals the
  hand-written model definition, for all inputs.
-/
import UnicLocale.Gen.SrcParse
import UnicLocale.Model.Locale
import UnicLocale.SrcTie.Subtags

set_option linter.unusedSimpArgs false
set_option linter.unusedVariables false

namespace UL.SrcTie
open UL

theorem Language.fromStr_eq : ∀ v, UL.Src.Language.fromStr v = UL.Language.fromBytes v := by
  intro v; exact Language.fromBytes_eq v

end UL.SrcTie
