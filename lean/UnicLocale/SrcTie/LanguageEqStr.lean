/-
  SrcTie/LanguageEqStr.lean — `PartialEq<&str> for Language`: the definition srclean derives from the CURRENT Rust source text of this trait impl / method equals the
  hand-written model definition, for all inputs.
-/
import UnicLocale.Gen.SrcParse
import UnicLocale.Model.Locale
import UnicLocale.SrcTie.LanguageAsStr

set_option linter.unusedSimpArgs false
set_option linter.unusedVariables false

namespace UL.SrcTie
open UL

theorem Language.eqStr_eq : ∀ l s, UL.Src.Language.eqStr l s = UL.Language.eqStr l s := by
  intro l s; unfold UL.Src.Language.eqStr UL.Language.eqStr; rw [Language.asStr_eq]

end UL.SrcTie
