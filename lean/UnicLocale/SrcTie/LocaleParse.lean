/-
  SrcTie/LocaleParse.lean — `parse_locale`
  (the definition srclean derives from the CURRENT Rust source text equals the hand-written model definition, for all
  inputs; a `while let` loop of the source is a fuel-driven definition in `Gen/SrcParse.lean`, the lemmas hold for every fuel
  above the number of subtags left and the callers pass `length + 2`, so the equality is also the proof that the Rust loop
  terminates: out of fuel would be `Res.panic`, which the model provably never returns)
-/
import UnicLocale.SrcTie.ExtMapParseIter
import UnicLocale.Model.Locale

set_option linter.unusedSimpArgs false
set_option linter.unusedVariables false

namespace UL.SrcTie
open UL

/-- `parse_locale` as the source says it = the model's `Locale.fromBytes`. -/
theorem Locale.parse_eq : ∀ bs, UL.Src.Locale.parse bs = UL.Locale.fromBytes bs := by
  intro bs
  unfold UL.Src.Locale.parse UL.Locale.fromBytes UL.Locale.parse
  simp only [splitOn_sep_eq, LangId.tryFromIter_eq]
  cases UL.LangId.parseIter (splitSep bs) true with
  | err e => simp [Res.bind, Res.mapErr]
  | panic => simp [Res.bind, Res.mapErr]
  | ok o =>
    obtain ⟨id, rest⟩ := o
    simp only [Res.bind, Res.mapErr]
    rw [ExtMap.parseIter_eq rest]
    cases UL.ExtMap.parseIter rest <;> simp [Res.map]

end UL.SrcTie
