/-
  SrcTie/LangIdSubtagMatches.lean — the definition srclean derives from the Rust source text of this item equals
  the hand-written model definition `UL.LangId.subtagMatches`, for all inputs.
-/
import UnicLocale.SrcTie.Tactic
import UnicLocale.Gen.SrcMatch
import UnicLocale.Model.LangId

set_option linter.unusedSimpArgs false

namespace UL.SrcTie

theorem LangId.subtagMatches_eq : ∀ a b ra rb, UL.Src.LangId.subtagMatches a b ra rb = UL.LangId.subtagMatches a b ra rb := by
  src_tie_tac [UL.Src.LangId.subtagMatches, UL.LangId.subtagMatches]

end UL.SrcTie
