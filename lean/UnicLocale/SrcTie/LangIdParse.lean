/-
  SrcTie/LangIdParse.lean — `parse_language_identifier`
  (the definition srclean derives from the CURRENT Rust source text equals the hand-written model definition, for all
  inputs; a `while let` loop of the source is a fuel-driven definition in `Gen/SrcParse.lean`, the lemmas hold for every fuel
  above the number of subtags left and the callers pass `length + 2`, so the equality is also the proof that the Rust loop
  terminates: out of fuel would be `Res.panic`, which the model provably never returns)
-/
import UnicLocale.SrcTie.LangIdParseIter

set_option linter.unusedSimpArgs false
set_option linter.unusedVariables false

namespace UL.SrcTie
open UL

/-- `parse_language_identifier` as the source says it = the model's `LangId.fromBytes`. -/
theorem LangId.parse_eq : ∀ bs, UL.Src.LangId.parse bs = UL.LangId.fromBytes bs := by
  intro bs
  unfold UL.Src.LangId.parse UL.LangId.fromBytes
  simp only [splitOn_sep_eq, LangId.parseIter_eq]

end UL.SrcTie
