/-
  SrcTie/VariantFromRaw.lean — `Variant::from_raw_unchecked`: the definition srclean derives from the CURRENT Rust source text of this conversion equals the
  model's reading of it (`u64::from_le_bytes(*s.all_bytes())` is `pack`, `TinyStrN::from_bytes_unchecked(v.to_le_bytes())` is `unpack`:
  tinystr's contract, `Model/Likely.lean`), for all inputs.  Every `.into()` / `from_raw_unchecked(..)` call site of the likely-subtags
  cascade and of `character_direction` rests on these theorems.
-/
import UnicLocale.Gen.SrcLikely
import UnicLocale.Model.Likely
import UnicLocale.Model.Locale

set_option linter.unusedSimpArgs false
set_option linter.unusedVariables false

namespace UL.SrcTie
open UL

theorem Variant.fromRaw_eq : ∀ (v : Nat), UL.Src.Variant.fromRaw v = UL.unpack v := by intro v; rfl

end UL.SrcTie
