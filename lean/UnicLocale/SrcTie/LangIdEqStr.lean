/-
  SrcTie/LangIdEqStr.lean — `PartialEq<&str> for LanguageIdentifier`: the definition srclean derives from the CURRENT Rust source text of this trait impl / method equals the
  hand-written model definition, for all inputs.
-/
import UnicLocale.Gen.SrcParse
import UnicLocale.Model.Locale
import UnicLocale.SrcTie.LangIdFmt

set_option linter.unusedSimpArgs false
set_option linter.unusedVariables false

namespace UL.SrcTie
open UL

theorem LangId.eqStr_eq : ∀ x s, UL.Src.LangId.eqStr x s = UL.LangId.eqStr x s := by
  intro x s; unfold UL.Src.LangId.eqStr UL.LangId.eqStr; rw [LangId.fmt_eq]; simp

end UL.SrcTie
