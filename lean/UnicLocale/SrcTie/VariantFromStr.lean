/-
  SrcTie/VariantFromStr.lean — `FromStr for Variant`: the definition srclean derives from the CURRENT Rust source text of this trait impl / method equals the
  hand-written model definition, for all inputs.
-/
import UnicLocale.Gen.SrcParse
import UnicLocale.Model.Locale
import UnicLocale.SrcTie.Subtags

set_option linter.unusedSimpArgs false
set_option linter.unusedVariables false

namespace UL.SrcTie
open UL

theorem Variant.fromStr_eq : ∀ v, UL.Src.Variant.fromStr v = UL.Variant.fromBytes v := by
  intro v; exact Variant.fromBytes_eq v

end UL.SrcTie
