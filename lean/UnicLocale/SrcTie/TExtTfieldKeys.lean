/-
  SrcTie/TExtTfieldKeys.lean — `tfield_keys`: the definition srclean derives from the CURRENT Rust source text (`&mut self` translated as a
  returned new value, `Vec` / `BTreeMap` mutation as rebinding, `binary_search` / `Vec::insert` / `Vec::remove` with their
  panic branches) equals the hand-written model definition, for all inputs.
-/
import UnicLocale.SrcTie.OpsLemmas
import UnicLocale.SrcTie.Ext

set_option linter.unusedSimpArgs false
set_option linter.unusedVariables false

namespace UL.SrcTie
open UL

theorem TExt.tfieldKeys_eq : ∀ u, UL.Src.TExt.tfieldKeys u = UL.TExt.tfieldKeys u := by
  intro u; simp [UL.Src.TExt.tfieldKeys, UL.TExt.tfieldKeys]

end UL.SrcTie
