/-
  SrcTie/Raw.lean — group module: the integer forms of the subtags (`From<subtag> for u32 / u64 / Option<u64>`, `from_raw_unchecked`)
  as the source says them equal the model's `pack` / `unpack`.
-/
import UnicLocale.SrcTie.LanguageToRaw
import UnicLocale.SrcTie.LanguageToRawRef
import UnicLocale.SrcTie.ScriptToRaw
import UnicLocale.SrcTie.RegionToRaw
import UnicLocale.SrcTie.VariantToRaw
import UnicLocale.SrcTie.VariantToRawRef
import UnicLocale.SrcTie.LanguageFromRaw
import UnicLocale.SrcTie.ScriptFromRaw
import UnicLocale.SrcTie.RegionFromRaw
import UnicLocale.SrcTie.VariantFromRaw
