/-
  SrcTie/VariantFmt.lean — `Display for Variant`: the definition srclean derives from the CURRENT Rust source text (`fmt::Formatter` translated as the
  bytes written so far, `for` loops as structural recursion over the list) equals the hand-written model definition, for all
  inputs.
-/
import UnicLocale.SrcTie.FmtLemmas

set_option linter.unusedSimpArgs false
set_option linter.unusedVariables false

namespace UL.SrcTie
open UL

theorem Variant.fmt_eq : ∀ s f, UL.Src.Variant.fmt s f = f ++ s := by intro s f; rfl

end UL.SrcTie
