/-
  SrcTie/FmtLemmas.lean — `dashAll` distributes over `++`: the definition srclean derives from the CURRENT Rust source text (`fmt::Formatter` translated as the
  bytes written so far, `for` loops as structural recursion over the list) equals the hand-written model definition, for all
  inputs.
-/
import UnicLocale.Gen.SrcParse
import UnicLocale.Model.Locale

set_option linter.unusedSimpArgs false
set_option linter.unusedVariables false

namespace UL.SrcTie
open UL

theorem dashAll_app (a b : List Bytes) : dashAll (a ++ b) = dashAll a ++ dashAll b := by
  induction a with
  | nil => rfl
  | cons t a ih => simp [dashAll, ih]

end UL.SrcTie
