/-
  SrcTie/LocaleFromParts.lean — `Locale::from_parts`: the definition srclean derives from the CURRENT Rust source text (`&mut self` translated as a
  returned new value, `Vec` / `BTreeMap` mutation as rebinding, `binary_search` / `Vec::insert` / `Vec::remove` with their
  panic branches) equals the hand-written model definition, for all inputs.
-/
import UnicLocale.SrcTie.OpsLemmas
import UnicLocale.SrcTie.Ext
import UnicLocale.SrcTie.LangIdFromParts

set_option linter.unusedSimpArgs false
set_option linter.unusedVariables false

namespace UL.SrcTie
open UL

theorem Locale.fromParts_eq : ∀ l s r vs e, UL.Src.Locale.fromParts l s r vs e = UL.Locale.fromParts l s r vs e := by
  intro l s r vs e
  unfold UL.Src.Locale.fromParts UL.Locale.fromParts
  rw [LangId.fromParts_eq]

end UL.SrcTie
