/-
  SrcTie/LangIdTryFromIter.lean — `LanguageIdentifier::try_from_iter`
  (the definition srclean derives from the CURRENT Rust source text equals the hand-written model definition, for all
  inputs; a `while let` loop of the source is a fuel-driven definition in `Gen/SrcParse.lean`, the lemmas hold for every fuel
  above the number of subtags left and the callers pass `length + 2`, so the equality is also the proof that the Rust loop
  terminates: out of fuel would be `Res.panic`, which the model provably never returns)
-/
import UnicLocale.SrcTie.LangIdParseIter

set_option linter.unusedSimpArgs false
set_option linter.unusedVariables false

namespace UL.SrcTie
open UL

/-- `LanguageIdentifier::try_from_iter` (the `?`-conversion of the error is the identity in the model). -/
theorem LangId.tryFromIter_eq : ∀ ts ae, UL.Src.LangId.tryFromIter ts ae = UL.LangId.parseIter ts ae := by
  intro ts ae
  unfold UL.Src.LangId.tryFromIter
  simp only [LangId.parseIter_eq]
  cases UL.LangId.parseIter ts ae <;> simp [Res.bind]

end UL.SrcTie
