/-
  SrcTie/LangIdHasVariant.lean — `has_variant`: the definition srclean derives from the CURRENT Rust source text (`&mut self` translated as a
  returned new value, `Vec` / `BTreeMap` mutation as rebinding, `binary_search` / `Vec::insert` / `Vec::remove` with their
  panic branches) equals the hand-written model definition, for all inputs.
-/
import UnicLocale.SrcTie.OpsLemmas
import UnicLocale.SrcTie.Ext

set_option linter.unusedSimpArgs false
set_option linter.unusedVariables false

namespace UL.SrcTie
open UL

theorem LangId.hasVariant_eq : ∀ x v, UL.Src.LangId.hasVariant x v = UL.LangId.hasVariant x v := by
  intro x v
  unfold UL.Src.LangId.hasVariant UL.LangId.hasVariant
  cases x.variants <;> rfl

end UL.SrcTie
