/-
  SrcTie/MacrosLemmas.lean — the proc macro `langid! / locale! (shared lemmas)`: the definition srclean derives from the CURRENT source text of `unic-langid-macros-impl/src/lib.rs / unic-locale-macros-impl/src/lib.rs`
  (parse the literal at build time, `quote!` an expression of `UL.MTok`, evaluate it as rustc does: `Model/MacroSem.lean`) equals the
  hand-written model of the expansion (`Model/Macros.lean`), for every literal.
-/
import UnicLocale.Gen.SrcMacros
import UnicLocale.SrcTie.Glue
import UnicLocale.SrcTie.Raw
import UnicLocale.SrcTie.Ops

set_option linter.unusedSimpArgs false
set_option linter.unusedVariables false

namespace UL.SrcTie
open UL

/-- the emitted array of variants evaluates to the variants rebuilt from their integers -/
theorem Macros.evalArr_variants (vs : List Bytes) :
    MTok.evalArr (MTok.arrOfList (vs.map fun v => MTok.call1 MFn.variantFromRaw (MTok.int (pack v)))) =
      MacroOut.value (vs.map Macros.viaRaw) := by
  induction vs with
  | nil => rfl
  | cons v vs ih =>
    simp only [List.map_cons, MTok.arrOfList, MTok.evalArr, ih, MTok.evalVariant, MacroOut.both, Macros.viaRaw]

/-- the expansion of the four identifier fields evaluates to the identifier rebuilt from the integers -/
theorem Macros.evalLangId_parts (x : LangId) :
    MTok.evalLangId
      (MTok.call4 MFn.langidFromRawParts
        (match Option.map pack x.language with
          | some n => MTok.call1 MFn.langFromRaw (MTok.int n)
          | none => MTok.call0 MFn.langDefault)
        (match x.script with
          | some s => MTok.some (MTok.call1 MFn.scriptFromRaw (MTok.int (pack s)))
          | none => MTok.none)
        (match x.region with
          | some r => MTok.some (MTok.call1 MFn.regionFromRaw (MTok.int (pack r)))
          | none => MTok.none)
        (if (!(List.isEmpty (x.variants.getD []))) then
          MTok.some (MTok.boxNew (MTok.arrOfList ((x.variants.getD []).map fun v => MTok.call1 MFn.variantFromRaw (MTok.int (pack v)))))
         else MTok.none)) = MacroOut.value (Macros.idViaRaw x) := by
  obtain ⟨l, s, r, vs⟩ := x
  cases l <;> cases s <;> cases r <;> cases hv : (vs.getD []).isEmpty <;>
    simp [MTok.evalLangId, MTok.evalLang, MTok.evalOptScript, MTok.evalOptRegion, MTok.evalScript, MTok.evalRegion,
      MTok.evalVariants, Macros.evalArr_variants, MacroOut.both, MacroOut.map, Macros.idViaRaw, Macros.viaRaw, hv]

end UL.SrcTie
