/-
  SrcTie/ParseTKey.lean — the definition srclean derives from the Rust source text of this item equals
  the hand-written model definition `UL.parseTKey`, for all inputs.
-/
import UnicLocale.SrcTie.Tactic
import UnicLocale.Gen.Src
import UnicLocale.Model.Ext

set_option linter.unusedSimpArgs false

namespace UL.SrcTie

theorem parseTKey_eq : ∀ v, UL.Src.parseTKey v = UL.parseTKey v := by
  src_tie_tac [UL.Src.parseTKey, UL.parseTKey]

end UL.SrcTie
