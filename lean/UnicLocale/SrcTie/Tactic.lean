/-
  SrcTie/Tactic.lean — the shared automation of the source-tie theorems.

  Every theorem `UL.SrcTie.<f>_eq : ∀ args, UL.Src.<f> args = UL.<f> args` is proved by

      src_tie_tac [UL.Src.<f>, UL.<f>, <helpers both sides call>]

  The tactic never looks at the *shape* of the generated term: it unfolds the listed definitions and
  the library contracts of `Gen/Src.lean` on both sides and then decides the equality of the two
  decision trees by case analysis (`grind`: splits every `if`/`match`/Boolean connective, congruence
  closure, linear arithmetic on `List.length`).  When a slice is indexed (`v[0]`, `v[1..]`) the
  list argument is first destructured to depth 3, so that `v[i]?` computes.  A last resort splits
  syntactically (`split`) and closes the leaves with `simp_all`/`omega`.
  Behaviour-preserving rewrites of the Rust source (reordered conditions, `contains` written as two
  comparisons, `if` chains turned into `match`, early returns restructured) change the generated
  term but not its decision tree, and are absorbed here — see srclean/README.md for the experiments.
-/
import UnicLocale.Gen.Src
import UnicLocale.Model.Subtags

set_option linter.unusedSimpArgs false

namespace UL.SrcTie

/-- Unfold the listed definitions and the library contracts of `Gen/Src.lean` (nothing else). -/
syntax "src_tie_unfold" "[" Lean.Parser.Tactic.simpLemma,* "]" : tactic
macro_rules
  | `(tactic| src_tie_unfold [$ls,*]) => `(tactic|
      simp only [$ls,*, UL.Src.idx, UL.Src.sliceFrom, UL.Src.sliceTo, UL.Src.sliceRange,
          UL.Src.tinyFromBytes, UL.Src.okOr, UL.Src.unwrapOpt, UL.Res.bind, UL.Res.map, UL.Res.mapErr,
          UL.Res.isOk, UL.Res.toOption, UL.undBytes, UL.trueBytes])

/-- The same with the default simp set: also computes `[a, b][1]?`, `List.length (a :: t)`, ... -/
syntax "src_tie_compute" "[" Lean.Parser.Tactic.simpLemma,* "]" : tactic
macro_rules
  | `(tactic| src_tie_compute [$ls,*]) => `(tactic|
      simp [$ls,*, UL.Src.idx, UL.Src.sliceFrom, UL.Src.sliceTo, UL.Src.sliceRange,
          UL.Src.tinyFromBytes, UL.Src.okOr, UL.Src.unwrapOpt, UL.Res.bind, UL.Res.map, UL.Res.mapErr,
          UL.Res.isOk, UL.Res.toOption, UL.undBytes, UL.trueBytes])

/-- Decide the remaining goals by case analysis; the second attempt has a larger split budget
    (a caller with all its helpers unfolded has many atoms). -/
macro "src_tie_decide" : tactic =>
  `(tactic| all_goals (first | grind | grind (splits := 40)))

/-- The tactic used by every source-tie theorem.
    1. unfold, decide;
    2. destructure the (first) list argument to depth 3 so that indexing computes, compute, decide;
    3. split syntactically, close leaves with `simp_all`/`omega`, decide what is left. -/
syntax "src_tie_tac" "[" Lean.Parser.Tactic.simpLemma,* "]" : tactic
macro_rules
  | `(tactic| src_tie_tac [$ls,*]) => `(tactic|
      (intro v
       intros
       first
        | (src_tie_unfold [$ls,*]; src_tie_decide; done)
        | (rcases v with _ | ⟨a, _ | ⟨b, _ | ⟨c, t⟩⟩⟩ <;> (try src_tie_compute [$ls,*]) <;> src_tie_decide <;> done)
        | ((try src_tie_unfold [$ls,*])
           (repeat' split)
           all_goals (try simp_all)
           all_goals (try omega)
           src_tie_decide
           done)))

end UL.SrcTie
