/-
  SrcTie/Likely.lean — group module: the likely-subtags cascade, `maximize` / `minimize` and `character_direction` (both feature
  configurations) as the source says them equal the model, for all tables.
-/
import UnicLocale.SrcTie.LanguageIsEmpty
import UnicLocale.SrcTie.LikelyLangFromParts
import UnicLocale.SrcTie.LikelyMaximize
import UnicLocale.SrcTie.LikelyMinimize
import UnicLocale.SrcTie.LangIdMaximize
import UnicLocale.SrcTie.LangIdMinimize
import UnicLocale.SrcTie.LangIdDirection
import UnicLocale.SrcTie.LangIdDirectionNoLikely
