/-
  SrcTie/LangIdDirectionNoLikely.lean — `LanguageIdentifier::character_direction` (feature likelysubtags off): the definition srclean derives from the CURRENT Rust source text (the tables are the model's
  parameters `T : Tables`, `L : Layout`; `binary_search_by_key(..).ok()` + `TABLE[i]` with its out-of-range panic, `.unwrap()`,
  the integer conversions by contract) equals the hand-written model definition, for all inputs and all tables.
-/
import UnicLocale.SrcTie.LikelyLemmas

set_option linter.unusedSimpArgs false
set_option linter.unusedVariables false

namespace UL.SrcTie
open UL

theorem LangId.directionNoLikely_eq : ∀ L x,
    UL.Src.LangId.directionNoLikely L x = UL.LangId.direction false ⟨#[], #[], #[], #[], #[], #[]⟩ L x := by
  intro L x
  obtain ⟨l, s, r, vs⟩ := x
  unfold UL.Src.LangId.directionNoLikely UL.LangId.direction
  cases l <;> cases s <;> simp [Res.bind] <;> repeat (split <;> (try simp_all [Res.bind]))

end UL.SrcTie
