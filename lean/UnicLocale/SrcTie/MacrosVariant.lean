/-
  SrcTie/MacrosVariant.lean — the proc macro `variant!`: the definition srclean derives from the CURRENT source text of `unic-langid-macros-impl/src/lib.rs`
  (parse the literal at build time, `quote!` an expression of `UL.MTok`, evaluate it as rustc does: `Model/MacroSem.lean`) equals the
  hand-written model of the expansion (`Model/Macros.lean`), for every literal.
-/
import UnicLocale.Gen.SrcMacros
import UnicLocale.SrcTie.Glue
import UnicLocale.SrcTie.Raw

set_option linter.unusedSimpArgs false
set_option linter.unusedVariables false

namespace UL.SrcTie
open UL

theorem Macros.variant_eq : ∀ lit, UL.Src.Macros.variant lit = UL.Macros.variant lit := by
  intro lit
  unfold UL.Src.Macros.variant UL.Macros.variant
  rw [UL.SrcTie.Variant.fromStr_eq]
  cases h : Variant.fromBytes lit <;> simp [MTok.evalVariant, Macros.viaRaw]

end UL.SrcTie
