/-
  Spec/TablesWF.lean — the well-formedness conditions on the lookup tables that the code relies on
  silently (sorted for `binary_search`, every value carries all three subtags under `.unwrap()`,
  every integer decodes to a valid subtag under `from_raw_unchecked`, every value extends its key),
  as one decidable predicate, and the association view of the tables.
-/
import UnicLocale.Spec.Likely

namespace UL

def sorted1 : List Row1 → Bool
  | [] => true
  | [_] => true
  | a :: b :: r => a.k < b.k && sorted1 (b :: r)

def sorted2 : List Row2 → Bool
  | [] => true
  | [_] => true
  | a :: b :: r => Spec.lt2 a b && sorted2 (b :: r)

/-- the integer is the integer form of a stored (canonical) subtag -/
def validLangInt (n : Nat) : Bool :=
  Language.fromBytes (unpack n) == .ok (some (unpack n)) && pack (unpack n) == n
def validScriptInt (n : Nat) : Bool :=
  Script.fromBytes (unpack n) == .ok (unpack n) && pack (unpack n) == n
def validRegionInt (n : Nat) : Bool :=
  Region.fromBytes (unpack n) == .ok (unpack n) && pack (unpack n) == n

/-- a table value `(Some l, Some s, Some r)`, encoded `n+1`, all three valid -/
def valOk (l s r : Nat) : Bool :=
  l != 0 && s != 0 && r != 0 && validLangInt (l - 1) && validScriptInt (s - 1) && validRegionInt (r - 1)

def tablesWF (T : Tables) : Bool :=
  sorted1 T.langOnly.toList && sorted2 T.langRegion.toList && sorted2 T.langScript.toList &&
  sorted2 T.scriptRegion.toList && sorted1 T.scriptOnly.toList && sorted1 T.regionOnly.toList &&
  T.langOnly.toList.all (fun row => valOk row.l row.s row.r &&
      (row.k == Spec.undInt || (validLangInt row.k && row.l == row.k + 1))) &&
  T.langRegion.toList.all (fun row => valOk row.l row.s row.r && validLangInt row.k1 && validRegionInt row.k2 &&
      row.l == row.k1 + 1 && row.r == row.k2 + 1) &&
  T.langScript.toList.all (fun row => valOk row.l row.s row.r && validLangInt row.k1 && validScriptInt row.k2 &&
      row.l == row.k1 + 1 && row.s == row.k2 + 1) &&
  T.scriptRegion.toList.all (fun row => valOk row.l row.s row.r && validScriptInt row.k1 && validRegionInt row.k2 &&
      row.s == row.k1 + 1 && row.r == row.k2 + 1) &&
  T.scriptOnly.toList.all (fun row => valOk row.l row.s row.r && validScriptInt row.k && row.s == row.k + 1) &&
  T.regionOnly.toList.all (fun row => valOk row.l row.s row.r && validRegionInt row.k && row.r == row.k + 1)

/-- stored (canonical) subtags, the only ones the safe API can produce -/
def validLang (l : Language) : Bool :=
  match l with
  | none => true
  | some b => Language.fromBytes b == .ok (some b)
def validScript (s : Option Bytes) : Bool :=
  match s with
  | none => true
  | some b => Script.fromBytes b == .ok b
def validRegion (r : Option Bytes) : Bool :=
  match r with
  | none => true
  | some b => Region.fromBytes b == .ok b
def validTriple (l : Language) (s r : Option Bytes) : Bool := validLang l && validScript s && validRegion r

namespace Spec

def dec (n : Nat) : Nat := n - 1

/-- the tables as a dictionary: linear search in the table selected by which key subtags are present -/
def findTables (T : Tables) : Find := fun (kl, ks, kr) =>
  if kl != 0 && ks == 0 && kr == 0 then
    (T.langOnly.toList.find? (fun row => row.k == kl)).map fun row => (dec row.l, dec row.s, dec row.r)
  else if kl != 0 && ks == 0 && kr != 0 then
    (T.langRegion.toList.find? (fun row => row.k1 == kl && row.k2 == kr)).map fun row => (dec row.l, dec row.s, dec row.r)
  else if kl != 0 && ks != 0 && kr == 0 then
    (T.langScript.toList.find? (fun row => row.k1 == kl && row.k2 == ks)).map fun row => (dec row.l, dec row.s, dec row.r)
  else if kl == 0 && ks != 0 && kr != 0 then
    (T.scriptRegion.toList.find? (fun row => row.k1 == ks && row.k2 == kr)).map fun row => (dec row.l, dec row.s, dec row.r)
  else if kl == 0 && ks != 0 && kr == 0 then
    (T.scriptOnly.toList.find? (fun row => row.k == ks)).map fun row => (dec row.l, dec row.s, dec row.r)
  else if kl == 0 && ks == 0 && kr != 0 then
    (T.regionOnly.toList.find? (fun row => row.k == kr)).map fun row => (dec row.l, dec row.s, dec row.r)
  else none

end Spec
end UL
