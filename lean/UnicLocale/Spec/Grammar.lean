/-
  Spec/Grammar.lean — independent specification, written from the property statements and the
  UTS #35 EBNF, not from the Rust.  Executable: the driver serves it to the harness as the oracle.

    unicode_language_id = unicode_language_subtag (sep unicode_script_subtag)?
                          (sep unicode_region_subtag)? (sep unicode_variant_subtag)*
    unicode_language_subtag = alpha{2,3} | alpha{5,8}
    unicode_script_subtag   = alpha{4}
    unicode_region_subtag   = alpha{2} | digit{3}
    unicode_variant_subtag  = alphanum{5,8} | digit alphanum{3}
    sep = [-_]
-/
import UnicLocale.Model.Basic

namespace UL.Spec

/-- `s` has between `lo` and `hi` bytes, all satisfying `p`. -/
def rep (p : Nat → Bool) (lo hi : Nat) (s : Bytes) : Bool :=
  lo ≤ s.length && s.length ≤ hi && s.all p

def isLanguage (s : Bytes) : Bool := rep isAlpha 2 3 s || rep isAlpha 5 8 s
def isScript (s : Bytes) : Bool := rep isAlpha 4 4 s
def isRegion (s : Bytes) : Bool := rep isAlpha 2 2 s || rep isDigit 3 3 s
def isVariant (s : Bytes) : Bool :=
  rep isAlnum 5 8 s ||
  (match s with
   | d :: r => isDigit d && rep isAlnum 3 3 r
   | [] => false)

def und : Bytes := [117, 110, 100]

/-- canonical stored form of a language subtag: lower case, `und` is the empty language -/
def canonLanguage (s : Bytes) : Option Bytes := if lower s == und then none else some (lower s)

/-- sorted, duplicate-free list representing a set of byte strings -/
def insertSet (x : Bytes) : List Bytes → List Bytes
  | [] => [x]
  | y :: ys => if x == y then y :: ys else if bLt x y then x :: y :: ys else y :: insertSet x ys
def toSet (l : List Bytes) : List Bytes := l.foldr insertSet []

/-- abstract language identifier: variants as a set -/
structure LangIdV where
  language : Option Bytes
  script : Option Bytes
  region : Option Bytes
  variants : List Bytes
  deriving DecidableEq, Repr

/-- take one leading token if it satisfies `p` -/
def takeOpt (p : Bytes → Bool) : List Bytes → Option Bytes × List Bytes
  | t :: ts => if p t then (some t, ts) else (none, t :: ts)
  | [] => (none, [])

def hasDup : List Bytes → Bool
  | [] => false
  | x :: xs => xs.contains x || hasDup xs

/-- Reads `language script? region? variant*` off the front of a token list; returns the value,
    whether a variant was repeated, and the tokens after the longest such prefix
    (`none` iff the first token is not a language). -/
def readLangIdPrefixD (ts : List Bytes) : Option (LangIdV × Bool × List Bytes) :=
  match ts with
  | [] => none
  | l :: r0 =>
    if !isLanguage l then none
    else
      let (s, r1) := takeOpt isScript r0
      let (r, r2) := takeOpt isRegion r1
      let vs := (r2.takeWhile isVariant).map lower
      let rest := r2.dropWhile isVariant
      some ({ language := canonLanguage l, script := s.map title, region := r.map upper,
              variants := toSet vs }, hasDup vs, rest)

def readLangIdPrefix (ts : List Bytes) : Option (LangIdV × List Bytes) :=
  (readLangIdPrefixD ts).map fun (v, _, r) => (v, r)

inductive LiResult where
  | ok (v : LangIdV)
  | invalidLanguage
  | invalidSubtag
  deriving DecidableEq, Repr

/-- C02: the whole token list must be `language script? region? variant*`. -/
def langIdResult (bs : Bytes) : LiResult :=
  match readLangIdPrefix (splitSep bs) with
  | none => .invalidLanguage
  | some (v, rest) => if rest.isEmpty then .ok v else .invalidSubtag

/-- canonical text of an abstract language identifier -/
def canonLangId (v : LangIdV) : Bytes :=
  join ([v.language.getD und] ++ v.script.toList ++ v.region.toList ++ v.variants)

end UL.Spec
