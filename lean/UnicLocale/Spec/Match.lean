/-
  Spec/Match.lean — executable form of the C11 statement ("missing subtag as wildcard"), written
  from the property text, not from the Rust: for each of language, script, region and the variant
  list the two sides are equal or the side flagged as a range has that field empty.
  (The oracle of the C11 check; `Props/C11.lean` proves it equal to the model of `matches`.)
-/
import UnicLocale.Model.Locale

namespace UL.Spec

def fieldOkB (x y : Option Bytes) (ra rb : Bool) : Bool :=
  x == y || (ra && x.isNone) || (rb && y.isNone)

/-- the variant list is empty when there is no list or the list has no element -/
def variantsEmptyB (v : Option (List Bytes)) : Bool := (v.getD []).isEmpty

def variantsOkB (x y : Option (List Bytes)) (ra rb : Bool) : Bool :=
  x == y || (ra && variantsEmptyB x) || (rb && variantsEmptyB y)

def matchesB (a b : LangId) (ra rb : Bool) : Bool :=
  fieldOkB a.language b.language ra rb && fieldOkB a.script b.script ra rb &&
  fieldOkB a.region b.region ra rb && variantsOkB a.variants b.variants ra rb

/-- for `Locale`: false whenever either side has private-use subtags, otherwise the
    language-identifier result (`-u-` and `-t-` content ignored) -/
def localeMatchesB (a b : Locale) (ra rb : Bool) : Bool :=
  if a.ext.priv.length > 0 || b.ext.priv.length > 0 then false else matchesB a.id b.id ra rb

end UL.Spec
