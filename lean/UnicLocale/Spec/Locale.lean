/-
  Spec/Locale.lean — independent three-zone oracle for `Locale::from_bytes` (property C03),
  written from the property statement and the UTS #35 grammar:

    locale  := langid ext* pu?          ext ∈ {uext, text}, each at most once, either order
    uext    := 'u' ( attribute+ keyword* | keyword+ )
    keyword := key type*                key = alnum alpha,   type, attribute = alnum{3,8}
    text    := 't' ( tlang tfield* | tfield+ )
    tfield  := tkey tvalue+             tkey = alpha digit,  tvalue = alnum{3,8}
    pu      := 'x' alnum{1,8}+

  `strict = true` reads exactly that grammar (zone *must accept*).  `strict = false` reads the
  relaxation the property allows to go either way (empty extension bodies, a tfield without value
  — the form the library itself prints —, repeated variants / attributes read as sets, well-formed
  *other* extensions), applied after deleting empty subtags at extension boundaries.
-/
import UnicLocale.Spec.Grammar

namespace UL.Spec

def isAttr (s : Bytes) : Bool := rep isAlnum 3 8 s
def isKey (s : Bytes) : Bool :=
  match s with
  | [a, b] => isAlnum a && isAlpha b
  | _ => false
def isTKey (s : Bytes) : Bool :=
  match s with
  | [a, b] => isAlpha a && isDigit b
  | _ => false
def isPrivate (s : Bytes) : Bool := rep isAlnum 1 8 s
def isOtherBody (s : Bytes) : Bool := rep isAlnum 2 8 s

def trueWord : Bytes := [116, 114, 117, 101]

/-- key-sorted map insert (last one wins) -/
def mapInsert (k : Bytes) (v : List Bytes) : List (Bytes × List Bytes) → List (Bytes × List Bytes)
  | [] => [(k, v)]
  | (k', v') :: m =>
    if k == k' then (k, v) :: m
    else if bLt k k' then (k, v) :: (k', v') :: m
    else (k', v') :: mapInsert k v m

def sortInsert (x : Bytes) : List Bytes → List Bytes
  | [] => [x]
  | y :: ys => if bLt y x then y :: sortInsert x ys else x :: y :: ys
def sortMulti (l : List Bytes) : List Bytes := l.foldr sortInsert []

structure LocV where
  id : LangIdV
  attrs : List Bytes := []
  keywords : List (Bytes × List Bytes) := []
  tlang : Option LangIdV := none
  tfields : List (Bytes × List Bytes) := []
  tags : List Bytes := []
  /-- a duplicate keyword key or tfield key was read: the input is outside the property -/
  dupKeys : Bool := false
  deriving DecidableEq, Repr

/-- `key value*` groups: the groups (keys and values lower-cased) and the rest -/
def readGroups (isK isV : Bytes → Bool) : Nat → List Bytes → List (Bytes × List Bytes) × List Bytes
  | 0, ts => ([], ts)
  | fuel + 1, ts =>
    match ts with
    | k :: r =>
      if isK k then
        let vs := r.takeWhile isV
        let (gs, rest) := readGroups isK isV fuel (r.dropWhile isV)
        ((lower k, vs.map lower) :: gs, rest)
      else ([], ts)
    | [] => ([], [])

def toMap (gs : List (Bytes × List Bytes)) : List (Bytes × List Bytes) :=
  gs.foldl (fun m g => mapInsert g.1 (g.2.filter (· != trueWord)) m) []

structure SecState where
  v : LocV
  seenU : Bool := false
  seenT : Bool := false
  seenOther : List Nat := []

/-- the extension sections after the language identifier -/
def readSections (strict : Bool) : Nat → List Bytes → SecState → Option SecState
  | 0, _, _ => none
  | fuel + 1, ts, st =>
    match ts with
    | [] => some st
    | [s] :: r =>
      let c := toLower s
      if c == 117 then        -- 'u'
        if st.seenU then none
        else
          let attrs := (r.takeWhile isAttr).map lower
          let r1 := r.dropWhile isAttr
          let (gs, r2) := readGroups isKey isAttr r1.length r1
          if strict && attrs.isEmpty && gs.isEmpty then none
          else if strict && hasDup attrs then none
          else
            let v := { st.v with attrs := toSet attrs, keywords := toMap gs,
                                 dupKeys := st.v.dupKeys || hasDup (gs.map (·.1)) }
            readSections strict fuel r2 { st with v := v, seenU := true }
      else if c == 116 then   -- 't'
        if st.seenT then none
        else
          let (tl, tlDup, r1) : Option LangIdV × Bool × List Bytes :=
            match readLangIdPrefixD r with
            | some (v, d, rest) => (some v, d, rest)
            | none => (none, false, r)
          let (gs, r2) := readGroups isTKey isAttr r1.length r1
          if strict && tl.isNone && gs.isEmpty then none
          else if strict && gs.any (fun g => g.2.isEmpty) then none
          else if strict && tlDup then none
          else
            let v := { st.v with tlang := tl, tfields := toMap gs,
                                 dupKeys := st.v.dupKeys || hasDup (gs.map (·.1)) }
            readSections strict fuel r2 { st with v := v, seenT := true }
      else if c == 120 then   -- 'x'
        if !r.all isPrivate then none
        else if strict && r.isEmpty then none
        else some { st with v := { st.v with tags := sortMulti (r.map lower) } }
      else if isAlnum c then  -- another singleton
        if strict then none
        else if st.seenOther.contains c then none
        else
          let body := r.takeWhile isOtherBody
          if body.isEmpty then none
          else readSections strict fuel (r.dropWhile isOtherBody) { st with seenOther := c :: st.seenOther }
      else none
    | _ :: _ => none

def readLocale (strict : Bool) (ts : List Bytes) : Option SecState :=
  match readLangIdPrefixD ts with
  | none => none
  | some (id, dup, rest) =>
    if strict && dup then none
    else readSections strict (rest.length + 1) rest { v := { id := id } }

/-- delete the empty subtags of every maximal run of empties that is followed by a
    singleton-shaped subtag or by the end of the input -/
def stripAux : List Bytes → List Bytes → List Bytes
  | [], _ => []
  | t :: ts, pending =>
    if t.isEmpty then stripAux ts (t :: pending)
    else if t.length == 1 then t :: stripAux ts []
    else pending ++ (t :: stripAux ts [])
def strip (ts : List Bytes) : List Bytes := stripAux ts []

/-- token-level over-approximation of "has a duplicate keyword key or tfield key", used only when
    no reading exists (the precise notion needs a reading) -/
def dupKeyTokens (ts : List Bytes) : Bool :=
  hasDup ((ts.filter fun t => isKey t || isTKey t).map lower)

inductive Zone where
  | accept (v : LocV)
  | either (v : LocV)
  | reject
  | outside
  deriving Repr

/-- the three zones of C03 (plus *outside*: duplicate keys) -/
def zoneOfTokens (ts : List Bytes) : Zone :=
  match readLocale true ts with
  | some st => if st.v.dupKeys then .outside else .accept st.v
  | none =>
    match readLocale false (strip ts) with
    | some st => if st.v.dupKeys then .outside else .either st.v
    | none => if dupKeyTokens ts then .outside else .reject

def zone (bs : Bytes) : Zone := zoneOfTokens (splitSep bs)

def mapTokens (m : List (Bytes × List Bytes)) : List Bytes :=
  m.foldr (fun g acc => g.1 :: (g.2 ++ acc)) []

def langIdTokens (l : LangIdV) : List Bytes :=
  [l.language.getD und] ++ l.script.toList ++ l.region.toList ++ l.variants

/-- canonical subtags of an abstract locale: id, then t, u, x; nothing for an empty extension -/
def canonTokens (v : LocV) : List Bytes :=
  let tT : List Bytes :=
    if v.tlang.isNone && v.tfields.isEmpty then []
    else [116] :: ((match v.tlang with
                    | some l => langIdTokens l
                    | none => []) ++ mapTokens v.tfields)
  let uT : List Bytes :=
    if v.attrs.isEmpty && v.keywords.isEmpty then [] else [117] :: (v.attrs ++ mapTokens v.keywords)
  let xT : List Bytes := if v.tags.isEmpty then [] else [120] :: v.tags
  langIdTokens v.id ++ tT ++ uT ++ xT

def canon (v : LocV) : Bytes := join (canonTokens v)

end UL.Spec
