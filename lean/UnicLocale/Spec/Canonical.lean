/-
  Spec/Canonical.lean — independent recogniser of the canonical serialised form (property C04),
  written from the property text:

    only ASCII letters, digits and '-'; no empty subtag;
    language lower case (2–3 or 5–8 letters, `und` included), then optionally a Title-case script,
    an UPPER-case / 3-digit region, lower-case variants in strictly increasing order (sorted, no
    duplicate); then the extensions in the order `t`, `u`, `x`, each singleton lower case and each
    followed by a NON-EMPTY body (nothing at all is written for an empty extension):
      t : an optional tlang (shaped like a language identifier, starting with a language subtag),
          then tfields `tkey tvalue*`, tkeys strictly increasing, no value equal to `true`;
      u : attributes strictly increasing, then keywords `key type*`, keys strictly increasing,
          no type equal to `true`;
      x : lower-case alphanumeric subtags of 1–8 bytes in non-decreasing order.

  Executable (`Bool`), uses only byte classes and the byte-string order of `Model/Basic.lean`
  and `rep` of `Spec/Grammar.lean`.
-/
import UnicLocale.Spec.Grammar

namespace UL.Spec

/-- `bytes.split(|b| b == '-')` — the only separator of the canonical form -/
def splitDash : Bytes → List Bytes
  | [] => [[]]
  | b :: t =>
    if b == 45 then [] :: splitDash t
    else match splitDash t with
      | h :: r => (b :: h) :: r
      | [] => [[b]]

def isLowerAlnum (b : Nat) : Bool := isLower b || isDigit b

/-! canonical (case-normalised) subtag classes -/
def cLanguage (s : Bytes) : Bool := rep isLower 2 3 s || rep isLower 5 8 s
def cScript (s : Bytes) : Bool :=
  match s with
  | a :: r => isUpper a && rep isLower 3 3 r
  | [] => false
def cRegion (s : Bytes) : Bool := rep isUpper 2 2 s || rep isDigit 3 3 s
def cVariant (s : Bytes) : Bool :=
  rep isLowerAlnum 5 8 s ||
  (match s with
   | d :: r => isDigit d && rep isLowerAlnum 3 3 r
   | [] => false)
def cAttr (s : Bytes) : Bool := rep isLowerAlnum 3 8 s
/-- keyword type / tfield value: never the word `true` -/
def cType (s : Bytes) : Bool := cAttr s && s != [116, 114, 117, 101]
def cKey (s : Bytes) : Bool :=
  match s with
  | [a, b] => isLowerAlnum a && isLower b
  | _ => false
def cTKey (s : Bytes) : Bool :=
  match s with
  | [a, b] => isLower a && isDigit b
  | _ => false
def cTag (s : Bytes) : Bool := rep isLowerAlnum 1 8 s

/-- drop one leading subtag if it is in class `p` -/
def dropOpt (p : Bytes → Bool) : List Bytes → List Bytes
  | t :: ts => if p t then ts else t :: ts
  | [] => []

/-- reads `language script? region? variant*` (variants strictly increasing) off the front;
    returns what follows, `none` if the front is not such an identifier -/
def canonLangIdRest : List Bytes → Option (List Bytes)
  | l :: r =>
    if cLanguage l then
      let r := dropOpt cRegion (dropOpt cScript r)
      if strictSorted (r.takeWhile cVariant) then some (r.dropWhile cVariant) else none
    else none
  | [] => none

/-- reads `(key value*)*` off the front: the keys in order of appearance, and what follows -/
def canonGroups (isK isV : Bytes → Bool) : Bool → List Bytes → List Bytes × List Bytes
  | _, [] => ([], [])
  | seen, t :: ts =>
    if isK t then
      let r := canonGroups isK isV true ts
      (t :: r.1, r.2)
    else if seen && isV t then canonGroups isK isV seen ts
    else ([], t :: ts)

/-- body of the `t` extension: `tlang? (tkey tvalue*)*`, not empty; returns what follows -/
def tBody (ts : List Bytes) : Option (List Bytes) :=
  let afterLang : Option (List Bytes) :=
    match ts with
    | t :: _ => if cLanguage t then canonLangIdRest ts else some ts
    | [] => some ts
  afterLang.bind fun r =>
    let g := canonGroups cTKey cType false r
    if strictSorted g.1 && g.2.length < ts.length then some g.2 else none

/-- body of the `u` extension: `attribute* (key type*)*`, not empty; returns what follows -/
def uBody (ts : List Bytes) : Option (List Bytes) :=
  let g := canonGroups cKey cType false (ts.dropWhile cAttr)
  if strictSorted (ts.takeWhile cAttr) && strictSorted g.1 && g.2.length < ts.length then some g.2
  else none

/-- an optional extension introduced by the singleton `c` -/
def optSection (c : Nat) (body : List Bytes → Option (List Bytes)) (ts : List Bytes) :
    Option (List Bytes) :=
  match ts with
  | [b] :: r => if b == c then body r else some ts
  | _ => some ts

/-- the end of the identifier: nothing, or `x` with at least one tag, tags non-decreasing -/
def xTail : List Bytes → Bool
  | [] => true
  | [120] :: r => !r.isEmpty && r.all cTag && weakSorted r
  | _ => false

def isCanonicalTokens (ts : List Bytes) : Bool :=
  match ((canonLangIdRest ts).bind (optSection 116 tBody)).bind (optSection 117 uBody) with
  | some r => xTail r
  | none => false

/-- the canonical form of a locale identifier -/
def isCanonical (bs : Bytes) : Bool :=
  bs.all (fun b => isAlnum b || b == 45) && isCanonicalTokens (splitDash bs)

/-- the canonical form of a plain language identifier (no extension at all) -/
def isCanonicalLangId (bs : Bytes) : Bool :=
  bs.all (fun b => isAlnum b || b == 45) && canonLangIdRest (splitDash bs) == some []

/-! ### every clause pinned on an instance -/

-- accepted: "en-Latn-US-1996-valencia-t-es-h0-hybrid-u-attr-ca-buddhist-x-a-b"
example : isCanonical
    [101,110,45,76,97,116,110,45,85,83,45,49,57,57,54,45,118,97,108,101,110,99,105,97,45,116,45,101,
     115,45,104,48,45,104,121,98,114,105,100,45,117,45,97,116,116,114,45,99,97,45,98,117,100,100,104,
     105,115,116,45,120,45,97,45,98] = true := by decide
-- accepted: "und", "en-Latn-US-1996-valencia" (also as plain language identifiers),
-- "en-t-h0-hybrid" (no tlang), "en-t-es-AR" (no tfield), "en-u-ca" (key without type), "en-x-a-a"
example : isCanonical [117,110,100] = true ∧ isCanonicalLangId [117,110,100] = true := by decide
example : isCanonicalLangId
    [101,110,45,76,97,116,110,45,85,83,45,49,57,57,54,45,118,97,108,101,110,99,105,97] = true := by decide
example : isCanonical [101,110,45,116,45,104,48,45,104,121,98,114,105,100] = true := by decide
example : isCanonical [101,110,45,116,45,101,115,45,65,82] = true := by decide
example : isCanonical [101,110,45,117,45,99,97] = true := by decide
example : isCanonical [101,110,45,120,45,97,45,97] = true := by decide
-- rejected: upper-case language "En-US"; lower-case script "en-latn"; lower-case region "en-us"
example : isCanonical [69,110,45,85,83] = false := by decide
example : isCanonical [101,110,45,108,97,116,110] = false := by decide
example : isCanonical [101,110,45,117,115] = false := by decide
-- rejected: unsorted variants "en-valencia-1996"; duplicated variant "en-1996-1996"
example : isCanonical [101,110,45,118,97,108,101,110,99,105,97,45,49,57,57,54] = false := by decide
example : isCanonical [101,110,45,49,57,57,54,45,49,57,57,54] = false := by decide
-- rejected: `u` before `t` "en-u-ca-t-es"
example : isCanonical [101,110,45,117,45,99,97,45,116,45,101,115] = false := by decide
-- rejected: a `true` value "en-u-ca-true"
example : isCanonical [101,110,45,117,45,99,97,45,116,114,117,101] = false := by decide
-- rejected: empty extensions "en-u", "en-x", "en-t-u-ca"
example : isCanonical [101,110,45,117] = false := by decide
example : isCanonical [101,110,45,120] = false := by decide
example : isCanonical [101,110,45,116,45,117,45,99,97] = false := by decide
-- rejected: unsorted keys "en-u-nu-ca"; duplicated attribute "en-u-attr-attr"
example : isCanonical [101,110,45,117,45,110,117,45,99,97] = false := by decide
example : isCanonical [101,110,45,117,45,97,116,116,114,45,97,116,116,114] = false := by decide
-- rejected: unsorted private-use tags "en-x-b-a"
example : isCanonical [101,110,45,120,45,98,45,97] = false := by decide
-- rejected: a '.' byte "en-1.cd"; a '_' separator "en_US"
example : isCanonical [101,110,45,49,46,99,100] = false := by decide
example : isCanonical [101,110,95,85,83] = false := by decide
-- rejected: empty subtags: trailing '-' "en-", doubled '-' "en--US", the empty string
example : isCanonical [101,110,45] = false := by decide
example : isCanonical [101,110,45,45,85,83] = false := by decide
example : isCanonical [] = false := by decide
-- an extension is not a plain language identifier
example : isCanonicalLangId [101,110,45,117,45,99,97] = false := by decide

end UL.Spec
