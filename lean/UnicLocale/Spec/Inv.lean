/-
  Spec/Inv.lean — the representation invariant of values obtainable through the safe API
  (DESIGN §3).  Written with the *spec* classifiers (UTS #35 productions), not with the model's
  constructors: a stored subtag is in its class and case-normalised; `variants ≠ Some([])`;
  variants, attributes strictly increasing; keyword / tfield lists strictly increasing by key,
  no `true` value stored; private-use tags non-decreasing; the tlang is itself a valid identifier.

  Everything is a decidable `Bool`, so concrete values are checked by `decide`.
-/
import UnicLocale.Model.Locale
import UnicLocale.Spec.Locale

namespace UL

def okLanguage (l : Language) : Bool :=
  match l with
  | none => true
  | some b => Spec.isLanguage b && lower b == b && b != Spec.und
def okScript (s : Option Bytes) : Bool :=
  match s with
  | none => true
  | some b => Spec.isScript b && title b == b
def okRegion (r : Option Bytes) : Bool :=
  match r with
  | none => true
  | some b => Spec.isRegion b && upper b == b
def okVariant (v : Bytes) : Bool := Spec.isVariant v && lower v == v
def okAttr (a : Bytes) : Bool := Spec.isAttr a && lower a == a
/-- a stored keyword type / tfield value: `alnum{3,8}`, lower case, never the word `true` -/
def okType (t : Bytes) : Bool := Spec.isAttr t && lower t == t && t != Spec.trueWord
def okKey (k : Bytes) : Bool := Spec.isKey k && lower k == k
def okTKey (k : Bytes) : Bool := Spec.isTKey k && lower k == k
def okTag (t : Bytes) : Bool := Spec.isPrivate t && lower t == t

def okVariants (vs : Option (List Bytes)) : Bool :=
  match vs with
  | none => true
  | some l => !l.isEmpty && strictSorted l && l.all okVariant

def LangId.inv (x : LangId) : Bool :=
  okLanguage x.language && okScript x.script && okRegion x.region && okVariants x.variants

def okMap (okK : Bytes → Bool) (m : AMap) : Bool :=
  strictSorted (AMap.keys m) && m.all (fun kv => okK kv.1 && kv.2.all okType)

def UExt.inv (u : UExt) : Bool :=
  strictSorted u.attributes && u.attributes.all okAttr && okMap okKey u.keywords

def TExt.inv (x : TExt) : Bool :=
  (match x.tlang with
   | none => true
   | some l => l.inv) && okMap okTKey x.tfields

def PExt.inv (p : PExt) : Bool := weakSorted p && p.all okTag

def ExtMap.inv (m : ExtMap) : Bool := m.unicode.inv && m.transform.inv && PExt.inv m.priv

def Locale.inv (x : Locale) : Bool := x.id.inv && x.ext.inv

-- non-vacuity: the model's parse of
-- "en-Latn-US-macos-t-es-AR-h0-hybrid-u-attr-ca-buddhist-x-priv" satisfies the invariant
example :
    (match Locale.fromBytes
        [101,110,45,76,97,116,110,45,85,83,45,109,97,99,111,115,45,116,45,101,115,45,65,82,45,104,48,45,
         104,121,98,114,105,100,45,117,45,97,116,116,114,45,99,97,45,98,117,100,100,104,105,115,116,45,
         120,45,112,114,105,118] with
     | .ok x => x.inv && !x.ext.unicode.isEmpty && !x.ext.transform.isEmpty && !x.ext.priv.isEmpty
     | _ => false) = true := by decide

end UL
