/-
  Spec/Likely.lean — dictionary formulation of the likely-subtags properties (C06–C08), of the
  table derivation (C18) and of `character_direction` (C14), written from the property statements.
  Subtags appear as the little-endian integers of their text (0 = absent), which is how both the
  CLDR translation (`Gen/Cldr.lean`) and the compiled tables carry them.
-/
import UnicLocale.Model.Likely
import Std.Data.HashMap

namespace UL.Spec

/-- one `likelySubtags` entry: key (language, script, region) → value (language, script, region) -/
structure CEntry where
  kl : Nat
  ks : Nat
  kr : Nat
  vl : Nat
  vs : Nat
  vr : Nat
  deriving DecidableEq, Repr, Inhabited

/-- one locale of the CLDR layout data: language, script, region, has variants, direction -/
structure LEntry where
  l : Nat
  s : Nat
  r : Nat
  hasVariants : Nat
  dir : Nat
  deriving DecidableEq, Repr, Inhabited

abbrev Key := Nat × Nat × Nat
abbrev Find := Key → Option Key

/-- association-list lookup (what the theorems are about) -/
def findAssoc (es : List CEntry) (k : Key) : Option Key :=
  match es with
  | [] => none
  | e :: r => if (e.kl, e.ks, e.kr) == k then some (e.vl, e.vs, e.vr) else findAssoc r k

/-- hash-map lookup (what the driver executes) -/
def dictOfEntries (es : List CEntry) : Std.HashMap Key Key :=
  es.foldl (fun m e => if m.contains (e.kl, e.ks, e.kr) then m else m.insert (e.kl, e.ks, e.kr) (e.vl, e.vs, e.vr)) {}

def packOpt (o : Option Bytes) : Nat :=
  match o with
  | some s => pack s
  | none => 0

def unpackOpt (n : Nat) : Option Bytes := if n == 0 then none else some (unpack n)

/-- first hit among the candidate keys -/
def firstHit (find : Find) : List Key → Option Key
  | [] => none
  | k :: ks =>
    match find k with
    | some v => some v
    | none => firstHit find ks

/-- C06: the value of the most specific matching entry, with every given subtag kept;
    `none` ("unchanged") iff all three are present or no entry matches. -/
def maximize (find : Find) (l : Language) (s r : Option Bytes) : Option Triple :=
  if l.isSome && s.isSome && r.isSome then none
  else
    let L := packOpt l
    let S := packOpt s
    let R := packOpt r
    let cands : List Key :=
      if l.isSome then
        (if r.isSome then [(L, 0, R)] else []) ++ (if s.isSome then [(L, S, 0)] else []) ++ [(L, 0, 0)]
      else if s.isSome then
        (if r.isSome then [(0, S, R)] else []) ++ [(0, S, 0)]
      else if r.isSome then [(0, 0, R)]
      else []
    match firstHit find cands with
    | none => none
    | some (vl, vs, vr) =>
      some (match l with
            | some x => some x
            | none => unpackOpt vl,
            match s with
            | some x => some x
            | none => unpackOpt vs,
            match r with
            | some x => some x
            | none => unpackOpt vr)

/-- what an identifier maximizes to (itself when already full) -/
def maxOf (find : Find) (l : Language) (s r : Option Bytes) : Option Triple :=
  if l.isSome && s.isSome && r.isSome then some (l, s, r) else maximize find l s r

/-- C08: the first of {language, language-region, language-script} that maximizes back -/
def minimize (find : Find) (l : Language) (s r : Option Bytes) : Option Triple :=
  match maxOf find l s r with
  | none => none
  | some mx =>
    let (ml, ms, mr) := mx
    if maximize find ml none none == some mx then some (ml, none, none)
    else if mr.isSome && maximize find ml none mr == some mx then some (ml, none, mr)
    else if ms.isSome && maximize find ml ms none == some mx then some (ml, ms, none)
    else none

/-! ### what CLDR determines about the tables (C18) -/

def optEnc (n : Nat) : Nat := if n == 0 then 0 else n + 1
/-- the integer of "und": the generator stores the bare `und` key in LANG_ONLY under it -/
def undInt : Nat := 6581877

def insertBy {α} (lt : α → α → Bool) (x : α) : List α → List α
  | [] => [x]
  | y :: ys => if lt x y then x :: y :: ys else y :: insertBy lt x ys
def sortBy {α} (lt : α → α → Bool) (l : List α) : List α := l.foldr (insertBy lt) []

def row1 (k : Nat) (e : CEntry) : Row1 := ⟨k, optEnc e.vl, optEnc e.vs, optEnc e.vr⟩
def row2 (k1 k2 : Nat) (e : CEntry) : Row2 := ⟨k1, k2, optEnc e.vl, optEnc e.vs, optEnc e.vr⟩
def lt1 (a b : Row1) : Bool := a.k < b.k
def lt2 (a b : Row2) : Bool := a.k1 < b.k1 || (a.k1 == b.k1 && a.k2 < b.k2)

def deriveLangOnly (es : List CEntry) : List Row1 :=
  sortBy lt1 ((es.filter fun e => e.ks == 0 && e.kr == 0).map fun e => row1 (if e.kl == 0 then undInt else e.kl) e)
def deriveLangRegion (es : List CEntry) : List Row2 :=
  sortBy lt2 ((es.filter fun e => e.kl != 0 && e.ks == 0 && e.kr != 0).map fun e => row2 e.kl e.kr e)
def deriveLangScript (es : List CEntry) : List Row2 :=
  sortBy lt2 ((es.filter fun e => e.kl != 0 && e.ks != 0 && e.kr == 0).map fun e => row2 e.kl e.ks e)
def deriveScriptRegion (es : List CEntry) : List Row2 :=
  sortBy lt2 ((es.filter fun e => e.kl == 0 && e.ks != 0 && e.kr != 0).map fun e => row2 e.ks e.kr e)
def deriveScriptOnly (es : List CEntry) : List Row1 :=
  sortBy lt1 ((es.filter fun e => e.kl == 0 && e.ks != 0 && e.kr == 0).map fun e => row1 e.ks e)
def deriveRegionOnly (es : List CEntry) : List Row1 :=
  sortBy lt1 ((es.filter fun e => e.kl == 0 && e.ks == 0 && e.kr != 0).map fun e => row1 e.kr e)

/-- entries with all three key subtags (none in CLDR 44) would have no table -/
def unplaced (es : List CEntry) : List CEntry := es.filter fun e => e.kl != 0 && e.ks != 0 && e.kr != 0

def insertNat (x : Nat) : List Nat → List Nat
  | [] => [x]
  | y :: ys => if x == y then y :: ys else if x < y then x :: y :: ys else y :: insertNat x ys
def natSet (l : List Nat) : List Nat := l.foldr insertNat []

/-- scripts of the locales with direction `d` that carry a script; languages of the RTL locales -/
def deriveScripts (ls : List LEntry) (d : Nat) : List Nat :=
  natSet ((ls.filter fun e => e.dir == d && e.s != 0).map (·.s))
def deriveRtlLangs (ls : List LEntry) : List Nat :=
  natSet ((ls.filter fun e => e.dir == 1).map (·.l))

/-! ### C14: direction -/

/-- reference: a listed script decides; otherwise an RTL-listed language is RTL unless (with
    likely-subtags support) its likely script is a listed LTR script; otherwise LTR. -/
def direction (likely : Bool) (find : Find) (L : Layout) (l : Language) (s r : Option Bytes) : LangId.Dir :=
  let S := packOpt s
  if s.isSome && L.ltr.contains S then .ltr
  else if s.isSome && L.rtl.contains S then .rtl
  else if s.isSome && L.ttb.contains S then .ttb
  else if l.isSome && L.rtlLangs.contains (packOpt l) then
    if likely then
      match maximize find l none r with
      | some (_, some sc, _) => if L.ltr.contains (pack sc) then .ltr else .rtl
      | _ => .rtl
    else .rtl
  else .ltr

/-- The two unconditional clauses of C14 as one function (the oracle of the check): a listed script
    decides on its own; no listed script and a language that is not RTL-listed is left-to-right;
    anything else (an RTL-listed language without a listed script) is left open (`none`). -/
def directionClause (L : Layout) (l : Language) (s : Option Bytes) : Option LangId.Dir :=
  let S := packOpt s
  if s.isSome && L.ltr.contains S then some .ltr
  else if s.isSome && L.rtl.contains S then some .rtl
  else if s.isSome && L.ttb.contains S then some .ttb
  else if l.isSome && L.rtlLangs.contains (packOpt l) then none
  else some .ltr

/-- the layout the CLDR layout files determine (`generate_layout.rs`) -/
def derivedLayout (ls : List LEntry) : Layout :=
  ⟨deriveScripts ls 0, deriveScripts ls 1, deriveScripts ls 2, deriveRtlLangs ls⟩

end UL.Spec
