/-
  Spec/AbsOps.lean — the reference model of property C10, written from the property text:

    "After any sequence of public mutations … every getter, is_empty, has_*, to_string and a
     re-parse agree with a reference model made of sorted sets, a sorted multiset (private tags)
     and ordered maps.  A call that returns an error (malformed key, value, attribute or tag)
     leaves the value unchanged, and accepted arguments are normalised exactly as the parser would
     normalise them."

  Nothing here mentions the model's parse functions, `binarySearchBy`, `sortBytes`, `dedupAdj` or
  `AMap`.  Arguments are classified with the UTS #35 productions of `Spec/Grammar.lean` /
  `Spec/Locale.lean` (`isLanguage`, `isScript`, `isRegion`, `isVariant`, `isAttr`, `isKey`, `isTKey`,
  `isPrivate`, and the declarative reader `langIdResult` for a tlang) and normalised with the plain
  case maps (`lower`, `title`, `upper`; `und` is the empty language; the value `true` is dropped
  from keyword / tfield value lists).

  Containers:
    * set        = strictly increasing list; insert `insertSet`, delete `filter (· != x)`,
                   membership `contains`;
    * map        = key-sorted association list; `set` = `mapInsert` (replaces), `remove` =
                   `filter (key != k)`, `get` = `find?` (missing key ↦ empty list);
    * multiset   = non-decreasing list; insert `sortInsert` (keeps duplicates), delete ONE
                   occurrence `List.erase`, membership `contains`.

  The likely-subtags content (what `maximize` / `minimize` return for a (language, script, region)
  triple) is properties C06–C08; here it is a parameter `LikelyFns` of the reference model.
  Executable (the driver runs it as the oracle of the history stream).
-/
import UnicLocale.Model.Ops
import UnicLocale.Spec.Locale
import UnicLocale.Spec.TablesWF

namespace UL.Spec

/-! ### containers -/

/-- set of byte strings: delete -/
def setErase (x : Bytes) (s : List Bytes) : List Bytes := s.filter (· != x)

abbrev KMap := List (Bytes × List Bytes)

/-- `get`: the value list stored under `k`; a missing key reads as the empty list -/
def mapGet (k : Bytes) (m : KMap) : List Bytes :=
  match m.find? (·.1 == k) with
  | some kv => kv.2
  | none => []
def mapHas (k : Bytes) (m : KMap) : Bool := m.any (·.1 == k)
def mapRemove (k : Bytes) (m : KMap) : KMap := m.filter (·.1 != k)
def mapKeys (m : KMap) : List Bytes := m.map (·.1)

/-! ### abstract state -/

structure AbsLoc where
  language : Option Bytes := none          -- `none` = `und`
  script : Option Bytes := none
  region : Option Bytes := none
  variants : List Bytes := []              -- set
  attrs : List Bytes := []                 -- set
  keywords : KMap := []                    -- map  key ↦ types
  tlang : Option LangIdV := none
  tfields : KMap := []                     -- map  tkey ↦ tvalues
  tags : List Bytes := []                  -- sorted multiset
  deriving DecidableEq, Repr, Inhabited

/-- What `maximize` / `minimize` compute on a (language, script, region) triple: `ok none` =
    "unchanged, return false", `ok (some t)` = "replace the three subtags by `t`, return true".
    The content is the business of C06–C08. -/
structure LikelyFns where
  maxi : Option Bytes → Option Bytes → Option Bytes → Res (Option Triple)
  mini : Option Bytes → Option Bytes → Option Bytes → Res (Option Triple)

/-- the dictionary formulation of C06 / C08 over the compiled tables as the likely-subtags
    parameter (that the code computes exactly this is C06–C08, not C10) -/
def specLikely (T : Tables) : LikelyFns :=
  ⟨fun l s r => .ok (maximize (findTables T) l s r), fun l s r => .ok (minimize (findTables T) l s r)⟩

/-! ### argument normalisation -/

/-- keyword types / tfield values: every one must be `alnum{3,8}`; lower-cased; `true` dropped -/
def normValues (vs : List Bytes) : Option (List Bytes) :=
  if vs.all isAttr then some ((vs.map lower).filter (· != trueWord)) else none

def applyLikely (a : AbsLoc) (r : Res (Option Triple)) : AbsLoc × Out :=
  match r with
  | .ok none => (a, .bool false)
  | .ok (some (l, s, rg)) => ({ a with language := l, script := s, region := rg }, .bool true)
  | .err _ => (a, .err)
  | .panic => (a, .panic)

/-! ### one API call on the abstract state -/

def absStep (L : LikelyFns) (a : AbsLoc) : Op → AbsLoc × Out
  | .setLanguage v =>
    if isLanguage v then ({ a with language := canonLanguage v }, .unit) else (a, .err)
  | .setScript none => ({ a with script := none }, .unit)
  | .setScript (some v) =>
    if isScript v then ({ a with script := some (title v) }, .unit) else (a, .err)
  | .setRegion none => ({ a with region := none }, .unit)
  | .setRegion (some v) =>
    if isRegion v then ({ a with region := some (upper v) }, .unit) else (a, .err)
  | .setVariants vs =>
    if vs.all isVariant then ({ a with variants := toSet (vs.map lower) }, .unit) else (a, .err)
  | .clearVariants => ({ a with variants := [] }, .unit)
  | .hasVariant v =>
    if isVariant v then (a, .bool (a.variants.contains (lower v))) else (a, .err)
  | .setKeyword k vs =>
    if isKey k then
      match normValues vs with
      | some l => ({ a with keywords := mapInsert (lower k) l a.keywords }, .unit)
      | none => (a, .err)
    else (a, .err)
  | .removeKeyword k =>
    if isKey k then
      ({ a with keywords := mapRemove (lower k) a.keywords }, .bool (mapHas (lower k) a.keywords))
    else (a, .err)
  | .clearKeywords => ({ a with keywords := [] }, .unit)
  | .keyword k => if isKey k then (a, .list (mapGet (lower k) a.keywords)) else (a, .err)
  | .setAttribute t =>
    if isAttr t then ({ a with attrs := insertSet (lower t) a.attrs }, .unit) else (a, .err)
  | .removeAttribute t =>
    if isAttr t then
      ({ a with attrs := setErase (lower t) a.attrs }, .bool (a.attrs.contains (lower t)))
    else (a, .err)
  | .clearAttributes => ({ a with attrs := [] }, .unit)
  | .hasAttribute t => if isAttr t then (a, .bool (a.attrs.contains (lower t))) else (a, .err)
  | .setTLang l =>
    match langIdResult l with
    | .ok v => ({ a with tlang := some v }, .unit)
    | _ => (a, .err)
  | .clearTLang => ({ a with tlang := none }, .unit)
  | .setTField k vs =>
    if isTKey k then
      match normValues vs with
      | some l => ({ a with tfields := mapInsert (lower k) l a.tfields }, .unit)
      | none => (a, .err)
    else (a, .err)
  | .removeTField k =>
    if isTKey k then
      ({ a with tfields := mapRemove (lower k) a.tfields }, .bool (mapHas (lower k) a.tfields))
    else (a, .err)
  | .clearTFields => ({ a with tfields := [] }, .unit)
  | .tfield k => if isTKey k then (a, .list (mapGet (lower k) a.tfields)) else (a, .err)
  | .addTag t =>
    if isPrivate t then ({ a with tags := sortInsert (lower t) a.tags }, .unit) else (a, .err)
  | .removeTag t =>
    if isPrivate t then
      ({ a with tags := a.tags.erase (lower t) }, .bool (a.tags.contains (lower t)))
    else (a, .err)
  | .clearTags => ({ a with tags := [] }, .unit)
  | .hasTag t => if isPrivate t then (a, .bool (a.tags.contains (lower t))) else (a, .err)
  | .maximize => applyLikely a (L.maxi a.language a.script a.region)
  | .minimize => applyLikely a (L.mini a.language a.script a.region)

/-- the arguments of a call are well formed: each text argument is in the UTS #35 class of the
    subtag it stands for (calls without a text argument are always well formed) -/
def argOk : Op → Bool
  | .setLanguage v => isLanguage v
  | .setScript (some v) => isScript v
  | .setRegion (some v) => isRegion v
  | .setVariants vs => vs.all isVariant
  | .hasVariant v => isVariant v
  | .setKeyword k vs => isKey k && vs.all isAttr
  | .removeKeyword k => isKey k
  | .keyword k => isKey k
  | .setAttribute t => isAttr t
  | .removeAttribute t => isAttr t
  | .hasAttribute t => isAttr t
  | .setTLang l =>
    match langIdResult l with
    | .ok _ => true
    | _ => false
  | .setTField k vs => isTKey k && vs.all isAttr
  | .removeTField k => isTKey k
  | .tfield k => isTKey k
  | .addTag t => isPrivate t
  | .removeTag t => isPrivate t
  | .hasTag t => isPrivate t
  | _ => true

/-- a history on the abstract state: output and state after every call -/
def absRun (L : LikelyFns) (a : AbsLoc) : List Op → List (AbsLoc × Out)
  | [] => []
  | o :: os =>
    let r := absStep L a o
    r :: absRun L r.1 os

def absRunState (L : LikelyFns) (a : AbsLoc) (os : List Op) : AbsLoc :=
  os.foldl (fun s o => (absStep L s o).1) a

/-! ### what the getters show -/

structure Obs where
  language : Option Bytes            -- `none` prints as `und`
  script : Option Bytes
  region : Option Bytes
  variants : List Bytes              -- `variants()`, increasing
  attributes : List Bytes            -- `attributes()`, increasing
  keywordKeys : List Bytes           -- `keyword_keys()`, increasing
  keywordVals : List (Bytes × Out)   -- `keyword(k)` for every stored key
  tlang : Option LangIdV
  tfieldKeys : List Bytes
  tfieldVals : List (Bytes × Out)    -- `tfield(k)` for every stored key
  tags : List Bytes                  -- `tags()`, non-decreasing
  unicodeEmpty : Bool
  transformEmpty : Bool
  privateEmpty : Bool
  extensionsEmpty : Bool
  text : Bytes                       -- `to_string()`
  deriving DecidableEq, Repr

def toLocV (a : AbsLoc) : LocV :=
  { id := { language := a.language, script := a.script, region := a.region, variants := a.variants },
    attrs := a.attrs, keywords := a.keywords, tlang := a.tlang, tfields := a.tfields, tags := a.tags }

def absObs (L : LikelyFns) (a : AbsLoc) : Obs :=
  let uE := a.attrs.isEmpty && a.keywords.isEmpty
  let tE := a.tlang.isNone && a.tfields.isEmpty
  let pE := a.tags.isEmpty
  { language := a.language, script := a.script, region := a.region, variants := a.variants,
    attributes := a.attrs,
    keywordKeys := mapKeys a.keywords,
    keywordVals := (mapKeys a.keywords).map fun k => (k, (absStep L a (.keyword k)).2),
    tlang := a.tlang,
    tfieldKeys := mapKeys a.tfields,
    tfieldVals := (mapKeys a.tfields).map fun k => (k, (absStep L a (.tfield k)).2),
    tags := a.tags,
    unicodeEmpty := uE, transformEmpty := tE, privateEmpty := pE,
    extensionsEmpty := uE && tE && pE,
    text := canon (toLocV a) }

/-! ### pinned instances of the clauses of the property text -/

private def L0 : LikelyFns := ⟨fun _ _ _ => .ok none, fun _ _ _ => .ok none⟩

-- set_attribute is a set insert: twice is once; kept increasing ("foo", then "bar", then "foo")
example : ((absRun L0 {} [.setAttribute [70,79,79], .setAttribute [98,97,114], .setAttribute [102,111,111]]).map
    (·.1.attrs)) = [[[102,111,111]], [[98,97,114],[102,111,111]], [[98,97,114],[102,111,111]]] := by decide
-- private tags are a multiset: "a" twice is stored twice, remove deletes one
example : ((absRun L0 {} [.addTag [98], .addTag [97], .addTag [65], .removeTag [97], .removeTag [99]]).map
    (fun r => (r.1.tags, r.2))) =
    [([[98]], .unit), ([[97],[98]], .unit), ([[97],[97],[98]], .unit), ([[97],[98]], .bool true),
     ([[97],[98]], .bool false)] := by decide
-- a malformed key is an error and changes nothing; `true` is dropped from the values
example : (absStep L0 {} (.setKeyword [99] [[116,114,117,101]])) = ({}, .err) := by decide
example : (absStep L0 {} (.setKeyword [67,65] [[84,114,117,101],[66,117,100,100,104,105,115,116]])).1.keywords
    = [([99,97], [[98,117,100,100,104,105,115,116]])] := by decide
-- `get` of a missing key is the empty list
example : (absStep L0 {} (.keyword [99,97])).2 = .list [] := by decide
-- to_string: id, then -t-, -u-, -x-
example : (absObs L0 (absRunState L0 {} [.setLanguage [69,78], .addTag [122], .setAttribute [102,111,111],
      .setTField [104,48] [[104,121,98,114,105,100]]])).text
    = [101,110,45,116,45,104,48,45,104,121,98,114,105,100,45,117,45,102,111,111,45,120,45,122] := by decide

end UL.Spec
