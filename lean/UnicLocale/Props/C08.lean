/-
  Props/C08.lean — minimize preserves meaning, never lengthens, and is idempotent.

  All theorems are generic in the tables `T`, under `tablesWF T = true`.  `validTriple l s r` is
  assumed only for "never lengthens" (witness that it is needed: after `minimize_not_longer`) and for
  validity of the result.

  `maxOf T l s r` (Lemmas/MaxMin) is what the identifier maximizes to: itself when all three subtags
  are present, otherwise `Likely.maximize T l s r` (mod.rs:110-114).

  ONE CLAUSE OF THE PROPERTY IS FALSE for the model (and for the crate), for well-formed tables in
  general and for the shipped CLDR 44 tables in particular:
      "minimize(maximize(x)) equals minimize(x)".
  When no trial maximizes back, `minimize` returns `false` and leaves its receiver unchanged, so the
  left side stays at maximize(x) and the right side stays at x.  See `minimize_maximize_partial`
  (the strongest true version) and `minimize_maximize_literal_false` (the negation, on a hand-made
  well-formed table); the same witness `und-Hant-DE` on the shipped tables is kernel-checked in
  Lemmas/C08Witness.lean.
-/
import UnicLocale.Lemmas.MaxMin

namespace UL.Props.C08
open UL UL.Mm UL.Mm.MaxMin

/-! ### `likelysubtags::minimize` -/

/-- never a panic, never an error; no validity needed -/
theorem minimize_total (T : Tables) (hT : tablesWF T = true) (l : Language) (s r : Option Bytes) :
    ∃ o, Likely.minimize T l s r = .ok o :=
  minimize_ok hT l s r

example : tablesWF tiny = true := tiny_wf

/-- the result maximizes to the same (language, script, region) as the original -/
theorem minimize_same_max (T : Tables) (hT : tablesWF T = true) (l : Language) (s r : Option Bytes)
    (m : Triple) (h : Likely.minimize T l s r = .ok (some m)) :
    maxOf T m.1 m.2.1 m.2.2 = maxOf T l s r ∧ ∃ mx, maxOf T l s r = .ok (some mx) := by
  obtain ⟨mx, h1, h2⟩ := minimize_some_inv hT h
  rw [firstOf_maxOf h2, h1]
  exact ⟨rfl, mx, rfl⟩

/-- the result uses no subtag the maximized original lacks: same language; script and region are
    absent or those of the maximized original; and never both present -/
theorem minimize_subtags (T : Tables) (hT : tablesWF T = true) (l : Language) (s r : Option Bytes)
    (m mx : Triple) (h : Likely.minimize T l s r = .ok (some m)) (hmx : maxOf T l s r = .ok (some mx)) :
    m.1 = mx.1 ∧ (m.2.1 = none ∨ m.2.1 = mx.2.1) ∧ (m.2.2 = none ∨ m.2.2 = mx.2.2) ∧
      (m.2.1 = none ∨ m.2.2 = none) ∧ m.1.isSome = true := by
  obtain ⟨mx', h1, h2⟩ := minimize_some_inv hT h
  rw [hmx] at h1
  injection h1 with h1; injection h1 with h1; subst h1
  have hf := maxOf_full hT hmx
  simp only [isFull, Bool.and_eq_true] at hf
  obtain ⟨hm, _⟩ := firstOf_some h2
  rcases hm with rfl | rfl | rfl
  · exact ⟨rfl, Or.inl rfl, Or.inl rfl, Or.inl rfl, hf.1.1⟩
  · exact ⟨rfl, Or.inl rfl, Or.inr rfl, Or.inl rfl, hf.1.1⟩
  · exact ⟨rfl, Or.inr rfl, Or.inl rfl, Or.inr rfl, hf.1.1⟩

/-- `m` is the FIRST of [language], [language, region], [language, script] whose maximization gives
    back the maximized original `mx`; `None` if none of them does -/
theorem minimize_first (T : Tables) (hT : tablesWF T = true) (l : Language) (s r : Option Bytes)
    (mx : Triple) (hmx : maxOf T l s r = .ok (some mx)) :
    mx.2.1.isSome = true ∧ mx.2.2.isSome = true ∧
    Likely.minimize T l s r = .ok (
      if Likely.maximize T mx.1 none none = .ok (some mx) then some (mx.1, none, none)
      else if Likely.maximize T mx.1 none mx.2.2 = .ok (some mx) then some (mx.1, none, mx.2.2)
      else if Likely.maximize T mx.1 mx.2.1 none = .ok (some mx) then some (mx.1, mx.2.1, none)
      else none) := by
  have hf := maxOf_full hT hmx
  rw [minimize_of_maxOf_some hT hmx, firstOf_explicit_full T mx hf]
  simp only [isFull, Bool.and_eq_true] at hf
  exact ⟨hf.1.2, hf.2, rfl⟩

/-- nothing to maximize to (nothing matches): `None` -/
theorem minimize_none (T : Tables) (l : Language) (s r : Option Bytes)
    (hmx : maxOf T l s r = .ok none) : Likely.minimize T l s r = .ok none :=
  minimize_of_maxOf_none hmx

/-- `und` with nothing else: `None`, whatever the tables -/
theorem minimize_und (T : Tables) : Likely.minimize T none none none = .ok none := rfl

-- language form, region form, script form, no form, nothing matches:
example : maxOf tiny (some en) (some latn) (some us) = .ok (some (some en, some latn, some us)) ∧
    Likely.minimize tiny (some en) (some latn) (some us) = .ok (some (some en, none, none)) := ⟨by decide, by decide⟩
example : maxOf tiny none (some latn) (some gb) = .ok (some (some en, some latn, some gb)) ∧
    Likely.minimize tiny none (some latn) (some gb) = .ok (some (some en, none, some gb)) := ⟨by decide, by decide⟩
example : maxOf tiny none none (some tw) = .ok (some (some zh, some hant, some tw)) ∧
    Likely.minimize tiny none none (some tw) = .ok (some (some zh, some hant, none)) := ⟨by decide, by decide⟩
example : maxOf tiny none (some hant) (some de) = .ok (some (some zh, some hant, some de)) ∧
    Likely.minimize tiny none (some hant) (some de) = .ok none := ⟨by decide, by decide⟩
example : maxOf tiny (some xx) none none = .ok none ∧
    Likely.minimize tiny (some xx) none none = .ok none := ⟨by decide, by decide⟩

/-- a valid identifier with a language only is its own minimal form as soon as it maximizes at all
    (the first trial succeeds) -/
theorem minimize_lang_only (T : Tables) (hT : tablesWF T = true) (lb : Bytes)
    (hv : validTriple (some lb) none none = true) :
    (∀ mx, Likely.maximize T (some lb) none none = .ok (some mx) →
      Likely.minimize T (some lb) none none = .ok (some (some lb, none, none))) ∧
    (Likely.maximize T (some lb) none none = .ok none →
      Likely.minimize T (some lb) none none = .ok none) := by
  have hnf : isFull (some lb) none none = false := rfl
  refine ⟨fun mx h => ?_, fun h => ?_⟩
  · have hmx : maxOf T (some lb) none none = .ok (some mx) := by rw [maxOf_of_not_full hnf]; exact h
    have hl : mx.1 = some lb := (maximize_extends hT hv h).lang rfl
    rw [minimize_of_maxOf_some hT hmx, firstOf_explicit]
    rw [hl, if_pos h]
  · exact minimize_of_maxOf_none (by rw [maxOf_of_not_full hnf]; exact h)

/-- the result has no more of {script, region} than the (valid) input -/
theorem minimize_not_longer (T : Tables) (hT : tablesWF T = true) (l : Language) (s r : Option Bytes)
    (hv : validTriple l s r = true) (m : Triple) (h : Likely.minimize T l s r = .ok (some m)) :
    cntSR m.2.1 m.2.2 ≤ cntSR s r := by
  obtain ⟨mx, h1, h2⟩ := minimize_some_inv hT h
  have hle : cntSR m.2.1 m.2.2 ≤ 1 := by
    obtain ⟨hm, _⟩ := firstOf_some h2
    rcases hm with rfl | rfl | rfl
    · simp [cntSR]
    · simp only [cntSR, Option.isSome_none, Bool.toNat_false, Nat.zero_add]; exact Bool.toNat_le _
    · simp only [cntSR, Option.isSome_none, Bool.toNat_false, Nat.add_zero]; exact Bool.toNat_le _
  cases s with
  | some sb => simp only [cntSR, Option.isSome_some, Bool.toNat_true] at hle ⊢; omega
  | none =>
    cases r with
    | some rb => simp only [cntSR, Option.isSome_some, Bool.toNat_true] at hle ⊢; omega
    | none =>
      cases l with
      | none => rw [minimize_und] at h; cases h
      | some lb =>
        have hnf : isFull (some lb) none none = false := rfl
        rw [maxOf_of_not_full hnf] at h1
        rw [(minimize_lang_only T hT lb hv).1 mx h1] at h
        injection h with h; injection h with h; subst h
        simp [cntSR]

example : validTriple none none (some tw) = true ∧
    Likely.minimize tiny none none (some tw) = .ok (some (some zh, some hant, none)) := by decide

/-- `validTriple` is necessary for "never lengthens": with the un-stored language value `und` (not
    producible through the safe API) a well-formed table can answer `und` → `en-US`. -/
example : tablesWF tiny2 = true ∧ validTriple (some [117, 110, 100]) none none = false ∧
    Likely.minimize tiny2 (some [117, 110, 100]) none none = .ok (some (some en, none, some us)) := by decide

/-- the result of minimizing a valid triple is valid (for invariant preservation) -/
theorem minimize_valid (T : Tables) (hT : tablesWF T = true) (l : Language) (s r : Option Bytes)
    (hv : validTriple l s r = true) (m : Triple) (h : Likely.minimize T l s r = .ok (some m)) :
    validTriple m.1 m.2.1 m.2.2 = true := by
  obtain ⟨mx, h1, h2⟩ := minimize_some_inv hT h
  exact validTriple_of_firstOf h2 (maxOf_extends hT hv h1).valid

/-- minimizing the minimal form returns it again -/
theorem minimize_idem_triple (T : Tables) (hT : tablesWF T = true) (l : Language) (s r : Option Bytes)
    (m : Triple) (h : Likely.minimize T l s r = .ok (some m)) :
    Likely.minimize T m.1 m.2.1 m.2.2 = .ok (some m) := by
  obtain ⟨mx, _, h2⟩ := minimize_some_inv hT h
  exact minimize_firstOf hT h2

/-! ### `LanguageIdentifier::minimize` -/

theorem langid_minimize_total (T : Tables) (hT : tablesWF T = true) (x : LangId) :
    ∃ y b, LangId.minimize T x = .ok (y, b) := by
  obtain ⟨o, ho⟩ := minimize_ok hT x.language x.script x.region
  unfold LangId.minimize
  rw [ho]
  cases o with
  | none => exact ⟨_, _, applyTriple_none x⟩
  | some t => exact ⟨_, _, applyTriple_some x t⟩

/-- the boolean is `true` iff `likelysubtags::minimize` returned `Some`, and then exactly the three
    subtag fields are assigned from it (no hypothesis on the tables) -/
theorem langid_minimize_flag (T : Tables) (x y : LangId) (b : Bool) (h : LangId.minimize T x = .ok (y, b)) :
    (b = true ↔ ∃ m, Likely.minimize T x.language x.script x.region = .ok (some m)) ∧
    (b = true → ∃ m, Likely.minimize T x.language x.script x.region = .ok (some m) ∧
        y = { x with language := m.1, script := m.2.1, region := m.2.2 }) := by
  rcases applyTriple_ok_inv h with ⟨h1, _, h3⟩ | ⟨t, h1, h2, h3⟩
  · subst h3
    refine ⟨⟨(fun hb => nomatch hb), fun ⟨t, ht⟩ => ?_⟩, (fun hb => nomatch hb)⟩
    rw [h1] at ht; cases ht
  · subst h3
    exact ⟨⟨fun _ => ⟨t, h1⟩, fun _ => rfl⟩, fun _ => ⟨t, h1, h2⟩⟩

/-- a `false` result leaves the identifier unchanged (no hypothesis on the tables) -/
theorem langid_minimize_false (T : Tables) (x y : LangId) (h : LangId.minimize T x = .ok (y, false)) :
    y = x := by
  rcases applyTriple_ok_inv h with ⟨_, h2, _⟩ | ⟨_, _, _, h3⟩
  · exact h2
  · cases h3

/-- variants are never touched (no hypothesis on the tables) -/
theorem langid_minimize_variants (T : Tables) (x y : LangId) (b : Bool) (h : LangId.minimize T x = .ok (y, b)) :
    y.variants = x.variants := by
  rcases applyTriple_ok_inv h with ⟨_, h2, _⟩ | ⟨t, _, h2, _⟩
  · rw [h2]
  · rw [h2]; rfl

/-- a `true` result is never a full identifier: language present, at most one of script/region -/
theorem langid_minimize_true (T : Tables) (hT : tablesWF T = true) (x y : LangId)
    (h : LangId.minimize T x = .ok (y, true)) :
    y.language.isSome = true ∧ (y.script = none ∨ y.region = none) := by
  rcases applyTriple_ok_inv h with ⟨_, _, h3⟩ | ⟨m, h1, h2, _⟩
  · cases h3
  · obtain ⟨mx, hmx, _⟩ := minimize_some_inv hT h1
    obtain ⟨_, _, _, h4, h5⟩ := minimize_subtags T hT _ _ _ m mx h1 hmx
    subst h2
    exact ⟨h5, h4⟩

example : LangId.minimize tiny { language := some en, script := some latn, region := some gb, variants := some [[49, 57, 57, 54]] }
    = .ok ({ language := some en, region := some gb, variants := some [[49, 57, 57, 54]] }, true) := by decide
example : LangId.minimize tiny { script := some hant, region := some de, variants := some [[49, 57, 57, 54]] }
    = .ok ({ script := some hant, region := some de, variants := some [[49, 57, 57, 54]] }, false) := by decide

/-- minimizing twice = minimizing once: the second call returns the same identifier (and the same
    boolean: `true` again when the first call returned `true`, although nothing changes) -/
theorem minimize_idem (T : Tables) (hT : tablesWF T = true) (x y : LangId) (b : Bool)
    (h : LangId.minimize T x = .ok (y, b)) : LangId.minimize T y = .ok (y, b) := by
  rcases applyTriple_ok_inv h with ⟨_, h2, h3⟩ | ⟨m, h1, h2, h3⟩
  · subst h2 h3; exact h
  · subst h2 h3
    have := minimize_idem_triple T hT _ _ _ m h1
    unfold LangId.minimize
    show LangId.applyTriple _ (Likely.minimize T m.1 m.2.1 m.2.2) = _
    rw [this, applyTriple_some]
    rfl

/-
  Property clause (literal): "minimize(maximize(x)) equals minimize(x)", i.e.
      LangId.maximize T x = .ok (y, b) → LangId.minimize T y = .ok (z, c) →
      LangId.minimize T x = .ok (z', c') → z = z'
  FALSE — see `minimize_maximize_literal_false`.  What holds:
-/
/-- `likelysubtags::minimize` answers the same for x and for maximize(x); hence both calls report the
    same boolean, the identifiers are equal when it is `true` (a minimal form exists), and when it is
    `false` both receivers are left as they were: maximize(x), resp. x. -/
theorem minimize_maximize_partial (T : Tables) (hT : tablesWF T = true) (x y : LangId) (b : Bool)
    (h : LangId.maximize T x = .ok (y, b)) :
    Likely.minimize T y.language y.script y.region = Likely.minimize T x.language x.script x.region ∧
    ∃ z z' c, LangId.minimize T y = .ok (z, c) ∧ LangId.minimize T x = .ok (z', c) ∧
      (c = true → z = z') ∧ (c = false → z = y ∧ z' = x) ∧ (b = false → z = z') := by
  have hlik : Likely.minimize T y.language y.script y.region = Likely.minimize T x.language x.script x.region := by
    rcases applyTriple_ok_inv h with ⟨_, h2, _⟩ | ⟨t, h1, h2, _⟩
    · rw [h2]
    · have hfull := (maximize_some_full hT h1)
      have hmx : maxOf T x.language x.script x.region = .ok (some t) := by
        rw [maxOf_of_not_full hfull.1]; exact h1
      have hmy : maxOf T y.language y.script y.region = .ok (some t) := by
        subst h2
        exact maxOf_of_full hfull.2
      rw [minimize_of_maxOf_some hT hmx, minimize_of_maxOf_some hT hmy]
  refine ⟨hlik, ?_⟩
  obtain ⟨o, ho⟩ := minimize_ok hT x.language x.script x.region
  have hvar : y.variants = x.variants := by
    rcases applyTriple_ok_inv h with ⟨_, h2, _⟩ | ⟨t, _, h2, _⟩
    · rw [h2]
    · rw [h2]; rfl
  cases o with
  | none =>
    refine ⟨y, x, false, ?_, ?_, (fun hc => nomatch hc), fun _ => ⟨rfl, rfl⟩, fun hb => ?_⟩
    · unfold LangId.minimize; rw [hlik, ho]; rfl
    · unfold LangId.minimize; rw [ho]; rfl
    · subst hb
      rcases applyTriple_ok_inv h with ⟨_, h2, _⟩ | ⟨_, _, _, h3⟩
      · exact h2
      · cases h3
  | some m =>
    have hzz : y.withTriple m = x.withTriple m := by
      unfold LangId.withTriple; rw [hvar]
    refine ⟨y.withTriple m, x.withTriple m, true, ?_, ?_, fun _ => hzz, (fun hc => nomatch hc), fun _ => hzz⟩
    · unfold LangId.minimize; rw [hlik, ho]; rfl
    · unfold LangId.minimize; rw [ho]; rfl

/-- corollary: as whole results, whenever maximize returned `false` or a minimal form exists -/
theorem minimize_maximize_eq (T : Tables) (hT : tablesWF T = true) (x y : LangId) (b : Bool)
    (h : LangId.maximize T x = .ok (y, b))
    (hc : b = false ∨ ∃ m, Likely.minimize T x.language x.script x.region = .ok (some m)) :
    LangId.minimize T y = LangId.minimize T x := by
  obtain ⟨_, z, z', c, h1, h2, h3, _, h5⟩ := minimize_maximize_partial T hT x y b h
  rcases hc with hb | ⟨m, hm⟩
  · rw [h1, h2, h5 hb]
  · have : c = true := ((langid_minimize_flag T x z' c h2).1).2 ⟨m, hm⟩
    rw [h1, h2, h3 this]

example : LangId.maximize tiny { region := some tw } = .ok ({ language := some zh, script := some hant, region := some tw }, true) ∧
    LangId.minimize tiny { language := some zh, script := some hant, region := some tw } = .ok ({ language := some zh, script := some hant }, true) ∧
    LangId.minimize tiny { region := some tw } = .ok ({ language := some zh, script := some hant }, true) := by decide

/-- the literal clause fails on a well-formed table: x = und-Hant-DE maximizes to zh-Hant-DE; none of
    zh (→ zh-Hans-CN), zh-DE (→ zh-Hans-DE), zh-Hant (→ zh-Hant-TW) maximizes back, so both
    `minimize` calls return `false` and leave zh-Hant-DE, resp. und-Hant-DE, in place. -/
theorem minimize_maximize_witness :
    tablesWF tiny = true ∧ validTriple none (some hant) (some de) = true ∧
    LangId.maximize tiny { script := some hant, region := some de }
      = .ok ({ language := some zh, script := some hant, region := some de }, true) ∧
    LangId.minimize tiny { language := some zh, script := some hant, region := some de }
      = .ok ({ language := some zh, script := some hant, region := some de }, false) ∧
    LangId.minimize tiny { script := some hant, region := some de }
      = .ok ({ script := some hant, region := some de }, false) := by decide

theorem minimize_maximize_literal_false :
    ¬ (∀ (T : Tables), tablesWF T = true → ∀ (x y z z' : LangId) (b c c' : Bool),
        validTriple x.language x.script x.region = true →
        LangId.maximize T x = .ok (y, b) → LangId.minimize T y = .ok (z, c) →
        LangId.minimize T x = .ok (z', c') → z = z') := by
  intro hall
  obtain ⟨h0, hv, h1, h2, h3⟩ := minimize_maximize_witness
  have := hall tiny h0 _ _ _ _ _ _ _ hv h1 h2 h3
  revert this
  decide

/-! ### lifted to `Locale` -/

/-- `Locale::minimize` = `self.id.minimize()`: the id is replaced, everything else is as before,
    and the call reports the boolean -/
theorem locale_minimize (T : Tables) (hT : tablesWF T = true) (x : Locale) :
    ∃ y b, LangId.minimize T x.id = .ok (y, b) ∧
      step T x .minimize = ({ x with id := y }, .bool b) := by
  obtain ⟨y, b, h⟩ := langid_minimize_total T hT x.id
  refine ⟨y, b, h, ?_⟩
  rw [step_minimize, h]
  rfl

/-- extensions are never touched (whatever the tables) -/
theorem locale_minimize_ext (T : Tables) (x : Locale) : (step T x .minimize).1.ext = x.ext := by
  rw [step_minimize]
  cases h : LangId.minimize T x.id with
  | ok p => rfl
  | err e => rfl
  | panic => rfl

/-- variants are never touched (whatever the tables) -/
theorem locale_minimize_variants (T : Tables) (x : Locale) :
    (step T x .minimize).1.id.variants = x.id.variants := by
  rw [step_minimize]
  cases h : LangId.minimize T x.id with
  | ok p =>
    obtain ⟨y, b⟩ := p
    exact langid_minimize_variants T x.id y b h
  | err e => rfl
  | panic => rfl

/-- a `false` report leaves the whole locale unchanged -/
theorem locale_minimize_false (T : Tables) (x : Locale) (h : (step T x .minimize).2 = .bool false) :
    (step T x .minimize).1 = x := by
  rw [step_minimize] at h ⊢
  cases hm : LangId.minimize T x.id with
  | ok p =>
    obtain ⟨y, b⟩ := p
    rw [hm] at h
    have hb : b = false := by
      simp only [outOfBool] at h
      injection h
    subst hb
    have := langid_minimize_false T x.id y hm
    subst this
    rfl
  | err e => rfl
  | panic => rfl

/-- minimizing twice = minimizing once (same value, same report) -/
theorem locale_minimize_idem (T : Tables) (hT : tablesWF T = true) (x : Locale) :
    step T (step T x .minimize).1 .minimize = step T x .minimize := by
  obtain ⟨y, b, h, hs⟩ := locale_minimize T hT x
  rw [hs]
  have h2 := minimize_idem T hT x.id y b h
  rw [step_minimize]
  simp only [h2]
  rfl

example : step tiny { id := { language := some en, script := some latn, region := some us },
                      ext := { priv := [[97, 98]] } } .minimize
    = ({ id := { language := some en }, ext := { priv := [[97, 98]] } }, .bool true) := by decide

end UL.Props.C08
