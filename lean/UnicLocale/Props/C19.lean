/-
  Props/C19.lean — serde form is the canonical string and round-trips.

  Model: `Model/Serde.lean` (`Serialize` = `serialize_str(&self.to_string())`; `Deserialize` = a visitor
  with only `visit_str`, which calls `FromStr`).  serde / serde_json themselves are modelled by
  contract (`Wire`): a JSON string reaches `visit_str` decoded, any other JSON value reaches a
  defaulted `visit_*` (an error), ill-formed text is an error before any visitor runs.  That contract
  is exercised, not proved, by the correspondence stream `serde` (JSON texts with random `\uXXXX`
  escapes, non-string JSON values, ill-formed texts) through `serde_json::from_str` and `from_value`.
-/
import UnicLocale.Model.Serde
import UnicLocale.Props.C02
import UnicLocale.Props.C04
import UnicLocale.Props.C05

namespace UL.Props.C19
open UL

/-- a `LanguageIdentifier` serialises to exactly its canonical string -/
theorem serialize_is_display (x : LangId) : Serde.serialize x = .str (LangId.display x) := rfl

/-- … which is in canonical form and consists of ASCII letters, digits and `-` only, so its JSON form
    is the same text between quotes: no character needs an escape -/
theorem serialized_is_canonical (x : LangId) (h : x.inv = true) :
    ∃ s, Serde.serialize x = .str s ∧ Spec.isCanonicalLangId s = true ∧
      ∀ b ∈ s, isAlnum b = true ∨ b = 45 := by
  refine ⟨LangId.display x, rfl, (UL.Props.C04.langid_canonical x h).1, ?_⟩
  have hc := (UL.Props.C04.langid_canonical x h).2
  unfold Spec.isCanonical at hc
  simp only [Bool.and_eq_true, List.all_eq_true, Bool.or_eq_true, beq_iff_eq] at hc
  exact hc.1

/-- deserialising a string succeeds iff parsing it succeeds, with an equal result (and the same error
    otherwise) -/
theorem deserialize_str (s : Bytes) : Serde.deserialize (.str s) = LangId.fromBytes s := rfl

/-- deserialising the serialised output yields an equal value, for every obtainable value -/
theorem roundtrip (x : LangId) (h : x.inv = true) : Serde.deserialize (Serde.serialize x) = .ok x :=
  UL.Props.C05.langid_roundtrip x h

theorem roundtrip_parsed (bs : Bytes) (x : LangId) (h : LangId.fromBytes bs = .ok x) :
    Serde.deserialize (Serde.serialize x) = .ok x :=
  roundtrip x (UL.Props.C05.parsed_langid_inv bs x h)

/-- non-string inputs (and ill-formed input text) are rejected with an error -/
theorem non_string_rejected :
    (∃ e, Serde.deserialize .other = .err e) ∧ (∃ e, Serde.deserialize .invalid = .err e) :=
  ⟨⟨_, rfl⟩, ⟨_, rfl⟩⟩

/-- never a panic, whatever arrives -/
theorem never_panics (w : Wire) : (Serde.deserialize w).isPanic = false := by
  cases w with
  | str s =>
    show (LangId.fromBytes s).isPanic = false
    rw [UL.Props.C02.fromBytes_exact]
    cases Spec.langIdResult s <;> rfl
  | other => rfl
  | invalid => rfl

-- non-vacuity: "EN_latn-us" serialises as "en-Latn-US" and comes back
example :
    (match LangId.fromBytes [69,78,95,108,97,116,110,45,117,115] with
     | .ok x => x.inv && Serde.serialize x == .str [101,110,45,76,97,116,110,45,85,83] &&
                Serde.deserialize (Serde.serialize x) == .ok x
     | _ => false) = true := by decide
example : Serde.deserialize (.str [101,110,45]) = .err .invalidSubtag := by decide   -- "en-"

end UL.Props.C19
