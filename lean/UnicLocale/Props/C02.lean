/-
  Props/C02.lean — `LanguageIdentifier` parsing accepts exactly the well-formed language identifiers.
-/
import UnicLocale.Lemmas.LiLoop

namespace UL.Props.C02
open UL

/-- For every byte string: success iff the subtags are `language script? region? variant*`
    (spec reader written from the UTS #35 EBNF), the value holds exactly those subtags in normalised
    form (language lower / `und` empty, script title, region upper, variants lower, sorted, unique),
    and the error is `InvalidLanguage` exactly when the first subtag is not a language subtag,
    `InvalidSubtag` otherwise. -/
theorem fromBytes_exact (bs : Bytes) :
    LangId.fromBytes bs =
      match Spec.langIdResult bs with
      | .ok v => .ok (concreteLi v)
      | .invalidLanguage => .err .invalidLanguage
      | .invalidSubtag => .err .invalidSubtag := by
  unfold LangId.fromBytes Spec.langIdResult
  cases hsp : splitSep bs with
  | nil => exact absurd hsp (splitSep_ne_nil bs)
  | cons t ts =>
    rw [LangId.parseIter_char]
    cases hread : Spec.readLangIdPrefix (t :: ts) with
    | none => rfl
    | some p =>
      obtain ⟨v, rest⟩ := p
      cases rest with
      | nil => rfl
      | cons r rs => rfl

/-- `canonicalize` is the same decision followed by `Display` -/
theorem canonicalize_exact (bs : Bytes) :
    LangId.canonicalize bs =
      match Spec.langIdResult bs with
      | .ok v => .ok (LangId.display (concreteLi v))
      | .invalidLanguage => .err .invalidLanguage
      | .invalidSubtag => .err .invalidSubtag := by
  unfold LangId.canonicalize
  rw [fromBytes_exact]
  cases Spec.langIdResult bs <;> rfl

/-- the printed form of the concrete value is the spec's canonical text -/
theorem display_concrete (v : Spec.LangIdV) : LangId.display (concreteLi v) = Spec.canonLangId v := by
  obtain ⟨l, s, r, vs⟩ := v
  cases vs with
  | nil => rfl
  | cons a as => rfl

/-- the error classification, stated outright -/
theorem invalidLanguage_iff (bs : Bytes) :
    LangId.fromBytes bs = .err .invalidLanguage ↔
      ¬ (Spec.isLanguage ((splitSep bs).headD []) = true) := by
  rw [fromBytes_exact]
  unfold Spec.langIdResult
  cases hsp : splitSep bs with
  | nil => exact absurd hsp (splitSep_ne_nil bs)
  | cons t ts =>
    simp only [List.headD_cons]
    cases hread : Spec.readLangIdPrefix (t :: ts) with
    | none =>
      have hl : ¬ (Spec.isLanguage t = true) := by
        intro hl
        simp [Spec.readLangIdPrefix, Spec.readLangIdPrefixD, hl] at hread
      simp [hl]
    | some p =>
      obtain ⟨v, rest⟩ := p
      have hl : Spec.isLanguage t = true := by
        cases hl : Spec.isLanguage t with
        | true => rfl
        | false => simp [Spec.readLangIdPrefix, Spec.readLangIdPrefixD, hl] at hread
      cases rest with
      | nil => simp [hl]
      | cons r rs => simp [hl]

theorem never_panics (bs : Bytes) : (LangId.fromBytes bs).isPanic = false := by
  rw [fromBytes_exact]
  cases Spec.langIdResult bs <;> rfl

-- non-vacuity: "EN_latn-us-Valencia-1996-valencia" parses to en-Latn-US-1996-valencia
example : LangId.fromBytes [69,78,95,108,97,116,110,45,117,115,45,86,97,108,101,110,99,105,97,45,49,57,57,54,45,118,97,108,101,110,99,105,97]
    = .ok { language := some [101,110], script := some [76,97,116,110], region := some [85,83],
            variants := some [[49,57,57,54],[118,97,108,101,110,99,105,97]] } := by decide
example : LangId.fromBytes [101,110,45,49,46,99,100] = .err .invalidSubtag := by decide   -- "en-1.cd"
example : LangId.fromBytes [52,50] = .err .invalidLanguage := by decide                  -- "42"

end UL.Props.C02
