/-
  Props/C12.lean — equality, ordering and hashing agree with the canonical string.

  * the derived `Ord` (`cmpB` on subtags, `cmpLi` on `LanguageIdentifier`, `cmpLoc` on `Locale`) is a
    strict total order compatible with `=`, comparing field by field with an absent subtag first;
  * the derived `Hash` feeds equal streams for equal values, and the stream determines the value;
  * on values satisfying the representation invariant (every value the safe API can produce),
    `x = y ↔ x.to_string() = y.to_string()` — proved outright for `LanguageIdentifier`, for
    `Locale` from the parse/print round trip (C05) taken as an explicit hypothesis;
  * `== &str` is comparison with the canonical text.
-/
import UnicLocale.Lemmas.CmpOrder
import UnicLocale.Lemmas.Parts
import UnicLocale.Props.C05
import UnicLocale.Props.C10
import UnicLocale.Lemmas.Total
import UnicLocale.Model.Routes
import UnicLocale.Props.C17

namespace UL.Props.C12
open UL

/-! ### the ordering is a strict total order compatible with equality

`IsStrictTotal c` (Lemmas/CmpOrder) bundles `c a b = .eq ↔ a = b`, `c b a = (c a b).swap` and
transitivity of `.lt`.  The liftings are proved once: `IsStrictTotal.opt` (`Option`, `None` first),
`IsStrictTotal.list` (lexicographic), `IsStrictTotal.prod` (`Ordering.then` of two fields),
`IsStrictTotal.comap` (a struct through the tuple of its fields). -/

theorem subtag_order : IsStrictTotal cmpB := cmpB_strictTotal
theorem langid_order : IsStrictTotal cmpLi := cmpLi_strictTotal
theorem locale_order : IsStrictTotal cmpLoc := cmpLoc_strictTotal

/-- the generic liftings, re-exported -/
theorem option_lifting {α} {c : α → α → Ordering} (h : IsStrictTotal c) : IsStrictTotal (cmpOpt c) := h.opt
theorem list_lifting {α} {c : α → α → Ordering} (h : IsStrictTotal c) : IsStrictTotal (cmpList c) := h.list
theorem then_lifting {α β} {c1 : α → α → Ordering} {c2 : β → β → Ordering}
    (h1 : IsStrictTotal c1) (h2 : IsStrictTotal c2) : IsStrictTotal (cmpProd c1 c2) := h1.prod h2

/-- `cmp == Equal` exactly on equal values (so equal values compare `Equal`) -/
theorem cmpB_eq_iff (a b : Bytes) : cmpB a b = .eq ↔ a = b := subtag_order.eq_iff a b
theorem cmpLi_eq_iff (a b : LangId) : cmpLi a b = .eq ↔ a = b := langid_order.eq_iff a b
theorem cmpLoc_eq_iff (a b : Locale) : cmpLoc a b = .eq ↔ a = b := locale_order.eq_iff a b

/-- antisymmetry: `a < b` iff `b > a` -/
theorem cmpB_lt_iff_gt (a b : Bytes) : cmpB a b = .lt ↔ cmpB b a = .gt := subtag_order.lt_iff_gt a b
theorem cmpLi_lt_iff_gt (a b : LangId) : cmpLi a b = .lt ↔ cmpLi b a = .gt := langid_order.lt_iff_gt a b
theorem cmpLoc_lt_iff_gt (a b : Locale) : cmpLoc a b = .lt ↔ cmpLoc b a = .gt := locale_order.lt_iff_gt a b

/-- transitivity -/
theorem cmpB_lt_trans (a b d : Bytes) (h1 : cmpB a b = .lt) (h2 : cmpB b d = .lt) : cmpB a d = .lt :=
  subtag_order.lt_trans a b d h1 h2
theorem cmpLi_lt_trans (a b d : LangId) (h1 : cmpLi a b = .lt) (h2 : cmpLi b d = .lt) : cmpLi a d = .lt :=
  langid_order.lt_trans a b d h1 h2
theorem cmpLoc_lt_trans (a b d : Locale) (h1 : cmpLoc a b = .lt) (h2 : cmpLoc b d = .lt) : cmpLoc a d = .lt :=
  locale_order.lt_trans a b d h1 h2

/-- totality: any two values are comparable, and incomparable-by-`<` means equal -/
theorem cmpB_total (a b : Bytes) : cmpB a b = .lt ∨ a = b ∨ cmpB b a = .lt := subtag_order.trichotomy a b
theorem cmpLi_total (a b : LangId) : cmpLi a b = .lt ∨ a = b ∨ cmpLi b a = .lt := langid_order.trichotomy a b
theorem cmpLoc_total (a b : Locale) : cmpLoc a b = .lt ∨ a = b ∨ cmpLoc b a = .lt := locale_order.trichotomy a b

/-- irreflexive and asymmetric -/
theorem cmpLi_irrefl (a : LangId) : cmpLi a a ≠ .lt := langid_order.not_lt_self a
theorem cmpLoc_irrefl (a : Locale) : cmpLoc a a ≠ .lt := locale_order.not_lt_self a
theorem cmpLi_asymm (a b : LangId) (h : cmpLi a b = .lt) : cmpLi b a ≠ .lt := langid_order.lt_asymm a b h
theorem cmpLoc_asymm (a b : Locale) (h : cmpLoc a b = .lt) : cmpLoc b a ≠ .lt := locale_order.lt_asymm a b h

/-- subtags are ordered as their text, byte by byte -/
theorem cmpB_lt_iff_bLt (a b : Bytes) : cmpB a b = .lt ↔ bLt a b = true := UL.cmpB_lt_iff a b

/-! ### field by field, an absent subtag first -/

/-- an absent subtag sorts before every present one -/
theorem absent_first {α} (c : α → α → Ordering) (x : α) :
    cmpOpt c none (some x) = .lt ∧ cmpOpt c (some x) none = .gt ∧ cmpOpt c (none : Option α) none = .eq :=
  ⟨rfl, rfl, rfl⟩

theorem present_by_value {α} (c : α → α → Ordering) (x y : α) : cmpOpt c (some x) (some y) = c x y := rfl

/-- the language decides when it differs … -/
theorem cmpLi_language (a b : LangId) (h : a.language ≠ b.language) :
    cmpLi a b = cmpOpt cmpB a.language b.language := by
  have hne : cmpOpt cmpB a.language b.language ≠ .eq := fun he => h ((subtag_order.opt.eq_iff _ _).1 he)
  unfold cmpLi
  cases hc : cmpOpt cmpB a.language b.language with
  | eq => exact absurd hc hne
  | lt => rfl
  | gt => rfl

/-- … then the script … -/
theorem cmpLi_script (a b : LangId) (hl : a.language = b.language) (h : a.script ≠ b.script) :
    cmpLi a b = cmpOpt cmpB a.script b.script := by
  have hne : cmpOpt cmpB a.script b.script ≠ .eq := fun he => h ((subtag_order.opt.eq_iff _ _).1 he)
  unfold cmpLi
  rw [(subtag_order.opt.eq_iff _ _).2 hl]
  cases hc : cmpOpt cmpB a.script b.script with
  | eq => exact absurd hc hne
  | lt => rfl
  | gt => rfl

/-- … then the region … -/
theorem cmpLi_region (a b : LangId) (hl : a.language = b.language) (hs : a.script = b.script)
    (h : a.region ≠ b.region) : cmpLi a b = cmpOpt cmpB a.region b.region := by
  have hne : cmpOpt cmpB a.region b.region ≠ .eq := fun he => h ((subtag_order.opt.eq_iff _ _).1 he)
  unfold cmpLi
  rw [(subtag_order.opt.eq_iff _ _).2 hl, (subtag_order.opt.eq_iff _ _).2 hs]
  cases hc : cmpOpt cmpB a.region b.region with
  | eq => exact absurd hc hne
  | lt => rfl
  | gt => rfl

/-- … then the variant lists (absent first, then lexicographically) -/
theorem cmpLi_variants (a b : LangId) (hl : a.language = b.language) (hs : a.script = b.script)
    (hr : a.region = b.region) : cmpLi a b = cmpOpt (cmpList cmpB) a.variants b.variants := by
  unfold cmpLi
  rw [(subtag_order.opt.eq_iff _ _).2 hl, (subtag_order.opt.eq_iff _ _).2 hs, (subtag_order.opt.eq_iff _ _).2 hr]
  rfl

/-- a `Locale` is ordered by its id first; the extensions only break ties -/
theorem cmpLoc_id (a b : Locale) (h : a.id ≠ b.id) : cmpLoc a b = cmpLi a.id b.id := by
  have hne : cmpLi a.id b.id ≠ .eq := fun he => h ((langid_order.eq_iff _ _).1 he)
  unfold cmpLoc
  cases hc : cmpLi a.id b.id with
  | eq => exact absurd hc hne
  | lt => rfl
  | gt => rfl

/-! ### hashing -/

/-- equal values feed equal streams to the hasher, hence hash equally with any hasher -/
theorem hash_eq_of_eq_langid (x y : LangId) (h : x = y) : hashLi x = hashLi y := congrArg hashLi h
theorem hash_eq_of_eq_locale (x y : Locale) (h : x = y) : hashLoc x = hashLoc y := congrArg hashLoc h

/-- stronger: the stream determines the value (lengths and discriminants are prefixed), so the
    derived `Hash` distinguishes exactly what `==` distinguishes -/
theorem hashLi_eq_iff (x y : LangId) : hashLi x = hashLi y ↔ x = y :=
  ⟨decodable_hashLi.injective x y, congrArg hashLi⟩
theorem hashLoc_eq_iff (x y : Locale) : hashLoc x = hashLoc y ↔ x = y :=
  ⟨decodable_hashLoc.injective x y, congrArg hashLoc⟩

/-- `==`, `cmp == Equal` and "same hash stream" coincide -/
theorem eq_cmp_hash_agree (x y : Locale) : (x = y ↔ cmpLoc x y = .eq) ∧ (x = y ↔ hashLoc x = hashLoc y) :=
  ⟨(cmpLoc_eq_iff x y).symm, (hashLoc_eq_iff x y).symm⟩

/-! ### equality versus the canonical string -/

/-- generic: if parsing is a left inverse of printing on the valid values, then on valid values
    equality is equality of the printed text.  (Glue: instantiate `hrt` with the C05 round trip.) -/
theorem eq_iff_display_eq_of_roundtrip {α β : Type} (inv : α → Prop) (display : α → β) (parse : β → Res α)
    (hrt : ∀ x, inv x → parse (display x) = .ok x) (x y : α) (hx : inv x) (hy : inv y) :
    x = y ↔ display x = display y :=
  Parts.eq_iff_display_eq_of_roundtrip inv display parse hrt x y hx hy

/-- `LanguageIdentifier`, from a round-trip hypothesis … -/
theorem langid_eq_iff_display_eq_of_roundtrip
    (hrt : ∀ x : LangId, x.inv = true → LangId.fromBytes (LangId.display x) = .ok x)
    (x y : LangId) (hx : x.inv = true) (hy : y.inv = true) : x = y ↔ LangId.display x = LangId.display y :=
  eq_iff_display_eq_of_roundtrip (fun x => LangId.inv x = true) LangId.display LangId.fromBytes hrt x y hx hy

/-- … and outright: the round trip for `LanguageIdentifier` is `Parts.langid_roundtrip` -/
theorem langid_eq_iff_display_eq (x y : LangId) (hx : x.inv = true) (hy : y.inv = true) :
    x = y ↔ LangId.display x = LangId.display y :=
  langid_eq_iff_display_eq_of_roundtrip (fun _ => Parts.langid_roundtrip) x y hx hy

/-- `Locale`, from the round trip of C05 as an explicit hypothesis -/
theorem locale_eq_iff_display_eq_of_roundtrip
    (hrt : ∀ x : Locale, x.inv = true → Locale.fromBytes (Locale.display x) = .ok x)
    (x y : Locale) (hx : x.inv = true) (hy : y.inv = true) : x = y ↔ Locale.display x = Locale.display y :=
  eq_iff_display_eq_of_roundtrip (fun x => Locale.inv x = true) Locale.display Locale.fromBytes hrt x y hx hy

/-- the `Locale` case with the round trip of C05 plugged in: on values obtainable through the safe
    API equality is equality of the canonical strings -/
theorem locale_eq_iff_display_eq (x y : Locale) (hx : x.inv = true) (hy : y.inv = true) :
    x = y ↔ Locale.display x = Locale.display y :=
  locale_eq_iff_display_eq_of_roundtrip UL.Props.C05.locale_roundtrip x y hx hy

/-- the invariant is needed: `None` and `Some([])` print the same text but are different values
    (no safe constructor produces the second) -/
example : LangId.display { language := some [101, 110], variants := some [] } =
            LangId.display { language := some [101, 110], variants := none } ∧
          ({ language := some [101, 110], variants := some [] } : LangId) ≠
            { language := some [101, 110], variants := none } := by decide

/-- two routes to "no variants" give the same (only) representation -/
theorem setVariants_nil_eq_clear (x : LangId) : LangId.setVariants x [] = LangId.clearVariants x := rfl
theorem fromParts_nil (l : Language) (s r : Option Bytes) :
    LangId.fromParts l s r [] = { language := l, script := s, region := r, variants := none } := rfl
/-- no constructor or setter ever stores `Some([])` -/
theorem finishVariants_ne_some_nil (vs : List Bytes) : LangId.finishVariants vs ≠ some [] := by
  intro h
  exact (Parts.finishVariants_canonical vs [] h).1 rfl

/-! ### comparison with `&str` -/

/-- `li == s` is true iff `s` is the canonical text -/
theorem langid_eqStr_iff (x : LangId) (s : Bytes) : LangId.eqStr x s = true ↔ LangId.display x = s := by
  unfold LangId.eqStr
  exact beq_iff_eq

theorem language_eqStr_iff (l : Language) (s : Bytes) : Language.eqStr l s = true ↔ Language.asStr l = s := by
  unfold Language.eqStr
  exact beq_iff_eq

/-- hence two valid identifiers equal to the same string are equal -/
theorem eq_of_eqStr (x y : LangId) (s : Bytes) (hx : x.inv = true) (hy : y.inv = true)
    (h1 : LangId.eqStr x s = true) (h2 : LangId.eqStr y s = true) : x = y := by
  rw [langid_eqStr_iff] at h1 h2
  exact (langid_eq_iff_display_eq x y hx hy).2 (h1.trans h2.symm)

/-! ### non-vacuity -/

-- "en-US" < "en-Latn" (script absent sorts first) < "fr"; und (absent language) before everything
example : cmpLi { language := some [101, 110], region := some [85, 83] }
                { language := some [101, 110], script := some [76, 97, 116, 110] } = .lt := by decide
example : cmpLi { language := some [101, 110], script := some [76, 97, 116, 110] }
                { language := some [102, 114] } = .lt := by decide
example : cmpLi {} { language := some [97, 97] } = .lt := by decide
example : cmpLi { language := some [102, 114] } { language := some [101, 110] } = .gt := by decide
example : cmpB [101, 110] [102, 114] = .lt ∧ cmpB [102, 114] [122, 104] = .lt := by decide
-- locales differing only in their extensions
example : cmpLoc { id := { language := some [101, 110] } }
    { id := { language := some [101, 110] }, ext := { priv := [[97]] } } = .lt := by decide
example : cmpLoc { id := { language := some [101, 110] }, ext := { priv := [[97]] } }
    { id := { language := some [101, 110] }, ext := { priv := [[98]] } } = .lt := by decide
-- hypotheses of the `cmpLi_*` refinements
example : ({ language := some [101, 110], region := some [85, 83] } : LangId).language =
            ({ language := some [101, 110], script := some [76, 97, 116, 110] } : LangId).language ∧
          ({ language := some [101, 110], region := some [85, 83] } : LangId).script ≠
            ({ language := some [101, 110], script := some [76, 97, 116, 110] } : LangId).script := by decide
-- invariant-satisfying values with different texts / the same text
example : LangId.inv { language := some [101, 110], script := some [76, 97, 116, 110], region := some [85, 83],
                       variants := some [[49, 57, 57, 54], [118, 97, 108, 101, 110, 99, 105, 97]] } = true := by decide
example : LangId.inv { language := none, region := some [52, 49, 57] } = true := by decide
example : LangId.eqStr { language := some [101, 110], region := some [85, 83] } [101, 110, 45, 85, 83] = true := by decide
example : LangId.eqStr { language := some [101, 110], region := some [85, 83] } [101, 110, 95, 85, 83] = false := by decide
example : Language.eqStr none [117, 110, 100] = true := by decide
example : Locale.inv { id := { language := some [101, 110] },
                       ext := { unicode := { keywords := [([99, 97], [[98, 117, 100, 100, 104, 105, 115, 116]])] },
                                priv := [[112, 114, 105, 118]] } } = true := by decide

/-! ### two routes to one value

The reference model of C10 forgets how a value was built: it is a record of sets and maps.  On the
representation invariant the abstraction is injective, so whichever route through the safe API
leads to the same abstract value leads to the same concrete value — equal under `==`, `Equal` under
`cmp`, with the same hash stream and the same text. -/

/-- the abstraction is injective on the representation invariant -/
theorem abs_injective (x y : Locale) (hx : x.inv = true) (hy : y.inv = true) (h : UL.Rf.abs x = UL.Rf.abs y) : x = y := by
  rw [locale_eq_iff_display_eq x y hx hy, UL.Props.C10.display_refines, UL.Props.C10.display_refines, h]

/-- two histories (any operations, any argument byte strings, from any two obtainable values) that the
    set/map reference model takes to the same abstract value end in the same concrete value -/
theorem routes_agree (T : Tables) (hT : tablesWF T = true) (x y : Locale) (hx : x.inv = true) (hy : y.inv = true)
    (os os' : List Op)
    (h : Spec.absRunState (UL.Rf.modelLikely T) (UL.Rf.abs x) os = Spec.absRunState (UL.Rf.modelLikely T) (UL.Rf.abs y) os') :
    runState T x os = runState T y os' := by
  have hpres : ∀ x o, x.inv = true → (step T x o).1.inv = true := fun x o hx => UL.Reach.step_inv T x o hT hx
  have h1 := UL.Props.C10.runState_of_pres T (UL.Rf.modelLikely T) (UL.Rf.modelLikely_agrees T) hpres x hx os
  have h2 := UL.Props.C10.runState_of_pres T (UL.Rf.modelLikely T) (UL.Rf.modelLikely_agrees T) hpres y hy os'
  exact abs_injective _ _ h1.2 h2.2 (by rw [h1.1, h2.1, h])

/-- … hence they compare `Equal`, hash equally and print the same text -/
theorem routes_agree_observably (T : Tables) (hT : tablesWF T = true) (x y : Locale) (hx : x.inv = true) (hy : y.inv = true)
    (os os' : List Op)
    (h : Spec.absRunState (UL.Rf.modelLikely T) (UL.Rf.abs x) os = Spec.absRunState (UL.Rf.modelLikely T) (UL.Rf.abs y) os') :
    cmpLoc (runState T x os) (runState T y os') = .eq ∧ hashLoc (runState T x os) = hashLoc (runState T y os') ∧
    Locale.display (runState T x os) = Locale.display (runState T y os') := by
  have e := routes_agree T hT x y hx hy os os' h
  rw [e]
  exact ⟨(cmpLoc_eq_iff _ _).2 rfl, rfl, rfl⟩

-- non-vacuity: `set_attribute foo; set_attribute bar` and `set_attribute bar; set_attribute foo` from the
-- default value reach the same abstract value (checked by evaluation on a tiny table set)
example : Spec.absRunState (UL.Rf.modelLikely UL.Tot.tinyTables) (UL.Rf.abs {})
      [.setAttribute [102, 111, 111], .setAttribute [98, 97, 114]] =
    Spec.absRunState (UL.Rf.modelLikely UL.Tot.tinyTables) (UL.Rf.abs {})
      [.setAttribute [98, 97, 114], .setAttribute [102, 111, 111]] := by decide

/-! ### the routes of the `route` request are the identity on obtainable values

`routeValue T x k` (Model/Routes.lean) rebuilds `x` along route `k` through the safe API; the check asks the real
crates for `==`, `cmp`, hash and text of the two.  For every value with the representation invariant the rebuilt
value IS the value (routes 0–4, 6, 7+ here; route 5, the remove-and-set-again history, in `C12Route5.lean`). -/

theorem setVariants_own (i : LangId) (h : i.inv = true) : i.setVariants i.variantList = i := by
  have e := UL.Parts.fromParts_intoParts h
  obtain ⟨l, s, r, v⟩ := i
  simpa [LangId.setVariants, LangId.variantList, LangId.fromParts, LangId.intoParts] using e

theorem route0 (T : Tables) (x : Locale) (h : x.inv = true) : routeValue T x 0 = some x := by
  simp only [Locale.inv, Bool.and_eq_true] at h
  simp only [routeValue, setVariants_own x.id h.1]

theorem route1 (T : Tables) (x : Locale) (h : x.inv = true) : routeValue T x 1 = some x := by
  simp only [Locale.inv, Bool.and_eq_true] at h
  have e := setVariants_own x.id h.1
  have e' : (x.id.clearVariants).setVariants x.id.variantList = x.id.setVariants x.id.variantList := rfl
  simp only [routeValue, e', e]

theorem route2 (T : Tables) (x : Locale) (h : x.inv = true) : routeValue T x 2 = some x := by
  have e := UL.Props.C17.locale_parts_roundtrip x h
  simp only [routeValue]
  simp only at e
  cases hm : ExtMap.fromBytes (Locale.intoParts x).2.2.2.2 with
  | ok m => rw [hm] at e; simp only [Res.map, Res.ok.injEq] at e; simp [Res.toOption, e]
  | err er => rw [hm] at e; simp [Res.map] at e
  | panic => rw [hm] at e; simp [Res.map] at e

theorem route3 (T : Tables) (x : Locale) (h : x.inv = true) : routeValue T x 3 = some x := by
  simp only [routeValue, UL.Props.C05.locale_roundtrip x h, Res.toOption]

theorem route4 (T : Tables) (x : Locale) : routeValue T x 4 = some x := rfl

theorem route6 (T : Tables) (x : Locale) (h : x.inv = true) : routeValue T x 6 = some x := by
  simp only [Locale.inv, LangId.inv, Bool.and_eq_true] at h
  obtain ⟨⟨⟨⟨hl, hs⟩, hr⟩, _⟩, _⟩ := h
  have e1 := UL.Parts.fromBytes_of_okLanguage hl
  have e2 : (x.id.script.bind fun s => (Script.fromBytes s).toOption) = x.id.script := by
    cases hsc : x.id.script with
    | none => rfl
    | some b => rw [hsc] at hs; simp [Option.bind, UL.Parts.fromBytes_of_okScript hs, Res.toOption]
  have e3 : (x.id.region.bind fun s => (Region.fromBytes s).toOption) = x.id.region := by
    cases hrg : x.id.region with
    | none => rfl
    | some b => rw [hrg] at hr; simp [Option.bind, UL.Parts.fromBytes_of_okRegion hr, Res.toOption]
  simp only [routeValue, e1, e2, e3]

theorem route7 (T : Tables) (x : Locale) (h : x.inv = true) (k : Nat) (hk : 7 ≤ k) : routeValue T x k = some x := by
  simp only [Locale.inv, Bool.and_eq_true] at h
  have hm : ∀ t, t ∈ x.id.variantList.reverse ++ x.id.variantList ↔ t ∈ x.id.variantList := by
    intro t; simp
  have e := UL.Props.C17.from_parts_order_irrelevant x.id.language x.id.script x.id.region _ _ hm
  have e0 := UL.Parts.fromParts_intoParts h.1
  have : routeValue T x k =
      some (Locale.fromParts x.id.language x.id.script x.id.region (x.id.variantList.reverse ++ x.id.variantList) (some x.ext)) := by
    match k, hk with
    | k + 7, _ => rfl
  rw [this]
  simp only [Locale.fromParts, e, Option.getD_some]
  have : LangId.fromParts x.id.language x.id.script x.id.region x.id.variantList = x.id := by
    simpa [LangId.intoParts, LangId.variantList] using e0
  rw [this]

/-- routes 8 and 9 of the `route` request: emptying the variant list with `set_variants(&[])` gives the value that
    `clear_variants()` gives (8), and that value is what parsing its own text gives (9) — in particular it is not the second
    representation `Some([])` -/
theorem route8 (x : Locale) : ({ x with id := x.id.setVariants [] } : Locale) = { x with id := x.id.clearVariants } := rfl

theorem route9 (x : Locale) (h : x.inv = true) :
    Locale.fromBytes (Locale.display { x with id := x.id.setVariants [] }) = .ok { x with id := x.id.setVariants [] } := by
  apply UL.Props.C05.locale_roundtrip
  simp only [Locale.inv, Bool.and_eq_true] at h ⊢
  exact ⟨UL.Reach.LangId.inv_clearVariants h.1, h.2⟩

end UL.Props.C12
