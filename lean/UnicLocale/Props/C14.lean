/-
  Props/C14.lean — `character_direction` (unic-langid-impl/src/lib.rs:418-448) against the CLDR
  layout data.

  Generic part (every flag, every tables, every layout, every identifier): which arm decides.
  Data part (`decide +kernel` over ALL entries of `Gen.cldrLayout`, the 710 locales of
  data/cldr-misc-full/main): with likely-subtags support the result is CLDR's `characterOrder`;
  without it every deviation is a script-less identifier of a language CLDR lists with more than
  one direction.
-/
import UnicLocale.Lemmas.Direction
import UnicLocale.Lemmas.Total
import UnicLocale.Lemmas.GenDataDerived
import UnicLocale.Lemmas.GenDataLayout

namespace UL.Props.C14
open UL UL.Dir UL.Tot

/-! ### a listed script decides alone -/

/-- a script in the LTR list: left-to-right, whatever the language, region, variants, flag, tables -/
theorem script_ltr_decides (flag : Bool) (T : Tables) (L : Layout) (x : LangId) (sc : Bytes)
    (hs : x.script = some sc) (h : L.ltr.contains (pack sc) = true) :
    LangId.direction flag T L x = .ok .ltr :=
  LangId.direction_script_ltr flag T L x sc hs h

/-- a script in the RTL list (and not in the LTR list, which is consulted first) -/
theorem script_rtl_decides (flag : Bool) (T : Tables) (L : Layout) (x : LangId) (sc : Bytes)
    (hs : x.script = some sc) (h0 : L.ltr.contains (pack sc) = false)
    (h : L.rtl.contains (pack sc) = true) :
    LangId.direction flag T L x = .ok .rtl :=
  LangId.direction_script_rtl flag T L x sc hs h0 h

/-- a script in the TTB list (and in neither of the lists consulted before it) -/
theorem script_ttb_decides (flag : Bool) (T : Tables) (L : Layout) (x : LangId) (sc : Bytes)
    (hs : x.script = some sc) (h0 : L.ltr.contains (pack sc) = false)
    (h1 : L.rtl.contains (pack sc) = false) (h : L.ttb.contains (pack sc) = true) :
    LangId.direction flag T L x = .ok .ttb :=
  LangId.direction_script_ttb flag T L x sc hs h0 h1 h

-- non-vacuity on the compiled layout: ar-Latn is LTR, en-Arab is RTL, en-Mong is TTB — with an
-- empty (ill-formed) table set, i.e. the tables are not even looked at
example : LangId.direction true ⟨#[], #[], #[], #[], #[], #[]⟩ Gen.layout
    { language := some [97,114], script := some [76,97,116,110] } = .ok .ltr := by decide
example : LangId.direction true ⟨#[], #[], #[], #[], #[], #[]⟩ Gen.layout
    { language := some [101,110], script := some [65,114,97,98] } = .ok .rtl := by decide
example : LangId.direction false ⟨#[], #[], #[], #[], #[], #[]⟩ Gen.layout
    { language := some [101,110], script := some [77,111,110,103] } = .ok .ttb := by decide
example : Gen.layout.ltr.contains (pack [76,97,116,110]) = true := by decide
example : Gen.layout.ltr.contains (pack [65,114,97,98]) = false ∧ Gen.layout.rtl.contains (pack [65,114,97,98]) = true := by decide
example : Gen.layout.ltr.contains (pack [77,111,110,103]) = false ∧ Gen.layout.rtl.contains (pack [77,111,110,103]) = false
    ∧ Gen.layout.ttb.contains (pack [77,111,110,103]) = true := by decide

/-! ### no listed script, language not RTL-listed: left-to-right -/

/-- script absent or in none of the three lists, language absent (`und`) or not in the RTL-language
    list ⇒ LTR, in every configuration -/
theorem unlisted_is_ltr (flag : Bool) (T : Tables) (L : Layout) (x : LangId)
    (hs : ∀ sc, x.script = some sc →
      L.ltr.contains (pack sc) = false ∧ L.rtl.contains (pack sc) = false ∧ L.ttb.contains (pack sc) = false)
    (hl : ∀ lb, x.language = some lb → L.rtlLangs.contains (pack lb) = false) :
    LangId.direction flag T L x = .ok .ltr := by
  have h1 : x.scriptListed L = false := by
    unfold LangId.scriptListed
    cases hsc : x.script with
    | none => rfl
    | some sc =>
      obtain ⟨a, b, c⟩ := hs sc hsc
      simp only [a, b, c, Bool.or_false]
  have h2 : x.langRtl L = false := by
    unfold LangId.langRtl
    cases hlb : x.language with
    | none => rfl
    | some lb => exact hl lb hlb
  rw [LangId.direction_unlisted flag T L x h1, LangId.byLang_not_rtl flag T L x h2]

-- non-vacuity: "en-Grek-GR" and "und" satisfy the hypotheses for the compiled layout
example : LangId.direction true tinyTables Gen.layout
    { language := some [101,110], script := some [71,114,101,107], region := some [71,82] } = .ok .ltr := by decide
example : LangId.direction false tinyTables Gen.layout {} = .ok .ltr := by decide
example : Gen.layout.ltr.contains (pack [71,114,101,107]) = false ∧ Gen.layout.rtl.contains (pack [71,114,101,107]) = false
    ∧ Gen.layout.ttb.contains (pack [71,114,101,107]) = false ∧ Gen.layout.rtlLangs.contains (pack [101,110]) = false := by decide

/-- both unconditional clauses at once, in the form the check's oracle evaluates them: whenever
    `Spec.directionClause` names a direction, `character_direction` returns it — every flag, every
    table set, every region and variant list -/
theorem direction_meets_clause (flag : Bool) (T : Tables) (L : Layout) (x : LangId) (d : LangId.Dir)
    (h : Spec.directionClause L x.language x.script = some d) : LangId.direction flag T L x = .ok d := by
  unfold Spec.directionClause at h
  -- the language arm, shared by "no script" and "unlisted script"
  have lang_arm : ∀ (hs : ∀ sc, x.script = some sc →
        L.ltr.contains (pack sc) = false ∧ L.rtl.contains (pack sc) = false ∧ L.ttb.contains (pack sc) = false),
      (if (x.language.isSome && L.rtlLangs.contains (Spec.packOpt x.language)) = true then none else some LangId.Dir.ltr) = some d →
      LangId.direction flag T L x = .ok d := by
    intro hs h
    cases hl : x.language with
    | none =>
      rw [hl] at h
      simp only [Option.isSome_none, Bool.false_and, Bool.false_eq_true, ↓reduceIte, Option.some.injEq] at h
      subst h
      exact unlisted_is_ltr flag T L x hs (by intro lb hb; rw [hl] at hb; cases hb)
    | some lb =>
      rw [hl] at h
      cases hr : L.rtlLangs.contains (pack lb) with
      | true =>
        simp only [Option.isSome_some, Bool.true_and, Spec.packOpt, hr, ↓reduceIte] at h
        cases h
      | false =>
        simp only [Option.isSome_some, Bool.true_and, Spec.packOpt, hr, Bool.false_eq_true, ↓reduceIte, Option.some.injEq] at h
        subst h
        exact unlisted_is_ltr flag T L x hs (by intro lb' hb; rw [hl] at hb; cases hb; exact hr)
  cases hsc : x.script with
  | none =>
    rw [hsc] at h
    simp only [Option.isSome_none, Bool.false_and, Bool.false_eq_true, ↓reduceIte] at h
    exact lang_arm (by intro sc hs; rw [hsc] at hs; cases hs) h
  | some sc =>
    rw [hsc] at h
    simp only [Option.isSome_some, Bool.true_and, Spec.packOpt] at h
    cases h0 : L.ltr.contains (pack sc) with
    | true =>
      simp only [h0, ↓reduceIte, Option.some.injEq] at h
      subst h
      exact script_ltr_decides flag T L x sc hsc h0
    | false =>
      simp only [h0, Bool.false_eq_true, ↓reduceIte] at h
      cases h1 : L.rtl.contains (pack sc) with
      | true =>
        simp only [h1, ↓reduceIte, Option.some.injEq] at h
        subst h
        exact script_rtl_decides flag T L x sc hsc h0 h1
      | false =>
        simp only [h1, Bool.false_eq_true, ↓reduceIte] at h
        cases h2 : L.ttb.contains (pack sc) with
        | true =>
          simp only [h2, ↓reduceIte, Option.some.injEq] at h
          subst h
          exact script_ttb_decides flag T L x sc hsc h0 h1 h2
        | false =>
          simp only [h2, Bool.false_eq_true, ↓reduceIte] at h
          exact lang_arm (by intro sc' hs; rw [hsc] at hs; cases hs; exact ⟨h0, h1, h2⟩) h

/-- the compiled layout is the layout the CLDR files determine, so the oracle (which reads the
    CLDR-derived layout) and the code (which reads the compiled one) speak about the same sets -/
theorem compiled_layout_is_derived : Gen.layout = Spec.derivedLayout Gen.cldrLayout :=
  Gen.layout_derived

/-! ### variants never matter; the region matters only in the RTL-language arm -/

theorem variants_irrelevant (flag : Bool) (T : Tables) (L : Layout) (x : LangId)
    (v : Option (List Bytes)) :
    LangId.direction flag T L { x with variants := v } = LangId.direction flag T L x := rfl

/-- without likely-subtags support the region never matters -/
theorem region_irrelevant_nolikely (T : Tables) (L : Layout) (x : LangId) (r : Option Bytes) :
    LangId.direction false T L { x with region := r } = LangId.direction false T L x := by
  rw [LangId.direction_eq, LangId.direction_eq, LangId.byLang_false, LangId.byLang_false]
  rfl

/-- with it, the region matters at most when no listed script decides and the language is RTL-listed -/
theorem region_irrelevant (flag : Bool) (T : Tables) (L : Layout) (x : LangId) (r : Option Bytes)
    (h : x.scriptListed L = true ∨ x.langRtl L = false) :
    LangId.direction flag T L { x with region := r } = LangId.direction flag T L x := by
  cases flag with
  | false => exact region_irrelevant_nolikely T L x r
  | true =>
    rcases h with h | h
    · rw [← LangId.direction_listed_flag T L x h,
          ← LangId.direction_listed_flag T L { x with region := r } h]
      exact region_irrelevant_nolikely T L x r
    · cases hsl : x.scriptListed L with
      | true =>
        rw [← LangId.direction_listed_flag T L x hsl,
            ← LangId.direction_listed_flag T L { x with region := r } hsl]
        exact region_irrelevant_nolikely T L x r
      | false =>
        rw [LangId.direction_unlisted true T L x hsl,
            LangId.direction_unlisted true T L { x with region := r } hsl,
            LangId.byLang_not_rtl true T L x h, LangId.byLang_not_rtl true T L { x with region := r } h]

example : LangId.scriptListed Gen.layout { language := some [101,110] } = true ∨
    LangId.langRtl Gen.layout { language := some [101,110] } = false := by decide

/-! ### the two configurations -/

/-- whenever a listed script decides, or the language is not RTL-listed, the two builds agree -/
theorem flags_agree (T : Tables) (L : Layout) (x : LangId)
    (h : x.scriptListed L = true ∨ x.langRtl L = false) :
    LangId.direction false T L x = LangId.direction true T L x := by
  rcases h with h | h
  · exact LangId.direction_listed_flag T L x h
  · cases hsl : x.scriptListed L with
    | true => exact LangId.direction_listed_flag T L x hsl
    | false =>
      rw [LangId.direction_unlisted false T L x hsl, LangId.direction_unlisted true T L x hsl,
          LangId.byLang_not_rtl false T L x h, LangId.byLang_not_rtl true T L x h]

/-- the two builds differ only for identifiers WITHOUT A LISTED SCRIPT (none, or one in none of the
    three lists) of RTL-listed languages; the build without likely subtags then answers RTL -/
theorem flags_differ_only (T : Tables) (L : Layout) (x : LangId)
    (h : LangId.direction false T L x ≠ LangId.direction true T L x) :
    x.scriptListed L = false ∧ (∃ lb, x.language = some lb ∧ L.rtlLangs.contains (pack lb) = true) ∧
      LangId.direction false T L x = .ok .rtl := by
  have h1 : x.scriptListed L = false := by
    cases hsl : x.scriptListed L with
    | false => rfl
    | true => exact absurd (flags_agree T L x (Or.inl hsl)) h
  have h2 : x.langRtl L = true := by
    cases hlr : x.langRtl L with
    | true => rfl
    | false => exact absurd (flags_agree T L x (Or.inr hlr)) h
  refine ⟨h1, ?_, ?_⟩
  · unfold LangId.langRtl at h2
    cases hl : x.language with
    | none => rw [hl] at h2; cases h2
    | some lb => rw [hl] at h2; exact ⟨lb, rfl, h2⟩
  · rw [LangId.direction_unlisted false T L x h1, LangId.byLang_false, h2]; rfl

/-- for identifiers whose script, when present, is one CLDR lists (in particular every CLDR locale),
    the two builds differ only for SCRIPT-LESS identifiers of RTL-listed languages -/
theorem flags_differ_only_scriptless (T : Tables) (L : Layout) (x : LangId)
    (hk : x.script = none ∨ x.scriptListed L = true)
    (h : LangId.direction false T L x ≠ LangId.direction true T L x) :
    x.script = none ∧ ∃ lb, x.language = some lb ∧ L.rtlLangs.contains (pack lb) = true := by
  obtain ⟨h1, h2, _⟩ := flags_differ_only T L x h
  rcases hk with hk | hk
  · exact ⟨hk, h2⟩
  · rw [h1] at hk; cases hk

/-
  FALSE as first planned (DESIGN §4 C14: "`flag = false` and `flag = true` differ only if
  `x.script = none` and `x.language ∈ rtlLangs`"): an identifier with an UNLISTED script of an
  RTL-listed language also reaches the language arm, where `maximize(language, None, region)`
  ignores the given script.  Witness on the compiled data: `pa-Grek` is RTL without likely
  subtags and LTR with (pa → pa-Guru-IN, Guru is LTR-listed) although its script is present.
  The unconditional statement is `flags_differ_only` above.
-/
theorem flags_differ_with_script :
    ∃ x : LangId, x.script ≠ none ∧
      LangId.direction false Gen.tables Gen.layout x = .ok .rtl ∧
      LangId.direction true Gen.tables Gen.layout x = .ok .ltr := by
  refine ⟨{ language := some [112,97], script := some [71,114,101,107] }, by decide, by decide +kernel, ?_⟩
  rw [Gen.direction_eq_fast]
  decide +kernel

-- the same on the hand-made tables: "en-Grek" with `en` RTL-listed and `Latn` LTR-listed
example : LangId.direction false tinyTables ⟨[1853120844], [], [], [28261]⟩
      { language := some [101,110], script := some [71,114,101,107] } = .ok .rtl ∧
    LangId.direction true tinyTables ⟨[1853120844], [], [], [28261]⟩
      { language := some [101,110], script := some [71,114,101,107] } = .ok .ltr := by decide
-- non-vacuity of `flags_agree`: "pa-Arab" has a listed script, "en" is not RTL-listed
example : LangId.scriptListed Gen.layout { language := some [112,97], script := some [65,114,97,98] } = true
    ∧ LangId.langRtl Gen.layout { language := some [101,110] } = false := by decide
-- non-vacuity of `flags_differ_only` / `flags_differ_only_scriptless`: script-less "en" (RTL-listed here) differs
example : LangId.direction false tinyTables ⟨[1853120844], [], [], [28261]⟩ { language := some [101,110] }
    ≠ LangId.direction true tinyTables ⟨[1853120844], [], [], [28261]⟩ { language := some [101,110] } := by decide

/-! ### the reference formulation -/

/-- `character_direction` is `Spec.direction` (listed script, else RTL-listed language refined by the
    likely script, else LTR) over any dictionary `find` for which the model's
    `maximize(language, None, region)` is the dictionary `maximize` (that is C06's theorem). -/
theorem direction_matches_reference (flag : Bool) (T : Tables) (L : Layout) (x : LangId) (find : Spec.Find)
    (hmax : Likely.maximize T x.language none x.region = .ok (Spec.maximize find x.language none x.region)) :
    LangId.direction flag T L x = .ok (Spec.direction flag find L x.language x.script x.region) :=
  LangId.direction_eq_spec flag T L x find hmax

-- non-vacuity: the hypothesis holds e.g. for `tinyTables`, "en", and the dictionary with the one entry en → en-Latn-US
example : Likely.maximize tinyTables (some [101,110]) none none
    = .ok (Spec.maximize (Spec.findAssoc [⟨28261, 0, 0, 28261, 1853120844, 21333⟩]) (some [101,110]) none none) := by
  decide

/-! ### the CLDR data: all 710 locales -/

/-- WITH likely-subtags support `character_direction` equals CLDR's `characterOrder` for every
    locale of the bundled layout data (whatever variants the locale carries). -/
theorem cldr_layout_likely (e : Spec.LEntry) (he : e ∈ Gen.cldrLayout) (v : Option (List Bytes)) :
    LangId.direction true Gen.tables Gen.layout { entryId e with variants := v } = .ok (dirOf e.dir) := by
  rw [variants_irrelevant, Gen.direction_eq_fast]
  exact Gen.layout_likely_fast e he

/-- WITHOUT it, every locale whose answer differs from `characterOrder` is script-less and its
    language occurs in the layout data with more than one direction. -/
theorem cldr_layout_nolikely (e : Spec.LEntry) (he : e ∈ Gen.cldrLayout) (v : Option (List Bytes))
    (hne : LangId.direction false Gen.tables Gen.layout { entryId e with variants := v } ≠ .ok (dirOf e.dir)) :
    e.s = 0 ∧ multiDir Gen.cldrLayout e.l := by
  have key : ∀ e ∈ Gen.cldrLayout,
      LangId.direction false Gen.tables Gen.layout (entryId e) ≠ .ok (dirOf e.dir) →
        e.s = 0 ∧ multiDir Gen.cldrLayout e.l := by decide +kernel
  rw [variants_irrelevant] at hne
  exact key e he hne

/-- … and for those the answer is RTL where CLDR says LTR -/
theorem cldr_layout_nolikely_values (e : Spec.LEntry) (he : e ∈ Gen.cldrLayout)
    (hne : LangId.direction false Gen.tables Gen.layout (entryId e) ≠ .ok (dirOf e.dir)) :
    LangId.direction false Gen.tables Gen.layout (entryId e) = .ok .rtl ∧ dirOf e.dir = .ltr := by
  have key : ∀ e ∈ Gen.cldrLayout,
      LangId.direction false Gen.tables Gen.layout (entryId e) ≠ .ok (dirOf e.dir) →
        LangId.direction false Gen.tables Gen.layout (entryId e) = .ok .rtl ∧ dirOf e.dir = .ltr := by
    decide +kernel
  exact key e he hne

/-- the data is what the statement says: 710 locales, directions 0/1/2 (one locale, `und`, has no language) -/
theorem cldr_layout_shape :
    Gen.cldrLayout.length = 710 ∧ ∀ e ∈ Gen.cldrLayout, e.dir ≤ 2 := by decide +kernel

-- non-vacuity: "ar-EG" (RTL) and "mn-Mong-MN"-style TTB locales are in the data; "pa" (CLDR: LTR,
-- pa-Arab being RTL) is one of the permitted deviations of the build without likely subtags
example : (⟨29281, 0, 18245, 0, 1⟩ : Spec.LEntry) ∈ Gen.cldrLayout := by decide +kernel
example : ∃ e ∈ Gen.cldrLayout, e.dir = 2 := by decide +kernel
example : (⟨24944, 0, 0, 0, 0⟩ : Spec.LEntry) ∈ Gen.cldrLayout ∧
    LangId.direction false Gen.tables Gen.layout (entryId ⟨24944, 0, 0, 0, 0⟩) ≠ .ok (dirOf 0) ∧
    multiDir Gen.cldrLayout 24944 := by decide +kernel
/-- exactly 12 of the 710 locales deviate without likely subtags -/
example : (Gen.cldrLayout.filter fun e =>
    decide (LangId.direction false Gen.tables Gen.layout (entryId e) ≠ .ok (dirOf e.dir))).length = 12 := by
  decide +kernel

/-! ### the decision code against the CLDR dictionary, for every valid identifier (C06 plugged in) -/

/-- `character_direction` over the compiled tables is the reference decision over the CLDR
    likely-subtags dictionary, in both configurations -/
theorem direction_eq_reference_compiled (flag : Bool) (x : LangId)
    (hv : validTriple x.language none x.region = true) :
    LangId.direction flag Gen.tables Gen.layout x =
      .ok (Spec.direction flag (Spec.findAssoc Gen.cldr) Gen.layout x.language x.script x.region) :=
  direction_matches_reference flag Gen.tables Gen.layout x (Spec.findAssoc Gen.cldr)
    (Gen.maximize_eq_cldr x.language none x.region hv)

end UL.Props.C14
