/-
  Props/C12.lean — property C12 (equality, ordering and hashing agree with the canonical string): the theorems are in
  `C12Core.lean` (order laws, hash stream, display injectivity, `== &str`, two routes to one value, routes 0–4, 6, 7+)
  and `C12Route5.lean` (route 5: the remove-everything-and-set-it-again history is the identity on obtainable values).
  Both files declare into the namespace `UL.Props.C12`, which is what the audit of the C12 check enumerates.
-/
import UnicLocale.Props.C12Core
import UnicLocale.Props.C12Route5
