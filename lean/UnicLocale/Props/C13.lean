/-
  Props/C13.lean — `Locale` is a drop-in superset of `LanguageIdentifier`.
-/
import UnicLocale.Lemmas.LiLoop
import UnicLocale.Model.Locale

namespace UL.Props.C13
open UL

/-- every input `LanguageIdentifier` accepts is accepted by `Locale` with an identical id and no
    extensions -/
theorem superset (bs : Bytes) (i : LangId) (h : LangId.fromBytes bs = .ok i) :
    Locale.fromBytes bs = .ok { id := i, ext := {} } := by
  unfold LangId.fromBytes at h
  cases hp : LangId.parseIter (splitSep bs) false with
  | err e => rw [hp] at h; cases h
  | panic => rw [hp] at h; cases h
  | ok p =>
    obtain ⟨x, rest⟩ := p
    rw [hp] at h
    have hx : x = i := by injection h
    subst hx
    obtain ⟨_, htrue⟩ := LangId.parseIter_false_ok hp
    unfold Locale.fromBytes Locale.parse
    rw [htrue]
    simp only [ExtMap.parseIter_nil]

/-- … and the same `to_string()` -/
theorem same_string (i : LangId) : Locale.display { id := i, ext := {} } = LangId.display i := by
  have h : ExtMap.display {} = [] := rfl
  unfold Locale.display
  simp only [h, List.append_nil]

theorem no_extensions (i : LangId) : (Locale.ofLangId i).ext.isEmpty = true := rfl

/-- for an accepted locale string without empty subtags, the id is what `LanguageIdentifier` parses
    from the part before the first singleton subtag -/
theorem id_is_prefix_parse (ts : List Bytes) (x : Locale) (hne : ∀ t ∈ ts, t ≠ [])
    (h : Locale.parse ts = .ok x) :
    LangId.parseIter (ts.takeWhile (fun t => t.length != 1)) false = .ok (x.id, []) := by
  unfold Locale.parse at h
  cases hp : LangId.parseIter ts true with
  | err e => rw [hp] at h; cases h
  | panic => rw [hp] at h; cases h
  | ok p =>
    obtain ⟨li, rest⟩ := p
    rw [hp] at h
    simp only at h
    cases he : ExtMap.parseIter rest with
    | err e => rw [he] at h; cases h
    | panic => rw [he] at h; cases h
    | ok ext =>
      rw [he] at h
      have hx : x.id = li := by injection h with h; rw [← h]
      rw [hx]
      cases ts with
      | nil =>
        rw [LangId.parseIter_nil] at hp
        have h1 : ({} : LangId) = li := by injection hp with hp; exact congrArg Prod.fst hp
        subst h1
        exact LangId.parseIter_nil false
      | cons t ts' =>
        rw [LangId.parseIter_char] at hp
        cases hread : Spec.readLangIdPrefix (t :: ts') with
        | none => rw [hread] at hp; cases hp
        | some q =>
          obtain ⟨v, rest'⟩ := q
          rw [hread] at hp
          simp only [Bool.not_true, Bool.false_and, Bool.false_eq_true, if_false] at hp
          have h1 : concreteLi v = li := by injection hp with hp; exact congrArg Prod.fst hp
          have h2 : rest' = rest := by injection hp with hp; exact congrArg Prod.snd hp
          subst h1; subst h2
          obtain ⟨pre, hts, hpne, hlen, hpre⟩ := Spec.readLangIdPrefix_consumed hread
          have htw : (t :: ts').takeWhile (fun t => t.length != 1) = pre := by
            rw [hts]
            apply takeWhile_length_ne_one hlen
            intro sg rs hrs
            subst hrs
            have hle := ExtMap.parseIter_ok_head he
            have hmem : sg ∈ t :: ts' := by rw [hts]; simp
            have hne' := hne sg hmem
            cases sg with
            | nil => exact absurd rfl hne'
            | cons b bs' =>
              simp only [List.length_cons] at hle ⊢
              omega
          rw [htw]
          cases pre with
          | nil => exact absurd rfl hpne
          | cons p0 ps =>
            rw [LangId.parseIter_char, hpre]
            rfl

/-- LanguageIdentifier → Locale → LanguageIdentifier is the identity; Locale → LanguageIdentifier
    drops exactly the extensions -/
theorem roundtrip_conversion (i : LangId) : (Locale.ofLangId i).toLangId = i := rfl
theorem toLangId_is_id (x : Locale) : x.toLangId = x.id := rfl
theorem ofLangId_toLangId (x : Locale) : Locale.ofLangId x.toLangId = { x with ext := {} } := rfl

end UL.Props.C13
