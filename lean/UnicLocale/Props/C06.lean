/-
  Props/C06.lean — `maximize` returns the CLDR likely-subtags answer for every input.

  Everything is stated for the model of `likelysubtags::maximize` run on the compiled tables
  `Gen.tables` (translated from the crate on every run) against the CLDR association list `Gen.cldr`
  (translated from `likelySubtags.json` on every run), for ALL valid (language, script, region).
  `Spec.maximize find l s r` is the dictionary formulation of the property; `Spec.cands l s r` is the
  list of candidate keys, most specific first; `Spec.fill l s r v` keeps every given subtag and takes
  the missing ones from the entry's value `v`.
-/
import UnicLocale.Lemmas.GenDataDerived

namespace UL.Props.C06
open UL

/-- On the compiled tables `maximize` never fails or panics and returns what the dictionary
    specification returns on the tables' association view. -/
theorem maximize_eq_spec_tables (l : Language) (s r : Option Bytes) (hv : validTriple l s r = true) :
    Likely.maximize Gen.tables l s r = .ok (Spec.maximize (Spec.findTables Gen.tables) l s r) :=
  maximize_eq_spec Gen.tables Gen.tables_wf l s r hv

/-- … and that is the dictionary specification over the CLDR data itself. -/
theorem maximize_eq_cldr (l : Language) (s r : Option Bytes) (hv : validTriple l s r = true) :
    Likely.maximize Gen.tables l s r = .ok (Spec.maximize (Spec.findAssoc Gen.cldr) l s r) := by
  rw [maximize_eq_spec_tables l s r hv, Spec.maximize_findTables_eq Gen.tables_derived l s r hv]

/-- For every entry `K → V` of the bundled CLDR data other than the bare `und` key, maximizing `K`
    gives `V` (all entries of `Gen.cldr`; keys and values decoded from their integer form). -/
theorem every_entry (e : Spec.CEntry) (he : e ∈ Gen.cldr) (h0 : (e.kl, e.ks, e.kr) ≠ (0, 0, 0)) :
    Likely.maximize Gen.tables (Spec.unpackOpt e.kl) (Spec.unpackOpt e.ks) (Spec.unpackOpt e.kr) =
      .ok (some (Spec.unpackOpt e.vl, Spec.unpackOpt e.vs, Spec.unpackOpt e.vr)) :=
  Spec.maximize_entry Gen.tables_WF Gen.tables_derived Gen.cldr_noUnd e he h0

/-- It reports "unchanged" exactly when language, script and region are all already present or no
    candidate key has a CLDR entry. -/
theorem unchanged_iff (l : Language) (s r : Option Bytes) (hv : validTriple l s r = true) :
    Likely.maximize Gen.tables l s r = .ok none ↔
      (l.isSome = true ∧ s.isSome = true ∧ r.isSome = true) ∨
      (∀ k ∈ Spec.cands l s r, Spec.findAssoc Gen.cldr k = none) := by
  rw [maximize_eq_cldr l s r hv, Spec.maximize_shape]
  constructor
  · intro h
    have h' := Res.ok.inj h
    split at h'
    · rename_i hc
      simp only [Bool.and_eq_true] at hc
      exact Or.inl ⟨hc.1.1, hc.1.2, hc.2⟩
    · exact Or.inr (firstHit_eq_none_iff.1 (by simpa using h'))
  · rintro (⟨a, b, c⟩ | h)
    · simp [a, b, c]
    · rw [firstHit_eq_none_iff.2 h]; simp

/-- Every subtag that was given is kept. -/
theorem given_kept (l : Language) (s r : Option Bytes) (hv : validTriple l s r = true)
    {l' : Language} {s' r' : Option Bytes} (h : Likely.maximize Gen.tables l s r = .ok (some (l', s', r'))) :
    (l.isSome = true → l' = l) ∧ (s.isSome = true → s' = s) ∧ (r.isSome = true → r' = r) := by
  rw [maximize_eq_cldr l s r hv, Spec.maximize_shape] at h
  have h' := Res.ok.inj h
  split at h'
  · cases h'
  · obtain ⟨v, _, hv'⟩ := Option.map_eq_some_iff.1 h'
    have := fill_given l s r v
    rw [hv'] at this
    exact this

/-- The most specific matching entry wins: the answer is `some t` exactly when not all three
    subtags are present and `t` is the value of the first candidate key, in the order of `Spec.cands`,
    that has a CLDR entry, with the given subtags filled in. -/
theorem most_specific_wins (l : Language) (s r : Option Bytes) (hv : validTriple l s r = true) (t : Triple) :
    Likely.maximize Gen.tables l s r = .ok (some t) ↔
      ¬(l.isSome = true ∧ s.isSome = true ∧ r.isSome = true) ∧
      ∃ pre k post v, Spec.cands l s r = pre ++ k :: post ∧
        (∀ k' ∈ pre, Spec.findAssoc Gen.cldr k' = none) ∧ Spec.findAssoc Gen.cldr k = some v ∧
        t = Spec.fill l s r v := by
  rw [maximize_eq_cldr l s r hv, Spec.maximize_shape]
  constructor
  · intro h
    have h' := Res.ok.inj h
    split at h'
    · cases h'
    · rename_i hc
      obtain ⟨v, hf, hv'⟩ := Option.map_eq_some_iff.1 h'
      obtain ⟨pre, k, post, e1, e2, e3⟩ := firstHit_eq_some_iff.1 hf
      refine ⟨fun ⟨a, b, c⟩ => hc (by simp [a, b, c]), pre, k, post, v, e1, e2, e3, hv'.symm⟩
  · rintro ⟨hn, pre, k, post, v, e1, e2, e3, rfl⟩
    have hc : (l.isSome && s.isSome && r.isSome) = false := by
      cases hl : l.isSome <;> cases hs : s.isSome <;> cases hr : r.isSome <;> simp_all
    rw [hc, firstHit_eq_some_iff.2 ⟨pre, k, post, e1, e2, e3⟩]
    rfl

/-! the candidate keys, most specific first: (language, region) or (language, script), then language
    alone; for an undetermined language (script, region), then script alone; or region alone -/
theorem cands_lang_region (lb rb : Bytes) :
    Spec.cands (some lb) none (some rb) = [(pack lb, 0, pack rb), (pack lb, 0, 0)] := rfl
theorem cands_lang_script (lb sb : Bytes) :
    Spec.cands (some lb) (some sb) none = [(pack lb, pack sb, 0), (pack lb, 0, 0)] := rfl
theorem cands_lang (lb : Bytes) : Spec.cands (some lb) none none = [(pack lb, 0, 0)] := rfl
theorem cands_script_region (sb rb : Bytes) :
    Spec.cands none (some sb) (some rb) = [(0, pack sb, pack rb), (0, pack sb, 0)] := rfl
theorem cands_script (sb : Bytes) : Spec.cands none (some sb) none = [(0, pack sb, 0)] := rfl
theorem cands_region (rb : Bytes) : Spec.cands none none (some rb) = [(0, 0, pack rb)] := rfl
theorem cands_nothing : Spec.cands none none none = [] := rfl

/-- the filled triple: a given subtag is itself, a missing one is the decoded value component -/
theorem fill_spec (l : Language) (s r : Option Bytes) (v : Spec.Key) :
    Spec.fill l s r v = (l.or (Spec.unpackOpt v.1), s.or (Spec.unpackOpt v.2.1), r.or (Spec.unpackOpt v.2.2)) := by
  cases l <;> cases s <;> cases r <;> rfl

/-- `LanguageIdentifier::maximize` writes the triple back and returns whether an entry was found. -/
theorem langid_maximize (x : LangId) (hv : validTriple x.language x.script x.region = true) :
    LangId.maximize Gen.tables x =
      .ok (match Spec.maximize (Spec.findAssoc Gen.cldr) x.language x.script x.region with
           | none => (x, false)
           | some (l, s, r) => ({ x with language := l, script := s, region := r }, true)) := by
  unfold LangId.maximize
  rw [maximize_eq_cldr _ _ _ hv]
  cases Spec.maximize (Spec.findAssoc Gen.cldr) x.language x.script x.region with
  | none => rfl
  | some t => obtain ⟨l, s, r⟩ := t; rfl

/-! ### non-vacuity -/

/-- "en", "Latn", "US" are valid subtags -/
example : validTriple (some [101, 110]) (some [76, 97, 116, 110]) (some [85, 83]) = true := by decide
example : validTriple none (some [76, 97, 116, 110]) none = true := by decide

/-- `en` maximizes to `en-Latn-US` -/
example : Likely.maximize Gen.tables (some [101, 110]) none none =
    .ok (some (some [101, 110], some [76, 97, 116, 110], some [85, 83])) := by
  rw [maximize_eq_cldr _ _ _ (by decide)]
  unfold Gen.cldr
  try simp only [List.append_assoc]
  decide +kernel

/-- `zh-TW` maximizes to `zh-Hant-TW`: the (language, region) entry beats the language entry `zh-Hans-CN` -/
example : Likely.maximize Gen.tables (some [122, 104]) none (some [84, 87]) =
    .ok (some (some [122, 104], some [72, 97, 110, 116], some [84, 87])) := by decide +kernel

/-- `en-Latn-US` is reported unchanged -/
example : Likely.maximize Gen.tables (some [101, 110]) (some [76, 97, 116, 110]) (some [85, 83]) = .ok none := by
  decide +kernel

/-- the hypotheses of `every_entry` are satisfiable: `und-BA → bs-Latn-BA` is an entry of `Gen.cldr` -/
example : (⟨0, 0, 16706, 29538, 1853120844, 16706⟩ : Spec.CEntry) ∈ Gen.cldr := by
  unfold Gen.cldr
  try simp only [List.append_assoc]
  decide +kernel
example : Likely.maximize Gen.tables none none (some [66, 65]) =
    .ok (some (some [98, 115], some [76, 97, 116, 110], some [66, 65])) :=
  every_entry ⟨0, 0, 16706, 29538, 1853120844, 16706⟩
    (by unfold Gen.cldr; try simp only [List.append_assoc]; decide +kernel) (by decide)

end UL.Props.C06
