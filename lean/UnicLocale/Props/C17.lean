/-
  Props/C17.lean — decomposition (`into_parts` / `from_parts`) and raw-representation round trips.
-/
import UnicLocale.Lemmas.Parts
import UnicLocale.Props.C05
import UnicLocale.Lemmas.Raw
import UnicLocale.Spec.Likely

namespace UL.Props.C17
open UL

/-! ### integer form and back (`From<X> for u64/u32`, `from_raw_unchecked`)

`pack` is `u64::from_le_bytes(*s.all_bytes())`, `unpack` is what a `TinyAsciiStr` built by
`from_bytes_unchecked(v.to_le_bytes())` shows.  "Valid subtag" = any value a constructor returns. -/

/-- converting a subtag to its integer and back returns an equal subtag: the text is intact -/
theorem raw_roundtrip_language (v s : Bytes) (h : Language.fromBytes v = .ok (some s)) : unpack (pack s) = s :=
  UL.raw_roundtrip_language v s h
theorem raw_roundtrip_script (v s : Bytes) (h : Script.fromBytes v = .ok s) : unpack (pack s) = s :=
  UL.raw_roundtrip_script v s h
theorem raw_roundtrip_region (v s : Bytes) (h : Region.fromBytes v = .ok s) : unpack (pack s) = s :=
  UL.raw_roundtrip_region v s h
theorem raw_roundtrip_variant (v s : Bytes) (h : Variant.fromBytes v = .ok s) : unpack (pack s) = s :=
  UL.raw_roundtrip_variant v s h

/-- distinct subtags have distinct integer forms -/
theorem raw_injective_language (v w s t : Bytes) (hs : Language.fromBytes v = .ok (some s))
    (ht : Language.fromBytes w = .ok (some t)) (h : pack s = pack t) : s = t := by
  rw [← raw_roundtrip_language v s hs, ← raw_roundtrip_language w t ht, h]
theorem raw_injective_script (v w s t : Bytes) (hs : Script.fromBytes v = .ok s)
    (ht : Script.fromBytes w = .ok t) (h : pack s = pack t) : s = t := by
  rw [← raw_roundtrip_script v s hs, ← raw_roundtrip_script w t ht, h]
theorem raw_injective_region (v w s t : Bytes) (hs : Region.fromBytes v = .ok s)
    (ht : Region.fromBytes w = .ok t) (h : pack s = pack t) : s = t := by
  rw [← raw_roundtrip_region v s hs, ← raw_roundtrip_region w t ht, h]
theorem raw_injective_variant (v w s t : Bytes) (hs : Variant.fromBytes v = .ok s)
    (ht : Variant.fromBytes w = .ok t) (h : pack s = pack t) : s = t := by
  rw [← raw_roundtrip_variant v s hs, ← raw_roundtrip_variant w t ht, h]

/-- the integer fits the type it is converted to: `u64` for language and variant, `u32` for script
    and region -/
theorem raw_fits_language (v s : Bytes) (h : Language.fromBytes v = .ok (some s)) : pack s < 2 ^ 64 := by
  obtain ⟨_, h8, hb⟩ := language_bytes_ok v s h
  have := pack_lt s 8 h8 (fun b hb' => by have := (hb b hb').2; omega)
  omega
theorem raw_fits_script (v s : Bytes) (h : Script.fromBytes v = .ok s) : pack s < 2 ^ 32 := by
  obtain ⟨h4, hb⟩ := script_bytes_ok v s h
  have := pack_lt s 4 (by omega) (fun b hb' => by have := (hb b hb').2; omega)
  omega
theorem raw_fits_region (v s : Bytes) (h : Region.fromBytes v = .ok s) : pack s < 2 ^ 32 := by
  obtain ⟨_, h3, hb⟩ := region_bytes_ok v s h
  have := pack_lt s 4 (by omega) (fun b hb' => by have := (hb b hb').2; omega)
  omega
theorem raw_fits_variant (v s : Bytes) (h : Variant.fromBytes v = .ok s) : pack s < 2 ^ 64 := by
  obtain ⟨_, h8, hb⟩ := variant_bytes_ok v s h
  have := pack_lt s 8 h8 (fun b hb' => by have := (hb b hb').2; omega)
  omega

/-- a valid subtag never packs to 0 … -/
theorem raw_pos_language (v s : Bytes) (h : Language.fromBytes v = .ok (some s)) : 0 < pack s := by
  obtain ⟨h2, _, hb⟩ := language_bytes_ok v s h
  exact pack_pos s (by intro he; rw [he] at h2; simp at h2) (fun b hb' => (hb b hb').1)

/-- … so `Language → Option<u64>` (`None` for the empty language, modelled as 0 by `Spec.packOpt`)
    loses nothing: `from_raw_unchecked`-style decoding returns the language, and the map is injective -/
theorem raw_roundtrip_language_opt (v : Bytes) (l : Language) (h : Language.fromBytes v = .ok l) :
    Spec.unpackOpt (Spec.packOpt l) = l := by
  cases l with
  | none => rfl
  | some s =>
    have hp := raw_pos_language v s h
    have hne : (pack s == 0) = false := by simp only [beq_eq_false_iff_ne, ne_eq]; omega
    simp only [Spec.packOpt, Spec.unpackOpt, hne, Bool.false_eq_true, if_false,
      raw_roundtrip_language v s h]

theorem raw_injective_language_opt (v w : Bytes) (l l' : Language) (hl : Language.fromBytes v = .ok l)
    (hl' : Language.fromBytes w = .ok l') (h : Spec.packOpt l = Spec.packOpt l') : l = l' := by
  rw [← raw_roundtrip_language_opt v l hl, ← raw_roundtrip_language_opt w l' hl', h]

theorem packOpt_none_iff (v : Bytes) (l : Language) (h : Language.fromBytes v = .ok l) :
    Spec.packOpt l = 0 ↔ l = none := by
  cases l with
  | none => simp [Spec.packOpt]
  | some s =>
    have := raw_pos_language v s h
    simp only [Spec.packOpt, reduceCtorEq, iff_false]
    omega

/-! ### `from_parts(into_parts(x)) == x` -/

/-- for every `LanguageIdentifier` satisfying the representation invariant -/
theorem langid_parts_roundtrip (x : LangId) (h : x.inv = true) :
    (let (l, s, r, vs) := x.intoParts
     LangId.fromParts l s r vs) = x :=
  Parts.fromParts_intoParts h

/-- exactly: the round trip holds iff the variant field is in canonical form (never `Some([])`,
    strictly increasing) — the only part of the invariant it depends on -/
theorem langid_parts_roundtrip_iff (x : LangId) :
    (let (l, s, r, vs) := x.intoParts
     LangId.fromParts l s r vs) = x ↔
      (∀ l, x.variants = some l → l ≠ [] ∧ strictSorted l = true) :=
  Parts.fromParts_intoParts_iff x

/-- what fails without the invariant: the `Some([])` representation collapses to `None`, and an
    unsorted list (only `from_raw_parts_unchecked` can store one) gets sorted -/
example : (let (l, s, r, vs) := LangId.intoParts { language := some [101, 110], variants := some [] }
           LangId.fromParts l s r vs) = { language := some [101, 110], variants := none } := by decide
example : (let (l, s, r, vs) := LangId.intoParts { variants := some [[98, 98, 98, 98, 98], [97, 97, 97, 97, 97]] }
           LangId.fromParts l s r vs) ≠ { variants := some [[98, 98, 98, 98, 98], [97, 97, 97, 97, 97]] } := by decide

/-! ### `from_parts` equals parsing the joined string, whatever the order of the variants -/

/-- for stored subtags satisfying the invariant and ANY list of valid variants (any order,
    duplicates allowed): parsing `language-script-region-v1-…-vn` yields `from_parts` of them -/
theorem from_parts_eq_parse (l : Language) (s r : Option Bytes) (vs : List Bytes)
    (hl : okLanguage l = true) (hs : okScript s = true) (hr : okRegion r = true)
    (hv : vs.all okVariant = true) :
    LangId.fromBytes (join ([Language.asStr l] ++ s.toList ++ r.toList ++ vs)) =
      .ok (LangId.fromParts l s r vs) :=
  Parts.fromBytes_join_parts hl hs hr hv

/-- the same with "valid" spelled as "returned by the subtag's constructor" -/
theorem from_parts_eq_parse_of_constructed (l : Language) (s r : Option Bytes) (vs : List Bytes)
    (hl : ∃ v, Language.fromBytes v = .ok l)
    (hs : ∀ b, s = some b → ∃ v, Script.fromBytes v = .ok b)
    (hr : ∀ b, r = some b → ∃ v, Region.fromBytes v = .ok b)
    (hv : ∀ t ∈ vs, ∃ v, Variant.fromBytes v = .ok t) :
    LangId.fromBytes (join ([Language.asStr l] ++ s.toList ++ r.toList ++ vs)) =
      .ok (LangId.fromParts l s r vs) := by
  apply from_parts_eq_parse
  · obtain ⟨v, hv⟩ := hl
    exact Parts.okLanguage_of_fromBytes hv
  · cases s with
    | none => rfl
    | some b => obtain ⟨v, h⟩ := hs b rfl; exact Parts.okScript_of_fromBytes h
  · cases r with
    | none => rfl
    | some b => obtain ⟨v, h⟩ := hr b rfl; exact Parts.okRegion_of_fromBytes h
  · rw [List.all_eq_true]
    intro t ht
    obtain ⟨v, h⟩ := hv t ht
    exact Parts.okVariant_of_fromBytes h

/-- consequently the order and multiplicity of the variants handed to `from_parts` do not matter -/
theorem from_parts_order_irrelevant (l : Language) (s r : Option Bytes) (vs ws : List Bytes)
    (h : ∀ t, t ∈ vs ↔ t ∈ ws) : LangId.fromParts l s r vs = LangId.fromParts l s r ws := by
  have he : vs.isEmpty = ws.isEmpty := by
    cases vs with
    | nil =>
      cases ws with
      | nil => rfl
      | cons a _ => exact absurd ((h a).2 (List.mem_cons_self ..)) (by simp)
    | cons a _ =>
      cases ws with
      | nil => exact absurd ((h a).1 (List.mem_cons_self ..)) (by simp)
      | cons _ _ => rfl
  simp only [LangId.fromParts, LangId.finishVariants, he, dedup_sort_congr h]

/-- the canonical text of a valid value parses back to it (used by C12; C05 for this type) -/
theorem langid_display_roundtrip (x : LangId) (h : x.inv = true) : LangId.fromBytes (LangId.display x) = .ok x :=
  Parts.langid_roundtrip h

/-! ### `Locale`: `from_parts` of `into_parts` with the extension string re-parsed -/

/-- given the `ExtensionsMap` parse/print round trip (C05) as an explicit hypothesis -/
theorem locale_parts_of_roundtrip
    (hrt : ∀ m : ExtMap, m.inv = true → ExtMap.fromBytes (ExtMap.display m) = .ok m)
    (x : Locale) (h : x.inv = true) :
    (let (l, s, r, vs, e) := x.intoParts
     (ExtMap.fromBytes e).map (fun m => Locale.fromParts l s r vs (some m))) = .ok x := by
  simp only [Locale.inv, Bool.and_eq_true] at h
  obtain ⟨hid, hext⟩ := h
  simp only [Locale.intoParts, hrt x.ext hext, Res.map, Locale.fromParts, Option.getD_some]
  have := Parts.fromParts_intoParts hid
  simp only [LangId.intoParts] at this
  rw [this]

/-- `from_parts(into_parts(x)) == x` for every obtainable `Locale`, the extension string re-parsed as an
    `ExtensionsMap` (the round trip of C05 plugged in) -/
theorem locale_parts_roundtrip (x : Locale) (h : x.inv = true) :
    (let (l, s, r, vs, e) := x.intoParts
     (ExtMap.fromBytes e).map (fun m => Locale.fromParts l s r vs (some m))) = .ok x :=
  locale_parts_of_roundtrip UL.Props.C05.extmap_roundtrip x h

/-- the language-identifier half needs no hypothesis: whatever extensions are supplied, the id is restored -/
theorem locale_parts_id (x : Locale) (h : x.id.inv = true) (e : Option ExtMap) :
    (let (l, s, r, vs, _) := x.intoParts
     (Locale.fromParts l s r vs e).id) = x.id :=
  Parts.fromParts_intoParts h

/-- `extensions: None` means no extensions -/
theorem locale_fromParts_none (l : Language) (s r : Option Bytes) (vs : List Bytes) :
    Locale.fromParts l s r vs none = Locale.ofLangId (LangId.fromParts l s r vs) := rfl

/-! ### non-vacuity -/

example : Language.fromBytes [69, 78] = .ok (some [101, 110]) ∧ unpack (pack [101, 110]) = [101, 110] ∧
    pack [101, 110] = 28261 := by decide
example : Script.fromBytes [108, 97, 116, 110] = .ok [76, 97, 116, 110] ∧ pack [76, 97, 116, 110] = 1853120844 := by decide
example : Region.fromBytes [52, 49, 57] = .ok [52, 49, 57] ∧ unpack (pack [52, 49, 57]) = [52, 49, 57] := by decide
example : Variant.fromBytes [118, 97, 108, 101, 110, 99, 105, 97] = .ok [118, 97, 108, 101, 110, 99, 105, 97] ∧
    unpack (pack [118, 97, 108, 101, 110, 99, 105, 97]) = [118, 97, 108, 101, 110, 99, 105, 97] := by decide
-- "und" is the empty language and packs to `None`
example : Language.fromBytes [117, 110, 100] = .ok none ∧ Spec.packOpt none = 0 := by decide
-- a value satisfying the invariant, with all four fields
example : LangId.inv { language := some [101, 110], script := some [76, 97, 116, 110], region := some [85, 83],
                       variants := some [[49, 57, 57, 54], [118, 97, 108, 101, 110, 99, 105, 97]] } = true := by decide
-- valid parts with the variants out of order and duplicated: "en-Latn-US-valencia-1996-valencia"
example : okLanguage (some [101, 110]) = true ∧ okScript (some [76, 97, 116, 110]) = true ∧
    okRegion (some [85, 83]) = true ∧
    [[118, 97, 108, 101, 110, 99, 105, 97], [49, 57, 57, 54], [118, 97, 108, 101, 110, 99, 105, 97]].all okVariant = true := by
  decide
example : LangId.fromParts (some [101, 110]) (some [76, 97, 116, 110]) (some [85, 83])
      [[118, 97, 108, 101, 110, 99, 105, 97], [49, 57, 57, 54], [118, 97, 108, 101, 110, 99, 105, 97]] =
    { language := some [101, 110], script := some [76, 97, 116, 110], region := some [85, 83],
      variants := some [[49, 57, 57, 54], [118, 97, 108, 101, 110, 99, 105, 97]] } := by decide
-- hypothesis of `from_parts_order_irrelevant`: the same set, different order and multiplicity
example : ∀ t, t ∈ [[118, 97, 108, 101, 110, 99, 105, 97], [49, 57, 57, 54], [118, 97, 108, 101, 110, 99, 105, 97]] ↔
    t ∈ [[49, 57, 57, 54], [118, 97, 108, 101, 110, 99, 105, 97]] := by
  intro t; simp only [List.mem_cons, List.not_mem_nil, or_false]; grind
-- a locale satisfying the invariant whose extension string re-parses to its extensions
example : Locale.inv { id := { language := some [101, 110] },
                       ext := { unicode := { keywords := [([99, 97], [[98, 117, 100, 100, 104, 105, 115, 116]])] },
                                priv := [[112, 114, 105, 118]] } } = true := by decide
example : ExtMap.fromBytes (ExtMap.display
      { unicode := { keywords := [([99, 97], [[98, 117, 100, 100, 104, 105, 115, 116]])] },
        transform := { tfields := [([104, 48], [[104, 121, 98, 114, 105, 100]])] },
        priv := [[112, 114, 105, 118]] }) =
    .ok { unicode := { keywords := [([99, 97], [[98, 117, 100, 100, 104, 105, 115, 116]])] },
          transform := { tfields := [([104, 48], [[104, 121, 98, 114, 105, 100]])] },
          priv := [[112, 114, 105, 118]] } := by decide

end UL.Props.C17
