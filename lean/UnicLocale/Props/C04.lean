/-
  Props/C04.lean — serialisation always emits the canonical well-formed form.

  `Spec.isCanonical` (`Spec/Canonical.lean`) is the independent recogniser of the form the property
  demands.  Every value satisfying the representation invariant prints a string it accepts; every
  value obtainable through the safe API satisfies the invariant (`Lemmas/Reach*.lean`);
  `canonicalize` is parse-then-print, and its output is never longer than its input.
-/
import UnicLocale.Lemmas.Canon
import UnicLocale.Lemmas.CanonLen
import UnicLocale.Lemmas.ReachOps

namespace UL.Props.C04
open UL

/-- "en-Latn-US-macos-t-es-AR-h0-hybrid-u-attr-ca-buddhist-x-priv" -/
def sampleBytes : Bytes :=
  [101,110,45,76,97,116,110,45,85,83,45,109,97,99,111,115,45,116,45,101,115,45,65,82,45,104,48,45,
   104,121,98,114,105,100,45,117,45,97,116,116,114,45,99,97,45,98,117,100,100,104,105,115,116,45,
   120,45,112,114,105,118]

/-- the model's parse of `sampleBytes` (all three extensions present) -/
def sample : Locale := (Locale.fromBytes sampleBytes).toOption.getD {}

example : Locale.fromBytes sampleBytes = .ok sample ∧ sample.inv = true ∧
    sample.ext.unicode.isEmpty = false ∧ sample.ext.transform.isEmpty = false ∧
    sample.ext.priv.isEmpty = false := by decide

/-! ### the invariant implies the canonical form -/

/-- A `Locale` satisfying the representation invariant prints a canonical identifier. -/
theorem locale_canonical (x : Locale) (hx : x.inv = true) :
    Spec.isCanonical (Locale.display x) = true := by
  rw [Canon.Locale.display_eq_join]
  exact Canon.isCanonical_join (Canon.Locale.tokens_ne_nil x) (Canon.Locale.tokens_alnum hx)
    (Canon.isCanonicalTokens_locale hx)

example : sample.inv = true ∧ Spec.isCanonical (Locale.display sample) = true := by decide

/-- A `LanguageIdentifier` satisfying the invariant prints a canonical language identifier
    (no extension), which is in particular a canonical locale identifier. -/
theorem langid_canonical (x : LangId) (hx : x.inv = true) :
    Spec.isCanonicalLangId (LangId.display x) = true ∧ Spec.isCanonical (LangId.display x) = true := by
  constructor
  · exact Canon.isCanonicalLangId_join (Canon.LangId.tokens_ne_nil x) (Canon.LangId.tokens_alnum hx)
      (Canon.isCanonicalTokens_langId hx)
  · have h := locale_canonical (Locale.ofLangId x) (by
      simp only [Locale.inv, Locale.ofLangId, hx, Bool.true_and]; rfl)
    have e : Locale.display (Locale.ofLangId x) = LangId.display x := by
      simp [Locale.display, Locale.ofLangId, ExtMap.display, ExtMap.tokens, TExt.tokens, UExt.tokens,
        PExt.tokens, TExt.isEmpty, UExt.isEmpty, dashAll]
    rw [e] at h
    exact h

example : sample.id.inv = true ∧ Spec.isCanonicalLangId (LangId.display sample.id) = true := by decide

/-- For every value (no hypothesis) the printed string is the abstract canonicaliser of
    `Spec/Locale.lean` applied to the value read field by field. -/
theorem display_is_canon (x : Locale) : Locale.display x = Spec.canon (Canon.absLocale x) :=
  Canon.display_eq_canon x

/-! ### every obtainable value: parsing -/

theorem locale_parse_canonical (bs : Bytes) (x : Locale) (h : Locale.fromBytes bs = .ok x) :
    Spec.isCanonical (Locale.display x) = true :=
  locale_canonical x (Reach.Locale.inv_of_fromBytes h)

theorem langid_parse_canonical (bs : Bytes) (x : LangId) (h : LangId.fromBytes bs = .ok x) :
    Spec.isCanonicalLangId (LangId.display x) = true ∧ Spec.isCanonical (LangId.display x) = true :=
  langid_canonical x (Reach.LangId.inv_of_fromBytes h)

example : ∃ x, Locale.fromBytes sampleBytes = .ok x := ⟨sample, by decide⟩
-- "DE_latn_at_1996"
example : (LangId.fromBytes [68,69,95,108,97,116,110,95,97,116,95,49,57,57,54]).isOk = true := by decide

/-! ### every obtainable value: `from_parts` over subtags returned by the constructors -/

/-- what the subtag constructors return are valid stored subtags -/
theorem constructors_valid :
    (∀ v l, Language.fromBytes v = .ok l → okLanguage l = true) ∧
    (∀ v s, Script.fromBytes v = .ok s → okScript (some s) = true) ∧
    (∀ v r, Region.fromBytes v = .ok r → okRegion (some r) = true) ∧
    (∀ v w, Variant.fromBytes v = .ok w → okVariant w = true) :=
  ⟨fun _ _ => Reach.okLanguage_of_fromBytes, fun _ _ => Reach.okScript_of_fromBytes,
   fun _ _ => Reach.okRegion_of_fromBytes, fun _ _ => Reach.okVariant_of_fromBytes⟩

theorem langid_fromParts_canonical (l : Language) (s r : Option Bytes) (vs : List Bytes)
    (hl : okLanguage l = true) (hs : okScript s = true) (hr : okRegion r = true)
    (hv : ∀ v ∈ vs, okVariant v = true) :
    Spec.isCanonicalLangId (LangId.display (LangId.fromParts l s r vs)) = true :=
  (langid_canonical _ (Reach.LangId.inv_fromParts hl hs hr hv)).1

theorem locale_fromParts_canonical (l : Language) (s r : Option Bytes) (vs : List Bytes)
    (e : Option ExtMap) (hl : okLanguage l = true) (hs : okScript s = true) (hr : okRegion r = true)
    (hv : ∀ v ∈ vs, okVariant v = true) (he : ∀ m, e = some m → m.inv = true) :
    Spec.isCanonical (Locale.display (Locale.fromParts l s r vs e)) = true :=
  locale_canonical _ (Reach.Locale.inv_fromParts hl hs hr hv he)

/-- the extensions map of `from_parts` obtained by parsing -/
theorem extmap_parse_inv (bs : Bytes) (m : ExtMap) (h : ExtMap.fromBytes bs = .ok m) : m.inv = true :=
  Reach.ExtMap.inv_of_fromBytes h

-- non-vacuity: en / Latn / US / [valencia, 1996, valencia] (unsorted, repeated) with the sample's
-- extensions
example :
    okLanguage (some [101,110]) = true ∧ okScript (some [76,97,116,110]) = true ∧
    okRegion (some [85,83]) = true ∧
    (∀ v ∈ [[118,97,108,101,110,99,105,97],[49,57,57,54],[118,97,108,101,110,99,105,97]],
      okVariant v = true) ∧ sample.ext.inv = true ∧
    Spec.isCanonical (Locale.display (Locale.fromParts (some [101,110]) (some [76,97,116,110])
      (some [85,83]) [[118,97,108,101,110,99,105,97],[49,57,57,54],[118,97,108,101,110,99,105,97]]
      (some sample.ext))) = true := by decide

/-! ### every obtainable value: histories of public mutations (operations of `Model/Ops.lean`;
    byte-string arguments are parsed by the constructors, so no hypothesis on them is needed) -/

theorem step_canonical (T : Tables) (hT : tablesWF T = true) (x : Locale) (hx : x.inv = true) (o : Op) :
    Spec.isCanonical (Locale.display (step T x o).1) = true :=
  locale_canonical _ (Reach.step_inv T x o hT hx)

theorem history_canonical (T : Tables) (hT : tablesWF T = true) (x : Locale) (hx : x.inv = true)
    (os : List Op) : Spec.isCanonical (Locale.display (runState T x os)) = true :=
  locale_canonical _ (Reach.runState_inv T x os hT hx)

/-- every intermediate state of a history -/
theorem history_all_canonical (T : Tables) (hT : tablesWF T = true) (x : Locale) (hx : x.inv = true)
    (os : List Op) : ∀ p ∈ run T x os, Spec.isCanonical (Locale.display p.1) = true :=
  fun p hp => locale_canonical _ (Reach.run_inv T x os hT hx p hp)

/-- parse anything accepted, then apply any history -/
theorem parse_history_canonical (T : Tables) (hT : tablesWF T = true) (bs : Bytes) (x : Locale)
    (h : Locale.fromBytes bs = .ok x) (os : List Op) :
    Spec.isCanonical (Locale.display (runState T x os)) = true :=
  history_canonical T hT x (Reach.Locale.inv_of_fromBytes h) os

/-- without the likely-subtags operations no hypothesis on the tables is needed -/
theorem step_canonical_noTables (T : Tables) (x : Locale) (hx : x.inv = true) (o : Op)
    (ho : o ≠ .maximize ∧ o ≠ .minimize) : Spec.isCanonical (Locale.display (step T x o).1) = true :=
  locale_canonical _ (Reach.step_inv_noTables T x o hx ho)

-- non-vacuity: a hand-made well-formed table (one row `en → en-Latn-US`) and a history on the sample
example : tablesWF Reach.ReachOpsExamples.tinyT = true := by decide
example :
    Spec.isCanonical (Locale.display (runState Reach.ReachOpsExamples.tinyT sample
      [.setScript none, .maximize, .setAttribute [122,122,122], .addTag [97], .removeTag [112,114,105,118],
       .setKeyword [110,117] [[116,114,117,101]], .clearTLang])) = true := by decide

/-! ### `canonicalize` -/

theorem locale_canonicalize_def (bs : Bytes) :
    Locale.canonicalize bs = (Locale.fromBytes bs).map Locale.display := rfl

theorem langid_canonicalize_def (bs : Bytes) :
    LangId.canonicalize bs = (LangId.fromBytes bs).map LangId.display := rfl

/-- never longer than the input -/
theorem locale_not_longer (bs : Bytes) (x : Locale) (h : Locale.fromBytes bs = .ok x) :
    (Locale.display x).length ≤ bs.length :=
  CanonLen.Locale.display_length_le bs x h

theorem langid_not_longer (bs : Bytes) (x : LangId) (h : LangId.fromBytes bs = .ok x) :
    (LangId.display x).length ≤ bs.length :=
  CanonLen.LangId.display_length_le bs x h

/-- `canonicalize(s)` is the canonical string of the value parsed from `s`, and is not longer -/
theorem locale_canonicalize (bs s : Bytes) (h : Locale.canonicalize bs = .ok s) :
    (∃ x, Locale.fromBytes bs = .ok x ∧ s = Locale.display x) ∧
    Spec.isCanonical s = true ∧ s.length ≤ bs.length := by
  unfold Locale.canonicalize at h
  cases hp : Locale.fromBytes bs with
  | ok x =>
    rw [hp] at h
    cases h
    exact ⟨⟨x, rfl, rfl⟩, locale_parse_canonical bs x hp, locale_not_longer bs x hp⟩
  | err e => rw [hp] at h; cases h
  | panic => rw [hp] at h; cases h

theorem langid_canonicalize (bs s : Bytes) (h : LangId.canonicalize bs = .ok s) :
    (∃ x, LangId.fromBytes bs = .ok x ∧ s = LangId.display x) ∧
    Spec.isCanonicalLangId s = true ∧ s.length ≤ bs.length := by
  unfold LangId.canonicalize at h
  cases hp : LangId.fromBytes bs with
  | ok x =>
    rw [hp] at h
    cases h
    exact ⟨⟨x, rfl, rfl⟩, (langid_parse_canonical bs x hp).1, langid_not_longer bs x hp⟩
  | err e => rw [hp] at h; cases h
  | panic => rw [hp] at h; cases h

-- non-vacuity / instances: "EN_latn_us-VALENCIA-1996-valencia-U-ATTR-ca-true-t-h0-hybrid" is
-- canonicalised to "en-Latn-US-1996-valencia-t-h0-hybrid-u-attr-ca" (shorter: a duplicate variant
-- and a `true` value are dropped)
example :
    Locale.canonicalize
      [69,78,95,108,97,116,110,95,117,115,45,86,65,76,69,78,67,73,65,45,49,57,57,54,45,118,97,108,101,
       110,99,105,97,45,85,45,65,84,84,82,45,99,97,45,116,114,117,101,45,116,45,104,48,45,104,121,98,
       114,105,100]
    = .ok [101,110,45,76,97,116,110,45,85,83,45,49,57,57,54,45,118,97,108,101,110,99,105,97,45,116,45,
           104,48,45,104,121,98,114,105,100,45,117,45,97,116,116,114,45,99,97] := by decide
-- a canonical input is a fixed point (the bound is tight)
example : Locale.canonicalize sampleBytes = .ok sampleBytes := by decide

end UL.Props.C04
