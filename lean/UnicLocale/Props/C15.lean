/-
  Props/C15.lean — each subtag type accepts exactly its UTS #35 production and normalises case.
  Quantified over every `List Nat` (a superset of all byte strings).
-/
import UnicLocale.Lemmas.Ascii

namespace UL.Props.C15
open UL

/-- `Language::from_bytes` succeeds exactly on `alpha{2,3} | alpha{5,8}`; the stored text is the
    lower-cased input, `und` is the empty language; every other byte string is `InvalidLanguage`. -/
theorem language_exact (v : Bytes) :
    Language.fromBytes v =
      if Spec.isLanguage v then .ok (Spec.canonLanguage v) else .err .invalidLanguage := by
  by_cases hs : Spec.isLanguage v = true
  · obtain ⟨h2, h8, h4, ha⟩ := isLanguage_spec hs
    have ht : (!tinyOk 8 v) = false := by rw [tinyOk_of_allAlpha h8 ha]; rfl
    have hg : (!(decide (2 ≤ v.length) && decide (v.length ≤ 8)) || v.length == 4 || !allAlpha v) = false := by
      simp [ha]; omega
    simp only [Language.fromBytes, hs, ht, hg, Spec.canonLanguage, undBytes, Spec.und,
      Bool.false_eq_true, ↓reduceIte]
    exact (apply_ite Res.ok _ _ _).symm
  · simp only [Bool.not_eq_true] at hs
    rw [hs]
    unfold Language.fromBytes
    by_cases ht : (!tinyOk 8 v) = true
    · simp only [ht, Bool.false_eq_true, ↓reduceIte]
    · have hg : (!(decide (2 ≤ v.length) && decide (v.length ≤ 8)) || v.length == 4 || !allAlpha v) = true := by
        simp only [Spec.isLanguage, Spec.rep] at hs
        unfold allAlpha
        by_cases ha : v.all isAlpha = true
        · simp [ha] at hs ⊢; omega
        · simp [ha]
      simp only [ht, hg, Bool.false_eq_true, ↓reduceIte]

/-- `Script::from_bytes` succeeds exactly on `alpha{4}`, storing the title-cased text. -/
theorem script_exact (v : Bytes) :
    Script.fromBytes v = if Spec.isScript v then .ok (title v) else .err .invalidSubtag := by
  unfold Script.fromBytes Spec.isScript Spec.rep
  by_cases ha : allAlpha v = true
  · by_cases hl : v.length = 4
    · have ht := tinyOk_of_allAlpha (n := 4) (by omega) ha
      unfold allAlpha at ha
      simp [ht, ha, hl, allAlpha]
    · unfold allAlpha at ha
      by_cases ht : tinyOk 4 v = true <;> simp [ht, hl, ha] <;> omega
  · unfold allAlpha at ha
    simp only [Bool.not_eq_true] at ha
    by_cases ht : tinyOk 4 v = true <;> simp [ht, allAlpha, ha]

/-- `Region::from_bytes` succeeds exactly on `alpha{2} | digit{3}`: upper-cased letters, digits as is. -/
theorem region_exact (v : Bytes) :
    Region.fromBytes v = if Spec.isRegion v then .ok (upper v) else .err .invalidSubtag := by
  unfold Region.fromBytes Spec.isRegion Spec.rep
  by_cases h2 : v.length = 2
  · by_cases ha : allAlpha v = true
    · have ht := tinyOk_of_allAlpha (n := 4) (by omega) ha
      unfold allAlpha at ha
      simp [h2, ht, ha, allAlpha]
    · unfold allAlpha at ha
      simp only [Bool.not_eq_true] at ha
      by_cases ht : tinyOk 4 v = true <;> simp [h2, ht, allAlpha, ha]
  · by_cases h3 : v.length = 3
    · by_cases hd : allDigit v = true
      · have ht := tinyOk_of_allDigit (n := 4) (by omega) hd
        have hup : upper v = v := by
          unfold upper
          unfold allDigit at hd
          rw [List.all_eq_true] at hd
          conv => rhs; rw [← List.map_id v]
          apply List.map_congr_left
          intro b hb
          have := hd b hb
          unfold isDigit at this
          simp only [Bool.and_eq_true, decide_eq_true_eq] at this
          unfold toUpper isLower
          simp; omega
        unfold allDigit at hd
        simp [h3, ht, hd, allDigit, hup]
      · unfold allDigit at hd
        simp only [Bool.not_eq_true] at hd
        by_cases ht : tinyOk 4 v = true <;> simp [h3, ht, allDigit, hd]
    · simp [h2, h3]
      omega

/-- `Variant::from_bytes` succeeds exactly on `alphanum{5,8} | digit alphanum{3}`, lower-cased. -/
theorem variant_exact (v : Bytes) :
    Variant.fromBytes v = if Spec.isVariant v then .ok (lower v) else .err .invalidSubtag := by
  unfold Variant.fromBytes
  by_cases h4 : v.length = 4
  · cases v with
    | nil => simp at h4
    | cons d r =>
      rw [isVariant_len4 h4]
      have g1 : (!(decide (4 ≤ (d :: r).length) && decide ((d :: r).length ≤ 8))) = false := by
        rw [h4]; rfl
      have g3 : (decide ((d :: r).length ≥ 5) && !allAlnum (d :: r)) = false := by
        rw [h4]; rfl
      have g4 : ((d :: r).length == 4) = true := by rw [h4]; rfl
      simp only [g1, g3, g4, Bool.false_eq_true, ↓reduceIte, any_not_eq_not_all]
      by_cases hd : isDigit d = true
      · by_cases hr : r.all isAlnum = true
        · have hall : allAlnum (d :: r) = true := by
            simp [allAlnum, isAlnum, hd, hr]
          have ht := tinyOk_of_allAlnum (n := 8) (by omega) hall
          simp [ht, hd, hr]
        · by_cases ht : tinyOk 8 (d :: r) = true <;> simp [ht, hd, hr]
      · by_cases ht : tinyOk 8 (d :: r) = true <;> simp [ht, hd]
  · rw [isVariant_len_ne4 h4]
    by_cases hlen : 5 ≤ v.length ∧ v.length ≤ 8
    · have hlo : 4 ≤ v.length := by omega
      have g4 : (v.length == 4) = false := by simp [h4]
      by_cases hall : allAlnum v = true
      · have ht := tinyOk_of_allAlnum hlen.2 hall
        simp [hlo, g4, ht, hall, hlen.1, hlen.2]
      · by_cases ht : tinyOk 8 v = true <;> simp [hlo, ht, hall, hlen.1, hlen.2]
    · have g1 : (!(decide (4 ≤ v.length) && decide (v.length ≤ 8))) = true := by
        simp; omega
      have g2 : (decide (5 ≤ v.length) && decide (v.length ≤ 8)) = false := by
        simp; omega
      simp [g1, g2]

/-- inversion of `language_exact` -/
theorem language_ok_inv {v : Bytes} {l : Language} (h : Language.fromBytes v = .ok l) :
    Spec.isLanguage v = true ∧ l = Spec.canonLanguage v := by
  rw [language_exact] at h
  by_cases hs : Spec.isLanguage v = true
  · rw [if_pos hs] at h
    exact ⟨hs, (Res.ok.inj h).symm⟩
  · rw [if_neg hs] at h; cases h

theorem script_ok_inv {v s : Bytes} (h : Script.fromBytes v = .ok s) :
    Spec.isScript v = true ∧ s = title v := by
  rw [script_exact] at h
  by_cases hs : Spec.isScript v = true
  · rw [if_pos hs] at h
    exact ⟨hs, (Res.ok.inj h).symm⟩
  · rw [if_neg hs] at h; cases h

theorem region_ok_inv {v s : Bytes} (h : Region.fromBytes v = .ok s) :
    Spec.isRegion v = true ∧ s = upper v := by
  rw [region_exact] at h
  by_cases hs : Spec.isRegion v = true
  · rw [if_pos hs] at h
    exact ⟨hs, (Res.ok.inj h).symm⟩
  · rw [if_neg hs] at h; cases h

theorem variant_ok_inv {v s : Bytes} (h : Variant.fromBytes v = .ok s) :
    Spec.isVariant v = true ∧ s = lower v := by
  rw [variant_exact] at h
  by_cases hs : Spec.isVariant v = true
  · rw [if_pos hs] at h
    exact ⟨hs, (Res.ok.inj h).symm⟩
  · rw [if_neg hs] at h; cases h

/-! the stored text is what every accessor exposes; `und` is the empty language -/

theorem language_stored_text (v : Bytes) (l : Language) (h : Language.fromBytes v = .ok l) :
    Language.asStr l = lower v := by
  obtain ⟨_, rfl⟩ := language_ok_inv h
  unfold Spec.canonLanguage
  by_cases hu : (lower v == Spec.und) = true
  · rw [if_pos hu]
    exact (eq_of_beq hu).symm
  · rw [if_neg hu]; rfl

theorem language_und_is_empty (v : Bytes) (h : lower v = undBytes) : Language.fromBytes v = .ok none := by
  have hs : Spec.isLanguage v = true := by
    rw [← isLanguage_lower, h]; decide
  rw [language_exact, if_pos hs]
  unfold Spec.canonLanguage
  rw [h]; rfl

theorem language_empty_forms :
    Language.default = none ∧ Language.tryFromOption none = .ok none ∧ Language.asStr none = undBytes :=
  ⟨rfl, rfl, rfl⟩

theorem language_eqStr_iff (l : Language) (s : Bytes) : Language.eqStr l s = true ↔ Language.asStr l = s := by
  unfold Language.eqStr
  exact beq_iff_eq

/-- a stored language is never the text `und` in the `some` form (one representation only) -/
theorem language_some_ne_und (v : Bytes) (s : Bytes) (h : Language.fromBytes v = .ok (some s)) : s ≠ undBytes := by
  obtain ⟨_, hl⟩ := language_ok_inv h
  unfold Spec.canonLanguage at hl
  by_cases hu : (lower v == Spec.und) = true
  · rw [if_pos hu] at hl; cases hl
  · rw [if_neg hu] at hl
    cases hl
    intro he
    exact hu (by rw [he]; rfl)

/-- re-parsing the stored text gives the same subtag (C05 for the four subtag types) -/
theorem language_roundtrip (v : Bytes) (l : Language) (h : Language.fromBytes v = .ok l) :
    Language.fromBytes (Language.asStr l) = .ok l := by
  obtain ⟨hs, hl⟩ := language_ok_inv h
  rw [language_stored_text v l h, language_exact, isLanguage_lower, if_pos hs, canonLanguage_lower, hl]
theorem script_roundtrip (v s : Bytes) (h : Script.fromBytes v = .ok s) : Script.fromBytes s = .ok s := by
  obtain ⟨hs, rfl⟩ := script_ok_inv h
  rw [script_exact, isScript_title, if_pos hs, title_title]
theorem region_roundtrip (v s : Bytes) (h : Region.fromBytes v = .ok s) : Region.fromBytes s = .ok s := by
  obtain ⟨hs, rfl⟩ := region_ok_inv h
  rw [region_exact, isRegion_upper, if_pos hs, upper_upper]
theorem variant_roundtrip (v s : Bytes) (h : Variant.fromBytes v = .ok s) : Variant.fromBytes s = .ok s := by
  obtain ⟨hs, rfl⟩ := variant_ok_inv h
  rw [variant_exact, isVariant_lower, if_pos hs, lower_lower]

/-- no constructor panics, for any byte string (C01 for the subtag constructors) -/
theorem language_no_panic (v : Bytes) : (Language.fromBytes v).isPanic = false := by
  rw [language_exact]; split <;> rfl
theorem script_no_panic (v : Bytes) : (Script.fromBytes v).isPanic = false := by
  rw [script_exact]; split <;> rfl
theorem region_no_panic (v : Bytes) : (Region.fromBytes v).isPanic = false := by
  rw [region_exact]; split <;> rfl
theorem variant_no_panic (v : Bytes) : (Variant.fromBytes v).isPanic = false := by
  rw [variant_exact]; split <;> rfl

/-- non-vacuity: each production is inhabited and each rejects something -/
example : Language.fromBytes [69, 78] = .ok (some [101, 110]) := by decide          -- "EN" -> "en"
example : Script.fromBytes [108, 65, 84, 78] = .ok [76, 97, 116, 110] := by decide   -- "lATN" -> "Latn"
example : Region.fromBytes [117, 115] = .ok [85, 83] := by decide                    -- "us" -> "US"
example : Variant.fromBytes [49, 65, 98, 67] = .ok [49, 97, 98, 99] := by decide     -- "1AbC" -> "1abc"
example : Variant.fromBytes [97, 98, 99, 100] = .err .invalidSubtag := by decide      -- "abcd"
example : Variant.fromBytes [49, 46, 99, 100] = .err .invalidSubtag := by decide      -- "1.cd"

end UL.Props.C15
