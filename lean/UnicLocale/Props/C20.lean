/-
  Props/C20.lean — optional features are purely additive.

  In the model the statement is structural: the cargo features `likelysubtags`, `serde`, `macros`
  only ADD items (the functions of `Model/Likely`, `Model/Serde`, `Model/Macros`); the single
  `cfg(feature = …)` that sits inside a function body is in `character_direction`, and it is the
  only model function with a configuration parameter (`likely : Bool`).  Parsing, serialising,
  comparing, matching and mutating have no such parameter: `LangId.fromBytes`, `Locale.fromBytes`,
  `display`, `cmpLoc`, `isMatch`, `step` (with the tables fixed) are the same functions in every
  configuration — there is nothing to prove about them, and that absence is the claim.  What a theorem
  can add is the exact extent of the one documented refinement; what decides the property for the
  code is the tie: the same model must correspond to every feature build (the C20 check builds the
  harness against 3 (quick) / all 8 (thorough) feature combinations and compares each transcript
  with the model and with the feature-less build).
-/
import UnicLocale.Props.C14

namespace UL.Props.C20
open UL UL.Dir

/-- the only configuration-dependent function: the two builds of `character_direction` agree
    whenever a listed script decides or the language is not RTL-listed … -/
theorem direction_configs_agree (T : Tables) (L : Layout) (x : LangId)
    (h : x.scriptListed L = true ∨ x.langRtl L = false) :
    LangId.direction false T L x = LangId.direction true T L x :=
  UL.Props.C14.flags_agree T L x h

/-- … so they can differ only for an identifier whose script decides nothing and whose language is
    RTL-listed, and then the feature-less build answers RTL (the documented refinement) -/
theorem direction_configs_differ_only (T : Tables) (L : Layout) (x : LangId)
    (h : LangId.direction false T L x ≠ LangId.direction true T L x) :
    x.scriptListed L = false ∧ (∃ lb, x.language = some lb ∧ L.rtlLangs.contains (pack lb) = true) ∧
      LangId.direction false T L x = .ok .rtl :=
  UL.Props.C14.flags_differ_only T L x h

/-- variants never enter, in either configuration -/
theorem direction_variants_irrelevant (flag : Bool) (T : Tables) (L : Layout) (x : LangId) (v : Option (List Bytes)) :
    LangId.direction flag T L { x with variants := v } = LangId.direction flag T L x :=
  UL.Props.C14.variants_irrelevant flag T L x v

end UL.Props.C20
