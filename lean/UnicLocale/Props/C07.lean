/-
  Props/C07.lean — maximize only adds subtags, fills all three, and is idempotent.

  All theorems are generic in the tables `T`, under `tablesWF T = true` (so they hold for the tables
  of any CLDR version that passes the well-formedness check).  `validTriple l s r` (the subtags are
  stored, canonical values — the only ones the safe API can produce) is assumed exactly where it is
  needed: for "given subtags are unchanged" and "the result is valid".  It is needed there: see the
  witness after `maximize_extends`.
-/
import UnicLocale.Lemmas.MaxMin

namespace UL.Props.C07
open UL UL.Mm UL.Mm.MaxMin

/-! ### (i) `likelysubtags::maximize` -/

/-- never a panic (the `.unwrap()` in `lang_from_parts`), never an error; no validity needed -/
theorem maximize_total (T : Tables) (hT : tablesWF T = true) (l : Language) (s r : Option Bytes) :
    ∃ o, Likely.maximize T l s r = .ok o :=
  maximize_ok hT l s r

example : tablesWF tiny = true := tiny_wf

/-- a `Some` result has all three subtags and the input did not; no validity needed -/
theorem maximize_fills (T : Tables) (hT : tablesWF T = true) (l : Language) (s r : Option Bytes)
    (l' : Language) (s' r' : Option Bytes) (h : Likely.maximize T l s r = .ok (some (l', s', r'))) :
    ¬ (l.isSome = true ∧ s.isSome = true ∧ r.isSome = true) ∧
      l'.isSome = true ∧ s'.isSome = true ∧ r'.isSome = true := by
  obtain ⟨h1, h2⟩ := maximize_some_full hT h
  simp only [isFull, Bool.and_eq_true] at h2
  refine ⟨?_, h2.1.1, h2.1.2, h2.2⟩
  intro ⟨a, b, c⟩
  simp [isFull, a, b, c] at h1

/-- every subtag that was present is unchanged, all three are present afterwards, and the result is
    again a valid triple -/
theorem maximize_extends (T : Tables) (hT : tablesWF T = true) (l : Language) (s r : Option Bytes)
    (hv : validTriple l s r = true)
    (l' : Language) (s' r' : Option Bytes) (h : Likely.maximize T l s r = .ok (some (l', s', r'))) :
    (l.isSome = true → l' = l) ∧ (s.isSome = true → s' = s) ∧ (r.isSome = true → r' = r) ∧
      l'.isSome = true ∧ s'.isSome = true ∧ r'.isSome = true ∧ validTriple l' s' r' = true := by
  obtain ⟨e1, e2, e3, e4⟩ := UL.Mm.maximize_extends hT hv h
  obtain ⟨_, f1, f2, f3⟩ := maximize_fills T hT l s r l' s' r' h
  exact ⟨e1, e2, e3, f1, f2, f3, e4⟩

example : validTriple (some en) none (some gb) = true ∧
    Likely.maximize tiny (some en) none (some gb) = .ok (some (some en, some latn, some gb)) := by decide
example : validTriple (some zh) (some hant) none = true ∧
    Likely.maximize tiny (some zh) (some hant) none = .ok (some (some zh, some hant, some tw)) := by decide
example : validTriple (some zh) none (some de) = true ∧
    Likely.maximize tiny (some zh) none (some de) = .ok (some (some zh, some hans, some de)) := by decide
example : validTriple none (some latn) (some gb) = true ∧
    Likely.maximize tiny none (some latn) (some gb) = .ok (some (some en, some latn, some gb)) := by decide
example : validTriple none (some hant) (some de) = true ∧
    Likely.maximize tiny none (some hant) (some de) = .ok (some (some zh, some hant, some de)) := by decide
example : validTriple none none (some tw) = true ∧
    Likely.maximize tiny none none (some tw) = .ok (some (some zh, some hant, some tw)) := by decide

/-- `validTriple` is necessary for "the language is unchanged": the un-stored language value `und`
    (which `Language::from_bytes` turns into the empty language, so no safe caller holds it) hits
    the `und` row that a well-formed LANG_ONLY table may contain. -/
example : tablesWF tiny = true ∧ validTriple (some [117, 110, 100]) none none = false ∧
    Likely.maximize tiny (some [117, 110, 100]) none none = .ok (some (some en, some latn, some us)) := by
  decide

/-! ### (ii) `LanguageIdentifier::maximize` -/

theorem langid_maximize_total (T : Tables) (hT : tablesWF T = true) (x : LangId) :
    ∃ y b, LangId.maximize T x = .ok (y, b) := by
  obtain ⟨o, ho⟩ := maximize_ok hT x.language x.script x.region
  unfold LangId.maximize
  rw [ho]
  cases o with
  | none => exact ⟨_, _, applyTriple_none x⟩
  | some t => exact ⟨_, _, applyTriple_some x t⟩

/-- the boolean is `true` iff the look-up returned `Some`, and then exactly the three subtag fields
    are assigned from it (no hypothesis on the tables) -/
theorem langid_maximize_flag (T : Tables) (x y : LangId) (b : Bool) (h : LangId.maximize T x = .ok (y, b)) :
    (b = true ↔ ∃ t, Likely.maximize T x.language x.script x.region = .ok (some t)) ∧
    (b = true → ∃ t, Likely.maximize T x.language x.script x.region = .ok (some t) ∧
        y = { x with language := t.1, script := t.2.1, region := t.2.2 }) := by
  rcases applyTriple_ok_inv h with ⟨h1, _, h3⟩ | ⟨t, h1, h2, h3⟩
  · subst h3
    refine ⟨⟨(fun hb => nomatch hb), fun ⟨t, ht⟩ => ?_⟩, (fun hb => nomatch hb)⟩
    rw [h1] at ht; cases ht
  · subst h3
    exact ⟨⟨fun _ => ⟨t, h1⟩, fun _ => rfl⟩, fun _ => ⟨t, h1, h2⟩⟩

/-- a `false` result leaves the identifier unchanged (no hypothesis on the tables) -/
theorem langid_maximize_false (T : Tables) (x y : LangId) (h : LangId.maximize T x = .ok (y, false)) :
    y = x := by
  rcases applyTriple_ok_inv h with ⟨_, h2, _⟩ | ⟨_, _, _, h3⟩
  · exact h2
  · cases h3

example : LangId.maximize tiny { language := some xx, variants := some [[49, 57, 57, 54]] }
    = .ok ({ language := some xx, variants := some [[49, 57, 57, 54]] }, false) := by decide
example : LangId.maximize tiny { language := some en, script := some latn, region := some us }
    = .ok ({ language := some en, script := some latn, region := some us }, false) := by decide

/-- variants are never touched (no hypothesis on the tables) -/
theorem langid_maximize_variants (T : Tables) (x y : LangId) (b : Bool) (h : LangId.maximize T x = .ok (y, b)) :
    y.variants = x.variants := by
  rcases applyTriple_ok_inv h with ⟨_, h2, _⟩ | ⟨t, _, h2, _⟩
  · rw [h2]
  · rw [h2]; rfl

/-- a `true` result: all three subtags are present afterwards, and something changed (not all
    three were present before).  No validity needed. -/
theorem langid_maximize_true (T : Tables) (hT : tablesWF T = true) (x y : LangId)
    (h : LangId.maximize T x = .ok (y, true)) :
    y.language.isSome = true ∧ y.script.isSome = true ∧ y.region.isSome = true ∧
      ¬ (x.language.isSome = true ∧ x.script.isSome = true ∧ x.region.isSome = true) ∧ y ≠ x := by
  rcases applyTriple_ok_inv h with ⟨_, _, h3⟩ | ⟨t, h1, h2, _⟩
  · cases h3
  · obtain ⟨tl, ts, tr⟩ := t
    obtain ⟨hn, f1, f2, f3⟩ := maximize_fills T hT _ _ _ _ _ _ h1
    subst h2
    refine ⟨f1, f2, f3, hn, ?_⟩
    intro heq
    apply hn
    rw [← heq]
    exact ⟨f1, f2, f3⟩

/-- a `true` result on a valid identifier: every subtag that was present is unchanged, and the new
    triple is valid -/
theorem langid_maximize_keeps (T : Tables) (hT : tablesWF T = true) (x y : LangId)
    (hv : validTriple x.language x.script x.region = true)
    (h : LangId.maximize T x = .ok (y, true)) :
    (x.language.isSome = true → y.language = x.language) ∧
    (x.script.isSome = true → y.script = x.script) ∧
    (x.region.isSome = true → y.region = x.region) ∧
    validTriple y.language y.script y.region = true := by
  rcases applyTriple_ok_inv h with ⟨_, _, h3⟩ | ⟨t, h1, h2, _⟩
  · cases h3
  · obtain ⟨e1, e2, e3, e4⟩ := UL.Mm.maximize_extends hT hv h1
    subst h2
    exact ⟨e1, e2, e3, e4⟩

example : validTriple (some en) none (some gb) = true ∧
    LangId.maximize tiny { language := some en, region := some gb, variants := some [[49, 57, 57, 54]] }
    = .ok ({ language := some en, script := some latn, region := some gb, variants := some [[49, 57, 57, 54]] }, true) := by
  decide

/-! ### (iii) maximizing an already maximized identifier changes nothing -/

/-- after any successful call, a second call returns `false` and the same value -/
theorem maximize_idem (T : Tables) (hT : tablesWF T = true) (x y : LangId) (b : Bool)
    (h : LangId.maximize T x = .ok (y, b)) : LangId.maximize T y = .ok (y, false) := by
  cases b with
  | false =>
    have := langid_maximize_false T x y h
    subst this; exact h
  | true =>
    obtain ⟨f1, f2, f3, _⟩ := langid_maximize_true T hT x y h
    unfold LangId.maximize
    rw [maximize_of_full (by simp [isFull, f1, f2, f3])]
    rfl

theorem maximize_idem_true (T : Tables) (hT : tablesWF T = true) (x y : LangId)
    (h : LangId.maximize T x = .ok (y, true)) : LangId.maximize T y = .ok (y, false) :=
  maximize_idem T hT x y true h

example : LangId.maximize tiny { script := some hant, region := some de }
    = .ok ({ language := some zh, script := some hant, region := some de }, true) := by decide

/-! ### (iv) lifted to `Locale` -/

/-- `Locale::maximize` = `self.id.maximize()`: the id is replaced by the maximized id, everything
    else is as before, and the call reports the boolean -/
theorem locale_maximize (T : Tables) (hT : tablesWF T = true) (x : Locale) :
    ∃ y b, LangId.maximize T x.id = .ok (y, b) ∧
      step T x .maximize = ({ x with id := y }, .bool b) := by
  obtain ⟨y, b, h⟩ := langid_maximize_total T hT x.id
  refine ⟨y, b, h, ?_⟩
  rw [step_maximize, h]
  rfl

/-- extensions are never touched (whatever the tables) -/
theorem locale_maximize_ext (T : Tables) (x : Locale) : (step T x .maximize).1.ext = x.ext := by
  rw [step_maximize]
  cases h : LangId.maximize T x.id with
  | ok p => rfl
  | err e => rfl
  | panic => rfl

/-- variants are never touched (whatever the tables) -/
theorem locale_maximize_variants (T : Tables) (x : Locale) :
    (step T x .maximize).1.id.variants = x.id.variants := by
  rw [step_maximize]
  cases h : LangId.maximize T x.id with
  | ok p =>
    obtain ⟨y, b⟩ := p
    exact langid_maximize_variants T x.id y b h
  | err e => rfl
  | panic => rfl

/-- a `false` report leaves the whole locale unchanged; a `true` report changed it -/
theorem locale_maximize_report (T : Tables) (hT : tablesWF T = true) (x : Locale) :
    ((step T x .maximize).2 = .bool false ∧ (step T x .maximize).1 = x) ∨
    ((step T x .maximize).2 = .bool true ∧ (step T x .maximize).1 ≠ x ∧
      (step T x .maximize).1.id.language.isSome = true ∧ (step T x .maximize).1.id.script.isSome = true ∧
      (step T x .maximize).1.id.region.isSome = true) := by
  obtain ⟨y, b, h, hs⟩ := locale_maximize T hT x
  rw [hs]
  cases b with
  | false =>
    have := langid_maximize_false T x.id y h
    subst this
    exact Or.inl ⟨rfl, rfl⟩
  | true =>
    obtain ⟨f1, f2, f3, _, hne⟩ := langid_maximize_true T hT x.id y h
    refine Or.inr ⟨rfl, ?_, f1, f2, f3⟩
    intro heq
    exact hne (congrArg Locale.id heq)

/-- maximizing twice = maximizing once, and the second call reports `false` -/
theorem locale_maximize_idem (T : Tables) (hT : tablesWF T = true) (x : Locale) :
    step T (step T x .maximize).1 .maximize = ((step T x .maximize).1, .bool false) := by
  obtain ⟨y, b, h, hs⟩ := locale_maximize T hT x
  rw [hs]
  have h2 := maximize_idem T hT x.id y b h
  rw [step_maximize]
  simp only [h2]
  rfl

example : step tiny { id := { language := some en }, ext := { priv := [[97, 98]] } } .maximize
    = ({ id := { language := some en, script := some latn, region := some us }, ext := { priv := [[97, 98]] } },
       .bool true) := by decide

end UL.Props.C07
