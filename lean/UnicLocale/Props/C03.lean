/-
  Props/C03.lean — `Locale::from_bytes` accepts every well-formed locale id and never silently
  drops or reinterprets input (property C03).

  The oracle is the independent three-zone reader of `Spec/Locale.lean`:
  `Spec.readLocale true` reads exactly the strict grammar (language id, at most one `-u-` and one
  `-t-` in either order, trailing `-x-`, any case); `Spec.readLocale false ∘ Spec.strip` reads the
  relaxation the property leaves open (empty extension bodies, empty subtags at extension
  boundaries, tfields without value, well-formed *other* extensions).  `concreteLoc v` is the value
  the model stores for the abstract value `v`.  All proofs are in `Lemmas/ExtChar.lean` (the
  characterisation of the three extension loops) and `Lemmas/ExtZones.lean` (the two simulations).
-/
import UnicLocale.Lemmas.ExtZones

namespace UL.Props.C03
open UL UL.Ez

/-! ### (a) MUST ACCEPT -/

/-- Every token list the strict grammar reads is accepted, and the value holds exactly the
    subtags that were read, in normalised form.  No hypothesis on duplicate keys is needed: both
    sides are "last one wins". -/
theorem must_accept (ts : List Bytes) (st : Spec.SecState)
    (h : Spec.readLocale true ts = some st) : Locale.parse ts = .ok (concreteLoc st.v) :=
  accept_tokens h

/-- byte level -/
theorem must_accept_bytes (bs : Bytes) (st : Spec.SecState)
    (h : Spec.readLocale true (splitSep bs) = some st) :
    Locale.fromBytes bs = .ok (concreteLoc st.v) :=
  accept_tokens h

/-- zone form: on the must-accept zone the model returns the oracle's expected value -/
theorem zone_accept (ts : List Bytes) (v : Spec.LocV) (h : Spec.zoneOfTokens ts = .accept v) :
    Locale.parse ts = .ok (concreteLoc v) := by
  obtain ⟨st, h1, h2⟩ := Spec.zone_accept_inv h
  rw [← h2]
  exact accept_tokens h1

theorem zone_accept_bytes (bs : Bytes) (v : Spec.LocV) (h : Spec.zone bs = .accept v) :
    Locale.fromBytes bs = .ok (concreteLoc v) :=
  zone_accept (splitSep bs) v h

/-- non-vacuity (any case, both separators, every section):
    `EN_latn_us-macos-T-ES-ar-H0-Hybrid-U-Attr-CA-Buddhist-X-Priv-a` is read by the strict grammar and lies
    in the must-accept zone -/
example : (Spec.readLocale true (splitSep [69,78,95,108,97,116,110,95,117,115,45,109,97,99,111,115,45,84,45,69,83,45,97,114,45,72,48,45,72,121,98,114,105,100,45,85,45,65,116,116,114,45,67,65,45,66,117,100,100,104,105,115,116,45,88,45,80,114,105,118,45,97])).isSome = true ∧
    (Spec.zone [69,78,95,108,97,116,110,95,117,115,45,109,97,99,111,115,45,84,45,69,83,45,97,114,45,72,48,45,72,121,98,114,105,100,45,85,45,65,116,116,114,45,67,65,45,66,117,100,100,104,105,115,116,45,88,45,80,114,105,118,45,97]).acceptValue.isSome = true := by
  decide

/-! ### (b) NEVER DROPS, NEVER REINTERPRETS

  Full token-level statement:  `∀ ts x, Locale.parse ts = .ok x → ∃ st, Spec.readLocale false
  (Spec.strip ts) = some st ∧ x = concreteLoc st.v`.  It is FALSE at exactly one point, the empty
  token LIST `ts = []` (witness below): `[]` is no result of `splitSep` (the empty byte string
  splits into `[[]]`), the model's `LangId.parseIter [] = ok und` mirrors an iterator that is empty
  from the start, and the reader rejects it.  The token-level theorems therefore carry the explicit
  hypothesis `ts ≠ []` and are named `…_partial`; the byte-level theorems (`…_bytes`), which are
  the statements about `Locale::from_bytes`, are unconditional. -/

/-- `Locale.parse [] = ok {}` although no reader accepts `[]`: why `ts ≠ []` is there -/
example : Locale.parse [] = .ok {} ∧ Spec.readLocale false (Spec.strip []) = none ∧
    (Spec.zoneOfTokens []).isReject = true := by decide

/-- Whatever is accepted is read exactly as the relaxed grammar reads the input with its
    boundary-empty subtags removed. -/
theorem never_drops_partial (ts : List Bytes) (hne : ts ≠ []) (x : Locale)
    (h : Locale.parse ts = .ok x) :
    ∃ st, Spec.readLocale false (Spec.strip ts) = some st ∧ x = concreteLoc st.v :=
  nodrop_tokens hne h

theorem never_drops_bytes (bs : Bytes) (x : Locale) (h : Locale.fromBytes bs = .ok x) :
    ∃ st, Spec.readLocale false (Spec.strip (splitSep bs)) = some st ∧ x = concreteLoc st.v :=
  nodrop_tokens (splitSep_ne_nil bs) h

/-- non-vacuity: `en--u-ca-` is accepted ("as if the emptiness were absent") -/
example : (Locale.fromBytes [101,110,45,45,117,45,99,97,45]).isOk = true ∧
    splitSep [101,110,45,45,117,45,99,97,45] ≠ [] := by decide

/-- totality: parsing never panics (the fuel of the dispatch loop suffices: every iteration
    consumes at least one subtag) -/
theorem no_panic (ts : List Bytes) : Locale.parse ts ≠ .panic := Locale.parse_no_panic ts

/-- MUST REJECT: no relaxed reading of the stripped input ⇒ an error -/
theorem must_reject_partial (ts : List Bytes) (hne : ts ≠ [])
    (h : Spec.readLocale false (Spec.strip ts) = none) : ∃ e, Locale.parse ts = .err e := by
  cases hp : Locale.parse ts with
  | err e => exact ⟨e, rfl⟩
  | panic => exact absurd hp (Locale.parse_no_panic ts)
  | ok x =>
    obtain ⟨st, h1, _⟩ := nodrop_tokens hne hp
    rw [h] at h1
    cases h1

theorem must_reject_bytes (bs : Bytes)
    (h : Spec.readLocale false (Spec.strip (splitSep bs)) = none) :
    ∃ e, Locale.fromBytes bs = .err e :=
  must_reject_partial (splitSep bs) (splitSep_ne_nil bs) h

/-- non-vacuity: `en-u1-ca` has no relaxed reading -/
example : Spec.readLocale false (Spec.strip (splitSep [101,110,45,117,49,45,99,97])) = none ∧
    splitSep [101,110,45,117,49,45,99,97] ≠ [] := by decide

/-- zone form -/
theorem zone_reject_partial (ts : List Bytes) (hne : ts ≠ [])
    (h : Spec.zoneOfTokens ts = .reject) :
    (Locale.parse ts).isOk = false := by
  obtain ⟨e, he⟩ := must_reject_partial ts hne (Spec.zone_reject_inv h).2
  rw [he]
  rfl

theorem zone_reject_bytes (bs : Bytes) (h : Spec.zone bs = .reject) :
    (Locale.fromBytes bs).isOk = false :=
  zone_reject_partial (splitSep bs) (splitSep_ne_nil bs) h

/-- non-vacuity: `en-u1-ca` is in the must-reject zone -/
example : Spec.zone [101,110,45,117,49,45,99,97] = .reject :=
  Spec.Zone.eq_reject_of_isReject (by decide)

/-- in the *either* zone the model may reject, but if it accepts it returns the oracle's value -/
theorem zone_either_partial (ts : List Bytes) (hne : ts ≠ []) (v : Spec.LocV)
    (h : Spec.zoneOfTokens ts = .either v) (x : Locale) (hx : Locale.parse ts = .ok x) :
    x = concreteLoc v := by
  obtain ⟨_, st, h1, h2⟩ := Spec.zone_either_inv h
  obtain ⟨st', h3, h4⟩ := nodrop_tokens hne hx
  rw [h1] at h3
  injection h3 with h3
  rw [h4, ← h3, h2]

theorem zone_either_bytes (bs : Bytes) (v : Spec.LocV) (h : Spec.zone bs = .either v)
    (x : Locale) (hx : Locale.fromBytes bs = .ok x) : x = concreteLoc v :=
  zone_either_partial (splitSep bs) (splitSep_ne_nil bs) v h x hx

/-- non-vacuity: `en--u-ca-` lies in the *either* zone, is accepted, and with the oracle's value -/
example : (Spec.zone [101,110,45,45,117,45,99,97,45]).eitherValue.isSome = true ∧
    (Spec.zone [101,110,45,45,117,45,99,97,45]).eitherValue.map concreteLoc
      = (Locale.fromBytes [101,110,45,45,117,45,99,97,45]).toOption ∧
    (Locale.fromBytes [101,110,45,45,117,45,99,97,45]).isOk = true := by decide

/-! ### the clauses of the statement, pinned on concrete inputs (model result and zone) -/

/-- malformed subtag: `en-u-ca-f.o` -/
example : (Spec.zone [101,110,45,117,45,99,97,45,102,46,111]).isReject = true ∧
    Locale.fromBytes [101,110,45,117,45,99,97,45,102,46,111] = .err .invalidExtension := by decide

/-- over-long subtag: `en-u-ca-abcdefghi` -/
example : (Spec.zone [101,110,45,117,45,99,97,45,97,98,99,100,101,102,103,104,105]).isReject = true ∧
    Locale.fromBytes [101,110,45,117,45,99,97,45,97,98,99,100,101,102,103,104,105] = .err .invalidExtension := by decide

/-- misplaced subtag: `en-US-Latn` -/
example : (Spec.zone [101,110,45,85,83,45,76,97,116,110]).isReject = true ∧
    Locale.fromBytes [101,110,45,85,83,45,76,97,116,110] = .err .invalidExtension := by decide

/-- multi-character singleton: `en-u1-ca` -/
example : (Spec.zone [101,110,45,117,49,45,99,97]).isReject = true ∧
    Locale.fromBytes [101,110,45,117,49,45,99,97] = .err .invalidExtension := by decide

/-- repeated singleton: `en-u-ca-foo-u-nu-bar` -/
example : (Spec.zone [101,110,45,117,45,99,97,45,102,111,111,45,117,45,110,117,45,98,97,114]).isReject = true ∧
    Locale.fromBytes [101,110,45,117,45,99,97,45,102,111,111,45,117,45,110,117,45,98,97,114] = .err .invalidExtension := by decide

/-- second tlang: `en-t-es-AR-fr` -/
example : (Spec.zone [101,110,45,116,45,101,115,45,65,82,45,102,114]).isReject = true ∧
    Locale.fromBytes [101,110,45,116,45,101,115,45,65,82,45,102,114] = .err .invalidExtension := by decide

/-- singleton other than t/u/x without a well-formed body: `en-a` -/
example : (Spec.zone [101,110,45,97]).isReject = true ∧
    Locale.fromBytes [101,110,45,97] = .err .invalidExtension := by decide

/-- empty subtag not at an extension boundary: `en--US` -/
example : (Spec.zone [101,110,45,45,85,83]).isReject = true ∧
    Locale.fromBytes [101,110,45,45,85,83] = .err .invalidExtension := by decide

/-- singleton other than t/u/x with a well-formed body, `en-a-foo`: the model rejects; the oracle
    puts it in the *either* zone ("well-formed other extensions may be rejected or supported") -/
example : Locale.fromBytes [101,110,45,97,45,102,111,111] = .err .invalidExtension ∧
    (Spec.zone [101,110,45,97,45,102,111,111]).isReject = false ∧
    (Spec.zone [101,110,45,97,45,102,111,111]).acceptValue = none := by decide

/-- `-u-` before `-t-` and `-t-` before `-u-`: both in the must-accept zone, accepted, same value
    (`en-u-ca-foo-t-es-AR-h0-hybrid`, `en-t-es-AR-h0-hybrid-u-ca-foo`) -/
example :
    Locale.fromBytes [101,110,45,117,45,99,97,45,102,111,111,45,116,45,101,115,45,65,82,45,104,48,45,104,121,98,114,105,100]
      = .ok { id := { language := some [101,110] },
              ext := { unicode := { keywords := [([99,97], [[102,111,111]])] },
                       transform := { tlang := some { language := some [101,115], region := some [65,82] },
                                      tfields := [([104,48], [[104,121,98,114,105,100]])] } } } ∧
    Locale.fromBytes [101,110,45,116,45,101,115,45,65,82,45,104,48,45,104,121,98,114,105,100,45,117,45,99,97,45,102,111,111]
      = Locale.fromBytes [101,110,45,117,45,99,97,45,102,111,111,45,116,45,101,115,45,65,82,45,104,48,45,104,121,98,114,105,100] ∧
    ((Spec.zone [101,110,45,117,45,99,97,45,102,111,111,45,116,45,101,115,45,65,82,45,104,48,45,104,121,98,114,105,100]).acceptValue.map concreteLoc
      = (Locale.fromBytes [101,110,45,117,45,99,97,45,102,111,111,45,116,45,101,115,45,65,82,45,104,48,45,104,121,98,114,105,100]).toOption) ∧
    (Spec.zone [101,110,45,116,45,101,115,45,65,82,45,104,48,45,104,121,98,114,105,100,45,117,45,99,97,45,102,111,111]).acceptValue
      = (Spec.zone [101,110,45,117,45,99,97,45,102,111,111,45,116,45,101,115,45,65,82,45,104,48,45,104,121,98,114,105,100]).acceptValue ∧
    (Spec.zone [101,110,45,116,45,101,115,45,65,82,45,104,48,45,104,121,98,114,105,100,45,117,45,99,97,45,102,111,111]).acceptValue.isSome = true := by decide

/-- duplicate keyword keys are outside the property for the oracle; the model and the strict
    reader nevertheless agree (last one wins): `en-u-ca-foo-ca-bar` -/
example : (Spec.readLocale true (splitSep [101,110,45,117,45,99,97,45,102,111,111,45,99,97,45,98,97,114])).map (fun st => concreteLoc st.v)
    = (Locale.fromBytes [101,110,45,117,45,99,97,45,102,111,111,45,99,97,45,98,97,114]).toOption ∧
    (Locale.fromBytes [101,110,45,117,45,99,97,45,102,111,111,45,99,97,45,98,97,114]).isOk = true := by decide

end UL.Props.C03
