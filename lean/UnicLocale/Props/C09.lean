/-
  Props/C09.lean — parsing ignores case, separator choice and the order of unordered parts.

  Part (i)  : for ALL byte strings.  Two inputs that agree after the byte normalisation `norm`
              (`_` ↦ `-`, upper ↦ lower case) give the SAME result — the same value, or the same
              error code (stronger than "both fail"): `Locale`, `LanguageIdentifier`,
              `ExtensionsMap`, and the four subtag constructors (w.r.t. `lower`).
  Part (ii) : on token lists (`Locale.fromBytes bs = Locale.parse (splitSep bs)` by definition),
              with an ARBITRARY continuation `post` (well- or ill-formed) and, for the extension
              sections, an ARBITRARY prefix `P` that contains no private-use singleton `x`:
              (a) order / repetition of variants (of the identifier and of a tlang),
              (b) order / repetition of `-u-` attributes,
              (c) order of `-u-` keyword groups with pairwise distinct keys,
              (d) order of `-t-` field groups with pairwise distinct keys,
              (e) relative order of the `-u-…` and `-t-…` sections.
              All conclusions are equalities of `Res Locale` (same value or same error code),
              which gives the property's form `Agree` ("both fail, or equal values with equal
              `display`") by `agree_of_eq`.  For (e) with ill-formed bodies the error codes can
              differ (witness below); there the property's form is proved directly.
-/
import UnicLocale.Lemmas.Norm
import UnicLocale.Lemmas.Unordered

namespace UL.Props.C09
open UL UL.Norm UL.Unordered

/-- the property's conclusion: both fail to parse, or both parse to equal values with identical
    `to_string()` -/
def Agree (r r' : Res Locale) : Prop :=
  (r.isOk = false ∧ r'.isOk = false) ∨
  ∃ x x', r = .ok x ∧ r' = .ok x' ∧ x = x' ∧ Locale.display x = Locale.display x'

/-- equal results agree (every equality below can be read in the property's form) -/
theorem agree_of_eq {r r' : Res Locale} (h : r = r') : Agree r r' := by
  subst h
  cases r with
  | ok x => exact .inr ⟨x, x, rfl, rfl, rfl, rfl⟩
  | err e => exact .inl ⟨rfl, rfl⟩
  | panic => exact .inl ⟨rfl, rfl⟩

theorem agree_of_bothFailOrEq {r r' : Res Locale} (h : BothFailOrEq r r') : Agree r r' := by
  rcases h with h | h
  · exact agree_of_eq h
  · exact .inl h

/-! ## (i) case and separators — all byte strings -/

/-- what "equal after `norm`" means byte by byte: the same byte, two separators, or the two cases of
    one ASCII letter -/
theorem norm_eq_iff (b b' : Nat) :
    norm b = norm b' ↔
      b = b' ∨ (isSep b = true ∧ isSep b' = true) ∨
      (isAlpha b = true ∧ isAlpha b' = true ∧ (b = b' + 32 ∨ b' = b + 32)) :=
  Norm.norm_eq_iff b b'

/-- splitting commutes with the normalisation -/
theorem split_norm (bs : Bytes) : splitSep (bs.map norm) = (splitSep bs).map lower :=
  splitSep_map_norm bs

/-- `Locale::from_bytes`: same result (same value or same error) on inputs equal up to case and
    separator choice -/
theorem locale_case_sep (bs bs' : Bytes) (h : bs.map norm = bs'.map norm) :
    Locale.fromBytes bs = Locale.fromBytes bs' := by
  unfold Locale.fromBytes
  rw [← Locale.parse_lower (splitSep bs), ← Locale.parse_lower (splitSep bs'), splitSep_lower_congr h]

/-- `LanguageIdentifier::from_bytes` likewise -/
theorem langid_case_sep (bs bs' : Bytes) (h : bs.map norm = bs'.map norm) :
    LangId.fromBytes bs = LangId.fromBytes bs' := by
  unfold LangId.fromBytes
  rw [← LangId.parseIter_false_lower (splitSep bs), ← LangId.parseIter_false_lower (splitSep bs'),
    splitSep_lower_congr h]

/-- `ExtensionsMap::from_bytes` likewise -/
theorem extmap_case_sep (bs bs' : Bytes) (h : bs.map norm = bs'.map norm) :
    ExtMap.fromBytes bs = ExtMap.fromBytes bs' := by
  unfold ExtMap.fromBytes
  rw [← ExtMap.parseIter_lower (splitSep bs), ← ExtMap.parseIter_lower (splitSep bs'),
    splitSep_lower_congr h]

/-- the property's form of `locale_case_sep` -/
theorem locale_case_sep_agree (bs bs' : Bytes) (h : bs.map norm = bs'.map norm) :
    Agree (Locale.fromBytes bs) (Locale.fromBytes bs') := agree_of_eq (locale_case_sep bs bs' h)

/-- the already-split form: the parser does not see the case of its subtags -/
theorem parse_case (ts ts' : List Bytes) (h : ts.map lower = ts'.map lower) :
    Locale.parse ts = Locale.parse ts' := by
  rw [← Locale.parse_lower ts, ← Locale.parse_lower ts', h]

/-- the subtag constructors do not see case -/
theorem language_case (t t' : Bytes) (h : lower t = lower t') :
    Language.fromBytes t = Language.fromBytes t' := by
  rw [← language_lower t, ← language_lower t', h]
theorem script_case (t t' : Bytes) (h : lower t = lower t') :
    Script.fromBytes t = Script.fromBytes t' := by
  rw [← script_lower t, ← script_lower t', h]
theorem region_case (t t' : Bytes) (h : lower t = lower t') :
    Region.fromBytes t = Region.fromBytes t' := by
  rw [← region_lower t, ← region_lower t', h]
theorem variant_case (t t' : Bytes) (h : lower t = lower t') :
    Variant.fromBytes t = Variant.fromBytes t' := by
  rw [← variant_lower t, ← variant_lower t', h]

/-- non-vacuity: "EN_latn-us-VALENCIA" and "en-Latn-US-valencia" are equal after `norm`, and parse
    (to en-Latn-US-valencia) -/
example : ([69, 78, 95, 108, 97, 116, 110, 45, 117, 115, 45, 86, 65, 76, 69, 78, 67, 73, 65] : Bytes).map norm =
    ([101, 110, 45, 76, 97, 116, 110, 45, 85, 83, 45, 118, 97, 108, 101, 110, 99, 105, 97] : Bytes).map norm := by
  decide
example : Locale.fromBytes [69, 78, 95, 108, 97, 116, 110, 45, 117, 115, 45, 86, 65, 76, 69, 78, 67, 73, 65] =
    .ok { id := { language := some [101, 110], script := some [76, 97, 116, 110], region := some [85, 83],
                  variants := some [[118, 97, 108, 101, 110, 99, 105, 97]] }, ext := {} } := by decide
/-- "EN-U-CA-BUDDHIST_x_ABC" and "en-u-ca-buddhist-x-abc" -/
example : Locale.fromBytes [69, 78, 45, 85, 45, 67, 65, 45, 66, 85, 68, 68, 72, 73, 83, 84, 95, 120, 95, 65, 66, 67] =
    Locale.fromBytes [101, 110, 45, 117, 45, 99, 97, 45, 98, 117, 100, 100, 104, 105, 115, 116, 45, 120, 45, 97, 98, 99] :=
  locale_case_sep _ _ (by decide)
/-- … and a rejected pair: "E1_US" / "e1-us" (same error code) -/
example : Locale.fromBytes [69, 49, 95, 85, 83] = Locale.fromBytes [101, 49, 45, 117, 115] :=
  locale_case_sep _ _ (by decide)
example : Locale.fromBytes [101, 49, 45, 117, 115] = .err .invalidLanguage := by decide
example : LangId.fromBytes [69, 78, 95, 117, 115] = LangId.fromBytes [101, 110, 45, 85, 83] :=
  langid_case_sep _ _ (by decide)
example : LangId.fromBytes [101, 110, 45, 85, 83] = .ok { language := some [101, 110], region := some [85, 83] } := by
  decide
/-- "_U_CA" / "-u-ca" -/
example : ExtMap.fromBytes [95, 85, 95, 67, 65] = ExtMap.fromBytes [45, 117, 45, 99, 97] :=
  extmap_case_sep _ _ (by decide)
example : ExtMap.fromBytes [45, 117, 45, 99, 97] = .ok { unicode := { keywords := [([99, 97], [])] } } := by decide
example : Locale.parse [[69, 78], [85, 83]] = Locale.parse [[101, 110], [117, 115]] := parse_case _ _ (by decide)
example : Language.fromBytes [69, 78] = Language.fromBytes [101, 110] := language_case _ _ (by decide)
example : Script.fromBytes [108, 65, 84, 78] = Script.fromBytes [76, 97, 116, 110] := script_case _ _ (by decide)
example : Region.fromBytes [117, 83] = Region.fromBytes [85, 115] := region_case _ _ (by decide)
example : Variant.fromBytes [49, 65, 98, 67] = Variant.fromBytes [49, 97, 66, 99] := variant_case _ _ (by decide)

/-! ## (ii) the unordered parts — token lists, arbitrary continuation -/

/-! ### (a) variants -/

/-- **variants of the identifier.**  After `language script? region?` and any variants `pv`, a run
    of variant-shaped subtags may be reordered and its elements repeated (same set of lower-cased
    elements): the result is the same, whatever `l` is and whatever follows (`post` arbitrary; it
    may start with further variants).  Variant-shaped subtags are never script- or region-shaped
    (`isVariant_not_script`, `isVariant_not_region`), so `s = none`, `r = none` are fine. -/
theorem variants_order (l : Bytes) (s r : Option Bytes) (pv vs vs' post : List Bytes)
    (hs : ∀ t ∈ s, Spec.isScript t = true) (hr : ∀ t ∈ r, Spec.isRegion t = true)
    (hpv : ∀ t ∈ pv, Spec.isVariant t = true)
    (hvs : ∀ t ∈ vs, Spec.isVariant t = true) (hvs' : ∀ t ∈ vs', Spec.isVariant t = true)
    (hset : ∀ x, x ∈ vs.map lower ↔ x ∈ vs'.map lower) :
    Locale.parse (l :: (s.toList ++ r.toList ++ pv ++ vs ++ post)) =
    Locale.parse (l :: (s.toList ++ r.toList ++ pv ++ vs' ++ post)) := by
  unfold Locale.parse
  rw [LangId.parseIter_variants true l s r pv vs vs' post hs hr hpv hvs hvs' hset]

/-- the same for `LanguageIdentifier` (`allowExt = false`: `LangId.fromBytes`) -/
theorem variants_order_langid (l : Bytes) (s r : Option Bytes) (pv vs vs' post : List Bytes)
    (hs : ∀ t ∈ s, Spec.isScript t = true) (hr : ∀ t ∈ r, Spec.isRegion t = true)
    (hpv : ∀ t ∈ pv, Spec.isVariant t = true)
    (hvs : ∀ t ∈ vs, Spec.isVariant t = true) (hvs' : ∀ t ∈ vs', Spec.isVariant t = true)
    (hset : ∀ x, x ∈ vs.map lower ↔ x ∈ vs'.map lower) :
    (LangId.parseIter (l :: (s.toList ++ r.toList ++ pv ++ vs ++ post)) false).map (·.1) =
    (LangId.parseIter (l :: (s.toList ++ r.toList ++ pv ++ vs' ++ post)) false).map (·.1) := by
  rw [LangId.parseIter_variants false l s r pv vs vs' post hs hr hpv hvs hvs' hset]

/-- **variants of a tlang**, after any prefix `P` without a private-use singleton: `t` is the
    transform singleton, `l` a 2–8 letter subtag -/
theorem variants_order_tlang (P : List Bytes) (t l : Bytes) (s r : Option Bytes) (pv vs vs' post : List Bytes)
    (hP : NoX P) (ht : lower t = [116]) (hl : Spec.rep isAlpha 2 8 l = true)
    (hs : ∀ t ∈ s, Spec.isScript t = true) (hr : ∀ t ∈ r, Spec.isRegion t = true)
    (hpv : ∀ t ∈ pv, Spec.isVariant t = true)
    (hvs : ∀ t ∈ vs, Spec.isVariant t = true) (hvs' : ∀ t ∈ vs', Spec.isVariant t = true)
    (hset : ∀ x, x ∈ vs.map lower ↔ x ∈ vs'.map lower) :
    Locale.parse (P ++ t :: l :: (s.toList ++ r.toList ++ pv ++ vs ++ post)) =
    Locale.parse (P ++ t :: l :: (s.toList ++ r.toList ++ pv ++ vs' ++ post)) := by
  obtain ⟨b, rfl, hb⟩ := singleton_of_lower ht
  exact Locale.parse_congr P hP b b _ _ fun m su st =>
    run_t_congr b hb (TExt.parseIter_variants l s r pv vs vs' post hl hs hr hpv hvs hvs' hset) m su st

/-- non-vacuity: "en-Latn-US-valencia-1996-…" vs "en-Latn-US-1996-valencia-1996-…" -/
example (post : List Bytes) :
    Locale.parse ([101, 110] :: ((some [76, 97, 116, 110]).toList ++ (some [85, 83]).toList ++ [] ++
        [[118, 97, 108, 101, 110, 99, 105, 97], [49, 57, 57, 54]] ++ post)) =
    Locale.parse ([101, 110] :: ((some [76, 97, 116, 110]).toList ++ (some [85, 83]).toList ++ [] ++
        [[49, 57, 57, 54], [118, 97, 108, 101, 110, 99, 105, 97], [49, 57, 57, 54]] ++ post)) :=
  variants_order _ _ _ _ _ _ _ (by decide) (by decide) (by decide) (by decide) (by decide)
    (same_set_of_subsets (by decide) (by decide))
example (post : List Bytes) :
    (LangId.parseIter ([101, 110] :: ((none : Option Bytes).toList ++ (none : Option Bytes).toList ++ [] ++
        [[118, 97, 108, 101, 110, 99, 105, 97], [49, 57, 57, 54]] ++ post)) false).map (·.1) =
    (LangId.parseIter ([101, 110] :: ((none : Option Bytes).toList ++ (none : Option Bytes).toList ++ [] ++
        [[49, 57, 57, 54], [118, 97, 108, 101, 110, 99, 105, 97]] ++ post)) false).map (·.1) :=
  variants_order_langid _ _ _ _ _ _ _ (by decide) (by decide) (by decide) (by decide) (by decide)
    (same_set_of_subsets (by decide) (by decide))
/-- "en-t-es-AR-valencia-1996-…" vs "en-t-es-AR-1996-valencia-1996-…" -/
example (post : List Bytes) :
    Locale.parse ([[101, 110]] ++ [116] :: [101, 115] :: ((none : Option Bytes).toList ++ (some [65, 82]).toList ++ [] ++
        [[118, 97, 108, 101, 110, 99, 105, 97], [49, 57, 57, 54]] ++ post)) =
    Locale.parse ([[101, 110]] ++ [116] :: [101, 115] :: ((none : Option Bytes).toList ++ (some [65, 82]).toList ++ [] ++
        [[49, 57, 57, 54], [118, 97, 108, 101, 110, 99, 105, 97], [49, 57, 57, 54]] ++ post)) :=
  variants_order_tlang _ _ _ _ _ _ _ _ _ (by decide) (by decide) (by decide) (by decide) (by decide)
    (by decide) (by decide) (by decide) (same_set_of_subsets (by decide) (by decide))
/-- "EN_latn-us-VALENCIA-1996" vs "en-Latn-US-1996-valencia-1996": case, separator, order and
    repetition together; both parse to en-Latn-US-1996-valencia -/
example : Locale.fromBytes [69, 78, 95, 108, 97, 116, 110, 45, 117, 115, 45, 86, 65, 76, 69, 78, 67, 73, 65, 45, 49, 57, 57, 54] =
    Locale.fromBytes [101, 110, 45, 76, 97, 116, 110, 45, 85, 83, 45, 49, 57, 57, 54, 45, 118, 97, 108, 101, 110, 99, 105, 97, 45, 49, 57, 57, 54] := by
  decide
example : (Locale.fromBytes [69, 78, 95, 108, 97, 116, 110, 45, 117, 115, 45, 86, 65, 76, 69, 78, 67, 73, 65, 45, 49, 57, 57, 54]).map Locale.display =
    .ok [101, 110, 45, 76, 97, 116, 110, 45, 85, 83, 45, 49, 57, 57, 54, 45, 118, 97, 108, 101, 110, 99, 105, 97] := by
  decide

/-! ### (b) `-u-` attributes -/

/-- **attributes.**  After any prefix `P` without a private-use singleton and the unicode singleton
    `u`, a run of attribute-shaped subtags may be reordered and its elements repeated. -/
theorem attributes_order (P : List Bytes) (u : Bytes) (as as' post : List Bytes)
    (hP : NoX P) (hu : lower u = [117])
    (has : ∀ a ∈ as, Spec.isAttr a = true) (has' : ∀ a ∈ as', Spec.isAttr a = true)
    (hset : ∀ x, x ∈ as.map lower ↔ x ∈ as'.map lower) :
    Locale.parse (P ++ u :: (as ++ post)) = Locale.parse (P ++ u :: (as' ++ post)) := by
  obtain ⟨b, rfl, hb⟩ := singleton_of_lower hu
  exact Locale.parse_congr P hP b b _ _ fun m su st =>
    run_u_congr b hb (UExt.parseIter_attrs as as' post has has' hset) m su st

/-- non-vacuity: "en-u-abc-abd-abc-…" vs "en-u-abd-abc-…" -/
example (post : List Bytes) :
    Locale.parse ([[101, 110]] ++ [117] :: ([[97, 98, 99], [97, 98, 100], [97, 98, 99]] ++ post)) =
    Locale.parse ([[101, 110]] ++ [117] :: ([[97, 98, 100], [97, 98, 99]] ++ post)) :=
  attributes_order _ _ _ _ _ (by decide) (by decide) (by decide) (by decide)
    (same_set_of_subsets (by decide) (by decide))
example : (Locale.fromBytes [101, 110, 45, 117, 45, 97, 98, 99, 45, 97, 98, 100, 45, 97, 98, 99]).map Locale.display =
    .ok [101, 110, 45, 117, 45, 97, 98, 99, 45, 97, 98, 100] := by decide

/-! ### (c) `-u-` keywords -/

/-- **keywords.**  Inside a `-u-` section (after any attribute- and key-shaped subtags `upre`),
    keyword groups `key type*` with pairwise distinct (lower-cased) keys may be permuted, provided
    what follows does not start with a type-shaped subtag (which would belong to the last group). -/
theorem keywords_order (P : List Bytes) (u : Bytes) (upre : List Bytes) (G G' : List Group) (post : List Bytes)
    (hP : NoX P) (hu : lower u = [117])
    (hpre : ∀ t ∈ upre, Spec.isKey t = true ∨ Spec.isAttr t = true)
    (hG : ∀ g ∈ G, UGroup g) (hperm : G.Perm G') (hdist : (G.map fun g => lower g.1).Nodup)
    (hpost : ∀ t ∈ post.head?, Spec.isAttr t = false) :
    Locale.parse (P ++ u :: (upre ++ (flat G ++ post))) =
    Locale.parse (P ++ u :: (upre ++ (flat G' ++ post))) := by
  obtain ⟨b, rfl, hb⟩ := singleton_of_lower hu
  exact Locale.parse_congr P hP b b _ _ fun m su st =>
    run_u_congr b hb (UExt.parseIter_keywords upre G G' post hpre hG hperm hdist hpost) m su st

/-- non-vacuity: "en-u-attr1-ca-buddhist-nu-thai" vs "en-u-attr1-nu-thai-ca-buddhist" -/
example :
    Locale.parse ([[101, 110]] ++ [117] :: ([[97, 116, 116, 114, 49]] ++
      (flat [([99, 97], [[98, 117, 100, 100, 104, 105, 115, 116]]), ([110, 117], [[116, 104, 97, 105]])] ++ []))) =
    Locale.parse ([[101, 110]] ++ [117] :: ([[97, 116, 116, 114, 49]] ++
      (flat [([110, 117], [[116, 104, 97, 105]]), ([99, 97], [[98, 117, 100, 100, 104, 105, 115, 116]])] ++ []))) :=
  keywords_order _ _ _ _ _ _ (by decide) (by decide) (by decide) (by decide) (List.Perm.swap _ _ _)
    (by decide) (by decide)
/-- "en-u-ca-buddhist-nu-thai" vs "en-u-nu-thai-ca-buddhist" -/
example : Locale.fromBytes [101, 110, 45, 117, 45, 99, 97, 45, 98, 117, 100, 100, 104, 105, 115, 116, 45, 110, 117, 45, 116, 104, 97, 105] =
    Locale.fromBytes [101, 110, 45, 117, 45, 110, 117, 45, 116, 104, 97, 105, 45, 99, 97, 45, 98, 117, 100, 100, 104, 105, 115, 116] := by
  decide
example : (Locale.fromBytes [101, 110, 45, 117, 45, 110, 117, 45, 116, 104, 97, 105, 45, 99, 97, 45, 98, 117, 100, 100, 104, 105, 115, 116]).map Locale.display =
    .ok [101, 110, 45, 117, 45, 99, 97, 45, 98, 117, 100, 100, 104, 105, 115, 116, 45, 110, 117, 45, 116, 104, 97, 105] := by
  decide

/-! ### (d) `-t-` fields -/

/-- **tfields.**  Inside a `-t-` section (after an optional tlang `tl` and any field groups `G0`),
    field groups `tkey tvalue*` with pairwise distinct (lower-cased) keys may be permuted, provided
    what follows does not start with a value-shaped subtag. -/
theorem tfields_order (P : List Bytes) (t : Bytes) (tl : List Bytes) (G0 G G' : List Group) (post : List Bytes)
    (hP : NoX P) (ht : lower t = [116]) (htl : TLang tl) (hG0 : ∀ g ∈ G0, TGroup g)
    (hG : ∀ g ∈ G, TGroup g) (hperm : G.Perm G') (hdist : (G.map fun g => lower g.1).Nodup)
    (hpost : ∀ t ∈ post.head?, Spec.isAttr t = false) :
    Locale.parse (P ++ t :: (tl ++ (flat G0 ++ (flat G ++ post)))) =
    Locale.parse (P ++ t :: (tl ++ (flat G0 ++ (flat G' ++ post)))) := by
  obtain ⟨b, rfl, hb⟩ := singleton_of_lower ht
  exact Locale.parse_congr P hP b b _ _ fun m su st =>
    run_t_congr b hb (TExt.parseIter_tfields tl G0 G G' post htl hG0 hG hperm hdist hpost) m su st

/-- non-vacuity: "en-t-es-ar-h0-hybrid-m0-names" vs "en-t-es-ar-m0-names-h0-hybrid" -/
example :
    Locale.parse ([[101, 110]] ++ [116] :: (([101, 115] :: ((none : Option Bytes).toList ++ (some [97, 114]).toList ++ [])) ++
      (flat [] ++ (flat [([104, 48], [[104, 121, 98, 114, 105, 100]]), ([109, 48], [[110, 97, 109, 101, 115]])] ++ [])))) =
    Locale.parse ([[101, 110]] ++ [116] :: (([101, 115] :: ((none : Option Bytes).toList ++ (some [97, 114]).toList ++ [])) ++
      (flat [] ++ (flat [([109, 48], [[110, 97, 109, 101, 115]]), ([104, 48], [[104, 121, 98, 114, 105, 100]])] ++ [])))) :=
  tfields_order _ _ _ _ _ _ _ (by decide) (by decide)
    (TLang.some _ _ _ _ (by decide) (by decide) (by decide) (by decide)) (by decide) (by decide)
    (List.Perm.swap _ _ _) (by decide) (by decide)
/-- "en-t-h0-hybrid-m0-names" vs "en-t-m0-names-h0-hybrid" -/
example : Locale.fromBytes [101, 110, 45, 116, 45, 104, 48, 45, 104, 121, 98, 114, 105, 100, 45, 109, 48, 45, 110, 97, 109, 101, 115] =
    Locale.fromBytes [101, 110, 45, 116, 45, 109, 48, 45, 110, 97, 109, 101, 115, 45, 104, 48, 45, 104, 121, 98, 114, 105, 100] := by
  decide
example : (Locale.fromBytes [101, 110, 45, 116, 45, 109, 48, 45, 110, 97, 109, 101, 115, 45, 104, 48, 45, 104, 121, 98, 114, 105, 100]).isOk = true := by
  decide

/-! ### (e) the relative order of `-u-…` and `-t-…` -/

/-- **swap.**  After any prefix without a private-use singleton, a `-u-` section and a `-t-` section
    whose bodies parse completely on their own may be swapped; what follows is empty or starts with
    a singleton, and is otherwise arbitrary. -/
theorem u_t_swap (P : List Bytes) (u t : Bytes) (ub tb post : List Bytes) (ux : UExt) (tx : TExt)
    (hP : NoX P) (hu : lower u = [117]) (ht : lower t = [116])
    (hub : UExt.parseIter ub = .ok (ux, [])) (htb : TExt.parseIter tb = .ok (tx, []))
    (hpost : SingletonHead post) :
    Locale.parse (P ++ u :: (ub ++ t :: (tb ++ post))) =
    Locale.parse (P ++ t :: (tb ++ u :: (ub ++ post))) := by
  obtain ⟨bu, rfl, hbu⟩ := singleton_of_lower hu
  obtain ⟨bt, rfl, hbt⟩ := singleton_of_lower ht
  exact Locale.parse_congr P hP bu bt _ _ fun m su st =>
    run_swap bu bt hbu hbt ub tb post ux tx hub htb hpost m su st

/-- the bodies of the grammar parse completely: attributes and keywords; optional tlang and fields -/
theorem u_body_complete (ub : List Bytes) (h : ∀ t ∈ ub, Spec.isKey t = true ∨ Spec.isAttr t = true) :
    ∃ ux, UExt.parseIter ub = .ok (ux, []) := UExt.parseIter_complete ub h
theorem t_body_complete (tl : List Bytes) (G : List Group) (htl : TLang tl) (hG : ∀ g ∈ G, TGroup g) :
    ∃ tx, TExt.parseIter (tl ++ flat G) = .ok (tx, []) := TExt.parseIter_complete tl G htl hG

/-- **swap, arbitrary bodies** (well- or ill-formed, but without one-byte or empty subtags): the
    two orders agree in the property's sense.  (Equality of results is false here: the two orders
    can fail with different error codes — witness below.) -/
theorem u_t_swap_agree (P : List Bytes) (u t : Bytes) (ub tb post : List Bytes)
    (hP : NoX P) (hu : lower u = [117]) (ht : lower t = [116])
    (hub : ∀ x ∈ ub, 2 ≤ x.length) (htb : ∀ x ∈ tb, 2 ≤ x.length) (hpost : SingletonHead post) :
    Agree (Locale.parse (P ++ u :: (ub ++ t :: (tb ++ post))))
          (Locale.parse (P ++ t :: (tb ++ u :: (ub ++ post)))) := by
  obtain ⟨bu, rfl, hbu⟩ := singleton_of_lower hu
  obtain ⟨bt, rfl, hbt⟩ := singleton_of_lower ht
  exact agree_of_bothFailOrEq <| Locale.parse_bfe P hP bu bt _ _ fun m su st =>
    run_swap_weak bu bt hbu hbt ub tb post hub htb hpost m su st

/-- non-vacuity: "en-u-ca-buddhist-t-h0-hybrid-x-abc" vs "en-t-h0-hybrid-u-ca-buddhist-x-abc" -/
example :
    Locale.parse ([[101, 110]] ++ [117] :: ([[99, 97], [98, 117, 100, 100, 104, 105, 115, 116]] ++
      [116] :: ([[104, 48], [104, 121, 98, 114, 105, 100]] ++ [[120], [97, 98, 99]]))) =
    Locale.parse ([[101, 110]] ++ [116] :: ([[104, 48], [104, 121, 98, 114, 105, 100]] ++
      [117] :: ([[99, 97], [98, 117, 100, 100, 104, 105, 115, 116]] ++ [[120], [97, 98, 99]]))) :=
  u_t_swap _ _ _ _ _ _ { keywords := [([99, 97], [[98, 117, 100, 100, 104, 105, 115, 116]])] }
    { tfields := [([104, 48], [[104, 121, 98, 114, 105, 100]])] }
    (by decide) (by decide) (by decide) (by decide) (by decide) (by decide)
example : ∃ ux, UExt.parseIter [[97, 116, 116, 114, 49], [99, 97], [98, 117, 100, 100, 104, 105, 115, 116]] = .ok (ux, []) :=
  u_body_complete _ (by decide)
example : ∃ tx, TExt.parseIter (([101, 115] :: ((none : Option Bytes).toList ++ (some [97, 114]).toList ++ [])) ++
    flat [([104, 48], [[104, 121, 98, 114, 105, 100]])]) = .ok (tx, []) :=
  t_body_complete _ _ (TLang.some _ _ _ _ (by decide) (by decide) (by decide) (by decide)) (by decide)
/-- "en-u-toolongxxx-t-abcd" vs "en-t-abcd-u-toolongxxx" (ill-formed bodies) -/
example :
    Agree (Locale.parse ([[101, 110]] ++ [117] :: ([[116, 111, 111, 108, 111, 110, 103, 120, 120, 120]] ++
            [116] :: ([[97, 98, 99, 100]] ++ []))))
          (Locale.parse ([[101, 110]] ++ [116] :: ([[97, 98, 99, 100]] ++
            [117] :: ([[116, 111, 111, 108, 111, 110, 103, 120, 120, 120]] ++ [])))) :=
  u_t_swap_agree _ _ _ _ _ _ (by decide) (by decide) (by decide) (by decide) (by decide) (by decide)
/-- "en-t-h0-hybrid-u-ca-buddhist" vs "en-u-ca-buddhist-t-h0-hybrid": both parse, to the same value -/
example : Locale.fromBytes [101, 110, 45, 116, 45, 104, 48, 45, 104, 121, 98, 114, 105, 100, 45, 117, 45, 99, 97, 45, 98, 117, 100, 100, 104, 105, 115, 116] =
    Locale.fromBytes [101, 110, 45, 117, 45, 99, 97, 45, 98, 117, 100, 100, 104, 105, 115, 116, 45, 116, 45, 104, 48, 45, 104, 121, 98, 114, 105, 100] := by
  decide
example : (Locale.fromBytes [101, 110, 45, 117, 45, 99, 97, 45, 98, 117, 100, 100, 104, 105, 115, 116, 45, 116, 45, 104, 48, 45, 104, 121, 98, 114, 105, 100]).map Locale.display =
    .ok [101, 110, 45, 116, 45, 104, 48, 45, 104, 121, 98, 114, 105, 100, 45, 117, 45, 99, 97, 45, 98, 117, 100, 100, 104, 105, 115, 116] := by
  decide
/-- ill-formed bodies: "en-u-toolongxxx-t-abcd" fails with `InvalidExtension`, "en-t-abcd-u-toolongxxx"
    with `InvalidLanguage` — both fail (as the property demands), with different error codes (so
    `u_t_swap`'s equality needs its hypotheses) -/
example : Locale.fromBytes [101, 110, 45, 117, 45, 116, 111, 111, 108, 111, 110, 103, 120, 120, 120, 45, 116, 45, 97, 98, 99, 100] =
    .err .invalidExtension := by decide
example : Locale.fromBytes [101, 110, 45, 116, 45, 97, 98, 99, 100, 45, 117, 45, 116, 111, 111, 108, 111, 110, 103, 120, 120, 120] =
    .err .invalidLanguage := by decide

/-! ### the hypotheses that cannot be dropped -/

/-- (c)/(d) need the continuation not to start with a type-shaped subtag: "en-u-ca-nu-thai" vs
    "en-u-nu-ca-thai" (groups `ca`, `nu` swapped, `thai` following) differ — `thai` belongs to the
    last group -/
example : Locale.fromBytes [101, 110, 45, 117, 45, 99, 97, 45, 110, 117, 45, 116, 104, 97, 105] ≠
    Locale.fromBytes [101, 110, 45, 117, 45, 110, 117, 45, 99, 97, 45, 116, 104, 97, 105] := by decide
/-- (e) needs the continuation to be empty or to start with a singleton: "en-u-ca-t-h0-abc" vs
    "en-t-h0-u-ca-abc" differ — `abc` is a tvalue in the first, a type in the second -/
example : Locale.fromBytes [101, 110, 45, 117, 45, 99, 97, 45, 116, 45, 104, 48, 45, 97, 98, 99] ≠
    Locale.fromBytes [101, 110, 45, 116, 45, 104, 48, 45, 117, 45, 99, 97, 45, 97, 98, 99] := by decide
/-- the prefix must not contain the private-use singleton: after `x` everything is a private tag and
    repetition is kept: "en-x-u-abc" vs "en-x-u-abc-abc" -/
example : Locale.fromBytes [101, 110, 45, 120, 45, 117, 45, 97, 98, 99] ≠
    Locale.fromBytes [101, 110, 45, 120, 45, 117, 45, 97, 98, 99, 45, 97, 98, 99] := by decide

end UL.Props.C09
