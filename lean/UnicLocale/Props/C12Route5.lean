/-
  Props/C12Route5.lean — route 5 of the `route` request (every attribute removed and set again in reverse
  order, every keyword / tfield removed and set again, the tlang cleared and set again from its text, the
  private tags cleared and added again in reverse order; `route5Ops`, Model/Routes.lean) is the identity on
  every value with the representation invariant.

  The set / map reference model of C10 takes the history back to the abstract value it started from
  (`UL.R5.route5_abs`, Lemmas/Route5.lean); `routes_agree` (Props/C12.lean) turns that into equality of the
  concrete values.
-/
import UnicLocale.Props.C12Core
import UnicLocale.Lemmas.Route5

namespace UL.Props.C12
open UL

/-- the remove-and-set-again history is the identity on the reference model -/
theorem route5_abs (L : Spec.LikelyFns) (x : Locale) (h : x.inv = true) :
    Spec.absRunState L (UL.Rf.abs x) (route5Ops x) = UL.Rf.abs x :=
  UL.R5.route5_abs L x h

/-- … hence on the concrete value -/
theorem route5_runState (T : Tables) (hT : tablesWF T = true) (x : Locale) (h : x.inv = true) :
    runState T x (route5Ops x) = x :=
  routes_agree T hT x x h h (route5Ops x) [] (route5_abs (UL.Rf.modelLikely T) x h)

theorem route5 (T : Tables) (hT : tablesWF T = true) (x : Locale) (h : x.inv = true) :
    routeValue T x 5 = some x := by
  show some (runState T x (route5Ops x)) = some x
  rw [route5_runState T hT x h]

/-- a `true` among the values of `set_keyword` / `set_tfield` is not stored: the call is the call without it -/
theorem collectTypes_append_true (p : Bytes → Res (Option Bytes)) (hp : p trueBytes = .ok none) (vs : List Bytes) :
    collectTypes p (vs ++ [trueBytes]) = collectTypes p vs := by
  induction vs with
  | nil => simp [collectTypes, hp]
  | cons v vs ih =>
    simp only [List.cons_append, collectTypes, ih]

theorem collectTypes_cons_true (p : Bytes → Res (Option Bytes)) (hp : p trueBytes = .ok none) (vs : List Bytes) :
    collectTypes p (trueBytes :: vs) = collectTypes p vs := by
  simp only [collectTypes, hp]
  cases collectTypes p vs <;> simp

theorem parseType_true : parseType trueBytes = .ok none := by decide
theorem parseTValue_true : parseTValue trueBytes = .ok none := by decide

theorem step_setKeyword_true (T : Tables) (x : Locale) (k : Bytes) (vs : List Bytes) :
    step T x (.setKeyword k (vs ++ [trueBytes])) = step T x (.setKeyword k vs) := by
  simp only [step, UExt.setKeyword, collectTypes_append_true parseType parseType_true]

theorem step_setTField_true (T : Tables) (x : Locale) (k : Bytes) (vs : List Bytes) :
    step T x (.setTField k (trueBytes :: vs)) = step T x (.setTField k vs) := by
  simp only [step, TExt.setTField, collectTypes_cons_true parseTValue parseTValue_true]

theorem runState_append (T : Tables) (x : Locale) (a b : List Op) :
    runState T x (a ++ b) = runState T (runState T x a) b := by
  simp only [runState, List.foldl_append]

theorem runState_keywords_true (T : Tables) (l : List (Bytes × List Bytes)) : ∀ x : Locale,
    runState T x (l.map fun kv => [Op.removeKeyword kv.1, Op.setKeyword kv.1 (kv.2 ++ [trueBytes])]).flatten =
      runState T x (l.map fun kv => [Op.removeKeyword kv.1, Op.setKeyword kv.1 kv.2]).flatten := by
  induction l with
  | nil => intro x; rfl
  | cons kv l ih =>
    intro x
    simp only [List.map_cons, List.flatten_cons, runState_append]
    rw [ih]
    congr 1
    simp only [runState, List.foldl_cons, List.foldl_nil, step_setKeyword_true]

theorem runState_tfields_true (T : Tables) (l : List (Bytes × List Bytes)) : ∀ x : Locale,
    runState T x (l.map fun kv => [Op.removeTField kv.1, Op.setTField kv.1 (trueBytes :: kv.2)]).flatten =
      runState T x (l.map fun kv => [Op.removeTField kv.1, Op.setTField kv.1 kv.2]).flatten := by
  induction l with
  | nil => intro x; rfl
  | cons kv l ih =>
    intro x
    simp only [List.map_cons, List.flatten_cons, runState_append]
    rw [ih]
    congr 1
    simp only [runState, List.foldl_cons, List.foldl_nil, step_setTField_true]

/-- route 10 (route 5 with an extra `true` in every keyword / tfield that is set again) runs to the same value as route 5 … -/
theorem route10_eq_route5 (T : Tables) (x : Locale) : runState T x (route10Ops x) = runState T x (route5Ops x) := by
  unfold route10Ops route5Ops
  simp only [runState_append, runState_keywords_true, runState_tfields_true]

/-- … hence it is the identity on every value with the representation invariant -/
theorem route10 (T : Tables) (hT : tablesWF T = true) (x : Locale) (h : x.inv = true) :
    runState T x (route10Ops x) = x := by
  rw [route10_eq_route5, route5_runState T hT x h]

/-! ### non-vacuity

"en-t-es-AR-h0-hybrid-u-abc-foo-ca-buddhist-nu-latn-x-a-priv": two attributes, two keywords, a tlang, a tfield
and two private tags.  The value satisfies the invariant, the history has 15 calls, every one of them is
accepted (no `err`), the values in between differ from `x`, and the last one is `x` again. -/

private def x5 : Locale :=
  { id := { language := some [101, 110] },
    ext := { unicode := { attributes := [[97, 98, 99], [102, 111, 111]],
                          keywords := [([99, 97], [[98, 117, 100, 100, 104, 105, 115, 116]]),
                                       ([110, 117], [[108, 97, 116, 110]])] },
             transform := { tlang := some { language := some [101, 115], region := some [65, 82] },
                            tfields := [([104, 48], [[104, 121, 98, 114, 105, 100]])] },
             priv := [[97], [112, 114, 105, 118]] } }

example : x5.inv = true := by decide
private theorem tiny_wf : tablesWF UL.Tot.tinyTables = true := by decide
example : (route5Ops x5).length = 15 := by decide
example : routeValue UL.Tot.tinyTables x5 5 = some x5 := by decide
-- every call of the history is accepted: removals report `true`, setters `()`
example : ((run UL.Tot.tinyTables x5 (route5Ops x5)).map (·.2)).all
    (fun o => o == .unit || o == .bool true) = true := by decide
-- the history does real work: after the first four calls both attributes have been removed and set again, last one first
example : ((run UL.Tot.tinyTables x5 (route5Ops x5)).map (·.1.ext.unicode.attributes)).take 4 =
    [[[102, 111, 111]], [], [[102, 111, 111]], [[97, 98, 99], [102, 111, 111]]] := by decide
-- the same on the reference model
example : Spec.absRunState (UL.Rf.modelLikely UL.Tot.tinyTables) (UL.Rf.abs x5) (route5Ops x5) = UL.Rf.abs x5 := by
  decide
-- and the theorem instantiated
example : routeValue UL.Tot.tinyTables x5 5 = some x5 :=
  route5 UL.Tot.tinyTables tiny_wf x5 (by decide)

end UL.Props.C12

#print axioms UL.Props.C12.route5
