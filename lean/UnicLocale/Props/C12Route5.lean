/-
  Props/C12Route5.lean — route 5 of the `route` request (every attribute removed and set again in reverse
  order, every keyword / tfield removed and set again, the tlang cleared and set again from its text, the
  private tags cleared and added again in reverse order; `route5Ops`, Model/Routes.lean) is the identity on
  every value with the representation invariant.

  The set / map reference model of C10 takes the history back to the abstract value it started from
  (`UL.R5.route5_abs`, Lemmas/Route5.lean); `routes_agree` (Props/C12.lean) turns that into equality of the
  concrete values.
-/
import UnicLocale.Props.C12Core
import UnicLocale.Lemmas.Route5

namespace UL.Props.C12
open UL

/-- the remove-and-set-again history is the identity on the reference model -/
theorem route5_abs (L : Spec.LikelyFns) (x : Locale) (h : x.inv = true) :
    Spec.absRunState L (UL.Rf.abs x) (route5Ops x) = UL.Rf.abs x :=
  UL.R5.route5_abs L x h

/-- … hence on the concrete value -/
theorem route5_runState (T : Tables) (hT : tablesWF T = true) (x : Locale) (h : x.inv = true) :
    runState T x (route5Ops x) = x :=
  routes_agree T hT x x h h (route5Ops x) [] (route5_abs (UL.Rf.modelLikely T) x h)

theorem route5 (T : Tables) (hT : tablesWF T = true) (x : Locale) (h : x.inv = true) :
    routeValue T x 5 = some x := by
  show some (runState T x (route5Ops x)) = some x
  rw [route5_runState T hT x h]

/-! ### non-vacuity

"en-t-es-AR-h0-hybrid-u-abc-foo-ca-buddhist-nu-latn-x-a-priv": two attributes, two keywords, a tlang, a tfield
and two private tags.  The value satisfies the invariant, the history has 15 calls, every one of them is
accepted (no `err`), the values in between differ from `x`, and the last one is `x` again. -/

private def x5 : Locale :=
  { id := { language := some [101, 110] },
    ext := { unicode := { attributes := [[97, 98, 99], [102, 111, 111]],
                          keywords := [([99, 97], [[98, 117, 100, 100, 104, 105, 115, 116]]),
                                       ([110, 117], [[108, 97, 116, 110]])] },
             transform := { tlang := some { language := some [101, 115], region := some [65, 82] },
                            tfields := [([104, 48], [[104, 121, 98, 114, 105, 100]])] },
             priv := [[97], [112, 114, 105, 118]] } }

example : x5.inv = true := by decide
private theorem tiny_wf : tablesWF UL.Tot.tinyTables = true := by decide
example : (route5Ops x5).length = 15 := by decide
example : routeValue UL.Tot.tinyTables x5 5 = some x5 := by decide
-- every call of the history is accepted: removals report `true`, setters `()`
example : ((run UL.Tot.tinyTables x5 (route5Ops x5)).map (·.2)).all
    (fun o => o == .unit || o == .bool true) = true := by decide
-- the history does real work: after the first four calls both attributes have been removed and set again, last one first
example : ((run UL.Tot.tinyTables x5 (route5Ops x5)).map (·.1.ext.unicode.attributes)).take 4 =
    [[[102, 111, 111]], [], [[102, 111, 111]], [[97, 98, 99], [102, 111, 111]]] := by decide
-- the same on the reference model
example : Spec.absRunState (UL.Rf.modelLikely UL.Tot.tinyTables) (UL.Rf.abs x5) (route5Ops x5) = UL.Rf.abs x5 := by
  decide
-- and the theorem instantiated
example : routeValue UL.Tot.tinyTables x5 5 = some x5 :=
  route5 UL.Tot.tinyTables tiny_wf x5 (by decide)

end UL.Props.C12

#print axioms UL.Props.C12.route5
