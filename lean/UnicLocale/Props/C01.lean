/-
  Props/C01.lean — totality: no entry point of the model ever returns `.panic`, for EVERY byte
  string, EVERY state and EVERY argument list.

  In the model every Rust `unwrap()`, slice index, `unimplemented!()` and the exhaustion of the fuel
  that drives `ExtMap.loop` is an explicit `.panic` branch of `Res` (resp. `Out.panic` for `step`);
  the theorems below say none of them is reachable.

  Termination.  Every definition of the model is accepted by Lean's termination checker as a total
  function (no escape hatch is used anywhere in `Model/`): all recursions are structural on the subtag list (`LangId.loop`, `UExt.loop`,
  `TExt.fieldLoop`, `collectTypes`, `collectAll`, …) except `ExtMap.loop`, whose recursive calls are
  on the suffix handed back by a sub-parser and which is therefore structurally recursive on a
  `fuel : Nat` argument.  That acceptance is the proof that the model never loops.  What remains
  for the fuel-driven loop is that running out of fuel (a `.panic` branch, i.e. "the model stopped
  before the Rust loop would have") is unreachable: `extmap_loop_fuel_suffices` proves it from the
  progress lemmas `uext_parse_progress` / `text_parse_progress` (a sub-parser hands back a suffix
  no longer than what it was given, and the singleton itself has been consumed, so each iteration
  consumes ≥ 1 subtag — the same progress argument that bounds the Rust `while let` loops), and
  `ExtMap.parseIter` starts the loop with `fuel = ts.length + 1`.
-/
import UnicLocale.Lemmas.Total
import UnicLocale.Props.C02
import UnicLocale.Lemmas.GenDataWF

namespace UL.Props.C01
open UL UL.Tot

/-! ### language identifiers and subtag constructors -/

/-- `LanguageIdentifier::from_bytes` / `FromStr` (re-export of `C02.never_panics`) -/
theorem langid_fromBytes_total (bs : Bytes) : (LangId.fromBytes bs).isPanic = false :=
  C02.never_panics bs

theorem langid_canonicalize_total (bs : Bytes) : (LangId.canonicalize bs).isPanic = false :=
  (Res.isPanic_false_iff _).mpr (Res.map_ne_panic (LangId.fromBytes_ne_panic bs))

/-- the parser on an already split input, with or without extensions allowed -/
theorem langid_parseIter_total (ts : List Bytes) (allowExt : Bool) :
    (LangId.parseIter ts allowExt).isPanic = false :=
  (Res.isPanic_false_iff _).mpr (LangId.parseIter_ne_panic ts allowExt)

theorem language_total (v : Bytes) : (Language.fromBytes v).isPanic = false := C15.language_no_panic v
theorem script_total (v : Bytes) : (Script.fromBytes v).isPanic = false := C15.script_no_panic v
theorem region_total (v : Bytes) : (Region.fromBytes v).isPanic = false := C15.region_no_panic v
theorem variant_total (v : Bytes) : (Variant.fromBytes v).isPanic = false := C15.variant_no_panic v

/-- `TryFrom<Option<&[u8]>> for Language` -/
theorem language_tryFromOption_total (o : Option Bytes) : (Language.tryFromOption o).isPanic = false := by
  cases o with
  | none => rfl
  | some v => exact C15.language_no_panic v

/-! ### extension parsers on any subtag list -/

theorem uext_parse_total (ts : List Bytes) : (UExt.parseIter ts).isPanic = false :=
  (Res.isPanic_false_iff _).mpr (UExt.parseIter_ne_panic ts)
theorem text_parse_total (ts : List Bytes) : (TExt.parseIter ts).isPanic = false :=
  (Res.isPanic_false_iff _).mpr (TExt.parseIter_ne_panic ts)
theorem pext_parse_total (ts : List Bytes) : (PExt.parseIter ts).isPanic = false :=
  (Res.isPanic_false_iff _).mpr (PExt.parseIter_ne_panic ts)

/-- progress: the unicode-extension parser hands back no more than it was given -/
theorem uext_parse_progress (ts rest : List Bytes) (u : UExt)
    (h : UExt.parseIter ts = .ok (u, rest)) : rest.length ≤ ts.length :=
  UExt.parseIter_rest_length h
/-- progress: the transform-extension parser (which may call the language-identifier parser for its
    tlang) hands back no more than it was given -/
theorem text_parse_progress (ts rest : List Bytes) (x : TExt)
    (h : TExt.parseIter ts = .ok (x, rest)) : rest.length ≤ ts.length :=
  TExt.parseIter_rest_length h

-- non-vacuity of the progress lemmas: "ca-buddhist-t-en" stops at the singleton `t`
example : UExt.parseIter [[99,97],[98,117,100,100,104,105,115,116],[116],[101,110]]
    = .ok ({ keywords := [([99,97], [[98,117,100,100,104,105,115,116]])] }, [[116],[101,110]]) := by decide
-- "en-Latn-h0-hybrid-x-foo": tlang en-Latn, field h0=hybrid, stops at the singleton `x`
example : TExt.parseIter [[101,110],[76,97,116,110],[104,48],[104,121,98,114,105,100],[120],[102,111,111]]
    = .ok ({ tlang := some { language := some [101,110], script := some [76,97,116,110] },
             tfields := [([104,48], [[104,121,98,114,105,100]])] }, [[120],[102,111,111]]) := by decide

/-- THE FUEL ARGUMENT.  Whenever the fuel exceeds the number of subtags still to be read, the loop
    of `ExtensionsMap::try_from_iter` does not reach its out-of-fuel branch nor any other panic —
    for every fuel, subtag list, accumulated map and pair of "seen" flags. -/
theorem extmap_loop_fuel_suffices (fuel : Nat) (ts : List Bytes) (m : ExtMap) (su st : Bool)
    (h : ts.length < fuel) : (ExtMap.loop fuel ts m su st).isPanic = false :=
  (Res.isPanic_false_iff _).mpr (ExtMap.loop_ne_panic fuel ts m su st h)

-- non-vacuity: the hypothesis is satisfiable (5 subtags "u-ca-buddhist-t-en", fuel 6) …
example : ([[117],[99,97],[98,117,100,100,104,105,115,116],[116],[101,110]] : List Bytes).length < 6 := by decide
example : ExtMap.loop 6 [[117],[99,97],[98,117,100,100,104,105,115,116],[116],[101,110]] {} false false
    = .ok { unicode := { keywords := [([99,97], [[98,117,100,100,104,105,115,116]])] },
            transform := { tlang := some { language := some [101,110] } } } := by decide
-- …and it is needed: with too little fuel the model does stop in its `.panic` branch ("u-ca", fuel 1)
example : ExtMap.loop 1 [[117],[99,97]] {} false false = .panic := by decide

/-- `ExtensionsMap::try_from_iter` on any subtag list: `fuel = length + 1` always suffices -/
theorem extmap_parse_total (ts : List Bytes) : (ExtMap.parseIter ts).isPanic = false :=
  (Res.isPanic_false_iff _).mpr (ExtMap.parseIter_ne_panic ts)

/-! ### `Locale` and `ExtensionsMap` from bytes -/

theorem extmap_fromBytes_total (bs : Bytes) : (ExtMap.fromBytes bs).isPanic = false :=
  extmap_parse_total (splitSep bs)

theorem locale_parse_total (ts : List Bytes) : (Locale.parse ts).isPanic = false :=
  (Res.isPanic_false_iff _).mpr (Locale.parse_ne_panic ts)

/-- `Locale::from_bytes` / `FromStr`, every byte string -/
theorem locale_fromBytes_total (bs : Bytes) : (Locale.fromBytes bs).isPanic = false :=
  locale_parse_total (splitSep bs)

theorem locale_canonicalize_total (bs : Bytes) : (Locale.canonicalize bs).isPanic = false :=
  (Res.isPanic_false_iff _).mpr (Res.map_ne_panic (Locale.parse_ne_panic (splitSep bs)))

-- the inputs that panicked before fix F1 are errors: "en-a-foo", "en-US-$", "en-\0"
example : Locale.fromBytes [101,110,45,97,45,102,111,111] = .err .invalidExtension := by decide
example : Locale.fromBytes [101,110,45,85,83,45,36] = .err .invalidExtension := by decide
example : Locale.fromBytes [101,110,45,0] = .err .invalidExtension := by decide
example : ExtMap.fromBytes [97,45,102,111,111] = .err .invalidExtension := by decide
-- and a well-formed one is accepted: "en-u-ca-buddhist"
example : Locale.canonicalize [101,110,45,117,45,99,97,45,98,117,100,100,104,105,115,116]
    = .ok [101,110,45,117,45,99,97,45,98,117,100,100,104,105,115,116] := by decide

/-! ### getters / mutators taking text: every state, every argument -/

theorem uext_keyword_total (u : UExt) (key : Bytes) : (u.keyword key).isPanic = false :=
  (Res.isPanic_false_iff _).mpr (UExt.keyword_ne_panic u key)
theorem uext_setKeyword_total (u : UExt) (key : Bytes) (vals : List Bytes) :
    (u.setKeyword key vals).isPanic = false :=
  (Res.isPanic_false_iff _).mpr (UExt.setKeyword_ne_panic u key vals)
theorem uext_removeKeyword_total (u : UExt) (key : Bytes) : (u.removeKeyword key).isPanic = false :=
  (Res.isPanic_false_iff _).mpr (UExt.removeKeyword_ne_panic u key)
theorem uext_hasAttribute_total (u : UExt) (a : Bytes) : (u.hasAttribute a).isPanic = false :=
  (Res.isPanic_false_iff _).mpr (UExt.hasAttribute_ne_panic u a)
theorem uext_setAttribute_total (u : UExt) (a : Bytes) : (u.setAttribute a).isPanic = false :=
  (Res.isPanic_false_iff _).mpr (UExt.setAttribute_ne_panic u a)
theorem uext_removeAttribute_total (u : UExt) (a : Bytes) : (u.removeAttribute a).isPanic = false :=
  (Res.isPanic_false_iff _).mpr (UExt.removeAttribute_ne_panic u a)
theorem text_tfield_total (x : TExt) (key : Bytes) : (x.tfield key).isPanic = false :=
  (Res.isPanic_false_iff _).mpr (TExt.tfield_ne_panic x key)
theorem text_setTField_total (x : TExt) (key : Bytes) (vals : List Bytes) :
    (x.setTField key vals).isPanic = false :=
  (Res.isPanic_false_iff _).mpr (TExt.setTField_ne_panic x key vals)
theorem text_removeTField_total (x : TExt) (key : Bytes) : (x.removeTField key).isPanic = false :=
  (Res.isPanic_false_iff _).mpr (TExt.removeTField_ne_panic x key)
theorem pext_hasTag_total (p : PExt) (t : Bytes) : (PExt.hasTag p t).isPanic = false :=
  (Res.isPanic_false_iff _).mpr (PExt.hasTag_ne_panic p t)
theorem pext_addTag_total (p : PExt) (t : Bytes) : (PExt.addTag p t).isPanic = false :=
  (Res.isPanic_false_iff _).mpr (PExt.addTag_ne_panic p t)
theorem pext_removeTag_total (p : PExt) (t : Bytes) : (PExt.removeTag p t).isPanic = false :=
  (Res.isPanic_false_iff _).mpr (PExt.removeTag_ne_panic p t)

-- the getters do answer both ways: key "c" is an error, key "ca" is a (here empty) value list
example : ({} : UExt).keyword [99] = .err .invalidSubtag := by decide
example : ({} : UExt).keyword [99,97] = .ok [] := by decide
example : ({} : UExt).setKeyword [99,97] [[98,117,100,100,104,105,115,116], [0]] = .err .invalidSubtag := by decide

/-! ### likely subtags and direction -/

theorem tiny_wf : tablesWF tinyTables = true := by decide
theorem bad_not_wf : tablesWF badTables = false := by decide

/-- `likelysubtags::maximize` / `minimize` never reach the `.unwrap()` of `lang_from_parts`, for any
    well-formed tables and any (language, script, region) — valid subtags or not: a hit of the
    binary search is a row of the table, and every row of a well-formed table has a language.
    (No sortedness, no `validTriple` hypothesis is used.) -/
theorem likely_total (T : Tables) (l : Language) (s r : Option Bytes) (h : tablesWF T = true) :
    (Likely.maximize T l s r).isPanic = false ∧ (Likely.minimize T l s r).isPanic = false :=
  ⟨(Res.isPanic_false_iff _).mpr (Res.ne_panic_of_isOk (Likely.maximize_isOk (tablesWF_valuesHaveLang h) l s r)),
   (Res.isPanic_false_iff _).mpr (Res.ne_panic_of_isOk (Likely.minimize_isOk (tablesWF_valuesHaveLang h) l s r))⟩

/-- they have no error path either — for ANY tables -/
theorem likely_never_err (T : Tables) (l : Language) (s r : Option Bytes) (e : Err) :
    Likely.maximize T l s r ≠ .err e ∧ Likely.minimize T l s r ≠ .err e :=
  ⟨Likely.maximize_ne_err T l s r e, Likely.minimize_ne_err T l s r e⟩

/-- hence on well-formed tables both always return `.ok _` -/
theorem likely_isOk (T : Tables) (l : Language) (s r : Option Bytes) (h : tablesWF T = true) :
    (Likely.maximize T l s r).isOk = true ∧ (Likely.minimize T l s r).isOk = true :=
  ⟨Likely.maximize_isOk (tablesWF_valuesHaveLang h) l s r,
   Likely.minimize_isOk (tablesWF_valuesHaveLang h) l s r⟩

/-- `LanguageIdentifier::maximize` / `minimize` -/
theorem langid_maxmin_total (T : Tables) (x : LangId) (h : tablesWF T = true) :
    (x.maximize T).isPanic = false ∧ (x.minimize T).isPanic = false :=
  ⟨(Res.isPanic_false_iff _).mpr (LangId.applyTriple_ne_panic x
      (Res.ne_panic_of_isOk (Likely.maximize_isOk (tablesWF_valuesHaveLang h) _ _ _))),
   (Res.isPanic_false_iff _).mpr (LangId.applyTriple_ne_panic x
      (Res.ne_panic_of_isOk (Likely.minimize_isOk (tablesWF_valuesHaveLang h) _ _ _)))⟩

/-- `character_direction`, with and without likely-subtags support, any layout, any identifier -/
theorem direction_total (flag : Bool) (T : Tables) (L : Layout) (x : LangId) (h : tablesWF T = true) :
    (LangId.direction flag T L x).isPanic = false :=
  (Res.isPanic_false_iff _).mpr (Res.ne_panic_of_isOk (LangId.direction_isOk flag (tablesWF_valuesHaveLang h) L x))

theorem direction_never_err (flag : Bool) (T : Tables) (L : Layout) (x : LangId) (e : Err) :
    LangId.direction flag T L x ≠ .err e :=
  LangId.direction_ne_err flag T L x e

theorem direction_isOk (flag : Bool) (T : Tables) (L : Layout) (x : LangId) (h : tablesWF T = true) :
    (LangId.direction flag T L x).isOk = true :=
  LangId.direction_isOk flag (tablesWF_valuesHaveLang h) L x

-- non-vacuity: the hypothesis holds for `tinyTables`, where the functions do real work …
example : Likely.maximize tinyTables (some [101,110]) none none
    = .ok (some (some [101,110], some [76,97,116,110], some [85,83])) := by decide
example : Likely.minimize tinyTables (some [101,110]) (some [76,97,116,110]) (some [85,83])
    = .ok (some (some [101,110], none, none)) := by decide
example : Likely.maximize tinyTables (some [0, 300]) (some []) none = .ok none := by decide   -- not even a subtag
-- … and it is needed: on `badTables` the `.unwrap()` is reached
example : Likely.maximize badTables (some [101,110]) none none = .panic := by decide
example : LangId.direction true badTables ⟨[], [], [], [28261]⟩ { language := some [101,110] } = .panic := by decide
example : LangId.direction true tinyTables tinyLayout { language := some [97,114] } = .ok .rtl := by decide

/-! ### the whole mutation / query API as one statement -/

/-- every operation, on every state, with every argument: the report is never `panic`
    (`maximize`/`minimize` consult the tables, hence the hypothesis) -/
theorem ops_total (T : Tables) (x : Locale) (o : Op) (h : tablesWF T = true) : (step T x o).2 ≠ .panic :=
  step_ne_panic_of T x o (fun _ => tablesWF_valuesHaveLang h)

/-- the 24 operations that do not consult the tables need no hypothesis at all -/
theorem ops_total_no_tables (T : Tables) (x : Locale) (o : Op) (ho : o ≠ .maximize ∧ o ≠ .minimize) :
    (step T x o).2 ≠ .panic := by
  apply step_ne_panic_of T x o
  intro hu
  cases o <;> simp_all [Op.usesTables]

/-- every history: no call in any sequence of operations from any state reports `panic` -/
theorem histories_total (T : Tables) (h : tablesWF T = true) (os : List Op) (x : Locale) :
    ∀ p ∈ run T x os, p.2 ≠ .panic := by
  induction os generalizing x with
  | nil => intro p hp; cases hp
  | cons o os ih =>
    intro p hp
    simp only [run, List.mem_cons] at hp
    rcases hp with rfl | hp
    · exact ops_total T x o h
    · exact ih _ p hp

-- non-vacuity: a history on `tinyTables` with malformed arguments and both table operations
example : (run tinyTables {} [.setLanguage [101,110], .setKeyword [99] [], .addTag [0], .maximize, .minimize,
                        .removeTag [102,111,111]]).map (·.2)
    = [.unit, .err, .err, .bool true, .bool true, .bool false] := by decide
example : (Op.setKeyword [99] [] ≠ .maximize ∧ Op.setKeyword [99] [] ≠ .minimize) := by decide
-- and on `badTables` the same call does report the panic
example : (step badTables { id := { language := some [101,110] } } .maximize).2 = .panic := by decide

/-! ### instantiated at the tables compiled into the crate

`Gen.tables` is regenerated from the compiled statics on every check run and `Gen.tables_wf`
(`Lemmas/GenDataWF`) is re-decided by the kernel whenever they change: in particular every table value
carries a language, so the `.unwrap()` in `lang_from_parts` is unreachable. -/

theorem likely_total_compiled (l : Language) (s r : Option Bytes) :
    (Likely.maximize Gen.tables l s r).isPanic = false ∧ (Likely.minimize Gen.tables l s r).isPanic = false :=
  likely_total Gen.tables l s r Gen.tables_wf

theorem direction_total_compiled (flag : Bool) (x : LangId) :
    (LangId.direction flag Gen.tables Gen.layout x).isPanic = false :=
  direction_total flag Gen.tables Gen.layout x Gen.tables_wf

/-- every public call on every `Locale` with every argument, against the compiled tables -/
theorem ops_total_compiled (x : Locale) (o : Op) : (step Gen.tables x o).2 ≠ .panic :=
  ops_total Gen.tables x o Gen.tables_wf

theorem histories_total_compiled (os : List Op) (x : Locale) : ∀ p ∈ run Gen.tables x os, p.2 ≠ .panic :=
  histories_total Gen.tables Gen.tables_wf os x

end UL.Props.C01
