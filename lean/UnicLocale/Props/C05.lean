/-
  Props/C05.lean — string round trip: parsing what was serialised gives back the same value.

  Every theorem is for EVERY value satisfying the representation invariant (`Spec/Inv.lean`), which
  every value obtainable by parsing satisfies (`parsed_locale_inv`, `parsed_langid_inv` below); the
  corollary (idempotence of `canonicalize`) is for every byte string.
-/
import UnicLocale.Lemmas.RoundTripReach

namespace UL.Props.C05
open UL

open UL.RT   -- `sampleLocale` = the parse of "en-Latn-US-macos-t-es-AR-h0-hybrid-u-attr-ca-buddhist-x-priv"

/-! ### 1. `split` undoes `join` -/

/-- `split (join ts) = ts` for a non-empty list of separator-free tokens -/
theorem split_join (ts : List Bytes) (hne : ts ≠ []) (hts : ∀ s ∈ ts, sepFree s = true) :
    splitSep (join ts) = ts := splitSep_join hne hts

/-- the leading `-` written before an extension yields one leading empty subtag -/
theorem split_dashAll (ts : List Bytes) (hne : ts ≠ []) (hts : ∀ s ∈ ts, sepFree s = true) :
    splitSep (dashAll ts) = [] :: ts := splitSep_dashAll hne hts

/-- every token the model prints is alphanumeric, hence separator-free -/
theorem printed_tokens_sepFree (x : Locale) (h : x.inv = true) :
    ∀ t ∈ Locale.tokens x, sepFree t = true := by
  obtain ⟨hi, he⟩ := Locale.inv_iff.1 h
  intro s hs
  simp only [Locale.tokens, List.mem_append] at hs
  rcases hs with hs | hs
  · exact sepFree_of_allAlnum (LangId.tokens_alnum hi s hs)
  · exact sepFree_of_allAlnum (ExtMap.tokens_alnum he s hs)

example : Locale.tokens sampleLocale ≠ [] ∧ (∀ s ∈ Locale.tokens sampleLocale, sepFree s = true) ∧
    splitSep (join (Locale.tokens sampleLocale)) = Locale.tokens sampleLocale := by decide
example : splitSep (dashAll (ExtMap.tokens sampleLocale.ext)) = [] :: ExtMap.tokens sampleLocale.ext := by decide

/-! ### 3. the four subtag types -/

theorem language_roundtrip (l : Language) (h : okLanguage l = true) :
    Language.fromBytes (Language.asStr l) = .ok l := Language.roundtrip h
theorem script_roundtrip (s : Bytes) (h : okScript (some s) = true) : Script.fromBytes s = .ok s :=
  Script.roundtrip h
theorem region_roundtrip (r : Bytes) (h : okRegion (some r) = true) : Region.fromBytes r = .ok r :=
  Region.roundtrip h
theorem variant_roundtrip (v : Bytes) (h : okVariant v = true) : Variant.fromBytes v = .ok v :=
  Variant.roundtrip h

example : okLanguage sampleLocale.id.language = true ∧ sampleLocale.id.language = some [101, 110] := by decide
example : okLanguage none = true ∧ Language.asStr none = [117, 110, 100] := by decide   -- "und"
example : okScript (some [76, 97, 116, 110]) = true := by decide                         -- "Latn"
example : okRegion (some [85, 83]) = true ∧ okRegion (some [52, 49, 57]) = true := by decide  -- "US", "419"
example : okVariant [109, 97, 99, 111, 115] = true ∧ okVariant [49, 57, 57, 54] = true := by decide

/-! ### 2. `LanguageIdentifier` -/

/-- on subtags: the printed subtags followed by anything that is empty or starts with a subtag
    that is not script/region/variant-shaped are read back as the value, the rest is handed back -/
theorem langid_tokens_roundtrip (x : LangId) (h : x.inv = true) (rest : List Bytes)
    (hr : ∀ t r, rest = t :: r →
      Spec.isScript t = false ∧ Spec.isRegion t = false ∧ Spec.isVariant t = false) :
    LangId.parseIter (LangId.tokens x ++ rest) true = .ok (x, rest) :=
  LangId.parseIter_tokens h rest hr true (Or.inl rfl)

theorem langid_roundtrip (x : LangId) (h : x.inv = true) :
    LangId.fromBytes (LangId.display x) = .ok x := LangId.roundtrip h

example : sampleLocale.id.inv = true ∧ sampleLocale.id.script.isSome ∧ sampleLocale.id.region.isSome ∧ sampleLocale.id.variants.isSome := by decide

/-! ### 4. the extension lists and `ExtensionsMap` -/

/-- `-u-`: the subtags after the singleton, followed by nothing or by another singleton -/
theorem uext_roundtrip (u : UExt) (h : u.inv = true) (rest : List Bytes)
    (hr : ∀ t r, rest = t :: r → t.length = 1) :
    UExt.parseIter ((UExt.tokens u).tail ++ rest) = .ok (u, rest) := by
  have : (UExt.tokens u).tail = UExt.body u := by
    cases he : u.isEmpty with
    | true => rw [UExt.tokens_of_isEmpty he, UExt.isEmpty_iff.1 he]; rfl
    | false => rw [UExt.tokens_of_not_isEmpty he]; rfl
  rw [this]
  exact UExt.parseIter_body h rest hr

/-- `-t-`: tlang (printed with `und` for the empty language) then the tfields; a tfield with an
    empty value list is printed as the bare key and re-read as such -/
theorem text_roundtrip (x : TExt) (h : x.inv = true) (hne : x.isEmpty = false) (rest : List Bytes)
    (hr : ∀ t r, rest = t :: r → t.length = 1) :
    TExt.parseIter ((TExt.tokens x).tail ++ rest) = .ok (x, rest) := by
  rw [TExt.tokens_of_not_isEmpty hne]
  exact TExt.parseIter_body h hne rest hr

/-- `-x-`: consumes everything; sorting a non-decreasing list changes nothing -/
theorem pext_roundtrip (p : PExt) (h : PExt.inv p = true) : PExt.parseIter p = .ok p :=
  PExt.parseIter_stored h

/-- on subtags (fuel `length + 1` of the dispatch loop suffices) -/
theorem extmap_tokens_roundtrip (m : ExtMap) (h : m.inv = true) :
    ExtMap.parseIter (ExtMap.tokens m) = .ok m := ExtMap.parseIter_tokens h

theorem extmap_roundtrip (m : ExtMap) (h : m.inv = true) :
    ExtMap.fromBytes (ExtMap.display m) = .ok m := ExtMap.roundtrip h

example : sampleLocale.ext.inv = true ∧ sampleLocale.ext.unicode.isEmpty = false ∧ sampleLocale.ext.transform.isEmpty = false ∧
    sampleLocale.ext.priv.isEmpty = false ∧ sampleLocale.ext.transform.tlang.isSome = true := by decide
-- the empty map, and a map whose only content is a tfield with no value / an `und` tlang
example : ({} : ExtMap).inv = true ∧ ExtMap.display {} = [] := by decide
example : ({ transform := { tfields := [([104, 48], [])] } } : ExtMap).inv = true ∧
    ExtMap.display { transform := { tfields := [([104, 48], [])] } } = [45, 116, 45, 104, 48] := by decide
example : ({ transform := { tlang := some {} } } : ExtMap).inv = true ∧
    ExtMap.display { transform := { tlang := some {} } } = [45, 116, 45, 117, 110, 100] := by decide

/-! ### 5. `Locale` -/

theorem locale_roundtrip (x : Locale) (h : x.inv = true) :
    Locale.fromBytes (Locale.display x) = .ok x := Locale.roundtrip h

example : sampleLocale.inv = true ∧ Locale.fromBytes (Locale.display sampleLocale) = .ok sampleLocale ∧
    Locale.display sampleLocale = sample := by decide

/-! ### 6. every parsed value satisfies the invariant; `canonicalize` is idempotent -/

theorem parsed_locale_inv (bs : Bytes) (x : Locale) (h : Locale.fromBytes bs = .ok x) : x.inv = true :=
  RT.locale_fromBytes_inv h
theorem parsed_langid_inv (bs : Bytes) (x : LangId) (h : LangId.fromBytes bs = .ok x) : x.inv = true :=
  RT.langId_fromBytes_inv h
theorem parsed_extmap_inv (bs : Bytes) (m : ExtMap) (h : ExtMap.fromBytes bs = .ok m) : m.inv = true :=
  RT.extmap_fromBytes_inv h

/-- idempotence from any proof of reachability (kept for gluing with another proof of it) -/
theorem canonicalize_idem_of_reach
    (hreach : ∀ bs x, Locale.fromBytes bs = .ok x → Locale.inv x = true)
    (bs s : Bytes) (h : Locale.canonicalize bs = .ok s) : Locale.canonicalize s = .ok s := by
  unfold Locale.canonicalize at h ⊢
  cases hp : Locale.fromBytes bs with
  | ok x =>
    rw [hp] at h
    simp only [Res.map] at h
    injection h with h
    subst h
    rw [Locale.roundtrip (hreach bs x hp)]
    rfl
  | err e => rw [hp] at h; cases h
  | panic => rw [hp] at h; cases h

theorem langid_canonicalize_idem_of_reach
    (hreach : ∀ bs x, LangId.fromBytes bs = .ok x → LangId.inv x = true)
    (bs s : Bytes) (h : LangId.canonicalize bs = .ok s) : LangId.canonicalize s = .ok s := by
  unfold LangId.canonicalize at h ⊢
  cases hp : LangId.fromBytes bs with
  | ok x =>
    rw [hp] at h
    simp only [Res.map] at h
    injection h with h
    subst h
    rw [LangId.roundtrip (hreach bs x hp)]
    rfl
  | err e => rw [hp] at h; cases h
  | panic => rw [hp] at h; cases h

/-- `canonicalize(canonicalize(s)) == canonicalize(s)` whenever `s` parses — `Locale` -/
theorem canonicalize_idem (bs s : Bytes) (h : Locale.canonicalize bs = .ok s) :
    Locale.canonicalize s = .ok s :=
  canonicalize_idem_of_reach parsed_locale_inv bs s h

/-- the same for `LanguageIdentifier::canonicalize` -/
theorem langid_canonicalize_idem (bs s : Bytes) (h : LangId.canonicalize bs = .ok s) :
    LangId.canonicalize s = .ok s :=
  langid_canonicalize_idem_of_reach parsed_langid_inv bs s h

-- non-vacuity: an input that is not yet canonical ("EN_latn-us") canonicalizes to "en-Latn-US"
example : Locale.canonicalize [69, 78, 95, 108, 97, 116, 110, 45, 117, 115] =
    .ok [101, 110, 45, 76, 97, 116, 110, 45, 85, 83] := by decide
example : LangId.canonicalize [69, 78, 95, 108, 97, 116, 110, 45, 117, 115] =
    .ok [101, 110, 45, 76, 97, 116, 110, 45, 85, 83] := by decide
example : Locale.canonicalize sample = .ok sample := by decide

end UL.Props.C05
