/-
  Props/C10.lean — mutator and getter histories behave like a plain set / map model.

  Reference model: `Spec/AbsOps.lean` (`Spec.AbsLoc`, `Spec.absStep`, `Spec.absObs`): variants and
  attributes are sets, keywords and tfields are maps, private tags are a sorted multiset; arguments
  are classified and normalised with the UTS #35 productions and the plain case maps.
  Abstraction: `abs : Locale → Spec.AbsLoc`, observation `obs : Locale → Spec.Obs` (every getter,
  the `is_empty`s, `to_string`) — `Lemmas/Refine.lean`.

  The likely-subtags content of `maximize` / `minimize` is the business of C06–C08: the reference
  model takes it as the parameter `L : Spec.LikelyFns`, and the theorems ask that `L` agrees with
  the model's functions on stored triples (`LikelyAgrees T L`; `modelLikely T` agrees by `rfl`).
  That `maximize` / `minimize` keep an identifier valid is likewise C06–C08 / table
  well-formedness: it is the hypothesis `LikelyPreserves T` of `histories` (everything else about
  invariant preservation is proved here), or the blanket hypothesis `hpres` of `histories_of_pres`.
-/
import UnicLocale.Lemmas.RefineInv
import UnicLocale.Lemmas.ReachOps
import UnicLocale.Props.C05
import UnicLocale.Lemmas.LikelySpec

namespace UL.Props.C10
open UL UL.Rf

/-! ### one call -/

/-- Every public call on a value satisfying the representation invariant does to the abstract
    value exactly what the reference model does, and reports what the reference model reports —
    for every operation and every argument byte string (well formed or not).  The sortedness parts
    of the invariant are what make the modelled `binary_search` meet its contract in
    `set_attribute`, `remove_attribute`, `remove_tag`. -/
theorem refine_step (T : Tables) (L : Spec.LikelyFns) (hL : LikelyAgrees T L)
    (x : Locale) (o : Op) (hx : x.inv = true) :
    abs (step T x o).1 = (Spec.absStep L (abs x) o).1 ∧ (step T x o).2 = (Spec.absStep L (abs x) o).2 :=
  step_refines T L hL x o hx

/-- the same with the reference model instantiated by the model's own likely-subtags functions:
    no hypothesis beyond the invariant -/
theorem refine_step_model (T : Tables) (x : Locale) (o : Op) (hx : x.inv = true) :
    abs (step T x o).1 = (Spec.absStep (modelLikely T) (abs x) o).1 ∧
    (step T x o).2 = (Spec.absStep (modelLikely T) (abs x) o).2 :=
  step_refines T (modelLikely T) (modelLikely_agrees T) x o hx

/-- the same against the dictionary formulation of the likely-subtags data (`Spec.specLikely`),
    given that the code's `maximize` / `minimize` compute it on valid triples — `hmax`, `hmin` are
    the statements of C06 / C08 -/
theorem refine_step_spec (T : Tables)
    (hmax : ∀ l s r, validTriple l s r = true →
      Likely.maximize T l s r = .ok (Spec.maximize (Spec.findTables T) l s r))
    (hmin : ∀ l s r, validTriple l s r = true →
      Likely.minimize T l s r = .ok (Spec.minimize (Spec.findTables T) l s r))
    (x : Locale) (o : Op) (hx : x.inv = true) :
    abs (step T x o).1 = (Spec.absStep (Spec.specLikely T) (abs x) o).1 ∧
    (step T x o).2 = (Spec.absStep (Spec.specLikely T) (abs x) o).2 :=
  step_refines T (Spec.specLikely T) (likelyAgrees_specLikely T hmax hmin) x o hx

/-- Every getter (`language`, `script`, `region`, `variants()`, `attributes()`, `keyword_keys()`,
    `keyword(k)` of each stored key, `tlang`, `tfield_keys()`, `tfield(k)`, `tags()`, the four
    `is_empty`s, `to_string()`) shows what the reference model shows — for EVERY value. -/
theorem obs_refines (L : Spec.LikelyFns) (x : Locale) : obs x = Spec.absObs L (abs x) := obs_eq L x

/-- in particular `to_string` is the canonical text of the abstract value -/
theorem display_refines (x : Locale) : Locale.display x = Spec.canon (Spec.toLocV (abs x)) :=
  display_eq_canon x

/-- every call other than `maximize` / `minimize` preserves the invariant outright; those two do
    when the likely-subtags functions return valid subtags (C06–C08) -/
theorem step_preserves_inv (T : Tables) (hlk : LikelyPreserves T) (x : Locale) (o : Op)
    (hx : x.inv = true) : (step T x o).1.inv = true := step_inv T hlk x o hx

/-! ### failing calls -/

/-- A call that returns an error leaves the value unchanged (every value, every call). -/
theorem err_unchanged (T : Tables) (x : Locale) (o : Op) (h : (step T x o).2 = .err) :
    (step T x o).1 = x := step_fail_unchanged T x o (Or.inl h)

/-- … and so does a call that panics (none does on reachable values — C01/C06; stated for
    completeness of the model's `Out`). -/
theorem panic_unchanged (T : Tables) (x : Locale) (o : Op) (h : (step T x o).2 = .panic) :
    (step T x o).1 = x := step_fail_unchanged T x o (Or.inr h)

/-- A call returns an error exactly when one of its text arguments is outside the UTS #35 class
    of the subtag it stands for (`Spec.argOk`). -/
theorem err_iff_malformed (T : Tables) (x : Locale) (o : Op) (hx : x.inv = true) :
    (step T x o).2 = .err ↔ Spec.argOk o = false := step_err_iff T x o hx

/-! ### accepted arguments are stored in the parser's normal form

  Each mutator runs the constructor the parser runs on the same kind of subtag
  (`Language/Script/Region/Variant::from_bytes`, `parse_key`, `parse_type`, `parse_attribute`,
  `parse_tkey`, `parse_tvalue`, `parse_value`, `LanguageIdentifier::from_bytes`); a well-formed
  argument is accepted, the constructor returns the spec normal form, and that is what is stored. -/

theorem setLanguage_stored (T : Tables) (x : Locale) (v : Bytes) (hx : x.inv = true)
    (hv : Spec.isLanguage v = true) :
    (step T x (.setLanguage v)).2 = .unit ∧ Language.fromBytes v = .ok (Spec.canonLanguage v) ∧
    (step T x (.setLanguage v)).1.id.language = Spec.canonLanguage v := by
  have h := refine_step_model T x (.setLanguage v) hx
  simp only [Spec.absStep, hv, if_true] at h
  exact ⟨h.2, by rw [Props.C15.language_exact, if_pos hv], congrArg Spec.AbsLoc.language h.1⟩

theorem setScript_stored (T : Tables) (x : Locale) (v : Bytes) (hx : x.inv = true)
    (hv : Spec.isScript v = true) :
    (step T x (.setScript (some v))).2 = .unit ∧ Script.fromBytes v = .ok (title v) ∧
    (step T x (.setScript (some v))).1.id.script = some (title v) := by
  have h := refine_step_model T x (.setScript (some v)) hx
  simp only [Spec.absStep, hv, if_true] at h
  exact ⟨h.2, by rw [Props.C15.script_exact, if_pos hv], congrArg Spec.AbsLoc.script h.1⟩

theorem setRegion_stored (T : Tables) (x : Locale) (v : Bytes) (hx : x.inv = true)
    (hv : Spec.isRegion v = true) :
    (step T x (.setRegion (some v))).2 = .unit ∧ Region.fromBytes v = .ok (upper v) ∧
    (step T x (.setRegion (some v))).1.id.region = some (upper v) := by
  have h := refine_step_model T x (.setRegion (some v)) hx
  simp only [Spec.absStep, hv, if_true] at h
  exact ⟨h.2, by rw [Props.C15.region_exact, if_pos hv], congrArg Spec.AbsLoc.region h.1⟩

/-- `set_variants`: lower-cased, sorted, duplicate-free — the set of the arguments; and the stored
    option is `None` exactly for the empty set (never `Some([])`) -/
theorem setVariants_stored (T : Tables) (x : Locale) (vs : List Bytes) (hx : x.inv = true)
    (hv : vs.all Spec.isVariant = true) :
    (step T x (.setVariants vs)).2 = .unit ∧
    collectRes Variant.fromBytes vs = .ok (vs.map lower) ∧
    (step T x (.setVariants vs)).1.id.variantList = Spec.toSet (vs.map lower) ∧
    (step T x (.setVariants vs)).1.id.variants =
      (if (Spec.toSet (vs.map lower)).isEmpty then none else some (Spec.toSet (vs.map lower))) := by
  have h := refine_step_model T x (.setVariants vs) hx
  simp only [Spec.absStep, hv, if_true] at h
  refine ⟨h.2, by rw [collectRes_variant_exact, if_pos hv], congrArg Spec.AbsLoc.variants h.1, ?_⟩
  simp only [step, collectRes_variant_exact, hv, if_true, outOfUnit]
  exact LangId.finishVariants_eq _

theorem setKeyword_stored (T : Tables) (x : Locale) (k : Bytes) (vs : List Bytes) (hx : x.inv = true)
    (hk : Spec.isKey k = true) (hv : vs.all Spec.isAttr = true) :
    (step T x (.setKeyword k vs)).2 = .unit ∧ parseKey k = .ok (lower k) ∧
    collectTypes parseType vs = .ok ((vs.map lower).filter (· != Spec.trueWord)) ∧
    (step T x (.setKeyword k vs)).1.ext.unicode.keywords =
      Spec.mapInsert (lower k) ((vs.map lower).filter (· != Spec.trueWord)) x.ext.unicode.keywords ∧
    AMap.get (lower k) (step T x (.setKeyword k vs)).1.ext.unicode.keywords =
      some ((vs.map lower).filter (· != Spec.trueWord)) := by
  have h := refine_step_model T x (.setKeyword k vs) hx
  have hn : Spec.normValues vs = some ((vs.map lower).filter (· != Spec.trueWord)) := by
    unfold Spec.normValues; rw [if_pos hv]
  simp only [Spec.absStep, hk, hn, if_true] at h
  have hkw : (step T x (.setKeyword k vs)).1.ext.unicode.keywords = _ := congrArg Spec.AbsLoc.keywords h.1
  refine ⟨h.2, by rw [parseKey_exact, if_pos hk], by rw [collectTypes_exact parseType_exact, hn], hkw, ?_⟩
  rw [hkw, ← AMap.insert_eq_mapInsert, AMap.get_insert, if_pos rfl]

theorem setAttribute_stored (T : Tables) (x : Locale) (a : Bytes) (hx : x.inv = true)
    (ha : Spec.isAttr a = true) :
    (step T x (.setAttribute a)).2 = .unit ∧ parseAttribute a = .ok (lower a) ∧
    (step T x (.setAttribute a)).1.ext.unicode.attributes =
      Spec.insertSet (lower a) x.ext.unicode.attributes ∧
    lower a ∈ (step T x (.setAttribute a)).1.ext.unicode.attributes := by
  have h := refine_step_model T x (.setAttribute a) hx
  simp only [Spec.absStep, ha, if_true] at h
  have hat : (step T x (.setAttribute a)).1.ext.unicode.attributes = _ := congrArg Spec.AbsLoc.attrs h.1
  refine ⟨h.2, by rw [parseAttribute_exact, if_pos ha], hat, ?_⟩
  rw [hat, mem_insertSet]; exact Or.inl rfl

theorem setTLang_stored (T : Tables) (x : Locale) (l : Bytes) (v : Spec.LangIdV) (hx : x.inv = true)
    (hl : Spec.langIdResult l = .ok v) :
    (step T x (.setTLang l)).2 = .unit ∧ LangId.fromBytes l = .ok (concreteLi v) ∧
    (step T x (.setTLang l)).1.ext.transform.tlang = some (concreteLi v) := by
  have h := refine_step_model T x (.setTLang l) hx
  simp only [Spec.absStep, hl] at h
  have hf : LangId.fromBytes l = .ok (concreteLi v) := by rw [Props.C02.fromBytes_exact, hl]
  refine ⟨h.2, hf, ?_⟩
  simp only [step, hf, outOfUnit]
  rfl

theorem setTField_stored (T : Tables) (x : Locale) (k : Bytes) (vs : List Bytes) (hx : x.inv = true)
    (hk : Spec.isTKey k = true) (hv : vs.all Spec.isAttr = true) :
    (step T x (.setTField k vs)).2 = .unit ∧ parseTKey k = .ok (lower k) ∧
    collectTypes parseTValue vs = .ok ((vs.map lower).filter (· != Spec.trueWord)) ∧
    (step T x (.setTField k vs)).1.ext.transform.tfields =
      Spec.mapInsert (lower k) ((vs.map lower).filter (· != Spec.trueWord)) x.ext.transform.tfields ∧
    AMap.get (lower k) (step T x (.setTField k vs)).1.ext.transform.tfields =
      some ((vs.map lower).filter (· != Spec.trueWord)) := by
  have h := refine_step_model T x (.setTField k vs) hx
  have hn : Spec.normValues vs = some ((vs.map lower).filter (· != Spec.trueWord)) := by
    unfold Spec.normValues; rw [if_pos hv]
  simp only [Spec.absStep, hk, hn, if_true] at h
  have hkw : (step T x (.setTField k vs)).1.ext.transform.tfields = _ := congrArg Spec.AbsLoc.tfields h.1
  refine ⟨h.2, by rw [parseTKey_exact, if_pos hk], by rw [collectTypes_exact parseTValue_exact, hn], hkw, ?_⟩
  rw [hkw, ← AMap.insert_eq_mapInsert, AMap.get_insert, if_pos rfl]

theorem addTag_stored (T : Tables) (x : Locale) (t : Bytes) (hx : x.inv = true)
    (ht : Spec.isPrivate t = true) :
    (step T x (.addTag t)).2 = .unit ∧ parsePrivate t = .ok (lower t) ∧
    (step T x (.addTag t)).1.ext.priv = Spec.sortInsert (lower t) x.ext.priv ∧
    lower t ∈ (step T x (.addTag t)).1.ext.priv := by
  have h := refine_step_model T x (.addTag t) hx
  simp only [Spec.absStep, ht, if_true] at h
  have hp : (step T x (.addTag t)).1.ext.priv = _ := congrArg Spec.AbsLoc.tags h.1
  refine ⟨h.2, by rw [parsePrivate_exact, if_pos ht], hp, ?_⟩
  rw [hp, mem_sortInsert]; exact Or.inl rfl

/-! ### histories -/

/-- From any value with the invariant, along any finite sequence of calls with arbitrary
    arguments: the abstract value after every call and the output of every call are the reference
    model's, and the invariant holds after every call.  `hpres` = every call preserves the
    invariant (reachability, `Lemmas/Reach.lean`). -/
theorem histories_of_pres (T : Tables) (L : Spec.LikelyFns) (hL : LikelyAgrees T L)
    (hpres : ∀ x o, x.inv = true → (step T x o).1.inv = true)
    (x : Locale) (hx : x.inv = true) (os : List Op) :
    (run T x os).map (fun r => (abs r.1, r.2)) = Spec.absRun L (abs x) os ∧
    (∀ r ∈ run T x os, r.1.inv = true) := by
  induction os generalizing x with
  | nil => exact ⟨rfl, by simp [run]⟩
  | cons o os ih =>
    have h1 := step_refines_pair T L hL x o hx
    obtain ⟨ih1, ih2⟩ := ih (step T x o).1 (hpres x o hx)
    constructor
    · simp only [run, Spec.absRun, List.map_cons]
      rw [h1, ih1, ← h1]
    · intro r hr
      simp only [run, List.mem_cons] at hr
      rcases hr with rfl | hr
      · exact hpres x o hx
      · exact ih2 r hr

/-- the same, seen through the getters: the output of every call and the observation after every
    call equal the reference model's -/
theorem histories_obs_of_pres (T : Tables) (L : Spec.LikelyFns) (hL : LikelyAgrees T L)
    (hpres : ∀ x o, x.inv = true → (step T x o).1.inv = true)
    (x : Locale) (hx : x.inv = true) (os : List Op) :
    (run T x os).map (fun r => (r.2, obs r.1)) =
      (Spec.absRun L (abs x) os).map (fun r => (r.2, Spec.absObs L r.1)) := by
  rw [← (histories_of_pres T L hL hpres x hx os).1, List.map_map]
  apply List.map_congr_left
  intro r _
  simp only [Function.comp, obs_eq L]

/-- the final value of a history -/
theorem runState_of_pres (T : Tables) (L : Spec.LikelyFns) (hL : LikelyAgrees T L)
    (hpres : ∀ x o, x.inv = true → (step T x o).1.inv = true)
    (x : Locale) (hx : x.inv = true) (os : List Op) :
    abs (runState T x os) = Spec.absRunState L (abs x) os ∧ (runState T x os).inv = true := by
  induction os generalizing x with
  | nil => exact ⟨rfl, hx⟩
  | cons o os ih =>
    have h := ih (step T x o).1 (hpres x o hx)
    simp only [runState, Spec.absRunState, List.foldl_cons] at h ⊢
    rw [← (step_refines T L hL x o hx).1]
    exact h

/-- Histories with invariant preservation proved here for every call but `maximize` /
    `minimize` (`LikelyPreserves T`: those two return valid subtags — C06–C08). -/
theorem histories (T : Tables) (L : Spec.LikelyFns) (hL : LikelyAgrees T L) (hlk : LikelyPreserves T)
    (x : Locale) (hx : x.inv = true) (os : List Op) :
    (run T x os).map (fun r => (abs r.1, r.2)) = Spec.absRun L (abs x) os ∧
    (run T x os).map (fun r => (r.2, obs r.1)) =
      (Spec.absRun L (abs x) os).map (fun r => (r.2, Spec.absObs L r.1)) ∧
    (∀ r ∈ run T x os, r.1.inv = true) :=
  ⟨(histories_of_pres T L hL (step_inv T hlk) x hx os).1,
   histories_obs_of_pres T L hL (step_inv T hlk) x hx os,
   (histories_of_pres T L hL (step_inv T hlk) x hx os).2⟩

theorem default_inv : ({} : Locale).inv = true := by decide
theorem abs_default : abs ({} : Locale) = ({} : Spec.AbsLoc) := rfl

/-- from `Locale::default()` -/
theorem histories_from_default (T : Tables) (L : Spec.LikelyFns) (hL : LikelyAgrees T L)
    (hlk : LikelyPreserves T) (os : List Op) :
    (run T {} os).map (fun r => (abs r.1, r.2)) = Spec.absRun L {} os ∧
    (run T {} os).map (fun r => (r.2, obs r.1)) =
      (Spec.absRun L {} os).map (fun r => (r.2, Spec.absObs L r.1)) :=
  ⟨(histories T L hL hlk {} default_inv os).1, (histories T L hL hlk {} default_inv os).2.1⟩

/-- from any parsed value; `hparse` = every successful parse satisfies the invariant
    (reachability, C04 — `Lemmas/Reach.lean`) -/
theorem histories_from_parsed (T : Tables) (L : Spec.LikelyFns) (hL : LikelyAgrees T L)
    (hlk : LikelyPreserves T)
    (hparse : ∀ bs x, Locale.fromBytes bs = .ok x → x.inv = true)
    (bs : Bytes) (x : Locale) (hbs : Locale.fromBytes bs = .ok x) (os : List Op) :
    (run T x os).map (fun r => (abs r.1, r.2)) = Spec.absRun L (abs x) os ∧
    (run T x os).map (fun r => (r.2, obs r.1)) =
      (Spec.absRun L (abs x) os).map (fun r => (r.2, Spec.absObs L r.1)) :=
  ⟨(histories T L hL hlk x (hparse bs x hbs) os).1, (histories T L hL hlk x (hparse bs x hbs) os).2.1⟩

/-- Histories that never call `maximize` / `minimize` need no hypothesis beyond the invariant of
    the starting value (and the reference model's likely-subtags parameter is irrelevant). -/
theorem histories_noLikely (T : Tables) (L : Spec.LikelyFns)
    (x : Locale) (hx : x.inv = true) (os : List Op) (hos : ∀ o ∈ os, noLikely o = true) :
    (run T x os).map (fun r => (abs r.1, r.2)) = Spec.absRun L (abs x) os ∧
    (run T x os).map (fun r => (r.2, obs r.1)) =
      (Spec.absRun L (abs x) os).map (fun r => (r.2, Spec.absObs L r.1)) ∧
    (∀ r ∈ run T x os, r.1.inv = true) := by
  have key : (run T x os).map (fun r => (abs r.1, r.2)) = Spec.absRun L (abs x) os ∧
      (∀ r ∈ run T x os, r.1.inv = true) := by
    induction os generalizing x with
    | nil => exact ⟨rfl, by simp [run]⟩
    | cons o os ih =>
      have ho := hos o (List.mem_cons_self ..)
      have h1 := step_refines_pair T (modelLikely T) (modelLikely_agrees T) x o hx
      rw [absStep_noLikely (modelLikely T) L _ _ ho] at h1
      have hi := step_inv_noLikely T x o hx ho
      obtain ⟨ih1, ih2⟩ := ih (step T x o).1 hi (fun o' ho' => hos o' (List.mem_cons_of_mem _ ho'))
      constructor
      · simp only [run, Spec.absRun, List.map_cons]
        rw [h1, ih1, ← h1]
      · intro r hr
        simp only [run, List.mem_cons] at hr
        rcases hr with rfl | hr
        · exact hi
        · exact ih2 r hr
  refine ⟨key.1, ?_, key.2⟩
  rw [← key.1, List.map_map]
  apply List.map_congr_left
  intro r _
  simp only [Function.comp, obs_eq L]

/-! ### re-parse -/

/-- After any history the value re-parses from its `to_string()` to itself.  `hrt` is C05's
    theorem (`Props/C05`); with `display_refines` the re-parsed text is the reference model's
    canonical text. -/
theorem reparse_after_history (T : Tables)
    (hpres : ∀ x o, x.inv = true → (step T x o).1.inv = true)
    (hrt : ∀ x : Locale, x.inv = true → Locale.fromBytes (Locale.display x) = .ok x)
    (x : Locale) (hx : x.inv = true) (os : List Op) :
    ∀ r ∈ run T x os, Locale.fromBytes (Locale.display r.1) = .ok r.1 ∧
      Locale.display r.1 = Spec.canon (Spec.toLocV (abs r.1)) := by
  intro r hr
  have hinv := (histories_of_pres T (modelLikely T) (modelLikely_agrees T) hpres x hx os).2 r hr
  exact ⟨hrt r.1 hinv, display_eq_canon r.1⟩


/-! ### the statements with every hypothesis discharged

`hpres` is the reachability theorem (`Reach.step_inv`: every call preserves the invariant on tables
satisfying `tablesWF`), `hparse` and `hrt` are C05's theorems.  What remains is `tablesWF T`, which
is decided for the compiled tables by the kernel (`Lemmas/GenDataWF`, used by C06/C18). -/

/-- From any obtainable value, along any finite sequence of public calls with arbitrary arguments:
    the abstract value and the output of every call are the reference model's, every getter
    (`obs`) agrees with the reference model after every call, the invariant holds after every call,
    and the value re-parses from its `to_string()` — the text being the reference model's canonical
    text. -/
theorem histories_full (T : Tables) (hT : tablesWF T = true) (x : Locale) (hx : x.inv = true) (os : List Op) :
    (run T x os).map (fun r => (abs r.1, r.2)) = Spec.absRun (modelLikely T) (abs x) os ∧
    (run T x os).map (fun r => (r.2, obs r.1)) =
      (Spec.absRun (modelLikely T) (abs x) os).map (fun r => (r.2, Spec.absObs (modelLikely T) r.1)) ∧
    (∀ r ∈ run T x os, r.1.inv = true ∧ Locale.fromBytes (Locale.display r.1) = .ok r.1 ∧
      Locale.display r.1 = Spec.canon (Spec.toLocV (abs r.1))) := by
  have hpres : ∀ x o, x.inv = true → (step T x o).1.inv = true := fun x o hx => UL.Reach.step_inv T x o hT hx
  have h1 := histories_of_pres T (modelLikely T) (modelLikely_agrees T) hpres x hx os
  refine ⟨h1.1, histories_obs_of_pres T (modelLikely T) (modelLikely_agrees T) hpres x hx os, ?_⟩
  intro r hr
  have h2 := reparse_after_history T hpres UL.Props.C05.locale_roundtrip x hx os r hr
  exact ⟨h1.2 r hr, h2.1, h2.2⟩

/-- … from `Locale::default()` -/
theorem histories_full_from_default (T : Tables) (hT : tablesWF T = true) (os : List Op) :
    (run T {} os).map (fun r => (abs r.1, r.2)) = Spec.absRun (modelLikely T) {} os ∧
    (∀ r ∈ run T {} os, r.1.inv = true ∧ Locale.fromBytes (Locale.display r.1) = .ok r.1) := by
  have h := histories_full T hT {} default_inv os
  exact ⟨h.1, fun r hr => ⟨(h.2.2 r hr).1, (h.2.2 r hr).2.1⟩⟩

/-- … from any parsed value -/
theorem histories_full_from_parsed (T : Tables) (hT : tablesWF T = true) (bs : Bytes) (x : Locale)
    (hbs : Locale.fromBytes bs = .ok x) (os : List Op) :
    (run T x os).map (fun r => (abs r.1, r.2)) = Spec.absRun (modelLikely T) (abs x) os ∧
    (∀ r ∈ run T x os, r.1.inv = true ∧ Locale.fromBytes (Locale.display r.1) = .ok r.1) := by
  have h := histories_full T hT x (UL.Props.C05.parsed_locale_inv bs x hbs) os
  exact ⟨h.1, fun r hr => ⟨(h.2.2 r hr).1, (h.2.2 r hr).2.1⟩⟩

/-- the same step refinement against the reference model whose likely-subtags content is the
    dictionary formulation of C06/C08 over the tables (`maximize_eq_spec`, `minimize_eq_spec` plugged in) -/
theorem refine_step_dictionary (T : Tables) (hT : tablesWF T = true) (x : Locale) (o : Op) (hx : x.inv = true) :
    abs (step T x o).1 = (Spec.absStep (Spec.specLikely T) (abs x) o).1 ∧
    (step T x o).2 = (Spec.absStep (Spec.specLikely T) (abs x) o).2 :=
  refine_step_spec T (fun l s r hv => UL.maximize_eq_spec T hT l s r hv)
    (fun l s r hv => UL.minimize_eq_spec T hT l s r hv) x o hx

/-! ### non-vacuity and pinned instances -/

/-- "en-Latn-US-macos-t-es-AR-h0-hybrid-u-attr-ca-buddhist-x-priv" as a value -/
def x0 : Locale :=
  { id := { language := some [101,110], script := some [76,97,116,110], region := some [85,83],
            variants := some [[109,97,99,111,115]] },
    ext := { unicode := { keywords := [([99,97], [[98,117,100,100,104,105,115,116]])],
                          attributes := [[97,116,116,114]] },
             transform := { tlang := some { language := some [101,115], region := some [65,82] },
                            tfields := [([104,48], [[104,121,98,114,105,100]])] },
             priv := [[112,114,105,118]] } }

-- the invariant is satisfiable by a value carrying all three extensions (and by `default()`)
example : x0.inv = true := by decide
example : ({} : Locale).inv = true := by decide
-- `LikelyAgrees` is satisfiable: the model's own functions
example (T : Tables) : LikelyAgrees T (modelLikely T) := modelLikely_agrees T

-- `LikelyPreserves` (hence `hpres`) is satisfiable: with the empty tables `T0` both calls change nothing
example : LikelyPreserves T0 := likelyPreserves_T0
example : ∀ x o, x.inv = true → (step T0 x o).1.inv = true := step_inv T0 likelyPreserves_T0

-- the hypotheses of the `_stored` theorems are satisfiable (mixed-case arguments)
example : Spec.isLanguage [69,78] = true ∧ Spec.isScript [108,65,84,78] = true ∧ Spec.isRegion [117,115] = true ∧
    [[86,65,76,69,78,67,73,65]].all Spec.isVariant = true ∧ Spec.isKey [67,65] = true ∧
    [[84,114,117,101],[66,117,100,100,104,105,115,116]].all Spec.isAttr = true ∧ Spec.isTKey [72,48] = true ∧
    Spec.isPrivate [65] = true ∧ Spec.langIdResult [69,83,95,97,114] = .ok ⟨some [101,115], none, some [65,82], []⟩ := by
  decide

/-- a nine-call history: set_keyword ca [buddhist], set_attribute foo, set_attribute bar,
    remove_attribute foo, add_tag b, add_tag a, add_tag a, remove_tag a, set_keyword with the
    malformed key "c" -/
def h9 : List Op :=
  [.setKeyword [99,97] [[98,117,100,100,104,105,115,116]], .setAttribute [102,111,111],
   .setAttribute [98,97,114], .removeAttribute [102,111,111], .addTag [98], .addTag [97], .addTag [97],
   .removeTag [97], .setKeyword [99] [[102,111,111]]]

-- run through the model and through the reference model, from `default()`: same outputs, same
-- abstract values, same observations after every call
example : (run T0 {} h9).map (fun r => (abs r.1, r.2)) = Spec.absRun (modelLikely T0) {} h9 := by decide
example : (run T0 {} h9).map (fun r => (r.2, obs r.1)) =
    (Spec.absRun (modelLikely T0) {} h9).map (fun r => (r.2, Spec.absObs (modelLikely T0) r.1)) := by decide
-- … and what they are
example : (run T0 {} h9).map (·.2) =
    [.unit, .unit, .unit, .bool true, .unit, .unit, .unit, .bool true, .err] := by decide
example : (obs (runState T0 {} h9)).text =
    [117,110,100,45,117,45,98,97,114,45,99,97,45,98,117,100,100,104,105,115,116,45,120,45,97,45,98] := by
  decide   -- "und-u-bar-ca-buddhist-x-a-b"
-- the same history from a parsed value carrying all three extensions
example : (run T0 x0 h9).map (fun r => (abs r.1, r.2)) = Spec.absRun (modelLikely T0) (abs x0) h9 := by decide
-- the failing last call left the value unchanged
example : (step T0 (runState T0 {} (h9.take 8)) (.setKeyword [99] [[102,111,111]])) =
    (runState T0 {} (h9.take 8), .err) := by decide
-- accepted arguments in the parser's normal form: the history with mixed-case arguments builds the
-- value the parser builds from the mixed-case text "und-u-BAR-Ca-True-BUDDHIST-x-B-a"
example : Locale.fromBytes [117,110,100,45,117,45,66,65,82,45,67,97,45,84,114,117,101,45,66,85,68,68,72,73,83,84,
      45,120,45,66,45,97] =
    .ok (runState T0 {} [.setKeyword [67,97] [[84,114,117,101],[66,85,68,68,72,73,83,84]], .setAttribute [66,65,82],
      .addTag [66], .addTag [97]]) := by decide

/-- The invariant cannot be dropped from `refine_step`: on the (unreachable) value whose private
    tags are the unsorted vector `[b, a]`, `remove_tag("b")` misses the tag (`binary_search` on an
    unsorted vector) while the multiset model removes it. -/
example :
    let x : Locale := { ext := { priv := [[98], [97]] } }
    x.inv = false ∧ (step T0 x (.removeTag [98])).2 = .bool false ∧
    (Spec.absStep (modelLikely T0) (abs x) (.removeTag [98])).2 = .bool true := by decide

end UL.Props.C10
