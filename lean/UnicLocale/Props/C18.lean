/-
  Props/C18.lean — the bundled lookup tables are exactly what the CLDR source data determine.

  `Gen.tables`, `Gen.layout`, `Gen.cldrVersion` are translated from the compiled crate on every run;
  `Gen.cldr`, `Gen.cldrLayout`, `Gen.cldrJsonVersion` from the CLDR JSON in the repository.  All data
  facts are decided by the kernel over the COMPLETE tables (no sampling); the statements below are the
  specification's (list-based) predicates, reached from fast arithmetic checkers through general
  soundness proofs (`Lemmas/GenDataFast`, `Lemmas/GenDataSort`).
-/
import UnicLocale.Lemmas.GenDataDerived
import UnicLocale.Lemmas.GenDataLayout

namespace UL.Props.C18
open UL

/-! ### each table is strictly increasing in the integer key order the binary search uses -/

theorem langOnly_sorted : sorted1 Gen.tables.langOnly.toList = true := Gen.tables_WF.s1
theorem langRegion_sorted : sorted2 Gen.tables.langRegion.toList = true := Gen.tables_WF.s2
theorem langScript_sorted : sorted2 Gen.tables.langScript.toList = true := Gen.tables_WF.s3
theorem scriptRegion_sorted : sorted2 Gen.tables.scriptRegion.toList = true := Gen.tables_WF.s4
theorem scriptOnly_sorted : sorted1 Gen.tables.scriptOnly.toList = true := Gen.tables_WF.s5
theorem regionOnly_sorted : sorted1 Gen.tables.regionOnly.toList = true := Gen.tables_WF.s6

/-- `sorted1`/`sorted2` mean: keys strictly increase along the table (no duplicate keys) -/
theorem sorted1_meaning (l : List Row1) : sorted1 l = true ↔ l.Pairwise (fun a b => a.k < b.k) :=
  sorted1_iff_pairwise
theorem sorted2_meaning (l : List Row2) :
    sorted2 l = true ↔ l.Pairwise (fun a b => a.k1 < b.k1 ∨ (a.k1 = b.k1 ∧ a.k2 < b.k2)) := by
  rw [sorted2_iff_pairwise]
  constructor <;> intro h <;> exact h.imp (fun h => by first | exact lt2_iff.1 h | exact lt2_iff.2 h)

/-! ### exactly one row per CLDR key, carrying the CLDR value

Each table is the key-sorted image of the CLDR entries of its shape (`Spec.derive…`), no entry is left
without a table, and no CLDR key occurs twice. -/

theorem langOnly_derived : Gen.tables.langOnly.toList = Spec.deriveLangOnly Gen.cldr := Gen.langOnly_derived
theorem langRegion_derived : Gen.tables.langRegion.toList = Spec.deriveLangRegion Gen.cldr := Gen.langRegion_derived
theorem langScript_derived : Gen.tables.langScript.toList = Spec.deriveLangScript Gen.cldr := Gen.langScript_derived
theorem scriptRegion_derived : Gen.tables.scriptRegion.toList = Spec.deriveScriptRegion Gen.cldr :=
  Gen.scriptRegion_derived
theorem scriptOnly_derived : Gen.tables.scriptOnly.toList = Spec.deriveScriptOnly Gen.cldr := Gen.scriptOnly_derived
theorem regionOnly_derived : Gen.tables.regionOnly.toList = Spec.deriveRegionOnly Gen.cldr := Gen.regionOnly_derived
theorem nothing_unplaced : Spec.unplaced Gen.cldr = [] := Gen.unplaced_nil
theorem cldr_keys_distinct : Gen.cldr.Pairwise (fun a b => (a.kl, a.ks, a.kr) ≠ (b.kl, b.ks, b.kr)) :=
  Gen.cldr_keysDistinct

/-- as many rows in the six tables together as CLDR entries -/
theorem row_count :
    Gen.tables.langOnly.toList.length + Gen.tables.langRegion.toList.length + Gen.tables.langScript.toList.length +
      Gen.tables.scriptRegion.toList.length + Gen.tables.scriptOnly.toList.length +
      Gen.tables.regionOnly.toList.length = Gen.cldr.length :=
  Spec.length_tables Gen.tables_derived

/-- every CLDR entry (other than the bare `und` one) is found in the tables under its key, with its value -/
theorem entry_has_row (e : Spec.CEntry) (he : e ∈ Gen.cldr) (h0 : (e.kl, e.ks, e.kr) ≠ (0, 0, 0)) :
    Spec.findTables Gen.tables (e.kl, e.ks, e.kr) = some (e.vl, e.vs, e.vr) := by
  have hku : (e.kl, e.ks, e.kr) ≠ (Spec.undInt, 0, 0) := by
    intro h; simp only [Prod.mk.injEq] at h; exact Gen.cldr_noUnd e he h.1
  rw [Gen.findTables_eq_cldr _ h0 hku]
  exact (Spec.findAssoc_eq_some_iff Gen.cldr_keysDistinct).2 ⟨e, he, rfl, rfl⟩

/-- the bare `und` entry is filed in LANG_ONLY under the integer of the text "und" -/
theorem und_entry_row (e : Spec.CEntry) (he : e ∈ Gen.cldr) (h0 : (e.kl, e.ks, e.kr) = (0, 0, 0)) :
    Spec.findTables Gen.tables (Spec.undInt, 0, 0) = some (e.vl, e.vs, e.vr) := by
  rw [Spec.findTables_und Gen.tables_derived Gen.cldr_noUnd]
  exact (Spec.findAssoc_eq_some_iff Gen.cldr_keysDistinct).2 ⟨e, he, h0, rfl⟩

/-- conversely the tables contain nothing else: whatever they hold under a key is the CLDR entry of
    that key (the `und` slot apart, covered by `und_entry_row`) -/
theorem row_is_entry (k v : Spec.Key) (hku : k ≠ (Spec.undInt, 0, 0))
    (h : Spec.findTables Gen.tables k = some v) : Spec.findAssoc Gen.cldr k = some v := by
  have h0 : k ≠ (0, 0, 0) := by
    intro e; rw [e] at h; revert h; simp [Spec.findTables]
  rw [← Gen.findTables_eq_cldr k h0 hku]; exact h

/-! ### every stored integer decodes to a well-formed subtag (what `from_raw_unchecked` relies on) -/

/-- the whole well-formedness predicate of `Spec/TablesWF.lean` -/
theorem tables_wf : tablesWF Gen.tables = true := Gen.tables_wf

/-- what `validLangInt` etc. say: the integer's bytes are a subtag the checked constructor returns
    unchanged, and they pack back to the integer -/
theorem validLangInt_meaning (n : Nat) :
    validLangInt n = true ↔ Language.fromBytes (unpack n) = .ok (some (unpack n)) ∧ pack (unpack n) = n := by
  simp [validLangInt]
theorem validScriptInt_meaning (n : Nat) :
    validScriptInt n = true ↔ Script.fromBytes (unpack n) = .ok (unpack n) ∧ pack (unpack n) = n := by
  simp [validScriptInt]
theorem validRegionInt_meaning (n : Nat) :
    validRegionInt n = true ↔ Region.fromBytes (unpack n) = .ok (unpack n) ∧ pack (unpack n) = n := by
  simp [validRegionInt]
/-- `valOk l s r`: the value is `(Some l', Some s', Some r')` (encoded `n+1`) with all three well formed -/
theorem valOk_meaning (l s r : Nat) :
    valOk l s r = true ↔ l ≠ 0 ∧ s ≠ 0 ∧ r ≠ 0 ∧ validLangInt (l - 1) = true ∧ validScriptInt (s - 1) = true ∧
      validRegionInt (r - 1) = true := by
  simp [valOk, and_assoc]

theorem langOnly_rows (row : Row1) (h : row ∈ Gen.tables.langOnly.toList) :
    valOk row.l row.s row.r = true ∧ (row.k = Spec.undInt ∨ (validLangInt row.k = true ∧ row.l = row.k + 1)) :=
  Gen.tables_WF.a1 row h
theorem langRegion_rows (row : Row2) (h : row ∈ Gen.tables.langRegion.toList) :
    valOk row.l row.s row.r = true ∧ validLangInt row.k1 = true ∧ validRegionInt row.k2 = true ∧
      row.l = row.k1 + 1 ∧ row.r = row.k2 + 1 := Gen.tables_WF.a2 row h
theorem langScript_rows (row : Row2) (h : row ∈ Gen.tables.langScript.toList) :
    valOk row.l row.s row.r = true ∧ validLangInt row.k1 = true ∧ validScriptInt row.k2 = true ∧
      row.l = row.k1 + 1 ∧ row.s = row.k2 + 1 := Gen.tables_WF.a3 row h
theorem scriptRegion_rows (row : Row2) (h : row ∈ Gen.tables.scriptRegion.toList) :
    valOk row.l row.s row.r = true ∧ validScriptInt row.k1 = true ∧ validRegionInt row.k2 = true ∧
      row.s = row.k1 + 1 ∧ row.r = row.k2 + 1 := Gen.tables_WF.a4 row h
theorem scriptOnly_rows (row : Row1) (h : row ∈ Gen.tables.scriptOnly.toList) :
    valOk row.l row.s row.r = true ∧ validScriptInt row.k = true ∧ row.s = row.k + 1 := Gen.tables_WF.a5 row h
theorem regionOnly_rows (row : Row1) (h : row ∈ Gen.tables.regionOnly.toList) :
    valOk row.l row.s row.r = true ∧ validRegionInt row.k = true ∧ row.r = row.k + 1 := Gen.tables_WF.a6 row h

/-- consequently `lang_from_parts` never hits its `.unwrap()` on a table row -/
theorem lang_from_parts_no_panic (row : Row1) (h : row ∈ Gen.tables.langOnly.toList) (sc rg : Option Bytes) :
    (Likely.langFromParts row.l row.s row.r sc rg).isPanic = false := by
  rw [langFromParts_fill (langOnly_rows row h).1]; rfl

/-! ### every row is reachable by the lookup's binary search -/

theorem langOnly_reachable (row : Row1) (h : row ∈ Gen.tables.langOnly.toList) :
    lookup1 Gen.tables.langOnly row.k = some row := lookup1_row langOnly_sorted h
theorem langRegion_reachable (row : Row2) (h : row ∈ Gen.tables.langRegion.toList) :
    lookup2 Gen.tables.langRegion row.k1 row.k2 = some row := lookup2_row langRegion_sorted h
theorem langScript_reachable (row : Row2) (h : row ∈ Gen.tables.langScript.toList) :
    lookup2 Gen.tables.langScript row.k1 row.k2 = some row := lookup2_row langScript_sorted h
theorem scriptRegion_reachable (row : Row2) (h : row ∈ Gen.tables.scriptRegion.toList) :
    lookup2 Gen.tables.scriptRegion row.k1 row.k2 = some row := lookup2_row scriptRegion_sorted h
theorem scriptOnly_reachable (row : Row1) (h : row ∈ Gen.tables.scriptOnly.toList) :
    lookup1 Gen.tables.scriptOnly row.k = some row := lookup1_row scriptOnly_sorted h
theorem regionOnly_reachable (row : Row1) (h : row ∈ Gen.tables.regionOnly.toList) :
    lookup1 Gen.tables.regionOnly row.k = some row := lookup1_row regionOnly_sorted h

/-- and for every key whatsoever the binary search returns what a linear search returns -/
theorem langOnly_lookup (k : Nat) :
    lookup1 Gen.tables.langOnly k = Gen.tables.langOnly.toList.find? (fun row => row.k == k) :=
  lookup1_eq_find? _ _ langOnly_sorted
theorem langRegion_lookup (k1 k2 : Nat) :
    lookup2 Gen.tables.langRegion k1 k2 =
      Gen.tables.langRegion.toList.find? (fun row => row.k1 == k1 && row.k2 == k2) :=
  lookup2_eq_find? _ _ _ langRegion_sorted
theorem langScript_lookup (k1 k2 : Nat) :
    lookup2 Gen.tables.langScript k1 k2 =
      Gen.tables.langScript.toList.find? (fun row => row.k1 == k1 && row.k2 == k2) :=
  lookup2_eq_find? _ _ _ langScript_sorted
theorem scriptRegion_lookup (k1 k2 : Nat) :
    lookup2 Gen.tables.scriptRegion k1 k2 =
      Gen.tables.scriptRegion.toList.find? (fun row => row.k1 == k1 && row.k2 == k2) :=
  lookup2_eq_find? _ _ _ scriptRegion_sorted
theorem scriptOnly_lookup (k : Nat) :
    lookup1 Gen.tables.scriptOnly k = Gen.tables.scriptOnly.toList.find? (fun row => row.k == k) :=
  lookup1_eq_find? _ _ scriptOnly_sorted
theorem regionOnly_lookup (k : Nat) :
    lookup1 Gen.tables.regionOnly k = Gen.tables.regionOnly.toList.find? (fun row => row.k == k) :=
  lookup1_eq_find? _ _ regionOnly_sorted

/-! ### direction tables and version -/

/-- the direction tables are exactly (same elements, increasing, duplicate-free — equal as lists) the
    scripts with a given character order and the right-to-left languages of the CLDR layout files -/
theorem ltr_derived : Gen.layout.ltr = Spec.deriveScripts Gen.cldrLayout 0 := Gen.ltr_derived
theorem rtl_derived : Gen.layout.rtl = Spec.deriveScripts Gen.cldrLayout 1 := Gen.rtl_derived
theorem ttb_derived : Gen.layout.ttb = Spec.deriveScripts Gen.cldrLayout 2 := Gen.ttb_derived
theorem rtlLangs_derived : Gen.layout.rtlLangs = Spec.deriveRtlLangs Gen.cldrLayout := Gen.rtlLangs_derived

/-- hence membership (what `contains()` tests) is membership in the CLDR-derived sets -/
theorem ltr_mem (x : Nat) : x ∈ Gen.layout.ltr ↔ x ∈ Spec.deriveScripts Gen.cldrLayout 0 := by rw [ltr_derived]
theorem rtl_mem (x : Nat) : x ∈ Gen.layout.rtl ↔ x ∈ Spec.deriveScripts Gen.cldrLayout 1 := by rw [rtl_derived]
theorem ttb_mem (x : Nat) : x ∈ Gen.layout.ttb ↔ x ∈ Spec.deriveScripts Gen.cldrLayout 2 := by rw [ttb_derived]
theorem rtlLangs_mem (x : Nat) : x ∈ Gen.layout.rtlLangs ↔ x ∈ Spec.deriveRtlLangs Gen.cldrLayout := by
  rw [rtlLangs_derived]

/-- `CLDR_VERSION` equals the `_cldrVersion` of the JSON data -/
theorem version : Gen.cldrVersion = Gen.cldrJsonVersion := Gen.version_eq

/-! ### non-vacuity: the tables and the CLDR list are not empty, concrete rows satisfy the hypotheses -/

/-- `aa → aa-Latn-ET`, the first row of LANG_ONLY -/
example : (⟨24929, 24930, 1853120845, 21574⟩ : Row1) ∈ Gen.tables.langOnly.toList := by
  show _ ∈ Gen.langOnlyL
  unfold Gen.langOnlyL
  try simp only [List.append_assoc]
  decide +kernel
example : lookup1 Gen.tables.langOnly 24929 = some ⟨24929, 24930, 1853120845, 21574⟩ :=
  langOnly_reachable ⟨24929, 24930, 1853120845, 21574⟩ (by
    show _ ∈ Gen.langOnlyL
    unfold Gen.langOnlyL
    try simp only [List.append_assoc]
    decide +kernel)
example : Gen.cldr.isEmpty = false := by
  unfold Gen.cldr
  try simp only [List.append_assoc]
  decide +kernel
example : validLangInt 28261 = true ∧ validScriptInt 1853120844 = true ∧ validRegionInt 21333 = true := by decide

end UL.Props.C18
