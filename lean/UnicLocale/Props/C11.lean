/-
  Props/C11.lean — `matches()` implements missing-subtag-as-wildcard semantics.
  Everything here holds for ARBITRARY values (no representation invariant is needed).
-/
import UnicLocale.Model.Locale
import UnicLocale.Spec.Match

namespace UL.Props.C11
open UL

/-! ### the specification, written outright -/

/-- one optional field: equal, or the side flagged as a range is empty there -/
def fieldOk {α} (x y : Option α) (ra rb : Bool) : Prop :=
  x = y ∨ (ra = true ∧ x = none) ∨ (rb = true ∧ y = none)

/-- the variant field is "empty" when it is `None` or `Some([])` -/
def variantsEmpty (v : Option (List Bytes)) : Prop := v = none ∨ v = some []

def variantsOk (x y : Option (List Bytes)) (ra rb : Bool) : Prop :=
  x = y ∨ (ra = true ∧ variantsEmpty x) ∨ (rb = true ∧ variantsEmpty y)

def specMatch (a b : LangId) (ra rb : Bool) : Prop :=
  fieldOk a.language b.language ra rb ∧ fieldOk a.script b.script ra rb ∧
  fieldOk a.region b.region ra rb ∧ variantsOk a.variants b.variants ra rb

/-! ### `Language::matches` -/

theorem language_isMatch_iff (x y : Language) (ra rb : Bool) :
    Language.isMatch x y ra rb = true ↔ fieldOk x y ra rb := by
  unfold Language.isMatch fieldOk
  cases x <;> cases y <;> cases ra <;> cases rb <;> simp

/-! ### `LanguageIdentifier::matches` -/

/-- `subtag_matches` (lib.rs) on one optional subtag -/
theorem subtagMatches_iff (x y : Option Bytes) (ra rb : Bool) :
    LangId.subtagMatches x y ra rb = true ↔ fieldOk x y ra rb := by
  unfold LangId.subtagMatches fieldOk
  cases x <;> cases y <;> cases ra <;> cases rb <;> simp

/-- `is_option_empty`: `None` or `Some([])` -/
theorem isOptionEmpty_iff (v : Option (List Bytes)) :
    LangId.isOptionEmpty v = true ↔ variantsEmpty v := by
  unfold LangId.isOptionEmpty variantsEmpty
  cases v with
  | none => simp
  | some l => cases l <;> simp

/-- `subtags_match` on the variant field -/
theorem subtagsMatch_iff (x y : Option (List Bytes)) (ra rb : Bool) :
    LangId.subtagsMatch x y ra rb = true ↔ variantsOk x y ra rb := by
  unfold LangId.subtagsMatch variantsOk
  simp only [Bool.or_eq_true, Bool.and_eq_true, isOptionEmpty_iff, beq_iff_eq]
  constructor
  · rintro ((h | h) | h)
    · exact Or.inr (Or.inl h)
    · exact Or.inr (Or.inr h)
    · exact Or.inl h
  · rintro (h | h | h)
    · exact Or.inr h
    · exact Or.inl (Or.inl h)
    · exact Or.inl (Or.inr h)

/-- `a.matches(b, ra, rb)` is true iff for each of language, script, region and the variant list
    the two sides are equal or the side flagged as a range has that field empty. -/
theorem isMatch_iff_spec (a b : LangId) (ra rb : Bool) :
    LangId.isMatch a b ra rb = true ↔ specMatch a b ra rb := by
  unfold LangId.isMatch specMatch
  simp only [Bool.and_eq_true, language_isMatch_iff, subtagMatches_iff, subtagsMatch_iff, and_assoc]

/-- with both flags false it coincides with equality -/
theorem isMatch_false_false (a b : LangId) : LangId.isMatch a b false false = true ↔ a = b := by
  rw [isMatch_iff_spec]
  obtain ⟨al, as, ar, av⟩ := a
  obtain ⟨bl, bs, br, bv⟩ := b
  simp [specMatch, fieldOk, variantsOk]

theorem language_isMatch_false_false (x y : Language) : Language.isMatch x y false false = true ↔ x = y := by
  rw [language_isMatch_iff]; simp [fieldOk]

/-- symmetric under swapping the operands together with their flags -/
theorem isMatch_swap (a b : LangId) (ra rb : Bool) : LangId.isMatch a b ra rb = LangId.isMatch b a rb ra := by
  rw [Bool.eq_iff_iff, isMatch_iff_spec, isMatch_iff_spec]
  have hf : ∀ {α} (x y : Option α), fieldOk x y ra rb ↔ fieldOk y x rb ra := by
    intro α x y
    unfold fieldOk
    constructor <;> rintro (h | h | h)
    · exact Or.inl h.symm
    · exact Or.inr (Or.inr h)
    · exact Or.inr (Or.inl h)
    · exact Or.inl h.symm
    · exact Or.inr (Or.inr h)
    · exact Or.inr (Or.inl h)
  have hv : ∀ (x y : Option (List Bytes)), variantsOk x y ra rb ↔ variantsOk y x rb ra := by
    intro x y
    unfold variantsOk
    constructor <;> rintro (h | h | h)
    · exact Or.inl h.symm
    · exact Or.inr (Or.inr h)
    · exact Or.inr (Or.inl h)
    · exact Or.inl h.symm
    · exact Or.inr (Or.inr h)
    · exact Or.inr (Or.inl h)
  unfold specMatch
  rw [hf a.language, hf a.script, hf a.region, hv a.variants]

theorem language_isMatch_swap (x y : Language) (ra rb : Bool) :
    Language.isMatch x y ra rb = Language.isMatch y x rb ra := by
  rw [Bool.eq_iff_iff, language_isMatch_iff, language_isMatch_iff]
  unfold fieldOk
  constructor <;> rintro (h | h | h)
  · exact Or.inl h.symm
  · exact Or.inr (Or.inr h)
  · exact Or.inr (Or.inl h)
  · exact Or.inl h.symm
  · exact Or.inr (Or.inr h)
  · exact Or.inr (Or.inl h)

/-- reflexive, whatever the flags -/
theorem isMatch_refl (a : LangId) (ra rb : Bool) : LangId.isMatch a a ra rb = true := by
  rw [isMatch_iff_spec]
  exact ⟨Or.inl rfl, Or.inl rfl, Or.inl rfl, Or.inl rfl⟩

theorem language_isMatch_refl (x : Language) (ra rb : Bool) : Language.isMatch x x ra rb = true := by
  rw [language_isMatch_iff]; exact Or.inl rfl

/-- switching a flag on never turns a match into a mismatch -/
theorem isMatch_mono_left (a b : LangId) (rb : Bool) (h : LangId.isMatch a b false rb = true) :
    LangId.isMatch a b true rb = true := by
  rw [isMatch_iff_spec] at h ⊢
  have hf : ∀ {α} (x y : Option α), fieldOk x y false rb → fieldOk x y true rb := by
    intro α x y h
    rcases h with h | h | h
    · exact Or.inl h
    · exact absurd h.1 (by decide)
    · exact Or.inr (Or.inr h)
  have hv : ∀ (x y : Option (List Bytes)), variantsOk x y false rb → variantsOk x y true rb := by
    intro x y h
    rcases h with h | h | h
    · exact Or.inl h
    · exact absurd h.1 (by decide)
    · exact Or.inr (Or.inr h)
  exact ⟨hf _ _ h.1, hf _ _ h.2.1, hf _ _ h.2.2.1, hv _ _ h.2.2.2⟩

theorem isMatch_mono_right (a b : LangId) (ra : Bool) (h : LangId.isMatch a b ra false = true) :
    LangId.isMatch a b ra true = true := by
  rw [isMatch_swap] at h ⊢
  exact isMatch_mono_left b a ra h

theorem language_isMatch_mono_left (x y : Language) (rb : Bool) (h : Language.isMatch x y false rb = true) :
    Language.isMatch x y true rb = true := by
  unfold Language.isMatch at h ⊢
  cases x <;> cases y <;> cases rb <;> simp_all

theorem language_isMatch_mono_right (x y : Language) (ra : Bool) (h : Language.isMatch x y ra false = true) :
    Language.isMatch x y ra true = true := by
  unfold Language.isMatch at h ⊢
  cases x <;> cases y <;> cases ra <;> simp_all

/-- the monotonicity is strict somewhere: a flag can turn a mismatch into a match -/
example : LangId.isMatch { language := some [101, 110] } { language := some [101, 110], region := some [85, 83] }
    false false = false ∧
  LangId.isMatch { language := some [101, 110] } { language := some [101, 110], region := some [85, 83] }
    true false = true := by decide

/-! ### `Locale::matches` -/

/-- false whenever either side has private-use subtags -/
theorem locale_isMatch_private (a b : Locale) (ra rb : Bool) (h : a.ext.priv ≠ [] ∨ b.ext.priv ≠ []) :
    Locale.isMatch a b ra rb = false := by
  unfold Locale.isMatch
  have : (!a.ext.priv.isEmpty || !b.ext.priv.isEmpty) = true := by
    rcases h with h | h
    · cases hp : a.ext.priv with
      | nil => exact absurd hp h
      | cons _ _ => simp
    · cases hp : b.ext.priv with
      | nil => exact absurd hp h
      | cons _ _ => simp
  rw [if_pos this]

/-- … and otherwise equals the language-identifier result -/
theorem locale_isMatch_no_private (a b : Locale) (ra rb : Bool) (ha : a.ext.priv = []) (hb : b.ext.priv = []) :
    Locale.isMatch a b ra rb = LangId.isMatch a.id b.id ra rb := by
  unfold Locale.isMatch
  rw [ha, hb]
  rfl

/-- … ignoring `-u-` and `-t-` content: replacing them (on either side) changes nothing -/
theorem locale_isMatch_ignores_u_t (a b : Locale) (ra rb : Bool) (ua ub : UExt) (ta tb : TExt) :
    Locale.isMatch { a with ext := { a.ext with unicode := ua, transform := ta } }
                   { b with ext := { b.ext with unicode := ub, transform := tb } } ra rb =
      Locale.isMatch a b ra rb := rfl

/-- the whole function in one equation -/
theorem locale_isMatch_eq (a b : Locale) (ra rb : Bool) :
    Locale.isMatch a b ra rb =
      (a.ext.priv.isEmpty && b.ext.priv.isEmpty && LangId.isMatch a.id b.id ra rb) := by
  unfold Locale.isMatch
  cases a.ext.priv.isEmpty <;> cases b.ext.priv.isEmpty <;> simp

/-- a `LanguageIdentifier` can be matched against a `Locale`'s id directly
    (`Locale: AsRef<LanguageIdentifier>`): the private-use rule does not apply there -/
theorem langid_vs_locale (i : LangId) (x : Locale) (ra rb : Bool) :
    LangId.isMatch i x.toLangId ra rb = LangId.isMatch i x.id ra rb := rfl

/-- for a locale without extensions the two `matches` agree -/
theorem locale_of_langid_isMatch (i j : LangId) (ra rb : Bool) :
    Locale.isMatch (Locale.ofLangId i) (Locale.ofLangId j) ra rb = LangId.isMatch i j ra rb := rfl

/-! ### non-vacuity -/

-- "en" vs "en-US": each flag combination (the crate's own doc example)
example : (LangId.isMatch { language := some [101, 110] } { language := some [101, 110], region := some [85, 83] } false false,
           LangId.isMatch { language := some [101, 110] } { language := some [101, 110], region := some [85, 83] } true false,
           LangId.isMatch { language := some [101, 110] } { language := some [101, 110], region := some [85, 83] } false true,
           LangId.isMatch { language := some [101, 110] } { language := some [101, 110], region := some [85, 83] } true true)
    = (false, true, false, true) := by decide
-- `Some([])` counts as empty for the variant field
example : LangId.isMatch { language := some [101, 110], variants := some [] }
    { language := some [101, 110], variants := some [[109, 97, 99, 111, 115]] } true false = true := by decide
-- hypotheses of `locale_isMatch_private` / `locale_isMatch_no_private` are satisfiable
example : ({ id := {}, ext := { priv := [[97]] } } : Locale).ext.priv ≠ [] := by decide
example : Locale.isMatch { id := {}, ext := { priv := [[97]] } } { id := {}, ext := { priv := [[97]] } } true true
    = false := by decide
example : ({ id := { language := some [101, 110] }, ext := { unicode := { attributes := [[97, 98, 99]] } } } : Locale).ext.priv = [] := by
  decide
-- hypotheses of the monotonicity theorems
example : LangId.isMatch { language := some [101, 110] } { language := some [101, 110], region := some [85, 83] }
    false true = false := by decide
example : LangId.isMatch { language := some [101, 110], region := some [85, 83] } { language := some [101, 110] }
    false true = true := by decide
example : Language.isMatch (some [101, 110]) none false true = true := by decide

/-! ### the executable oracle of the check (`Spec/Match.lean`) is the specification above -/

theorem fieldOkB_iff (x y : Option Bytes) (ra rb : Bool) : Spec.fieldOkB x y ra rb = true ↔ fieldOk x y ra rb := by
  unfold Spec.fieldOkB fieldOk
  cases x <;> cases y <;> cases ra <;> cases rb <;> simp

theorem variantsOkB_iff (x y : Option (List Bytes)) (ra rb : Bool) :
    Spec.variantsOkB x y ra rb = true ↔ variantsOk x y ra rb := by
  unfold Spec.variantsOkB variantsOk Spec.variantsEmptyB variantsEmpty
  cases x with
  | none => cases y with
    | none => simp
    | some l => cases l <;> cases ra <;> cases rb <;> simp
  | some k => cases y with
    | none => cases k <;> cases ra <;> cases rb <;> simp
    | some l => cases k <;> cases l <;> cases ra <;> cases rb <;> simp

theorem matchesB_iff_spec (a b : LangId) (ra rb : Bool) : Spec.matchesB a b ra rb = true ↔ specMatch a b ra rb := by
  unfold Spec.matchesB specMatch
  simp only [Bool.and_eq_true, fieldOkB_iff, variantsOkB_iff, and_assoc]

/-- the model of `LanguageIdentifier::matches` computes the oracle, for arbitrary values -/
theorem isMatch_eq_oracle (a b : LangId) (ra rb : Bool) : LangId.isMatch a b ra rb = Spec.matchesB a b ra rb := by
  rw [Bool.eq_iff_iff, isMatch_iff_spec, matchesB_iff_spec]

/-- the model of `Locale::matches` computes the oracle, for arbitrary values -/
theorem locale_isMatch_eq_oracle (a b : Locale) (ra rb : Bool) :
    Locale.isMatch a b ra rb = Spec.localeMatchesB a b ra rb := by
  unfold Locale.isMatch Spec.localeMatchesB
  rw [isMatch_eq_oracle]
  cases ha : a.ext.priv <;> cases hb : b.ext.priv <;> simp

end UL.Props.C11
