/-
  Props/C16.lean — compile-time macros equal run-time parsing.

  Model: `Model/Macros.lean` — what the proc macros do (parse at build time with the same library,
  emit the integer form of every subtag into `from_raw_unchecked`, `locale!` emits the serialised
  extension string and re-parses it at run time with `.expect("must parse")`), with rustc /
  `proc_macro_hack` / `syn` / `quote` by contract (a panic inside the proc macro is a compile error
  at the invocation; an interpolated integer is that integer).  The contract is exercised by the
  correspondence stream `macros`: a generated crate with one invocation per line is compiled and
  run against `/repo` on every check.
-/
import UnicLocale.Model.Macros
import UnicLocale.Props.C05
import UnicLocale.Lemmas.Parts
import UnicLocale.Lemmas.Raw

namespace UL.Props.C16
open UL

/-- what the property demands of an invocation, given what run-time parsing of the literal says:
    the parsed value if it parses, a compile-time error otherwise (never a run-time failure) -/
def required {α} (r : Res α) : MacroOut α :=
  match r with
  | .ok x => .value x
  | _ => .compileError

/-- integer form and back is the identity on every stored subtag -/
theorem viaRaw_language (b : Bytes) (h : okLanguage (some b) = true) : Macros.viaRaw b = b :=
  UL.raw_roundtrip_language b b (UL.Parts.fromBytes_of_okLanguage h)
theorem viaRaw_script (b : Bytes) (h : okScript (some b) = true) : Macros.viaRaw b = b :=
  UL.raw_roundtrip_script b b (UL.Parts.fromBytes_of_okScript h)
theorem viaRaw_region (b : Bytes) (h : okRegion (some b) = true) : Macros.viaRaw b = b :=
  UL.raw_roundtrip_region b b (UL.Parts.fromBytes_of_okRegion h)
theorem viaRaw_variant (b : Bytes) (h : okVariant b = true) : Macros.viaRaw b = b :=
  UL.raw_roundtrip_variant b b (UL.Parts.fromBytes_of_okVariant h)

theorem map_viaRaw_variants (l : List Bytes) (h : l.all okVariant = true) : l.map Macros.viaRaw = l := by
  induction l with
  | nil => rfl
  | cons a t ih =>
    simp only [List.all_cons, Bool.and_eq_true] at h
    simp only [List.map_cons, viaRaw_variant a h.1, ih h.2]

/-- `from_raw_parts_unchecked` on the integers of `into_parts()` rebuilds the identifier exactly -/
theorem idViaRaw_id (x : LangId) (h : x.inv = true) : Macros.idViaRaw x = x := by
  obtain ⟨l, s, r, vs⟩ := x
  simp only [LangId.inv, Bool.and_eq_true] at h
  obtain ⟨⟨⟨hl, hs⟩, hr⟩, hv⟩ := h
  have el : l.map Macros.viaRaw = l := by
    cases l with
    | none => rfl
    | some b => simp only [Option.map_some, viaRaw_language b hl]
  have es : s.map Macros.viaRaw = s := by
    cases s with
    | none => rfl
    | some b => simp only [Option.map_some, viaRaw_script b hs]
  have er : r.map Macros.viaRaw = r := by
    cases r with
    | none => rfl
    | some b => simp only [Option.map_some, viaRaw_region b hr]
  unfold Macros.idViaRaw
  simp only [el, es, er]
  cases vs with
  | none => rfl
  | some lst =>
    simp only [okVariants, Bool.and_eq_true, Bool.not_eq_true'] at hv
    obtain ⟨⟨hne, _⟩, hall⟩ := hv
    simp only [Option.getD_some, hne, Bool.false_eq_true, ↓reduceIte, map_viaRaw_variants lst hall]

/-- `langid!`: a value equal to run-time parsing for every well-formed literal, a compile-time error
    for every ill-formed one — for EVERY literal -/
theorem langid_macro (lit : Bytes) :
    Macros.langid lit =
      required (LangId.fromBytes lit) := by
  unfold Macros.langid required
  cases h : LangId.fromBytes lit with
  | ok x => simp only [idViaRaw_id x (UL.Props.C05.parsed_langid_inv lit x h)]
  | err e => rfl
  | panic => rfl

theorem lang_macro (lit : Bytes) :
    Macros.lang lit =
      required (Language.fromBytes lit) := by
  unfold Macros.lang required
  cases h : Language.fromBytes lit with
  | ok l =>
    cases l with
    | none => rfl
    | some b =>
      have := UL.Parts.okLanguage_of_fromBytes h
      simp only [Option.map_some, viaRaw_language b this]
  | err e => rfl
  | panic => rfl

theorem script_macro (lit : Bytes) :
    Macros.script lit =
      required (Script.fromBytes lit) := by
  unfold Macros.script required
  cases h : Script.fromBytes lit with
  | ok s => simp only [viaRaw_script s (UL.Parts.okScript_of_fromBytes h)]
  | err e => rfl
  | panic => rfl

theorem region_macro (lit : Bytes) :
    Macros.region lit =
      required (Region.fromBytes lit) := by
  unfold Macros.region required
  cases h : Region.fromBytes lit with
  | ok s => simp only [viaRaw_region s (UL.Parts.okRegion_of_fromBytes h)]
  | err e => rfl
  | panic => rfl

theorem variant_macro (lit : Bytes) :
    Macros.variant lit =
      required (Variant.fromBytes lit) := by
  unfold Macros.variant required
  cases h : Variant.fromBytes lit with
  | ok s => simp only [viaRaw_variant s (UL.Parts.okVariant_of_fromBytes h)]
  | err e => rfl
  | panic => rfl

/-- `locale!`: the run-time re-parse of the emitted extension string always succeeds and gives the
    same extensions (C05), so there is no run-time failure and the value equals run-time parsing -/
theorem locale_macro (lit : Bytes) :
    Macros.locale lit =
      required (Locale.fromBytes lit) := by
  unfold Macros.locale required
  cases h : Locale.fromBytes lit with
  | ok x =>
    have hinv := UL.Props.C05.parsed_locale_inv lit x h
    simp only [Locale.inv, Bool.and_eq_true] at hinv
    simp only [UL.Props.C05.extmap_roundtrip x.ext hinv.2, idViaRaw_id x.id hinv.1]
  | err e => rfl
  | panic => rfl

theorem locale_macro_no_runtime_panic (lit : Bytes) : Macros.locale lit ≠ .runtimePanic := by
  rw [locale_macro]
  unfold required
  cases Locale.fromBytes lit <;> simp

/-- the list macros: a value (the list of the elements' values) iff every element is well-formed,
    otherwise a compile-time error; never a run-time failure -/
theorem list_macro {α} (one : Bytes → MacroOut α) (parse : Bytes → Res α)
    (hone : ∀ l, one l = required (parse l))
    (ls : List Bytes) :
    Macros.list one ls =
      if ls.all (fun l => (parse l).isOk) then .value (ls.filterMap (fun l => (parse l).toOption))
      else .compileError := by
  induction ls with
  | nil => rfl
  | cons l t ih =>
    rw [Macros.list, ih, hone l]
    cases hp : parse l with
    | ok x =>
      by_cases ht : t.all (fun l => (parse l).isOk) = true
      · have hall : (l :: t).all (fun l => (parse l).isOk) = true := by
          rw [List.all_cons, hp, ht]; rfl
        rw [if_pos ht, if_pos hall]
        simp only [required, List.filterMap_cons, hp, Res.toOption]
      · have hall : ¬ ((l :: t).all (fun l => (parse l).isOk) = true) := by
          rw [List.all_cons, hp]
          simpa [Res.isOk] using ht
        rw [if_neg ht, if_neg hall]
        rfl
    | err e =>
      have hall : ¬ ((l :: t).all (fun l => (parse l).isOk) = true) := by
        rw [List.all_cons, hp]; simp [Res.isOk]
      rw [if_neg hall]
      simp only [required]
    | panic =>
      have hall : ¬ ((l :: t).all (fun l => (parse l).isOk) = true) := by
        rw [List.all_cons, hp]; simp [Res.isOk]
      rw [if_neg hall]
      simp only [required]

theorem langids_macro (ls : List Bytes) :
    Macros.list Macros.langid ls =
      if ls.all (fun l => (LangId.fromBytes l).isOk) then .value (ls.filterMap (fun l => (LangId.fromBytes l).toOption))
      else .compileError :=
  list_macro Macros.langid LangId.fromBytes langid_macro ls

theorem locales_macro (ls : List Bytes) :
    Macros.list Macros.locale ls =
      if ls.all (fun l => (Locale.fromBytes l).isOk) then .value (ls.filterMap (fun l => (Locale.fromBytes l).toOption))
      else .compileError :=
  list_macro Macros.locale Locale.fromBytes locale_macro ls

-- non-vacuity
example : Macros.lang [117,110,100] = .value none := by decide                       -- lang!("und")
example : Macros.langid [101,110,45,85,83] = .value { language := some [101,110], region := some [85,83] } := by decide
example : Macros.langid [101,110,45] = .compileError := by decide                     -- langid!("en-")
example : (match Macros.locale [101,110,45,117,45,99,97,45,98,117,100,100,104,105,115,116,45,116,45,104,48,45,104,121,98,114,105,100] with
           | .value x => !x.ext.unicode.isEmpty && !x.ext.transform.isEmpty
           | _ => false) = true := by decide   -- locale!("en-u-ca-buddhist-t-h0-hybrid")
example : Macros.list Macros.langid [[101,110], [102]] = .compileError := by decide   -- langids!["en", "f"]

end UL.Props.C16
