/-
  CldrCheck.lean — an independent reader of the CLDR JSON bundled with the repository, written in Lean, that
  re-derives what `gen/cldr2lean.py` put into `Gen/Cldr.lean` and compares the two (run by the driver as
  `driver cldrcheck <path of unic-langid-impl>` on every check that uses the CLDR constants).

  The theorems of C06/C14/C18 are about `Gen.cldr` and `Gen.cldrLayout`; those constants are the output of a
  Python translator.  A translator bug (a dropped member, a mis-split key, a wrong packing) would silently change
  the oracle the tables are proved against.  This file is the second, independent reading: `Lean.Json` instead
  of Python's `json`, its own subtag classification, its own packing — and it must arrive at the same lists.
-/
import Lean.Data.Json.Parser
import UnicLocale.Gen.Cldr

namespace UL.CldrCheck
open Lean

def isAlphaC (c : Char) : Bool := ('a' ≤ c && c ≤ 'z') || ('A' ≤ c && c ≤ 'Z')
def isDigitC (c : Char) : Bool := '0' ≤ c && c ≤ '9'

/-- little-endian integer of an ASCII string (the integer form the tables use) -/
def pack (s : String) : Nat :=
  (s.toList.foldr (fun c acc => acc * 256 + c.toNat) 0)

def titleCase (s : String) : String :=
  match s.toList with
  | [] => ""
  | c :: r => String.ofList (c.toUpper :: r.map Char.toLower)

structure Id where
  lang : String
  script : String
  region : String
  variants : List String
  deriving Repr

/-- `language (sep script)? (sep region)? (sep other)*`, classified by shape only -/
def splitId (name : String) : Id := Id.mk lang script region variants
where
  toks : List String := (name.map fun c => if c == '_' then '-' else c).splitOn "-"
  lang : String := toks.headD ""
  rest : List String := toks.drop 1
  go : List String → String → String → List String → String × String × List String
    | [], s, r, v => (s, r, v.reverse)
    | t :: ts, s, r, v =>
      if t.length == 4 && t.all isAlphaC && s.isEmpty && r.isEmpty && v.isEmpty then go ts t r v
      else if ((t.length == 2 && t.all isAlphaC) || (t.length == 3 && t.all isDigitC)) && r.isEmpty && v.isEmpty then go ts s t v
      else go ts s r (t :: v)
  script : String := (go rest "" "" []).1
  region : String := (go rest "" "" []).2.1
  variants : List String := (go rest "" "" []).2.2

def canonL (l : String) : Nat := let l := l.toLower; if l == "und" then 0 else pack l
def canonS (s : String) : Nat := pack (titleCase s)
def canonR (r : String) : Nat := pack r.toUpper

def entryLt (a b : Spec.CEntry) : Bool :=
  a.kl < b.kl || (a.kl == b.kl && (a.ks < b.ks || (a.ks == b.ks && a.kr < b.kr)))

/-- the likelySubtags member list as packed entries, sorted by (language, script, region) -/
def likelyEntries (j : Json) : Except String (String × List Spec.CEntry) := do
  let sup ← j.getObjVal? "supplemental"
  let ver ← (← (← sup.getObjVal? "version").getObjVal? "_cldrVersion").getStr?
  let ls ← sup.getObjVal? "likelySubtags"
  match ls with
  | .obj kvs =>
    let mut out : Array Spec.CEntry := #[]
    for (k, v) in kvs.toArray do
      let vs ← v.getStr?
      let ki := splitId k
      let vi := splitId vs
      if !ki.variants.isEmpty || !vi.variants.isEmpty then
        throw s!"unexpected extra subtags in {k} -> {vs}"
      out := out.push ⟨canonL ki.lang, canonS ki.script, canonR ki.region, canonL vi.lang, canonS vi.script, canonR vi.region⟩
    return (ver, (out.qsort entryLt).toList)
  | _ => throw "likelySubtags is not an object"

def dirCode (s : String) : Except String Nat :=
  if s == "left-to-right" then pure 0 else if s == "right-to-left" then pure 1
  else if s == "top-to-bottom" then pure 2 else throw s!"unknown characterOrder {s}"

/-- one `layout.json`: `none` for the `root` locale -/
def layoutEntry (j : Json) : Except String (Option Spec.LEntry) := do
  let main ← j.getObjVal? "main"
  match main with
  | .obj kvs =>
    match kvs.toArray[0]? with
    | none => throw "empty main"
    | some (key, body) =>
      if key == "root" then return none
      let order ← (← (← (← body.getObjVal? "layout").getObjVal? "orientation").getObjVal? "characterOrder").getStr?
      let d ← dirCode order
      let i := splitId key
      return some ⟨canonL i.lang, canonS i.script, canonR i.region, if i.variants.isEmpty then 0 else 1, d⟩
  | _ => throw "main is not an object"

def firstDiff {α} [BEq α] [Repr α] : Nat → List α → List α → Option String
  | _, [], [] => none
  | i, a :: as, b :: bs => if a == b then firstDiff (i + 1) as bs else some s!"row {i}: JSON {repr a}, Gen {repr b}"
  | i, [], b :: _ => some s!"row {i}: Gen has an extra {repr b}"
  | i, a :: _, [] => some s!"row {i}: JSON has an extra {repr a}"

instance : BEq Spec.CEntry := ⟨fun a b => a.kl == b.kl && a.ks == b.ks && a.kr == b.kr && a.vl == b.vl && a.vs == b.vs && a.vr == b.vr⟩

/-- `driver cldrcheck <dir of unic-langid-impl>`: prints `ok likely=<n> layout=<m> version=<v>` or `differs: …` -/
def run (root : String) : IO UInt32 := do
  let text ← IO.FS.readFile (root ++ "/data/likelySubtags.json")
  let res : Except String (String × List Spec.CEntry) := do
    let j ← Json.parse text
    likelyEntries j
  match res with
  | .error e => IO.println s!"differs: likelySubtags.json unreadable: {e}"; return 1
  | .ok (ver, entries) =>
    if ver != Gen.cldrJsonVersion then
      IO.println s!"differs: version: JSON {ver}, Gen {Gen.cldrJsonVersion}"; return 1
    match firstDiff 0 entries Gen.cldr with
    | some d => IO.println s!"differs: likelySubtags {d}"; return 1
    | none =>
      let mainDir := root ++ "/data/cldr-misc-full/main"
      let dirs ← System.FilePath.readDir mainDir
      let names := (dirs.map (·.fileName)).qsort (· < ·)
      let mut rows : Array Spec.LEntry := #[]
      for n in names do
        let p := mainDir ++ "/" ++ n ++ "/layout.json"
        if ← System.FilePath.pathExists p then
          let t ← IO.FS.readFile p
          match (Json.parse t >>= layoutEntry) with
          | .error e => IO.println s!"differs: {p} unreadable: {e}"; return 1
          | .ok none => pure ()
          | .ok (some e) => rows := rows.push e
      match firstDiff 0 rows.toList Gen.cldrLayout with
      | some d => IO.println s!"differs: layout {d}"; return 1
      | none =>
        IO.println s!"ok likely={entries.length} layout={rows.size} version={ver}"
        return 0

end UL.CldrCheck
