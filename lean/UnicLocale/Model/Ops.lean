/-
  Model/Ops.lean — the public mutation / query API of `Locale` as one `step` function over
  operations with *byte-string* arguments (what a caller can type), for operation histories.

  Subtag-typed arguments (`Language`, `Script`, `Region`, `Variant`, `LanguageIdentifier`) can only
  be obtained by parsing, so an operation carrying text first parses it with the corresponding
  constructor; if that fails the operation is a no-op that reports `err` (this is what the
  harness does on the Rust side as well).
-/
import UnicLocale.Model.Locale
import UnicLocale.Model.Likely

namespace UL

inductive Op where
  | setLanguage (v : Bytes)
  | setScript (v : Option Bytes)
  | setRegion (v : Option Bytes)
  | setVariants (vs : List Bytes)
  | clearVariants
  | hasVariant (v : Bytes)
  | setKeyword (k : Bytes) (vs : List Bytes)
  | removeKeyword (k : Bytes)
  | clearKeywords
  | keyword (k : Bytes)
  | setAttribute (a : Bytes)
  | removeAttribute (a : Bytes)
  | clearAttributes
  | hasAttribute (a : Bytes)
  | setTLang (l : Bytes)
  | clearTLang
  | setTField (k : Bytes) (vs : List Bytes)
  | removeTField (k : Bytes)
  | clearTFields
  | tfield (k : Bytes)
  | addTag (t : Bytes)
  | removeTag (t : Bytes)
  | clearTags
  | hasTag (t : Bytes)
  | maximize
  | minimize
  deriving DecidableEq, Repr

/-- What an operation reports. -/
inductive Out where
  | unit                    -- `()` / `Ok(())`
  | bool (b : Bool)         -- `bool` / `Ok(bool)`
  | list (l : List Bytes)   -- `Ok(iterator)` collected
  | err                     -- `Err(_)` (or an argument that does not parse)
  | panic
  deriving DecidableEq, Repr

def collectRes {α} (p : Bytes → Res α) : List Bytes → Res (List α)
  | [] => .ok []
  | t :: ts =>
    match p t with
    | .err e => .err e
    | .panic => .panic
    | .ok a =>
      match collectRes p ts with
      | .err e => .err e
      | .panic => .panic
      | .ok r => .ok (a :: r)

def outOfUnit {α} (x : Locale) (r : Res α) (f : α → Locale) : Locale × Out :=
  match r with
  | .ok a => (f a, .unit)
  | .err _ => (x, .err)
  | .panic => (x, .panic)

def outOfBool {α} (x : Locale) (r : Res (α × Bool)) (f : α → Locale) : Locale × Out :=
  match r with
  | .ok (a, b) => (f a, .bool b)
  | .err _ => (x, .err)
  | .panic => (x, .panic)

def outOfQuery (x : Locale) (r : Res Bool) : Locale × Out :=
  match r with
  | .ok b => (x, .bool b)
  | .err _ => (x, .err)
  | .panic => (x, .panic)

def outOfList (x : Locale) (r : Res (List Bytes)) : Locale × Out :=
  match r with
  | .ok l => (x, .list l)
  | .err _ => (x, .err)
  | .panic => (x, .panic)

def setU (x : Locale) (u : UExt) : Locale := { x with ext := { x.ext with unicode := u } }
def setT (x : Locale) (t : TExt) : Locale := { x with ext := { x.ext with transform := t } }
def setP (x : Locale) (p : PExt) : Locale := { x with ext := { x.ext with priv := p } }
def setId (x : Locale) (i : LangId) : Locale := { x with id := i }

/-- One public API call on a `Locale`. -/
def step (T : Tables) (x : Locale) : Op → Locale × Out
  | .setLanguage v => outOfUnit x (Language.fromBytes v) fun l => setId x { x.id with language := l }
  | .setScript none => (setId x { x.id with script := none }, .unit)
  | .setScript (some v) => outOfUnit x (Script.fromBytes v) fun s => setId x { x.id with script := some s }
  | .setRegion none => (setId x { x.id with region := none }, .unit)
  | .setRegion (some v) => outOfUnit x (Region.fromBytes v) fun r => setId x { x.id with region := some r }
  | .setVariants vs => outOfUnit x (collectRes Variant.fromBytes vs) fun l => setId x (x.id.setVariants l)
  | .clearVariants => (setId x x.id.clearVariants, .unit)
  | .hasVariant v => outOfQuery x ((Variant.fromBytes v).map fun w => x.id.hasVariant w)
  | .setKeyword k vs => outOfUnit x (x.ext.unicode.setKeyword k vs) (setU x)
  | .removeKeyword k => outOfBool x (x.ext.unicode.removeKeyword k) (setU x)
  | .clearKeywords => (setU x x.ext.unicode.clearKeywords, .unit)
  | .keyword k => outOfList x (x.ext.unicode.keyword k)
  | .setAttribute a => outOfUnit x (x.ext.unicode.setAttribute a) (setU x)
  | .removeAttribute a => outOfBool x (x.ext.unicode.removeAttribute a) (setU x)
  | .clearAttributes => (setU x x.ext.unicode.clearAttributes, .unit)
  | .hasAttribute a => outOfQuery x (x.ext.unicode.hasAttribute a)
  | .setTLang l => outOfUnit x (LangId.fromBytes l) fun li => setT x (x.ext.transform.setTLang li)
  | .clearTLang => (setT x x.ext.transform.clearTLang, .unit)
  | .setTField k vs => outOfUnit x (x.ext.transform.setTField k vs) (setT x)
  | .removeTField k => outOfBool x (x.ext.transform.removeTField k) (setT x)
  | .clearTFields => (setT x x.ext.transform.clearTFields, .unit)
  | .tfield k => outOfList x (x.ext.transform.tfield k)
  | .addTag t => outOfUnit x (PExt.addTag x.ext.priv t) (setP x)
  | .removeTag t => outOfBool x (PExt.removeTag x.ext.priv t) (setP x)
  | .clearTags => (setP x [], .unit)
  | .hasTag t => outOfQuery x (PExt.hasTag x.ext.priv t)
  | .maximize => outOfBool x (x.id.maximize T) (setId x)
  | .minimize => outOfBool x (x.id.minimize T) (setId x)

/-- A history: the outputs of every call and the value after every call. -/
def run (T : Tables) (x : Locale) : List Op → List (Locale × Out)
  | [] => []
  | o :: os =>
    let r := step T x o
    r :: run T r.1 os

def runState (T : Tables) (x : Locale) (os : List Op) : Locale :=
  os.foldl (fun s o => (step T s o).1) x

end UL
