/-
  Model/LangId.lean — `unic-langid-impl/src/parser/mod.rs` and the non-table part of
  `unic-langid-impl/src/lib.rs`.
-/
import UnicLocale.Model.Subtags

namespace UL

/-- `LanguageIdentifier`.  `variants : Option (List Bytes)` keeps the `None` / `Some([])`
    distinction the derived `Eq/Ord/Hash` can see. -/
structure LangId where
  language : Language := none
  script : Option Bytes := none
  region : Option Bytes := none
  variants : Option (List Bytes) := none
  deriving DecidableEq, Repr, Inhabited

namespace LangId

/-- `sort_unstable(); dedup(); Some(into_boxed_slice())`, or `None` for an empty vector
    (parser/mod.rs:67-73, lib.rs:129-136, 304-313). -/
def finishVariants (vs : List Bytes) : Option (List Bytes) :=
  if vs.isEmpty then none else some (dedupAdj (sortBytes vs))

/-- The `while let Some(subtag) = iter.peek()` loop of
    `parse_language_identifier_from_iter` (parser/mod.rs:25-61).
    Returns script, region, pushed variants (in push order) and the unconsumed subtags. -/
def loop : Nat → List Bytes → Option Bytes → Option Bytes → List Bytes →
    Res (Option Bytes × Option Bytes × List Bytes × List Bytes)
  | _, [], s, r, vs => .ok (s, r, vs, [])
  | pos, t :: ts, s, r, vs =>
    if pos == 1 then
      match Script.fromBytes t with
      | .ok sc => loop 2 ts (some sc) r vs
      | .panic => .panic
      | .err _ =>
        match Region.fromBytes t with
        | .ok rg => loop 3 ts s (some rg) vs
        | .panic => .panic
        | .err _ =>
          match Variant.fromBytes t with
          | .ok v => loop 3 ts s r (vs ++ [v])
          | .panic => .panic
          | .err _ => .ok (s, r, vs, t :: ts)
    else if pos == 2 then
      match Region.fromBytes t with
      | .ok rg => loop 3 ts s (some rg) vs
      | .panic => .panic
      | .err _ =>
        match Variant.fromBytes t with
        | .ok v => loop 3 ts s r (vs ++ [v])
        | .panic => .panic
        | .err _ => .ok (s, r, vs, t :: ts)
    else
      match Variant.fromBytes t with
      | .ok v => loop pos ts s r (vs ++ [v])
      | .panic => .panic
      | .err _ => .ok (s, r, vs, t :: ts)

/-- `parse_language_identifier_from_iter(iter, allow_extension)`; the remaining subtags are
    returned (the Rust leaves them in the iterator). -/
def parseIter (ts : List Bytes) (allowExt : Bool) : Res (LangId × List Bytes) :=
  let langRes : Res (Language × List Bytes) :=
    match ts with
    | t :: r => (Language.fromBytes t).map (fun l => (l, r))
    | [] => .ok (Language.default, [])
  match langRes with
  | .err e => .err e
  | .panic => .panic
  | .ok (language, r) =>
    match loop 1 r none none [] with
    | .err e => .err e
    | .panic => .panic
    | .ok (s, rg, vs, rest) =>
      if !allowExt && !rest.isEmpty then .err .invalidSubtag
      else .ok ({ language := language, script := s, region := rg,
                  variants := finishVariants vs }, rest)

/-- `LanguageIdentifier::from_bytes` / `FromStr` (`parse_language_identifier`) -/
def fromBytes (bs : Bytes) : Res LangId :=
  (parseIter (splitSep bs) false).map (·.1)

/-- `from_parts` (lib.rs:123-144) -/
def fromParts (l : Language) (s r : Option Bytes) (vs : List Bytes) : LangId :=
  { language := l, script := s, region := r, variants := finishVariants vs }

/-- `into_parts` -/
def intoParts (x : LangId) : Language × Option Bytes × Option Bytes × List Bytes :=
  (x.language, x.script, x.region, x.variants.getD [])

/-- `variants()` -/
def variantList (x : LangId) : List Bytes := x.variants.getD []
/-- `set_variants` -/
def setVariants (x : LangId) (vs : List Bytes) : LangId := { x with variants := finishVariants vs }
def clearVariants (x : LangId) : LangId := { x with variants := none }
def hasVariant (x : LangId) (v : Bytes) : Bool :=
  match x.variants with
  | some vs => vs.contains v
  | none => false

/-- The subtags `Display` writes, in order. -/
def tokens (x : LangId) : List Bytes :=
  [Language.asStr x.language] ++ x.script.toList ++ x.region.toList ++ x.variants.getD []

/-- `Display for LanguageIdentifier` -/
def display (x : LangId) : Bytes := join (tokens x)

/-- `canonicalize` (lib.rs:529-532) -/
def canonicalize (bs : Bytes) : Res Bytes := (fromBytes bs).map display

/-- `PartialEq<&str>` -/
def eqStr (x : LangId) (s : Bytes) : Bool := display x == s

def subtagMatches (a b : Option Bytes) (r1 r2 : Bool) : Bool :=
  (r1 && a.isNone) || (r2 && b.isNone) || a == b
def isOptionEmpty (v : Option (List Bytes)) : Bool :=
  match v with
  | none => true
  | some l => l.isEmpty
def subtagsMatch (a b : Option (List Bytes)) (r1 r2 : Bool) : Bool :=
  (r1 && isOptionEmpty a) || (r2 && isOptionEmpty b) || a == b

/-- `LanguageIdentifier::matches` (lib.rs:247-265) -/
def isMatch (a b : LangId) (ra rb : Bool) : Bool :=
  Language.isMatch a.language b.language ra rb
  && subtagMatches a.script b.script ra rb
  && subtagMatches a.region b.region ra rb
  && subtagsMatch a.variants b.variants ra rb

end LangId
end UL
