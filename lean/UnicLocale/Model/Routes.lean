/-
  Model/Routes.lean — the same abstract value reached along a second route through the safe API
  (the harness's `route_value`, used by the `route` / `matchr` requests of the C11/C12 checks).
  Route k of a value `x`:
    0  set_variants(variants())              1  clear_variants(); set_variants(variants())
    2  from_parts(into_parts(x)), extension string re-parsed     3  parse(to_string(x))
    4  Locale::from(LanguageIdentifier::from(x)) with the extensions put back
    5  every attribute removed and set again (reverse order), every keyword / tfield removed and
       set again, the tlang cleared and set again, the tags cleared and added again (reverse order)
    6  language / script / region re-assigned from the parse of their own text
    7+ from_parts with the variants reversed and duplicated
   10  (requested by that number; the driver and the harness take it before the `7+` rule) route 5 in which every keyword is
       set again with an extra `true` after its values and every tfield with an extra `true` before them: `true` is not stored
-/
import UnicLocale.Model.Ops

namespace UL

def route5Ops (x : Locale) : List Op :=
  let u := x.ext.unicode
  u.attributes.map .removeAttribute ++ u.attributes.reverse.map .setAttribute ++
  (u.keywords.reverse.map fun kv => [Op.removeKeyword kv.1, Op.setKeyword kv.1 kv.2]).flatten ++
  (x.ext.transform.tfields.reverse.map fun kv => [Op.removeTField kv.1, Op.setTField kv.1 kv.2]).flatten ++
  (match x.ext.transform.tlang with
    | some tl => [Op.clearTLang, Op.setTLang tl.display]
    | none => []) ++
  [Op.clearTags] ++ x.ext.priv.reverse.map .addTag

/-- route 10: route 5 with a `true` value added to every list that is set again -/
def route10Ops (x : Locale) : List Op :=
  let u := x.ext.unicode
  u.attributes.map .removeAttribute ++ u.attributes.reverse.map .setAttribute ++
  (u.keywords.reverse.map fun kv => [Op.removeKeyword kv.1, Op.setKeyword kv.1 (kv.2 ++ [trueBytes])]).flatten ++
  (x.ext.transform.tfields.reverse.map fun kv => [Op.removeTField kv.1, Op.setTField kv.1 (trueBytes :: kv.2)]).flatten ++
  (match x.ext.transform.tlang with
    | some tl => [Op.clearTLang, Op.setTLang tl.display]
    | none => []) ++
  [Op.clearTags] ++ x.ext.priv.reverse.map .addTag

def routeValue (T : Tables) (x : Locale) (k : Nat) : Option Locale :=
  let vs := x.id.variantList
  match k with
  | 0 => some { x with id := x.id.setVariants vs }
  | 1 => some { x with id := (x.id.clearVariants).setVariants vs }
  | 2 =>
    let (l, s, r, vv, e) := x.intoParts
    (ExtMap.fromBytes e).toOption.map fun em => Locale.fromParts l s r vv (some em)
  | 3 => (Locale.fromBytes x.display).toOption
  | 4 => some { (Locale.ofLangId x.toLangId) with ext := x.ext }
  | 5 => some (runState T x (route5Ops x))
  | 6 =>
    match Language.fromBytes (Language.asStr x.id.language) with
    | .ok l =>
      let sc := x.id.script.bind fun s => (Script.fromBytes s).toOption
      let rg := x.id.region.bind fun s => (Region.fromBytes s).toOption
      some { x with id := { x.id with language := l, script := sc, region := rg } }
    | _ => none
  | _ => some (Locale.fromParts x.id.language x.id.script x.id.region (vs.reverse ++ vs) (some x.ext))

end UL
