/-
  Model/Cmp.lean — the derived `PartialOrd/Ord` of `LanguageIdentifier` and `Locale`
  (`#[derive(PartialOrd, Ord)]`: field by field in declaration order, `None < Some`, `TinyAsciiStr`
  as NUL-padded byte arrays = lexicographic on the text, slices / `Vec` / `BTreeMap` lexicographic),
  and the byte stream the derived `Hash` feeds to a hasher.
-/
import UnicLocale.Model.Locale

namespace UL

def cmpB (a b : Bytes) : Ordering := if a == b then .eq else if bLt a b then .lt else .gt
def cmpOpt {α} (c : α → α → Ordering) : Option α → Option α → Ordering
  | none, none => .eq
  | none, some _ => .lt
  | some _, none => .gt
  | some a, some b => c a b
def cmpList {α} (c : α → α → Ordering) : List α → List α → Ordering
  | [], [] => .eq
  | [], _ :: _ => .lt
  | _ :: _, [] => .gt
  | a :: s, b :: t => (c a b).then (cmpList c s t)
def cmpLi (a b : LangId) : Ordering :=
  (cmpOpt cmpB a.language b.language).then <|
  (cmpOpt cmpB a.script b.script).then <|
  (cmpOpt cmpB a.region b.region).then <|
  cmpOpt (cmpList cmpB) a.variants b.variants
def cmpKV (a b : Bytes × List Bytes) : Ordering := (cmpB a.1 b.1).then (cmpList cmpB a.2 b.2)
def cmpLoc (a b : Locale) : Ordering :=
  (cmpLi a.id b.id).then <|
  (cmpList cmpKV a.ext.unicode.keywords b.ext.unicode.keywords).then <|
  (cmpList cmpB a.ext.unicode.attributes b.ext.unicode.attributes).then <|
  (cmpOpt cmpLi a.ext.transform.tlang b.ext.transform.tlang).then <|
  (cmpList cmpKV a.ext.transform.tfields b.ext.transform.tfields).then <|
  cmpList cmpB a.ext.priv b.ext.priv

/-! derived `Hash`: every field in declaration order; `Option` writes its discriminant, slices and
    maps their length, then the elements.  Modelled as the list of words fed to the hasher. -/

def hashB (s : Bytes) : List Nat := s.length :: s
def hashOpt {α} (h : α → List Nat) : Option α → List Nat
  | none => [0]
  | some a => 1 :: h a
def hashList {α} (h : α → List Nat) (l : List α) : List Nat := l.length :: (l.map h).flatten
def hashLi (x : LangId) : List Nat :=
  hashOpt hashB x.language ++ hashOpt hashB x.script ++ hashOpt hashB x.region ++ hashOpt (hashList hashB) x.variants
def hashKV (kv : Bytes × List Bytes) : List Nat := hashB kv.1 ++ hashList hashB kv.2
def hashLoc (x : Locale) : List Nat :=
  hashLi x.id ++ hashList hashKV x.ext.unicode.keywords ++ hashList hashB x.ext.unicode.attributes ++
  hashOpt hashLi x.ext.transform.tlang ++ hashList hashKV x.ext.transform.tfields ++ hashList hashB x.ext.priv

end UL
