/-
  Model/Basic.lean — bytes, ASCII classes, case maps, splitting, results.

  Bytes are `Nat`s and byte strings are `List Nat`: every theorem that quantifies over
  `List Nat` therefore covers every byte string (and more).  Nothing here imports anything
  outside core Lean, so the line-protocol driver links as a plain `lean_exe`.
-/

namespace UL

abbrev Bytes := List Nat

/-! ### ASCII classes (core::char / tinystr per-byte semantics) -/

def isUpper (b : Nat) : Bool := 65 ≤ b && b ≤ 90
def isLower (b : Nat) : Bool := 97 ≤ b && b ≤ 122
def isAlpha (b : Nat) : Bool := isUpper b || isLower b
def isDigit (b : Nat) : Bool := 48 ≤ b && b ≤ 57
def isAlnum (b : Nat) : Bool := isAlpha b || isDigit b

def toLower (b : Nat) : Nat := if isUpper b then b + 32 else b
def toUpper (b : Nat) : Nat := if isLower b then b - 32 else b

def lower (s : Bytes) : Bytes := s.map toLower
def upper (s : Bytes) : Bytes := s.map toUpper
/-- tinystr `to_ascii_titlecase`: first byte upper, the rest lower. -/
def title : Bytes → Bytes
  | [] => []
  | b :: t => toUpper b :: lower t

def allAlpha (s : Bytes) : Bool := s.all isAlpha
def allDigit (s : Bytes) : Bool := s.all isDigit
def allAlnum (s : Bytes) : Bool := s.all isAlnum

/-- `TinyAsciiStr::<N>::from_bytes` succeeds iff at most `N` bytes, each in 1..=127
    (tinystr-0.7.6 `ascii.rs`, `from_bytes_inner` with `allow_trailing_null = false`). -/
def tinyOk (n : Nat) (s : Bytes) : Bool := s.length ≤ n && s.all (fun b => 1 ≤ b && b ≤ 127)

/-! ### Separators, `slice::split`, and joining with `-` -/

def isSep (b : Nat) : Bool := b == 45 || b == 95

/-- `bytes.split(|c| c == b'-' || c == b'_')`: never returns the empty list. -/
def splitSep : Bytes → List Bytes
  | [] => [[]]
  | b :: t =>
    if isSep b then [] :: splitSep t
    else match splitSep t with
      | h :: r => (b :: h) :: r
      | [] => [[b]]

/-- Tokens written one after the other, each preceded by `-` (how every `Display` impl of the
    extension lists writes). -/
def dashAll : List Bytes → Bytes
  | [] => []
  | t :: ts => 45 :: (t ++ dashAll ts)

/-- Tokens joined with `-`. -/
def join : List Bytes → Bytes
  | [] => []
  | t :: ts => t ++ dashAll ts

/-! ### Results: `Ok`, `Err`, or a panic (explicit, never an artefact of totalisation) -/

inductive Err where
  | invalidLanguage
  | invalidSubtag
  | invalidExtension
  deriving DecidableEq, Repr, Inhabited

inductive Res (α : Type) where
  | ok (a : α)
  | err (e : Err)
  | panic
  deriving DecidableEq, Repr

namespace Res
def isPanic {α} : Res α → Bool
  | .panic => true
  | _ => false
def isOk {α} : Res α → Bool
  | .ok _ => true
  | _ => false
def bind {α β} (r : Res α) (f : α → Res β) : Res β :=
  match r with
  | .ok a => f a
  | .err e => .err e
  | .panic => .panic
def map {α β} (f : α → β) (r : Res α) : Res β :=
  match r with
  | .ok a => .ok (f a)
  | .err e => .err e
  | .panic => .panic
def mapErr {α} (f : Err → Err) (r : Res α) : Res α :=
  match r with
  | .ok a => .ok a
  | .err e => .err (f e)
  | .panic => .panic
def toOption {α} : Res α → Option α
  | .ok a => some a
  | _ => none
end Res

/-! ### Lexicographic order on byte strings (derived `Ord` of `TinyAsciiStr`: NUL-padded arrays) -/

def bLt : Bytes → Bytes → Bool
  | [], [] => false
  | [], _ :: _ => true
  | _ :: _, [] => false
  | a :: s, b :: t => a < b || (a == b && bLt s t)

def bLe (s t : Bytes) : Bool := s == t || bLt s t

/-- `Vec::sort_unstable` by contract: insertion sort on the total order (equal elements are
    identical, so every correct sort returns this list). -/
def insertSorted (x : Bytes) : List Bytes → List Bytes
  | [] => [x]
  | y :: ys => if bLe x y then x :: y :: ys else y :: insertSorted x ys

def sortBytes : List Bytes → List Bytes
  | [] => []
  | x :: xs => insertSorted x (sortBytes xs)

/-- `Vec::dedup`: removes consecutive repeated elements. -/
def dedupAdj : List Bytes → List Bytes
  | [] => []
  | [x] => [x]
  | x :: y :: r => if x == y then dedupAdj (y :: r) else x :: dedupAdj (y :: r)

/-- strictly increasing / non-decreasing lists -/
def strictSorted : List Bytes → Bool
  | [] => true
  | [_] => true
  | x :: y :: r => bLt x y && strictSorted (y :: r)

def weakSorted : List Bytes → Bool
  | [] => true
  | [_] => true
  | x :: y :: r => bLe x y && weakSorted (y :: r)

end UL
