/-
  Model/Serde.lean — `unic-langid-impl/src/serde.rs`.

  `Serialize`: `serializer.serialize_str(&self.to_string())`.
  `Deserialize`: `deserializer.deserialize_string(Visitor)` with a visitor that implements only
  `visit_str` (calling `FromStr`); every other `visit_*` is serde's default, which returns
  `Err(invalid_type)`.

  serde / serde_json are modelled by contract: a JSON string reaches `visit_str` decoded; any other
  JSON value reaches a defaulted `visit_*`; ill-formed JSON text is an error before any visitor runs.
-/
import UnicLocale.Model.LangId

namespace UL

/-- what a self-describing deserializer hands to the visitor -/
inductive Wire where
  | str (s : Bytes)     -- a string (decoded)
  | other               -- null, bool, number, array, object
  | invalid             -- not well-formed input for the format
  deriving DecidableEq, Repr

namespace Serde
def serialize (x : LangId) : Wire := .str (LangId.display x)
def deserialize : Wire → Res LangId
  | .str s => LangId.fromBytes s
  | .other => .err .invalidSubtag      -- `invalid_type`: some error, no panic
  | .invalid => .err .invalidSubtag
end Serde
end UL
