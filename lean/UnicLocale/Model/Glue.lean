/-
  Model/Glue.lean — the thin code around the modelled core that the properties mention only in
  passing: the texts of the error types (`errors.rs`, `parser/errors.rs` of both crates) and the
  `Display` of `ExtensionType` (`extensions/mod.rs:53-63`).
-/
import UnicLocale.Model.Locale

namespace UL

/-- `Display for unic_langid_impl::parser::ParserError` and the first three arms of
    `Display for unic_locale_impl::parser::ParserError`. -/
def Err.text : Err → String
  | .invalidLanguage => "The given language subtag is invalid"
  | .invalidSubtag => "Invalid subtag"
  | .invalidExtension => "Invalid extension"

/-- `ParserError::LangIdError(_)` of the locale crate prints a fixed text. -/
def langIdErrorText : String := "Language Identifier Parser Error"

/-- `Display for LanguageIdentifierError` / `LocaleError` : `ParserError(p)` arm. -/
def parserErrorText (e : Err) : String := "Parser error: " ++ e.text
def unknownErrorText : String := "Unknown error"

/-- the character `Display for ExtensionType` writes for the result of `from_byte key` -/
def ExtType.displayOf (key : Nat) : ExtType → Nat
  | .unicode => 117
  | .transform => 116
  | .priv => 120
  | .other => toLower key

end UL
