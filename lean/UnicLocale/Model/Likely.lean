/-
  Model/Likely.lean — `unic-langid-impl/src/likelysubtags/mod.rs`, the integer forms of the
  subtags, and `character_direction` (lib.rs:418-448).  The tables are a parameter; the ones
  compiled into the crate are translated into `Gen/Tables.lean` on every run.
-/
import UnicLocale.Model.Ext

namespace UL

/-! ### integer forms: `u64::from_le_bytes(*s.all_bytes())` and `from_raw_unchecked` -/

def pack (s : Bytes) : Nat := s.foldr (fun b acc => b + 256 * acc) 0

def unpackFuel : Nat → Nat → Bytes
  | 0, _ => []
  | f + 1, n => if n == 0 then [] else (n % 256) :: unpackFuel f (n / 256)

/-- bytes of the little-endian integer up to its last non-zero byte (a `TinyAsciiStr` built with
    `from_bytes_unchecked(v.to_le_bytes())` shows exactly these when it has no interior NUL). -/
def unpack (n : Nat) : Bytes := unpackFuel 8 n

/-- `Option<u64>` of the tables, encoded by the translator as `0 = None`, `n+1 = Some(n)`. -/
def optOf (x : Nat) : Option Nat := if x == 0 then none else some (x - 1)

structure Row1 where
  k : Nat
  l : Nat
  s : Nat
  r : Nat
  deriving DecidableEq, Repr, Inhabited

structure Row2 where
  k1 : Nat
  k2 : Nat
  l : Nat
  s : Nat
  r : Nat
  deriving DecidableEq, Repr, Inhabited

structure Tables where
  langOnly : Array Row1
  langRegion : Array Row2
  langScript : Array Row2
  scriptRegion : Array Row2
  scriptOnly : Array Row1
  regionOnly : Array Row1

structure Layout where
  ltr : List Nat
  rtl : List Nat
  ttb : List Nat
  rtlLangs : List Nat

/-! `binary_search_by_key` over an array (same algorithm as `binarySearchBy`). -/

def bsLoopA {α} (a : Array α) (gt : α → Bool) : Nat → Nat → Nat → Nat
  | 0, base, _ => base
  | fuel + 1, base, size =>
    if size > 1 then
      let half := size / 2
      let mid := base + half
      match a[mid]? with
      | some x => bsLoopA a gt fuel (if gt x then base else mid) (size - half)
      | none => base
    else base

/-- `.binary_search_by_key(..).ok()` then indexing the table: the row found, if any. -/
def lookupBy {α} (a : Array α) (cmp : α → Nat) : Option α :=
  if a.size == 0 then none
  else
    let base := bsLoopA a (fun x => cmp x == 2) a.size 0 a.size
    match a[base]? with
    | some x => if cmp x == 1 then some x else none
    | none => none

def cmpNat (key x : Nat) : Nat := if x == key then 1 else if x < key then 0 else 2
def cmpPair (k1 k2 x1 x2 : Nat) : Nat :=
  if x1 == k1 then cmpNat k2 x2 else if x1 < k1 then 0 else 2

def lookup1 (a : Array Row1) (k : Nat) : Option Row1 := lookupBy a (fun row => cmpNat k row.k)
def lookup2 (a : Array Row2) (k1 k2 : Nat) : Option Row2 :=
  lookupBy a (fun row => cmpPair k1 k2 row.k1 row.k2)

abbrev Triple := Language × Option Bytes × Option Bytes

namespace Likely

/-- `lang_from_parts(input, lang, script, region)` (mod.rs:7-24): `lang` is always `None` at the
    call sites; the `.unwrap()` panics when the table value has no language. -/
def langFromParts (l s r : Nat) (script region : Option Bytes) : Res (Option Triple) :=
  match optOf l with
  | none => .panic
  | some lv =>
    let lang : Language := some (unpack lv)
    let script := match script with
      | some x => some x
      | none => (optOf s).map unpack
    let region := match region with
      | some x => some x
      | none => (optOf r).map unpack
    .ok (some (lang, script, region))

/-- `likelysubtags::maximize` (mod.rs:26-98) -/
def maximize (T : Tables) (lang : Language) (script region : Option Bytes) : Res (Option Triple) :=
  if lang.isSome && script.isSome && region.isSome then .ok none
  else
    match lang with
    | some lb =>
      let l := pack lb
      let step3 : Res (Option Triple) :=
        match lookup1 T.langOnly l with
        | some row => langFromParts row.l row.s row.r script region
        | none => .ok none
      let step2 : Res (Option Triple) :=
        match script with
        | some s =>
          match lookup2 T.langScript l (pack s) with
          | some row => langFromParts row.l row.s row.r none none
          | none => step3
        | none => step3
      match region with
      | some r =>
        match lookup2 T.langRegion l (pack r) with
        | some row => langFromParts row.l row.s row.r none none
        | none => step2
      | none => step2
    | none =>
      match script with
      | some s =>
        let stepS : Res (Option Triple) :=
          match lookup1 T.scriptOnly (pack s) with
          | some row => langFromParts row.l row.s row.r none region
          | none => .ok none
        match region with
        | some r =>
          match lookup2 T.scriptRegion (pack s) (pack r) with
          | some row => langFromParts row.l row.s row.r none none
          | none => stepS
        | none => stepS
      | none =>
        match region with
        | some r =>
          match lookup1 T.regionOnly (pack r) with
          | some row => langFromParts row.l row.s row.r none none
          | none => .ok none
        | none => .ok none

/-- one trial of `minimize`: `maximize(l, s, r) == Some(max)` -/
def trial (T : Tables) (mx : Triple) (s r : Option Bytes) : Res Bool :=
  match maximize T mx.1 s r with
  | .err e => .err e
  | .panic => .panic
  | .ok (some t) => .ok (t == mx)
  | .ok none => .ok false

/-- `likelysubtags::minimize` (mod.rs:100-136) -/
def minimize (T : Tables) (lang : Language) (script region : Option Bytes) : Res (Option Triple) :=
  let maxRes : Res (Option Triple) :=
    if lang.isSome && script.isSome && region.isSome then .ok (some (lang, script, region))
    else maximize T lang script region
  match maxRes with
  | .err e => .err e
  | .panic => .panic
  | .ok none => .ok none
  | .ok (some mx) =>
    match trial T mx none none with
    | .err e => .err e
    | .panic => .panic
    | .ok true => .ok (some (mx.1, none, none))
    | .ok false =>
      let tryScript : Res (Option Triple) :=
        if mx.2.1.isSome then
          match trial T mx mx.2.1 none with
          | .err e => .err e
          | .panic => .panic
          | .ok true => .ok (some (mx.1, mx.2.1, none))
          | .ok false => .ok none
        else .ok none
      if mx.2.2.isSome then
        match trial T mx none mx.2.2 with
        | .err e => .err e
        | .panic => .panic
        | .ok true => .ok (some (mx.1, none, mx.2.2))
        | .ok false => tryScript
      else tryScript

end Likely

namespace LangId

/-- `LanguageIdentifier::maximize` / `minimize` (lib.rs:351-389): returns the new value and the
    boolean result. -/
def applyTriple (x : LangId) (r : Res (Option Triple)) : Res (LangId × Bool) :=
  match r with
  | .err e => .err e
  | .panic => .panic
  | .ok none => .ok (x, false)
  | .ok (some (l, s, rg)) => .ok ({ x with language := l, script := s, region := rg }, true)

def maximize (T : Tables) (x : LangId) : Res (LangId × Bool) :=
  applyTriple x (Likely.maximize T x.language x.script x.region)
def minimize (T : Tables) (x : LangId) : Res (LangId × Bool) :=
  applyTriple x (Likely.minimize T x.language x.script x.region)

inductive Dir where
  | ltr | rtl | ttb
  deriving DecidableEq, Repr

/-- `character_direction` (lib.rs:418-448); `likely` is `cfg(feature = "likelysubtags")`. -/
def direction (likely : Bool) (T : Tables) (L : Layout) (x : LangId) : Res Dir :=
  let byLang : Res Dir :=
    match x.language with
    | some lb =>
      if L.rtlLangs.contains (pack lb) then
        if likely then
          match Likely.maximize T x.language none x.region with
          | .err e => .err e
          | .panic => .panic
          | .ok (some (_, some sc, _)) =>
            if L.ltr.contains (pack sc) then .ok .ltr else .ok .rtl
          | .ok _ => .ok .rtl
        else .ok .rtl
      else .ok .ltr
    | none => .ok .ltr
  match x.script with
  | some sc =>
    let s := pack sc
    if L.ltr.contains s then .ok .ltr
    else if L.rtl.contains s then .ok .rtl
    else if L.ttb.contains s then .ok .ttb
    else byLang
  | none => byLang

end LangId
end UL
