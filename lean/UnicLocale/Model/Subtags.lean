/-
  Model/Subtags.lean — `unic-langid-impl/src/subtags/{language,script,region,variant}.rs`.
  Same tests in the same order as the Rust; slice indexing is an explicit `panic` branch.
-/
import UnicLocale.Model.Basic

namespace UL

def undBytes : Bytes := [117, 110, 100]        -- "und"
def trueBytes : Bytes := [116, 114, 117, 101]  -- "true"

/-- `Language` is `Option<TinyStr8>`; `none` is `und`. -/
abbrev Language := Option Bytes

namespace Language
/-- `Language::from_bytes` (language.rs:11-26) -/
def fromBytes (v : Bytes) : Res Language :=
  if !tinyOk 8 v then .err .invalidLanguage
  else if !(2 ≤ v.length && v.length ≤ 8) || v.length == 4 || !allAlpha v then .err .invalidLanguage
  else
    let value := lower v
    if value == undBytes then .ok none else .ok (some value)

/-- `as_str` / `Display` -/
def asStr (l : Language) : Bytes := l.getD undBytes
/-- `Default`, `clear()`, `TryFrom(None)` -/
def default : Language := none
def tryFromOption : Option Bytes → Res Language
  | some v => fromBytes v
  | none => .ok none
/-- `PartialEq<&str>` -/
def eqStr (l : Language) (s : Bytes) : Bool := asStr l == s
/-- `Language::matches` (language.rs:41-50) -/
def isMatch (self other : Language) (selfRange otherRange : Bool) : Bool :=
  (selfRange && self.isNone) || (otherRange && other.isNone) || self == other
end Language

namespace Script
/-- `Script::from_bytes` (script.rs:9-17) -/
def fromBytes (v : Bytes) : Res Bytes :=
  if !tinyOk 4 v then .err .invalidSubtag
  else if v.length != 4 || !allAlpha v then .err .invalidSubtag
  else .ok (title v)
end Script

namespace Region
/-- `Region::from_bytes` (region.rs:9-28) -/
def fromBytes (v : Bytes) : Res Bytes :=
  if v.length == 2 then
    if !tinyOk 4 v then .err .invalidSubtag
    else if !allAlpha v then .err .invalidSubtag
    else .ok (upper v)
  else if v.length == 3 then
    if !tinyOk 4 v then .err .invalidSubtag
    else if !allDigit v then .err .invalidSubtag
    else .ok v
  else .err .invalidSubtag
end Region

namespace Variant
/-- `Variant::from_bytes` (variant.rs:9-28); `v[0]` and `v[1..]` are explicit. -/
def fromBytes (v : Bytes) : Res Bytes :=
  if !(4 ≤ v.length && v.length ≤ 8) then .err .invalidSubtag
  else if !tinyOk 8 v then .err .invalidSubtag
  else if v.length ≥ 5 && !allAlnum v then .err .invalidSubtag
  else if v.length == 4 then
    match v with
    | v0 :: rest =>
      if !isDigit v0 || rest.any (fun c => !isAlnum c) then .err .invalidSubtag
      else .ok (lower v)
    | [] => .panic   -- v[0] out of bounds (unreachable: length is 4)
  else .ok (lower v)
end Variant

end UL
