/-
  Model/Macros.lean — the expansions of the proc macros
  (`unic-langid-macros-impl/src/lib.rs`, `unic-locale-macros-impl/src/lib.rs`) and of the declarative
  list macros (`langids!`, `langid_slice!`, `locales!` in the façade crates).

  Modelled by contract: rustc / `proc_macro_hack` / `syn` / `quote` — a panic (`.expect(..)`) inside
  the proc macro is a compile error reported at the invocation; an interpolated integer literal is
  that integer; the literal's `value()` is its UTF-8 text and `.parse()` is `FromStr` = `from_bytes`.
  What the macros themselves do is modelled exactly: parse at build time, convert every subtag to
  its integer (`pack`), emit `from_raw_unchecked(<integer>)` (`unpack` at run time); `locale!` emits
  the *serialised* extension string and re-parses it at run time with `.expect("must parse")`.
-/
import UnicLocale.Model.Locale
import UnicLocale.Model.Likely

namespace UL

inductive MacroOut (α : Type) where
  | value (a : α)        -- compiles; evaluates to `a`
  | compileError         -- the proc macro panicked at build time
  | runtimePanic         -- compiles; panics when evaluated
  deriving DecidableEq, Repr

namespace Macros

/-- integer emitted at build time, subtag rebuilt by `from_raw_unchecked` at run time -/
def viaRaw (s : Bytes) : Bytes := unpack (pack s)

/-- `lang!`: `Option<u64>`; `None` (the empty language) expands to `Language::default()` -/
def lang (lit : Bytes) : MacroOut Language :=
  match Language.fromBytes lit with
  | .ok l => .value (l.map viaRaw)
  | _ => .compileError

def script (lit : Bytes) : MacroOut Bytes :=
  match Script.fromBytes lit with
  | .ok s => .value (viaRaw s)
  | _ => .compileError

def region (lit : Bytes) : MacroOut Bytes :=
  match Region.fromBytes lit with
  | .ok s => .value (viaRaw s)
  | _ => .compileError

def variant (lit : Bytes) : MacroOut Bytes :=
  match Variant.fromBytes lit with
  | .ok s => .value (viaRaw s)
  | _ => .compileError

/-- `from_raw_parts_unchecked(lang, script, region, variants)` on the integers of `into_parts()`:
    `variants` is `None` when the list is empty, `Some(Box::new([..]))` otherwise -/
def idViaRaw (x : LangId) : LangId :=
  let vs := x.variants.getD []
  { language := x.language.map viaRaw, script := x.script.map viaRaw, region := x.region.map viaRaw,
    variants := if vs.isEmpty then none else some (vs.map viaRaw) }

def langid (lit : Bytes) : MacroOut LangId :=
  match LangId.fromBytes lit with
  | .ok x => .value (idViaRaw x)
  | _ => .compileError

/-- `locale!`: the extensions travel as their string and are re-parsed at run time -/
def locale (lit : Bytes) : MacroOut Locale :=
  match Locale.fromBytes lit with
  | .ok x =>
    match ExtMap.fromBytes (ExtMap.display x.ext) with
    | .ok m => .value { id := idViaRaw x.id, ext := m }
    | _ => .runtimePanic
  | _ => .compileError

/-- the list macros expand to `vec![$(langid!($x),)*]` / `&[..]`: one invocation per element;
    the list compiles iff every element does -/
def list {α} (one : Bytes → MacroOut α) : List Bytes → MacroOut (List α)
  | [] => .value []
  | l :: ls =>
    match one l, list one ls with
    | .compileError, _ => .compileError
    | _, .compileError => .compileError
    | .runtimePanic, _ => .runtimePanic
    | _, .runtimePanic => .runtimePanic
    | .value a, .value as => .value (a :: as)

end Macros
end UL
