/-
  Model/MacroSem.lean — the expansion language of the proc macros and how an expansion is evaluated.

  `srclean` (`tr_macro.rs`) reads the `quote!` bodies of `unic-langid-macros-impl` / `unic-locale-macros-impl` as terms of
  `MTok`; the evaluators below are the CONTRACT for what rustc does with such an expansion at the invocation site:
  an interpolated integer is that integer literal, `unsafe { e }` is `e`, `T::from_raw_unchecked(n)` is the model's reading of that
  function (`unpack`, tied to the source by `SrcTie/Raw.lean`), `Language::default()` is the empty language, `Some / None /
  Box::new([..])` build the option / the boxed slice, `from_raw_parts_unchecked` stores its arguments, `s.parse().expect(..)` of
  an `ExtensionsMap` panics at RUN time when the string does not parse; an expansion that is not of the type the invocation
  needs does not type-check: a compile error.
-/
import UnicLocale.Model.Macros

namespace UL

/-- the functions an expansion may call -/
inductive MFn where
  | langFromRaw | langDefault | scriptFromRaw | regionFromRaw | variantFromRaw
  | langidFromRawParts | localeFromRawParts
  deriving DecidableEq, Repr

/-- the expression language of the expansions -/
inductive MTok where
  | int (n : Nat)                                  -- an interpolated integer literal
  | str (s : Bytes)                                -- an interpolated string literal
  | none
  | some (e : MTok)
  | arrNil
  | arrCons (h t : MTok)                           -- `[h, t..]`
  | boxNew (e : MTok)
  | call0 (f : MFn)
  | call1 (f : MFn) (a : MTok)
  | call4 (f : MFn) (a b c d : MTok)
  | call5 (f : MFn) (a b c d e : MTok)
  | parseExpect (e : MTok)                         -- `e.parse().expect("..")`
  deriving Repr

namespace MacroOut
/-- two parts of one expansion: a type error anywhere is a compile error; otherwise a run-time panic anywhere is a panic -/
def both {α β γ} (f : α → β → γ) : MacroOut α → MacroOut β → MacroOut γ
  | .compileError, _ => .compileError
  | _, .compileError => .compileError
  | .runtimePanic, _ => .runtimePanic
  | _, .runtimePanic => .runtimePanic
  | .value a, .value b => .value (f a b)
def map {α β} (f : α → β) : MacroOut α → MacroOut β
  | .value a => .value (f a)
  | .compileError => .compileError
  | .runtimePanic => .runtimePanic
end MacroOut

namespace MTok

/-- `[#(#v,)*]` -/
def arrOfList : List MTok → MTok
  | [] => .arrNil
  | h :: t => .arrCons h (arrOfList t)

def evalLang : MTok → MacroOut Language
  | .call1 .langFromRaw (.int n) => .value (Option.some (unpack n))
  | .call0 .langDefault => .value Option.none
  | _ => .compileError

def evalScript : MTok → MacroOut Bytes
  | .call1 .scriptFromRaw (.int n) => .value (unpack n)
  | _ => .compileError

def evalRegion : MTok → MacroOut Bytes
  | .call1 .regionFromRaw (.int n) => .value (unpack n)
  | _ => .compileError

def evalVariant : MTok → MacroOut Bytes
  | .call1 .variantFromRaw (.int n) => .value (unpack n)
  | _ => .compileError

def evalOptScript : MTok → MacroOut (Option Bytes)
  | .none => .value Option.none
  | .some e => (evalScript e).map Option.some
  | _ => .compileError

def evalOptRegion : MTok → MacroOut (Option Bytes)
  | .none => .value Option.none
  | .some e => (evalRegion e).map Option.some
  | _ => .compileError

/-- `[v, ..]` of variants -/
def evalArr : MTok → MacroOut (List Bytes)
  | .arrNil => .value []
  | .arrCons h t => MacroOut.both (· :: ·) (evalVariant h) (evalArr t)
  | _ => .compileError

/-- `Option<Box<[Variant]>>` -/
def evalVariants : MTok → MacroOut (Option (List Bytes))
  | .none => .value Option.none
  | .some (.boxNew a) => (evalArr a).map Option.some
  | _ => .compileError

def evalLangId : MTok → MacroOut LangId
  | .call4 .langidFromRawParts l s r v =>
    MacroOut.both (fun (p : Language × Option Bytes) (q : Option Bytes × Option (List Bytes)) =>
        ({ language := p.1, script := p.2, region := q.1, variants := q.2 } : LangId))
      (MacroOut.both Prod.mk (evalLang l) (evalOptScript s)) (MacroOut.both Prod.mk (evalOptRegion r) (evalVariants v))
  | _ => .compileError

/-- `"..".parse().expect("must parse")` where an `ExtensionsMap` is needed: decided at run time -/
def evalExt : MTok → MacroOut ExtMap
  | .parseExpect (.str s) =>
    match ExtMap.fromBytes s with
    | .ok m => .value m
    | _ => .runtimePanic
  | _ => .compileError

def evalLocale : MTok → MacroOut Locale
  | .call5 .localeFromRawParts l s r v e =>
    MacroOut.both (fun (x : LangId) (m : ExtMap) => ({ id := x, ext := m } : Locale))
      (evalLangId (.call4 .langidFromRawParts l s r v)) (evalExt e)
  | _ => .compileError

end MTok
end UL
