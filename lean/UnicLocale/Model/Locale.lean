/-
  Model/Locale.lean — `unic-locale-impl/src/lib.rs`, `parser/mod.rs`.
-/
import UnicLocale.Model.Ext

namespace UL

structure Locale where
  id : LangId := {}
  ext : ExtMap := {}
  deriving DecidableEq, Repr, Inhabited

namespace Locale

/-- `parse_locale` on an already split input. -/
def parse (ts : List Bytes) : Res Locale :=
  match LangId.parseIter ts true with
  | .err _ => .err .invalidLanguage
  | .panic => .panic
  | .ok (id, rest) =>
    match ExtMap.parseIter rest with
    | .err e => .err e
    | .panic => .panic
    | .ok ext => .ok { id := id, ext := ext }

/-- `Locale::from_bytes` / `FromStr` -/
def fromBytes (bs : Bytes) : Res Locale := parse (splitSep bs)

def tokens (x : Locale) : List Bytes := LangId.tokens x.id ++ ExtMap.tokens x.ext
/-- `Display`: `write!(f, "{}{}", self.id, self.extensions)` -/
def display (x : Locale) : Bytes := LangId.display x.id ++ ExtMap.display x.ext

def canonicalize (bs : Bytes) : Res Bytes := (fromBytes bs).map display

/-- `from_parts(language, script, region, variants, extensions)` -/
def fromParts (l : Language) (s r : Option Bytes) (vs : List Bytes) (e : Option ExtMap) : Locale :=
  { id := LangId.fromParts l s r vs, ext := e.getD {} }

/-- `into_parts`: the extensions as their string. -/
def intoParts (x : Locale) : Language × Option Bytes × Option Bytes × List Bytes × Bytes :=
  (x.id.language, x.id.script, x.id.region, x.id.variants.getD [], ExtMap.display x.ext)

/-- `Locale::matches` (lib.rs:197-208) -/
def isMatch (a b : Locale) (ra rb : Bool) : Bool :=
  if !a.ext.priv.isEmpty || !b.ext.priv.isEmpty then false
  else LangId.isMatch a.id b.id ra rb

def ofLangId (i : LangId) : Locale := { id := i, ext := {} }
def toLangId (x : Locale) : LangId := x.id

end Locale
end UL
