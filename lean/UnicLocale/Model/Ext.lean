/-
  Model/Ext.lean — `unic-locale-impl/src/extensions/{mod,unicode,transform,private}.rs`.
-/
import UnicLocale.Model.LangId

namespace UL

/-! ### `BTreeMap<TinyStr4, Vec<TinyStr8>>` by contract: a key-sorted association list -/

abbrev AMap := List (Bytes × List Bytes)

namespace AMap
def insert (k : Bytes) (v : List Bytes) : AMap → AMap
  | [] => [(k, v)]
  | (k', v') :: m =>
    if k == k' then (k, v) :: m
    else if bLt k k' then (k, v) :: (k', v') :: m
    else (k', v') :: insert k v m
def get (k : Bytes) : AMap → Option (List Bytes)
  | [] => none
  | (k', v') :: m => if k == k' then some v' else get k m
def remove (k : Bytes) : AMap → AMap
  | [] => []
  | (k', v') :: m => if k == k' then m else (k', v') :: remove k m
def keys (m : AMap) : List Bytes := m.map (·.1)
/-- tokens written by `for (k, t) in &map { -k; for v in t { -v } }` -/
def tokens : AMap → List Bytes
  | [] => []
  | (k, v) :: m => k :: (v ++ tokens m)
end AMap

/-! ### Vec::binary_search (core::slice::binary_search_by, Rust 1.95: size-halving loop)

```
let mut size = self.len(); if size == 0 { return Err(0); } let mut base = 0usize;
while size > 1 { let half = size / 2; let mid = base + half;
  let cmp = f(self[mid]); base = if cmp == Greater { base } else { mid }; size -= half; }
let cmp = f(self[base]);
if cmp == Equal { Ok(base) } else { let result = base + (cmp == Less) as usize; Err(result) }
```
Generic in the element type; `lt`/`eq` give the comparison with the probe key. -/

def bsLoop {α} (a : List α) (gt : α → Bool) : Nat → Nat → Nat → Nat
  | 0, base, _ => base
  | fuel + 1, base, size =>
    if size > 1 then
      let half := size / 2
      let mid := base + half
      match a[mid]? with
      | some x => bsLoop a gt fuel (if gt x then base else mid) (size - half)
      | none => base   -- index out of bounds: unreachable (mid < len), see Lemmas/BinSearch
    else base

/-- Result of `binary_search_by`: `Sum.inl i` = `Ok(i)`, `Sum.inr i` = `Err(i)`.
    `cmp x` is the ordering of element `x` relative to the key: 0 = Less, 1 = Equal, 2 = Greater. -/
def binarySearchBy {α} (a : List α) (cmp : α → Nat) : Nat ⊕ Nat :=
  if a.length == 0 then .inr 0
  else
    let base := bsLoop a (fun x => cmp x == 2) a.length 0 a.length
    match a[base]? with
    | some x => if cmp x == 1 then .inl base else .inr (base + (if cmp x == 0 then 1 else 0))
    | none => .inr 0   -- unreachable

def cmpBytes (key x : Bytes) : Nat := if x == key then 1 else if bLt x key then 0 else 2

/-! ### Unicode extension (`-u-`) -/

structure UExt where
  keywords : AMap := []
  attributes : List Bytes := []
  deriving DecidableEq, Repr, Inhabited

/-- `parse_key` (unicode.rs:22-28) -/
def parseKey (key : Bytes) : Res Bytes :=
  if key.length != 2 then .err .invalidSubtag
  else match key with
    | [a, b] =>
      if !isAlnum a || !isAlpha b then .err .invalidSubtag
      else if !tinyOk 4 key then .err .invalidSubtag
      else .ok (lower key)
    | _ => .panic  -- key[0] / key[1] out of bounds (unreachable)

/-- `parse_type` (unicode.rs:32-45): `Ok(None)` for `true`. -/
def parseType (t : Bytes) : Res (Option Bytes) :=
  if !tinyOk 8 t then .err .invalidSubtag
  else if !(3 ≤ t.length && t.length ≤ 8) || !allAlnum t then .err .invalidSubtag
  else
    let s := lower t
    if s == trueBytes then .ok none else .ok (some s)

/-- `parse_attribute` (unicode.rs:47-54) -/
def parseAttribute (t : Bytes) : Res Bytes :=
  if !tinyOk 8 t then .err .invalidSubtag
  else if !(3 ≤ t.length && t.length ≤ 8) || !allAlnum t then .err .invalidSubtag
  else .ok (lower t)

/-- `is_type` / `is_attribute` (unicode.rs:56-64): the same predicate. -/
def isTypeShape (t : Bytes) : Bool := (3 ≤ t.length && t.length ≤ 8) && !t.any (fun c => !isAlnum c)

/-- `filter_map(|t| parse_type(t).transpose()).collect::<Result<Vec<_>,_>>()`:
    first error wins, `true` values vanish. -/
def collectTypes (p : Bytes → Res (Option Bytes)) : List Bytes → Res (List Bytes)
  | [] => .ok []
  | t :: ts =>
    match p t with
    | .err e => .err e
    | .panic => .panic
    | .ok o =>
      match collectTypes p ts with
      | .err e => .err e
      | .panic => .panic
      | .ok r => .ok (o.toList ++ r)

namespace UExt
def isEmpty (u : UExt) : Bool := u.keywords.isEmpty && u.attributes.isEmpty

def flush (u : UExt) (ck : Option Bytes) (ct : List Bytes) : UExt :=
  match ck with
  | some k => { u with keywords := AMap.insert k ct u.keywords }
  | none => u

def finish (u : UExt) (ck : Option Bytes) (ct : List Bytes) : UExt :=
  let u := flush u ck ct
  { u with attributes := dedupAdj (sortBytes u.attributes) }

/-- the `while let Some(subtag) = st_peek` loop of `UnicodeExtensionList::try_from_iter`
    (unicode.rs:339-380); returns the list and the unconsumed subtags. -/
def loop : List Bytes → UExt → Option Bytes → List Bytes → Res (UExt × List Bytes)
  | [], u, ck, ct => .ok (finish u ck ct, [])
  | t :: ts, u, ck, ct =>
    if t.length == 2 then
      match parseKey t with
      | .err e => .err e
      | .panic => .panic
      | .ok k => loop ts (flush u ck ct) (some k) (if ck.isSome then [] else ct)
    else if ck.isSome && isTypeShape t then
      match parseType t with
      | .err e => .err e
      | .panic => .panic
      | .ok (some ty) => loop ts u ck (ct ++ [ty])
      | .ok none => loop ts u ck ct
    else if isTypeShape t then
      match parseAttribute t with
      | .err e => .err e
      | .panic => .panic
      | .ok a => loop ts { u with attributes := u.attributes ++ [a] } ck ct
    else .ok (finish u ck ct, t :: ts)

def parseIter (ts : List Bytes) : Res (UExt × List Bytes) := loop ts {} none []

/-- `keyword(key)`: `Err` on a malformed key, otherwise the (possibly empty) value list. -/
def keyword (u : UExt) (key : Bytes) : Res (List Bytes) :=
  (parseKey key).map (fun k => (AMap.get k u.keywords).getD [])
def keywordKeys (u : UExt) : List Bytes := AMap.keys u.keywords
def setKeyword (u : UExt) (key : Bytes) (vals : List Bytes) : Res UExt :=
  (parseKey key).bind fun k =>
  (collectTypes parseType vals).map fun t => { u with keywords := AMap.insert k t u.keywords }
def removeKeyword (u : UExt) (key : Bytes) : Res (UExt × Bool) :=
  (parseKey key).map fun k =>
    ({ u with keywords := AMap.remove k u.keywords }, (AMap.get k u.keywords).isSome)
def clearKeywords (u : UExt) : UExt := { u with keywords := [] }
def hasAttribute (u : UExt) (a : Bytes) : Res Bool :=
  (parseAttribute a).map fun a => u.attributes.contains a
/-- `set_attribute`: `binary_search`, insert at the returned position if absent. -/
def setAttribute (u : UExt) (a : Bytes) : Res UExt :=
  (parseAttribute a).map fun a =>
    match binarySearchBy u.attributes (cmpBytes a) with
    | .inl _ => u
    | .inr idx => { u with attributes := u.attributes.take idx ++ a :: u.attributes.drop idx }
def removeAttribute (u : UExt) (a : Bytes) : Res (UExt × Bool) :=
  (parseAttribute a).map fun a =>
    match binarySearchBy u.attributes (cmpBytes a) with
    | .inl idx => ({ u with attributes := u.attributes.eraseIdx idx }, true)
    | .inr _ => (u, false)
def clearAttributes (u : UExt) : UExt := { u with attributes := [] }

/-- subtags written by `Display` (after the leading `-`): nothing when empty. -/
def tokens (u : UExt) : List Bytes :=
  if u.isEmpty then [] else [117] :: (u.attributes ++ AMap.tokens u.keywords)
end UExt

/-! ### Transform extension (`-t-`) -/

structure TExt where
  tlang : Option LangId := none
  tfields : AMap := []
  deriving DecidableEq, Repr, Inhabited

/-- `parse_tkey` (transform.rs:20-26) -/
def parseTKey (key : Bytes) : Res Bytes :=
  if key.length != 2 then .err .invalidSubtag
  else match key with
    | [a, b] =>
      if !isAlpha a || !isDigit b then .err .invalidSubtag
      else if !tinyOk 4 key then .err .invalidSubtag
      else .ok (lower key)
    | _ => .panic

/-- `parse_tvalue` (transform.rs:30-43) -/
def parseTValue (t : Bytes) : Res (Option Bytes) :=
  if !tinyOk 8 t then .err .invalidSubtag
  else if t.length < 3 || t.length > 8 || !allAlnum t then .err .invalidSubtag
  else
    let s := lower t
    if s == trueBytes then .ok none else .ok (some s)

/-- `is_language_subtag` (transform.rs:45-48): 2..=8 letters (4 included). -/
def isLanguageSubtag (t : Bytes) : Bool :=
  ((2 ≤ t.length && t.length ≤ 8) || t.length == 4) && !t.any (fun c => !isAlpha c)

/-- the test `slen == 2 && subtag[0].is_ascii_alphabetic() && subtag[1].is_ascii_digit()` -/
def isTKeyShape (t : Bytes) : Bool :=
  match t with
  | [a, b] => isAlpha a && isDigit b
  | _ => false

namespace TExt
def isEmpty (x : TExt) : Bool := x.tlang.isNone && x.tfields.isEmpty

def flush (x : TExt) (ck : Option Bytes) (cv : List Bytes) : TExt :=
  match ck with
  | some k => { x with tfields := AMap.insert k cv x.tfields }
  | none => x

/-- The loop of `TransformExtensionList::try_from_iter` (transform.rs:283-323) from the moment no
    further tlang can be read (a tlang was read, or a tkey was seen): branches tkey / singleton /
    tvalue / break. -/
def fieldLoop : List Bytes → TExt → Option Bytes → List Bytes → Res (TExt × List Bytes)
  | [], x, ck, cv => .ok (flush x ck cv, [])
  | t :: ts, x, ck, cv =>
    if isTKeyShape t then
      match parseTKey t with
      | .err e => .err e
      | .panic => .panic
      | .ok k => fieldLoop ts (flush x ck cv) (some k) (if ck.isSome then [] else cv)
    else if t.length == 1 then .ok (flush x ck cv, t :: ts)
    else if ck.isSome then
      match parseTValue t with
      | .err e => .err e
      | .panic => .panic
      | .ok (some v) => fieldLoop ts x ck (cv ++ [v])
      | .ok none => fieldLoop ts x ck cv
    else .ok (flush x ck cv, t :: ts)

/-- `TransformExtensionList::try_from_iter`.  At loop entry no tkey has been seen and no tlang
    read, so the first iteration is the only one in which the tlang branch
    (`text.tlang.is_none() && is_language_subtag(subtag)`) can fire: before it fires nothing has
    been consumed, after it fires `tlang` is set.  The model therefore reads an optional tlang and
    continues with `fieldLoop` (same branch order for the first subtag). -/
def parseIter (ts : List Bytes) : Res (TExt × List Bytes) :=
  match ts with
  | [] => .ok ({}, [])
  | t :: _ =>
    if isTKeyShape t then fieldLoop ts {} none []
    else if t.length == 1 then .ok ({}, ts)
    else if isLanguageSubtag t then
      match LangId.parseIter ts true with
      | .err _ => .err .invalidLanguage
      | .panic => .panic
      | .ok (li, rest) => fieldLoop rest { tlang := some li } none []
    else .ok ({}, ts)

def tfield (x : TExt) (key : Bytes) : Res (List Bytes) :=
  (parseTKey key).map (fun k => (AMap.get k x.tfields).getD [])
def tfieldKeys (x : TExt) : List Bytes := AMap.keys x.tfields
def setTField (x : TExt) (key : Bytes) (vals : List Bytes) : Res TExt :=
  (parseTKey key).bind fun k =>
  (collectTypes parseTValue vals).map fun t => { x with tfields := AMap.insert k t x.tfields }
def removeTField (x : TExt) (key : Bytes) : Res (TExt × Bool) :=
  (parseTKey key).map fun k =>
    ({ x with tfields := AMap.remove k x.tfields }, (AMap.get k x.tfields).isSome)
def clearTFields (x : TExt) : TExt := { x with tfields := [] }
def setTLang (x : TExt) (l : LangId) : TExt := { x with tlang := some l }
def clearTLang (x : TExt) : TExt := { x with tlang := none }

def tokens (x : TExt) : List Bytes :=
  if x.isEmpty then []
  else [116] :: ((match x.tlang with | some l => LangId.tokens l | none => []) ++ AMap.tokens x.tfields)
end TExt

/-! ### Private-use extension (`-x-`) -/

/-- `parse_value` (private.rs:9-16) -/
def parsePrivate (t : Bytes) : Res Bytes :=
  if !tinyOk 8 t then .err .invalidSubtag
  else if t.isEmpty || t.length > 8 || !allAlnum t then .err .invalidSubtag
  else .ok (lower t)

def collectAll (p : Bytes → Res Bytes) : List Bytes → Res (List Bytes)
  | [] => .ok []
  | t :: ts =>
    match p t with
    | .err e => .err e
    | .panic => .panic
    | .ok a =>
      match collectAll p ts with
      | .err e => .err e
      | .panic => .panic
      | .ok r => .ok (a :: r)

abbrev PExt := List Bytes

namespace PExt
/-- `PrivateExtensionList::try_from_iter`: consumes everything that is left. -/
def parseIter (ts : List Bytes) : Res PExt := (collectAll parsePrivate ts).map sortBytes
def hasTag (p : PExt) (t : Bytes) : Res Bool := (parsePrivate t).map fun v => p.contains v
def addTag (p : PExt) (t : Bytes) : Res PExt := (parsePrivate t).map fun v => sortBytes (p ++ [v])
def removeTag (p : PExt) (t : Bytes) : Res (PExt × Bool) :=
  (parsePrivate t).map fun v =>
    match binarySearchBy p (cmpBytes v) with
    | .inl idx => (p.eraseIdx idx, true)
    | .inr _ => (p, false)
def tokens (p : PExt) : List Bytes := if p.isEmpty then [] else [120] :: p
end PExt

/-! ### `ExtensionsMap` (the `other` field is not modelled: no API writes it) -/

structure ExtMap where
  unicode : UExt := {}
  transform : TExt := {}
  priv : PExt := []
  deriving DecidableEq, Repr, Inhabited

inductive ExtType where
  | unicode | transform | priv | other
  deriving DecidableEq, Repr

/-- `ExtensionType::from_byte` (mod.rs:43-53) -/
def ExtType.fromByte (key : Nat) : Res ExtType :=
  let key := toLower key
  if key == 117 then .ok .unicode
  else if key == 116 then .ok .transform
  else if key == 120 then .ok .priv
  else if isAlnum key then .ok .other
  else .err .invalidExtension

namespace ExtMap
def isEmpty (m : ExtMap) : Bool := m.unicode.isEmpty && m.transform.isEmpty && m.priv.isEmpty

/-- The `while let Some(subtag) = st` loop of `ExtensionsMap::try_from_iter` (mod.rs:80-120).
    The sub-parsers hand back the unconsumed subtags, so the recursion is on a list that is not a
    syntactic sub-term: it is driven by `fuel`, and running out of fuel is `panic`
    (`Lemmas`: fuel = length + 1 always suffices). -/
def loop : Nat → List Bytes → ExtMap → Bool → Bool → Res ExtMap
  | 0, _, _, _, _ => .panic
  | _ + 1, [], m, _, _ => .ok m
  | fuel + 1, t :: ts, m, seenU, seenT =>
    if t.length > 1 then .err .invalidExtension
    else match t with
      | [] => loop fuel ts m seenU seenT
      | b :: _ =>
        match ExtType.fromByte b with
        | .ok .unicode =>
          if seenU then .err .invalidExtension
          else match UExt.parseIter ts with
            | .err e => .err e
            | .panic => .panic
            | .ok (u, rest) => loop fuel rest { m with unicode := u } true seenT
        | .ok .transform =>
          if seenT then .err .invalidExtension
          else match TExt.parseIter ts with
            | .err e => .err e
            | .panic => .panic
            | .ok (x, rest) => loop fuel rest { m with transform := x } seenU true
        | .ok .priv =>
          match PExt.parseIter ts with
          | .err e => .err e
          | .panic => .panic
          | .ok p => .ok { m with priv := p }
        | _ => .err .invalidExtension

def parseIter (ts : List Bytes) : Res ExtMap := loop (ts.length + 1) ts {} false false

/-- `ExtensionsMap::from_bytes` / `FromStr` -/
def fromBytes (bs : Bytes) : Res ExtMap := parseIter (splitSep bs)

/-- `Display`: transform, unicode, private — each writes `-x-…` or nothing. -/
def tokens (m : ExtMap) : List Bytes := m.transform.tokens ++ m.unicode.tokens ++ PExt.tokens m.priv
def display (m : ExtMap) : Bytes := dashAll (tokens m)
end ExtMap

end UL
