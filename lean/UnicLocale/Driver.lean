/-
  Driver.lean — the line protocol of `/verif/harness` answered by the model (and, where one
  exists, by the independent `Spec`).  One request line in, one response line out:
  `<model answer>` or `<model answer>\t<spec answer>`.
-/
import UnicLocale.Model.Ops
import UnicLocale.Model.Cmp
import UnicLocale.Model.Macros
import UnicLocale.Model.Serde
import UnicLocale.Model.Glue
import UnicLocale.Model.Routes
import Lean.Data.Json.Parser
import UnicLocale.Spec.Grammar
import UnicLocale.Spec.Locale
import UnicLocale.Spec.Likely
import UnicLocale.Spec.AbsOps
import UnicLocale.Spec.Match
import UnicLocale.Gen.Tables
import UnicLocale.Gen.Cldr

namespace UL.Driver
open UL

def hexVal (c : Char) : Option Nat :=
  if '0' ≤ c && c ≤ '9' then some (c.toNat - 48)
  else if 'a' ≤ c && c ≤ 'f' then some (c.toNat - 87)
  else none

def unhexL : List Char → Option Bytes
  | [] => some []
  | a :: b :: r => do
    let h ← hexVal a
    let l ← hexVal b
    let t ← unhexL r
    pure ((h * 16 + l) :: t)
  | _ => none

def unhex (s : String) : Option Bytes :=
  if s == "_" then some [] else unhexL s.toList

def unhexOpt (s : String) : Option (Option Bytes) :=
  if s == "~" then some none else (unhex s).map some

def unhexList (s : String) : Option (List Bytes) :=
  if s == "[]" then some [] else (s.splitOn ",").mapM unhex

def hexDigit (n : Nat) : Char := Char.ofNat (if n < 10 then 48 + n else 55 + n)

def escB (acc : String) (b : Nat) : String :=
  if isAlnum b || b == 45 then acc.push (Char.ofNat b)
  else ((acc.push '%').push (hexDigit (b / 16 % 16))).push (hexDigit (b % 16))

def esc (s : Bytes) : String := s.foldl escB ""

def escList (l : List Bytes) : String := ",".intercalate (l.map esc)

def escOpt (o : Option Bytes) : String :=
  match o with
  | some s => esc s
  | none => "~"

def b01 (b : Bool) : String := if b then "1" else "0"

def errCode : Err → String
  | .invalidLanguage => "err L"
  | .invalidSubtag => "err S"
  | .invalidExtension => "err E"

def renderLi (x : LangId) : String :=
  s!"l={esc (Language.asStr x.language)};s={escOpt x.script};r={escOpt x.region};v={escList x.variantList}"

def renderMap (m : AMap) : String :=
  "|".intercalate (m.map fun (k, v) => s!"{esc k}:{escList v}")

def renderExt (e : ExtMap) : String :=
  let tl := match e.transform.tlang with
    | some l => s!"({renderLi l})"
    | none => "~"
  s!"ua={escList e.unicode.attributes};uk={renderMap e.unicode.keywords};tl={tl};tf={renderMap e.transform.tfields};x={escList e.priv};ue={b01 e.unicode.isEmpty};te={b01 e.transform.isEmpty};xe={b01 e.priv.isEmpty};ee={b01 e.isEmpty}"

def renderLoc (x : Locale) : String :=
  s!"{renderLi x.id};{renderExt x.ext};str={esc x.display}"

def renderSpecLi (v : Spec.LangIdV) : String :=
  s!"l={esc (v.language.getD Spec.und)};s={escOpt v.script};r={escOpt v.region};v={escList v.variants}"

def renderLocV (v : Spec.LocV) : String :=
  let tl := match v.tlang with
    | some l => s!"({renderSpecLi l})"
    | none => "~"
  let ue := v.attrs.isEmpty && v.keywords.isEmpty
  let te := v.tlang.isNone && v.tfields.isEmpty
  let xe := v.tags.isEmpty
  s!"{renderSpecLi v.id};ua={escList v.attrs};uk={renderMap v.keywords};tl={tl};tf={renderMap v.tfields};x={escList v.tags};ue={b01 ue};te={b01 te};xe={b01 xe};ee={b01 (ue && te && xe)};str={esc (Spec.canon v)}"

/-- the C03 oracle: zone and expected rendering -/
def specLoc (bs : Bytes) : String :=
  match Spec.zone bs with
  | .accept v => s!"accept ok {renderLocV v};rt=1"
  | .either v => s!"either ok {renderLocV v};rt=1"
  | .reject => "reject"
  | .outside => "outside"

def cldrDict : Std.HashMap Spec.Key Spec.Key := Spec.dictOfEntries Gen.cldr
def cldrFind : Spec.Find := fun k => cldrDict[k]?

/-! ### answers -/

def resLang (r : Res Language) : String :=
  match r with
  | .ok l => s!"ok {esc (Language.asStr l)};{esc (Language.asStr l)};{b01 (Language.eqStr l (Language.asStr l))};{b01 l.isNone};rt={b01 (Language.fromBytes (Language.asStr l) == .ok l)}"
  | .err e => errCode e
  | .panic => "panic"

def resSubtag (p : Bytes → Res Bytes) (r : Res Bytes) : String :=
  match r with
  | .ok s => s!"ok {esc s};{esc s};1;rt={b01 (p s == .ok s)}"
  | .err e => errCode e
  | .panic => "panic"

def specLang (v : Bytes) : String :=
  if Spec.isLanguage v then
    let s := (Spec.canonLanguage v).getD Spec.und
    s!"ok {esc s};{esc s};1;{b01 (Spec.canonLanguage v).isNone};rt=1"
  else "err L"

def specSubtag (p : Bytes → Bool) (f : Bytes → Bytes) (v : Bytes) : String :=
  if p v then s!"ok {esc (f v)};{esc (f v)};1;rt=1" else "err S"

def ansLi (v : Bytes) : String :=
  match LangId.fromBytes v with
  | .ok x =>
    let s := x.display
    let rt := LangId.fromBytes s == .ok x
    s!"ok {renderLi x};str={esc s};rt={b01 rt}"
  | .err e => errCode e
  | .panic => "panic"

def specLi (v : Bytes) : String :=
  match Spec.langIdResult v with
  | .ok x => s!"ok {renderSpecLi x};str={esc (Spec.canonLangId x)};rt=1"
  | .invalidLanguage => "err L"
  | .invalidSubtag => "err S"

def ansLoc (v : Bytes) : String :=
  match Locale.fromBytes v with
  | .ok x =>
    let rt := Locale.fromBytes x.display == .ok x
    s!"ok {renderLoc x};rt={b01 rt}"
  | .err e => errCode e
  | .panic => "panic"

def ansExt (v : Bytes) : String :=
  match ExtMap.fromBytes v with
  | .ok x =>
    let s := x.display
    let rt := ExtMap.fromBytes s == .ok x
    s!"ok {renderExt x};str={esc s};rt={b01 rt}"
  | .err e => errCode e
  | .panic => "panic"

def ansCan (r : Res Bytes) : String :=
  match r with
  | .ok s => s!"ok {esc s}"
  | .err e => errCode e
  | .panic => "panic"

def renderTriple (r : Res (Option Triple)) : String :=
  match r with
  | .ok none => "none"
  | .ok (some (l, s, rg)) => s!"some {esc (Language.asStr l)} {escOpt s} {escOpt rg}"
  | .err _ => "err"
  | .panic => "panic"

def renderSpecTriple (r : Option Triple) : String :=
  match r with
  | none => "none"
  | some (l, s, rg) => s!"some {esc (Language.asStr l)} {escOpt s} {escOpt rg}"

/-- arguments of `max`/`min`: valid subtags as text, run through the constructors -/
def tripleArgs (a : List String) : Option (Language × Option Bytes × Option Bytes) :=
  match a with
  | [l, s, r] => do
    let lo ← unhexOpt l
    let so ← unhexOpt s
    let ro ← unhexOpt r
    let lang ← match lo with
      | some x => (Language.fromBytes x).toOption
      | none => some none
    let sc ← match so with
      | some x => (Script.fromBytes x).toOption.map some
      | none => some none
    let rg ← match ro with
      | some x => (Region.fromBytes x).toOption.map some
      | none => some none
    pure (lang, sc, rg)
  | _ => none

def dirName : LangId.Dir → String
  | .ltr => "LTR"
  | .rtl => "RTL"
  | .ttb => "TTB"

def ordName (lt eq : Bool) : String := if eq then "eq" else if lt then "lt" else "gt"

def ordStr : Ordering → String
  | .lt => "lt"
  | .eq => "eq"
  | .gt => "gt"

/-! ### histories -/

def parseOp (s : String) : Option Op :=
  let f := s.splitOn ":"
  match f with
  | ["sl", v] => (unhex v).map .setLanguage
  | ["ss", v] => (unhexOpt v).map .setScript
  | ["sr", v] => (unhexOpt v).map .setRegion
  | ["sv", l] => (unhexList l).map .setVariants
  | ["cv"] => some .clearVariants
  | ["hv", v] => (unhex v).map .hasVariant
  | ["sk", k, l] => do pure (.setKeyword (← unhex k) (← unhexList l))
  | ["rk", k] => (unhex k).map .removeKeyword
  | ["ck"] => some .clearKeywords
  | ["kw", k] => (unhex k).map .keyword
  | ["sa", a] => (unhex a).map .setAttribute
  | ["ra", a] => (unhex a).map .removeAttribute
  | ["ca"] => some .clearAttributes
  | ["ha", a] => (unhex a).map .hasAttribute
  | ["stl", l] => (unhex l).map .setTLang
  | ["ctl"] => some .clearTLang
  | ["stf", k, l] => do pure (.setTField (← unhex k) (← unhexList l))
  | ["rtf", k] => (unhex k).map .removeTField
  | ["ctf"] => some .clearTFields
  | ["tf", k] => (unhex k).map .tfield
  | ["at", t] => (unhex t).map .addTag
  | ["rt", t] => (unhex t).map .removeTag
  | ["ct"] => some .clearTags
  | ["ht", t] => (unhex t).map .hasTag
  | ["mx"] => some .maximize
  | ["mn"] => some .minimize
  | _ => none

def renderOut : Out → String
  | .unit => "u"
  | .bool b => s!"b{b01 b}"
  | .list l => s!"l{escList l}"
  | .err => "e"
  | .panic => "panic"

/-- what is printed about a state after every step: the rendering, re-parse, parts round trip, serde form -/
def stateSuffix (y : Locale) : String :=
  let rp := Locale.fromBytes y.display == .ok y
  let (pl, ps, pr, pv, pe) := y.intoParts
  let pp := match ExtMap.fromBytes pe with
    | .ok em => Locale.fromParts pl ps pr pv (some em) == y
    | _ => false
  let sd := match Serde.serialize y.id with
    | .str t => t == y.id.display && Serde.deserialize (.str t) == .ok y.id
    | _ => false
  s!"{renderLoc y};rp={b01 rp};pp={b01 pp};sd={b01 sd}"

/-- `cd`: `character_direction()` of the identifier as a getter inside a history (build with likely-subtags support;
    not an `Op` of the refinement theorems: it reads the state and leaves it alone) -/
def histDirection (x : LangId) : String :=
  match LangId.direction true Gen.tables Gen.layout x with
  | .ok d => s!"d{dirName d}"
  | .err _ => "e"
  | .panic => "panic"

def histLoop (x : Locale) (acc : String) : List String → String
  | [] => acc
  | o :: os =>
    if o == "cd" then
      let d := histDirection x.id
      if d == "panic" then acc ++ " # panic" else histLoop x (acc ++ s!" # {d}@{stateSuffix x}") os
    else
    match parseOp o with
    | none => acc ++ " # na"
    | some op =>
      let (y, out) := step Gen.tables x op
      match out with
      | .panic => acc ++ " # panic"
      | _ => histLoop y (acc ++ s!" # {renderOut out}@{stateSuffix y}") os

def ansHist (a : List String) : String :=
  match a with
  | [] => "bad"
  | i :: ops =>
    match unhexOpt i with
    | none => "bad"
    | some none => histLoop {} s!"ok {renderLoc {}}" ops
    | some (some v) =>
      match Locale.fromBytes v with
      | .ok x => histLoop x s!"ok {renderLoc x}" ops
      | .err e => errCode e
      | .panic => "panic"


/-! ### serde (C19): JSON text is decoded with `Lean.Json` (contract of serde_json), the model decides -/

def bytesToString (b : Bytes) : Option String :=
  let ba := ByteArray.mk (b.map (fun n => UInt8.ofNat n)).toArray
  String.fromUTF8? ba

def wireOfJson (text : Bytes) : Wire :=
  match bytesToString text with
  | none => .invalid
  | some s =>
    match Lean.Json.parse s with
    | .ok (.str v) => .str (v.toUTF8.toList.map (·.toNat))
    | .ok _ => .other
    | .error _ => .invalid

def ansDeser (w : Wire) : String :=
  match Serde.deserialize w with
  | .ok x => s!"ok {renderLi x}"
  | .err _ => "err"
  | .panic => "panic"

def ansSerFrom (text : Bytes) : String :=
  let w := wireOfJson text
  let r := ansDeser w
  let p := match w with
    | .str v => (match LangId.fromBytes v with
      | .ok x => s!"ok {renderLi x}"
      | .err _ => "err"
      | .panic => "panic")
    | _ => "nostr"
  -- 4th column: `deserialize_in_place` (into an occupied slot, and as an element of a Vec deserialised in place) gives what
  -- `deserialize` gives: the model has one deserialiser
  match w with
  | .invalid => s!"{r} | badjson | {p} | same"
  | _ => s!"{r} | {r} | {p} | same"

def ansSerTo (v : Bytes) : String :=
  match LangId.fromBytes v with
  | .ok x =>
    match Serde.serialize x with
    | .str s =>
      let rt := b01 (Serde.deserialize (.str s) == .ok x)
      s!"ok {esc ([34] ++ s ++ [34])} rt={rt} val={esc s} rt2={rt}"
    | _ => "err"
  | .err e => errCode e
  | .panic => "panic"

/-! ### macros (C16): predicted outcome of one invocation -/

def macOut {α} (render : α → String) : MacroOut α → String
  | .value a => s!"value {render a}"
  | .compileError => "cerr"
  | .runtimePanic => "rpanic"

def ansMac (kind : String) (lits : List Bytes) : String :=
  let liR (x : LangId) : String := s!"{renderLi x};str={esc x.display}"
  match kind, lits with
  | "lang", [l] => macOut (fun x => esc (Language.asStr x)) (Macros.lang l)
  | "script", [l] => macOut esc (Macros.script l)
  | "region", [l] => macOut esc (Macros.region l)
  | "variant", [l] => macOut esc (Macros.variant l)
  | "langid", [l] => macOut liR (Macros.langid l)
  | "locale", [l] => macOut renderLoc (Macros.locale l)
  | "langids", ls => macOut (fun xs => " , ".intercalate (xs.map liR)) (Macros.list Macros.langid ls)
  | "langid_slice", ls => macOut (fun xs => " , ".intercalate (xs.map liR)) (Macros.list Macros.langid ls)
  | "locales", ls => macOut (fun xs => " , ".intercalate (xs.map renderLoc)) (Macros.list Macros.locale ls)
  | _, _ => "bad"

/-! the reference model of C10 (`Spec/AbsOps.lean`: sorted sets, a sorted multiset, ordered maps), started
    from the C03 oracle's reading of the initial string, with the CLDR dictionary as likely-subtags data -/

def cldrLikely : Spec.LikelyFns :=
  ⟨fun l s r => .ok (Spec.maximize cldrFind l s r), fun l s r => .ok (Spec.minimize cldrFind l s r)⟩

def absOfLocV (v : Spec.LocV) : Spec.AbsLoc :=
  { language := v.id.language, script := v.id.script, region := v.id.region, variants := v.id.variants,
    attrs := v.attrs, keywords := v.keywords, tlang := v.tlang, tfields := v.tfields, tags := v.tags }

def specHistLoop (a : Spec.AbsLoc) (acc : String) : List String → String
  | [] => acc
  | o :: os =>
    if o == "cd" then
      let d := histDirection { language := a.language, script := a.script, region := a.region }
      specHistLoop a (acc ++ s!" # {d}@{renderLocV (Spec.toLocV a)};rp=1;pp=1;sd=1") os
    else
    match parseOp o with
    | none => acc ++ " # na"
    | some op =>
      let (b, out) := Spec.absStep cldrLikely a op
      specHistLoop b (acc ++ s!" # {renderOut out}@{renderLocV (Spec.toLocV b)};rp=1;pp=1;sd=1") os

def specHist (a : List String) : Option String :=
  match a with
  | [] => none
  | i :: ops =>
    match unhexOpt i with
    | none => none
    | some none => some (specHistLoop {} s!"ok {renderLocV (Spec.toLocV {})}" ops)
    | some (some v) =>
      match Spec.zone v with
      | .accept w => some (specHistLoop (absOfLocV w) s!"ok {renderLocV w}" ops)
      | .either w => some (specHistLoop (absOfLocV w) s!"ok {renderLocV w}" ops)
      | _ => none

def ansHistBoth (a : List String) : String :=
  match specHist a with
  | some sp => ansHist a ++ "\t" ++ sp
  | none => ansHist a

def flagOf (s : String) : Bool := s == "1"

/-- `LanguageIdentifier::maximize/minimize` as the statement describes them: the look-up result replaces the three
    fields and the call reports `true`; no result leaves the value alone and reports `false` -/
def specApply (f : Language → Option Bytes → Option Bytes → Option (Language × Option Bytes × Option Bytes)) (x : LangId) :
    LangId × Bool :=
  match f x.language x.script x.region with
  | some (l, s, r) => ({ x with language := l, script := s, region := r }, true)
  | none => (x, false)

def cldrDerivedLayout : Layout := Spec.derivedLayout Gen.cldrLayout

def dirClause (x : LangId) : String :=
  match Spec.directionClause cldrDerivedLayout x.language x.script with
  | some d => s!"must {dirName d}"
  | none => "free"

/-- the independent model of C14's quantifier: the decision over the layout the CLDR layout files determine and the CLDR
    likelySubtags dictionary (a listed script decides; an RTL-listed language: the direction of the likely script of
    `maximize(language, -, region)`; otherwise left-to-right) -/
def dirRef (x : LangId) : String :=
  s!"ref {dirName (Spec.direction true cldrFind cldrDerivedLayout x.language x.script x.region)}"

/-- `from_raw_parts_unchecked(l, s, r, Some(Box::new([])))` for an identifier without variants -/
def someEmpty (x : LangId) : LangId := if x.variantList.isEmpty then { x with variants := some [] } else x

def withSpec (m s : String) : String := m ++ "\t" ++ s

def answer (line : String) : String :=
  let parts := line.splitOn " "
  match parts with
  | [] => "bad"
  | op :: a =>
    let arg (i : Nat) : Option Bytes := (a[i]?).bind unhex
    match op with
    | "lang" => match arg 0 with
      | some v => withSpec (resLang (Language.fromBytes v)) (specLang v)
      | none => "bad"
    | "langstr" => match arg 0 with
      | some v => withSpec (resLang (Language.fromBytes v)) (specLang v)
      | none => "bad"
    | "langopt" => match (a[0]?).bind unhexOpt with
      | some o =>
        -- `TryFrom<Option<T>>`: `None` is the empty language, `Some(text)` is what parsing the text gives
        let sp := match o with
          | some v => specLang v
          | none => "ok und;und;1;1;rt=1"
        withSpec (resLang (Language.tryFromOption o)) sp
      | none => "bad"
    | "langdefault" => s!"{resLang (.ok Language.default)} | {resLang (.ok Language.default)}"
    | "script" => match arg 0 with
      | some v => withSpec (resSubtag Script.fromBytes (Script.fromBytes v)) (specSubtag Spec.isScript title v)
      | none => "bad"
    | "region" => match arg 0 with
      | some v => withSpec (resSubtag Region.fromBytes (Region.fromBytes v)) (specSubtag Spec.isRegion upper v)
      | none => "bad"
    | "variant" => match arg 0 with
      | some v => withSpec (resSubtag Variant.fromBytes (Variant.fromBytes v)) (specSubtag Spec.isVariant lower v)
      | none => "bad"
    | "li" => match arg 0 with
      | some v => withSpec (ansLi v) (specLi v)
      | none => "bad"
    | "listr" => match arg 0 with
      | some v => withSpec (ansLi v) (specLi v)
      | none => "bad"
    | "lican" => match arg 0 with
      | some v =>
        let sp := match Spec.langIdResult v with
          | .ok x => s!"ok {esc (Spec.canonLangId x)}"
          | .invalidLanguage => "err L"
          | .invalidSubtag => "err S"
        withSpec (ansCan (LangId.canonicalize v)) sp
      | none => "bad"
    | "loc" => match arg 0 with
      | some v => withSpec (ansLoc v) (specLoc v)
      | none => "bad"
    | "locstr" => match arg 0 with
      | some v => withSpec (ansLoc v) (specLoc v)
      | none => "bad"
    | "pair" => match arg 0, arg 1 with
      | some x, some y => s!"{ansLoc x} || {ansLoc y}"
      | _, _ => "bad"
    | "extpair" => match arg 0, arg 1 with
      | some x, some y => s!"{ansExt x} || {ansExt y}"
      | _, _ => "bad"
    | "lipair" => match arg 0, arg 1 with
      | some x, some y => s!"{ansLi x} || {ansLi y}"
      | _, _ => "bad"
    | "loccan" => match arg 0 with
      | some v => ansCan (Locale.canonicalize v)
      | none => "bad"
    | "ext" => match arg 0 with
      | some v => ansExt v
      | none => "bad"
    | "max" => match tripleArgs a with
      | some (l, s, r) => withSpec (renderTriple (Likely.maximize Gen.tables l s r)) (renderSpecTriple (Spec.maximize cldrFind l s r))
      | none => "bad"
    | "min" => match tripleArgs a with
      | some (l, s, r) => withSpec (renderTriple (Likely.minimize Gen.tables l s r)) (renderSpecTriple (Spec.minimize cldrFind l s r))
      | none => "bad"
    | "limax" | "limin" => match arg 0 with
      | some v =>
        match LangId.fromBytes v with
        | .ok x =>
          let f (y : LangId) := if op == "limax" then y.maximize Gen.tables else y.minimize Gen.tables
          -- reference: the dictionary formulation over the CLDR data, applied to the three fields
          let g (y : LangId) := specApply (if op == "limax" then Spec.maximize cldrFind else Spec.minimize cldrFind) y
          let (sy, sb1) := g x
          let (sz, sb2) := g sy
          let sp := s!"ok {renderLi x} | {b01 sb1} {renderLi sy} | {b01 sb2} {renderLi sz}"
          match f x with
          | .ok (y, b1) =>
            match f y with
            | .ok (z, b2) => withSpec s!"ok {renderLi x} | {b01 b1} {renderLi y} | {b01 b2} {renderLi z}" sp
            | .err _ => "err"
            | .panic => "panic"
          | .err _ => "err"
          | .panic => "panic"
        | .err e => errCode e
        | .panic => "panic"
      | none => "bad"
    | "liminmax" => match arg 0 with
      | some v =>
        match LangId.fromBytes v with
        | .ok x =>
          match x.minimize Gen.tables, x.maximize Gen.tables with
          | .ok (a, _), .ok (c, _) =>
            match c.minimize Gen.tables, a.maximize Gen.tables with
            | .ok (bb, _), .ok (d, _) => s!"ok {renderLi a} | {renderLi bb} | {renderLi c} | {renderLi d}"
            | _, _ => "panic"
          | _, _ => "panic"
        | .err e => errCode e
        | .panic => "panic"
      | none => "bad"
    | "idem" => match arg 0 with
      | some v =>
        let a := match LangId.canonicalize v with
          | .ok s => (match LangId.canonicalize s with
                      | .ok t => b01 (s == t)
                      | _ => "0")
          | .err _ => "e"
          | .panic => "panic"
        let c := match Locale.canonicalize v with
          | .ok s => (match Locale.canonicalize s with
                      | .ok t => b01 (s == t)
                      | _ => "0")
          | .err _ => "e"
          | .panic => "panic"
        s!"ok li={a} loc={c}"
      | none => "bad"
    | "locmax" | "locmin" => match arg 0 with
      | some v =>
        match Locale.fromBytes v with
        | .ok x =>
          let (sy, sb) := specApply (if op == "locmax" then Spec.maximize cldrFind else Spec.minimize cldrFind) x.id
          match (if op == "locmax" then x.id.maximize Gen.tables else x.id.minimize Gen.tables) with
          | .ok (y, b) => withSpec s!"ok {b01 b} {renderLoc { x with id := y }}" s!"ok {b01 sb} {renderLoc { x with id := sy }}"
          | .err _ => "err"
          | .panic => "panic"
        | .err e => errCode e
        | .panic => "panic"
      | none => "bad"
    | "cldrversion" => s!"ok {Gen.cldrVersion}"
    | "dir" | "dir0" | "dir1" => match arg 0 with
      | some v =>
        match LangId.fromBytes v with
        | .ok x =>
          let one (likely : Bool) : String :=
            match LangId.direction likely Gen.tables Gen.layout x with
            | .ok d => s!"ok {dirName d}"
            | .err _ => "err"
            | .panic => "panic"
          -- `dir` answers for both builds: with \t between them the checker picks by feature set; third column:
          -- the unconditional clauses of C14 evaluated on the layout the CLDR files determine
          s!"{one true}\t{one false}\t{dirClause x}\t{dirRef x}"
        | .err e => s!"{errCode e}\t{errCode e}"
        | .panic => "panic"
      | none => "bad"
    | "dirv" => match arg 0 with
      | some v =>
        match LangId.fromBytes v with
        | .ok x =>
          let y := x.setVariants [[49, 57, 57, 54], [109, 97, 99, 111, 115]]
          let one (likely : Bool) : String :=
            match LangId.direction likely Gen.tables Gen.layout x, LangId.direction likely Gen.tables Gen.layout y with
            | .ok d, .ok e => s!"ok {dirName d} {dirName e}"
            | _, _ => "panic"
          s!"{one true}\t{one false}"
        | .err e => s!"{errCode e}\t{errCode e}"
        | .panic => "panic"
      | none => "bad"
    | "locdir" => match arg 0 with
      | some v =>
        match Locale.fromBytes v with
        | .ok x =>
          let one (likely : Bool) : String :=
            match LangId.direction likely Gen.tables Gen.layout x.id with
            | .ok d => s!"ok {dirName d}"
            | .err _ => "err"
            | .panic => "panic"
          s!"{one true}\t{one false}\t{dirClause x.id}"
        | .err e => s!"{errCode e}\t{errCode e}"
        | .panic => "panic"
      | none => "bad"
    | "match" | "matchx" => match arg 0, arg 1 with
      | some x, some y =>
        match LangId.fromBytes x, LangId.fromBytes y with
        | .ok x, .ok y =>
          let ra := flagOf (a[2]?.getD "0")
          let rb := flagOf (a[3]?.getD "0")
          -- `matchx`: flags 4 and 5 turn an absent variant list into the present-but-empty one (`Some([])`)
          let x := if op == "matchx" && flagOf (a[4]?.getD "0") then someEmpty x else x
          let y := if op == "matchx" && flagOf (a[5]?.getD "0") then someEmpty y else y
          -- second column: the left operand matched against ITSELF (the same object, not an equal copy)
          withSpec s!"ok {b01 (LangId.isMatch x y ra rb)} {b01 (LangId.isMatch x x ra rb)}" s!"ok {b01 (Spec.matchesB x y ra rb)} {b01 (Spec.matchesB x x ra rb)}"
        | _, _ => "err"
      | _, _ => "bad"
    | "locmatch" | "locmatchx" => match arg 0, arg 1 with
      | some x, some y =>
        match Locale.fromBytes x, Locale.fromBytes y with
        | .ok x, .ok y =>
          let ra := flagOf (a[2]?.getD "0")
          let rb := flagOf (a[3]?.getD "0")
          let x := if op == "locmatchx" && flagOf (a[4]?.getD "0") then { x with id := someEmpty x.id } else x
          let y := if op == "locmatchx" && flagOf (a[5]?.getD "0") then { y with id := someEmpty y.id } else y
          withSpec s!"ok {b01 (Locale.isMatch x y ra rb)} {b01 (LangId.isMatch x.id y.id ra rb)} {b01 (Locale.isMatch x x ra rb)} {b01 (Locale.isMatch y y ra rb)}"
            s!"ok {b01 (Spec.localeMatchesB x y ra rb)} {b01 (Spec.matchesB x.id y.id ra rb)} {b01 (Spec.localeMatchesB x x ra rb)} {b01 (Spec.localeMatchesB y y ra rb)}"
        | _, _ => "err"
      | _, _ => "bad"
    | "langmatch" => match arg 0, arg 1 with
      | some x, some y =>
        match Language.fromBytes x, Language.fromBytes y with
        | .ok x, .ok y =>
          let ra := flagOf (a[2]?.getD "0")
          let rb := flagOf (a[3]?.getD "0")
          withSpec s!"ok {b01 (Language.isMatch x y ra rb)}" s!"ok {b01 (Spec.fieldOkB x y ra rb)}"
        | _, _ => "err"
      | _, _ => "bad"
    | "convx" => match arg 0 with
      | some v =>
        -- LanguageIdentifier -> Locale -> LanguageIdentifier on a value whose variant list is present but empty
        match LangId.fromBytes v with
        | .ok li =>
          let li := someEmpty li
          let l2 := Locale.ofLangId li
          s!"ok back={b01 (l2.toLangId == li)};ee={b01 l2.ext.isEmpty};str={esc l2.display};ideq={b01 (l2.id == li)}"
        | .err e => errCode e
        | .panic => "panic"
      | none => "bad"
    | "rel" => match arg 0, arg 1 with
      | some x, some y =>
        match Locale.fromBytes x, Locale.fromBytes y with
        | .ok x, .ok y =>
          s!"ok eq={b01 (x == y)} cmp={ordStr (cmpLoc x y)} rcmp={ordStr (cmpLoc y x)} he={b01 (x == y)} se={b01 (x.display == y.display)} lieq={b01 (x.id == y.id)} licmp={ordStr (cmpLi x.id y.id)} xi={renderLi x.id} yi={renderLi y.id} self={b01 (x == x)}{ordStr (cmpLoc x x)}"
        | _, _ => "err"
      | _, _ => "bad"
    | "route" => match arg 0 with
      | some v =>
        match Locale.fromBytes v with
        | .ok x =>
          let k := ((a[1]?).bind String.toNat?).getD 0
          if k == 8 || k == 9 then
            -- `set_variants(&[])` against `clear_variants()` (8) / against the parse of its own text (9)
            let y : Locale := { x with id := x.id.setVariants [] }
            let x' : Option Locale := if k == 8 then some { x with id := x.id.clearVariants } else (Locale.fromBytes y.display).toOption
            match x' with
            | some x => s!"ok eq={b01 (x == y)} cmp={ordStr (cmpLoc x y)} he={b01 (x == y)} se={b01 (x.display == y.display)}"
            | none => "ok reparsefail"
          else if k == 10 then
            -- route 5 with an extra `true` in every keyword / tfield that is set again
            let y := runState Gen.tables x (route10Ops x)
            s!"ok eq={b01 (x == y)} cmp={ordStr (cmpLoc x y)} he={b01 (x == y)} se={b01 (x.display == y.display)}"
          else
          match routeValue Gen.tables x k with
          | some y => s!"ok eq={b01 (x == y)} cmp={ordStr (cmpLoc x y)} he={b01 (x == y)} se={b01 (x.display == y.display)}"
          | none => "ok fail"
        | .err e => errCode e
        | .panic => "panic"
      | none => "bad"
    | "matchr" => match arg 0, arg 1 with
      | some xv, some yv =>
        match Locale.fromBytes xv, Locale.fromBytes yv with
        | .ok x, .ok y =>
          let ra := flagOf (a[2]?.getD "0")
          let rb := flagOf (a[3]?.getD "0")
          let k := ((a[4]?).bind String.toNat?).getD 0
          match routeValue Gen.tables x k with
          | some x2 =>
            -- the reference is computed on the parsed value: every route is the identity on the abstract value
            withSpec s!"ok {b01 (Locale.isMatch x2 y ra rb)} {b01 (LangId.isMatch x2.id y.id ra rb)} {b01 (Locale.isMatch y x2 rb ra)}"
              s!"ok {b01 (Spec.localeMatchesB x y ra rb)} {b01 (Spec.matchesB x.id y.id ra rb)} {b01 (Spec.localeMatchesB y x rb ra)}"
          | none => "ok fail"
        | _, _ => "err"
      | _, _ => "bad"
    | "macrel" =>
      match a with
      | [_, h] =>
        match unhex h with
        | none => "bad"
        | some lit =>
          match Locale.fromBytes lit, Macros.locale lit with
          | .ok p, .value m =>
            let li := match Macros.langid lit, LangId.fromBytes lit with
              | .value x, .ok _ =>
                s!" lieq={b01 (x == p.id)} licmp={ordStr (cmpLi x p.id)} lihe={b01 (x == p.id)} lim={b01 (LangId.isMatch x p.id false false)}{b01 (LangId.isMatch p.id x true false == LangId.isMatch p.id p.id true false)}"
              | _, _ => ""
            s!"ok eq={b01 (m == p)} cmp={ordStr (cmpLoc m p)} he={b01 (m == p)} se={b01 (m.display == p.display)} m={b01 (Locale.isMatch m p false false == Locale.isMatch p p false false)}{b01 (Locale.isMatch m p true false == Locale.isMatch p p true false)}{b01 (Locale.isMatch p m false true == Locale.isMatch p p false true)} ideq={b01 (m.id == p.id)}{li}"
          | _, _ => "ok parsefail"
      | _ => "bad"
    | "eqstr" => match arg 0, arg 1 with
      | some x, some y =>
        match LangId.fromBytes x with
        | .ok x => s!"ok {b01 (LangId.eqStr x y)} {b01 (Language.eqStr x.language y)} str={esc x.display} lang={esc (Language.asStr x.language)}"
        | _ => "err"
      | _, _ => "bad"
    | "conv" => match arg 0 with
      | some v =>
        let lis := match LangId.fromBytes v with
          | .ok li =>
            let l2 := Locale.ofLangId li
            let can := match LangId.canonicalize v, Locale.canonicalize v with
              | .ok a, .ok b => b01 (a == b)
              | _, _ => "e"
            s!"ok {renderLi li};str={esc li.display};ee={b01 l2.ext.isEmpty};back={b01 (l2.toLangId == li)};lstr={esc l2.display};can={can}"
          | .err e => errCode e
          | .panic => "panic"
        let locs := match Locale.fromBytes v with
          | .ok l =>
            let toks := splitSep v
            let pre := join (toks.takeWhile (fun t => t.length != 1))
            let preEq := match LangId.fromBytes pre with
              | .ok p => b01 (p == l.id)
              | _ => "e"
            s!"ok {renderLoc l};ideq=1;aref=1;pre={preEq}"
          | .err e => errCode e
          | .panic => "panic"
        withSpec s!"{lis} | {locs}" (specLoc v)
      | none => "bad"
    | "liparts" => match arg 0 with
      | some v =>
        match LangId.fromBytes v with
        | .ok li =>
          let (l, s, r, vs) := li.intoParts
          let back := LangId.fromParts l s r vs
          s!"ok {b01 (back == li)} {renderLi back}"
        | .err e => errCode e
        | .panic => "panic"
      | none => "bad"
    | "locparts" => match arg 0 with
      | some v =>
        match Locale.fromBytes v with
        | .ok loc =>
          let (l, s, r, vs, e) := loc.intoParts
          match ExtMap.fromBytes e with
          | .ok em =>
            let back := Locale.fromParts l s r vs (some em)
            s!"ok {b01 (back == loc)} {esc e} {renderLoc back}"
          | _ => s!"ok 0 {esc e} extparsefail"
        | .err e => errCode e
        | .panic => "panic"
      | none => "bad"
    | "fromparts" =>
      match a with
      | [l, s, r, vs] =>
        match unhexOpt l, unhexOpt s, unhexOpt r, unhexList vs with
        | some lo, some so, some ro, some vl =>
          let lang : Option Language := match lo with
            | some x => (Language.fromBytes x).toOption
            | none => some none
          let sc : Option (Option Bytes) := match so with
            | some x => (Script.fromBytes x).toOption.map some
            | none => some none
          let rg : Option (Option Bytes) := match ro with
            | some x => (Region.fromBytes x).toOption.map some
            | none => some none
          match lang, sc, rg, (collectRes Variant.fromBytes vl).toOption with
          | some lang, some sc, some rg, some vv =>
            let li := LangId.fromParts lang sc rg vv
            let joined := join ([Language.asStr lang] ++ sc.toList ++ rg.toList ++ vv)
            let jp := LangId.fromBytes joined == .ok li
            let loc := Locale.fromParts lang sc rg vv none
            s!"ok {renderLi li};str={esc li.display};jp={b01 jp};loc={esc loc.display}"
          | _, _, _, _ => "err"
        | _, _, _, _ => "bad"
      | _ => "bad"
    | "raw" =>
      match a with
      | [kind, h] =>
        match unhex h with
        | none => "bad"
        | some v =>
          let one (r : Res Bytes) : String :=
            match r with
            | .ok s => s!"ok {pack s} {esc (unpack (pack s))} {b01 (unpack (pack s) == s)}"
            | _ => "err"
          match kind with
          | "lang" =>
            match Language.fromBytes v with
            | .ok (some s) => s!"ok {pack s} {esc (unpack (pack s))} {b01 (unpack (pack s) == s)}"
            | .ok none => "ok none"
            | _ => "err"
          | "script" => one (Script.fromBytes v)
          | "region" => one (Region.fromBytes v)
          | "variant" => one (Variant.fromBytes v)
          | _ => "bad"
      | _ => "bad"
    | "liiter" | "liiterp" =>
      match a with
      | [fl, ls] =>
        match unhexList ls with
        | none => "bad"
        | some toks =>
          let m := match LangId.parseIter toks (flagOf fl) with
            | .ok (x, rest) => s!"ok {renderLi x};str={esc x.display};rest={escList rest}"
            | .err e => errCode e
            | .panic => "panic"
          -- the declarative reader applies when the list is what `split` could have produced
          if !(flagOf fl) && !toks.isEmpty && toks.all (fun t => t.all (fun b => !isSep b)) then
            let sp := match Spec.langIdResult (join toks) with
              | .ok x => s!"ok {renderSpecLi x};str={esc (Spec.canonLangId x)};rest="
              | .invalidLanguage => "err L"
              | .invalidSubtag => "err S"
            withSpec m sp
          else m
      | _ => "bad"
    | "rawref" =>
      match a with
      | kind :: h :: more =>
        match unhex h with
        | none => "bad"
        | some v =>
          match kind with
          | "lang" =>
            match Language.fromBytes v with
            | .ok (some s) => s!"ok {pack s} {b01 (unpack (pack s) == s)}"
            | .ok none => "ok none"
            | _ => "err"
          | "script" => match Script.fromBytes v with
            | .ok s => s!"ok {esc s}"
            | _ => "err"
          | "region" => match Region.fromBytes v with
            | .ok s => s!"ok {esc s}"
            | _ => "err"
          | "variant" => match Variant.fromBytes v with
            | .ok s =>
              let other := ((more[0]?).bind unhex).getD []
              let e := b01 (s == other)
              s!"ok {pack s} {e}{e} {b01 (unpack (pack s) == s)}"
            | _ => "err"
          | _ => "bad"
      | _ => "bad"
    | "subeq" =>
      match a with
      | [kind, h, o] =>
        match unhex h, unhex o with
        | some v, some other =>
          let one (r : Res Bytes) : String :=
            match r with
            | .ok s => s!"ok {b01 (s == other)} txt={esc s}"
            | _ => "err"
          match kind with
          | "lang" => match Language.fromBytes v with
            | .ok l => s!"ok {b01 (Language.eqStr l other)} txt={esc (Language.asStr l)}"
            | _ => "err"
          | "script" => one (Script.fromBytes v)
          | "region" => one (Region.fromBytes v)
          | "variant" => one (Variant.fromBytes v)
          | _ => "bad"
        | _, _ => "bad"
      | _ => "bad"
    | "substr" =>
      match a with
      | [kind, h] =>
        match unhex h with
        | none => "bad"
        | some v =>
          let one (r : Res Bytes) : String :=
            match r with
            | .ok s => s!"ok {esc s}"
            | .err e => errCode e
            | .panic => "panic"
          let sp (is : Bytes → Bool) (norm : Bytes → Bytes) : String := if is v then s!"ok {esc (norm v)}" else "err S"
          match kind with
          | "script" => withSpec (one (Script.fromBytes v)) (sp Spec.isScript title)
          | "region" => withSpec (one (Region.fromBytes v)) (sp Spec.isRegion upper)
          | "variant" => withSpec (one (Variant.fromBytes v)) (sp Spec.isVariant lower)
          | "ext" => match ExtMap.fromBytes v with
            | .ok e => s!"ok {renderExt e};str={esc e.display}"
            | .err e => errCode e
            | .panic => "panic"
          | _ => "bad"
      | _ => "bad"
    | "exttype" =>
      match (a[0]?).bind String.toNat? with
      | some n =>
        if n < 256 then
          match ExtType.fromByte n with
          | .ok t => s!"ok {esc [ExtType.displayOf n t]}"
          | .err e => errCode e
          | .panic => "panic"
        else "bad"
      | none => "bad"
    | "errdisp" =>
      let texts := [Err.invalidLanguage.text, Err.invalidSubtag.text, unknownErrorText, parserErrorText .invalidSubtag,
        Err.invalidLanguage.text, Err.invalidSubtag.text, Err.invalidExtension.text, langIdErrorText, langIdErrorText,
        (match Locale.fromBytes [45] with | .err e => parserErrorText e | _ => "-"),
        (match Locale.fromBytes [101, 110, 45, 117, 45, 99] with | .err e => parserErrorText e | _ => "-")]
      "ok " ++ "|".intercalate (texts.map fun t => esc (t.toUTF8.toList.map (·.toNat)))
    | "hist" => ansHistBoth a
    | "serto" => match arg 0 with
      | some v => ansSerTo v
      | none => "bad"
    | "sernhr" => match arg 0 with
      | some v =>
        match LangId.fromBytes v with
        | .ok x =>
          match Serde.serialize x with
          | .str s => s!"ok kind=str val={esc s} rt={b01 (Serde.deserialize (.str s) == .ok x)}"
          | _ => "ok kind=other val= rt=0"
        | .err e => errCode e
        | .panic => "panic"
      | none => "bad"
    | "serfrom" => match arg 0 with
      | some v => ansSerFrom v
      | none => "bad"
    | "mac" => match a with
      | [kind] => ansMac kind []
      | [kind, ls] => match unhexList ls with
        | some l => ansMac kind l
        | none => "bad"
      | _ => "bad"
    | _ => "na"

end UL.Driver
