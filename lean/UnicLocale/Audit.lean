/-
  Audit.lean — `#audit_ns NS` prints one line `AUDIT <theorem> [<axioms>]` for every theorem whose
  name lies in the namespace `NS` (from the environment, so nothing can be left out by hand).
-/
import Lean
open Lean Elab Command

elab "#audit_ns " ns:ident : command => do
  let env ← getEnv
  let nsName := ns.getId
  let mut names : Array Name := #[]
  for (n, ci) in env.constants.toList do
    if nsName.isPrefixOf n && !n.isInternal then
      match ci with
      | .thmInfo _ => names := names.push n
      | _ => pure ()
  let sorted := names.qsort (fun a b => a.toString < b.toString)
  for n in sorted do
    let axs ← Lean.collectAxioms n
    let s := ",".intercalate (axs.toList.map toString)
    IO.println s!"AUDIT {n} [{s}]"
