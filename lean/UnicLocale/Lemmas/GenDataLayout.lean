/-
  Lemmas/GenDataLayout.lean — data facts (C18): the advertised CLDR version equals the JSON's, and
  the four direction tables are exactly (as lists: same elements, increasing, no duplicates) the
  scripts / right-to-left languages derivable from the CLDR layout files.  Kernel-decided.
-/
import UnicLocale.Spec.Likely
import UnicLocale.Gen.Tables
import UnicLocale.Gen.Cldr

namespace UL.Gen

theorem version_eq : cldrVersion = cldrJsonVersion := by decide

theorem ltr_derived : ltr = Spec.deriveScripts cldrLayout 0 := by decide +kernel
theorem rtl_derived : rtl = Spec.deriveScripts cldrLayout 1 := by decide +kernel
theorem ttb_derived : ttb = Spec.deriveScripts cldrLayout 2 := by decide +kernel
theorem rtlLangs_derived : rtlLangs = Spec.deriveRtlLangs cldrLayout := by decide +kernel

theorem layout_derived :
    layout = ⟨Spec.deriveScripts cldrLayout 0, Spec.deriveScripts cldrLayout 1,
      Spec.deriveScripts cldrLayout 2, Spec.deriveRtlLangs cldrLayout⟩ := by
  rw [← ltr_derived, ← rtl_derived, ← ttb_derived, ← rtlLangs_derived]; rfl

end UL.Gen
