/-
  Lemmas/GenDataSort.lean — generic lemmas that let the kernel decide the C18 derivation equalities
  `Gen.<table>L = Spec.derive<Table> Gen.cldr` cheaply, without weakening them:
  * Boolean row-list equality with `Nat.beq`, sound for `=`;
  * the insertion sort of `Spec.sortBy` is the identity on an adjacent-sorted list, so
    `sortBy lt (m :: M') = insertBy lt m M'` when `M'` is sorted (CLDR is emitted sorted by key; only
    the bare `und` entry moves, to the position of the integer of "und");
  * `insertNat`/`natSet` likewise.
-/
import UnicLocale.Spec.TablesWF

namespace UL.Fast
open UL

def eqRows1 : List Row1 → List Row1 → Bool
  | [], [] => true
  | a :: as, b :: bs =>
    Nat.beq a.k b.k && Nat.beq a.l b.l && Nat.beq a.s b.s && Nat.beq a.r b.r && eqRows1 as bs
  | _, _ => false

def eqRows2 : List Row2 → List Row2 → Bool
  | [], [] => true
  | a :: as, b :: bs =>
    Nat.beq a.k1 b.k1 && Nat.beq a.k2 b.k2 && Nat.beq a.l b.l && Nat.beq a.s b.s && Nat.beq a.r b.r &&
      eqRows2 as bs
  | _, _ => false

def eqNats : List Nat → List Nat → Bool
  | [], [] => true
  | a :: as, b :: bs => Nat.beq a b && eqNats as bs
  | _, _ => false

theorem eqRows1_sound : ∀ {a b : List Row1}, eqRows1 a b = true → a = b
  | [], [], _ => rfl
  | [], _ :: _, h => by simp [eqRows1] at h
  | _ :: _, [], h => by simp [eqRows1] at h
  | ⟨k, l, s, r⟩ :: as, ⟨k', l', s', r'⟩ :: bs, h => by
    simp only [eqRows1, Bool.and_eq_true, Nat.beq_eq] at h
    obtain ⟨⟨⟨⟨rfl, rfl⟩, rfl⟩, rfl⟩, h⟩ := h
    rw [eqRows1_sound h]

theorem eqRows2_sound : ∀ {a b : List Row2}, eqRows2 a b = true → a = b
  | [], [], _ => rfl
  | [], _ :: _, h => by simp [eqRows2] at h
  | _ :: _, [], h => by simp [eqRows2] at h
  | ⟨k1, k2, l, s, r⟩ :: as, ⟨k1', k2', l', s', r'⟩ :: bs, h => by
    simp only [eqRows2, Bool.and_eq_true, Nat.beq_eq] at h
    obtain ⟨⟨⟨⟨⟨rfl, rfl⟩, rfl⟩, rfl⟩, rfl⟩, h⟩ := h
    rw [eqRows2_sound h]

theorem eqNats_sound : ∀ {a b : List Nat}, eqNats a b = true → a = b
  | [], [], _ => rfl
  | [], _ :: _, h => by simp [eqNats] at h
  | _ :: _, [], h => by simp [eqNats] at h
  | x :: as, y :: bs, h => by
    simp only [eqNats, Bool.and_eq_true, Nat.beq_eq] at h
    obtain ⟨rfl, h⟩ := h
    rw [eqNats_sound h]

/-- adjacent elements are in `lt` order -/
def sortedBy {α} (lt : α → α → Bool) : List α → Bool
  | [] => true
  | [_] => true
  | a :: b :: r => lt a b && sortedBy lt (b :: r)

theorem sortBy_cons {α} (lt : α → α → Bool) (x : α) (l : List α) :
    Spec.sortBy lt (x :: l) = Spec.insertBy lt x (Spec.sortBy lt l) := rfl

theorem sortBy_of_sortedBy {α} (lt : α → α → Bool) : ∀ (l : List α), sortedBy lt l = true → Spec.sortBy lt l = l
  | [], _ => rfl
  | [a], _ => rfl
  | a :: b :: r, h => by
    simp only [sortedBy, Bool.and_eq_true] at h
    rw [sortBy_cons, sortBy_of_sortedBy lt (b :: r) h.2]
    simp only [Spec.insertBy, h.1, if_true]

/-- the certificate: `M` without its head is sorted, and `L` is the head inserted into it -/
def chkSort {α} (lt : α → α → Bool) (eq : List α → List α → Bool) (L M : List α) : Bool :=
  match M with
  | [] => eq L []
  | m :: M' => sortedBy lt M' && eq L (Spec.insertBy lt m M')

theorem chkSort_sound {α} {lt : α → α → Bool} {eq : List α → List α → Bool}
    (heq : ∀ {a b}, eq a b = true → a = b) {L M : List α} (h : chkSort lt eq L M = true) :
    L = Spec.sortBy lt M := by
  cases M with
  | nil => exact heq h
  | cons m M' =>
    simp only [chkSort, Bool.and_eq_true] at h
    rw [sortBy_cons, sortBy_of_sortedBy lt M' h.1]
    exact heq h.2

/-! kernel-friendly forms of the orders and of the filter predicates -/

def lt1 (a b : Row1) : Bool := Nat.blt a.k b.k
def lt2 (a b : Row2) : Bool := Nat.blt a.k1 b.k1 || (Nat.beq a.k1 b.k1 && Nat.blt a.k2 b.k2)

theorem lt1_eq : lt1 = Spec.lt1 := by
  funext a b
  rw [Bool.eq_iff_iff]
  simp [lt1, Spec.lt1, Nat.blt_eq]

theorem lt2_eq : lt2 = Spec.lt2 := by
  funext a b
  rw [Bool.eq_iff_iff]
  simp [lt2, Spec.lt2, Nat.blt_eq, Nat.beq_eq]

/-- `z n = (n == 0)`, `nz n = (n != 0)` with `Nat.beq` -/
def z (n : Nat) : Bool := Nat.beq n 0
def nz (n : Nat) : Bool := !Nat.beq n 0

theorem z_eq (n : Nat) : z n = (n == 0) := by
  rw [Bool.eq_iff_iff]; simp [z, Nat.beq_eq]
theorem nz_eq (n : Nat) : nz n = (n != 0) := by
  show (!z n) = _
  rw [z_eq]; rfl

def optEnc (n : Nat) : Nat := if Nat.beq n 0 then 0 else n + 1
theorem optEnc_eq (n : Nat) : optEnc n = Spec.optEnc n := by
  unfold optEnc Spec.optEnc
  by_cases h : n = 0
  · subst h; rfl
  · have h1 : Nat.beq n 0 = false := by
      cases hb : Nat.beq n 0 with
      | false => rfl
      | true => exact absurd (Nat.eq_of_beq_eq_true hb) h
    have h2 : (n == 0) = false := by simpa using h
    rw [h1, h2]

def row1 (k : Nat) (e : Spec.CEntry) : Row1 := ⟨k, optEnc e.vl, optEnc e.vs, optEnc e.vr⟩
def row2 (k1 k2 : Nat) (e : Spec.CEntry) : Row2 := ⟨k1, k2, optEnc e.vl, optEnc e.vs, optEnc e.vr⟩
theorem row1_eq (k : Nat) (e : Spec.CEntry) : row1 k e = Spec.row1 k e := by
  simp only [row1, Spec.row1, optEnc_eq]
theorem row2_eq (k1 k2 : Nat) (e : Spec.CEntry) : row2 k1 k2 e = Spec.row2 k1 k2 e := by
  simp only [row2, Spec.row2, optEnc_eq]

/-- the unsorted images of CLDR, one per table, written with `Nat.beq` -/
def imgLangOnly (es : List Spec.CEntry) : List Row1 :=
  (es.filter fun e => z e.ks && z e.kr).map fun e => row1 (if Nat.beq e.kl 0 then Spec.undInt else e.kl) e
def imgLangRegion (es : List Spec.CEntry) : List Row2 :=
  (es.filter fun e => nz e.kl && z e.ks && nz e.kr).map fun e => row2 e.kl e.kr e
def imgLangScript (es : List Spec.CEntry) : List Row2 :=
  (es.filter fun e => nz e.kl && nz e.ks && z e.kr).map fun e => row2 e.kl e.ks e
def imgScriptRegion (es : List Spec.CEntry) : List Row2 :=
  (es.filter fun e => z e.kl && nz e.ks && nz e.kr).map fun e => row2 e.ks e.kr e
def imgScriptOnly (es : List Spec.CEntry) : List Row1 :=
  (es.filter fun e => z e.kl && nz e.ks && z e.kr).map fun e => row1 e.ks e
def imgRegionOnly (es : List Spec.CEntry) : List Row1 :=
  (es.filter fun e => z e.kl && z e.ks && nz e.kr).map fun e => row1 e.kr e
def unplacedF (es : List Spec.CEntry) : List Spec.CEntry :=
  es.filter fun e => nz e.kl && nz e.ks && nz e.kr

theorem ite_beq (n a b : Nat) : (if Nat.beq n 0 then a else b) = (if n == 0 then a else b) := by
  have := z_eq n
  unfold z at this
  rw [this]

theorem deriveLangOnly_eq (es : List Spec.CEntry) :
    Spec.deriveLangOnly es = Spec.sortBy lt1 (imgLangOnly es) := by
  simp only [Spec.deriveLangOnly, imgLangOnly, lt1_eq, z_eq, row1_eq, ite_beq]
theorem deriveLangRegion_eq (es : List Spec.CEntry) :
    Spec.deriveLangRegion es = Spec.sortBy lt2 (imgLangRegion es) := by
  simp only [Spec.deriveLangRegion, imgLangRegion, lt2_eq, z_eq, nz_eq, row2_eq]
theorem deriveLangScript_eq (es : List Spec.CEntry) :
    Spec.deriveLangScript es = Spec.sortBy lt2 (imgLangScript es) := by
  simp only [Spec.deriveLangScript, imgLangScript, lt2_eq, z_eq, nz_eq, row2_eq]
theorem deriveScriptRegion_eq (es : List Spec.CEntry) :
    Spec.deriveScriptRegion es = Spec.sortBy lt2 (imgScriptRegion es) := by
  simp only [Spec.deriveScriptRegion, imgScriptRegion, lt2_eq, z_eq, nz_eq, row2_eq]
theorem deriveScriptOnly_eq (es : List Spec.CEntry) :
    Spec.deriveScriptOnly es = Spec.sortBy lt1 (imgScriptOnly es) := by
  simp only [Spec.deriveScriptOnly, imgScriptOnly, lt1_eq, z_eq, nz_eq, row1_eq]
theorem deriveRegionOnly_eq (es : List Spec.CEntry) :
    Spec.deriveRegionOnly es = Spec.sortBy lt1 (imgRegionOnly es) := by
  simp only [Spec.deriveRegionOnly, imgRegionOnly, lt1_eq, z_eq, nz_eq, row1_eq]
theorem unplaced_eq (es : List Spec.CEntry) : Spec.unplaced es = unplacedF es := by
  simp only [Spec.unplaced, unplacedF, nz_eq]

/-- the six certificates -/
theorem derive1_of_chk {L : List Row1} {M : List Row1} (h : chkSort lt1 eqRows1 L M = true) :
    L = Spec.sortBy lt1 M := chkSort_sound eqRows1_sound h
theorem derive2_of_chk {L : List Row2} {M : List Row2} (h : chkSort lt2 eqRows2 L M = true) :
    L = Spec.sortBy lt2 M := chkSort_sound eqRows2_sound h

end UL.Fast
