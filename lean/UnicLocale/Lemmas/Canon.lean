/-
  Lemmas/Canon.lean — a value satisfying the representation invariant prints a string accepted by
  the independent canonical-form recogniser `Spec.isCanonical` (helpers for `Props/C04.lean`).
-/
import UnicLocale.Spec.Canonical
import UnicLocale.Spec.Inv
import UnicLocale.Lemmas.Order
import UnicLocale.Lemmas.Ascii

namespace UL.Canon
open Spec

/-! ### bytes fixed by a case map -/

theorem map_eq_self_mem {f : Nat → Nat} : ∀ {s : List Nat}, s.map f = s → ∀ b ∈ s, f b = b
  | [], _, _, hb => by cases hb
  | a :: t, h, b, hb => by
    simp only [List.map_cons, List.cons.injEq] at h
    rcases List.mem_cons.1 hb with rfl | hb
    · exact h.1
    · exact map_eq_self_mem h.2 b hb

theorem isLower_of_fix {b : Nat} (h : isAlpha b = true) (hf : toLower b = b) : isLower b = true := by
  simp only [toLower, isAlpha, isUpper, isLower, Bool.or_eq_true, Bool.and_eq_true,
    decide_eq_true_eq] at *
  split at hf <;> omega

theorem isUpper_of_fix {b : Nat} (h : isAlpha b = true) (hf : toUpper b = b) : isUpper b = true := by
  simp only [toUpper, isAlpha, isUpper, isLower, Bool.or_eq_true, Bool.and_eq_true,
    decide_eq_true_eq] at *
  split at hf <;> omega

theorem isLowerAlnum_of_fix {b : Nat} (h : isAlnum b = true) (hf : toLower b = b) :
    isLowerAlnum b = true := by
  simp only [isAlnum, Bool.or_eq_true] at h
  simp only [isLowerAlnum, Bool.or_eq_true]
  rcases h with h | h
  · exact Or.inl (isLower_of_fix h hf)
  · exact Or.inr h

theorem isAlnum_of_isLower {b : Nat} (h : isLower b = true) : isAlnum b = true := by
  simp [isAlnum, isAlpha, h]
theorem isAlnum_of_isUpper {b : Nat} (h : isUpper b = true) : isAlnum b = true := by
  simp [isAlnum, isAlpha, h]
theorem isAlnum_of_isDigit {b : Nat} (h : isDigit b = true) : isAlnum b = true := by
  simp [isAlnum, h]
theorem isAlnum_of_isLowerAlnum {b : Nat} (h : isLowerAlnum b = true) : isAlnum b = true := by
  simp only [isLowerAlnum, Bool.or_eq_true] at h
  rcases h with h | h
  · exact isAlnum_of_isLower h
  · exact isAlnum_of_isDigit h

theorem rep_imp {p q : Nat → Bool} {lo hi : Nat} {s : Bytes} (h : rep p lo hi s = true)
    (hq : ∀ b ∈ s, p b = true → q b = true) : rep q lo hi s = true := by
  simp only [rep, Bool.and_eq_true, decide_eq_true_eq, List.all_eq_true] at *
  exact ⟨h.1, fun b hb => hq b hb (h.2 b hb)⟩

theorem rep_all {p : Nat → Bool} {lo hi : Nat} {s : Bytes} (h : rep p lo hi s = true) :
    s.all p = true := by
  simp only [rep, Bool.and_eq_true] at h
  exact h.2

theorem rep_len {p : Nat → Bool} {lo hi : Nat} {s : Bytes} (h : rep p lo hi s = true) :
    lo ≤ s.length ∧ s.length ≤ hi := by
  simp only [rep, Bool.and_eq_true, decide_eq_true_eq] at h
  exact h.1

/-! ### a stored subtag is in the corresponding canonical class -/

theorem cLanguage_of_ok {b : Bytes} (h : okLanguage (some b) = true) : cLanguage b = true := by
  simp only [okLanguage, Bool.and_eq_true, beq_iff_eq] at h
  obtain ⟨⟨hl, hf⟩, _⟩ := h
  have hfix := map_eq_self_mem (f := toLower) hf
  simp only [isLanguage, Bool.or_eq_true] at hl
  simp only [cLanguage, Bool.or_eq_true]
  rcases hl with hl | hl
  · exact Or.inl (rep_imp hl fun c hc ha => isLower_of_fix ha (hfix c hc))
  · exact Or.inr (rep_imp hl fun c hc ha => isLower_of_fix ha (hfix c hc))

theorem cLanguage_asStr {l : Language} (h : okLanguage l = true) : cLanguage (Language.asStr l) = true := by
  cases l with
  | none => decide
  | some b => exact cLanguage_of_ok h

theorem cScript_of_ok {b : Bytes} (h : okScript (some b) = true) : cScript b = true := by
  cases b with
  | nil => simp [okScript, isScript, rep] at h
  | cons a r =>
    simp only [okScript, isScript, rep, title, Bool.and_eq_true, decide_eq_true_eq, beq_iff_eq,
      List.cons.injEq, List.length_cons, List.all_cons] at h
    obtain ⟨⟨⟨h1, h2⟩, ha, hr⟩, hfa, hfr⟩ := h
    have hfix := map_eq_self_mem (f := toLower) hfr
    simp only [cScript, rep, Bool.and_eq_true, decide_eq_true_eq, List.all_eq_true]
    exact ⟨isUpper_of_fix ha hfa, ⟨by omega, by omega⟩,
      fun c hc => isLower_of_fix (List.all_eq_true.1 hr c hc) (hfix c hc)⟩

theorem cRegion_of_ok {b : Bytes} (h : okRegion (some b) = true) : cRegion b = true := by
  simp only [okRegion, Bool.and_eq_true, beq_iff_eq] at h
  obtain ⟨hl, hf⟩ := h
  have hfix := map_eq_self_mem (f := toUpper) hf
  simp only [isRegion, Bool.or_eq_true] at hl
  simp only [cRegion, Bool.or_eq_true]
  rcases hl with hl | hl
  · exact Or.inl (rep_imp hl fun c hc ha => isUpper_of_fix ha (hfix c hc))
  · exact Or.inr hl

theorem cVariant_of_ok {b : Bytes} (h : okVariant b = true) : cVariant b = true := by
  simp only [okVariant, Bool.and_eq_true, beq_iff_eq] at h
  obtain ⟨hl, hf⟩ := h
  have hfix := map_eq_self_mem (f := toLower) hf
  simp only [isVariant, Bool.or_eq_true] at hl
  simp only [cVariant, Bool.or_eq_true]
  rcases hl with hl | hl
  · exact Or.inl (rep_imp hl fun c hc ha => isLowerAlnum_of_fix ha (hfix c hc))
  · right
    cases b with
    | nil => cases hl
    | cons d r =>
      simp only [Bool.and_eq_true] at hl ⊢
      exact ⟨hl.1, rep_imp hl.2 fun c hc ha =>
        isLowerAlnum_of_fix ha (hfix c (List.mem_cons_of_mem _ hc))⟩

theorem cAttr_of_isAttr {b : Bytes} (hl : isAttr b = true) (hf : lower b = b) : cAttr b = true := by
  have hfix := map_eq_self_mem (f := toLower) hf
  exact rep_imp hl fun c hc ha => isLowerAlnum_of_fix ha (hfix c hc)

theorem cAttr_of_ok {b : Bytes} (h : okAttr b = true) : cAttr b = true := by
  simp only [okAttr, Bool.and_eq_true, beq_iff_eq] at h
  exact cAttr_of_isAttr h.1 h.2

theorem cType_of_ok {b : Bytes} (h : okType b = true) : cType b = true := by
  simp only [okType, Bool.and_eq_true, beq_iff_eq] at h
  simp only [cType, Bool.and_eq_true]
  exact ⟨cAttr_of_isAttr h.1.1 h.1.2, h.2⟩

theorem cKey_of_ok {b : Bytes} (h : okKey b = true) : cKey b = true := by
  simp only [okKey, Bool.and_eq_true, beq_iff_eq] at h
  obtain ⟨hl, hf⟩ := h
  unfold isKey at hl
  split at hl
  · rename_i a c
    simp only [lower, List.map_cons, List.map_nil, List.cons.injEq, and_true] at hf
    simp only [Bool.and_eq_true] at hl
    simp only [cKey, Bool.and_eq_true]
    exact ⟨isLowerAlnum_of_fix hl.1 hf.1, isLower_of_fix hl.2 hf.2⟩
  · cases hl

theorem cTKey_of_ok {b : Bytes} (h : okTKey b = true) : cTKey b = true := by
  simp only [okTKey, Bool.and_eq_true, beq_iff_eq] at h
  obtain ⟨hl, hf⟩ := h
  unfold isTKey at hl
  split at hl
  · rename_i a c
    simp only [lower, List.map_cons, List.map_nil, List.cons.injEq, and_true] at hf
    simp only [Bool.and_eq_true] at hl
    simp only [cTKey, Bool.and_eq_true]
    exact ⟨isLower_of_fix hl.1 hf.1, hl.2⟩
  · cases hl

theorem cTag_of_ok {b : Bytes} (h : okTag b = true) : cTag b = true := by
  simp only [okTag, Bool.and_eq_true, beq_iff_eq] at h
  obtain ⟨hl, hf⟩ := h
  have hfix := map_eq_self_mem (f := toLower) hf
  exact rep_imp hl fun c hc ha => isLowerAlnum_of_fix ha (hfix c hc)

/-! ### the canonical classes contain only letters and digits, and are pairwise separated where
    the reader needs it -/

theorem alnum_of_rep {p : Nat → Bool} (hp : ∀ b, p b = true → isAlnum b = true) {lo hi : Nat}
    {s : Bytes} (h : rep p lo hi s = true) : s.all isAlnum = true := by
  have := rep_all h
  rw [List.all_eq_true] at *
  exact fun b hb => hp b (this b hb)

theorem alnum_of_cLanguage {s : Bytes} (h : cLanguage s = true) : s.all isAlnum = true := by
  simp only [cLanguage, Bool.or_eq_true] at h
  rcases h with h | h <;> exact alnum_of_rep (fun _ => isAlnum_of_isLower) h
theorem alnum_of_cScript {s : Bytes} (h : cScript s = true) : s.all isAlnum = true := by
  cases s with
  | nil => rfl
  | cons a r =>
    simp only [cScript, Bool.and_eq_true] at h
    simp only [List.all_cons, Bool.and_eq_true]
    exact ⟨isAlnum_of_isUpper h.1, alnum_of_rep (fun _ => isAlnum_of_isLower) h.2⟩
theorem alnum_of_cRegion {s : Bytes} (h : cRegion s = true) : s.all isAlnum = true := by
  simp only [cRegion, Bool.or_eq_true] at h
  rcases h with h | h
  · exact alnum_of_rep (fun _ => isAlnum_of_isUpper) h
  · exact alnum_of_rep (fun _ => isAlnum_of_isDigit) h
theorem alnum_of_cVariant {s : Bytes} (h : cVariant s = true) : s.all isAlnum = true := by
  simp only [cVariant, Bool.or_eq_true] at h
  rcases h with h | h
  · exact alnum_of_rep (fun _ => isAlnum_of_isLowerAlnum) h
  · cases s with
    | nil => rfl
    | cons d r =>
      simp only [Bool.and_eq_true] at h
      simp only [List.all_cons, Bool.and_eq_true]
      exact ⟨isAlnum_of_isDigit h.1, alnum_of_rep (fun _ => isAlnum_of_isLowerAlnum) h.2⟩
theorem alnum_of_cAttr {s : Bytes} (h : cAttr s = true) : s.all isAlnum = true :=
  alnum_of_rep (fun _ => isAlnum_of_isLowerAlnum) h
theorem alnum_of_cType {s : Bytes} (h : cType s = true) : s.all isAlnum = true := by
  simp only [cType, Bool.and_eq_true] at h
  exact alnum_of_cAttr h.1
theorem alnum_of_cKey {s : Bytes} (h : cKey s = true) : s.all isAlnum = true := by
  unfold cKey at h
  split at h
  · simp only [Bool.and_eq_true] at h
    simp [isAlnum_of_isLowerAlnum h.1, isAlnum_of_isLower h.2]
  · cases h
theorem alnum_of_cTKey {s : Bytes} (h : cTKey s = true) : s.all isAlnum = true := by
  unfold cTKey at h
  split at h
  · simp only [Bool.and_eq_true] at h
    simp [isAlnum_of_isLower h.1, isAlnum_of_isDigit h.2]
  · cases h
theorem alnum_of_cTag {s : Bytes} (h : cTag s = true) : s.all isAlnum = true :=
  alnum_of_rep (fun _ => isAlnum_of_isLowerAlnum) h

theorem cLanguage_len {s : Bytes} (h : cLanguage s = true) : 2 ≤ s.length := by
  simp only [cLanguage, Bool.or_eq_true] at h
  rcases h with h | h <;> have := rep_len h <;> omega
theorem cScript_len {s : Bytes} (h : cScript s = true) : s.length = 4 := by
  cases s with
  | nil => cases h
  | cons a r =>
    simp only [cScript, Bool.and_eq_true] at h
    have := rep_len h.2
    simp only [List.length_cons]; omega
theorem cRegion_len {s : Bytes} (h : cRegion s = true) : 2 ≤ s.length ∧ s.length ≤ 3 := by
  simp only [cRegion, Bool.or_eq_true] at h
  rcases h with h | h <;> have := rep_len h <;> omega
theorem cVariant_len {s : Bytes} (h : cVariant s = true) : 4 ≤ s.length := by
  simp only [cVariant, Bool.or_eq_true] at h
  rcases h with h | h
  · have := rep_len h; omega
  · cases s with
    | nil => cases h
    | cons d r =>
      simp only [Bool.and_eq_true] at h
      have := rep_len h.2
      simp only [List.length_cons]; omega
theorem cAttr_len {s : Bytes} (h : cAttr s = true) : 3 ≤ s.length := (rep_len h).1
theorem cType_len {s : Bytes} (h : cType s = true) : 3 ≤ s.length := by
  simp only [cType, Bool.and_eq_true] at h
  exact cAttr_len h.1
theorem cKey_len {s : Bytes} (h : cKey s = true) : s.length = 2 := by
  unfold cKey at h
  split at h
  · rfl
  · cases h
theorem cTKey_len {s : Bytes} (h : cTKey s = true) : s.length = 2 := by
  unfold cTKey at h
  split at h
  · rfl
  · cases h

theorem not_of_len {p : Bytes → Bool} {P : Nat → Prop} (hp : ∀ s, p s = true → P s.length) {s : Bytes}
    (h : ¬ P s.length) : p s = false := by
  cases hs : p s with
  | false => rfl
  | true => exact absurd (hp s hs) h

/-- a variant starts with a lower-case letter or a digit, a script with an upper-case letter -/
theorem cScript_false_of_cVariant {s : Bytes} (h : cVariant s = true) : cScript s = false := by
  cases s with
  | nil => rfl
  | cons d r =>
    have hd : isLowerAlnum d = true := by
      simp only [cVariant, Bool.or_eq_true] at h
      rcases h with h | h
      · have := rep_all h
        simp only [List.all_cons, Bool.and_eq_true] at this
        exact this.1
      · simp only [Bool.and_eq_true] at h
        simp [isLowerAlnum, h.1]
    have hu : isUpper d = false := by
      simp only [isLowerAlnum, isLower, isDigit, isUpper, Bool.or_eq_true, Bool.and_eq_true,
        decide_eq_true_eq, Bool.and_eq_false_iff, decide_eq_false_iff_not] at *
      omega
    simp [cScript, hu]

/-- a tkey contains a digit, a language does not -/
theorem cLanguage_false_of_cTKey {s : Bytes} (h : cTKey s = true) : cLanguage s = false := by
  unfold cTKey at h
  split at h
  · rename_i a b
    simp only [Bool.and_eq_true] at h
    have hb : isLower b = false := by
      have := h.2
      simp only [isLower, isDigit, Bool.and_eq_true, decide_eq_true_eq, Bool.and_eq_false_iff,
        decide_eq_false_iff_not] at *
      omega
    simp [cLanguage, rep, hb]
  · cases h

/-- a tkey is `alpha digit`: neither two letters nor three digits -/
theorem cRegion_false_of_cTKey {s : Bytes} (h : cTKey s = true) : cRegion s = false := by
  unfold cTKey at h
  split at h
  · rename_i a b
    simp only [Bool.and_eq_true] at h
    have hb : isUpper b = false := by
      have := h.2
      simp only [isUpper, isDigit, Bool.and_eq_true, decide_eq_true_eq, Bool.and_eq_false_iff,
        decide_eq_false_iff_not] at *
      omega
    simp [cRegion, rep, hb]
  · cases h

/-! ### `split('-')` undoes `join` -/

theorem splitDash_nodash {t : Bytes} (h : ∀ b ∈ t, b ≠ 45) : splitDash t = [t] := by
  induction t with
  | nil => rfl
  | cons b t ih =>
    have hb : (b == 45) = false := by simpa using h b (List.mem_cons_self ..)
    unfold splitDash
    rw [ih (fun c hc => h c (List.mem_cons_of_mem _ hc))]
    simp [hb]

theorem splitDash_append {t : Bytes} (rest : Bytes) (h : ∀ b ∈ t, b ≠ 45) :
    splitDash (t ++ 45 :: rest) = t :: splitDash rest := by
  induction t with
  | nil =>
    show splitDash (45 :: rest) = [] :: splitDash rest
    rw [splitDash]
    rfl
  | cons b t ih =>
    have hb : (b == 45) = false := by simpa using h b (List.mem_cons_self ..)
    rw [List.cons_append, splitDash, ih (fun c hc => h c (List.mem_cons_of_mem _ hc))]
    simp [hb]

theorem splitDash_join_cons (t : Bytes) (ts : List Bytes) (ht : ∀ b ∈ t, b ≠ 45)
    (h : ∀ u ∈ ts, ∀ b ∈ u, b ≠ 45) : splitDash (t ++ dashAll ts) = t :: ts := by
  induction ts generalizing t with
  | nil => simpa [dashAll] using splitDash_nodash ht
  | cons u us ih =>
    unfold dashAll
    rw [splitDash_append _ ht, ih u (h u (List.mem_cons_self ..))
      (fun w hw => h w (List.mem_cons_of_mem _ hw))]

theorem splitDash_join {ts : List Bytes} (hne : ts ≠ []) (h : ∀ u ∈ ts, ∀ b ∈ u, b ≠ 45) :
    splitDash (join ts) = ts := by
  cases ts with
  | nil => exact absurd rfl hne
  | cons t ts =>
    unfold join
    exact splitDash_join_cons t ts (h t (List.mem_cons_self ..))
      (fun w hw => h w (List.mem_cons_of_mem _ hw))

theorem ne_dash_of_alnum {t : Bytes} (h : t.all isAlnum = true) : ∀ b ∈ t, b ≠ 45 := by
  rw [List.all_eq_true] at h
  intro b hb he
  subst he
  have := h 45 hb
  revert this
  decide

theorem all_dashAll {q : Nat → Bool} (hq : q 45 = true) {ts : List Bytes}
    (h : ∀ t ∈ ts, t.all q = true) : (dashAll ts).all q = true := by
  induction ts with
  | nil => rfl
  | cons t ts ih =>
    unfold dashAll
    rw [List.all_cons, List.all_append, hq, h t (List.mem_cons_self ..),
      ih (fun u hu => h u (List.mem_cons_of_mem _ hu))]
    rfl

theorem all_join {q : Nat → Bool} (hq : q 45 = true) {ts : List Bytes}
    (h : ∀ t ∈ ts, t.all q = true) : (join ts).all q = true := by
  cases ts with
  | nil => rfl
  | cons t ts =>
    unfold join
    rw [List.all_append, h t (List.mem_cons_self ..),
      all_dashAll hq (fun u hu => h u (List.mem_cons_of_mem _ hu))]
    rfl

theorem dashAll_append (a b : List Bytes) : dashAll (a ++ b) = dashAll a ++ dashAll b := by
  induction a with
  | nil => rfl
  | cons t a ih => simp [dashAll, ih]

theorem join_append_dashAll {a : List Bytes} (b : List Bytes) (ha : a ≠ []) :
    join a ++ dashAll b = join (a ++ b) := by
  cases a with
  | nil => exact absurd rfl ha
  | cons t a => simp [join, dashAll_append]

/-- the canonical-form test on a token list carries over to the joined string -/
theorem isCanonical_join {ts : List Bytes} (hne : ts ≠ []) (ha : ∀ t ∈ ts, t.all isAlnum = true)
    (hc : isCanonicalTokens ts = true) : isCanonical (join ts) = true := by
  unfold isCanonical
  rw [splitDash_join hne (fun u hu => ne_dash_of_alnum (ha u hu)), hc, Bool.and_true]
  apply all_join (by decide)
  intro t ht
  have := ha t ht
  rw [List.all_eq_true] at *
  intro b hb
  simp [this b hb]

theorem isCanonicalLangId_join {ts : List Bytes} (hne : ts ≠ []) (ha : ∀ t ∈ ts, t.all isAlnum = true)
    (hc : canonLangIdRest ts = some []) : isCanonicalLangId (join ts) = true := by
  unfold isCanonicalLangId
  rw [splitDash_join hne (fun u hu => ne_dash_of_alnum (ha u hu)), hc]
  simp only [beq_self_eq_true, Bool.and_true]
  apply all_join (by decide)
  intro t ht
  have := ha t ht
  rw [List.all_eq_true] at *
  intro b hb
  simp [this b hb]

/-! ### the reader, piece by piece -/

/-- the next subtag (if any) is not in class `p` -/
def Stop (p : Bytes → Bool) : List Bytes → Prop
  | [] => True
  | h :: _ => p h = false

/-- the next subtag (if any) is one of the given singletons -/
def HeadIn (cs : List Nat) (ts : List Bytes) : Prop := ts = [] ∨ ∃ c r, c ∈ cs ∧ ts = [c] :: r

theorem Stop_of_HeadIn {p : Bytes → Bool} (hp : ∀ c, p [c] = false) {cs : List Nat} {ts : List Bytes}
    (h : HeadIn cs ts) : Stop p ts := by
  rcases h with rfl | ⟨c, r, _, rfl⟩
  · trivial
  · exact hp c

theorem Stop_append {p : Bytes → Bool} {l r : List Bytes} (hl : ∀ t ∈ l, p t = false) (hr : Stop p r) :
    Stop p (l ++ r) := by
  cases l with
  | nil => exact hr
  | cons a l => exact hl a (List.mem_cons_self ..)

theorem Stop_amap {p : Bytes → Bool} {m : AMap} {r : List Bytes} (hk : ∀ kv ∈ m, p kv.1 = false)
    (hr : Stop p r) : Stop p (AMap.tokens m ++ r) := by
  cases m with
  | nil => exact hr
  | cons kv m =>
    obtain ⟨k, v⟩ := kv
    exact hk (k, v) (List.mem_cons_self ..)

theorem HeadIn_mono {cs cs' : List Nat} {ts : List Bytes} (h : HeadIn cs ts) (hs : ∀ c ∈ cs, c ∈ cs') :
    HeadIn cs' ts := by
  rcases h with rfl | ⟨c, r, hc, rfl⟩
  · exact Or.inl rfl
  · exact Or.inr ⟨c, r, hs c hc, rfl⟩

theorem takeWhile_append_stop {p : Bytes → Bool} {l r : List Bytes} (hl : ∀ t ∈ l, p t = true)
    (hr : Stop p r) : (l ++ r).takeWhile p = l ∧ (l ++ r).dropWhile p = r := by
  induction l with
  | nil =>
    cases r with
    | nil => exact ⟨rfl, rfl⟩
    | cons h t =>
      have : p h = false := hr
      simp [this]
  | cons a l ih =>
    have ha := hl a (List.mem_cons_self ..)
    have := ih (fun t ht => hl t (List.mem_cons_of_mem _ ht))
    simp [ha, this.1, this.2]

theorem dropOpt_toList {p : Bytes → Bool} {o : Option Bytes} {r : List Bytes}
    (ho : ∀ t, o = some t → p t = true) (hr : Stop p r) : dropOpt p (o.toList ++ r) = r := by
  cases o with
  | some t => simp [dropOpt, ho t rfl]
  | none =>
    cases r with
    | nil => rfl
    | cons h t =>
      have : p h = false := hr
      simp [dropOpt, this]

theorem okVariants_getD {vs : Option (List Bytes)} (h : okVariants vs = true) :
    strictSorted (vs.getD []) = true ∧ ∀ v ∈ vs.getD [], okVariant v = true := by
  cases vs with
  | none => exact ⟨rfl, fun v hv => by cases hv⟩
  | some l =>
    simp only [okVariants, Bool.and_eq_true, List.all_eq_true] at h
    exact ⟨h.1.2, h.2⟩

/-- the tokens of a valid identifier, followed by anything that does not continue it, are read as
    exactly that identifier -/
theorem canonLangIdRest_tokens {i : LangId} (hi : i.inv = true) {rest : List Bytes}
    (h1 : Stop cScript rest) (h2 : Stop cRegion rest) (h3 : Stop cVariant rest) :
    canonLangIdRest (LangId.tokens i ++ rest) = some rest := by
  simp only [LangId.inv, Bool.and_eq_true] at hi
  obtain ⟨⟨⟨hl, hs⟩, hr⟩, hv⟩ := hi
  obtain ⟨hsort, hvs⟩ := okVariants_getD hv
  have hcv : ∀ v ∈ i.variants.getD [], cVariant v = true := fun v hv => cVariant_of_ok (hvs v hv)
  have hs' : ∀ t, i.script = some t → cScript t = true := fun t ht => cScript_of_ok (ht ▸ hs)
  have hr' : ∀ t, i.region = some t → cRegion t = true := fun t ht => cRegion_of_ok (ht ▸ hr)
  -- what follows the script is not a script; what follows the region is not a region
  have st3s : Stop cScript (i.variants.getD [] ++ rest) :=
    Stop_append (fun v hv => cScript_false_of_cVariant (hcv v hv)) h1
  have st3r : Stop cRegion (i.variants.getD [] ++ rest) :=
    Stop_append (fun v hv => not_of_len (P := fun n => 2 ≤ n ∧ n ≤ 3) (fun _ => cRegion_len)
      (by have := cVariant_len (hcv v hv); omega)) h2
  have st2s : Stop cScript (i.region.toList ++ (i.variants.getD [] ++ rest)) := by
    apply Stop_append _ st3s
    intro t ht
    have := cRegion_len (hr' t (by simpa using ht))
    exact not_of_len (P := fun n => n = 4) (fun _ => cScript_len) (by omega)
  show canonLangIdRest (([Language.asStr i.language] ++ i.script.toList ++ i.region.toList ++
    i.variants.getD []) ++ rest) = some rest
  simp only [List.append_assoc, List.cons_append, List.nil_append, canonLangIdRest,
    cLanguage_asStr hl, if_true]
  rw [dropOpt_toList hs' st2s, dropOpt_toList hr' st3r]
  obtain ⟨e1, e2⟩ := takeWhile_append_stop hcv h3
  rw [e1, e2, hsort]
  rfl

theorem AMap.mem_tokens {t : Bytes} {m : AMap} (h : t ∈ AMap.tokens m) :
    ∃ kv ∈ m, t = kv.1 ∨ t ∈ kv.2 := by
  induction m with
  | nil => cases h
  | cons kv m ih =>
    obtain ⟨k, v⟩ := kv
    unfold AMap.tokens at h
    rcases List.mem_cons.1 h with h | h
    · exact ⟨(k, v), List.mem_cons_self .., Or.inl h⟩
    · rcases List.mem_append.1 h with h | h
      · exact ⟨(k, v), List.mem_cons_self .., Or.inr h⟩
      · obtain ⟨kv, hkv, ht⟩ := ih h
        exact ⟨kv, List.mem_cons_of_mem _ hkv, ht⟩

theorem canonGroups_stop {isK isV : Bytes → Bool} (seen : Bool) {rest : List Bytes}
    (h1 : Stop isK rest) (h2 : Stop isV rest) : canonGroups isK isV seen rest = ([], rest) := by
  cases rest with
  | nil => rfl
  | cons h t =>
    have e1 : isK h = false := h1
    have e2 : isV h = false := h2
    simp [canonGroups, e1, e2]

theorem canonGroups_values {isK isV : Bytes → Bool} (vs r : List Bytes)
    (hv : ∀ v ∈ vs, isV v = true ∧ isK v = false) :
    canonGroups isK isV true (vs ++ r) = canonGroups isK isV true r := by
  induction vs with
  | nil => rfl
  | cons v vs ih =>
    obtain ⟨e1, e2⟩ := hv v (List.mem_cons_self ..)
    rw [List.cons_append, canonGroups]
    simp only [e2, Bool.false_eq_true, if_false, e1, Bool.and_self, if_true]
    exact ih (fun w hw => hv w (List.mem_cons_of_mem _ hw))

/-- the tokens of a key-sorted map are read back as its groups -/
theorem canonGroups_tokens {isK isV : Bytes → Bool} (m : AMap) (seen : Bool) {rest : List Bytes}
    (hm : ∀ kv ∈ m, isK kv.1 = true ∧ ∀ v ∈ kv.2, isV v = true ∧ isK v = false)
    (h1 : Stop isK rest) (h2 : Stop isV rest) :
    canonGroups isK isV seen (AMap.tokens m ++ rest) = (AMap.keys m, rest) := by
  induction m generalizing seen with
  | nil => exact canonGroups_stop seen h1 h2
  | cons kv m ih =>
    obtain ⟨k, v⟩ := kv
    obtain ⟨hk, hv⟩ := hm (k, v) (List.mem_cons_self ..)
    have hk' : isK k = true := hk
    unfold AMap.tokens
    rw [List.cons_append, canonGroups]
    simp only [hk', if_true, List.append_assoc]
    rw [canonGroups_values v _ hv, ih true (fun kv hkv => hm kv (List.mem_cons_of_mem _ hkv))]
    rfl

theorem okMap_spec {okK : Bytes → Bool} {m : AMap} (h : okMap okK m = true) :
    strictSorted (AMap.keys m) = true ∧ ∀ kv ∈ m, okK kv.1 = true ∧ ∀ v ∈ kv.2, okType v = true := by
  simp only [okMap, Bool.and_eq_true, List.all_eq_true] at h
  exact ⟨h.1, fun kv hkv => ⟨(h.2 kv hkv).1, (h.2 kv hkv).2⟩⟩

theorem length_lt_append {a r : List Bytes} (h : a ≠ []) : r.length < (a ++ r).length := by
  cases a with
  | nil => exact absurd rfl h
  | cons x a => simp only [List.cons_append, List.length_cons, List.length_append]; omega

/-! ### the three extension sections -/

theorem singleton_false {p : Bytes → Bool} {P : Nat → Prop} (hp : ∀ s, p s = true → P s.length)
    (h : ¬ P 1) (c : Nat) : p [c] = false :=
  not_of_len hp (s := [c]) h

theorem cAttr_single (c : Nat) : cAttr [c] = false :=
  singleton_false (P := fun n => 3 ≤ n) (fun _ => cAttr_len) (by omega) c
theorem cType_single (c : Nat) : cType [c] = false :=
  singleton_false (P := fun n => 3 ≤ n) (fun _ => cType_len) (by omega) c
theorem cKey_single (c : Nat) : cKey [c] = false :=
  singleton_false (P := fun n => n = 2) (fun _ => cKey_len) (by omega) c
theorem cTKey_single (c : Nat) : cTKey [c] = false :=
  singleton_false (P := fun n => n = 2) (fun _ => cTKey_len) (by omega) c
theorem cScript_single (c : Nat) : cScript [c] = false :=
  singleton_false (P := fun n => n = 4) (fun _ => cScript_len) (by omega) c
theorem cRegion_single (c : Nat) : cRegion [c] = false :=
  singleton_false (P := fun n => 2 ≤ n ∧ n ≤ 3) (fun _ => cRegion_len) (by omega) c
theorem cVariant_single (c : Nat) : cVariant [c] = false :=
  singleton_false (P := fun n => 4 ≤ n) (fun _ => cVariant_len) (by omega) c

/-- body of a non-empty, valid `-u-` extension -/
theorem uBody_tokens {u : UExt} (hu : u.inv = true) (hne : u.isEmpty = false) {cs : List Nat}
    {rest : List Bytes} (hr : HeadIn cs rest) :
    uBody (u.attributes ++ AMap.tokens u.keywords ++ rest) = some rest := by
  simp only [UExt.inv, Bool.and_eq_true, List.all_eq_true] at hu
  obtain ⟨⟨hsa, hoa⟩, hm⟩ := hu
  obtain ⟨hsk, hok⟩ := okMap_spec hm
  have hca : ∀ a ∈ u.attributes, cAttr a = true := fun a ha => cAttr_of_ok (hoa a ha)
  have stA : Stop cAttr (AMap.tokens u.keywords ++ rest) :=
    Stop_amap (fun kv hkv => not_of_len (P := fun n => 3 ≤ n) (fun _ => cAttr_len)
      (by have := cKey_len (cKey_of_ok (hok kv hkv).1); omega)) (Stop_of_HeadIn cAttr_single hr)
  have hg : canonGroups cKey cType false (AMap.tokens u.keywords ++ rest) = (AMap.keys u.keywords, rest) := by
    apply canonGroups_tokens _ _ _ (Stop_of_HeadIn cKey_single hr) (Stop_of_HeadIn cType_single hr)
    intro kv hkv
    refine ⟨cKey_of_ok (hok kv hkv).1, fun v hv => ?_⟩
    have hc := cType_of_ok ((hok kv hkv).2 v hv)
    exact ⟨hc, not_of_len (P := fun n => n = 2) (fun _ => cKey_len) (by have := cType_len hc; omega)⟩
  have hlen : rest.length < (u.attributes ++ (AMap.tokens u.keywords ++ rest)).length := by
    rw [← List.append_assoc]
    apply length_lt_append
    intro he
    have h1 : u.attributes = [] := (List.append_eq_nil_iff.1 he).1
    have h2 : u.keywords = [] := by
      cases hk : u.keywords with
      | nil => rfl
      | cons kv m =>
        obtain ⟨k, v⟩ := kv
        have := (List.append_eq_nil_iff.1 he).2
        rw [hk] at this
        cases this
    simp [UExt.isEmpty, h1, h2] at hne
  obtain ⟨e1, e2⟩ := takeWhile_append_stop hca stA
  unfold uBody
  simp only [List.append_assoc, e1, e2, hg, hsa, hsk, hlen, decide_true, Bool.and_self, if_true]

/-- body of a non-empty, valid `-t-` extension -/
theorem tBody_tokens {x : TExt} (hx : x.inv = true) (hne : x.isEmpty = false) {cs : List Nat}
    {rest : List Bytes} (hr : HeadIn cs rest) :
    tBody ((match x.tlang with | some l => LangId.tokens l | none => []) ++ AMap.tokens x.tfields ++ rest)
      = some rest := by
  simp only [TExt.inv, Bool.and_eq_true] at hx
  obtain ⟨hl, hm⟩ := hx
  obtain ⟨hsk, hok⟩ := okMap_spec hm
  have hkey : ∀ kv ∈ x.tfields, cTKey kv.1 = true := fun kv hkv => cTKey_of_ok (hok kv hkv).1
  have hg : canonGroups cTKey cType false (AMap.tokens x.tfields ++ rest) = (AMap.keys x.tfields, rest) := by
    apply canonGroups_tokens _ _ _ (Stop_of_HeadIn cTKey_single hr) (Stop_of_HeadIn cType_single hr)
    intro kv hkv
    refine ⟨hkey kv hkv, fun v hv => ?_⟩
    have hc := cType_of_ok ((hok kv hkv).2 v hv)
    exact ⟨hc, not_of_len (P := fun n => n = 2) (fun _ => cTKey_len) (by have := cType_len hc; omega)⟩
  cases htl : x.tlang with
  | some l =>
    rw [htl] at hl
    have hli : l.inv = true := hl
    have hread : canonLangIdRest (LangId.tokens l ++ (AMap.tokens x.tfields ++ rest))
        = some (AMap.tokens x.tfields ++ rest) := by
      apply canonLangIdRest_tokens hli
      · exact Stop_amap (fun kv hkv => not_of_len (P := fun n => n = 4) (fun _ => cScript_len)
          (by have := cTKey_len (hkey kv hkv); omega)) (Stop_of_HeadIn cScript_single hr)
      · exact Stop_amap (fun kv hkv => cRegion_false_of_cTKey (hkey kv hkv))
          (Stop_of_HeadIn cRegion_single hr)
      · exact Stop_amap (fun kv hkv => not_of_len (P := fun n => 4 ≤ n) (fun _ => cVariant_len)
          (by have := cTKey_len (hkey kv hkv); omega)) (Stop_of_HeadIn cVariant_single hr)
    have hlen : rest.length < (LangId.tokens l ++ (AMap.tokens x.tfields ++ rest)).length := by
      rw [← List.append_assoc]
      apply length_lt_append
      simp [LangId.tokens]
    have hhead : LangId.tokens l ++ (AMap.tokens x.tfields ++ rest) =
        Language.asStr l.language :: (l.script.toList ++ l.region.toList ++ l.variants.getD [] ++
          (AMap.tokens x.tfields ++ rest)) := by
      simp [LangId.tokens]
    have hcl : cLanguage (Language.asStr l.language) = true := by
      simp only [LangId.inv, Bool.and_eq_true] at hli
      exact cLanguage_asStr hli.1.1.1
    simp only [List.append_assoc]
    unfold tBody
    rw [hhead] at hread hlen ⊢
    simp only [hcl, if_true, hread, Option.bind_some, hg, hsk, hlen, decide_true, Bool.and_self]
  | none =>
    have hne' : x.tfields ≠ [] := by
      intro he
      simp [TExt.isEmpty, htl, he] at hne
    have hlen : rest.length < (AMap.tokens x.tfields ++ rest).length := by
      apply length_lt_append
      cases hf : x.tfields with
      | nil => exact absurd hf hne'
      | cons kv m => obtain ⟨k, v⟩ := kv; simp [AMap.tokens]
    simp only [List.nil_append]
    unfold tBody
    cases hf : x.tfields with
    | nil => exact absurd hf hne'
    | cons kv m =>
      obtain ⟨k, v⟩ := kv
      rw [hf] at hg hlen hsk
      have hk : cLanguage k = false :=
        cLanguage_false_of_cTKey (hkey (k, v) (by rw [hf]; exact List.mem_cons_self ..))
      have hhead : AMap.tokens ((k, v) :: m) ++ rest = k :: (v ++ AMap.tokens m ++ rest) := by
        simp [AMap.tokens]
      rw [hhead] at hg hlen ⊢
      simp only [hk, Bool.false_eq_true, if_false, Option.bind_some, hg, hsk, hlen, decide_true,
        Bool.and_self, if_true]

theorem optSection_skip {c : Nat} {body : List Bytes → Option (List Bytes)} {cs : List Nat}
    {ts : List Bytes} (h : HeadIn cs ts) (hc : c ∉ cs) : optSection c body ts = some ts := by
  rcases h with rfl | ⟨c', r, hc', rfl⟩
  · rfl
  · have : (c' == c) = false := by
      simp only [beq_eq_false_iff_ne, ne_eq]
      rintro rfl
      exact hc hc'
    simp [optSection, this]

theorem PExt.tokens_headIn (p : PExt) : HeadIn [120] (PExt.tokens p) := by
  unfold PExt.tokens
  split
  · exact Or.inl rfl
  · exact Or.inr ⟨120, p, by simp, rfl⟩

theorem UExt.tokens_headIn (u : UExt) {r : List Bytes} (hr : HeadIn [120] r) :
    HeadIn [117, 120] (UExt.tokens u ++ r) := by
  unfold UExt.tokens
  split
  · exact HeadIn_mono hr (by simp)
  · exact Or.inr ⟨117, _, by simp, rfl⟩

theorem TExt.tokens_headIn (x : TExt) {r : List Bytes} (hr : HeadIn [117, 120] r) :
    HeadIn [116, 117, 120] (TExt.tokens x ++ r) := by
  unfold TExt.tokens
  split
  · exact HeadIn_mono hr (by simp)
  · exact Or.inr ⟨116, _, by simp, rfl⟩

theorem xTail_tokens {p : PExt} (hp : PExt.inv p = true) : xTail (PExt.tokens p) = true := by
  simp only [PExt.inv, Bool.and_eq_true, List.all_eq_true] at hp
  unfold PExt.tokens
  cases p with
  | nil => rfl
  | cons a r =>
    simp only [List.isEmpty_cons, Bool.false_eq_true, if_false, xTail, Bool.not_false, Bool.true_and,
      Bool.and_eq_true, List.all_eq_true]
    exact ⟨fun t ht => cTag_of_ok (hp.2 t ht), hp.1⟩

theorem uSection_tokens {u : UExt} (hu : u.inv = true) {r : List Bytes} (hr : HeadIn [120] r) :
    optSection 117 uBody (UExt.tokens u ++ r) = some r := by
  unfold UExt.tokens
  cases he : u.isEmpty with
  | true => simpa using optSection_skip hr (by simp)
  | false =>
    simp only [Bool.false_eq_true, if_false, List.cons_append, optSection, beq_self_eq_true, if_true]
    exact uBody_tokens hu he hr

theorem tSection_tokens {x : TExt} (hx : x.inv = true) {r : List Bytes} (hr : HeadIn [117, 120] r) :
    optSection 116 tBody (TExt.tokens x ++ r) = some r := by
  unfold TExt.tokens
  cases he : x.isEmpty with
  | true => simpa using optSection_skip hr (by simp)
  | false =>
    simp only [Bool.false_eq_true, if_false, List.cons_append, optSection, beq_self_eq_true, if_true]
    exact tBody_tokens hx he hr

/-! ### whole values -/

theorem LangId.tokens_ne_nil (i : LangId) : LangId.tokens i ≠ [] := by simp [LangId.tokens]

theorem LangId.tokens_alnum {i : LangId} (hi : i.inv = true) :
    ∀ t ∈ LangId.tokens i, t.all isAlnum = true := by
  simp only [LangId.inv, Bool.and_eq_true] at hi
  obtain ⟨⟨⟨hl, hs⟩, hr⟩, hv⟩ := hi
  obtain ⟨_, hvs⟩ := okVariants_getD hv
  intro t ht
  simp only [LangId.tokens, List.mem_append, List.mem_cons, List.not_mem_nil, or_false,
    Option.mem_toList] at ht
  rcases ht with ((rfl | ht) | ht) | ht
  · exact alnum_of_cLanguage (cLanguage_asStr hl)
  · exact alnum_of_cScript (cScript_of_ok (ht ▸ hs))
  · exact alnum_of_cRegion (cRegion_of_ok (ht ▸ hr))
  · exact alnum_of_cVariant (cVariant_of_ok (hvs t ht))

theorem AMap.tokens_alnum {okK : Bytes → Bool} (hK : ∀ k, okK k = true → k.all isAlnum = true)
    {m : AMap} (hm : okMap okK m = true) : ∀ t ∈ AMap.tokens m, t.all isAlnum = true := by
  obtain ⟨_, hok⟩ := okMap_spec hm
  intro t ht
  obtain ⟨kv, hkv, h | h⟩ := AMap.mem_tokens ht
  · exact h ▸ hK _ (hok kv hkv).1
  · exact alnum_of_cType (cType_of_ok ((hok kv hkv).2 t h))

theorem ExtMap.tokens_alnum {m : ExtMap} (hm : m.inv = true) :
    ∀ t ∈ ExtMap.tokens m, t.all isAlnum = true := by
  simp only [ExtMap.inv, Bool.and_eq_true] at hm
  obtain ⟨⟨hu, ht⟩, hp⟩ := hm
  intro t h
  simp only [ExtMap.tokens, List.mem_append] at h
  rcases h with (h | h) | h
  · -- transform
    simp only [TExt.inv, Bool.and_eq_true] at ht
    unfold TExt.tokens at h
    split at h
    · cases h
    · rcases List.mem_cons.1 h with rfl | h
      · decide
      · rcases List.mem_append.1 h with h | h
        · cases htl : m.transform.tlang with
          | none => rw [htl] at h; cases h
          | some l =>
            rw [htl] at h ht
            exact LangId.tokens_alnum ht.1 t h
        · exact AMap.tokens_alnum (fun k hk => alnum_of_cTKey (cTKey_of_ok hk)) ht.2 t h
  · -- unicode
    simp only [UExt.inv, Bool.and_eq_true, List.all_eq_true] at hu
    unfold UExt.tokens at h
    split at h
    · cases h
    · rcases List.mem_cons.1 h with rfl | h
      · decide
      · rcases List.mem_append.1 h with h | h
        · exact alnum_of_cAttr (cAttr_of_ok (hu.1.2 t h))
        · exact AMap.tokens_alnum (fun k hk => alnum_of_cKey (cKey_of_ok hk)) hu.2 t h
  · -- private use
    simp only [PExt.inv, Bool.and_eq_true, List.all_eq_true] at hp
    unfold PExt.tokens at h
    split at h
    · cases h
    · rcases List.mem_cons.1 h with rfl | h
      · decide
      · exact alnum_of_cTag (cTag_of_ok (hp.2 t h))

theorem Locale.display_eq_join (x : Locale) : Locale.display x = join (Locale.tokens x) := by
  unfold Locale.display Locale.tokens LangId.display ExtMap.display
  exact join_append_dashAll _ (LangId.tokens_ne_nil _)

theorem isCanonicalTokens_locale {x : Locale} (hx : x.inv = true) :
    isCanonicalTokens (Locale.tokens x) = true := by
  simp only [Locale.inv, Bool.and_eq_true] at hx
  obtain ⟨hi, hm⟩ := hx
  simp only [ExtMap.inv, Bool.and_eq_true] at hm
  obtain ⟨⟨hu, ht⟩, hp⟩ := hm
  have hX := PExt.tokens_headIn x.ext.priv
  have hUX := UExt.tokens_headIn x.ext.unicode hX
  have hTUX := TExt.tokens_headIn x.ext.transform hUX
  have e1 : canonLangIdRest (LangId.tokens x.id ++
      (x.ext.transform.tokens ++ (x.ext.unicode.tokens ++ PExt.tokens x.ext.priv))) = some _ :=
    canonLangIdRest_tokens hi (Stop_of_HeadIn cScript_single hTUX) (Stop_of_HeadIn cRegion_single hTUX)
      (Stop_of_HeadIn cVariant_single hTUX)
  unfold isCanonicalTokens Locale.tokens ExtMap.tokens
  simp only [List.append_assoc, e1, Option.bind_some, tSection_tokens ht hUX, uSection_tokens hu hX]
  exact xTail_tokens hp

theorem isCanonicalTokens_langId {i : LangId} (hi : i.inv = true) :
    canonLangIdRest (LangId.tokens i) = some [] := by
  have := canonLangIdRest_tokens hi (rest := []) trivial trivial trivial
  simpa using this

theorem Locale.tokens_ne_nil (x : Locale) : Locale.tokens x ≠ [] := by
  simp [Locale.tokens, LangId.tokens]

theorem Locale.tokens_alnum {x : Locale} (hx : x.inv = true) :
    ∀ t ∈ Locale.tokens x, t.all isAlnum = true := by
  simp only [Locale.inv, Bool.and_eq_true] at hx
  intro t ht
  rcases List.mem_append.1 ht with h | h
  · exact LangId.tokens_alnum hx.1 t h
  · exact ExtMap.tokens_alnum hx.2 t h

/-! ### bridge to the abstract canonicaliser of `Spec/Locale.lean`: for EVERY value the printed
    string is `Spec.canon` of the value read field by field (no invariant needed) -/

def absLi (i : LangId) : Spec.LangIdV :=
  { language := i.language, script := i.script, region := i.region, variants := i.variants.getD [] }

def absLocale (x : Locale) : Spec.LocV :=
  { id := absLi x.id, attrs := x.ext.unicode.attributes, keywords := x.ext.unicode.keywords,
    tlang := x.ext.transform.tlang.map absLi, tfields := x.ext.transform.tfields,
    tags := x.ext.priv }

theorem mapTokens_eq (m : AMap) : Spec.mapTokens m = AMap.tokens m := by
  induction m with
  | nil => rfl
  | cons kv m ih =>
    obtain ⟨k, v⟩ := kv
    unfold Spec.mapTokens at ih ⊢
    rw [List.foldr_cons, ih]
    rfl

theorem langIdTokens_abs (i : LangId) : Spec.langIdTokens (absLi i) = LangId.tokens i := rfl

theorem canonTokens_abs (x : Locale) : Spec.canonTokens (absLocale x) = Locale.tokens x := by
  unfold Spec.canonTokens Locale.tokens ExtMap.tokens TExt.tokens UExt.tokens PExt.tokens
    TExt.isEmpty UExt.isEmpty absLocale
  simp only [mapTokens_eq, langIdTokens_abs, List.append_assoc]
  cases x.ext.transform.tlang <;> simp [langIdTokens_abs, Bool.and_comm]

theorem display_eq_canon (x : Locale) : Locale.display x = Spec.canon (absLocale x) := by
  rw [Locale.display_eq_join, Spec.canon, canonTokens_abs]


end UL.Canon
