/-
  Lemmas/GenDataDerived.lean — the compiled tables are the ones the CLDR data determine, assembled:
  `Spec.Derived Gen.tables Gen.cldr` (six derivation equalities, nothing unplaced, keys distinct), and
  with it the dictionary of the tables equals the CLDR association list.
-/
import UnicLocale.Lemmas.GenDataDerive1
import UnicLocale.Lemmas.GenDataDerive2
import UnicLocale.Lemmas.GenDataKeys
import UnicLocale.Lemmas.GenDataWF

namespace UL.Gen

theorem tables_derived : Spec.Derived tables cldr where
  h1 := langOnly_derived
  h2 := langRegion_derived
  h3 := langScript_derived
  h4 := scriptRegion_derived
  h5 := scriptOnly_derived
  h6 := regionOnly_derived
  hu := unplaced_nil
  hd := cldr_keysDistinct

theorem tables_WF : WF tables := (tablesWF_iff tables).1 tables_wf

/-- the dictionary of the compiled tables is the CLDR association list -/
theorem findTables_eq_cldr (k : Spec.Key) (hk0 : k ≠ (0, 0, 0)) (hku : k ≠ (Spec.undInt, 0, 0)) :
    Spec.findTables tables k = Spec.findAssoc cldr k :=
  Spec.findTables_eq_findAssoc tables_derived k hk0 hku

/-- `maximize` on the compiled tables is the dictionary specification over the CLDR list -/
theorem maximize_eq_cldr (l : Language) (s r : Option Bytes) (hv : validTriple l s r = true) :
    Likely.maximize tables l s r = .ok (Spec.maximize (Spec.findAssoc cldr) l s r) := by
  rw [maximize_eq_spec tables tables_wf l s r hv, Spec.maximize_findTables_eq tables_derived l s r hv]

/-- `minimize` on the compiled tables is the dictionary specification over the CLDR list -/
theorem minimize_eq_cldr (l : Language) (s r : Option Bytes) (hv : validTriple l s r = true) :
    Likely.minimize tables l s r = .ok (Spec.minimize (Spec.findAssoc cldr) l s r) := by
  rw [minimize_eq_spec tables tables_wf l s r hv, Spec.minimize_findTables_eq tables_WF tables_derived l s r hv]

/-! non-vacuity: the hypotheses of the generic theorems of `Lemmas/TablesAssoc` and `Lemmas/LikelySpec`
    (`Spec.Derived T es`, `WF T`, `tablesWF T = true`, `∀ e ∈ es, e.kl ≠ undInt`) hold of the real data -/
example : ∃ T es, Spec.Derived T es ∧ WF T ∧ (∀ e ∈ es, e.kl ≠ Spec.undInt) ∧ es.isEmpty = false :=
  ⟨tables, cldr, tables_derived, tables_WF, cldr_noUnd, by
    unfold cldr
    try simp only [List.append_assoc]
    decide +kernel⟩

end UL.Gen
