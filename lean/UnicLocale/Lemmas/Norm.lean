/-
  Lemmas/Norm.lean — case and separator insensitivity of every parser (C09, part i).

  `norm` maps `_` to `-` and upper-case letters to lower case.  Splitting commutes with it
  (`splitSep (bs.map norm) = (splitSep bs).map lower`), and every constructor, classifier,
  sub-parser and loop gives the same answer on `lower t` as on `t` (the unconsumed subtags a
  sub-parser hands back are lower-cased accordingly).  All lemmas live in `UL.Norm`.
-/
import UnicLocale.Lemmas.LiLoop
import UnicLocale.Model.Locale

namespace UL.Norm
open UL UL.Props.C15

/-- the byte normalisation: `_` ↦ `-`, `A`–`Z` ↦ `a`–`z` -/
def norm (b : Nat) : Nat := if b = 95 then 45 else toLower b

/-! ### per-byte facts -/

theorem toLower_ne_sep {b : Nat} (h : isSep b = false) : isSep (toLower b) = false := by
  simp only [isSep, Bool.or_eq_false_iff, beq_eq_false_iff_ne, ne_eq] at h ⊢
  simp only [toLower, isUpper, Bool.and_eq_true, decide_eq_true_eq]
  split <;> omega

theorem isSep_norm (b : Nat) : isSep (norm b) = isSep b := by
  unfold norm
  by_cases h : b = 95
  · subst h; decide
  · rw [if_neg h]
    cases hs : isSep b with
    | false => exact toLower_ne_sep hs
    | true =>
      simp only [isSep, Bool.or_eq_true, beq_iff_eq] at hs
      have : b = 45 := by omega
      subst this; decide

theorem norm_of_not_sep {b : Nat} (h : isSep b = false) : norm b = toLower b := by
  unfold norm
  simp only [isSep, Bool.or_eq_false_iff, beq_eq_false_iff_ne, ne_eq] at h
  rw [if_neg h.2]

@[simp] theorem norm_norm (b : Nat) : norm (norm b) = norm b := by
  unfold norm
  by_cases h : b = 95
  · subst h; decide
  · rw [if_neg h]
    have h2 : toLower b ≠ 95 := by
      simp only [toLower, isUpper, Bool.and_eq_true, decide_eq_true_eq]
      split <;> omega
    rw [if_neg h2, toLower_toLower]

/-- what `norm b = norm b'` means: the same byte, two separators, or the two cases of one letter -/
theorem norm_eq_iff (b b' : Nat) :
    norm b = norm b' ↔
      b = b' ∨ (isSep b = true ∧ isSep b' = true) ∨
      (isAlpha b = true ∧ isAlpha b' = true ∧ (b = b' + 32 ∨ b' = b + 32)) := by
  simp only [norm, toLower, isSep, isAlpha, isUpper, isLower, Bool.or_eq_true, Bool.and_eq_true,
    beq_iff_eq, decide_eq_true_eq]
  constructor
  · intro h
    split at h <;> split at h <;> (try split at h) <;> (try split at h) <;> omega
  · intro h
    split <;> split <;> (try split) <;> (try split) <;> omega

@[simp] theorem toUpper_toLower (b : Nat) : toUpper (toLower b) = toUpper b := by
  simp only [toUpper, toLower, isUpper, isLower, Bool.and_eq_true, decide_eq_true_eq]
  split <;> split <;> (try split) <;> omega

theorem range_toLower (b : Nat) :
    (decide (1 ≤ toLower b) && decide (toLower b ≤ 127)) = (decide (1 ≤ b) && decide (b ≤ 127)) := by
  rw [Bool.eq_iff_iff]
  simp only [toLower, isUpper, Bool.and_eq_true, decide_eq_true_eq]
  split <;> omega

/-! ### byte strings -/

@[simp] theorem upper_lower (s : Bytes) : upper (lower s) = upper s := by
  simp [upper, lower, List.map_map, Function.comp_def]

@[simp] theorem title_lower (s : Bytes) : title (lower s) = title s := by
  cases s with
  | nil => rfl
  | cons b t =>
    show toUpper (toLower b) :: lower (lower t) = toUpper b :: lower t
    rw [toUpper_toLower, lower_lower]

@[simp] theorem tinyOk_lower (n : Nat) (s : Bytes) : tinyOk n (lower s) = tinyOk n s := by
  unfold tinyOk
  rw [length_lower]
  unfold lower
  rw [all_map_of_inv range_toLower]

@[simp] theorem allDigit_lower (s : Bytes) : allDigit (lower s) = allDigit s := all_isDigit_lower s

@[simp] theorem any_not_isAlnum_lower (s : Bytes) :
    (lower s).any (fun c => !isAlnum c) = s.any (fun c => !isAlnum c) := by
  rw [any_not_eq_not_all, any_not_eq_not_all, all_isAlnum_lower]

@[simp] theorem any_not_isAlpha_lower (s : Bytes) :
    (lower s).any (fun c => !isAlpha c) = s.any (fun c => !isAlpha c) := by
  rw [any_not_eq_not_all, any_not_eq_not_all, all_isAlpha_lower]

@[simp] theorem isEmpty_lower (s : Bytes) : (lower s).isEmpty = s.isEmpty := by
  cases s <;> rfl

theorem lower_cons (b : Nat) (t : Bytes) : lower (b :: t) = toLower b :: lower t := rfl
theorem lower_nil : lower [] = [] := rfl

@[simp] theorem isScript_lower (s : Bytes) : Spec.isScript (lower s) = Spec.isScript s := by
  unfold Spec.isScript; rw [rep_lower isAlpha_toLower]
@[simp] theorem isRegion_lower (s : Bytes) : Spec.isRegion (lower s) = Spec.isRegion s := by
  unfold Spec.isRegion; rw [rep_lower isAlpha_toLower, rep_lower isDigit_toLower]

/-! ### splitting commutes with the normalisation -/

theorem splitSep_map_norm (bs : Bytes) : splitSep (bs.map norm) = (splitSep bs).map lower := by
  induction bs with
  | nil => rfl
  | cons b t ih =>
    simp only [List.map_cons, splitSep, isSep_norm]
    cases hs : isSep b with
    | true => simp only [if_true, List.map_cons, ih]; rfl
    | false =>
      simp only [Bool.false_eq_true, if_false]
      rw [ih, norm_of_not_sep hs]
      cases splitSep t with
      | nil => rfl
      | cons h r => rfl

theorem splitSep_lower_congr {bs bs' : Bytes} (h : bs.map norm = bs'.map norm) :
    (splitSep bs).map lower = (splitSep bs').map lower := by
  rw [← splitSep_map_norm, ← splitSep_map_norm, h]

/-! ### the subtag constructors and classifiers -/

@[simp] theorem language_lower (t : Bytes) : Language.fromBytes (lower t) = Language.fromBytes t := by
  rw [language_exact, language_exact, isLanguage_lower, canonLanguage_lower]
@[simp] theorem script_lower (t : Bytes) : Script.fromBytes (lower t) = Script.fromBytes t := by
  rw [script_exact, script_exact, isScript_lower, title_lower]
@[simp] theorem region_lower (t : Bytes) : Region.fromBytes (lower t) = Region.fromBytes t := by
  rw [region_exact, region_exact, isRegion_lower, upper_lower]
@[simp] theorem variant_lower (t : Bytes) : Variant.fromBytes (lower t) = Variant.fromBytes t := by
  rw [variant_exact, variant_exact, isVariant_lower, lower_lower]

@[simp] theorem parseKey_lower (t : Bytes) : parseKey (lower t) = parseKey t := by
  unfold parseKey
  rw [length_lower, tinyOk_lower, lower_lower]
  match t with
  | [] => rfl
  | [_] => rfl
  | [a, b] => simp only [lower, List.map_cons, List.map_nil, isAlnum_toLower, isAlpha_toLower]
  | _ :: _ :: _ :: _ => rfl

@[simp] theorem parseTKey_lower (t : Bytes) : parseTKey (lower t) = parseTKey t := by
  unfold parseTKey
  rw [length_lower, tinyOk_lower, lower_lower]
  match t with
  | [] => rfl
  | [_] => rfl
  | [a, b] => simp only [lower, List.map_cons, List.map_nil, isDigit_toLower, isAlpha_toLower]
  | _ :: _ :: _ :: _ => rfl

@[simp] theorem parseType_lower (t : Bytes) : parseType (lower t) = parseType t := by
  unfold parseType
  simp only [tinyOk_lower, length_lower, allAlnum_lower, lower_lower]
@[simp] theorem parseAttribute_lower (t : Bytes) : parseAttribute (lower t) = parseAttribute t := by
  unfold parseAttribute
  simp only [tinyOk_lower, length_lower, allAlnum_lower, lower_lower]
@[simp] theorem parseTValue_lower (t : Bytes) : parseTValue (lower t) = parseTValue t := by
  unfold parseTValue
  simp only [tinyOk_lower, length_lower, allAlnum_lower, lower_lower]
@[simp] theorem parsePrivate_lower (t : Bytes) : parsePrivate (lower t) = parsePrivate t := by
  unfold parsePrivate
  simp only [tinyOk_lower, length_lower, allAlnum_lower, lower_lower, isEmpty_lower]
@[simp] theorem isTypeShape_lower (t : Bytes) : isTypeShape (lower t) = isTypeShape t := by
  unfold isTypeShape
  simp only [length_lower, any_not_isAlnum_lower]
@[simp] theorem isLanguageSubtag_lower (t : Bytes) : isLanguageSubtag (lower t) = isLanguageSubtag t := by
  unfold isLanguageSubtag
  simp only [length_lower, any_not_isAlpha_lower]
@[simp] theorem isTKeyShape_lower (t : Bytes) : isTKeyShape (lower t) = isTKeyShape t := by
  match t with
  | [] => rfl
  | [_] => rfl
  | [a, b] => simp only [isTKeyShape, lower, List.map_cons, List.map_nil, isDigit_toLower, isAlpha_toLower]
  | _ :: _ :: _ :: _ => rfl
@[simp] theorem extType_toLower (b : Nat) : ExtType.fromByte (toLower b) = ExtType.fromByte b := by
  unfold ExtType.fromByte
  simp only [toLower_toLower]

/-! ### the loops -/

/-- the result of a sub-parser with the handed-back subtags lower-cased -/
def restLower {α} (r : Res (α × List Bytes)) : Res (α × List Bytes) :=
  r.map fun p => (p.1, p.2.map lower)

theorem LangId.loop_lower (pos : Nat) (ts : List Bytes) (s r : Option Bytes) (vs : List Bytes) :
    LangId.loop pos (ts.map lower) s r vs =
      (LangId.loop pos ts s r vs).map fun p => (p.1, p.2.1, p.2.2.1, p.2.2.2.map lower) := by
  induction ts generalizing pos s r vs with
  | nil => simp [LangId.loop, Res.map]
  | cons t ts ih =>
    simp only [List.map_cons, LangId.loop, script_lower, region_lower, variant_lower]
    by_cases h1 : (pos == 1) = true
    · simp only [h1, if_true]
      cases Script.fromBytes t with
      | ok sc => exact ih ..
      | panic => rfl
      | err _ =>
        cases Region.fromBytes t with
        | ok rg => exact ih ..
        | panic => rfl
        | err _ =>
          cases Variant.fromBytes t with
          | ok v => exact ih ..
          | panic => rfl
          | err _ => rfl
    · simp only [h1, Bool.false_eq_true, if_false]
      by_cases h2 : (pos == 2) = true
      · simp only [h2, if_true]
        cases Region.fromBytes t with
        | ok rg => exact ih ..
        | panic => rfl
        | err _ =>
          cases Variant.fromBytes t with
          | ok v => exact ih ..
          | panic => rfl
          | err _ => rfl
      · simp only [h2, Bool.false_eq_true, if_false]
        cases Variant.fromBytes t with
        | ok v => exact ih ..
        | panic => rfl
        | err _ => rfl

theorem LangId.parseIter_lower (ts : List Bytes) (a : Bool) :
    LangId.parseIter (ts.map lower) a = restLower (LangId.parseIter ts a) := by
  unfold LangId.parseIter restLower
  cases ts with
  | nil => simp [LangId.loop, Res.map]
  | cons t ts =>
    simp only [List.map_cons, language_lower]
    cases Language.fromBytes t with
    | err e => rfl
    | panic => rfl
    | ok l =>
      simp only [Res.map, LangId.loop_lower]
      cases LangId.loop 1 ts none none [] with
      | err e => rfl
      | panic => rfl
      | ok p =>
        obtain ⟨s, r, vs, rest⟩ := p
        simp only [List.isEmpty_map]
        split <;> rfl

theorem UExt.loop_lower (ts : List Bytes) (u : UExt) (ck : Option Bytes) (ct : List Bytes) :
    UExt.loop (ts.map lower) u ck ct = restLower (UExt.loop ts u ck ct) := by
  induction ts generalizing u ck ct with
  | nil => rfl
  | cons t ts ih =>
    simp only [List.map_cons, UExt.loop, length_lower, parseKey_lower, isTypeShape_lower,
      parseType_lower, parseAttribute_lower]
    split
    · cases parseKey t with
      | err e => rfl
      | panic => rfl
      | ok k => exact ih ..
    · split
      · cases parseType t with
        | err e => rfl
        | panic => rfl
        | ok o =>
          cases o with
          | some ty => exact ih ..
          | none => exact ih ..
      · split
        · cases parseAttribute t with
          | err e => rfl
          | panic => rfl
          | ok a => exact ih ..
        · rfl

theorem UExt.parseIter_lower (ts : List Bytes) :
    UExt.parseIter (ts.map lower) = restLower (UExt.parseIter ts) := UExt.loop_lower ts {} none []

theorem TExt.fieldLoop_lower (ts : List Bytes) (x : TExt) (ck : Option Bytes) (cv : List Bytes) :
    TExt.fieldLoop (ts.map lower) x ck cv = restLower (TExt.fieldLoop ts x ck cv) := by
  induction ts generalizing x ck cv with
  | nil => rfl
  | cons t ts ih =>
    simp only [List.map_cons, TExt.fieldLoop, length_lower, parseTKey_lower, isTKeyShape_lower,
      parseTValue_lower]
    split
    · cases parseTKey t with
      | err e => rfl
      | panic => rfl
      | ok k => exact ih ..
    · split
      · rfl
      · split
        · cases parseTValue t with
          | err e => rfl
          | panic => rfl
          | ok o =>
            cases o with
            | some ty => exact ih ..
            | none => exact ih ..
        · rfl

theorem TExt.parseIter_lower (ts : List Bytes) :
    TExt.parseIter (ts.map lower) = restLower (TExt.parseIter ts) := by
  cases ts with
  | nil => rfl
  | cons t ts =>
    have hm : lower t :: ts.map lower = (t :: ts).map lower := rfl
    simp only [List.map_cons, TExt.parseIter, isTKeyShape_lower, length_lower, isLanguageSubtag_lower]
    split
    · rw [hm, TExt.fieldLoop_lower]
    · split
      · rfl
      · split
        · rw [hm, LangId.parseIter_lower]
          cases LangId.parseIter (t :: ts) true with
          | err e => rfl
          | panic => rfl
          | ok p =>
            obtain ⟨li, rest⟩ := p
            exact TExt.fieldLoop_lower ..
        · rfl

theorem collectAll_lower {p : Bytes → Res Bytes} (hp : ∀ t, p (lower t) = p t) (ts : List Bytes) :
    collectAll p (ts.map lower) = collectAll p ts := by
  induction ts with
  | nil => rfl
  | cons t ts ih => simp only [List.map_cons, collectAll, hp, ih]

theorem PExt.parseIter_lower (ts : List Bytes) : PExt.parseIter (ts.map lower) = PExt.parseIter ts := by
  unfold PExt.parseIter
  rw [collectAll_lower parsePrivate_lower]

theorem ExtMap.loop_lower (fuel : Nat) (ts : List Bytes) (m : ExtMap) (su st : Bool) :
    ExtMap.loop fuel (ts.map lower) m su st = ExtMap.loop fuel ts m su st := by
  induction fuel generalizing ts m su st with
  | zero => rfl
  | succ fuel ih =>
    cases ts with
    | nil => rfl
    | cons t ts =>
      simp only [List.map_cons, ExtMap.loop, length_lower]
      split
      · rfl
      · cases t with
        | nil => exact ih ..
        | cons b t' =>
          simp only [lower_cons, extType_toLower]
          cases ExtType.fromByte b with
          | err e => rfl
          | panic => rfl
          | ok ty =>
            cases ty with
            | unicode =>
              simp only [UExt.parseIter_lower, restLower]
              cases UExt.parseIter ts with
              | err e => rfl
              | panic => rfl
              | ok p => simp only [Res.map, ih]
            | transform =>
              simp only [TExt.parseIter_lower, restLower]
              cases TExt.parseIter ts with
              | err e => rfl
              | panic => rfl
              | ok p => simp only [Res.map, ih]
            | priv => simp only [PExt.parseIter_lower]
            | other => rfl

theorem ExtMap.parseIter_lower (ts : List Bytes) : ExtMap.parseIter (ts.map lower) = ExtMap.parseIter ts := by
  unfold ExtMap.parseIter
  rw [List.length_map, ExtMap.loop_lower]

theorem Locale.parse_lower (ts : List Bytes) : Locale.parse (ts.map lower) = Locale.parse ts := by
  unfold Locale.parse
  rw [LangId.parseIter_lower, restLower]
  cases LangId.parseIter ts true with
  | err e => rfl
  | panic => rfl
  | ok p => simp only [Res.map, ExtMap.parseIter_lower]

theorem LangId.parseIter_false_lower (ts : List Bytes) :
    (LangId.parseIter (ts.map lower) false).map (·.1) = (LangId.parseIter ts false).map (·.1) := by
  rw [LangId.parseIter_lower, restLower]
  cases LangId.parseIter ts false <;> rfl

end UL.Norm
