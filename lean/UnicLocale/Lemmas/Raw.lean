/-
  Lemmas/Raw.lean — the little-endian integer form of a subtag and its inverse (C17, C16, C18, C06).
-/
import UnicLocale.Model.Likely
import UnicLocale.Lemmas.Ascii
import UnicLocale.Props.C15

namespace UL

theorem pack_cons (b : Nat) (t : Bytes) : pack (b :: t) = b + 256 * pack t := rfl

theorem pack_cons_ne_zero {b : Nat} (t : Bytes) (hb : 1 ≤ b) : pack (b :: t) ≠ 0 := by
  rw [pack_cons]; omega

/-- the general form of `unpack_pack`: any fuel at least the length will do -/
theorem unpackFuel_pack (s : Bytes) (hb : ∀ b ∈ s, 1 ≤ b ∧ b ≤ 255) :
    ∀ fuel, s.length ≤ fuel → unpackFuel fuel (pack s) = s := by
  induction s with
  | nil =>
    intro fuel _
    cases fuel <;> rfl
  | cons b t ih =>
    intro fuel hf
    cases fuel with
    | zero => simp at hf
    | succ f =>
      have hb1 := hb b (List.mem_cons_self ..)
      have ht : ∀ c ∈ t, 1 ≤ c ∧ c ≤ 255 := fun c hc => hb c (List.mem_cons_of_mem _ hc)
      have hne : (pack (b :: t) == 0) = false := by
        simp only [beq_eq_false_iff_ne, ne_eq]; exact pack_cons_ne_zero t hb1.1
      have hmod : pack (b :: t) % 256 = b := by rw [pack_cons]; omega
      have hdiv : pack (b :: t) / 256 = pack t := by rw [pack_cons]; omega
      unfold unpackFuel
      rw [hne, hmod, hdiv, ih ht f (by simp only [List.length_cons] at hf; omega)]
      rfl

/-- bytes 1..=255, at most 8 of them: `from_raw_unchecked(into(x))` shows the same text -/
theorem unpack_pack (s : Bytes) (hl : s.length ≤ 8) (hb : ∀ b ∈ s, 1 ≤ b ∧ b ≤ 255) : unpack (pack s) = s :=
  unpackFuel_pack s hb 8 hl

theorem pack_injective (s t : Bytes) (hs : s.length ≤ 8) (ht : t.length ≤ 8)
    (hbs : ∀ b ∈ s, 1 ≤ b ∧ b ≤ 255) (hbt : ∀ b ∈ t, 1 ≤ b ∧ b ≤ 255) (h : pack s = pack t) : s = t := by
  rw [← unpack_pack s hs hbs, ← unpack_pack t ht hbt, h]

theorem pack_lt (s : Bytes) (n : Nat) (hl : s.length ≤ n) (hb : ∀ b ∈ s, b ≤ 255) : pack s < 256 ^ n := by
  induction s generalizing n with
  | nil => exact Nat.pow_pos (by omega)
  | cons b t ih =>
    cases n with
    | zero => simp at hl
    | succ m =>
      have hb1 := hb b (List.mem_cons_self ..)
      have := ih m (by simp only [List.length_cons] at hl; omega)
        (fun c hc => hb c (List.mem_cons_of_mem _ hc))
      rw [pack_cons, Nat.pow_succ]
      omega

theorem pack_pos (s : Bytes) (hne : s ≠ []) (hb : ∀ b ∈ s, 1 ≤ b) : 0 < pack s := by
  cases s with
  | nil => exact absurd rfl hne
  | cons b t =>
    have := pack_cons_ne_zero t (hb b (List.mem_cons_self ..))
    omega

theorem pack_nil : pack [] = 0 := rfl

open Props.C15 in
/-- every successfully constructed subtag satisfies the hypotheses above -/
theorem language_bytes_ok (v s : Bytes) (h : Language.fromBytes v = .ok (some s)) :
    2 ≤ s.length ∧ s.length ≤ 8 ∧ ∀ b ∈ s, 1 ≤ b ∧ b ≤ 127 := by
  obtain ⟨hs, _⟩ := language_ok_inv h
  have hst := language_stored_text v _ h
  change s = lower v at hst
  subst hst
  obtain ⟨h2, h8, _, ha⟩ := isLanguage_spec hs
  rw [length_lower]
  refine ⟨h2, h8, mem_range_of_all (fun _ => isAlpha_range) ?_⟩
  rw [all_isAlpha_lower]; exact ha
open Props.C15 in
theorem script_bytes_ok (v s : Bytes) (h : Script.fromBytes v = .ok s) :
    s.length = 4 ∧ ∀ b ∈ s, 1 ≤ b ∧ b ≤ 127 := by
  obtain ⟨hs, rfl⟩ := script_ok_inv h
  obtain ⟨h4, ha⟩ := isScript_spec hs
  rw [length_title]
  refine ⟨h4, mem_range_of_all (fun _ => isAlpha_range) ?_⟩
  rw [all_isAlpha_title]; exact ha
open Props.C15 in
theorem region_bytes_ok (v s : Bytes) (h : Region.fromBytes v = .ok s) :
    2 ≤ s.length ∧ s.length ≤ 3 ∧ ∀ b ∈ s, 1 ≤ b ∧ b ≤ 127 := by
  obtain ⟨hs, rfl⟩ := region_ok_inv h
  obtain ⟨h2, h3, ha⟩ := isRegion_spec hs
  rw [length_upper]
  refine ⟨h2, h3, mem_range_of_all (fun _ => isAlnum_range) ?_⟩
  rw [all_isAlnum_upper]; exact ha
open Props.C15 in
theorem variant_bytes_ok (v s : Bytes) (h : Variant.fromBytes v = .ok s) :
    4 ≤ s.length ∧ s.length ≤ 8 ∧ ∀ b ∈ s, 1 ≤ b ∧ b ≤ 127 := by
  obtain ⟨hs, rfl⟩ := variant_ok_inv h
  obtain ⟨h4, h8, ha⟩ := isVariant_spec hs
  rw [length_lower]
  refine ⟨h4, h8, mem_range_of_all (fun _ => isAlnum_range) ?_⟩
  rw [all_isAlnum_lower]; exact ha

theorem unpack_pack_of_ascii (s : Bytes) (hl : s.length ≤ 8) (hb : ∀ b ∈ s, 1 ≤ b ∧ b ≤ 127) :
    unpack (pack s) = s :=
  unpack_pack s hl (fun b h => ⟨(hb b h).1, by have := (hb b h).2; omega⟩)

/-- C17: integer form and back through the unchecked constructor returns an equal subtag -/
theorem raw_roundtrip_language (v s : Bytes) (h : Language.fromBytes v = .ok (some s)) : unpack (pack s) = s := by
  obtain ⟨_, h8, hb⟩ := language_bytes_ok v s h
  exact unpack_pack_of_ascii s h8 hb
theorem raw_roundtrip_script (v s : Bytes) (h : Script.fromBytes v = .ok s) : unpack (pack s) = s := by
  obtain ⟨h4, hb⟩ := script_bytes_ok v s h
  exact unpack_pack_of_ascii s (by omega) hb
theorem raw_roundtrip_region (v s : Bytes) (h : Region.fromBytes v = .ok s) : unpack (pack s) = s := by
  obtain ⟨_, h3, hb⟩ := region_bytes_ok v s h
  exact unpack_pack_of_ascii s (by omega) hb
theorem raw_roundtrip_variant (v s : Bytes) (h : Variant.fromBytes v = .ok s) : unpack (pack s) = s := by
  obtain ⟨_, h8, hb⟩ := variant_bytes_ok v s h
  exact unpack_pack_of_ascii s h8 hb

end UL
