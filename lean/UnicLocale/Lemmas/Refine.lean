/-
  Lemmas/Refine.lean — helper lemmas for C10 (the mutator / getter API refines the set / map /
  multiset reference model of `Spec/AbsOps.lean`):

    * the extension-subtag constructors (`parseKey`, `parseType`, `parseAttribute`, `parseTKey`,
      `parseTValue`, `parsePrivate`, and the `collect…` loops) accept exactly the spec classes and
      return the spec normal form;
    * `AMap.get / remove / keys` are `find? / filter / map fst` on key-sorted lists;
    * insert at the `binary_search` position = set insert, erase at the found position = set erase
      (strictly sorted) / multiset erase-one (sorted), `sort (push v)` = sorted multiset insert;
    * the abstraction function `abs`, the observation function `obs`, and `display` = `canon`.
-/
import UnicLocale.Lemmas.Order
import UnicLocale.Lemmas.LiLoop
import UnicLocale.Props.C02
import UnicLocale.Props.C15
import UnicLocale.Spec.Inv
import UnicLocale.Spec.AbsOps

namespace UL.Rf

/-! ### constructors of the extension subtags are exact -/

theorem isAttr_spec {t : Bytes} (h : Spec.isAttr t = true) :
    3 ≤ t.length ∧ t.length ≤ 8 ∧ allAlnum t = true := by
  simpa [Spec.isAttr, Spec.rep, allAlnum, and_assoc] using h

theorem isPrivate_spec {t : Bytes} (h : Spec.isPrivate t = true) :
    1 ≤ t.length ∧ t.length ≤ 8 ∧ allAlnum t = true := by
  simpa [Spec.isPrivate, Spec.rep, allAlnum, and_assoc] using h

theorem parseAttribute_exact (t : Bytes) :
    parseAttribute t = if Spec.isAttr t then .ok (lower t) else .err .invalidSubtag := by
  unfold parseAttribute
  by_cases hs : Spec.isAttr t = true
  · obtain ⟨h3, h8, ha⟩ := isAttr_spec hs
    have ht := tinyOk_of_allAlnum h8 ha
    simp [hs, ht, ha, h3, h8]
  · have hs' : Spec.isAttr t = false := by simpa using hs
    by_cases ht : tinyOk 8 t = true
    · simp only [Spec.isAttr, Spec.rep] at hs'
      unfold allAlnum
      by_cases ha : t.all isAlnum = true
      · simp [ha] at hs' ⊢
        simp [hs, ht]
        omega
      · simp [hs, ht, ha]
    · simp [hs, ht]

theorem parseType_exact (t : Bytes) :
    parseType t =
      if Spec.isAttr t then .ok (if lower t == Spec.trueWord then none else some (lower t))
      else .err .invalidSubtag := by
  unfold parseType
  by_cases hs : Spec.isAttr t = true
  · obtain ⟨h3, h8, ha⟩ := isAttr_spec hs
    have ht := tinyOk_of_allAlnum h8 ha
    simp only [hs, ht, ha, h3, h8, trueBytes, Spec.trueWord, decide_true, Bool.and_self, Bool.not_true,
      Bool.or_self, Bool.false_eq_true, ↓reduceIte]
    exact (apply_ite Res.ok _ _ _).symm
  · have hs' : Spec.isAttr t = false := by simpa using hs
    by_cases ht : tinyOk 8 t = true
    · simp only [Spec.isAttr, Spec.rep] at hs'
      unfold allAlnum
      by_cases ha : t.all isAlnum = true
      · simp [ha] at hs' ⊢
        simp [hs, ht]
        omega
      · simp [hs, ht, ha]
    · simp [hs, ht]

theorem parseTValue_exact (t : Bytes) :
    parseTValue t =
      if Spec.isAttr t then .ok (if lower t == Spec.trueWord then none else some (lower t))
      else .err .invalidSubtag := by
  unfold parseTValue
  by_cases hs : Spec.isAttr t = true
  · obtain ⟨h3, h8, ha⟩ := isAttr_spec hs
    have ht := tinyOk_of_allAlnum h8 ha
    have g : (decide (t.length < 3) || decide (t.length > 8) || !allAlnum t) = false := by
      simp [ha]; omega
    simp only [hs, ht, g, trueBytes, Spec.trueWord, Bool.not_true, Bool.false_eq_true, ↓reduceIte]
    exact (apply_ite Res.ok _ _ _).symm
  · have hs' : Spec.isAttr t = false := by simpa using hs
    by_cases ht : tinyOk 8 t = true
    · simp only [Spec.isAttr, Spec.rep] at hs'
      unfold allAlnum
      by_cases ha : t.all isAlnum = true
      · simp [ha] at hs' ⊢
        simp [hs, ht]
        omega
      · simp [hs, ht, ha]
    · simp [hs, ht]

theorem parsePrivate_exact (t : Bytes) :
    parsePrivate t = if Spec.isPrivate t then .ok (lower t) else .err .invalidSubtag := by
  unfold parsePrivate
  by_cases hs : Spec.isPrivate t = true
  · obtain ⟨h1, h8, ha⟩ := isPrivate_spec hs
    have ht := tinyOk_of_allAlnum h8 ha
    have hne : t.isEmpty = false := by
      cases t with
      | nil => simp at h1
      | cons _ _ => rfl
    have g : (t.isEmpty || decide (t.length > 8) || !allAlnum t) = false := by
      simp [ha, hne]; omega
    simp [hs, ht, g]
  · have hs' : Spec.isPrivate t = false := by simpa using hs
    by_cases ht : tinyOk 8 t = true
    · simp only [Spec.isPrivate, Spec.rep] at hs'
      unfold allAlnum
      by_cases ha : t.all isAlnum = true
      · simp [ha] at hs' ⊢
        simp [hs, ht]
        cases t with
        | nil => simp
        | cons a r => simp at hs' ⊢; omega
      · simp [hs, ht, ha]
    · simp [hs, ht]

theorem parseKey_exact (k : Bytes) :
    parseKey k = if Spec.isKey k then .ok (lower k) else .err .invalidSubtag := by
  unfold parseKey
  match k with
  | [] => simp [Spec.isKey]
  | [_] => simp [Spec.isKey]
  | _ :: _ :: _ :: _ => simp [Spec.isKey]
  | [a, b] =>
    simp only [Spec.isKey, List.length_cons, List.length_nil]
    by_cases ha : isAlnum a = true
    · by_cases hb : isAlpha b = true
      · have hb' : isAlnum b = true := by simp [isAlnum, hb]
        have ht : tinyOk 4 [a, b] = true :=
          tinyOk_of_allAlnum (by simp) (by simp [allAlnum, ha, hb'])
        simp [ha, hb, ht]
      · simp [ha, hb]
    · simp [ha]

theorem parseTKey_exact (k : Bytes) :
    parseTKey k = if Spec.isTKey k then .ok (lower k) else .err .invalidSubtag := by
  unfold parseTKey
  match k with
  | [] => simp [Spec.isTKey]
  | [_] => simp [Spec.isTKey]
  | _ :: _ :: _ :: _ => simp [Spec.isTKey]
  | [a, b] =>
    simp only [Spec.isTKey, List.length_cons, List.length_nil]
    by_cases ha : isAlpha a = true
    · by_cases hb : isDigit b = true
      · have ha' : isAlnum a = true := by simp [isAlnum, ha]
        have hb' : isAlnum b = true := by simp [isAlnum, hb]
        have ht : tinyOk 4 [a, b] = true :=
          tinyOk_of_allAlnum (by simp) (by simp [allAlnum, ha', hb'])
        simp [ha, hb, ht]
      · simp [ha, hb]
    · simp [ha]

/-- the value-collecting loop of `set_keyword` / `set_tfield`: first error wins, `true` vanishes -/
theorem collectTypes_exact {p : Bytes → Res (Option Bytes)}
    (hp : ∀ t, p t = if Spec.isAttr t then .ok (if lower t == Spec.trueWord then none else some (lower t))
                     else .err .invalidSubtag) (vs : List Bytes) :
    collectTypes p vs =
      match Spec.normValues vs with
      | some l => .ok l
      | none => .err .invalidSubtag := by
  induction vs with
  | nil => rfl
  | cons t ts ih =>
    unfold collectTypes
    rw [hp t, ih]
    unfold Spec.normValues
    by_cases h1 : Spec.isAttr t = true
    · by_cases h2 : ts.all Spec.isAttr = true
      · by_cases h3 : lower t = Spec.trueWord
        · simp [h1, h2, h3]
        · simp [h1, h2, h3]
      · simp [h1, h2]
    · simp [h1]

theorem collectRes_variant_exact (vs : List Bytes) :
    collectRes Variant.fromBytes vs =
      if vs.all Spec.isVariant then .ok (vs.map lower) else .err .invalidSubtag := by
  induction vs with
  | nil => rfl
  | cons t ts ih =>
    unfold collectRes
    rw [Props.C15.variant_exact, ih]
    by_cases h1 : Spec.isVariant t = true
    · by_cases h2 : ts.all Spec.isVariant = true
      · simp [h1, h2]
      · simp [h1, h2]
    · simp [h1]

/-! ### key-sorted association lists against `find?` / `filter` -/

theorem AMap.get_getD_eq_mapGet (k : Bytes) (m : AMap) : (AMap.get k m).getD [] = Spec.mapGet k m := by
  induction m with
  | nil => rfl
  | cons p m ih =>
    obtain ⟨k₀, v₀⟩ := p
    unfold Spec.mapGet at ih ⊢
    by_cases h : k = k₀
    · subst h; simp [AMap.get]
    · have h' : ¬ k₀ = k := fun e => h e.symm
      simp [AMap.get, h, h', ih]

theorem AMap.get_isSome_eq_mapHas (k : Bytes) (m : AMap) : (AMap.get k m).isSome = Spec.mapHas k m := by
  induction m with
  | nil => rfl
  | cons p m ih =>
    obtain ⟨k₀, v₀⟩ := p
    unfold Spec.mapHas at ih ⊢
    by_cases h : k = k₀
    · subst h; simp [AMap.get]
    · have h' : ¬ k₀ = k := fun e => h e.symm
      simp [AMap.get, h, h', ih]

theorem AMap.remove_eq_mapRemove {k : Bytes} {m : AMap} (hs : AMap.sortedKeys m = true) :
    AMap.remove k m = Spec.mapRemove k m := by
  induction m with
  | nil => rfl
  | cons p m ih =>
    obtain ⟨k₀, v₀⟩ := p
    have h' := AMap.sortedKeys_cons.1 hs
    unfold Spec.mapRemove at ih ⊢
    by_cases h : k = k₀
    · subst h
      simp only [AMap.remove, beq_self_eq_true, ↓reduceIte, List.filter_cons, bne_self_eq_false,
        Bool.false_eq_true]
      symm
      rw [List.filter_eq_self]
      intro kv hkv
      have hlt := h'.1 kv.1 (List.mem_map_of_mem (f := (·.1)) hkv)
      have hne := bLt_ne hlt
      simpa using fun e => hne e.symm
    · have hk : ¬ k₀ = k := fun e => h e.symm
      simp [AMap.remove, h, hk, ih h'.2]

theorem AMap.keys_eq_mapKeys (m : AMap) : AMap.keys m = Spec.mapKeys m := rfl

/-! ### sorted sets / multisets against the positional updates -/

/-- `set_attribute`: inserting at the `binary_search` `Err` position is the set insert -/
theorem insert_at_err_eq_insertSet {a : List Bytes} {k : Bytes} {i : Nat} (hs : strictSorted a = true)
    (h : binarySearchBy a (cmpBytes k) = .inr i) :
    a.take i ++ k :: a.drop i = Spec.insertSet k a := by
  obtain ⟨h1, h2⟩ := insert_at_err_sorted hs h
  apply strictSorted_ext h1 (strictSorted_insertSet hs)
  intro x
  rw [h2, mem_insertSet]

/-- `set_attribute` when `binary_search` says `Ok`: the set insert changes nothing -/
theorem insertSet_of_mem {a : List Bytes} {k : Bytes} (hs : strictSorted a = true) (hk : k ∈ a) :
    Spec.insertSet k a = a := by
  apply strictSorted_ext (strictSorted_insertSet hs) hs
  intro x
  rw [mem_insertSet]
  constructor
  · rintro (rfl | h)
    · exact hk
    · exact h
  · exact Or.inr

theorem strictSorted_filter {a : List Bytes} (p : Bytes → Bool) (hs : strictSorted a = true) :
    strictSorted (a.filter p) = true := by
  rw [strictSorted_iff_pairwise] at *
  exact hs.sublist List.filter_sublist

theorem strictSorted_eraseIdx {a : List Bytes} (i : Nat) (hs : strictSorted a = true) :
    strictSorted (a.eraseIdx i) = true := by
  rw [strictSorted_iff_pairwise] at *
  exact hs.sublist (List.eraseIdx_sublist a i)

/-- `remove_attribute`: erasing the found position is the set erase -/
theorem erase_at_ok_eq_setErase {a : List Bytes} {k : Bytes} {i : Nat} (hs : strictSorted a = true)
    (h : binarySearchBy a (cmpBytes k) = .inl i) :
    a.eraseIdx i = Spec.setErase k a := by
  have hi := binarySearch_ok (weakSorted_of_strictSorted hs) h
  have hp := perm_cons_eraseIdx hi
  have hnd : (k :: a.eraseIdx i).Nodup := hp.nodup_iff.2 (strictSorted_nodup hs)
  apply strictSorted_ext (strictSorted_eraseIdx i hs) (strictSorted_filter _ hs)
  intro x
  rw [List.mem_filter]
  constructor
  · intro hx
    refine ⟨hp.mem_iff.1 (List.mem_cons_of_mem _ hx), ?_⟩
    have : x ≠ k := by
      rintro rfl
      exact (List.nodup_cons.1 hnd).1 hx
    simpa using this
  · rintro ⟨hx, hne⟩
    have hne' : x ≠ k := by simpa using hne
    rcases List.mem_cons.1 (hp.mem_iff.2 hx) with e | hx'
    · exact absurd e hne'
    · exact hx'

/-- `remove_attribute` when `binary_search` says `Err`: nothing to erase -/
theorem setErase_of_not_mem {a : List Bytes} {k : Bytes} (hk : k ∉ a) : Spec.setErase k a = a := by
  unfold Spec.setErase
  rw [List.filter_eq_self]
  intro x hx
  have : x ≠ k := by rintro rfl; exact hk hx
  simpa using this

theorem weakSorted_erase {a : List Bytes} (k : Bytes) (hs : weakSorted a = true) :
    weakSorted (a.erase k) = true := by
  rw [weakSorted_iff_pairwise] at *
  exact hs.sublist List.erase_sublist

/-- `remove_tag`: erasing the found position deletes one occurrence -/
theorem erase_at_ok_eq_erase {a : List Bytes} {k : Bytes} {i : Nat} (hs : weakSorted a = true)
    (h : binarySearchBy a (cmpBytes k) = .inl i) :
    a.eraseIdx i = a.erase k := by
  obtain ⟨h1, h2⟩ := erase_at_ok_sorted hs h
  exact weakSorted_perm_unique h1 (weakSorted_erase k hs) h2

/-- `add_tag`: push then sort = sorted multiset insert -/
theorem sort_push_eq_sortInsert {a : List Bytes} (v : Bytes) (hs : weakSorted a = true) :
    sortBytes (a ++ [v]) = Spec.sortInsert v a := by
  have hp : (a ++ [v]).Perm (v :: a) := List.perm_append_comm
  rw [sortBytes_perm_congr hp]
  show insertSorted v (sortBytes a) = _
  rw [sortBytes_of_weakSorted hs, insertSorted_eq_sortInsert]

theorem weakSorted_sortInsert {a : List Bytes} (v : Bytes) (hs : weakSorted a = true) :
    weakSorted (Spec.sortInsert v a) = true := by
  rw [← insertSorted_eq_sortInsert]
  exact weakSorted_insertSorted hs

theorem mem_sortInsert {x v : Bytes} {a : List Bytes} : x ∈ Spec.sortInsert v a ↔ x = v ∨ x ∈ a := by
  rw [← insertSorted_eq_sortInsert]
  exact mem_insertSorted

/-! ### abstraction and observation -/

/-- a concrete language identifier as the spec's abstract one (variants as the stored list) -/
def absLi (x : LangId) : Spec.LangIdV :=
  { language := x.language, script := x.script, region := x.region, variants := x.variantList }

/-- the abstraction function: forget `None` vs `Some([])`, read every vector as it stands -/
def abs (x : Locale) : Spec.AbsLoc :=
  { language := x.id.language, script := x.id.script, region := x.id.region,
    variants := x.id.variantList,
    attrs := x.ext.unicode.attributes, keywords := x.ext.unicode.keywords,
    tlang := x.ext.transform.tlang.map absLi, tfields := x.ext.transform.tfields,
    tags := x.ext.priv }

/-- the reference model instantiated with the model's own likely-subtags functions
    (their content is C06–C08) -/
def modelLikely (T : Tables) : Spec.LikelyFns := ⟨Likely.maximize T, Likely.minimize T⟩

def resListOut (r : Res (List Bytes)) : Out :=
  match r with
  | .ok l => .list l
  | .err _ => .err
  | .panic => .panic

/-- every getter of the model, collected -/
def obs (x : Locale) : Spec.Obs :=
  { language := x.id.language, script := x.id.script, region := x.id.region,
    variants := x.id.variantList,
    attributes := x.ext.unicode.attributes,
    keywordKeys := x.ext.unicode.keywordKeys,
    keywordVals := x.ext.unicode.keywordKeys.map fun k => (k, resListOut (x.ext.unicode.keyword k)),
    tlang := x.ext.transform.tlang.map absLi,
    tfieldKeys := x.ext.transform.tfieldKeys,
    tfieldVals := x.ext.transform.tfieldKeys.map fun k => (k, resListOut (x.ext.transform.tfield k)),
    tags := x.ext.priv,
    unicodeEmpty := x.ext.unicode.isEmpty,
    transformEmpty := x.ext.transform.isEmpty,
    privateEmpty := x.ext.priv.isEmpty,
    extensionsEmpty := x.ext.isEmpty,
    text := Locale.display x }

theorem absLi_concreteLi (v : Spec.LangIdV) : absLi (concreteLi v) = v := by
  obtain ⟨l, s, r, vs⟩ := v
  cases vs <;> rfl

/-! ### `Display` is the spec's canonical text of the abstract value -/

theorem dashAll_append (a b : List Bytes) : dashAll (a ++ b) = dashAll a ++ dashAll b := by
  induction a with
  | nil => rfl
  | cons t ts ih => simp [dashAll, ih]

theorem join_cons_append (t : Bytes) (a b : List Bytes) :
    join (t :: a ++ b) = join (t :: a) ++ dashAll b := by
  simp [join, dashAll_append]

theorem AMap.tokens_eq_mapTokens (m : AMap) : AMap.tokens m = Spec.mapTokens m := by
  induction m with
  | nil => rfl
  | cons p m ih =>
    obtain ⟨k, v⟩ := p
    simp only [AMap.tokens, ih]
    rfl

theorem LangId.tokens_eq (x : LangId) : LangId.tokens x = Spec.langIdTokens (absLi x) := rfl

theorem UExt.tokens_eq (u : UExt) :
    u.tokens = (if u.attributes.isEmpty && u.keywords.isEmpty then []
                else [117] :: (u.attributes ++ Spec.mapTokens u.keywords)) := by
  unfold UExt.tokens UExt.isEmpty
  rw [AMap.tokens_eq_mapTokens, Bool.and_comm]

theorem TExt.tokens_eq (x : TExt) :
    x.tokens = (if (x.tlang.map absLi).isNone && x.tfields.isEmpty then []
                else [116] :: ((match x.tlang.map absLi with
                                | some l => Spec.langIdTokens l
                                | none => []) ++ Spec.mapTokens x.tfields)) := by
  unfold TExt.tokens TExt.isEmpty
  rw [AMap.tokens_eq_mapTokens]
  cases x.tlang <;> rfl

theorem tokens_eq_canonTokens (x : Locale) :
    Locale.tokens x = Spec.canonTokens (Spec.toLocV (abs x)) := by
  unfold Locale.tokens ExtMap.tokens
  rw [UExt.tokens_eq, TExt.tokens_eq, LangId.tokens_eq]
  simp only [← List.append_assoc]
  rfl

theorem display_eq_join_tokens (x : Locale) : Locale.display x = join (Locale.tokens x) := by
  unfold Locale.display LangId.display ExtMap.display Locale.tokens
  have hne : ∃ t r, LangId.tokens x.id = t :: r := ⟨_, _, rfl⟩
  obtain ⟨t, r, htr⟩ := hne
  rw [htr, join_cons_append]

theorem display_eq_canon (x : Locale) : Locale.display x = Spec.canon (Spec.toLocV (abs x)) := by
  rw [display_eq_join_tokens, tokens_eq_canonTokens]
  rfl

end UL.Rf
