/-
  Lemmas/RoundTripReach.lean — every successful parse returns a value satisfying the representation
  invariant (the reachability fact the idempotence corollary of C05 needs).  Everything lives in
  the namespace `UL.RT` so that the names cannot clash with another development of the same fact.
-/
import UnicLocale.Lemmas.RoundTripExt

namespace UL.RT
open UL

/-! ### language identifier -/

theorem okLanguage_canon {l : Bytes} (h : Spec.isLanguage l = true) :
    okLanguage (Spec.canonLanguage l) = true := by
  unfold Spec.canonLanguage
  by_cases hu : (lower l == Spec.und) = true
  · rw [if_pos hu]; rfl
  · rw [if_neg hu]
    have : lower l ≠ Spec.und := by simpa using hu
    simp [okLanguage, h, this]

theorem takeOpt_some {p : Bytes → Bool} {ts r : List Bytes} {t : Bytes}
    (h : Spec.takeOpt p ts = (some t, r)) : p t = true := by
  cases ts with
  | nil => simp [Spec.takeOpt] at h
  | cons a ts =>
    simp only [Spec.takeOpt] at h
    by_cases hp : p a = true
    · rw [if_pos hp] at h
      simp only [Prod.mk.injEq, Option.some.injEq] at h
      rw [← h.1]; exact hp
    · rw [if_neg hp] at h
      simp at h

theorem concreteLi_inv {ts rest : List Bytes} {v : Spec.LangIdV}
    (h : Spec.readLangIdPrefix ts = some (v, rest)) : (concreteLi v).inv = true := by
  cases ts with
  | nil => simp [Spec.readLangIdPrefix, Spec.readLangIdPrefixD] at h
  | cons l r0 =>
    by_cases hl : Spec.isLanguage l = true
    · simp only [Spec.readLangIdPrefix, Spec.readLangIdPrefixD, hl, Bool.not_true, Bool.false_eq_true,
        if_false, Option.map_some, Option.some.injEq, Prod.mk.injEq] at h
      obtain ⟨hv, _⟩ := h
      generalize hs : Spec.takeOpt Spec.isScript r0 = p1 at hv
      obtain ⟨s, r1⟩ := p1
      generalize hr : Spec.takeOpt Spec.isRegion r1 = p2 at hv
      obtain ⟨r, r2⟩ := p2
      simp only at hv
      subst hv
      rw [LangId.inv_iff]
      refine ⟨okLanguage_canon hl, ?_, ?_, ?_⟩
      · cases s with
        | none => rfl
        | some t => simp [concreteLi, okScript, takeOpt_some hs]
      · cases r with
        | none => rfl
        | some t => simp [concreteLi, okRegion, takeOpt_some hr]
      · simp only [concreteLi]
        split
        · rfl
        · rename_i hne
          simp only [okVariants, Bool.and_eq_true, List.all_eq_true]
          refine ⟨⟨by simpa using hne, strictSorted_toSet _⟩, ?_⟩
          intro x hx
          rw [mem_toSet, List.mem_map] at hx
          obtain ⟨y, hy, rfl⟩ := hx
          have hvy : Spec.isVariant y = true := List.all_eq_true.mp List.all_takeWhile y hy
          simp [okVariant, hvy]
    · simp [Spec.readLangIdPrefix, Spec.readLangIdPrefixD, hl] at h

theorem langId_parseIter_inv {ts rest : List Bytes} {x : LangId} {a : Bool}
    (h : LangId.parseIter ts a = .ok (x, rest)) : x.inv = true := by
  cases ts with
  | nil =>
    rw [LangId.parseIter_nil] at h
    injection h with h
    have : ({} : LangId) = x := congrArg Prod.fst h
    subst this
    rfl
  | cons t ts =>
    rw [LangId.parseIter_char] at h
    cases hread : Spec.readLangIdPrefix (t :: ts) with
    | none => rw [hread] at h; cases h
    | some p =>
      obtain ⟨v, rest'⟩ := p
      rw [hread] at h
      simp only at h
      split at h
      · cases h
      · injection h with h
        have : concreteLi v = x := congrArg Prod.fst h
        subst this
        exact concreteLi_inv hread

/-- `LanguageIdentifier::from_bytes` returns values satisfying the invariant -/
theorem langId_fromBytes_inv {bs : Bytes} {x : LangId} (h : LangId.fromBytes bs = .ok x) :
    x.inv = true := by
  unfold LangId.fromBytes at h
  cases hp : LangId.parseIter (splitSep bs) false with
  | ok p =>
    obtain ⟨y, rest⟩ := p
    rw [hp] at h
    simp only [Res.map] at h
    injection h with h
    subst h
    exact langId_parseIter_inv hp
  | err e => rw [hp] at h; cases h
  | panic => rw [hp] at h; cases h

/-! ### extension subtag constructors -/

theorem attrLike {t : Bytes} (hl : (3 ≤ t.length ∧ t.length ≤ 8)) (ha : allAlnum t = true) :
    Spec.isAttr (lower t) = true := by
  unfold allAlnum at ha
  simp [Spec.isAttr, Spec.rep, hl.1, hl.2, ha]

theorem parseAttribute_ok {t a : Bytes} (h : parseAttribute t = .ok a) : okAttr a = true := by
  unfold parseAttribute at h
  split at h
  · cases h
  · split at h
    · cases h
    · rename_i _ h2
      injection h with h
      subst h
      simp only [Bool.or_eq_true, Bool.not_eq_true', Bool.and_eq_false_iff, decide_eq_false_iff_not,
        not_or, Bool.not_eq_false, Nat.not_le] at h2
      have hl : 3 ≤ t.length ∧ t.length ≤ 8 := by omega
      simp [okAttr, attrLike hl h2.2]

theorem parseType_ok {t ty : Bytes} (h : parseType t = .ok (some ty)) : okType ty = true := by
  unfold parseType at h
  split at h
  · cases h
  · split at h
    · cases h
    · rename_i _ h2
      simp only [Bool.or_eq_true, Bool.not_eq_true', Bool.and_eq_false_iff, decide_eq_false_iff_not,
        not_or, Bool.not_eq_false, Nat.not_le] at h2
      have hl : 3 ≤ t.length ∧ t.length ≤ 8 := by omega
      simp only at h
      split at h
      · cases h
      · rename_i hne
        injection h with h
        injection h with h
        subst h
        have hne' : lower t ≠ Spec.trueWord := by simpa [trueBytes, Spec.trueWord] using hne
        simp [okType, attrLike hl h2.2, hne']

theorem parseTValue_ok {t ty : Bytes} (h : parseTValue t = .ok (some ty)) : okType ty = true := by
  unfold parseTValue at h
  split at h
  · cases h
  · split at h
    · cases h
    · rename_i _ h2
      simp only [Bool.or_eq_true, decide_eq_true_eq, Bool.not_eq_true', not_or, Bool.not_eq_false,
        Nat.not_lt] at h2
      have hl : 3 ≤ t.length ∧ t.length ≤ 8 := by omega
      simp only at h
      split at h
      · cases h
      · rename_i hne
        injection h with h
        injection h with h
        subst h
        have hne' : lower t ≠ Spec.trueWord := by simpa [trueBytes, Spec.trueWord] using hne
        simp [okType, attrLike hl h2.2, hne']

theorem parseKey_ok {t k : Bytes} (h : parseKey t = .ok k) : okKey k = true := by
  unfold parseKey at h
  split at h
  · cases h
  · split at h
    · rename_i a b
      split at h
      · cases h
      · rename_i h1
        split at h
        · cases h
        · injection h with h
          subst h
          simp only [Bool.or_eq_true, Bool.not_eq_true', not_or, Bool.not_eq_false] at h1
          simp [okKey, Spec.isKey, lower, h1.1, h1.2]
    · cases h

theorem parseTKey_ok {t k : Bytes} (h : parseTKey t = .ok k) : okTKey k = true := by
  unfold parseTKey at h
  split at h
  · cases h
  · split at h
    · rename_i a b
      split at h
      · cases h
      · rename_i h1
        split at h
        · cases h
        · injection h with h
          subst h
          simp only [Bool.or_eq_true, Bool.not_eq_true', not_or, Bool.not_eq_false] at h1
          simp [okTKey, Spec.isTKey, lower, h1.1, h1.2]
    · cases h

theorem parsePrivate_ok {t a : Bytes} (h : parsePrivate t = .ok a) : okTag a = true := by
  unfold parsePrivate at h
  split at h
  · cases h
  · split at h
    · cases h
    · rename_i _ h2
      injection h with h
      subst h
      simp only [Bool.or_eq_true, List.isEmpty_iff, decide_eq_true_eq, Bool.not_eq_true', not_or,
        Bool.not_eq_false, Nat.not_lt] at h2
      obtain ⟨⟨hne, h8⟩, ha⟩ := h2
      have h1 : 1 ≤ t.length := by
        cases t with
        | nil => exact absurd rfl hne
        | cons _ _ => simp
      unfold allAlnum at ha
      simp [okTag, Spec.isPrivate, Spec.rep, h1, h8, ha]

/-! ### key-sorted maps -/

theorem mem_insert {k : Bytes} {v : List Bytes} {m : AMap} {kv : Bytes × List Bytes}
    (h : kv ∈ AMap.insert k v m) : kv = (k, v) ∨ kv ∈ m := by
  induction m with
  | nil => simpa [AMap.insert] using h
  | cons p m ih =>
    obtain ⟨k', v'⟩ := p
    unfold AMap.insert at h
    split at h
    · rcases List.mem_cons.1 h with h | h
      · exact Or.inl h
      · exact Or.inr (List.mem_cons_of_mem _ h)
    · split at h
      · rcases List.mem_cons.1 h with h | h
        · exact Or.inl h
        · exact Or.inr h
      · rcases List.mem_cons.1 h with h | h
        · exact Or.inr (by rw [h]; exact List.mem_cons_self)
        · rcases ih h with h | h
          · exact Or.inl h
          · exact Or.inr (List.mem_cons_of_mem _ h)

theorem okMap_insert {okK : Bytes → Bool} {k : Bytes} {v : List Bytes} {m : AMap}
    (hm : okMap okK m = true) (hk : okK k = true) (hv : ∀ t ∈ v, okType t = true) :
    okMap okK (AMap.insert k v m) = true := by
  obtain ⟨hs, hall⟩ := okMap_iff.1 hm
  refine okMap_iff.2 ⟨AMap.sortedKeys_insert hs, ?_⟩
  intro kv hkv
  rcases mem_insert hkv with rfl | h
  · exact ⟨hk, hv⟩
  · exact hall kv h

/-! ### `-u-` -/

/-- the loop state: everything stored so far is well-formed (attributes not yet sorted) -/
def uState (u : UExt) (ck : Option Bytes) (ct : List Bytes) : Prop :=
  (∀ a ∈ u.attributes, okAttr a = true) ∧ okMap okKey u.keywords = true ∧
    (∀ k, ck = some k → okKey k = true) ∧ (∀ t ∈ ct, okType t = true)

theorem uState_flush {u : UExt} {ck : Option Bytes} {ct : List Bytes} (h : uState u ck ct)
    (ck' : Option Bytes) (hk' : ∀ k, ck' = some k → okKey k = true) :
    uState (UExt.flush u ck ct) ck' [] := by
  obtain ⟨h1, h2, h3, h4⟩ := h
  cases ck with
  | none => exact ⟨h1, h2, hk', by simp⟩
  | some k => exact ⟨h1, okMap_insert h2 (h3 k rfl) h4, hk', by simp⟩

theorem uState_finish {u : UExt} {ck : Option Bytes} {ct : List Bytes} (h : uState u ck ct) :
    (UExt.finish u ck ct).inv = true := by
  obtain ⟨h1, h2, _, _⟩ := uState_flush h none (by intro k hk; cases hk)
  rw [UExt.inv_iff]
  refine ⟨strictSorted_dedup_sort _, ?_, h2⟩
  intro a ha
  exact h1 a (mem_dedup_sort.1 ha)

theorem uext_loop_inv (ts : List Bytes) (u : UExt) (ck : Option Bytes) (ct : List Bytes)
    (hst : uState u ck ct) (hck : ck = none → ct = []) {r : UExt} {rest : List Bytes}
    (h : UExt.loop ts u ck ct = .ok (r, rest)) : r.inv = true := by
  induction ts generalizing u ck ct with
  | nil =>
    rw [UExt.loop] at h
    cases h
    exact uState_finish hst
  | cons t ts ih =>
    rw [UExt.loop] at h
    split at h
    · split at h
      · cases h
      · cases h
      · rename_i k hk
        have hct : (if ck.isSome = true then [] else ct) = [] := by
          cases ck with
          | none => simpa using hck rfl
          | some _ => rfl
        rw [hct] at h
        exact ih _ _ _ (uState_flush hst (some k) (by intro k' e; cases e; exact parseKey_ok hk))
          (by intro e; cases e) h
    · split at h
      · rename_i hcond
        split at h
        · cases h
        · cases h
        · rename_i ty hty
          obtain ⟨h1, h2, h3, h4⟩ := hst
          refine ih _ _ _ ⟨h1, h2, h3, ?_⟩ ?_ h
          · intro x hx
            rcases List.mem_append.1 hx with hx | hx
            · exact h4 x hx
            · simp only [List.mem_singleton] at hx
              subst hx
              exact parseType_ok hty
          · intro e
            simp [e] at hcond
        · exact ih _ _ _ hst hck h
      · split at h
        · split at h
          · cases h
          · cases h
          · rename_i a ha
            obtain ⟨h1, h2, h3, h4⟩ := hst
            refine ih { u with attributes := u.attributes ++ [a] } _ _ ⟨?_, h2, h3, h4⟩ hck h
            intro x hx
            rcases List.mem_append.1 hx with hx | hx
            · exact h1 x hx
            · simp only [List.mem_singleton] at hx
              subst hx
              exact parseAttribute_ok ha
        · cases h
          exact uState_finish hst

theorem uext_parseIter_inv {ts rest : List Bytes} {u : UExt} (h : UExt.parseIter ts = .ok (u, rest)) :
    u.inv = true :=
  uext_loop_inv ts {} none []
    (And.intro (by intro a ha; cases ha) (And.intro rfl (And.intro (by intro k e; cases e)
      (by intro t ht; cases ht)))) (fun _ => rfl) h

/-! ### `-t-` -/

def tState (x : TExt) (ck : Option Bytes) (cv : List Bytes) : Prop :=
  (∀ l, x.tlang = some l → l.inv = true) ∧ okMap okTKey x.tfields = true ∧
    (∀ k, ck = some k → okTKey k = true) ∧ (∀ t ∈ cv, okType t = true)

theorem tState_flush {x : TExt} {ck : Option Bytes} {cv : List Bytes} (h : tState x ck cv) :
    (TExt.flush x ck cv).inv = true := by
  obtain ⟨h1, h2, h3, h4⟩ := h
  rw [TExt.inv_iff]
  cases ck with
  | none => exact ⟨h1, h2⟩
  | some k => exact ⟨h1, okMap_insert h2 (h3 k rfl) h4⟩

theorem text_loop_inv (ts : List Bytes) (x : TExt) (ck : Option Bytes) (cv : List Bytes)
    (hst : tState x ck cv) (hck : ck = none → cv = []) {r : TExt} {rest : List Bytes}
    (h : TExt.fieldLoop ts x ck cv = .ok (r, rest)) : r.inv = true := by
  induction ts generalizing x ck cv with
  | nil =>
    rw [TExt.fieldLoop] at h
    cases h
    exact tState_flush hst
  | cons t ts ih =>
    rw [TExt.fieldLoop] at h
    split at h
    · split at h
      · cases h
      · cases h
      · rename_i k hk
        have hcv : (if ck.isSome = true then [] else cv) = [] := by
          cases ck with
          | none => simpa using hck rfl
          | some _ => rfl
        rw [hcv] at h
        have hfl := TExt.inv_iff.1 (tState_flush hst)
        exact ih _ _ _ ⟨hfl.1, hfl.2, by intro k' e; cases e; exact parseTKey_ok hk, by simp⟩
          (by intro e; cases e) h
    · split at h
      · cases h
        exact tState_flush hst
      · split at h
        · rename_i hsome
          split at h
          · cases h
          · cases h
          · rename_i v hv
            obtain ⟨h1, h2, h3, h4⟩ := hst
            refine ih _ _ _ ⟨h1, h2, h3, ?_⟩ ?_ h
            · intro y hy
              rcases List.mem_append.1 hy with hy | hy
              · exact h4 y hy
              · simp only [List.mem_singleton] at hy
                subst hy
                exact parseTValue_ok hv
            · intro e
              simp [e] at hsome
          · exact ih _ _ _ hst hck h
        · cases h
          exact tState_flush hst

theorem tState_init (tl : Option LangId) (h : ∀ l, tl = some l → l.inv = true) :
    tState { tlang := tl } none [] :=
  And.intro h (And.intro rfl (And.intro (by intro k e; cases e) (by intro t ht; cases ht)))

theorem text_parseIter_inv {ts rest : List Bytes} {x : TExt} (h : TExt.parseIter ts = .ok (x, rest)) :
    x.inv = true := by
  unfold TExt.parseIter at h
  split at h
  · cases h; rfl
  · split at h
    · exact text_loop_inv _ _ _ _ (tState_init none (by intro l e; cases e)) (fun _ => rfl) h
    · split at h
      · cases h; rfl
      · split at h
        · split at h
          · cases h
          · cases h
          · rename_i li rest' hli
            exact text_loop_inv _ _ _ _
              (tState_init (some li) (by intro l e; cases e; exact langId_parseIter_inv hli))
              (fun _ => rfl) h
        · cases h; rfl

/-! ### `-x-` -/

theorem collectAll_ok {ts p : List Bytes} (h : collectAll parsePrivate ts = .ok p) :
    ∀ t ∈ p, okTag t = true := by
  induction ts generalizing p with
  | nil =>
    rw [collectAll] at h
    injection h with h
    subst h
    simp
  | cons t ts ih =>
    rw [collectAll] at h
    split at h
    · cases h
    · cases h
    · rename_i a ha
      split at h
      · cases h
      · cases h
      · rename_i r hr
        injection h with h
        subst h
        intro x hx
        rcases List.mem_cons.1 hx with rfl | hx
        · exact parsePrivate_ok ha
        · exact ih hr x hx

theorem pext_parseIter_inv {ts : List Bytes} {p : PExt} (h : PExt.parseIter ts = .ok p) :
    PExt.inv p = true := by
  unfold PExt.parseIter at h
  cases hc : collectAll parsePrivate ts with
  | ok q =>
    rw [hc] at h
    simp only [Res.map] at h
    injection h with h
    subst h
    rw [PExt.inv_iff]
    exact ⟨weakSorted_sortBytes _, fun t ht => collectAll_ok hc t (mem_sortBytes.1 ht)⟩
  | err e => rw [hc] at h; cases h
  | panic => rw [hc] at h; cases h

/-! ### the dispatch loop, `ExtensionsMap`, `Locale` -/

theorem extmap_loop_inv (fuel : Nat) (ts : List Bytes) (m : ExtMap) (sU sT : Bool)
    (hm : m.inv = true) {r : ExtMap} (h : ExtMap.loop fuel ts m sU sT = .ok r) : r.inv = true := by
  induction fuel generalizing ts m sU sT with
  | zero => unfold ExtMap.loop at h; cases h
  | succ fuel ih =>
    cases ts with
    | nil =>
      rw [ExtMap.loop] at h
      injection h with h
      subst h
      exact hm
    | cons t ts =>
      obtain ⟨hu, hx, hp⟩ := ExtMap.inv_iff.1 hm
      unfold ExtMap.loop at h
      split at h
      · cases h
      · split at h
        · exact ih _ _ _ _ hm h
        · split at h
          · split at h
            · cases h
            · split at h
              · cases h
              · cases h
              · rename_i u rest hpu
                exact ih _ { m with unicode := u } _ _ (ExtMap.inv_iff.2 ⟨uext_parseIter_inv hpu, hx, hp⟩) h
          · split at h
            · cases h
            · split at h
              · cases h
              · cases h
              · rename_i x rest hpx
                exact ih _ { m with transform := x } _ _ (ExtMap.inv_iff.2 ⟨hu, text_parseIter_inv hpx, hp⟩) h
          · split at h
            · cases h
            · cases h
            · rename_i p hpp
              injection h with h
              subst h
              exact ExtMap.inv_iff.2 ⟨hu, hx, pext_parseIter_inv hpp⟩
          · cases h

theorem extmap_parseIter_inv {ts : List Bytes} {m : ExtMap} (h : ExtMap.parseIter ts = .ok m) :
    m.inv = true :=
  extmap_loop_inv _ _ {} false false rfl h

/-- `ExtensionsMap::from_bytes` returns values satisfying the invariant -/
theorem extmap_fromBytes_inv {bs : Bytes} {m : ExtMap} (h : ExtMap.fromBytes bs = .ok m) :
    m.inv = true :=
  extmap_parseIter_inv h

/-- `Locale::from_bytes` returns values satisfying the invariant -/
theorem locale_fromBytes_inv {bs : Bytes} {x : Locale} (h : Locale.fromBytes bs = .ok x) :
    x.inv = true := by
  unfold Locale.fromBytes Locale.parse at h
  split at h
  · cases h
  · cases h
  · rename_i id rest hid
    split at h
    · cases h
    · cases h
    · rename_i ext hext
      injection h with h
      subst h
      exact Locale.inv_iff.2 ⟨langId_parseIter_inv hid, extmap_parseIter_inv hext⟩

/-- "en-Latn-US-macos-t-es-AR-h0-hybrid-u-attr-ca-buddhist-x-priv" (non-vacuity witness) -/
def sample : Bytes :=
  [101,110,45,76,97,116,110,45,85,83,45,109,97,99,111,115,45,116,45,101,115,45,65,82,45,104,48,45,
   104,121,98,114,105,100,45,117,45,97,116,116,114,45,99,97,45,98,117,100,100,104,105,115,116,45,
   120,45,112,114,105,118]

/-- the model's parse of `sample` -/
def sampleLocale : Locale :=
  match Locale.fromBytes sample with
  | .ok x => x
  | _ => {}

end UL.RT
