/-
  Lemmas/Total.lean — helper lemmas for C01 (totality): no branch of the model that stands for a
  Rust panic (`unwrap`, slice index, `unimplemented!`, exhausted fuel) is reachable.

  * leaf parsers (`parseKey`, `parseType`, …) never panic;
  * the extension sub-parsers never panic and hand back a suffix no longer than their input;
  * the fuel lemma for `ExtMap.loop`: `ts.length < fuel` ⇒ no panic (each iteration consumes ≥ 1 subtag);
  * `lookupBy` returns an element of the table, so under `tablesWF` (every value has a language)
    `lang_from_parts`' `.unwrap()` is unreachable: `maximize`, `minimize`, `direction` are `.ok _`;
  * every operation of `step` reports something other than `.panic`.
-/
import UnicLocale.Lemmas.LiLoop
import UnicLocale.Model.Ops
import UnicLocale.Spec.TablesWF

namespace UL.Tot

theorem Res.isPanic_false_iff {α} (r : Res α) : r.isPanic = false ↔ r ≠ .panic := by
  cases r <;> simp [Res.isPanic]

theorem Res.map_ne_panic {α β} {f : α → β} {r : Res α} (h : r ≠ .panic) : r.map f ≠ .panic := by
  cases r <;> simp_all [Res.map]

theorem Res.bind_ne_panic {α β} {f : α → Res β} {r : Res α} (h : r ≠ .panic) (hf : ∀ a, f a ≠ .panic) :
    r.bind f ≠ .panic := by
  cases r <;> simp_all [Res.bind]

theorem parseKey_ne_panic (k : Bytes) : parseKey k ≠ .panic := by
  unfold parseKey
  match k with
  | [] => simp
  | [_] => simp
  | [a, b] => simp only; split <;> (try split) <;> (try split) <;> simp
  | _ :: _ :: _ :: _ => simp

theorem parseTKey_ne_panic (k : Bytes) : parseTKey k ≠ .panic := by
  unfold parseTKey
  match k with
  | [] => simp
  | [_] => simp
  | [a, b] => simp only; split <;> (try split) <;> (try split) <;> simp
  | _ :: _ :: _ :: _ => simp

theorem parseType_ne_panic (t : Bytes) : parseType t ≠ .panic := by
  unfold parseType; split <;> (try split) <;> (try (dsimp only; split)) <;> simp
theorem parseAttribute_ne_panic (t : Bytes) : parseAttribute t ≠ .panic := by
  unfold parseAttribute; split <;> (try split) <;> simp
theorem parseTValue_ne_panic (t : Bytes) : parseTValue t ≠ .panic := by
  unfold parseTValue; split <;> (try split) <;> (try (dsimp only; split)) <;> simp
theorem parsePrivate_ne_panic (t : Bytes) : parsePrivate t ≠ .panic := by
  unfold parsePrivate; split <;> (try split) <;> simp

theorem collectTypes_ne_panic {p : Bytes → Res (Option Bytes)} (hp : ∀ t, p t ≠ .panic) (ts : List Bytes) :
    collectTypes p ts ≠ .panic := by
  induction ts with
  | nil => simp [collectTypes]
  | cons t ts ih =>
    rw [collectTypes]
    split
    · simp
    · rename_i h; exact absurd h (hp t)
    · split
      · simp
      · rename_i h; exact absurd h ih
      · simp

theorem collectAll_ne_panic {p : Bytes → Res Bytes} (hp : ∀ t, p t ≠ .panic) (ts : List Bytes) :
    collectAll p ts ≠ .panic := by
  induction ts with
  | nil => simp [collectAll]
  | cons t ts ih =>
    rw [collectAll]
    split
    · simp
    · rename_i h; exact absurd h (hp t)
    · split
      · simp
      · rename_i h; exact absurd h ih
      · simp

theorem collectRes_ne_panic {α} {p : Bytes → Res α} (hp : ∀ t, p t ≠ .panic) (ts : List Bytes) :
    collectRes p ts ≠ .panic := by
  induction ts with
  | nil => simp [collectRes]
  | cons t ts ih =>
    rw [collectRes]
    split
    · simp
    · rename_i h; exact absurd h (hp t)
    · split
      · simp
      · rename_i h; exact absurd h ih
      · simp


/-! ### the extension sub-parsers: no panic, and progress -/

theorem UExt.loop_ne_panic (ts : List Bytes) (u : UExt) (ck : Option Bytes) (ct : List Bytes) :
    UExt.loop ts u ck ct ≠ .panic := by
  induction ts generalizing u ck ct with
  | nil => simp [UExt.loop]
  | cons t ts ih =>
    rw [UExt.loop]
    split
    · split
      · simp
      · rename_i h; exact absurd h (parseKey_ne_panic t)
      · exact ih _ _ _
    · split
      · split
        · simp
        · rename_i h; exact absurd h (parseType_ne_panic t)
        · exact ih _ _ _
        · exact ih _ _ _
      · split
        · split
          · simp
          · rename_i h; exact absurd h (parseAttribute_ne_panic t)
          · exact ih _ _ _
        · simp

theorem UExt.loop_rest_length {ts : List Bytes} {u : UExt} {ck : Option Bytes} {ct : List Bytes}
    {v : UExt} {rest : List Bytes} (h : UExt.loop ts u ck ct = .ok (v, rest)) : rest.length ≤ ts.length := by
  induction ts generalizing u ck ct with
  | nil =>
    simp only [UExt.loop, Res.ok.injEq, Prod.mk.injEq] at h
    rw [← h.2]; exact Nat.le_refl _
  | cons t ts ih =>
    rw [UExt.loop] at h
    have step : ∀ {u ck ct}, UExt.loop ts u ck ct = .ok (v, rest) → rest.length ≤ (t :: ts).length :=
      fun h => Nat.le_succ_of_le (ih h)
    split at h
    · split at h
      · cases h
      · cases h
      · exact step h
    · split at h
      · split at h
        · cases h
        · cases h
        · exact step h
        · exact step h
      · split at h
        · split at h
          · cases h
          · cases h
          · exact step h
        · simp only [Res.ok.injEq, Prod.mk.injEq] at h
          rw [← h.2]; exact Nat.le_refl _

theorem TExt.fieldLoop_ne_panic (ts : List Bytes) (x : TExt) (ck : Option Bytes) (cv : List Bytes) :
    TExt.fieldLoop ts x ck cv ≠ .panic := by
  induction ts generalizing x ck cv with
  | nil => simp [TExt.fieldLoop]
  | cons t ts ih =>
    rw [TExt.fieldLoop]
    split
    · split
      · simp
      · rename_i h; exact absurd h (parseTKey_ne_panic t)
      · exact ih _ _ _
    · split
      · simp
      · split
        · split
          · simp
          · rename_i h; exact absurd h (parseTValue_ne_panic t)
          · exact ih _ _ _
          · exact ih _ _ _
        · simp

theorem TExt.fieldLoop_rest_length {ts : List Bytes} {x : TExt} {ck : Option Bytes} {cv : List Bytes}
    {v : TExt} {rest : List Bytes} (h : TExt.fieldLoop ts x ck cv = .ok (v, rest)) :
    rest.length ≤ ts.length := by
  induction ts generalizing x ck cv with
  | nil =>
    simp only [TExt.fieldLoop, Res.ok.injEq, Prod.mk.injEq] at h
    rw [← h.2]; exact Nat.le_refl _
  | cons t ts ih =>
    rw [TExt.fieldLoop] at h
    have step : ∀ {x ck cv}, TExt.fieldLoop ts x ck cv = .ok (v, rest) → rest.length ≤ (t :: ts).length :=
      fun h => Nat.le_succ_of_le (ih h)
    have here : ∀ {y : TExt}, (Res.ok (y, t :: ts) : Res (TExt × List Bytes)) = .ok (v, rest) →
        rest.length ≤ (t :: ts).length := by
      intro y h
      simp only [Res.ok.injEq, Prod.mk.injEq] at h
      rw [← h.2]; exact Nat.le_refl _
    split at h
    · split at h
      · cases h
      · cases h
      · exact step h
    · split at h
      · exact here h
      · split at h
        · split at h
          · cases h
          · cases h
          · exact step h
          · exact step h
        · exact here h

theorem LangId.parseIter_ne_panic (ts : List Bytes) (a : Bool) : LangId.parseIter ts a ≠ .panic := by
  cases ts with
  | nil => rw [LangId.parseIter_nil]; simp
  | cons t ts =>
    rw [LangId.parseIter_char]
    split
    · simp
    · split <;> simp

theorem TExt.parseIter_ne_panic (ts : List Bytes) : TExt.parseIter ts ≠ .panic := by
  unfold TExt.parseIter
  split
  · simp
  · split
    · exact TExt.fieldLoop_ne_panic _ _ _ _
    · split
      · simp
      · split
        · split
          · simp
          · rename_i h; exact absurd h (LangId.parseIter_ne_panic _ _)
          · exact TExt.fieldLoop_ne_panic _ _ _ _
        · simp

theorem TExt.parseIter_rest_length {ts rest : List Bytes} {x : TExt}
    (h : TExt.parseIter ts = .ok (x, rest)) : rest.length ≤ ts.length := by
  unfold TExt.parseIter at h
  have here : ∀ {y : TExt} {l : List Bytes}, (Res.ok (y, l) : Res (TExt × List Bytes)) = .ok (x, rest) →
      rest.length ≤ l.length := by
    intro y l h
    simp only [Res.ok.injEq, Prod.mk.injEq] at h
    rw [← h.2]; exact Nat.le_refl _
  split at h
  · exact here h
  · split at h
    · exact TExt.fieldLoop_rest_length h
    · split at h
      · exact here h
      · split at h
        · split at h
          · cases h
          · cases h
          · rename_i hli
            exact Nat.le_trans (TExt.fieldLoop_rest_length h) (LangId.parseIter_rest_length hli)
        · exact here h

theorem UExt.parseIter_ne_panic (ts : List Bytes) : UExt.parseIter ts ≠ .panic :=
  UExt.loop_ne_panic _ _ _ _
theorem UExt.parseIter_rest_length {ts rest : List Bytes} {u : UExt}
    (h : UExt.parseIter ts = .ok (u, rest)) : rest.length ≤ ts.length :=
  UExt.loop_rest_length h
theorem PExt.parseIter_ne_panic (ts : List Bytes) : PExt.parseIter ts ≠ .panic :=
  Res.map_ne_panic (collectAll_ne_panic parsePrivate_ne_panic ts)

/-- the fuel argument: as long as the fuel exceeds the number of remaining subtags, the
    out-of-fuel branch is never reached -/
theorem ExtMap.loop_ne_panic (fuel : Nat) (ts : List Bytes) (m : ExtMap) (su st : Bool)
    (hf : ts.length < fuel) : ExtMap.loop fuel ts m su st ≠ .panic := by
  induction fuel generalizing ts m su st with
  | zero => omega
  | succ fuel ih =>
    cases ts with
    | nil => simp [ExtMap.loop]
    | cons t ts =>
      simp only [List.length_cons] at hf
      unfold ExtMap.loop
      split
      · simp
      · split
        · exact ih _ _ _ _ (by omega)
        · split
          · split
            · simp
            · split
              · simp
              · rename_i h; exact absurd h (UExt.parseIter_ne_panic _)
              · rename_i h
                have := UExt.parseIter_rest_length h
                exact ih _ _ _ _ (by omega)
          · split
            · simp
            · split
              · simp
              · rename_i h; exact absurd h (TExt.parseIter_ne_panic _)
              · rename_i h
                have := TExt.parseIter_rest_length h
                exact ih _ _ _ _ (by omega)
          · split
            · simp
            · rename_i h; exact absurd h (PExt.parseIter_ne_panic _)
            · simp
          · simp

theorem ExtMap.parseIter_ne_panic (ts : List Bytes) : ExtMap.parseIter ts ≠ .panic :=
  ExtMap.loop_ne_panic _ _ _ _ _ (Nat.lt_succ_self _)

theorem Locale.parse_ne_panic (ts : List Bytes) : Locale.parse ts ≠ .panic := by
  unfold Locale.parse
  split
  · simp
  · rename_i h; exact absurd h (LangId.parseIter_ne_panic _ _)
  · split
    · simp
    · rename_i h; exact absurd h (ExtMap.parseIter_ne_panic _)
    · simp


/-! ### likely subtags: a hit is a table row, and every row has a language -/

theorem lookupBy_mem {α} {a : Array α} {cmp : α → Nat} {x : α} (h : lookupBy a cmp = some x) :
    x ∈ a.toList := by
  unfold lookupBy at h
  split at h
  · cases h
  · dsimp only at h
    split at h
    · rename_i y hy
      split at h
      · cases h
        exact Array.mem_toList_iff.mpr (Array.mem_of_getElem? hy)
      · cases h
    · cases h

/-- every table value carries a language (all that `lang_from_parts`' `.unwrap()` needs) -/
def _root_.UL.Tables.valuesHaveLang (T : Tables) : Prop :=
  (∀ row ∈ T.langOnly.toList, row.l ≠ 0) ∧ (∀ row ∈ T.langRegion.toList, row.l ≠ 0) ∧
  (∀ row ∈ T.langScript.toList, row.l ≠ 0) ∧ (∀ row ∈ T.scriptRegion.toList, row.l ≠ 0) ∧
  (∀ row ∈ T.scriptOnly.toList, row.l ≠ 0) ∧ (∀ row ∈ T.regionOnly.toList, row.l ≠ 0)

theorem valOk_l_ne_zero {l s r : Nat} (h : valOk l s r = true) : l ≠ 0 := by
  unfold valOk at h
  simp only [Bool.and_eq_true, bne_iff_ne, ne_eq] at h
  exact h.1.1.1.1.1

theorem tablesWF_valuesHaveLang {T : Tables} (h : tablesWF T = true) : T.valuesHaveLang := by
  unfold tablesWF at h
  simp only [Bool.and_eq_true, List.all_eq_true] at h
  obtain ⟨⟨⟨⟨⟨⟨_, h1⟩, h2⟩, h3⟩, h4⟩, h5⟩, h6⟩ := h
  exact ⟨fun row hr => valOk_l_ne_zero (h1 row hr).1,
         fun row hr => valOk_l_ne_zero (h2 row hr).1.1.1.1,
         fun row hr => valOk_l_ne_zero (h3 row hr).1.1.1.1,
         fun row hr => valOk_l_ne_zero (h4 row hr).1.1.1.1,
         fun row hr => valOk_l_ne_zero (h5 row hr).1.1,
         fun row hr => valOk_l_ne_zero (h6 row hr).1.1⟩

theorem Likely.langFromParts_ne_panic {l : Nat} (hl : l ≠ 0) (s r : Nat) (sc rg : Option Bytes) :
    Likely.langFromParts l s r sc rg ≠ .panic := by
  unfold Likely.langFromParts optOf
  have : (l == 0) = false := by simp [hl]
  simp [this]

theorem Likely.langFromParts_ne_err (l s r : Nat) (sc rg : Option Bytes) (e : Err) :
    Likely.langFromParts l s r sc rg ≠ .err e := by
  unfold Likely.langFromParts
  split <;> simp

theorem Likely.langFromParts_isOk {l : Nat} (hl : l ≠ 0) (s r : Nat) (sc rg : Option Bytes) :
    (Likely.langFromParts l s r sc rg).isOk = true := by
  unfold Likely.langFromParts optOf
  have : (l == 0) = false := by simp [hl]
  simp [this, Res.isOk]

theorem Likely.hit1_isOk {a : Array Row1} (ha : ∀ row ∈ a.toList, row.l ≠ 0) (k : Nat)
    (sc rg : Option Bytes) {d : Res (Option Triple)} (hd : d.isOk = true) :
    (match lookup1 a k with
     | some row => Likely.langFromParts row.l row.s row.r sc rg
     | none => d).isOk = true := by
  split
  · rename_i row h
    exact Likely.langFromParts_isOk (ha row (lookupBy_mem h)) _ _ _ _
  · exact hd

theorem Likely.hit2_isOk {a : Array Row2} (ha : ∀ row ∈ a.toList, row.l ≠ 0) (k1 k2 : Nat)
    (sc rg : Option Bytes) {d : Res (Option Triple)} (hd : d.isOk = true) :
    (match lookup2 a k1 k2 with
     | some row => Likely.langFromParts row.l row.s row.r sc rg
     | none => d).isOk = true := by
  split
  · rename_i row h
    exact Likely.langFromParts_isOk (ha row (lookupBy_mem h)) _ _ _ _
  · exact hd

theorem Likely.maximize_isOk {T : Tables} (hT : T.valuesHaveLang) (l : Language) (s r : Option Bytes) :
    (Likely.maximize T l s r).isOk = true := by
  obtain ⟨h1, h2, h3, h4, h5, h6⟩ := hT
  unfold Likely.maximize
  split
  · rfl
  · cases l <;> cases s <;> cases r <;> dsimp only <;>
      repeat (first | rfl | assumption | apply Likely.hit1_isOk | apply Likely.hit2_isOk)

theorem Res.isOk_iff {α} (r : Res α) : r.isOk = true ↔ r ≠ .panic ∧ ∀ e, r ≠ .err e := by
  cases r <;> simp [Res.isOk]

theorem Likely.trial_isOk {T : Tables} (hT : T.valuesHaveLang) (mx : Triple) (s r : Option Bytes) :
    (Likely.trial T mx s r).isOk = true := by
  unfold Likely.trial
  have := Likely.maximize_isOk hT mx.1 s r
  split <;> simp_all [Res.isOk]

theorem Likely.minimize_isOk {T : Tables} (hT : T.valuesHaveLang) (l : Language) (s r : Option Bytes) :
    (Likely.minimize T l s r).isOk = true := by
  unfold Likely.minimize
  dsimp only
  have hmax : (if (l.isSome && s.isSome && r.isSome) = true then Res.ok (some (l, s, r))
      else Likely.maximize T l s r).isOk = true := by
    split
    · rfl
    · exact Likely.maximize_isOk hT l s r
  generalize (if (l.isSome && s.isSome && r.isSome) = true then Res.ok (some (l, s, r))
      else Likely.maximize T l s r) = mr at hmax
  split
  · simp [Res.isOk] at hmax
  · simp [Res.isOk] at hmax
  · rfl
  · rename_i mx
    have t1 := Likely.trial_isOk hT mx none none
    have t2 := Likely.trial_isOk hT mx mx.2.1 none
    have t3 := Likely.trial_isOk hT mx none mx.2.2
    have hs : (if mx.2.1.isSome = true then
          match Likely.trial T mx mx.2.1 none with
          | .err e => Res.err e
          | .panic => Res.panic
          | .ok true => Res.ok (some (mx.1, mx.2.1, none))
          | .ok false => Res.ok none
        else Res.ok none : Res (Option Triple)).isOk = true := by
      split
      · split <;> simp_all [Res.isOk]
      · rfl
    split
    · simp_all [Res.isOk]
    · simp_all [Res.isOk]
    · rfl
    · split
      · split
        · simp_all [Res.isOk]
        · simp_all [Res.isOk]
        · rfl
        · exact hs
      · exact hs

theorem LangId.direction_isOk (flag : Bool) {T : Tables} (hT : T.valuesHaveLang) (L : Layout) (x : LangId) :
    (LangId.direction flag T L x).isOk = true := by
  unfold LangId.direction
  dsimp only
  have hb : (match x.language with
    | some lb =>
      if L.rtlLangs.contains (pack lb) = true then
        if flag = true then
          match Likely.maximize T x.language none x.region with
          | .err e => Res.err e
          | .panic => Res.panic
          | .ok (some (_, some sc, _)) =>
            if L.ltr.contains (pack sc) = true then Res.ok LangId.Dir.ltr else Res.ok LangId.Dir.rtl
          | .ok _ => Res.ok LangId.Dir.rtl
        else Res.ok LangId.Dir.rtl
      else Res.ok LangId.Dir.ltr
    | none => Res.ok LangId.Dir.ltr : Res LangId.Dir).isOk = true := by
    have := Likely.maximize_isOk hT x.language none x.region
    split
    · split
      · split
        · split
          · simp_all [Res.isOk]
          · simp_all [Res.isOk]
          · split <;> rfl
          · rfl
        · rfl
      · rfl
    · rfl
  split
  · split
    · rfl
    · split
      · rfl
      · split
        · rfl
        · exact hb
  · exact hb

/-- `maximize` has no error path at all (for any tables, well-formed or not) -/
theorem Likely.maximize_ne_err (T : Tables) (l : Language) (s r : Option Bytes) (e : Err) :
    Likely.maximize T l s r ≠ .err e := by
  unfold Likely.maximize
  split
  · simp
  · cases l <;> cases s <;> cases r <;> dsimp only <;>
      repeat' (first | exact Likely.langFromParts_ne_err _ _ _ _ _ _ | (simp; done) | split)

theorem Likely.trial_ne_err (T : Tables) (mx : Triple) (s r : Option Bytes) (e : Err) :
    Likely.trial T mx s r ≠ .err e := by
  unfold Likely.trial
  split <;> simp_all [Likely.maximize_ne_err]

theorem Likely.minimize_ne_err (T : Tables) (l : Language) (s r : Option Bytes) (e : Err) :
    Likely.minimize T l s r ≠ .err e := by
  unfold Likely.minimize
  dsimp only
  have hmax : ∀ e', (if (l.isSome && s.isSome && r.isSome) = true then Res.ok (some (l, s, r))
      else Likely.maximize T l s r) ≠ .err e' := by
    intro e'
    split
    · simp
    · exact Likely.maximize_ne_err T l s r e'
  generalize (if (l.isSome && s.isSome && r.isSome) = true then Res.ok (some (l, s, r))
      else Likely.maximize T l s r) = mr at hmax
  repeat' split
  all_goals simp_all [Likely.trial_ne_err]

theorem LangId.direction_ne_err (flag : Bool) (T : Tables) (L : Layout) (x : LangId) (e : Err) :
    LangId.direction flag T L x ≠ .err e := by
  unfold LangId.direction
  dsimp only
  repeat' split
  all_goals simp_all [Likely.maximize_ne_err]

/-! ### mutators and queries: `step` -/

theorem Res.ne_panic_of_isOk {α} {r : Res α} (h : r.isOk = true) : r ≠ .panic := by
  cases r <;> simp_all [Res.isOk]

theorem LangId.applyTriple_ne_panic (x : LangId) {r : Res (Option Triple)} (h : r ≠ .panic) :
    LangId.applyTriple x r ≠ .panic := by
  unfold LangId.applyTriple
  split <;> simp_all

theorem outOfUnit_ne_panic {α} (x : Locale) {r : Res α} (f : α → Locale) (h : r ≠ .panic) :
    (outOfUnit x r f).2 ≠ .panic := by
  unfold outOfUnit; split <;> simp_all
theorem outOfBool_ne_panic {α} (x : Locale) {r : Res (α × Bool)} (f : α → Locale) (h : r ≠ .panic) :
    (outOfBool x r f).2 ≠ .panic := by
  unfold outOfBool; split <;> simp_all
theorem outOfQuery_ne_panic (x : Locale) {r : Res Bool} (h : r ≠ .panic) :
    (outOfQuery x r).2 ≠ .panic := by
  unfold outOfQuery; split <;> simp_all
theorem outOfList_ne_panic (x : Locale) {r : Res (List Bytes)} (h : r ≠ .panic) :
    (outOfList x r).2 ≠ .panic := by
  unfold outOfList; split <;> simp_all

theorem language_ne_panic (v : Bytes) : Language.fromBytes v ≠ .panic :=
  (Res.isPanic_false_iff _).mp (Props.C15.language_no_panic v)
theorem script_ne_panic (v : Bytes) : Script.fromBytes v ≠ .panic :=
  (Res.isPanic_false_iff _).mp (Props.C15.script_no_panic v)
theorem region_ne_panic (v : Bytes) : Region.fromBytes v ≠ .panic :=
  (Res.isPanic_false_iff _).mp (Props.C15.region_no_panic v)
theorem variant_ne_panic (v : Bytes) : Variant.fromBytes v ≠ .panic :=
  (Res.isPanic_false_iff _).mp (Props.C15.variant_no_panic v)

theorem LangId.fromBytes_ne_panic (bs : Bytes) : LangId.fromBytes bs ≠ .panic :=
  Res.map_ne_panic (LangId.parseIter_ne_panic _ _)

theorem UExt.keyword_ne_panic (u : UExt) (k : Bytes) : u.keyword k ≠ .panic :=
  Res.map_ne_panic (parseKey_ne_panic k)
theorem UExt.setKeyword_ne_panic (u : UExt) (k : Bytes) (vs : List Bytes) : u.setKeyword k vs ≠ .panic :=
  Res.bind_ne_panic (parseKey_ne_panic k) fun _ => Res.map_ne_panic (collectTypes_ne_panic parseType_ne_panic vs)
theorem UExt.removeKeyword_ne_panic (u : UExt) (k : Bytes) : u.removeKeyword k ≠ .panic :=
  Res.map_ne_panic (parseKey_ne_panic k)
theorem UExt.hasAttribute_ne_panic (u : UExt) (a : Bytes) : u.hasAttribute a ≠ .panic :=
  Res.map_ne_panic (parseAttribute_ne_panic a)
theorem UExt.setAttribute_ne_panic (u : UExt) (a : Bytes) : u.setAttribute a ≠ .panic :=
  Res.map_ne_panic (parseAttribute_ne_panic a)
theorem UExt.removeAttribute_ne_panic (u : UExt) (a : Bytes) : u.removeAttribute a ≠ .panic :=
  Res.map_ne_panic (parseAttribute_ne_panic a)
theorem TExt.tfield_ne_panic (x : TExt) (k : Bytes) : x.tfield k ≠ .panic :=
  Res.map_ne_panic (parseTKey_ne_panic k)
theorem TExt.setTField_ne_panic (x : TExt) (k : Bytes) (vs : List Bytes) : x.setTField k vs ≠ .panic :=
  Res.bind_ne_panic (parseTKey_ne_panic k) fun _ => Res.map_ne_panic (collectTypes_ne_panic parseTValue_ne_panic vs)
theorem TExt.removeTField_ne_panic (x : TExt) (k : Bytes) : x.removeTField k ≠ .panic :=
  Res.map_ne_panic (parseTKey_ne_panic k)
theorem PExt.hasTag_ne_panic (p : PExt) (t : Bytes) : PExt.hasTag p t ≠ .panic :=
  Res.map_ne_panic (parsePrivate_ne_panic t)
theorem PExt.addTag_ne_panic (p : PExt) (t : Bytes) : PExt.addTag p t ≠ .panic :=
  Res.map_ne_panic (parsePrivate_ne_panic t)
theorem PExt.removeTag_ne_panic (p : PExt) (t : Bytes) : PExt.removeTag p t ≠ .panic :=
  Res.map_ne_panic (parsePrivate_ne_panic t)

/-- the operations that do not consult the tables -/
def _root_.UL.Op.usesTables : Op → Bool
  | .maximize => true
  | .minimize => true
  | _ => false

theorem step_ne_panic_of (T : Tables) (x : Locale) (o : Op)
    (hT : o.usesTables = true → T.valuesHaveLang) : (step T x o).2 ≠ .panic := by
  cases o with
  | setLanguage v => exact outOfUnit_ne_panic _ _ (language_ne_panic v)
  | setScript v =>
    cases v with
    | none => simp [step]
    | some v => exact outOfUnit_ne_panic _ _ (script_ne_panic v)
  | setRegion v =>
    cases v with
    | none => simp [step]
    | some v => exact outOfUnit_ne_panic _ _ (region_ne_panic v)
  | setVariants vs => exact outOfUnit_ne_panic _ _ (collectRes_ne_panic variant_ne_panic vs)
  | clearVariants => simp [step]
  | hasVariant v => exact outOfQuery_ne_panic _ (Res.map_ne_panic (variant_ne_panic v))
  | setKeyword k vs => exact outOfUnit_ne_panic _ _ (UExt.setKeyword_ne_panic _ k vs)
  | removeKeyword k => exact outOfBool_ne_panic _ _ (UExt.removeKeyword_ne_panic _ k)
  | clearKeywords => simp [step]
  | keyword k => exact outOfList_ne_panic _ (UExt.keyword_ne_panic _ k)
  | setAttribute a => exact outOfUnit_ne_panic _ _ (UExt.setAttribute_ne_panic _ a)
  | removeAttribute a => exact outOfBool_ne_panic _ _ (UExt.removeAttribute_ne_panic _ a)
  | clearAttributes => simp [step]
  | hasAttribute a => exact outOfQuery_ne_panic _ (UExt.hasAttribute_ne_panic _ a)
  | setTLang l => exact outOfUnit_ne_panic _ _ (LangId.fromBytes_ne_panic l)
  | clearTLang => simp [step]
  | setTField k vs => exact outOfUnit_ne_panic _ _ (TExt.setTField_ne_panic _ k vs)
  | removeTField k => exact outOfBool_ne_panic _ _ (TExt.removeTField_ne_panic _ k)
  | clearTFields => simp [step]
  | tfield k => exact outOfList_ne_panic _ (TExt.tfield_ne_panic _ k)
  | addTag t => exact outOfUnit_ne_panic _ _ (PExt.addTag_ne_panic _ t)
  | removeTag t => exact outOfBool_ne_panic _ _ (PExt.removeTag_ne_panic _ t)
  | clearTags => simp [step]
  | hasTag t => exact outOfQuery_ne_panic _ (PExt.hasTag_ne_panic _ t)
  | maximize =>
    exact outOfBool_ne_panic _ _ (LangId.applyTriple_ne_panic _
      (Res.ne_panic_of_isOk (Likely.maximize_isOk (hT rfl) _ _ _)))
  | minimize =>
    exact outOfBool_ne_panic _ _ (LangId.applyTriple_ne_panic _
      (Res.ne_panic_of_isOk (Likely.minimize_isOk (hT rfl) _ _ _)))

/-! ### hand-made tables for the non-vacuity examples -/

/-- a small well-formed table set: `en`/`und` → en-Latn-US in every table -/
def tinyTables : Tables where
  langOnly := #[⟨28261, 28262, 1853120845, 21334⟩, ⟨6581877, 28262, 1853120845, 21334⟩]
  langRegion := #[⟨28261, 21333, 28262, 1853120845, 21334⟩]
  langScript := #[⟨28261, 1853120844, 28262, 1853120845, 21334⟩]
  scriptRegion := #[⟨1853120844, 21333, 28262, 1853120845, 21334⟩]
  scriptOnly := #[⟨1853120844, 28262, 1853120845, 21334⟩]
  regionOnly := #[⟨21333, 28262, 1853120845, 21334⟩]

/-- an ill-formed one: the value of `en` has no language (encoded `0`) -/
def badTables : Tables := { tinyTables with langOnly := #[⟨28261, 0, 1853120845, 21334⟩] }

def tinyLayout : Layout := ⟨[1853120844], [1650553409], [1735290701], [29281]⟩

end UL.Tot
