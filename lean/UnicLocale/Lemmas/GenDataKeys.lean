/-
  Lemmas/GenDataKeys.lean — data facts about the CLDR association list itself (kernel-decided over
  all 8,219 entries): it is strictly increasing in (language, script, region) — hence no key occurs
  twice — and no key spells the language as the text "und".
-/
import UnicLocale.Lemmas.TablesAssoc
import UnicLocale.Gen.Cldr

namespace UL.Gen

theorem cldr_keysSorted : Spec.keysSorted cldr = true := by
  unfold cldr
  try simp only [List.append_assoc]
  decide +kernel

theorem cldr_keysDistinct : Spec.KeysDistinct cldr := Spec.keysDistinct_of_sorted cldr_keysSorted

theorem cldr_noUnd_chk : cldr.all (fun e => !Nat.beq e.kl Spec.undInt) = true := by
  unfold cldr
  try simp only [List.append_assoc]
  decide +kernel

theorem cldr_noUnd : ∀ e ∈ cldr, e.kl ≠ Spec.undInt := by
  intro e he h
  have := List.all_eq_true.1 cldr_noUnd_chk e he
  rw [h] at this
  exact absurd this (by decide)

end UL.Gen
