/-
  Lemmas/Order.lean — the lexicographic order on byte strings, insertion sort, `dedup`,
  the sorted-set representation, the key-sorted association list, and the contract of the
  toolchain's size-halving binary search on sorted lists.
-/
import UnicLocale.Model.Ext
import UnicLocale.Spec.Locale
namespace UL

/-! ### `bLt` is a strict total order -/

theorem bLt_cons_cons {a b : Nat} {s t : Bytes} :
    bLt (a :: s) (b :: t) = true ↔ a < b ∨ (a = b ∧ bLt s t = true) := by
  simp [bLt]

theorem bLt_irrefl (a : Bytes) : bLt a a = false := by
  induction a with
  | nil => rfl
  | cons x xs ih => simp [bLt, ih]

theorem bLt_trans {a b c : Bytes} (h1 : bLt a b = true) (h2 : bLt b c = true) : bLt a c = true := by
  induction a generalizing b c with
  | nil =>
    cases b with
    | nil => simp [bLt] at h1
    | cons y ys => cases c with
      | nil => simp [bLt] at h2
      | cons z zs => rfl
  | cons x xs ih =>
    cases b with
    | nil => simp [bLt] at h1
    | cons y ys =>
      cases c with
      | nil => simp [bLt] at h2
      | cons z zs =>
        rw [bLt_cons_cons] at h1 h2 ⊢
        rcases h1 with h1 | ⟨e1, h1⟩ <;> rcases h2 with h2 | ⟨e2, h2⟩
        · left; omega
        · left; omega
        · left; omega
        · right; exact ⟨by omega, ih h1 h2⟩

theorem bLt_asymm {a b : Bytes} (h : bLt a b = true) : bLt b a = false := by
  cases hb : bLt b a with
  | false => rfl
  | true =>
    have := bLt_trans h hb
    rw [bLt_irrefl] at this
    cases this

theorem bLt_trichotomy (a b : Bytes) : bLt a b = true ∨ a = b ∨ bLt b a = true := by
  induction a generalizing b with
  | nil => cases b with
    | nil => right; left; rfl
    | cons y ys => left; rfl
  | cons x xs ih =>
    cases b with
    | nil => right; right; rfl
    | cons y ys =>
      simp only [bLt_cons_cons, List.cons.injEq]
      rcases Nat.lt_trichotomy x y with h | h | h
      · left; left; exact h
      · rcases ih ys with h' | h' | h'
        · left; right; exact ⟨h, h'⟩
        · right; left; exact ⟨h, h'⟩
        · right; right; right; exact ⟨h.symm, h'⟩
      · right; right; left; exact h

theorem bLe_iff {a b : Bytes} : bLe a b = true ↔ (a = b ∨ bLt a b = true) := by
  simp [bLe]

theorem bLe_refl (a : Bytes) : bLe a a = true := bLe_iff.2 (Or.inl rfl)

theorem bLe_of_bLt {a b : Bytes} (h : bLt a b = true) : bLe a b = true := bLe_iff.2 (Or.inr h)

theorem bLe_total (a b : Bytes) : bLe a b = true ∨ bLe b a = true := by
  rcases bLt_trichotomy a b with h | h | h
  · left; exact bLe_of_bLt h
  · left; exact bLe_iff.2 (Or.inl h)
  · right; exact bLe_of_bLt h

theorem bLt_of_not_bLe {a b : Bytes} (h : bLe a b = false) : bLt b a = true := by
  rcases bLt_trichotomy a b with h' | h' | h'
  · rw [bLe_of_bLt h'] at h; cases h
  · rw [bLe_iff.2 (Or.inl h')] at h; cases h
  · exact h'

theorem bLe_trans {a b c : Bytes} (h1 : bLe a b = true) (h2 : bLe b c = true) : bLe a c = true := by
  rw [bLe_iff] at *
  rcases h1 with rfl | h1
  · exact h2
  · rcases h2 with rfl | h2
    · exact Or.inr h1
    · exact Or.inr (bLt_trans h1 h2)

theorem bLe_antisymm {a b : Bytes} (h1 : bLe a b = true) (h2 : bLe b a = true) : a = b := by
  rw [bLe_iff] at *
  rcases h1 with h1 | h1
  · exact h1
  · rcases h2 with h2 | h2
    · exact h2.symm
    · rw [bLt_asymm h1] at h2; cases h2

theorem bLt_of_bLt_of_bLe {a b c : Bytes} (h1 : bLt a b = true) (h2 : bLe b c = true) : bLt a c = true := by
  rcases bLe_iff.1 h2 with rfl | h2
  · exact h1
  · exact bLt_trans h1 h2

theorem bLt_of_bLe_of_bLt {a b c : Bytes} (h1 : bLe a b = true) (h2 : bLt b c = true) : bLt a c = true := by
  rcases bLe_iff.1 h1 with rfl | h1
  · exact h2
  · exact bLt_trans h1 h2

theorem bLe_eq_not_bLt (a b : Bytes) : bLe a b = !bLt b a := by
  cases h : bLe a b with
  | true =>
    rcases bLe_iff.1 h with rfl | h'
    · simp [bLt_irrefl]
    · simp [bLt_asymm h']
  | false => simp [bLt_of_not_bLe h]

theorem bLt_eq_not_bLe (a b : Bytes) : bLt a b = !bLe b a := by
  rw [bLe_eq_not_bLt]; simp

theorem bLt_ne {a b : Bytes} (h : bLt a b = true) : a ≠ b := by
  rintro rfl; rw [bLt_irrefl] at h; cases h

/-! ### sortedness predicates -/

theorem strictSorted_iff_pairwise {l : List Bytes} :
    strictSorted l = true ↔ l.Pairwise (fun a b => bLt a b = true) := by
  induction l with
  | nil => simp [strictSorted]
  | cons x xs ih =>
    cases xs with
    | nil => simp [strictSorted]
    | cons y r =>
      rw [strictSorted, Bool.and_eq_true, ih, List.pairwise_cons (a := x)]
      constructor
      · rintro ⟨hxy, hp⟩
        refine ⟨?_, hp⟩
        intro z hz
        rcases List.mem_cons.1 hz with rfl | hz
        · exact hxy
        · exact bLt_trans hxy ((List.pairwise_cons.1 hp).1 z hz)
      · rintro ⟨h, hp⟩
        exact ⟨h y (List.mem_cons_self ..), hp⟩

theorem weakSorted_iff_pairwise {l : List Bytes} :
    weakSorted l = true ↔ l.Pairwise (fun a b => bLe a b = true) := by
  induction l with
  | nil => simp [weakSorted]
  | cons x xs ih =>
    cases xs with
    | nil => simp [weakSorted]
    | cons y r =>
      rw [weakSorted, Bool.and_eq_true, ih, List.pairwise_cons (a := x)]
      constructor
      · rintro ⟨hxy, hp⟩
        refine ⟨?_, hp⟩
        intro z hz
        rcases List.mem_cons.1 hz with rfl | hz
        · exact hxy
        · exact bLe_trans hxy ((List.pairwise_cons.1 hp).1 z hz)
      · rintro ⟨h, hp⟩
        exact ⟨h y (List.mem_cons_self ..), hp⟩

theorem strictSorted_cons {x : Bytes} {l : List Bytes} :
    strictSorted (x :: l) = true ↔ (∀ y ∈ l, bLt x y = true) ∧ strictSorted l = true := by
  rw [strictSorted_iff_pairwise, strictSorted_iff_pairwise, List.pairwise_cons]
theorem weakSorted_cons {x : Bytes} {l : List Bytes} :
    weakSorted (x :: l) = true ↔ (∀ y ∈ l, bLe x y = true) ∧ weakSorted l = true := by
  rw [weakSorted_iff_pairwise, weakSorted_iff_pairwise, List.pairwise_cons]
theorem weakSorted_of_strictSorted {l : List Bytes} (h : strictSorted l = true) : weakSorted l = true := by
  rw [strictSorted_iff_pairwise] at h
  rw [weakSorted_iff_pairwise]
  exact h.imp (fun h => bLe_of_bLt h)
theorem strictSorted_nodup {l : List Bytes} (h : strictSorted l = true) : l.Nodup := by
  rw [strictSorted_iff_pairwise] at h
  exact h.imp (fun h => bLt_ne h)

theorem strictSorted_ext {l₁ l₂ : List Bytes} (h1 : strictSorted l₁ = true) (h2 : strictSorted l₂ = true)
    (h : ∀ x, x ∈ l₁ ↔ x ∈ l₂) : l₁ = l₂ := by
  induction l₁ generalizing l₂ with
  | nil =>
    cases l₂ with
    | nil => rfl
    | cons y ys => exact absurd ((h y).2 (List.mem_cons_self ..)) (List.not_mem_nil)
  | cons x xs ih =>
    cases l₂ with
    | nil => exact absurd ((h x).1 (List.mem_cons_self ..)) (List.not_mem_nil)
    | cons y ys =>
      rw [strictSorted_cons] at h1 h2
      have hxy : x = y := by
        rcases List.mem_cons.1 ((h x).1 (List.mem_cons_self ..)) with e | hx
        · exact e
        · rcases List.mem_cons.1 ((h y).2 (List.mem_cons_self ..)) with e | hy
          · exact e.symm
          · have := bLt_asymm (h1.1 y hy)
            rw [h2.1 x hx] at this; cases this
      subst hxy
      congr 1
      apply ih h1.2 h2.2
      intro z
      constructor
      · intro hz
        rcases List.mem_cons.1 ((h z).1 (List.mem_cons_of_mem _ hz)) with e | hz'
        · subst e
          have := h1.1 z hz
          rw [bLt_irrefl] at this; cases this
        · exact hz'
      · intro hz
        rcases List.mem_cons.1 ((h z).2 (List.mem_cons_of_mem _ hz)) with e | hz'
        · subst e
          have := h2.1 z hz
          rw [bLt_irrefl] at this; cases this
        · exact hz'

theorem weakSorted_perm_unique {l₁ l₂ : List Bytes} (h1 : weakSorted l₁ = true) (h2 : weakSorted l₂ = true)
    (h : l₁.Perm l₂) : l₁ = l₂ := by
  induction l₁ generalizing l₂ with
  | nil => exact (List.Perm.nil_eq h)
  | cons x xs ih =>
    cases l₂ with
    | nil => exact absurd h.length_eq (by simp)
    | cons y ys =>
      rw [weakSorted_cons] at h1 h2
      have hxy : x = y := by
        rcases List.mem_cons.1 (h.mem_iff.1 (List.mem_cons_self ..)) with e | hx
        · exact e
        · rcases List.mem_cons.1 (h.mem_iff.2 (List.mem_cons_self ..)) with e | hy
          · exact e.symm
          · exact bLe_antisymm (h1.1 y hy) (h2.1 x hx)
      subst hxy
      congr 1
      exact ih h1.2 h2.2 ((List.perm_cons x).1 h)

/-! ### insertion sort (the model of `sort_unstable`) and `dedup` -/

theorem perm_insertSorted (x : Bytes) (l : List Bytes) : (insertSorted x l).Perm (x :: l) := by
  induction l with
  | nil => exact List.Perm.refl _
  | cons y ys ih =>
    unfold insertSorted
    split
    · exact List.Perm.refl _
    · exact (List.Perm.cons y ih).trans (List.Perm.swap x y ys)

theorem perm_sortBytes (l : List Bytes) : (sortBytes l).Perm l := by
  induction l with
  | nil => exact List.Perm.refl _
  | cons x xs ih =>
    unfold sortBytes
    exact (perm_insertSorted x _).trans (List.Perm.cons x ih)

theorem mem_sortBytes {x : Bytes} {l : List Bytes} : x ∈ sortBytes l ↔ x ∈ l :=
  (perm_sortBytes l).mem_iff

theorem length_sortBytes (l : List Bytes) : (sortBytes l).length = l.length :=
  (perm_sortBytes l).length_eq

theorem mem_insertSorted {x z : Bytes} {l : List Bytes} : z ∈ insertSorted x l ↔ z = x ∨ z ∈ l := by
  rw [(perm_insertSorted x l).mem_iff, List.mem_cons]

theorem weakSorted_insertSorted {x : Bytes} {l : List Bytes} (h : weakSorted l = true) :
    weakSorted (insertSorted x l) = true := by
  induction l with
  | nil => simp [insertSorted, weakSorted]
  | cons y ys ih =>
    rw [weakSorted_cons] at h
    unfold insertSorted
    split
    · rename_i hxy
      rw [weakSorted_cons]
      refine ⟨?_, weakSorted_cons.2 h⟩
      intro z hz
      rcases List.mem_cons.1 hz with rfl | hz
      · exact hxy
      · exact bLe_trans hxy (h.1 z hz)
    · rename_i hxy
      rw [weakSorted_cons]
      refine ⟨?_, ih h.2⟩
      intro z hz
      rcases mem_insertSorted.1 hz with rfl | hz
      · have : bLe z y = false := by simpa using hxy
        exact bLe_of_bLt (bLt_of_not_bLe this)
      · exact h.1 z hz

theorem weakSorted_sortBytes (l : List Bytes) : weakSorted (sortBytes l) = true := by
  induction l with
  | nil => rfl
  | cons x xs ih => unfold sortBytes; exact weakSorted_insertSorted ih

theorem sortBytes_perm_congr {l₁ l₂ : List Bytes} (h : l₁.Perm l₂) : sortBytes l₁ = sortBytes l₂ :=
  weakSorted_perm_unique (weakSorted_sortBytes _) (weakSorted_sortBytes _)
    ((perm_sortBytes l₁).trans (h.trans (perm_sortBytes l₂).symm))

theorem sortBytes_of_weakSorted {l : List Bytes} (h : weakSorted l = true) : sortBytes l = l :=
  weakSorted_perm_unique (weakSorted_sortBytes _) h (perm_sortBytes l)

theorem sortBytes_idem (l : List Bytes) : sortBytes (sortBytes l) = sortBytes l :=
  sortBytes_of_weakSorted (weakSorted_sortBytes l)

theorem mem_dedupAdj {x : Bytes} {l : List Bytes} : x ∈ dedupAdj l ↔ x ∈ l := by
  fun_induction dedupAdj l with
  | case1 => simp
  | case2 y => simp
  | case3 a b r hab ih =>
    have : a = b := by simpa using hab
    subst this
    rw [ih]; simp
  | case4 a b r hab ih =>
    rw [List.mem_cons, ih, List.mem_cons (a := x) (b := a)]

theorem dedupAdj_sublist (l : List Bytes) : (dedupAdj l).Sublist l := by
  fun_induction dedupAdj l with
  | case1 => exact List.Sublist.refl _
  | case2 y => exact List.Sublist.refl _
  | case3 a b r hab ih => exact List.Sublist.cons _ ih
  | case4 a b r hab ih => exact List.Sublist.cons_cons _ ih

theorem strictSorted_dedupAdj {l : List Bytes} (h : weakSorted l = true) : strictSorted (dedupAdj l) = true := by
  fun_induction dedupAdj l with
  | case1 => rfl
  | case2 y => rfl
  | case3 a b r hab ih => exact ih (weakSorted_cons.1 h).2
  | case4 a b r hab ih =>
    rw [weakSorted_cons] at h
    rw [strictSorted_cons]
    refine ⟨?_, ih h.2⟩
    intro z hz
    rw [mem_dedupAdj] at hz
    have hab' : a ≠ b := by simpa using hab
    have hlt : bLt a b = true := by
      rcases bLe_iff.1 (h.1 b (List.mem_cons_self ..)) with e | e
      · exact absurd e hab'
      · exact e
    rcases List.mem_cons.1 hz with rfl | hz'
    · exact hlt
    · exact bLt_of_bLt_of_bLe hlt ((weakSorted_cons.1 h.2).1 z hz')

theorem dedupAdj_of_strictSorted {l : List Bytes} (h : strictSorted l = true) : dedupAdj l = l := by
  fun_induction dedupAdj l with
  | case1 => rfl
  | case2 y => rfl
  | case3 a b r hab ih =>
    have : a = b := by simpa using hab
    subst this
    have := (strictSorted_cons.1 h).1 a (List.mem_cons_self ..)
    rw [bLt_irrefl] at this; cases this
  | case4 a b r hab ih =>
    rw [ih (strictSorted_cons.1 h).2]

theorem strictSorted_dedup_sort (l : List Bytes) : strictSorted (dedupAdj (sortBytes l)) = true :=
  strictSorted_dedupAdj (weakSorted_sortBytes l)

theorem mem_dedup_sort {x : Bytes} {l : List Bytes} : x ∈ dedupAdj (sortBytes l) ↔ x ∈ l := by
  rw [mem_dedupAdj, mem_sortBytes]

theorem dedup_sort_congr {l₁ l₂ : List Bytes} (h : ∀ x, x ∈ l₁ ↔ x ∈ l₂) :
    dedupAdj (sortBytes l₁) = dedupAdj (sortBytes l₂) :=
  strictSorted_ext (strictSorted_dedup_sort _) (strictSorted_dedup_sort _)
    (fun x => by rw [mem_dedup_sort, mem_dedup_sort]; exact h x)

theorem dedup_sort_of_strictSorted {l : List Bytes} (h : strictSorted l = true) :
    dedupAdj (sortBytes l) = l := by
  rw [sortBytes_of_weakSorted (weakSorted_of_strictSorted h), dedupAdj_of_strictSorted h]

/-! ### the spec's set / multiset representations agree with sort + dedup -/

theorem mem_insertSet {x z : Bytes} {l : List Bytes} : z ∈ Spec.insertSet x l ↔ z = x ∨ z ∈ l := by
  induction l with
  | nil => simp [Spec.insertSet]
  | cons y ys ih =>
    unfold Spec.insertSet
    split
    · rename_i hxy
      have : x = y := by simpa using hxy
      subst this
      simp
    · split
      · simp
      · rw [List.mem_cons, ih, List.mem_cons]
        constructor
        · rintro (h | h | h)
          · exact Or.inr (Or.inl h)
          · exact Or.inl h
          · exact Or.inr (Or.inr h)
        · rintro (h | h | h)
          · exact Or.inr (Or.inl h)
          · exact Or.inl h
          · exact Or.inr (Or.inr h)

theorem strictSorted_insertSet {x : Bytes} {l : List Bytes} (h : strictSorted l = true) :
    strictSorted (Spec.insertSet x l) = true := by
  induction l with
  | nil => simp [Spec.insertSet, strictSorted]
  | cons y ys ih =>
    have h' := strictSorted_cons.1 h
    unfold Spec.insertSet
    split
    · exact h
    · rename_i hne
      have hne' : x ≠ y := by simpa using hne
      split
      · rename_i hlt
        rw [strictSorted_cons]
        refine ⟨?_, h⟩
        intro z hz
        rcases List.mem_cons.1 hz with rfl | hz
        · exact hlt
        · exact bLt_trans hlt (h'.1 z hz)
      · rename_i hnlt
        rw [strictSorted_cons]
        refine ⟨?_, ih h'.2⟩
        intro z hz
        rcases mem_insertSet.1 hz with rfl | hz
        · rcases bLt_trichotomy z y with e | e | e
          · exact absurd e hnlt
          · exact absurd e hne'
          · exact e
        · exact h'.1 z hz

theorem mem_toSet {x : Bytes} {l : List Bytes} : x ∈ Spec.toSet l ↔ x ∈ l := by
  induction l with
  | nil => simp [Spec.toSet]
  | cons y ys ih =>
    show x ∈ Spec.insertSet y (Spec.toSet ys) ↔ _
    rw [mem_insertSet, ih, List.mem_cons]

theorem strictSorted_toSet (l : List Bytes) : strictSorted (Spec.toSet l) = true := by
  induction l with
  | nil => rfl
  | cons y ys ih =>
    show strictSorted (Spec.insertSet y (Spec.toSet ys)) = true
    exact strictSorted_insertSet ih

theorem dedup_sort_eq_toSet (l : List Bytes) : dedupAdj (sortBytes l) = Spec.toSet l :=
  strictSorted_ext (strictSorted_dedup_sort _) (strictSorted_toSet _)
    (fun x => by rw [mem_dedup_sort, mem_toSet])

theorem insertSorted_eq_sortInsert (x : Bytes) (l : List Bytes) : insertSorted x l = Spec.sortInsert x l := by
  induction l with
  | nil => rfl
  | cons y ys ih =>
    unfold insertSorted Spec.sortInsert
    rw [bLe_eq_not_bLt, ih]
    cases bLt y x <;> simp

theorem sortBytes_eq_sortMulti (l : List Bytes) : sortBytes l = Spec.sortMulti l := by
  induction l with
  | nil => rfl
  | cons y ys ih =>
    show insertSorted y (sortBytes ys) = Spec.sortInsert y (Spec.sortMulti ys)
    rw [ih, insertSorted_eq_sortInsert]

theorem hasDup_false_iff_nodup (l : List Bytes) : Spec.hasDup l = false ↔ l.Nodup := by
  induction l with
  | nil => simp [Spec.hasDup]
  | cons x xs ih =>
    rw [Spec.hasDup, Bool.or_eq_false_iff, ih, List.nodup_cons]
    simp

/-! ### key-sorted association lists (`BTreeMap` by contract) -/

def AMap.sortedKeys (m : AMap) : Bool := strictSorted (AMap.keys m)

@[simp] theorem AMap.keys_nil : AMap.keys ([] : AMap) = [] := rfl
@[simp] theorem AMap.keys_cons (k : Bytes) (v : List Bytes) (m : AMap) :
    AMap.keys ((k, v) :: m) = k :: AMap.keys m := rfl

theorem AMap.sortedKeys_cons {k : Bytes} {v : List Bytes} {m : AMap} :
    AMap.sortedKeys ((k, v) :: m) = true ↔ (∀ y ∈ AMap.keys m, bLt k y = true) ∧ AMap.sortedKeys m = true := by
  unfold AMap.sortedKeys
  rw [AMap.keys_cons, strictSorted_cons]

theorem AMap.insert_eq_mapInsert (k : Bytes) (v : List Bytes) (m : AMap) :
    AMap.insert k v m = Spec.mapInsert k v m := by
  induction m with
  | nil => rfl
  | cons p m ih =>
    obtain ⟨k', v'⟩ := p
    unfold AMap.insert Spec.mapInsert
    rw [ih]

theorem AMap.keys_insert_mem {k x : Bytes} {v : List Bytes} {m : AMap} :
    x ∈ AMap.keys (AMap.insert k v m) ↔ x = k ∨ x ∈ AMap.keys m := by
  induction m with
  | nil => simp [AMap.insert]
  | cons p m ih =>
    obtain ⟨k', v'⟩ := p
    unfold AMap.insert
    split
    · rename_i hk
      have : k = k' := by simpa using hk
      subst this
      simp
    · split
      · simp
      · rw [AMap.keys_cons, List.mem_cons, ih, AMap.keys_cons, List.mem_cons]
        constructor
        · rintro (h | h | h)
          · exact Or.inr (Or.inl h)
          · exact Or.inl h
          · exact Or.inr (Or.inr h)
        · rintro (h | h | h)
          · exact Or.inr (Or.inl h)
          · exact Or.inl h
          · exact Or.inr (Or.inr h)

theorem AMap.sortedKeys_insert {k : Bytes} {v : List Bytes} {m : AMap} (h : AMap.sortedKeys m = true) :
    AMap.sortedKeys (AMap.insert k v m) = true := by
  induction m with
  | nil => rfl
  | cons p m ih =>
    obtain ⟨k', v'⟩ := p
    have h' := AMap.sortedKeys_cons.1 h
    unfold AMap.insert
    split
    · rename_i hk
      have : k = k' := by simpa using hk
      subst this
      exact AMap.sortedKeys_cons.2 h'
    · rename_i hne
      have hne' : k ≠ k' := by simpa using hne
      split
      · rename_i hlt
        rw [AMap.sortedKeys_cons]
        refine ⟨?_, h⟩
        intro z hz
        rw [AMap.keys_cons] at hz
        rcases List.mem_cons.1 hz with rfl | hz
        · exact hlt
        · exact bLt_trans hlt (h'.1 z hz)
      · rename_i hnlt
        rw [AMap.sortedKeys_cons]
        refine ⟨?_, ih h'.2⟩
        intro z hz
        rcases AMap.keys_insert_mem.1 hz with rfl | hz
        · rcases bLt_trichotomy z k' with e | e | e
          · exact absurd e hnlt
          · exact absurd e hne'
          · exact e
        · exact h'.1 z hz

theorem AMap.keys_remove_sublist (k : Bytes) (m : AMap) :
    (AMap.keys (AMap.remove k m)).Sublist (AMap.keys m) := by
  induction m with
  | nil => exact List.Sublist.refl _
  | cons p m ih =>
    obtain ⟨k', v'⟩ := p
    unfold AMap.remove
    split
    · exact List.Sublist.cons _ (List.Sublist.refl _)
    · exact List.Sublist.cons_cons _ ih

theorem AMap.sortedKeys_remove {k : Bytes} {m : AMap} (h : AMap.sortedKeys m = true) :
    AMap.sortedKeys (AMap.remove k m) = true := by
  unfold AMap.sortedKeys at *
  rw [strictSorted_iff_pairwise] at *
  exact h.sublist (AMap.keys_remove_sublist k m)

theorem AMap.get_insert (k k' : Bytes) (v : List Bytes) (m : AMap) :
    AMap.get k' (AMap.insert k v m) = if k' = k then some v else AMap.get k' m := by
  induction m with
  | nil =>
    simp [AMap.insert, AMap.get]
  | cons p m ih =>
    obtain ⟨k₀, v₀⟩ := p
    unfold AMap.insert
    split
    · rename_i hk
      have : k = k₀ := by simpa using hk
      subst this
      by_cases hk' : k' = k <;> simp [AMap.get, hk']
    · rename_i hne
      have hne' : k ≠ k₀ := by simpa using hne
      split
      · simp [AMap.get]
      · simp only [AMap.get, ih]
        by_cases h0 : k' = k₀
        · subst h0
          have : ¬ k' = k := fun e => hne' e.symm
          simp [this]
        · simp [h0]

theorem AMap.get_eq_none_of_not_mem {k : Bytes} {m : AMap} (h : k ∉ AMap.keys m) : AMap.get k m = none := by
  induction m with
  | nil => rfl
  | cons p m ih =>
    obtain ⟨k₀, v₀⟩ := p
    rw [AMap.keys_cons, List.mem_cons, not_or] at h
    simp [AMap.get, h.1, ih h.2]

theorem AMap.get_isSome_iff_mem_keys {k : Bytes} {m : AMap} :
    (AMap.get k m).isSome = true ↔ k ∈ AMap.keys m := by
  induction m with
  | nil => simp [AMap.get]
  | cons p m ih =>
    obtain ⟨k₀, v₀⟩ := p
    rw [AMap.keys_cons, List.mem_cons]
    by_cases h0 : k = k₀
    · simp [AMap.get, h0]
    · simp [AMap.get, h0, ih]

theorem AMap.get_remove {k k' : Bytes} {m : AMap} (h : AMap.sortedKeys m = true) :
    AMap.get k' (AMap.remove k m) = if k' = k then none else AMap.get k' m := by
  induction m with
  | nil => simp [AMap.remove, AMap.get]
  | cons p m ih =>
    obtain ⟨k₀, v₀⟩ := p
    have h' := AMap.sortedKeys_cons.1 h
    unfold AMap.remove
    split
    · rename_i hk
      have : k = k₀ := by simpa using hk
      subst this
      by_cases hk' : k' = k
      · subst hk'
        simp only [if_true]
        apply AMap.get_eq_none_of_not_mem
        intro hm
        have := h'.1 k' hm
        rw [bLt_irrefl] at this; cases this
      · simp [AMap.get, hk']
    · rename_i hne
      have hne' : k ≠ k₀ := by simpa using hne
      simp only [AMap.get, ih h'.2]
      by_cases h0 : k' = k₀
      · subst h0
        have : ¬ k' = k := fun e => hne' e.symm
        simp [this]
      · simp [h0]

theorem AMap.ext {m₁ m₂ : AMap} (h1 : AMap.sortedKeys m₁ = true) (h2 : AMap.sortedKeys m₂ = true)
    (h : ∀ k, AMap.get k m₁ = AMap.get k m₂) : m₁ = m₂ := by
  induction m₁ generalizing m₂ with
  | nil =>
    cases m₂ with
    | nil => rfl
    | cons q m₂ =>
      obtain ⟨k₂, v₂⟩ := q
      have := h k₂
      simp [AMap.get] at this
  | cons p m₁ ih =>
    obtain ⟨k₁, v₁⟩ := p
    cases m₂ with
    | nil =>
      have := h k₁
      simp [AMap.get] at this
    | cons q m₂ =>
      obtain ⟨k₂, v₂⟩ := q
      have h1' := AMap.sortedKeys_cons.1 h1
      have h2' := AMap.sortedKeys_cons.1 h2
      have nm1 : k₁ ∉ AMap.keys m₁ := fun hm => by
        have := h1'.1 k₁ hm
        rw [bLt_irrefl] at this; cases this
      have nm2 : k₂ ∉ AMap.keys m₂ := fun hm => by
        have := h2'.1 k₂ hm
        rw [bLt_irrefl] at this; cases this
      have hk : k₁ = k₂ := by
        rcases bLt_trichotomy k₁ k₂ with e | e | e
        · exfalso
          have hne : k₁ ≠ k₂ := bLt_ne e
          have hnm : k₁ ∉ AMap.keys m₂ := fun hm => by
            have := bLt_asymm (h2'.1 k₁ hm)
            rw [e] at this; cases this
          have := h k₁
          simp [AMap.get, hne, AMap.get_eq_none_of_not_mem hnm] at this
        · exact e
        · exfalso
          have hne : k₂ ≠ k₁ := bLt_ne e
          have hnm : k₂ ∉ AMap.keys m₁ := fun hm => by
            have := bLt_asymm (h1'.1 k₂ hm)
            rw [e] at this; cases this
          have := h k₂
          simp [AMap.get, hne, AMap.get_eq_none_of_not_mem hnm] at this
      subst hk
      have hv : v₁ = v₂ := by
        have := h k₁
        simpa [AMap.get] using this
      subst hv
      congr 1
      apply ih h1'.2 h2'.2
      intro k
      by_cases hkk : k = k₁
      · subst hkk
        rw [AMap.get_eq_none_of_not_mem nm1, AMap.get_eq_none_of_not_mem nm2]
      · have := h k
        simpa [AMap.get, hkk] using this

theorem AMap.insert_append_of_lt {k : Bytes} {v : List Bytes} {acc : AMap}
    (h : ∀ y ∈ AMap.keys acc, bLt y k = true) : AMap.insert k v acc = acc ++ [(k, v)] := by
  induction acc with
  | nil => rfl
  | cons p acc ih =>
    obtain ⟨k₀, v₀⟩ := p
    have h0 : bLt k₀ k = true := h k₀ (by simp)
    have hne : k ≠ k₀ := (bLt_ne h0).symm
    have hnlt : bLt k k₀ = false := bLt_asymm h0
    unfold AMap.insert
    simp only [beq_iff_eq, hne, if_false, hnlt, Bool.false_eq_true, List.cons_append]
    rw [ih (fun y hy => h y (by simp [hy]))]

theorem AMap.foldl_insert_aux (rest acc : AMap) (h : AMap.sortedKeys (acc ++ rest) = true) :
    rest.foldl (fun acc kv => AMap.insert kv.1 kv.2 acc) acc = acc ++ rest := by
  induction rest generalizing acc with
  | nil => simp
  | cons p rest ih =>
    obtain ⟨k, v⟩ := p
    rw [List.foldl_cons]
    have hlt : ∀ y ∈ AMap.keys acc, bLt y k = true := by
      unfold AMap.sortedKeys AMap.keys at h
      rw [strictSorted_iff_pairwise, List.map_append, List.pairwise_append] at h
      intro y hy
      exact h.2.2 y hy k (by simp)
    show List.foldl _ (AMap.insert k v acc) rest = _
    rw [AMap.insert_append_of_lt hlt, ih]
    · simp
    · simpa using h

theorem AMap.foldl_insert_of_sorted {m : AMap} (h : AMap.sortedKeys m = true) :
    m.foldl (fun acc kv => AMap.insert kv.1 kv.2 acc) [] = m := by
  have := AMap.foldl_insert_aux m [] (by simpa using h)
  simpa using this

theorem AMap.insert_comm {k₁ k₂ : Bytes} {v₁ v₂ : List Bytes} {m : AMap} (hne : k₁ ≠ k₂)
    (h : AMap.sortedKeys m = true) :
    AMap.insert k₁ v₁ (AMap.insert k₂ v₂ m) = AMap.insert k₂ v₂ (AMap.insert k₁ v₁ m) := by
  apply AMap.ext (AMap.sortedKeys_insert (AMap.sortedKeys_insert h))
    (AMap.sortedKeys_insert (AMap.sortedKeys_insert h))
  intro k
  simp only [AMap.get_insert]
  by_cases e1 : k = k₁
  · subst e1
    simp [hne]
  · simp [e1]

/-! ### binary search (size-halving loop) on sorted lists -/

theorem cmpBytes_eq_two {k x : Bytes} : (cmpBytes k x == 2) = true ↔ bLt k x = true := by
  unfold cmpBytes
  by_cases h1 : x = k
  · subst h1; simp [bLt_irrefl]
  · by_cases h2 : bLt x k = true
    · simp [h1, h2, bLt_asymm h2]
    · rcases bLt_trichotomy x k with e | e | e
      · exact absurd e h2
      · exact absurd e h1
      · simp [h1, h2, e]

theorem cmpBytes_eq_one {k x : Bytes} : (cmpBytes k x == 1) = true ↔ x = k := by
  unfold cmpBytes
  by_cases h1 : x = k
  · simp [h1]
  · by_cases h2 : bLt x k = true <;> simp [h1, h2]

theorem cmpBytes_eq_zero {k x : Bytes} : (cmpBytes k x == 0) = true ↔ bLt x k = true := by
  unfold cmpBytes
  by_cases h1 : x = k
  · subst h1; simp [bLt_irrefl]
  · by_cases h2 : bLt x k = true <;> simp [h1, h2]

theorem weakSorted_getElem? {a : List Bytes} (hs : weakSorted a = true) {i j : Nat} {x y : Bytes}
    (hij : i ≤ j) (hi : a[i]? = some x) (hj : a[j]? = some y) : bLe x y = true := by
  rcases Nat.lt_or_eq_of_le hij with hlt | rfl
  · rw [weakSorted_iff_pairwise, List.pairwise_iff_getElem] at hs
    obtain ⟨hi', rfl⟩ := List.getElem?_eq_some_iff.1 hi
    obtain ⟨hj', rfl⟩ := List.getElem?_eq_some_iff.1 hj
    exact hs i j hi' hj' hlt
  · rw [hi] at hj
    cases hj
    exact bLe_refl _

/-- the loop invariant of the size-halving binary search, and what it gives at exit -/
theorem bsLoop_spec {a : List Bytes} {k : Bytes} (hs : weakSorted a = true) :
    ∀ (fuel base size : Nat), 1 ≤ size → size ≤ fuel → base + size ≤ a.length →
      (base = 0 ∨ ∃ x, a[base]? = some x ∧ bLe x k = true) →
      (∀ j x, base + size ≤ j → a[j]? = some x → bLt k x = true) →
      bsLoop a (fun x => cmpBytes k x == 2) fuel base size < a.length ∧
      (bsLoop a (fun x => cmpBytes k x == 2) fuel base size = 0 ∨
        ∃ x, a[bsLoop a (fun x => cmpBytes k x == 2) fuel base size]? = some x ∧ bLe x k = true) ∧
      (∀ j x, bsLoop a (fun x => cmpBytes k x == 2) fuel base size + 1 ≤ j → a[j]? = some x →
        bLt k x = true) := by
  intro fuel
  induction fuel with
  | zero => intro base size h1 h2; omega
  | succ fuel ih =>
    intro base size h1 hf hb hlo hhi
    unfold bsLoop
    by_cases hsz : size > 1
    · simp only [hsz, if_true]
      have hmid : base + size / 2 < a.length := by omega
      rw [List.getElem?_eq_getElem hmid]
      simp only
      by_cases hgt : (cmpBytes k a[base + size / 2] == 2) = true
      · simp only [hgt, if_true]
        apply ih base (size - size / 2) (by omega) (by omega) (by omega) hlo
        intro j x hj hx
        have hle : bLe a[base + size / 2] x = true :=
          weakSorted_getElem? hs (by omega) (List.getElem?_eq_getElem hmid) hx
        exact bLt_of_bLt_of_bLe (cmpBytes_eq_two.1 hgt) hle
      · simp only [hgt]
        apply ih (base + size / 2) (size - size / 2) (by omega) (by omega) (by omega)
        · right
          refine ⟨_, List.getElem?_eq_getElem hmid, ?_⟩
          rw [bLe_eq_not_bLt]
          rw [cmpBytes_eq_two] at hgt
          simpa using hgt
        · intro j x hj hx
          exact hhi j x (by omega) hx
    · have : size = 1 := by omega
      subst this
      simp only [hsz, if_false]
      exact ⟨by omega, hlo, hhi⟩

theorem binarySearch_ok {a : List Bytes} {k : Bytes} {i : Nat} (hs : weakSorted a = true)
    (h : binarySearchBy a (cmpBytes k) = .inl i) : a[i]? = some k := by
  have _ := hs
  unfold binarySearchBy at h
  split at h
  · cases h
  · simp only at h
    split at h
    · rename_i x hx
      split at h
      · rename_i h1
        cases h
        rw [hx, cmpBytes_eq_one.1 h1]
      · cases h
    · cases h

theorem binarySearch_err {a : List Bytes} {k : Bytes} {i : Nat} (hs : weakSorted a = true)
    (h : binarySearchBy a (cmpBytes k) = .inr i) :
    k ∉ a ∧ i ≤ a.length ∧ (∀ x ∈ a.take i, bLt x k = true) ∧ (∀ x ∈ a.drop i, bLt k x = true) := by
  have key : i ≤ a.length ∧ (∀ x ∈ a.take i, bLt x k = true) ∧ (∀ x ∈ a.drop i, bLt k x = true) := by
    unfold binarySearchBy at h
    split at h
    · rename_i hl
      have : a = [] := by simpa using hl
      subst this
      cases h
      simp
    · rename_i hl
      have hlen : 1 ≤ a.length := by
        have : a.length ≠ 0 := by simpa using hl
        omega
      simp only at h
      obtain ⟨hr, hlo, hhi⟩ := bsLoop_spec (k := k) hs a.length 0 a.length hlen (Nat.le_refl _)
        (by omega) (Or.inl rfl) (by
          intro j x hj hx
          have := (List.getElem?_eq_some_iff.1 hx).1
          omega)
      generalize bsLoop a (fun x => cmpBytes k x == 2) a.length 0 a.length = r at *
      split at h
      · rename_i x hx
        split at h
        · cases h
        · rename_i hne1
          by_cases h0 : (cmpBytes k x == 0) = true
          · -- Less: insertion point is r + 1
            simp only [h0, if_true] at h
            cases h
            have hxk : bLt x k = true := cmpBytes_eq_zero.1 h0
            refine ⟨by omega, ?_, ?_⟩
            · intro y hy
              obtain ⟨j, hj⟩ := List.mem_iff_getElem?.1 hy
              rw [List.getElem?_take] at hj
              split at hj
              · rename_i hjr
                exact bLt_of_bLe_of_bLt (weakSorted_getElem? hs (by omega) hj hx) hxk
              · cases hj
            · intro y hy
              obtain ⟨j, hj⟩ := List.mem_iff_getElem?.1 hy
              rw [List.getElem?_drop] at hj
              exact hhi _ y (by omega) hj
          · -- Greater: then r = 0 and the insertion point is 0
            simp only [h0, Bool.false_eq_true, if_false, Nat.add_zero] at h
            have hri : r = i := by injection h
            subst hri
            have hkx : bLt k x = true := by
              rcases bLt_trichotomy k x with e | e | e
              · exact e
              · exact absurd (cmpBytes_eq_one.2 e.symm) hne1
              · exact absurd (cmpBytes_eq_zero.2 e) h0
            have hr0 : r = 0 := by
              rcases hlo with e | ⟨x', hx', hle⟩
              · exact e
              · rw [hx] at hx'
                cases hx'
                have := bLt_of_bLt_of_bLe hkx hle
                rw [bLt_irrefl] at this; cases this
            subst hr0
            refine ⟨by omega, by simp, ?_⟩
            intro y hy
            obtain ⟨j, hj⟩ := List.mem_iff_getElem?.1 hy
            rw [List.getElem?_drop] at hj
            exact bLt_of_bLt_of_bLe hkx (weakSorted_getElem? hs (by omega) hx hj)
      · rename_i hnone
        have := List.getElem?_eq_none_iff.1 hnone
        omega
  refine ⟨?_, key⟩
  intro hk
  rw [← List.take_append_drop i a, List.mem_append] at hk
  rcases hk with hk | hk
  · have := key.2.1 k hk
    rw [bLt_irrefl] at this; cases this
  · have := key.2.2 k hk
    rw [bLt_irrefl] at this; cases this

theorem binarySearch_found_iff {a : List Bytes} {k : Bytes} (hs : weakSorted a = true) :
    (∃ i, binarySearchBy a (cmpBytes k) = .inl i) ↔ k ∈ a := by
  constructor
  · rintro ⟨i, hi⟩
    exact List.mem_iff_getElem?.2 ⟨i, binarySearch_ok hs hi⟩
  · intro hk
    cases h : binarySearchBy a (cmpBytes k) with
    | inl i => exact ⟨i, rfl⟩
    | inr i => exact absurd hk (binarySearch_err hs h).1

theorem insert_at_err_sorted {a : List Bytes} {k : Bytes} {i : Nat} (hs : strictSorted a = true)
    (h : binarySearchBy a (cmpBytes k) = .inr i) :
    strictSorted (a.take i ++ k :: a.drop i) = true ∧ (∀ x, x ∈ (a.take i ++ k :: a.drop i) ↔ x = k ∨ x ∈ a) := by
  obtain ⟨_, _, hlo, hhi⟩ := binarySearch_err (weakSorted_of_strictSorted hs) h
  constructor
  · have hp := strictSorted_iff_pairwise.1 hs
    rw [← List.take_append_drop i a, List.pairwise_append] at hp
    rw [strictSorted_iff_pairwise, List.pairwise_append, List.pairwise_cons]
    refine ⟨hp.1, ⟨hhi, hp.2.1⟩, ?_⟩
    intro x hx y hy
    rcases List.mem_cons.1 hy with rfl | hy
    · exact hlo x hx
    · exact hp.2.2 x hx y hy
  · intro x
    rw [List.mem_append, List.mem_cons]
    conv => rhs; rw [← List.take_append_drop i a, List.mem_append]
    constructor
    · rintro (h | h | h)
      · exact Or.inr (Or.inl h)
      · exact Or.inl h
      · exact Or.inr (Or.inr h)
    · rintro (h | h | h)
      · exact Or.inr (Or.inl h)
      · exact Or.inl h
      · exact Or.inr (Or.inr h)

theorem perm_cons_eraseIdx {a : List Bytes} {k : Bytes} {i : Nat} (h : a[i]? = some k) :
    (k :: a.eraseIdx i).Perm a := by
  induction a generalizing i with
  | nil => simp at h
  | cons x xs ih =>
    cases i with
    | zero =>
      simp at h
      subst h
      exact List.Perm.refl _
    | succ i =>
      simp at h
      rw [List.eraseIdx_cons_succ]
      exact (List.Perm.swap x k _).trans (List.Perm.cons x (ih h))

theorem erase_at_ok_sorted {a : List Bytes} {k : Bytes} {i : Nat} (hs : weakSorted a = true)
    (h : binarySearchBy a (cmpBytes k) = .inl i) :
    weakSorted (a.eraseIdx i) = true ∧ (a.eraseIdx i).Perm (a.erase k) := by
  have hi := binarySearch_ok hs h
  constructor
  · rw [weakSorted_iff_pairwise] at *
    exact hs.sublist (List.eraseIdx_sublist a i)
  · have hk : k ∈ a := List.mem_iff_getElem?.2 ⟨i, hi⟩
    exact (List.perm_cons k).1 ((perm_cons_eraseIdx hi).trans (List.perm_cons_erase hk))

end UL
