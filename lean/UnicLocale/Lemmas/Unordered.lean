/-
  Lemmas/Unordered.lean — order / repetition insensitivity of the unordered parts (C09, part ii).

  * shapes: the constructors of keys, types, attributes, tkeys, tvalues are exact for the grammar's
    productions; the subtag shapes are pairwise disjoint where the parser relies on it;
  * "append" lemmas: a continuation that starts with a stopper (for every sub-parser: a one-byte
    subtag) is handed back untouched, and what a sub-parser hands back is a suffix of its input;
  * the dispatch loop without fuel (`run`), and the **boundary theorem** `Locale.parse_prefix`:
    after any prefix without a private-use singleton, a following singleton finds the parser at
    a section boundary in a state that depends on the prefix only (or the result is decided);
  * (a) variants, (b) attributes, (c) keyword groups, (d) tfield groups, (e) swapping `-u-`/`-t-`.
  All lemmas live in `UL.Unordered`.
-/
import UnicLocale.Lemmas.LiLoop
import UnicLocale.Model.Locale
import UnicLocale.Spec.Locale
namespace UL.Unordered
open UL UL.Props.C15

/-! ### shapes -/

theorem isTypeShape_eq (t : Bytes) : isTypeShape t = Spec.isAttr t := by
  unfold isTypeShape Spec.isAttr Spec.rep
  rw [any_not_eq_not_all, Bool.not_not]

theorem isTKeyShape_eq (t : Bytes) : isTKeyShape t = Spec.isTKey t := by
  match t with
  | [] => rfl
  | [_] => rfl
  | [_, _] => rfl
  | _ :: _ :: _ :: _ => rfl

theorem isAttr_spec {t : Bytes} (h : Spec.isAttr t = true) :
    3 ≤ t.length ∧ t.length ≤ 8 ∧ allAlnum t = true := by
  simp only [Spec.isAttr, Spec.rep, Bool.and_eq_true, decide_eq_true_eq] at h
  exact ⟨h.1.1, h.1.2, h.2⟩

theorem isKey_length {t : Bytes} (h : Spec.isKey t = true) : t.length = 2 := by
  unfold Spec.isKey at h
  split at h
  · rfl
  · cases h

theorem isTKey_length {t : Bytes} (h : Spec.isTKey t = true) : t.length = 2 := by
  unfold Spec.isTKey at h
  split at h
  · rfl
  · cases h

theorem parseKey_exact (t : Bytes) :
    parseKey t = if Spec.isKey t then .ok (lower t) else .err .invalidSubtag := by
  unfold parseKey Spec.isKey
  match t with
  | [] => rfl
  | [_] => rfl
  | _ :: _ :: _ :: _ => simp
  | [a, b] =>
    have hl : ([a, b].length != 2) = false := rfl
    simp only [hl, Bool.false_eq_true, if_false]
    by_cases h : (isAlnum a && isAlpha b) = true
    · have h' := h
      simp only [Bool.and_eq_true] at h'
      have ht : tinyOk 4 [a, b] = true := by
        apply tinyOk_of_allAlnum (by simp)
        have hb : isAlnum b = true := by simp [isAlnum, h'.2]
        simp only [allAlnum, List.all_cons, List.all_nil, h'.1, hb, Bool.and_true]
      simp [h'.1, h'.2, ht]
    · have h2 : (!isAlnum a || !isAlpha b) = true := by
        cases ha : isAlnum a <;> cases hb : isAlpha b <;> simp_all
      simp only [h2, if_true]
      simp only [Bool.not_eq_true] at h
      simp [h]

theorem parseTKey_exact (t : Bytes) :
    parseTKey t = if Spec.isTKey t then .ok (lower t) else .err .invalidSubtag := by
  unfold parseTKey Spec.isTKey
  match t with
  | [] => rfl
  | [_] => rfl
  | _ :: _ :: _ :: _ => simp
  | [a, b] =>
    have hl : ([a, b].length != 2) = false := rfl
    simp only [hl, Bool.false_eq_true, if_false]
    by_cases h : (isAlpha a && isDigit b) = true
    · have h' := h
      simp only [Bool.and_eq_true] at h'
      have ht : tinyOk 4 [a, b] = true := by
        apply tinyOk_of_allAlnum (by simp)
        have ha : isAlnum a = true := by simp [isAlnum, h'.1]
        have hb : isAlnum b = true := by simp [isAlnum, h'.2]
        simp only [allAlnum, List.all_cons, List.all_nil, ha, hb, Bool.and_true]
      simp [h'.1, h'.2, ht]
    · have h2 : (!isAlpha a || !isDigit b) = true := by
        cases ha : isAlpha a <;> cases hb : isDigit b <;> simp_all
      simp only [h2, if_true]
      simp only [Bool.not_eq_true] at h
      simp [h]

theorem parseType_exact (t : Bytes) :
    parseType t = if Spec.isAttr t then .ok (if lower t == trueBytes then none else some (lower t))
                  else .err .invalidSubtag := by
  unfold parseType
  by_cases h : Spec.isAttr t = true
  · obtain ⟨h3, h8, ha⟩ := isAttr_spec h
    have ht := tinyOk_of_allAlnum h8 ha
    simp only [h, ht, ha, if_true, Bool.not_true, Bool.false_eq_true, if_false, Bool.or_false]
    have : (!(decide (3 ≤ t.length) && decide (t.length ≤ 8))) = false := by simp; omega
    simp only [this, Bool.false_eq_true, if_false]
    split <;> rfl
  · simp only [h, Bool.false_eq_true, if_false]
    by_cases ht : tinyOk 8 t = true
    · simp only [Spec.isAttr, Spec.rep] at h
      simp only [ht, Bool.not_true, Bool.false_eq_true, if_false]
      have : (!(decide (3 ≤ t.length) && decide (t.length ≤ 8)) || !allAlnum t) = true := by
        unfold allAlnum
        cases h1 : (decide (3 ≤ t.length) && decide (t.length ≤ 8)) <;> cases h2 : t.all isAlnum <;> simp_all
      simp only [this, if_true]
    · simp [ht]

theorem parseAttribute_exact (t : Bytes) :
    parseAttribute t = if Spec.isAttr t then .ok (lower t) else .err .invalidSubtag := by
  unfold parseAttribute
  by_cases h : Spec.isAttr t = true
  · obtain ⟨h3, h8, ha⟩ := isAttr_spec h
    have ht := tinyOk_of_allAlnum h8 ha
    simp only [h, ht, ha, if_true, Bool.not_true, Bool.false_eq_true, if_false, Bool.or_false]
    have : (!(decide (3 ≤ t.length) && decide (t.length ≤ 8))) = false := by simp; omega
    simp only [this, Bool.false_eq_true, if_false]
  · simp only [h, Bool.false_eq_true, if_false]
    by_cases ht : tinyOk 8 t = true
    · simp only [Spec.isAttr, Spec.rep] at h
      simp only [ht, Bool.not_true, Bool.false_eq_true, if_false]
      have : (!(decide (3 ≤ t.length) && decide (t.length ≤ 8)) || !allAlnum t) = true := by
        unfold allAlnum
        cases h1 : (decide (3 ≤ t.length) && decide (t.length ≤ 8)) <;> cases h2 : t.all isAlnum <;> simp_all
      simp only [this, if_true]
    · simp [ht]

theorem parseTValue_eq (t : Bytes) : parseTValue t = parseType t := by
  unfold parseTValue parseType
  have : (decide (t.length < 3) || decide (t.length > 8)) = !(decide (3 ≤ t.length) && decide (t.length ≤ 8)) := by
    rw [Bool.eq_iff_iff]; simp
  rw [this]

/-! ### disjointness of the subtag shapes -/

theorem isVariant_not_script {t : Bytes} (h : Spec.isVariant t = true) : Spec.isScript t = false := by
  cases hs : Spec.isScript t with
  | false => rfl
  | true =>
    obtain ⟨h4, ha⟩ := isScript_spec hs
    match t, h4 with
    | [a, b, c, d], _ =>
      rw [isVariant_len4 (by rfl)] at h
      simp only [allAlpha, List.all_cons, Bool.and_eq_true] at ha
      have h1 := ha.1
      simp only [Bool.and_eq_true] at h
      have h2 := h.1
      simp only [isAlpha, isUpper, isLower, isDigit, Bool.or_eq_true, Bool.and_eq_true,
        decide_eq_true_eq] at h1 h2
      omega

theorem isVariant_not_region {t : Bytes} (h : Spec.isVariant t = true) : Spec.isRegion t = false := by
  cases hs : Spec.isRegion t with
  | false => rfl
  | true =>
    have := isRegion_spec hs
    have := isVariant_spec h
    omega

theorem isRegion_not_script {t : Bytes} (h : Spec.isRegion t = true) : Spec.isScript t = false := by
  cases hs : Spec.isScript t with
  | false => rfl
  | true =>
    have := isRegion_spec h
    have := isScript_spec hs
    omega

theorem isTKey_not_script {t : Bytes} (h : Spec.isTKey t = true) : Spec.isScript t = false := by
  cases hs : Spec.isScript t with
  | false => rfl
  | true =>
    have := isTKey_length h
    have := isScript_spec hs
    omega

theorem isTKey_not_variant {t : Bytes} (h : Spec.isTKey t = true) : Spec.isVariant t = false := by
  cases hs : Spec.isVariant t with
  | false => rfl
  | true =>
    have := isTKey_length h
    have := isVariant_spec hs
    omega

theorem isTKey_not_region {t : Bytes} (h : Spec.isTKey t = true) : Spec.isRegion t = false := by
  match t with
  | [] => rfl
  | [_] => rfl
  | _ :: _ :: _ :: _ => cases h
  | [a, b] =>
    simp only [Spec.isTKey, Bool.and_eq_true] at h
    have hd := h.2
    simp only [Spec.isRegion, Spec.rep, List.length_cons, List.length_nil, List.all_cons, List.all_nil]
    have : isAlpha b = false := by
      simp only [isAlpha, isUpper, isLower, isDigit, Bool.and_eq_true, decide_eq_true_eq] at hd ⊢
      simp; omega
    simp [this]

theorem isTKey_not_language {t : Bytes} (h : Spec.isTKey t = true) : Spec.isLanguage t = false := by
  match t with
  | [] => rfl
  | [_] => rfl
  | _ :: _ :: _ :: _ => cases h
  | [a, b] =>
    simp only [Spec.isTKey, Bool.and_eq_true] at h
    have hd := h.2
    have : isAlpha b = false := by
      simp only [isAlpha, isUpper, isLower, isDigit, Bool.and_eq_true, decide_eq_true_eq] at hd ⊢
      simp; omega
    simp [Spec.isLanguage, Spec.rep, this]

theorem short_not_attr {t : Bytes} (h : t.length ≤ 2) : Spec.isAttr t = false := by
  cases hs : Spec.isAttr t with
  | false => rfl
  | true => have := isAttr_spec hs; omega

/-! ### appending a continuation that starts with a stopper; what is handed back is a suffix -/

/-- the result of a sub-parser with `X` appended to the subtags it hands back -/
def restAppend {α} (X : List Bytes) (r : Res (α × List Bytes)) : Res (α × List Bytes) :=
  r.map fun p => (p.1, p.2 ++ X)

/-- `X` is empty or starts with a one-byte subtag (a singleton) -/
def SingletonHead (X : List Bytes) : Prop := ∀ t ∈ X.head?, t.length = 1
instance (X : List Bytes) : Decidable (SingletonHead X) := by
  unfold SingletonHead
  cases X with
  | nil => exact isTrue (by intro t h; cases h)
  | cons y ys =>
    exact decidable_of_iff (y.length = 1) ⟨fun h t ht => by simp at ht; subst ht; exact h, fun h => h y (by simp)⟩

theorem singletonHead_nil : SingletonHead [] := by intro t h; cases h
theorem singletonHead_cons (b : Nat) (r : List Bytes) : SingletonHead ([b] :: r) := by
  intro t h; simp at h; subst h; rfl

theorem takeOpt_appendX {p : Bytes → Bool} (xs X : List Bytes) (hX : ∀ t ∈ X.head?, p t = false) :
    Spec.takeOpt p (xs ++ X) = ((Spec.takeOpt p xs).1, (Spec.takeOpt p xs).2 ++ X) := by
  cases xs with
  | nil =>
    cases X with
    | nil => rfl
    | cons y ys =>
      have := hX y (by simp)
      simp [Spec.takeOpt, this]
  | cons t ts =>
    by_cases hp : p t = true
    · simp [Spec.takeOpt, hp]
    · simp [Spec.takeOpt, hp]

theorem takeWhile_appendX {p : Bytes → Bool} (xs X : List Bytes) (hX : ∀ t ∈ X.head?, p t = false) :
    (xs ++ X).takeWhile p = xs.takeWhile p := by
  induction xs with
  | nil =>
    cases X with
    | nil => rfl
    | cons y ys => simp [hX y (by simp)]
  | cons t ts ih =>
    by_cases hp : p t = true
    · simp [hp, ih]
    · simp [hp]

theorem dropWhile_appendX {p : Bytes → Bool} (xs X : List Bytes) (hX : ∀ t ∈ X.head?, p t = false) :
    (xs ++ X).dropWhile p = xs.dropWhile p ++ X := by
  induction xs with
  | nil =>
    cases X with
    | nil => rfl
    | cons y ys => simp [hX y (by simp)]
  | cons t ts ih =>
    by_cases hp : p t = true
    · simp [hp, ih]
    · simp [hp]

/-- a continuation whose first subtag is not script-, region- or variant-shaped is handed back
    untouched by the language-identifier parser -/
theorem LangId.parseIter_append (l : Bytes) (p0 X : List Bytes)
    (hX : ∀ t ∈ X.head?, Spec.isScript t = false ∧ Spec.isRegion t = false ∧ Spec.isVariant t = false) :
    LangId.parseIter (l :: (p0 ++ X)) true = restAppend X (LangId.parseIter (l :: p0) true) := by
  unfold LangId.parseIter restAppend
  simp only [LangId.loop_pos1]
  cases Language.fromBytes l with
  | err e => rfl
  | panic => rfl
  | ok lang =>
    simp only [Res.map, Bool.not_true, Bool.false_and, Bool.false_eq_true, if_false]
    rw [takeOpt_appendX _ _ (fun t ht => (hX t ht).1)]
    simp only
    rw [takeOpt_appendX _ _ (fun t ht => (hX t ht).2.1)]
    simp only
    rw [takeWhile_appendX _ _ (fun t ht => (hX t ht).2.2), dropWhile_appendX _ _ (fun t ht => (hX t ht).2.2)]

theorem singleton_not_shapes {X : List Bytes} (hX : SingletonHead X) :
    ∀ t ∈ X.head?, Spec.isScript t = false ∧ Spec.isRegion t = false ∧ Spec.isVariant t = false := by
  intro t ht
  have := hX t ht
  exact ⟨Spec.isScript_short (by omega), Spec.isRegion_short (by omega), Spec.isVariant_short (by omega)⟩

theorem UExt.loop_append (P X : List Bytes) (u : UExt) (ck : Option Bytes) (ct : List Bytes)
    (hX : ∀ t ∈ X.head?, t.length ≠ 2 ∧ Spec.isAttr t = false) :
    UExt.loop (P ++ X) u ck ct = restAppend X (UExt.loop P u ck ct) := by
  fun_induction UExt.loop P u ck ct with
  | case1 u ck ct =>
    cases X with
    | nil => rfl
    | cons y ys =>
      have := hX y (by simp)
      simp [UExt.loop, isTypeShape_eq, this, restAppend, Res.map]
  | case2 t ts u ck ct h2 e hk => simp [UExt.loop, h2, hk, restAppend, Res.map]
  | case3 t ts u ck ct h2 hk => simp [UExt.loop, h2, hk, restAppend, Res.map]
  | case4 t ts u ck ct h2 k hk ih => simpa [UExt.loop, h2, hk] using ih
  | case5 t ts u ck ct h2 h3 e hk => simp [UExt.loop, h2, h3, hk, restAppend, Res.map]
  | case6 t ts u ck ct h2 h3 hk => simp [UExt.loop, h2, h3, hk, restAppend, Res.map]
  | case7 t ts u ck ct h2 h3 ty hk ih => simpa [UExt.loop, h2, h3, hk] using ih
  | case8 t ts u ck ct h2 h3 hk ih => simpa [UExt.loop, h2, h3, hk] using ih
  | case9 t ts u ck ct h2 h3 h4 e hk =>
    have hck : ck.isSome = false := by simpa [h4] using h3
    simp [UExt.loop, h2, hck, h4, hk, restAppend, Res.map]
  | case10 t ts u ck ct h2 h3 h4 hk =>
    have hck : ck.isSome = false := by simpa [h4] using h3
    simp [UExt.loop, h2, hck, h4, hk, restAppend, Res.map]
  | case11 t ts u ck ct h2 h3 h4 a hk ih =>
    have hck : ck.isSome = false := by simpa [h4] using h3
    simpa [UExt.loop, h2, hck, h4, hk] using ih
  | case12 t ts u ck ct h2 h3 h4 => simp [UExt.loop, h2, h4, restAppend, Res.map]

theorem singleton_not_tkey {t : Bytes} (h : t.length = 1) : isTKeyShape t = false := by
  match t, h with
  | [_], _ => rfl

theorem TExt.fieldLoop_append (P X : List Bytes) (x : TExt) (ck : Option Bytes) (cv : List Bytes)
    (hX : SingletonHead X) :
    TExt.fieldLoop (P ++ X) x ck cv = restAppend X (TExt.fieldLoop P x ck cv) := by
  fun_induction TExt.fieldLoop P x ck cv with
  | case1 x ck cv =>
    cases X with
    | nil => rfl
    | cons y ys =>
      have h1 := hX y (by simp)
      simp [TExt.fieldLoop, singleton_not_tkey h1, h1, restAppend, Res.map]
  | case2 t ts x ck cv h2 e hk => simp [TExt.fieldLoop, h2, hk, restAppend, Res.map]
  | case3 t ts x ck cv h2 hk => simp [TExt.fieldLoop, h2, hk, restAppend, Res.map]
  | case4 t ts x ck cv h2 k hk ih => simpa [TExt.fieldLoop, h2, hk] using ih
  | case5 t ts x ck cv h2 h3 => simp [TExt.fieldLoop, h2, h3, restAppend, Res.map]
  | case6 t ts x ck cv h2 h3 h4 e hk => simp [TExt.fieldLoop, h2, h3, h4, hk, restAppend, Res.map]
  | case7 t ts x ck cv h2 h3 h4 hk => simp [TExt.fieldLoop, h2, h3, h4, hk, restAppend, Res.map]
  | case8 t ts x ck cv h2 h3 h4 v hk ih => simpa [TExt.fieldLoop, h2, h3, h4, hk] using ih
  | case9 t ts x ck cv h2 h3 h4 hk ih => simpa [TExt.fieldLoop, h2, h3, h4, hk] using ih
  | case10 t ts x ck cv h2 h3 h4 => simp [TExt.fieldLoop, h2, h3, h4, restAppend, Res.map]

theorem TExt.parseIter_append (P X : List Bytes) (hX : SingletonHead X) :
    TExt.parseIter (P ++ X) = restAppend X (TExt.parseIter P) := by
  cases P with
  | nil =>
    cases X with
    | nil => rfl
    | cons y ys =>
      have h1 := hX y (by simp)
      simp [TExt.parseIter, singleton_not_tkey h1, h1, restAppend, Res.map]
  | cons t ts =>
    simp only [List.cons_append, TExt.parseIter]
    split
    · exact TExt.fieldLoop_append (t :: ts) X _ _ _ hX
    · split
      · rfl
      · split
        · rw [LangId.parseIter_append t ts X (singleton_not_shapes hX)]
          cases LangId.parseIter (t :: ts) true with
          | err e => rfl
          | panic => rfl
          | ok p =>
            obtain ⟨li, rest⟩ := p
            exact TExt.fieldLoop_append rest X _ _ _ hX
        · rfl

theorem UExt.parseIter_append (P X : List Bytes) (hX : SingletonHead X) :
    UExt.parseIter (P ++ X) = restAppend X (UExt.parseIter P) := by
  apply UExt.loop_append
  intro t ht
  have := hX t ht
  exact ⟨by omega, short_not_attr (by omega)⟩

/-! suffixes -/

theorem UExt.loop_suffix {ts : List Bytes} {u : UExt} {ck : Option Bytes} {ct : List Bytes} {u' : UExt}
    {rest : List Bytes} (h : UExt.loop ts u ck ct = .ok (u', rest)) : ∃ pre, ts = pre ++ rest := by
  fun_induction UExt.loop ts u ck ct generalizing u' rest with
  | case1 => cases h; exact ⟨[], rfl⟩
  | case2 => cases h
  | case3 => cases h
  | case4 t ts u ck ct h2 k hk ih => obtain ⟨pre, rfl⟩ := ih h; exact ⟨t :: pre, rfl⟩
  | case5 => cases h
  | case6 => cases h
  | case7 t ts u ck ct h2 h3 ty hk ih => obtain ⟨pre, rfl⟩ := ih h; exact ⟨t :: pre, rfl⟩
  | case8 t ts u ck ct h2 h3 hk ih => obtain ⟨pre, rfl⟩ := ih h; exact ⟨t :: pre, rfl⟩
  | case9 => cases h
  | case10 => cases h
  | case11 t ts u ck ct h2 h3 h4 a hk ih => obtain ⟨pre, rfl⟩ := ih h; exact ⟨t :: pre, rfl⟩
  | case12 => cases h; exact ⟨[], rfl⟩

theorem TExt.fieldLoop_suffix {ts : List Bytes} {x : TExt} {ck : Option Bytes} {cv : List Bytes} {x' : TExt}
    {rest : List Bytes} (h : TExt.fieldLoop ts x ck cv = .ok (x', rest)) : ∃ pre, ts = pre ++ rest := by
  fun_induction TExt.fieldLoop ts x ck cv generalizing x' rest with
  | case1 => cases h; exact ⟨[], rfl⟩
  | case2 => cases h
  | case3 => cases h
  | case4 t ts x ck cv h2 k hk ih => obtain ⟨pre, rfl⟩ := ih h; exact ⟨t :: pre, rfl⟩
  | case5 => cases h; exact ⟨[], rfl⟩
  | case6 => cases h
  | case7 => cases h
  | case8 t ts x ck cv h2 h3 h4 v hk ih => obtain ⟨pre, rfl⟩ := ih h; exact ⟨t :: pre, rfl⟩
  | case9 t ts x ck cv h2 h3 h4 hk ih => obtain ⟨pre, rfl⟩ := ih h; exact ⟨t :: pre, rfl⟩
  | case10 => cases h; exact ⟨[], rfl⟩

theorem LangId.parseIter_suffix' {ts rest : List Bytes} {x : LangId} {a : Bool}
    (h : LangId.parseIter ts a = .ok (x, rest)) : ∃ pre, ts = pre ++ rest := by
  cases ts with
  | nil =>
    rw [LangId.parseIter_nil] at h
    cases h; exact ⟨[], rfl⟩
  | cons t ts =>
    obtain ⟨pre, _, h2⟩ := LangId.parseIter_suffix (by simp) h
    exact ⟨pre, h2⟩

theorem TExt.parseIter_suffix {ts : List Bytes} {x' : TExt} {rest : List Bytes}
    (h : TExt.parseIter ts = .ok (x', rest)) : ∃ pre, ts = pre ++ rest := by
  cases ts with
  | nil => cases h; exact ⟨[], rfl⟩
  | cons t ts =>
    simp only [TExt.parseIter] at h
    split at h
    · exact TExt.fieldLoop_suffix h
    · split at h
      · cases h; exact ⟨[], rfl⟩
      · split at h
        · cases hp : LangId.parseIter (t :: ts) true with
          | err e => rw [hp] at h; cases h
          | panic => rw [hp] at h; cases h
          | ok p =>
            obtain ⟨li, r1⟩ := p
            rw [hp] at h
            obtain ⟨pre1, h1⟩ := LangId.parseIter_suffix' hp
            obtain ⟨pre2, h2⟩ := TExt.fieldLoop_suffix h
            exact ⟨pre1 ++ pre2, by rw [h1, h2, List.append_assoc]⟩
        · cases h; exact ⟨[], rfl⟩

/-! ### the dispatch loop without fuel -/

theorem suffix_length {ts pre rest : List Bytes} (h : ts = pre ++ rest) : rest.length ≤ ts.length := by
  rw [h, List.length_append]; omega

theorem ExtMap.loop_fuel (f f' : Nat) (ts : List Bytes) (m : ExtMap) (su st : Bool)
    (h : ts.length < f) (h' : ts.length < f') :
    ExtMap.loop f ts m su st = ExtMap.loop f' ts m su st := by
  induction f generalizing f' ts m su st with
  | zero => omega
  | succ f ih =>
    cases f' with
    | zero => omega
    | succ f' =>
      cases ts with
      | nil => rfl
      | cons t ts =>
        simp only [List.length_cons] at h h'
        simp only [ExtMap.loop]
        split
        · rfl
        · cases t with
          | nil => exact ih _ _ _ _ _ (by omega) (by omega)
          | cons b t' =>
            simp only
            cases ExtType.fromByte b with
            | err e => rfl
            | panic => rfl
            | ok ty =>
              cases ty with
              | unicode =>
                simp only
                split
                · rfl
                · cases hp : UExt.parseIter ts with
                  | err e => rfl
                  | panic => rfl
                  | ok p =>
                    obtain ⟨u, rest⟩ := p
                    obtain ⟨pre, hs⟩ := UExt.loop_suffix hp
                    have := suffix_length hs
                    exact ih _ _ _ _ _ (by omega) (by omega)
              | transform =>
                simp only
                split
                · rfl
                · cases hp : TExt.parseIter ts with
                  | err e => rfl
                  | panic => rfl
                  | ok p =>
                    obtain ⟨u, rest⟩ := p
                    obtain ⟨pre, hs⟩ := TExt.parseIter_suffix hp
                    have := suffix_length hs
                    exact ih _ _ _ _ _ (by omega) (by omega)
              | priv => rfl
              | other => rfl

/-- the dispatch loop of `ExtensionsMap::try_from_iter` with enough fuel -/
def run (ts : List Bytes) (m : ExtMap) (su st : Bool) : Res ExtMap :=
  ExtMap.loop (ts.length + 1) ts m su st

theorem run_nil (m : ExtMap) (su st : Bool) : run [] m su st = .ok m := rfl

theorem run_empty (ts : List Bytes) (m : ExtMap) (su st : Bool) : run ([] :: ts) m su st = run ts m su st := by
  unfold run
  simp only [List.length_cons, ExtMap.loop, List.length_nil, gt_iff_lt, Nat.not_lt_zero, if_false]

theorem run_long (t : Bytes) (ts : List Bytes) (m : ExtMap) (su st : Bool) (h : t.length > 1) :
    run (t :: ts) m su st = .err .invalidExtension := by
  unfold run
  simp only [List.length_cons, ExtMap.loop, h, if_true]

theorem singleton_of_lower {u : Bytes} {c : Nat} (h : lower u = [c]) : ∃ b, u = [b] ∧ toLower b = c := by
  match u, h with
  | [b], h =>
    simp only [lower, List.map_cons, List.map_nil, List.cons.injEq, and_true] at h
    exact ⟨b, rfl, h⟩

theorem run_u (b : Nat) (hb : toLower b = 117) (ts : List Bytes) (m : ExtMap) (su st : Bool) :
    run ([b] :: ts) m su st =
      if su then .err .invalidExtension
      else match UExt.parseIter ts with
        | .err e => .err e
        | .panic => .panic
        | .ok (u, rest) => run rest { m with unicode := u } true st := by
  unfold run
  have hf : ExtType.fromByte b = .ok .unicode := by simp [ExtType.fromByte, hb]
  simp only [List.length_cons, ExtMap.loop, List.length_nil, gt_iff_lt, Nat.lt_irrefl, if_false, hf]
  split
  · rfl
  · cases hp : UExt.parseIter ts with
    | err e => rfl
    | panic => rfl
    | ok p =>
      obtain ⟨u, rest⟩ := p
      obtain ⟨pre, hs⟩ := UExt.loop_suffix hp
      have := suffix_length hs
      exact ExtMap.loop_fuel _ _ _ _ _ _ (by omega) (by omega)

theorem run_t (b : Nat) (hb : toLower b = 116) (ts : List Bytes) (m : ExtMap) (su st : Bool) :
    run ([b] :: ts) m su st =
      if st then .err .invalidExtension
      else match TExt.parseIter ts with
        | .err e => .err e
        | .panic => .panic
        | .ok (x, rest) => run rest { m with transform := x } su true := by
  unfold run
  have hf : ExtType.fromByte b = .ok .transform := by simp [ExtType.fromByte, hb]
  simp only [List.length_cons, ExtMap.loop, List.length_nil, gt_iff_lt, Nat.lt_irrefl, if_false, hf]
  split
  · rfl
  · cases hp : TExt.parseIter ts with
    | err e => rfl
    | panic => rfl
    | ok p =>
      obtain ⟨u, rest⟩ := p
      obtain ⟨pre, hs⟩ := TExt.parseIter_suffix hp
      have := suffix_length hs
      exact ExtMap.loop_fuel _ _ _ _ _ _ (by omega) (by omega)

theorem run_other (b : Nat) (h1 : toLower b ≠ 117) (h2 : toLower b ≠ 116) (h3 : toLower b ≠ 120)
    (ts : List Bytes) (m : ExtMap) (su st : Bool) :
    run ([b] :: ts) m su st = .err .invalidExtension := by
  have hf : ExtType.fromByte b = .ok .other ∨ ExtType.fromByte b = .err .invalidExtension := by
    simp only [ExtType.fromByte, beq_iff_eq, h1, h2, h3, if_false]
    split <;> simp
  unfold run
  simp only [List.length_cons, ExtMap.loop, List.length_nil, gt_iff_lt, Nat.lt_irrefl, if_false]
  rcases hf with hf | hf <;> rw [hf]

/-- resume parsing at a section boundary with identifier `id` and extension state `(m, su, st)` -/
def resume (id : LangId) (m : ExtMap) (su st : Bool) (ts : List Bytes) : Res Locale :=
  (run ts m su st).map fun ext => { id := id, ext := ext }

theorem Locale.parse_eq (ts : List Bytes) :
    Locale.parse ts =
      match LangId.parseIter ts true with
      | .err _ => .err .invalidLanguage
      | .panic => .panic
      | .ok (id, rest) => resume id {} false false rest := by
  unfold Locale.parse resume run ExtMap.parseIter
  cases LangId.parseIter ts true with
  | err e => rfl
  | panic => rfl
  | ok p =>
    obtain ⟨id, rest⟩ := p
    simp only
    cases ExtMap.loop (rest.length + 1) rest {} false false <;> rfl

/-! ### every prefix without a private-use singleton leaves the parser at a section boundary
    (or has already decided the result) when a singleton follows -/

/-- no subtag of `P` is the private-use singleton `x` / `X` -/
def NoX (P : List Bytes) : Prop := ∀ p ∈ P, lower p ≠ [120]
instance (P : List Bytes) : Decidable (NoX P) := by unfold NoX; infer_instance

theorem NoX.suffix {P pre rest : List Bytes} (h : NoX P) (hs : P = pre ++ rest) : NoX rest :=
  fun p hp => h p (by rw [hs]; exact List.mem_append_right _ hp)

theorem run_prefix (n : Nat) : ∀ (P : List Bytes), P.length ≤ n → NoX P → ∀ (m : ExtMap) (su st : Bool),
    (∃ res, ∀ b r, run (P ++ [b] :: r) m su st = res) ∨
    (∃ m' su' st', ∀ b r, run (P ++ [b] :: r) m su st = run ([b] :: r) m' su' st') := by
  induction n with
  | zero =>
    intro P hl hx m su st
    have : P = [] := List.eq_nil_of_length_eq_zero (by omega)
    subst this
    exact .inr ⟨m, su, st, fun _ _ => rfl⟩
  | succ n ih =>
    intro P hl hx m su st
    cases P with
    | nil => exact .inr ⟨m, su, st, fun _ _ => rfl⟩
    | cons t P =>
      simp only [List.length_cons] at hl
      have hxP : NoX P := fun p hp => hx p (List.mem_cons_of_mem _ hp)
      by_cases hlen : t.length > 1
      · exact .inl ⟨_, fun b r => run_long _ _ _ _ _ hlen⟩
      · match t, hlen with
        | [], _ =>
          simp only [List.cons_append, run_empty]
          exact ih P (by omega) hxP m su st
        | [c], _ =>
          simp only [List.cons_append]
          by_cases h1 : toLower c = 117
          · simp only [run_u c h1]
            cases su with
            | true => exact .inl ⟨_, fun _ _ => rfl⟩
            | false =>
              have hA : ∀ b r, UExt.parseIter (P ++ [b] :: r) = restAppend ([b] :: r) (UExt.parseIter P) :=
                fun b r => UExt.parseIter_append P _ (singletonHead_cons b r)
              simp only [Bool.false_eq_true, if_false, hA]
              cases hp : UExt.parseIter P with
              | err e => exact .inl ⟨.err e, fun _ _ => rfl⟩
              | panic => exact .inl ⟨.panic, fun _ _ => rfl⟩
              | ok p =>
                obtain ⟨u, rest⟩ := p
                obtain ⟨pre, hs⟩ := UExt.loop_suffix hp
                have := suffix_length hs
                simp only [restAppend, Res.map]
                exact ih rest (by omega) (hxP.suffix hs) _ _ _
          · by_cases h2 : toLower c = 116
            · simp only [run_t c h2]
              cases st with
              | true => exact .inl ⟨_, fun _ _ => rfl⟩
              | false =>
                have hA : ∀ b r, TExt.parseIter (P ++ [b] :: r) = restAppend ([b] :: r) (TExt.parseIter P) :=
                  fun b r => TExt.parseIter_append P _ (singletonHead_cons b r)
                simp only [Bool.false_eq_true, if_false, hA]
                cases hp : TExt.parseIter P with
                | err e => exact .inl ⟨.err e, fun _ _ => rfl⟩
                | panic => exact .inl ⟨.panic, fun _ _ => rfl⟩
                | ok p =>
                  obtain ⟨u, rest⟩ := p
                  obtain ⟨pre, hs⟩ := TExt.parseIter_suffix hp
                  have := suffix_length hs
                  simp only [restAppend, Res.map]
                  exact ih rest (by omega) (hxP.suffix hs) _ _ _
            · have h3 : toLower c ≠ 120 := fun h => hx [c] (by simp) (by simp [lower, h])
              exact .inl ⟨_, fun b r => run_other c h1 h2 h3 _ _ _ _⟩
        | _ :: _ :: _, h => exact absurd (by simp) h

/-- **Boundary theorem.**  For a prefix `P` without a private-use singleton, followed by any
    singleton subtag `[b]` and anything at all: either the result is already decided by `P`, or the
    parser is at a section boundary in a state that depends on `P` only. -/
theorem Locale.parse_prefix (P : List Bytes) (hx : NoX P) :
    (∃ res, ∀ b r, Locale.parse (P ++ [b] :: r) = res) ∨
    (∃ id m su st, ∀ b r, Locale.parse (P ++ [b] :: r) = resume id m su st ([b] :: r)) := by
  cases P with
  | nil =>
    refine .inl ⟨.err .invalidLanguage, fun b r => ?_⟩
    have : Language.fromBytes [b] = .err .invalidLanguage := by
      rw [language_exact]; rfl
    simp [Locale.parse, LangId.parseIter, this, Res.map]
  | cons l p0 =>
    have hA : ∀ b r, LangId.parseIter (l :: p0 ++ [b] :: r) true =
        restAppend ([b] :: r) (LangId.parseIter (l :: p0) true) :=
      fun b r => LangId.parseIter_append l p0 _ (singleton_not_shapes (singletonHead_cons b r))
    simp only [Locale.parse_eq, hA]
    cases hp : LangId.parseIter (l :: p0) true with
    | err e => exact .inl ⟨_, fun _ _ => rfl⟩
    | panic => exact .inl ⟨_, fun _ _ => rfl⟩
    | ok p =>
      obtain ⟨id, rest⟩ := p
      obtain ⟨pre, hs⟩ := LangId.parseIter_suffix' hp
      simp only [restAppend, Res.map]
      rcases run_prefix rest.length rest (Nat.le_refl _) (hx.suffix hs) {} false false with
        ⟨res, h⟩ | ⟨m', su', st', h⟩
      · exact .inl ⟨res.map fun ext => { id := id, ext := ext }, fun b r => by simp only [resume, h]⟩
      · exact .inr ⟨id, m', su', st', fun b r => by simp only [resume, h]⟩

/-- lifting: two continuations, each starting with a singleton, that agree from every boundary
    state agree after every prefix without a private-use singleton -/
theorem Locale.parse_congr (P : List Bytes) (hx : NoX P) (b b' : Nat) (r r' : List Bytes)
    (h : ∀ m su st, run ([b] :: r) m su st = run ([b'] :: r') m su st) :
    Locale.parse (P ++ [b] :: r) = Locale.parse (P ++ [b'] :: r') := by
  rcases Locale.parse_prefix P hx with ⟨res, h1⟩ | ⟨id, m, su, st, h1⟩
  · rw [h1, h1]
  · rw [h1, h1, resume, resume, h]

/-! ### (a) variants -/

/-- two lists with the same elements, in the form `decide` can check on concrete lists -/
theorem same_set_of_subsets {l₁ l₂ : List Bytes} (h1 : ∀ x ∈ l₁, x ∈ l₂) (h2 : ∀ x ∈ l₂, x ∈ l₁) :
    ∀ x, x ∈ l₁ ↔ x ∈ l₂ := fun x => ⟨h1 x, h2 x⟩

theorem toSet_congr {l₁ l₂ : List Bytes} (h : ∀ x, x ∈ l₁ ↔ x ∈ l₂) : Spec.toSet l₁ = Spec.toSet l₂ := by
  rw [← dedup_sort_eq_toSet, ← dedup_sort_eq_toSet, dedup_sort_congr h]

theorem takeOpt_none {p : Bytes → Bool} (X : List Bytes) (hX : ∀ t ∈ X.head?, p t = false) :
    Spec.takeOpt p X = (none, X) := by
  cases X with
  | nil => rfl
  | cons y ys => simp [Spec.takeOpt, hX y (by simp)]

theorem takeOpt_pos {p : Bytes → Bool} {t : Bytes} (ts : List Bytes) (h : p t = true) :
    Spec.takeOpt p (t :: ts) = (some t, ts) := by simp [Spec.takeOpt, h]
theorem takeOpt_neg {p : Bytes → Bool} {t : Bytes} (ts : List Bytes) (h : p t = false) :
    Spec.takeOpt p (t :: ts) = (none, t :: ts) := by simp [Spec.takeOpt, h]

/-- The state machine on `script? region? V ++ rest` when the decomposition is forced: either
    `V` is not empty or `rest` does not start with a script- or region-shaped subtag. -/
theorem read_shape (s r : Option Bytes) (V rest : List Bytes)
    (hs : ∀ t ∈ s, Spec.isScript t = true) (hr : ∀ t ∈ r, Spec.isRegion t = true)
    (hV : ∀ t ∈ V, Spec.isVariant t = true)
    (hrest : V ≠ [] ∨ ∀ t ∈ rest.head?, Spec.isScript t = false ∧ Spec.isRegion t = false) :
    LangId.loop 1 (s.toList ++ r.toList ++ V ++ rest) none none [] =
      .ok (s.map title, r.map upper, (V ++ rest.takeWhile Spec.isVariant).map lower,
           rest.dropWhile Spec.isVariant) := by
  have hX : ∀ t ∈ (V ++ rest).head?, Spec.isScript t = false ∧ Spec.isRegion t = false := by
    cases V with
    | nil =>
      rcases hrest with h | h
      · exact absurd rfl h
      · simpa using h
    | cons v V' =>
      intro t ht
      simp only [List.cons_append, List.head?_cons, Option.mem_def, Option.some.injEq] at ht
      subst ht
      have := hV v (by simp)
      exact ⟨isVariant_not_script this, isVariant_not_region this⟩
  have hT : ((V ++ rest).takeWhile Spec.isVariant) = V ++ rest.takeWhile Spec.isVariant :=
    List.takeWhile_append_of_pos hV
  have hD : ((V ++ rest).dropWhile Spec.isVariant) = rest.dropWhile Spec.isVariant :=
    List.dropWhile_append_of_pos hV
  rw [LangId.loop_pos1]
  cases s with
  | none =>
    cases r with
    | none =>
      simp only [Option.toList_none, List.nil_append, Option.map_none]
      rw [takeOpt_none _ (fun t ht => (hX t ht).1)]
      simp only
      rw [takeOpt_none _ (fun t ht => (hX t ht).2)]
      simp only [hT, hD, Option.map_none]
    | some rg =>
      have h1 := hr rg rfl
      have h2 := isRegion_not_script h1
      simp only [Option.toList_none, Option.toList_some, List.nil_append, List.cons_append]
      rw [takeOpt_neg _ h2]
      simp only
      rw [takeOpt_pos _ h1]
      simp only [hT, hD, Option.map_none, Option.map_some]
  | some sc =>
    have h0 := hs sc rfl
    cases r with
    | none =>
      simp only [Option.toList_none, Option.toList_some, List.nil_append, List.cons_append,
        List.append_nil]
      rw [takeOpt_pos _ h0]
      simp only
      rw [takeOpt_none _ (fun t ht => (hX t ht).2)]
      simp only [hT, hD, Option.map_none, Option.map_some]
    | some rg =>
      have h1 := hr rg rfl
      simp only [Option.toList_some, List.nil_append, List.cons_append]
      rw [takeOpt_pos _ h0]
      simp only
      rw [takeOpt_pos _ h1]
      simp only [hT, hD, Option.map_some]

theorem finishVariants_congr {l₁ l₂ : List Bytes} (h : ∀ x, x ∈ l₁ ↔ x ∈ l₂) :
    LangId.finishVariants l₁ = LangId.finishVariants l₂ := by
  rw [LangId.finishVariants_eq, LangId.finishVariants_eq, toSet_congr h]

/-- **(a)** the identifier parser does not see the order or repetition of a run of variants -/
theorem LangId.parseIter_variants (a : Bool) (l : Bytes) (s r : Option Bytes) (pv vs vs' post : List Bytes)
    (hs : ∀ t ∈ s, Spec.isScript t = true) (hr : ∀ t ∈ r, Spec.isRegion t = true)
    (hpv : ∀ t ∈ pv, Spec.isVariant t = true)
    (hvs : ∀ t ∈ vs, Spec.isVariant t = true) (hvs' : ∀ t ∈ vs', Spec.isVariant t = true)
    (hset : ∀ x, x ∈ vs.map lower ↔ x ∈ vs'.map lower) :
    LangId.parseIter (l :: (s.toList ++ r.toList ++ pv ++ vs ++ post)) a =
    LangId.parseIter (l :: (s.toList ++ r.toList ++ pv ++ vs' ++ post)) a := by
  cases vs with
  | nil =>
    cases vs' with
    | nil => rfl
    | cons v' _ => exact absurd ((hset (lower v')).2 (by simp)) (by simp)
  | cons v vs1 =>
    cases vs' with
    | nil => exact absurd ((hset (lower v)).1 (by simp)) (by simp)
    | cons v' vs1' =>
      have e1 := read_shape s r (pv ++ v :: vs1) post hs hr
        (by intro t ht; rcases List.mem_append.1 ht with h | h; exact hpv t h; exact hvs t h)
        (.inl (by simp))
      have e2 := read_shape s r (pv ++ v' :: vs1') post hs hr
        (by intro t ht; rcases List.mem_append.1 ht with h | h; exact hpv t h; exact hvs' t h)
        (.inl (by simp))
      simp only [← List.append_assoc] at e1 e2
      have hfin : LangId.finishVariants (List.map lower (pv ++ v :: vs1 ++ List.takeWhile Spec.isVariant post)) =
          LangId.finishVariants (List.map lower (pv ++ v' :: vs1' ++ List.takeWhile Spec.isVariant post)) := by
        apply finishVariants_congr
        intro x
        have := hset x
        simp only [List.map_append, List.mem_append] at this ⊢
        rw [this]
      simp only [LangId.parseIter]
      cases Language.fromBytes l with
      | err e => rfl
      | panic => rfl
      | ok lang => simp only [Res.map, e1, e2, hfin]

/-! ### (b) `-u-` attributes -/

/-- the pending keyword `(ck, ct)` written into a keyword map -/
def flushK (K : AMap) (ck : Option Bytes) (ct : List Bytes) : AMap :=
  match ck with
  | some k => AMap.insert k ct K
  | none => K

theorem UExt.flush_mk (K : AMap) (A : List Bytes) (ck : Option Bytes) (ct : List Bytes) :
    UExt.flush ⟨K, A⟩ ck ct = ⟨flushK K ck ct, A⟩ := by
  cases ck <;> rfl

theorem UExt.finish_mk (K : AMap) (A : List Bytes) (ck : Option Bytes) (ct : List Bytes) :
    UExt.finish ⟨K, A⟩ ck ct = ⟨flushK K ck ct, dedupAdj (sortBytes A)⟩ := by
  cases ck <;> rfl

/-- the loop sees the accumulated attributes only as a set -/
theorem UExt.loop_attr_congr (post : List Bytes) (K : AMap) (A A' : List Bytes) (ck : Option Bytes)
    (ct : List Bytes) (h : ∀ x, x ∈ A ↔ x ∈ A') :
    UExt.loop post ⟨K, A⟩ ck ct = UExt.loop post ⟨K, A'⟩ ck ct := by
  induction post generalizing K A A' ck ct with
  | nil => simp only [UExt.loop, UExt.finish_mk, dedup_sort_congr h]
  | cons t ts ih =>
    simp only [UExt.loop, UExt.flush_mk, UExt.finish_mk, dedup_sort_congr h]
    split
    · cases parseKey t with
      | err e => rfl
      | panic => rfl
      | ok k => exact ih _ _ _ _ _ h
    · split
      · cases parseType t with
        | err e => rfl
        | panic => rfl
        | ok o =>
          cases o with
          | some ty => exact ih _ _ _ _ _ h
          | none => exact ih _ _ _ _ _ h
      · split
        · cases parseAttribute t with
          | err e => rfl
          | panic => rfl
          | ok a =>
            apply ih
            intro x
            simp only [List.mem_append, h x]
        · rfl

/-- a run of attribute-shaped subtags read before any key: all become attributes -/
theorem UExt.loop_attrs (as post : List Bytes) (K : AMap) (A : List Bytes) (ct : List Bytes)
    (has : ∀ a ∈ as, Spec.isAttr a = true) :
    UExt.loop (as ++ post) ⟨K, A⟩ none ct = UExt.loop post ⟨K, A ++ as.map lower⟩ none ct := by
  induction as generalizing A with
  | nil => simp
  | cons a as ih =>
    have ha := has a (by simp)
    have h2 : (a.length == 2) = false := by
      have := isAttr_spec ha
      simp; omega
    simp only [List.cons_append, UExt.loop, h2, Bool.false_eq_true, if_false, Option.isSome_none,
      Bool.false_and, isTypeShape_eq, ha, if_true, parseAttribute_exact]
    rw [ih _ (fun x hx => has x (by simp [hx]))]
    simp

/-- **(b)** the `-u-` parser does not see the order or repetition of the attributes -/
theorem UExt.parseIter_attrs (as as' post : List Bytes)
    (has : ∀ a ∈ as, Spec.isAttr a = true) (has' : ∀ a ∈ as', Spec.isAttr a = true)
    (hset : ∀ x, x ∈ as.map lower ↔ x ∈ as'.map lower) :
    UExt.parseIter (as ++ post) = UExt.parseIter (as' ++ post) := by
  unfold UExt.parseIter
  have e : ({} : UExt) = ⟨[], []⟩ := rfl
  rw [e, UExt.loop_attrs as post _ _ _ has, UExt.loop_attrs as' post _ _ _ has']
  exact UExt.loop_attr_congr _ _ _ _ _ _ (by simpa using hset)

/-! ### (c) `-u-` keywords -/

/-- the stored values of a run of type subtags: lower-cased, `true` dropped -/
def vals (tys : List Bytes) : List Bytes := (tys.map lower).filter (· != trueBytes)

theorem vals_cons (t : Bytes) (tys : List Bytes) :
    vals (t :: tys) = if lower t == trueBytes then vals tys else lower t :: vals tys := by
  unfold vals
  simp only [List.map_cons, List.filter_cons]
  by_cases h : (lower t == trueBytes) = true
  · simp [h, bne]
  · simp [h, bne]

/-- a group `key type*` as (key subtag, type subtags); its subtags; its stored form -/
abbrev Group := Bytes × List Bytes
def flat (G : List Group) : List Bytes := G.flatMap fun g => g.1 :: g.2
def ngroup (g : Group) : Group := (lower g.1, vals g.2)
def insAll (N : List Group) (K : AMap) : AMap := N.foldl (fun m g => AMap.insert g.1 g.2 m) K

theorem flat_cons (g : Group) (G : List Group) : flat (g :: G) = g.1 :: (g.2 ++ flat G) := by
  simp [flat]
theorem flat_nil : flat [] = [] := rfl

/-- well-formed keyword group: a key followed by type-shaped subtags -/
def UGroup (g : Group) : Prop := Spec.isKey g.1 = true ∧ ∀ t ∈ g.2, Spec.isAttr t = true
instance (g : Group) : Decidable (UGroup g) := by unfold UGroup; infer_instance

theorem UExt.loop_types (tys post : List Bytes) (u : UExt) (k : Bytes) (ct : List Bytes)
    (h : ∀ t ∈ tys, Spec.isAttr t = true) :
    UExt.loop (tys ++ post) u (some k) ct = UExt.loop post u (some k) (ct ++ vals tys) := by
  induction tys generalizing ct with
  | nil => simp [vals]
  | cons t tys ih =>
    have ha := h t (by simp)
    have h2 : (t.length == 2) = false := by
      have := isAttr_spec ha
      simp; omega
    simp only [List.cons_append, UExt.loop, h2, Bool.false_eq_true, if_false, Option.isSome_some,
      Bool.true_and, isTypeShape_eq, ha, if_true, parseType_exact, vals_cons]
    by_cases ht : (lower t == trueBytes) = true
    · simp only [ht, if_true]
      exact ih _ (fun x hx => h x (by simp [hx]))
    · simp only [ht, Bool.false_eq_true, if_false]
      rw [ih _ (fun x hx => h x (by simp [hx]))]
      simp

theorem UExt.loop_group (g : Group) (post : List Bytes) (K : AMap) (A : List Bytes) (ck : Option Bytes)
    (ct : List Bytes) (hg : UGroup g) (hinv : ck.isSome = true ∨ ct = []) :
    UExt.loop (g.1 :: (g.2 ++ post)) ⟨K, A⟩ ck ct =
      UExt.loop post ⟨flushK K ck ct, A⟩ (some (lower g.1)) (vals g.2) := by
  have h2 : (g.1.length == 2) = true := by simp [isKey_length hg.1]
  have hct : (if ck.isSome = true then [] else ct) = [] := by
    rcases hinv with h | h
    · simp [h]
    · simp [h]
  simp only [UExt.loop, h2, if_true, parseKey_exact, hg.1, UExt.flush_mk, hct]
  rw [UExt.loop_types _ _ _ _ _ hg.2]
  simp

/-- after a non-empty list of groups the loop holds the last group pending; flushing it gives
    all groups inserted in order -/
theorem UExt.loop_groups (g : Group) (G : List Group) (post : List Bytes) (K : AMap) (A : List Bytes)
    (ck : Option Bytes) (ct : List Bytes) (hG : ∀ x ∈ g :: G, UGroup x) (hinv : ck.isSome = true ∨ ct = []) :
    ∃ K' k v, UExt.loop (flat (g :: G) ++ post) ⟨K, A⟩ ck ct = UExt.loop post ⟨K', A⟩ (some k) v ∧
      AMap.insert k v K' = insAll ((g :: G).map ngroup) (flushK K ck ct) := by
  induction G generalizing g K ck ct with
  | nil =>
    refine ⟨flushK K ck ct, lower g.1, vals g.2, ?_, rfl⟩
    simp only [flat_cons, flat_nil, List.append_nil, List.cons_append]
    exact UExt.loop_group g post K A ck ct (hG g (by simp)) hinv
  | cons g2 G ih =>
    obtain ⟨K', k, v, h1, h2⟩ := ih g2 (flushK K ck ct) (some (lower g.1)) (vals g.2)
      (fun x hx => hG x (by simp [hx])) (.inl rfl)
    refine ⟨K', k, v, ?_, ?_⟩
    · rw [flat_cons, List.cons_append, List.append_assoc,
        UExt.loop_group g _ K A ck ct (hG g (by simp)) hinv, h1]
    · rw [h2]; rfl

/-- from a state with a pending key, a continuation that does not start with a type-shaped subtag
    sees only the flushed map -/
theorem UExt.loop_post_flush (post : List Bytes) (hpost : ∀ t ∈ post.head?, Spec.isAttr t = false)
    (K₁ K₂ : AMap) (A : List Bytes) (k₁ k₂ : Bytes) (v₁ v₂ : List Bytes)
    (h : AMap.insert k₁ v₁ K₁ = AMap.insert k₂ v₂ K₂) :
    UExt.loop post ⟨K₁, A⟩ (some k₁) v₁ = UExt.loop post ⟨K₂, A⟩ (some k₂) v₂ := by
  have hf : flushK K₁ (some k₁) v₁ = flushK K₂ (some k₂) v₂ := h
  cases post with
  | nil => simp only [UExt.loop, UExt.finish_mk, hf]
  | cons t ts =>
    have ht := hpost t (by simp)
    simp only [UExt.loop, UExt.flush_mk, UExt.finish_mk, hf, isTypeShape_eq, ht, Bool.and_false,
      Bool.false_eq_true, if_false, Option.isSome_some, if_true]

/-- a fold that commutes on the elements of the list, on accumulators satisfying an invariant,
    does not see the order -/
theorem foldl_perm_inv {α β} {f : β → α → β} {P : β → Prop} (hP : ∀ z x, P z → P (f z x))
    {l₁ l₂ : List α} (p : l₁.Perm l₂)
    (comm : ∀ x ∈ l₁, ∀ y ∈ l₁, ∀ z, P z → f (f z x) y = f (f z y) x) (init : β) (h0 : P init) :
    l₁.foldl f init = l₂.foldl f init := by
  induction p generalizing init with
  | nil => rfl
  | cons x _ ih =>
    simp only [List.foldl_cons]
    exact ih (fun a ha b hb => comm a (by simp [ha]) b (by simp [hb])) _ (hP _ _ h0)
  | swap x y l =>
    simp only [List.foldl_cons]
    rw [comm y (by simp) x (by simp) init h0]
  | trans p1 _ ih1 ih2 =>
    rw [ih1 comm init h0]
    exact ih2 (fun a ha b hb => comm a (p1.mem_iff.2 ha) b (p1.mem_iff.2 hb)) init h0

theorem pairwise_mem {α} {R : α → α → Prop} (hsym : ∀ a b, R a b → R b a) {l : List α}
    (h : l.Pairwise R) {x y : α} (hx : x ∈ l) (hy : y ∈ l) (hne : x ≠ y) : R x y := by
  induction l with
  | nil => cases hx
  | cons a l ih =>
    rw [List.pairwise_cons] at h
    rcases List.mem_cons.1 hx with rfl | hx' <;> rcases List.mem_cons.1 hy with rfl | hy'
    · exact absurd rfl hne
    · exact h.1 _ hy'
    · exact hsym _ _ (h.1 _ hx')
    · exact ih h.2 hx' hy'

theorem insAll_sorted (N : List Group) {K : AMap} (hK : AMap.sortedKeys K = true) :
    AMap.sortedKeys (insAll N K) = true := by
  induction N generalizing K with
  | nil => exact hK
  | cons g N ih => exact ih (AMap.sortedKeys_insert hK)

/-- inserting groups with pairwise distinct keys: the order does not matter -/
theorem insAll_perm {N N' : List Group} (hp : N.Perm N') (hnd : (N.map (·.1)).Nodup) {K : AMap}
    (hK : AMap.sortedKeys K = true) : insAll N K = insAll N' K := by
  unfold insAll
  refine foldl_perm_inv (P := fun m => AMap.sortedKeys m = true)
    (fun z x hz => AMap.sortedKeys_insert hz) hp ?_ K hK
  intro x hx y hy z hz
  by_cases hxy : x = y
  · subst hxy; rfl
  · have hpw : N.Pairwise (fun a b => a.1 ≠ b.1) := by
      have := hnd
      unfold List.Nodup at this
      rwa [List.pairwise_map] at this
    have hne : x.1 ≠ y.1 := pairwise_mem (fun a b h => fun e => h e.symm) hpw hx hy hxy
    exact AMap.insert_comm hne.symm hz

theorem flushK_sorted {K : AMap} (hK : AMap.sortedKeys K = true) (ck : Option Bytes) (ct : List Bytes) :
    AMap.sortedKeys (flushK K ck ct) = true := by
  cases ck with
  | none => exact hK
  | some k => exact AMap.sortedKeys_insert hK

/-- **(c), loop level**: keyword groups with pairwise distinct keys may be permuted -/
theorem UExt.loop_groups_perm (G G' : List Group) (post : List Bytes) (K : AMap) (A : List Bytes)
    (ck : Option Bytes) (ct : List Bytes)
    (hG : ∀ g ∈ G, UGroup g) (hp : G.Perm G') (hnd : (G.map fun g => lower g.1).Nodup)
    (hpost : ∀ t ∈ post.head?, Spec.isAttr t = false)
    (hinv : ck.isSome = true ∨ ct = []) (hK : AMap.sortedKeys K = true) :
    UExt.loop (flat G ++ post) ⟨K, A⟩ ck ct = UExt.loop (flat G' ++ post) ⟨K, A⟩ ck ct := by
  have hG' : ∀ g ∈ G', UGroup g := fun g hg => hG g (hp.mem_iff.2 hg)
  cases G with
  | nil => rw [List.Perm.nil_eq hp]
  | cons g G =>
    cases G' with
    | nil => exact absurd hp.symm.nil_eq (by simp)
    | cons g' G' =>
      obtain ⟨K₁, k₁, v₁, e₁, i₁⟩ := UExt.loop_groups g G post K A ck ct hG hinv
      obtain ⟨K₂, k₂, v₂, e₂, i₂⟩ := UExt.loop_groups g' G' post K A ck ct hG' hinv
      rw [e₁, e₂]
      apply UExt.loop_post_flush post hpost
      rw [i₁, i₂]
      apply insAll_perm (hp.map ngroup) _ (flushK_sorted hK ck ct)
      simpa [List.map_map, Function.comp_def, ngroup] using hnd

/-- a run of key- or type-shaped subtags never stops or fails the `-u-` loop; it leaves a state
    with a key-sorted map and (pending key or no pending types) -/
theorem UExt.loop_pre (upre : List Bytes) (h : ∀ t ∈ upre, Spec.isKey t = true ∨ Spec.isAttr t = true)
    (K : AMap) (A : List Bytes) (ck : Option Bytes) (ct : List Bytes)
    (hinv : ck.isSome = true ∨ ct = []) (hK : AMap.sortedKeys K = true) :
    ∃ K' A' ck' ct', (ck'.isSome = true ∨ ct' = []) ∧ AMap.sortedKeys K' = true ∧
      ∀ rest, UExt.loop (upre ++ rest) ⟨K, A⟩ ck ct = UExt.loop rest ⟨K', A'⟩ ck' ct' := by
  induction upre generalizing K A ck ct with
  | nil => exact ⟨K, A, ck, ct, hinv, hK, fun _ => rfl⟩
  | cons t upre ih =>
    have hrec := fun x hx => h x (List.mem_cons_of_mem _ hx)
    rcases h t (by simp) with hk | ha
    · obtain ⟨K', A', ck', ct', h1, h2, h3⟩ := ih hrec (flushK K ck ct) A (some (lower t)) []
        (.inl rfl) (flushK_sorted hK ck ct)
      refine ⟨K', A', ck', ct', h1, h2, fun rest => ?_⟩
      have := UExt.loop_group (t, []) (upre ++ rest) K A ck ct ⟨hk, by simp⟩ hinv
      simp only [List.nil_append, vals, List.map_nil, List.filter_nil] at this
      rw [List.cons_append, this, h3]
    · have h2 : (t.length == 2) = false := by
        have := isAttr_spec ha
        simp; omega
      cases ck with
      | some k =>
        obtain ⟨K', A', ck', ct', h1, h2', h3⟩ := ih hrec K A (some k) (ct ++ vals [t]) (.inl rfl) hK
        refine ⟨K', A', ck', ct', h1, h2', fun rest => ?_⟩
        have := UExt.loop_types [t] (upre ++ rest) ⟨K, A⟩ k ct (by simpa using ha)
        simp only [List.cons_append, List.nil_append] at this
        rw [List.cons_append, this, h3]
      | none =>
        have hct : ct = [] := by simpa using hinv
        obtain ⟨K', A', ck', ct', h1, h2', h3⟩ := ih hrec K (A ++ [lower t]) none ct (.inr hct) hK
        refine ⟨K', A', ck', ct', h1, h2', fun rest => ?_⟩
        have := UExt.loop_attrs [t] (upre ++ rest) K A ct (by simpa using ha)
        simp only [List.cons_append, List.nil_append, List.map_cons, List.map_nil] at this
        rw [List.cons_append, this, h3]

/-- **(c)** inside a `-u-` section (after any attributes and keywords), keyword groups with pairwise
    distinct keys may be permuted, whatever follows that does not start with a type-shaped subtag -/
theorem UExt.parseIter_keywords (upre : List Bytes) (G G' : List Group) (post : List Bytes)
    (hpre : ∀ t ∈ upre, Spec.isKey t = true ∨ Spec.isAttr t = true)
    (hG : ∀ g ∈ G, UGroup g) (hp : G.Perm G') (hnd : (G.map fun g => lower g.1).Nodup)
    (hpost : ∀ t ∈ post.head?, Spec.isAttr t = false) :
    UExt.parseIter (upre ++ (flat G ++ post)) = UExt.parseIter (upre ++ (flat G' ++ post)) := by
  unfold UExt.parseIter
  have e : ({} : UExt) = ⟨[], []⟩ := rfl
  obtain ⟨K', A', ck', ct', h1, h2, h3⟩ := UExt.loop_pre upre hpre [] [] none [] (.inr rfl) rfl
  rw [e, h3, h3]
  exact UExt.loop_groups_perm G G' post K' A' ck' ct' hG hp hnd hpost h1 h2

/-! ### (d) `-t-` fields -/

theorem TExt.flush_mk (tl : Option LangId) (F : AMap) (ck : Option Bytes) (cv : List Bytes) :
    TExt.flush ⟨tl, F⟩ ck cv = ⟨tl, flushK F ck cv⟩ := by
  cases ck <;> rfl

/-- well-formed tfield group: a tkey followed by value-shaped subtags -/
def TGroup (g : Group) : Prop := Spec.isTKey g.1 = true ∧ ∀ t ∈ g.2, Spec.isAttr t = true
instance (g : Group) : Decidable (TGroup g) := by unfold TGroup; infer_instance

theorem attr_not_tkey {t : Bytes} (h : Spec.isAttr t = true) : isTKeyShape t = false := by
  rw [isTKeyShape_eq]
  cases hk : Spec.isTKey t with
  | false => rfl
  | true =>
    have := isTKey_length hk
    have := isAttr_spec h
    omega

theorem TExt.fieldLoop_values (tys post : List Bytes) (x : TExt) (k : Bytes) (cv : List Bytes)
    (h : ∀ t ∈ tys, Spec.isAttr t = true) :
    TExt.fieldLoop (tys ++ post) x (some k) cv = TExt.fieldLoop post x (some k) (cv ++ vals tys) := by
  induction tys generalizing cv with
  | nil => simp [vals]
  | cons t tys ih =>
    have ha := h t (by simp)
    have h1 : (t.length == 1) = false := by
      have := isAttr_spec ha
      simp; omega
    simp only [List.cons_append, TExt.fieldLoop, attr_not_tkey ha, h1, Bool.false_eq_true, if_false,
      Option.isSome_some, if_true, parseTValue_eq, parseType_exact, ha, vals_cons]
    by_cases ht : (lower t == trueBytes) = true
    · simp only [ht, if_true]
      exact ih _ (fun x hx => h x (by simp [hx]))
    · simp only [ht, Bool.false_eq_true, if_false]
      rw [ih _ (fun x hx => h x (by simp [hx]))]
      simp

theorem TExt.fieldLoop_group (g : Group) (post : List Bytes) (tl : Option LangId) (F : AMap)
    (ck : Option Bytes) (cv : List Bytes) (hg : TGroup g) (hinv : ck.isSome = true ∨ cv = []) :
    TExt.fieldLoop (g.1 :: (g.2 ++ post)) ⟨tl, F⟩ ck cv =
      TExt.fieldLoop post ⟨tl, flushK F ck cv⟩ (some (lower g.1)) (vals g.2) := by
  have hcv : (if ck.isSome = true then [] else cv) = [] := by
    rcases hinv with h | h
    · simp [h]
    · simp [h]
  simp only [TExt.fieldLoop, isTKeyShape_eq, hg.1, if_true, parseTKey_exact, TExt.flush_mk, hcv]
  rw [TExt.fieldLoop_values _ _ _ _ _ hg.2]
  simp

theorem TExt.fieldLoop_groups (g : Group) (G : List Group) (post : List Bytes) (tl : Option LangId)
    (F : AMap) (ck : Option Bytes) (cv : List Bytes) (hG : ∀ x ∈ g :: G, TGroup x)
    (hinv : ck.isSome = true ∨ cv = []) :
    ∃ F' k v, TExt.fieldLoop (flat (g :: G) ++ post) ⟨tl, F⟩ ck cv =
        TExt.fieldLoop post ⟨tl, F'⟩ (some k) v ∧
      AMap.insert k v F' = insAll ((g :: G).map ngroup) (flushK F ck cv) := by
  induction G generalizing g F ck cv with
  | nil =>
    refine ⟨flushK F ck cv, lower g.1, vals g.2, ?_, rfl⟩
    simp only [flat_cons, flat_nil, List.append_nil, List.cons_append]
    exact TExt.fieldLoop_group g post tl F ck cv (hG g (by simp)) hinv
  | cons g2 G ih =>
    obtain ⟨F', k, v, h1, h2⟩ := ih g2 (flushK F ck cv) (some (lower g.1)) (vals g.2)
      (fun x hx => hG x (by simp [hx])) (.inl rfl)
    refine ⟨F', k, v, ?_, ?_⟩
    · rw [flat_cons, List.cons_append, List.append_assoc,
        TExt.fieldLoop_group g _ tl F ck cv (hG g (by simp)) hinv, h1]
    · rw [h2]; rfl

theorem parseTValue_err {t : Bytes} (h : Spec.isAttr t = false) : parseTValue t = .err .invalidSubtag := by
  rw [parseTValue_eq, parseType_exact, h]; rfl

theorem TExt.fieldLoop_post_flush (post : List Bytes) (hpost : ∀ t ∈ post.head?, Spec.isAttr t = false)
    (tl : Option LangId) (F₁ F₂ : AMap) (k₁ k₂ : Bytes) (v₁ v₂ : List Bytes)
    (h : AMap.insert k₁ v₁ F₁ = AMap.insert k₂ v₂ F₂) :
    TExt.fieldLoop post ⟨tl, F₁⟩ (some k₁) v₁ = TExt.fieldLoop post ⟨tl, F₂⟩ (some k₂) v₂ := by
  have hf : flushK F₁ (some k₁) v₁ = flushK F₂ (some k₂) v₂ := h
  cases post with
  | nil => simp only [TExt.fieldLoop, TExt.flush_mk, hf]
  | cons t ts =>
    have ht := hpost t (by simp)
    simp only [TExt.fieldLoop, TExt.flush_mk, hf, parseTValue_err ht, Option.isSome_some, if_true]

/-- **(d), loop level**: tfield groups with pairwise distinct keys may be permuted -/
theorem TExt.fieldLoop_groups_perm (G G' : List Group) (post : List Bytes) (tl : Option LangId) (F : AMap)
    (ck : Option Bytes) (cv : List Bytes)
    (hG : ∀ g ∈ G, TGroup g) (hp : G.Perm G') (hnd : (G.map fun g => lower g.1).Nodup)
    (hpost : ∀ t ∈ post.head?, Spec.isAttr t = false)
    (hinv : ck.isSome = true ∨ cv = []) (hF : AMap.sortedKeys F = true) :
    TExt.fieldLoop (flat G ++ post) ⟨tl, F⟩ ck cv = TExt.fieldLoop (flat G' ++ post) ⟨tl, F⟩ ck cv := by
  have hG' : ∀ g ∈ G', TGroup g := fun g hg => hG g (hp.mem_iff.2 hg)
  cases G with
  | nil => rw [List.Perm.nil_eq hp]
  | cons g G =>
    cases G' with
    | nil => exact absurd hp.symm.nil_eq (by simp)
    | cons g' G' =>
      obtain ⟨K₁, k₁, v₁, e₁, i₁⟩ := TExt.fieldLoop_groups g G post tl F ck cv hG hinv
      obtain ⟨K₂, k₂, v₂, e₂, i₂⟩ := TExt.fieldLoop_groups g' G' post tl F ck cv hG' hinv
      rw [e₁, e₂]
      apply TExt.fieldLoop_post_flush post hpost
      rw [i₁, i₂]
      apply insAll_perm (hp.map ngroup) _ (flushK_sorted hF ck cv)
      simpa [List.map_map, Function.comp_def, ngroup] using hnd

/-- earlier groups leave a state with a key-sorted map and a pending key -/
theorem TExt.fieldLoop_pre (G0 : List Group) (hG0 : ∀ g ∈ G0, TGroup g) (tl : Option LangId) (F : AMap)
    (ck : Option Bytes) (cv : List Bytes) (hinv : ck.isSome = true ∨ cv = [])
    (hF : AMap.sortedKeys F = true) :
    ∃ F' ck' cv', (ck'.isSome = true ∨ cv' = []) ∧ AMap.sortedKeys F' = true ∧
      ∀ rest, TExt.fieldLoop (flat G0 ++ rest) ⟨tl, F⟩ ck cv = TExt.fieldLoop rest ⟨tl, F'⟩ ck' cv' := by
  induction G0 generalizing F ck cv with
  | nil => exact ⟨F, ck, cv, hinv, hF, fun _ => rfl⟩
  | cons g G0 ih =>
    obtain ⟨F', ck', cv', h1, h2, h3⟩ := ih (fun x hx => hG0 x (List.mem_cons_of_mem _ hx))
      (flushK F ck cv) (some (lower g.1)) (vals g.2) (.inl rfl) (flushK_sorted hF ck cv)
    refine ⟨F', ck', cv', h1, h2, fun rest => ?_⟩
    rw [flat_cons, List.cons_append, List.append_assoc,
      TExt.fieldLoop_group g _ tl F ck cv (hG0 g (by simp)) hinv, h3]

/-- `tl` is empty or has the form `language script? region? variant*` (a tlang) -/
inductive TLang : List Bytes → Prop
  | none : TLang []
  | some (l : Bytes) (s r : Option Bytes) (V : List Bytes) (hl : Spec.isLanguage l = true)
      (hs : ∀ t ∈ s, Spec.isScript t = true) (hr : ∀ t ∈ r, Spec.isRegion t = true)
      (hV : ∀ t ∈ V, Spec.isVariant t = true) : TLang (l :: (s.toList ++ r.toList ++ V))

/-- `rest` starts with a tkey-shaped subtag -/
def TKeyHead (rest : List Bytes) : Prop := ∃ k rs, rest = k :: rs ∧ Spec.isTKey k = true

theorem isLanguage_subtag {l : Bytes} (h : Spec.isLanguage l = true) :
    isLanguageSubtag l = true ∧ isTKeyShape l = false ∧ (l.length == 1) = false := by
  obtain ⟨h2, h8, h4, ha⟩ := isLanguage_spec h
  refine ⟨?_, ?_, ?_⟩
  · unfold isLanguageSubtag
    rw [any_not_eq_not_all]
    unfold allAlpha at ha
    simp [ha]; omega
  · rw [isTKeyShape_eq]
    cases hk : Spec.isTKey l with
    | false => rfl
    | true => rw [isTKey_not_language hk] at h; cases h
  · simp; omega

/-- a tlang followed by a tkey: the transform parser enters the field loop with that tlang -/
theorem TExt.parseIter_tlang {tl : List Bytes} (htl : TLang tl) :
    ∃ x0, ∀ rest, TKeyHead rest → TExt.parseIter (tl ++ rest) = TExt.fieldLoop rest ⟨x0, []⟩ none [] := by
  cases htl with
  | none =>
    refine ⟨none, fun rest hr => ?_⟩
    obtain ⟨k, rs, rfl, hk⟩ := hr
    simp only [List.nil_append, TExt.parseIter, isTKeyShape_eq, hk, if_true]
  | some l s r V hl hs hr hV =>
    obtain ⟨h1, h2, h3⟩ := isLanguage_subtag hl
    refine ⟨some { language := Spec.canonLanguage l, script := s.map title, region := r.map upper,
                   variants := LangId.finishVariants (V.map lower) }, fun rest hrest => ?_⟩
    obtain ⟨k, rs, rfl, hk⟩ := hrest
    have e := read_shape s r V (k :: rs) hs hr hV
      (.inr (by intro t ht; simp at ht; subst ht; exact ⟨isTKey_not_script hk, isTKey_not_region hk⟩))
    simp only [List.takeWhile_cons, List.dropWhile_cons, isTKey_not_variant hk, Bool.false_eq_true,
      if_false, List.append_nil] at e
    simp only [List.cons_append, TExt.parseIter, h1, h2, h3, Bool.false_eq_true, if_false, if_true,
      LangId.parseIter, language_exact, hl, Res.map, e, Bool.not_true, Bool.false_and]

/-- **(d)** inside a `-t-` section (after an optional tlang and any fields), tfield groups with
    pairwise distinct keys may be permuted, whatever follows that does not start with a
    value-shaped subtag -/
theorem TExt.parseIter_tfields (tl : List Bytes) (G0 G G' : List Group) (post : List Bytes)
    (htl : TLang tl) (hG0 : ∀ g ∈ G0, TGroup g)
    (hG : ∀ g ∈ G, TGroup g) (hp : G.Perm G') (hnd : (G.map fun g => lower g.1).Nodup)
    (hpost : ∀ t ∈ post.head?, Spec.isAttr t = false) :
    TExt.parseIter (tl ++ (flat G0 ++ (flat G ++ post))) =
    TExt.parseIter (tl ++ (flat G0 ++ (flat G' ++ post))) := by
  cases G with
  | nil => rw [List.Perm.nil_eq hp]
  | cons g G =>
    cases G' with
    | nil => exact absurd hp.symm.nil_eq (by simp)
    | cons g' G' =>
      have hG' : ∀ x ∈ g' :: G', TGroup x := fun x hx => hG x (hp.mem_iff.2 hx)
      have hhead : ∀ (g : Group) (G : List Group), TGroup g →
          TKeyHead (flat G0 ++ (flat (g :: G) ++ post)) := by
        intro g G hg
        cases G0 with
        | nil => exact ⟨g.1, g.2 ++ (flat G ++ post), by simp [flat_nil, flat_cons], hg.1⟩
        | cons g0 G0 =>
          exact ⟨g0.1, g0.2 ++ (flat G0 ++ (flat (g :: G) ++ post)), by simp [flat_cons],
            (hG0 g0 (by simp)).1⟩
      obtain ⟨x0, hx0⟩ := TExt.parseIter_tlang htl
      rw [hx0 _ (hhead g G (hG g (by simp))), hx0 _ (hhead g' G' (hG' g' (by simp)))]
      obtain ⟨F', ck', cv', h1, h2, h3⟩ := TExt.fieldLoop_pre G0 hG0 x0 [] none [] (.inr rfl) rfl
      rw [h3, h3]
      exact TExt.fieldLoop_groups_perm _ _ post x0 F' ck' cv' hG hp hnd hpost h1 h2

/-! ### the sections inside the dispatch loop; (e) swapping `-u-…` and `-t-…` -/

theorem run_u_congr (b : Nat) (hb : toLower b = 117) {r r' : List Bytes}
    (h : UExt.parseIter r = UExt.parseIter r') (m : ExtMap) (su st : Bool) :
    run ([b] :: r) m su st = run ([b] :: r') m su st := by
  rw [run_u b hb, run_u b hb, h]

theorem run_t_congr (b : Nat) (hb : toLower b = 116) {r r' : List Bytes}
    (h : TExt.parseIter r = TExt.parseIter r') (m : ExtMap) (su st : Bool) :
    run ([b] :: r) m su st = run ([b] :: r') m su st := by
  rw [run_t b hb, run_t b hb, h]

/-- **(e), loop level**: a `-u-` section and a `-t-` section whose bodies parse completely on their
    own may be swapped, from every state of the dispatch loop -/
theorem run_swap (bu bt : Nat) (hu : toLower bu = 117) (ht : toLower bt = 116)
    (ub tb post : List Bytes) (ux : UExt) (tx : TExt)
    (hub : UExt.parseIter ub = .ok (ux, [])) (htb : TExt.parseIter tb = .ok (tx, []))
    (hpost : SingletonHead post) (m : ExtMap) (su st : Bool) :
    run ([bu] :: (ub ++ [bt] :: (tb ++ post))) m su st =
    run ([bt] :: (tb ++ [bu] :: (ub ++ post))) m su st := by
  rw [run_u bu hu, run_t bt ht,
    UExt.parseIter_append ub _ (singletonHead_cons bt _), TExt.parseIter_append tb _ (singletonHead_cons bu _),
    hub, htb]
  simp only [restAppend, Res.map, List.nil_append]
  rw [run_u bu hu, run_t bt ht, UExt.parseIter_append ub _ hpost, TExt.parseIter_append tb _ hpost, hub, htb]
  simp only [restAppend, Res.map, List.nil_append]
  cases su <;> cases st <;> rfl

/-- a body made of attribute- and key-shaped subtags parses completely -/
theorem UExt.parseIter_complete (ub : List Bytes) (h : ∀ t ∈ ub, Spec.isKey t = true ∨ Spec.isAttr t = true) :
    ∃ ux, UExt.parseIter ub = .ok (ux, []) := by
  obtain ⟨K', A', ck', ct', _, _, h3⟩ := UExt.loop_pre ub h [] [] none [] (.inr rfl) rfl
  refine ⟨UExt.finish ⟨K', A'⟩ ck' ct', ?_⟩
  have := h3 []
  rw [List.append_nil] at this
  unfold UExt.parseIter
  have e : ({} : UExt) = ⟨[], []⟩ := rfl
  rw [e, this]; rfl

/-- a body made of an optional tlang and tfield groups parses completely -/
theorem TExt.parseIter_complete (tl : List Bytes) (G : List Group) (htl : TLang tl) (hG : ∀ g ∈ G, TGroup g) :
    ∃ tx, TExt.parseIter (tl ++ flat G) = .ok (tx, []) := by
  cases G with
  | nil =>
    simp only [flat_nil, List.append_nil]
    cases htl with
    | none => exact ⟨{}, rfl⟩
    | some l s r V hl hs hr hV =>
      obtain ⟨h1, h2, h3⟩ := isLanguage_subtag hl
      have e := read_shape s r V [] hs hr hV (.inr (by intro t ht; cases ht))
      simp only [List.append_nil, List.takeWhile_nil, List.dropWhile_nil] at e
      simp only [TExt.parseIter, h1, h2, h3, Bool.false_eq_true, if_false, if_true,
        LangId.parseIter, language_exact, hl, Res.map, e, Bool.not_true, Bool.false_and,
        TExt.fieldLoop, TExt.flush]
      exact ⟨_, rfl⟩
  | cons g G =>
    obtain ⟨x0, hx0⟩ := TExt.parseIter_tlang htl
    rw [hx0 _ ⟨g.1, g.2 ++ flat G, by simp [flat_cons], (hG g (by simp)).1⟩]
    obtain ⟨F', ck', cv', _, _, h3⟩ := TExt.fieldLoop_pre (g :: G) hG x0 [] none [] (.inr rfl) rfl
    have := h3 []
    rw [List.append_nil] at this
    rw [this]
    exact ⟨_, rfl⟩

/-! ### variants of a tlang -/

theorem isLanguageSubtag_iff (l : Bytes) : isLanguageSubtag l = Spec.rep isAlpha 2 8 l := by
  unfold isLanguageSubtag Spec.rep
  rw [any_not_eq_not_all, Bool.not_not]
  congr 1
  rw [Bool.eq_iff_iff]
  simp; omega

theorem TExt.parseIter_variants (l : Bytes) (s r : Option Bytes) (pv vs vs' post : List Bytes)
    (hl : Spec.rep isAlpha 2 8 l = true)
    (hs : ∀ t ∈ s, Spec.isScript t = true) (hr : ∀ t ∈ r, Spec.isRegion t = true)
    (hpv : ∀ t ∈ pv, Spec.isVariant t = true)
    (hvs : ∀ t ∈ vs, Spec.isVariant t = true) (hvs' : ∀ t ∈ vs', Spec.isVariant t = true)
    (hset : ∀ x, x ∈ vs.map lower ↔ x ∈ vs'.map lower) :
    TExt.parseIter (l :: (s.toList ++ r.toList ++ pv ++ vs ++ post)) =
    TExt.parseIter (l :: (s.toList ++ r.toList ++ pv ++ vs' ++ post)) := by
  have h1 : isLanguageSubtag l = true := by rw [isLanguageSubtag_iff]; exact hl
  have h2 : isTKeyShape l = false := by
    rw [isTKeyShape_eq]
    match l with
    | [] => rfl
    | [_] => rfl
    | _ :: _ :: _ :: _ => rfl
    | [a, b] =>
      simp only [Spec.rep, List.all_cons, List.all_nil, Bool.and_eq_true] at hl
      have hb := hl.2.2.1
      simp only [Spec.isTKey]
      have : isDigit b = false := by
        simp only [isAlpha, isUpper, isLower, isDigit, Bool.or_eq_true, Bool.and_eq_true,
          decide_eq_true_eq] at hb ⊢
        simp; omega
      simp [this]
  have h3 : (l.length == 1) = false := by
    simp only [Spec.rep, Bool.and_eq_true, decide_eq_true_eq] at hl
    simp; omega
  simp only [TExt.parseIter, h1, h2, h3, Bool.false_eq_true, if_false, if_true,
    LangId.parseIter_variants true l s r pv vs vs' post hs hr hpv hvs hvs' hset]

/-! ### (e) for arbitrary bodies: equal results or two failures -/

/-- the two results are equal, or both are failures (possibly with different error codes) -/
def BothFailOrEq {α} (r r' : Res α) : Prop := r = r' ∨ (r.isOk = false ∧ r'.isOk = false)

theorem BothFailOrEq.map {α β} (f : α → β) {r r' : Res α} (h : BothFailOrEq r r') :
    BothFailOrEq (r.map f) (r'.map f) := by
  rcases h with h | ⟨h1, h2⟩
  · exact .inl (by rw [h])
  · refine .inr ⟨?_, ?_⟩
    · cases r <;> simp_all [Res.map, Res.isOk]
    · cases r' <;> simp_all [Res.map, Res.isOk]

theorem run_u_append (b : Nat) (hb : toLower b = 117) (ub X : List Bytes) (hX : SingletonHead X)
    (m : ExtMap) (su st : Bool) :
    run ([b] :: (ub ++ X)) m su st =
      if su then .err .invalidExtension
      else match UExt.parseIter ub with
        | .err e => .err e
        | .panic => .panic
        | .ok (u, rest) => run (rest ++ X) { m with unicode := u } true st := by
  rw [run_u b hb, UExt.parseIter_append ub X hX]
  cases UExt.parseIter ub <;> rfl

theorem run_t_append (b : Nat) (hb : toLower b = 116) (tb X : List Bytes) (hX : SingletonHead X)
    (m : ExtMap) (su st : Bool) :
    run ([b] :: (tb ++ X)) m su st =
      if st then .err .invalidExtension
      else match TExt.parseIter tb with
        | .err e => .err e
        | .panic => .panic
        | .ok (x, rest) => run (rest ++ X) { m with transform := x } su true := by
  rw [run_t b hb, TExt.parseIter_append tb X hX]
  cases TExt.parseIter tb <;> rfl

theorem run_long_rest {body pre rest : List Bytes} (hs : body = pre ++ rest) (hb : ∀ t ∈ body, 2 ≤ t.length)
    (hne : rest ≠ []) (X : List Bytes) (m : ExtMap) (su st : Bool) :
    run (rest ++ X) m su st = .err .invalidExtension := by
  cases rest with
  | nil => exact absurd rfl hne
  | cons t0 r =>
    have := hb t0 (by rw [hs]; simp)
    exact run_long _ _ _ _ _ (by omega)

theorem isOk_err {α} (e : Err) : (Res.err e : Res α).isOk = false := rfl
theorem isOk_panic {α} : (Res.panic : Res α).isOk = false := rfl

/-- **(e), loop level, arbitrary bodies**: for bodies without one-byte or empty subtags (well- or
    ill-formed), swapping the sections gives equal results or two failures -/
theorem run_swap_weak (bu bt : Nat) (hu : toLower bu = 117) (ht : toLower bt = 116)
    (ub tb post : List Bytes) (hub : ∀ t ∈ ub, 2 ≤ t.length) (htb : ∀ t ∈ tb, 2 ≤ t.length)
    (hpost : SingletonHead post) (m : ExtMap) (su st : Bool) :
    BothFailOrEq (run ([bu] :: (ub ++ [bt] :: (tb ++ post))) m su st)
                 (run ([bt] :: (tb ++ [bu] :: (ub ++ post))) m su st) := by
  rw [run_u_append bu hu ub _ (singletonHead_cons bt _), run_t_append bt ht tb _ (singletonHead_cons bu _)]
  cases hU : UExt.parseIter ub with
  | err e =>
    refine .inr ⟨by cases su <;> rfl, ?_⟩
    cases st with
    | true => rfl
    | false =>
      cases hT : TExt.parseIter tb with
      | err e => rfl
      | panic => rfl
      | ok p =>
        obtain ⟨tx, rt⟩ := p
        obtain ⟨pre, hs⟩ := TExt.parseIter_suffix hT
        simp only [Bool.false_eq_true, if_false]
        cases rt with
        | cons t0 r => rw [run_long_rest hs htb (by simp)]; rfl
        | nil =>
          rw [List.nil_append, run_u_append bu hu ub _ hpost, hU]
          cases su <;> rfl
  | panic =>
    refine .inr ⟨by cases su <;> rfl, ?_⟩
    cases st with
    | true => rfl
    | false =>
      cases hT : TExt.parseIter tb with
      | err e => rfl
      | panic => rfl
      | ok p =>
        obtain ⟨tx, rt⟩ := p
        obtain ⟨pre, hs⟩ := TExt.parseIter_suffix hT
        simp only [Bool.false_eq_true, if_false]
        cases rt with
        | cons t0 r => rw [run_long_rest hs htb (by simp)]; rfl
        | nil =>
          rw [List.nil_append, run_u_append bu hu ub _ hpost, hU]
          cases su <;> rfl
  | ok p =>
    obtain ⟨ux, ru⟩ := p
    obtain ⟨preu, hsu⟩ := UExt.loop_suffix hU
    cases hT : TExt.parseIter tb with
    | err e =>
      refine .inr ⟨?_, by cases st <;> rfl⟩
      cases su with
      | true => rfl
      | false =>
        simp only [Bool.false_eq_true, if_false]
        cases ru with
        | cons t0 r => rw [run_long_rest hsu hub (by simp)]; rfl
        | nil =>
          rw [List.nil_append, run_t_append bt ht tb _ hpost, hT]
          cases st <;> rfl
    | panic =>
      refine .inr ⟨?_, by cases st <;> rfl⟩
      cases su with
      | true => rfl
      | false =>
        simp only [Bool.false_eq_true, if_false]
        cases ru with
        | cons t0 r => rw [run_long_rest hsu hub (by simp)]; rfl
        | nil =>
          rw [List.nil_append, run_t_append bt ht tb _ hpost, hT]
          cases st <;> rfl
    | ok q =>
      obtain ⟨tx, rt⟩ := q
      obtain ⟨pret, hst⟩ := TExt.parseIter_suffix hT
      cases ru with
      | cons t0 r =>
        refine .inr ⟨?_, ?_⟩
        · cases su with
          | true => rfl
          | false => simp only [Bool.false_eq_true, if_false]; rw [run_long_rest hsu hub (by simp)]; rfl
        · cases st with
          | true => rfl
          | false =>
            simp only [Bool.false_eq_true, if_false]
            cases rt with
            | cons t1 r1 => rw [run_long_rest hst htb (by simp)]; rfl
            | nil =>
              rw [List.nil_append, run_u_append bu hu ub _ hpost, hU]
              cases su with
              | true => rfl
              | false => simp only [Bool.false_eq_true, if_false]; rw [run_long_rest hsu hub (by simp)]; rfl
      | nil =>
        cases rt with
        | cons t1 r1 =>
          refine .inr ⟨?_, ?_⟩
          · cases su with
            | true => rfl
            | false =>
              simp only [Bool.false_eq_true, if_false]
              rw [List.nil_append, run_t_append bt ht tb _ hpost, hT]
              cases st with
              | true => rfl
              | false => simp only [Bool.false_eq_true, if_false]; rw [run_long_rest hst htb (by simp)]; rfl
          · cases st with
            | true => rfl
            | false => simp only [Bool.false_eq_true, if_false]; rw [run_long_rest hst htb (by simp)]; rfl
        | nil =>
          left
          have := run_swap bu bt hu ht ub tb post ux tx hU hT hpost m su st
          rw [run_u_append bu hu ub _ (singletonHead_cons bt _),
            run_t_append bt ht tb _ (singletonHead_cons bu _), hU, hT] at this
          exact this

/-- lifting of `BothFailOrEq` from the dispatch loop to the locale parser -/
theorem Locale.parse_bfe (P : List Bytes) (hx : NoX P) (b b' : Nat) (r r' : List Bytes)
    (h : ∀ m su st, BothFailOrEq (run ([b] :: r) m su st) (run ([b'] :: r') m su st)) :
    BothFailOrEq (Locale.parse (P ++ [b] :: r)) (Locale.parse (P ++ [b'] :: r')) := by
  rcases Locale.parse_prefix P hx with ⟨res, h1⟩ | ⟨id, m, su, st, h1⟩
  · rw [h1, h1]; exact .inl rfl
  · rw [h1, h1, resume, resume]
    exact (h m su st).map _

end UL.Unordered
