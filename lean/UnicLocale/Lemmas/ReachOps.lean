/-
  Lemmas/ReachOps.lean — reachability, part 2: every operation of `Model/Ops.lean` (the public
  mutation / query API of `Locale`, including `maximize` / `minimize` over well-formed tables)
  preserves the representation invariant of `Spec/Inv.lean`.
  (Part 1, the constructors and parsers, is `Lemmas/Reach.lean`.)
-/
import UnicLocale.Model.Ops
import UnicLocale.Spec.TablesWF
import UnicLocale.Lemmas.Reach

namespace UL.Reach

/-! ### `Res` plumbing -/

theorem Res.map_eq_ok {α β} {r : Res α} {f : α → β} {b : β} (h : r.map f = .ok b) :
    ∃ a, r = .ok a ∧ f a = b := by
  cases r with
  | ok a => exact ⟨a, rfl, by simpa [Res.map] using h⟩
  | err e => cases h
  | panic => cases h

theorem Res.bind_eq_ok {α β} {r : Res α} {f : α → Res β} {b : β} (h : r.bind f = .ok b) :
    ∃ a, r = .ok a ∧ f a = .ok b := by
  cases r with
  | ok a => exact ⟨a, rfl, h⟩
  | err e => cases h
  | panic => cases h

/-! ### table lookups return rows of the table -/

/-- by definition of `lookupBy` the result is `a[base]?`; no binary-search correctness is needed -/
theorem lookupBy_mem {α} {a : Array α} {cmp : α → Nat} {row : α} (h : lookupBy a cmp = some row) :
    row ∈ a.toList := by
  unfold lookupBy at h
  split at h
  · cases h
  · simp only at h
    split at h
    · rename_i x hx
      split at h
      · cases h
        exact Array.mem_toList_iff.2 (Array.mem_of_getElem? hx)
      · cases h
    · cases h

theorem lookup1_mem {a : Array Row1} {k : Nat} {row : Row1} (h : lookup1 a k = some row) :
    row ∈ a.toList := lookupBy_mem h

theorem lookup2_mem {a : Array Row2} {k1 k2 : Nat} {row : Row2} (h : lookup2 a k1 k2 = some row) :
    row ∈ a.toList := lookupBy_mem h

/-- a well-formed table value decodes to three valid stored subtags -/
theorem valOk_parts {l s r : Nat} (h : valOk l s r = true) :
    l ≠ 0 ∧ s ≠ 0 ∧ r ≠ 0 ∧ okLanguage (some (unpack (l - 1))) = true ∧
      okScript (some (unpack (s - 1))) = true ∧ okRegion (some (unpack (r - 1))) = true := by
  simp only [valOk, validLangInt, validScriptInt, validRegionInt, Bool.and_eq_true, bne_iff_ne, ne_eq,
    beq_iff_eq] at h
  obtain ⟨⟨⟨⟨⟨hl, hs⟩, hr⟩, hvl, _⟩, hvs, _⟩, hvr, _⟩ := h
  exact ⟨hl, hs, hr, okLanguage_of_fromBytes hvl, okScript_of_fromBytes hvs, okRegion_of_fromBytes hvr⟩

/-- the value part of `tablesWF`: every row of every table carries a `valOk` value -/
structure TablesVals (T : Tables) : Prop where
  langOnly : ∀ row ∈ T.langOnly.toList, valOk row.l row.s row.r = true
  langRegion : ∀ row ∈ T.langRegion.toList, valOk row.l row.s row.r = true
  langScript : ∀ row ∈ T.langScript.toList, valOk row.l row.s row.r = true
  scriptRegion : ∀ row ∈ T.scriptRegion.toList, valOk row.l row.s row.r = true
  scriptOnly : ∀ row ∈ T.scriptOnly.toList, valOk row.l row.s row.r = true
  regionOnly : ∀ row ∈ T.regionOnly.toList, valOk row.l row.s row.r = true

theorem tablesVals_of_WF {T : Tables} (hT : tablesWF T = true) : TablesVals T := by
  unfold tablesWF at hT
  simp only [Bool.and_eq_true, List.all_eq_true] at hT
  obtain ⟨⟨⟨⟨⟨⟨_, h1⟩, h2⟩, h3⟩, h4⟩, h5⟩, h6⟩ := hT
  exact ⟨fun row hr => (h1 row hr).1, fun row hr => (h2 row hr).1.1.1.1,
    fun row hr => (h3 row hr).1.1.1.1, fun row hr => (h4 row hr).1.1.1.1,
    fun row hr => (h5 row hr).1.1, fun row hr => (h6 row hr).1.1⟩

/-! ### `maximize` / `minimize` return valid stored subtags -/

theorem Likely.langFromParts_valid {l s r : Nat} {script region : Option Bytes} {l' : Language}
    {s' r' : Option Bytes} (hv : valOk l s r = true) (hs : okScript script = true)
    (hr : okRegion region = true)
    (h : Likely.langFromParts l s r script region = .ok (some (l', s', r'))) :
    okLanguage l' = true ∧ okScript s' = true ∧ okRegion r' = true := by
  obtain ⟨hl0, hs0, hr0, hvl, hvs, hvr⟩ := valOk_parts hv
  have el : optOf l = some (l - 1) := by simp [optOf, hl0]
  have es : optOf s = some (s - 1) := by simp [optOf, hs0]
  have er : optOf r = some (r - 1) := by simp [optOf, hr0]
  unfold Likely.langFromParts at h
  rw [el] at h
  simp only [es, er, Option.map_some, Res.ok.injEq, Option.some.injEq, Prod.mk.injEq] at h
  obtain ⟨rfl, rfl, rfl⟩ := h
  refine ⟨hvl, ?_, ?_⟩
  · cases script with
    | none => exact hvs
    | some x => exact hs
  · cases region with
    | none => exact hvr
    | some x => exact hr

theorem Likely.maximize_ok_valid {T : Tables} (hT : tablesWF T = true) {l : Language}
    {s r : Option Bytes} {l' : Language} {s' r' : Option Bytes}
    (hl : okLanguage l = true) (hs : okScript s = true) (hr : okRegion r = true)
    (h : Likely.maximize T l s r = .ok (some (l', s', r'))) :
    okLanguage l' = true ∧ okScript s' = true ∧ okRegion r' = true := by
  have _ := hl
  have W := tablesVals_of_WF hT
  have hn : okScript none = true := rfl
  have hn' : okRegion none = true := rfl
  simp only [Likely.maximize] at h
  repeat' split at h
  all_goals first
    | cases h
    | exact Likely.langFromParts_valid (W.langOnly _ (lookup1_mem ‹_›)) ‹_› ‹_› h
    | exact Likely.langFromParts_valid (W.langRegion _ (lookup2_mem ‹_›)) hn hn' h
    | exact Likely.langFromParts_valid (W.langScript _ (lookup2_mem ‹_›)) hn hn' h
    | exact Likely.langFromParts_valid (W.scriptRegion _ (lookup2_mem ‹_›)) hn hn' h
    | exact Likely.langFromParts_valid (W.scriptOnly _ (lookup1_mem ‹_›)) hn ‹_› h
    | exact Likely.langFromParts_valid (W.regionOnly _ (lookup1_mem ‹_›)) hn hn' h


theorem Likely.minimize_ok_valid {T : Tables} (hT : tablesWF T = true) {l : Language}
    {s r : Option Bytes} {l' : Language} {s' r' : Option Bytes}
    (hl : okLanguage l = true) (hs : okScript s = true) (hr : okRegion r = true)
    (h : Likely.minimize T l s r = .ok (some (l', s', r'))) :
    okLanguage l' = true ∧ okScript s' = true ∧ okRegion r' = true := by
  have hmx : ∀ mx : Triple,
      (if (l.isSome && s.isSome && r.isSome) = true then Res.ok (some (l, s, r))
        else Likely.maximize T l s r) = .ok (some mx) →
      okLanguage mx.1 = true ∧ okScript mx.2.1 = true ∧ okRegion mx.2.2 = true := by
    intro mx hm
    split at hm
    · cases hm
      exact ⟨hl, hs, hr⟩
    · obtain ⟨a, b, c⟩ := mx
      exact Likely.maximize_ok_valid hT hl hs hr hm
  simp only [Likely.minimize] at h
  generalize (if (l.isSome && s.isSome && r.isSome) = true then Res.ok (some (l, s, r))
        else Likely.maximize T l s r) = maxRes at h hmx
  cases maxRes with
  | err e => cases h
  | panic => cases h
  | ok o =>
    cases o with
    | none => cases h
    | some mx =>
      obtain ⟨h1, h2, h3⟩ := hmx mx rfl
      simp only at h
      repeat' split at h
      all_goals first
        | (cases h; done)
        | (cases h; exact ⟨h1, rfl, rfl⟩)
        | (cases h; exact ⟨h1, h2, rfl⟩)
        | (cases h; exact ⟨h1, rfl, h3⟩)

/-! ### `Locale.inv` through the setters and the result wrappers of `step` -/

theorem inv_setId {x : Locale} {i : LangId} (hx : x.inv = true) (hi : i.inv = true) :
    (setId x i).inv = true := by
  simp only [Locale.inv, setId, Bool.and_eq_true] at *
  exact ⟨hi, hx.2⟩

theorem inv_setU {x : Locale} {u : UExt} (hx : x.inv = true) (hu : u.inv = true) :
    (setU x u).inv = true := by
  simp only [Locale.inv, ExtMap.inv, setU, Bool.and_eq_true] at *
  exact ⟨hx.1, ⟨hu, hx.2.1.2⟩, hx.2.2⟩

theorem inv_setT {x : Locale} {t : TExt} (hx : x.inv = true) (ht : t.inv = true) :
    (setT x t).inv = true := by
  simp only [Locale.inv, ExtMap.inv, setT, Bool.and_eq_true] at *
  exact ⟨hx.1, ⟨hx.2.1.1, ht⟩, hx.2.2⟩

theorem inv_setP {x : Locale} {p : PExt} (hx : x.inv = true) (hp : PExt.inv p = true) :
    (setP x p).inv = true := by
  simp only [Locale.inv, ExtMap.inv, setP, Bool.and_eq_true] at *
  exact ⟨hx.1, hx.2.1, hp⟩

theorem Locale.inv_id {x : Locale} (hx : x.inv = true) : x.id.inv = true := by
  simp only [Locale.inv, Bool.and_eq_true] at hx
  exact hx.1
theorem Locale.inv_u {x : Locale} (hx : x.inv = true) : x.ext.unicode.inv = true := by
  simp only [Locale.inv, ExtMap.inv, Bool.and_eq_true] at hx
  exact hx.2.1.1
theorem Locale.inv_t {x : Locale} (hx : x.inv = true) : x.ext.transform.inv = true := by
  simp only [Locale.inv, ExtMap.inv, Bool.and_eq_true] at hx
  exact hx.2.1.2
theorem Locale.inv_p {x : Locale} (hx : x.inv = true) : PExt.inv x.ext.priv = true := by
  simp only [Locale.inv, ExtMap.inv, Bool.and_eq_true] at hx
  exact hx.2.2

theorem outOfUnit_inv {α} {x : Locale} {r : Res α} {f : α → Locale} (hx : x.inv = true)
    (hf : ∀ a, r = .ok a → (f a).inv = true) : (outOfUnit x r f).1.inv = true := by
  cases r with
  | ok a => exact hf a rfl
  | err e => exact hx
  | panic => exact hx

theorem outOfBool_inv {α} {x : Locale} {r : Res (α × Bool)} {f : α → Locale} (hx : x.inv = true)
    (hf : ∀ a b, r = .ok (a, b) → (f a).inv = true) : (outOfBool x r f).1.inv = true := by
  cases r with
  | ok p => obtain ⟨a, b⟩ := p; exact hf a b rfl
  | err e => exact hx
  | panic => exact hx

theorem outOfQuery_fst (x : Locale) (r : Res Bool) : (outOfQuery x r).1 = x := by
  cases r <;> rfl

theorem outOfList_fst (x : Locale) (r : Res (List Bytes)) : (outOfList x r).1 = x := by
  cases r <;> rfl

/-! ### the language identifier operations -/

theorem all_ok_of_collectRes {p : Bytes → Res Bytes} {q : Bytes → Bool}
    (hp : ∀ t s, p t = .ok s → q s = true) :
    ∀ (vs l : List Bytes), collectRes p vs = .ok l → l.all q = true := by
  intro vs
  induction vs with
  | nil => intro l h; cases h; rfl
  | cons t ts ih =>
    intro l h
    unfold collectRes at h
    split at h
    · cases h
    · cases h
    · rename_i a ha
      split at h
      · cases h
      · cases h
      · rename_i r hr
        cases h
        rw [List.all_cons, ih r hr, hp t a ha]; rfl

theorem LangId.inv_setLanguage {x : LangId} {l : Language} (hx : x.inv = true)
    (hl : okLanguage l = true) : ({ x with language := l } : LangId).inv = true := by
  simp only [LangId.inv, Bool.and_eq_true] at *
  exact ⟨⟨⟨hl, hx.1.1.2⟩, hx.1.2⟩, hx.2⟩

theorem LangId.inv_setScript {x : LangId} {s : Option Bytes} (hx : x.inv = true)
    (hs : okScript s = true) : ({ x with script := s } : LangId).inv = true := by
  simp only [LangId.inv, Bool.and_eq_true] at *
  exact ⟨⟨⟨hx.1.1.1, hs⟩, hx.1.2⟩, hx.2⟩

theorem LangId.inv_setRegion {x : LangId} {r : Option Bytes} (hx : x.inv = true)
    (hr : okRegion r = true) : ({ x with region := r } : LangId).inv = true := by
  simp only [LangId.inv, Bool.and_eq_true] at *
  exact ⟨⟨⟨hx.1.1.1, hx.1.1.2⟩, hr⟩, hx.2⟩

theorem LangId.inv_setVariants {x : LangId} {vs : List Bytes} (hx : x.inv = true)
    (hv : vs.all okVariant = true) : (x.setVariants vs).inv = true := by
  simp only [LangId.inv, LangId.setVariants, Bool.and_eq_true] at *
  exact ⟨hx.1, okVariants_finish hv⟩

theorem LangId.inv_clearVariants {x : LangId} (hx : x.inv = true) : x.clearVariants.inv = true := by
  simp only [LangId.inv, LangId.clearVariants, Bool.and_eq_true] at *
  exact ⟨hx.1, rfl⟩

theorem LangId.inv_applyTriple {x y : LangId} {b : Bool} {res : Res (Option Triple)}
    (hx : x.inv = true)
    (hres : ∀ l s r, res = .ok (some (l, s, r)) →
      okLanguage l = true ∧ okScript s = true ∧ okRegion r = true)
    (h : LangId.applyTriple x res = .ok (y, b)) : y.inv = true := by
  unfold LangId.applyTriple at h
  split at h
  · cases h
  · cases h
  · cases h; exact hx
  · rename_i l s rg
    cases h
    obtain ⟨h1, h2, h3⟩ := hres l s rg rfl
    simp only [LangId.inv, Bool.and_eq_true] at *
    exact ⟨⟨⟨h1, h2⟩, h3⟩, hx.2⟩

theorem LangId.inv_maximize {T : Tables} (hT : tablesWF T = true) {x y : LangId} {b : Bool}
    (hx : x.inv = true) (h : x.maximize T = .ok (y, b)) : y.inv = true := by
  refine LangId.inv_applyTriple hx (fun l s r hm => ?_) h
  simp only [LangId.inv, Bool.and_eq_true] at hx
  exact Likely.maximize_ok_valid hT hx.1.1.1 hx.1.1.2 hx.1.2 hm

theorem LangId.inv_minimize {T : Tables} (hT : tablesWF T = true) {x y : LangId} {b : Bool}
    (hx : x.inv = true) (h : x.minimize T = .ok (y, b)) : y.inv = true := by
  refine LangId.inv_applyTriple hx (fun l s r hm => ?_) h
  simp only [LangId.inv, Bool.and_eq_true] at hx
  exact Likely.minimize_ok_valid hT hx.1.1.1 hx.1.1.2 hx.1.2 hm

/-! ### the unicode extension operations -/

theorem UExt.inv_setKeyword {u u' : UExt} {k : Bytes} {vs : List Bytes} (hu : u.inv = true)
    (h : u.setKeyword k vs = .ok u') : u'.inv = true := by
  unfold UExt.setKeyword at h
  obtain ⟨kk, hk, h⟩ := Res.bind_eq_ok h
  obtain ⟨t, ht, rfl⟩ := Res.map_eq_ok h
  simp only [UExt.inv, Bool.and_eq_true] at *
  exact ⟨hu.1, okMap_insert hu.2 (okKey_of_parse hk)
    (all_okType_of_collect (fun _ _ => okType_of_parseType) vs t ht)⟩

theorem UExt.inv_removeKeyword {u u' : UExt} {k : Bytes} {b : Bool} (hu : u.inv = true)
    (h : u.removeKeyword k = .ok (u', b)) : u'.inv = true := by
  unfold UExt.removeKeyword at h
  obtain ⟨kk, _, h⟩ := Res.map_eq_ok h
  cases h
  simp only [UExt.inv, Bool.and_eq_true] at *
  exact ⟨hu.1, okMap_remove hu.2⟩

theorem UExt.inv_clearKeywords {u : UExt} (hu : u.inv = true) : u.clearKeywords.inv = true := by
  simp only [UExt.inv, UExt.clearKeywords, Bool.and_eq_true] at *
  exact ⟨hu.1, rfl⟩

theorem UExt.inv_clearAttributes {u : UExt} (hu : u.inv = true) : u.clearAttributes.inv = true := by
  simp only [UExt.inv, UExt.clearAttributes, Bool.and_eq_true] at *
  exact ⟨⟨rfl, rfl⟩, hu.2⟩

theorem UExt.inv_setAttribute {u u' : UExt} {a : Bytes} (hu : u.inv = true)
    (h : u.setAttribute a = .ok u') : u'.inv = true := by
  unfold UExt.setAttribute at h
  obtain ⟨a', ha, h⟩ := Res.map_eq_ok h
  cases hb : binarySearchBy u.attributes (cmpBytes a') with
  | inl i =>
    rw [hb] at h
    cases h
    exact hu
  | inr idx =>
    rw [hb] at h
    cases h
    simp only [UExt.inv, Bool.and_eq_true] at *
    obtain ⟨hsorted, hmem⟩ := insert_at_err_sorted hu.1.1 hb
    refine ⟨⟨hsorted, ?_⟩, hu.2⟩
    rw [List.all_eq_true]
    intro z hz
    rcases (hmem z).1 hz with rfl | hz
    · exact okAttr_of_parse ha
    · exact List.all_eq_true.1 hu.1.2 z hz

theorem strictSorted_eraseIdx {l : List Bytes} (i : Nat) (h : strictSorted l = true) :
    strictSorted (l.eraseIdx i) = true := by
  rw [strictSorted_iff_pairwise] at *
  exact h.sublist (List.eraseIdx_sublist l i)

theorem weakSorted_eraseIdx {l : List Bytes} (i : Nat) (h : weakSorted l = true) :
    weakSorted (l.eraseIdx i) = true := by
  rw [weakSorted_iff_pairwise] at *
  exact h.sublist (List.eraseIdx_sublist l i)

theorem all_eraseIdx {q : Bytes → Bool} {l : List Bytes} (i : Nat) (h : l.all q = true) :
    (l.eraseIdx i).all q = true := by
  rw [List.all_eq_true] at *
  intro z hz
  exact h z ((List.eraseIdx_sublist l i).subset hz)

theorem UExt.inv_removeAttribute {u u' : UExt} {a : Bytes} {b : Bool} (hu : u.inv = true)
    (h : u.removeAttribute a = .ok (u', b)) : u'.inv = true := by
  unfold UExt.removeAttribute at h
  obtain ⟨a', _, h⟩ := Res.map_eq_ok h
  cases hb : binarySearchBy u.attributes (cmpBytes a') with
  | inl idx =>
    rw [hb] at h
    cases h
    simp only [UExt.inv, Bool.and_eq_true] at *
    exact ⟨⟨strictSorted_eraseIdx idx hu.1.1, all_eraseIdx idx hu.1.2⟩, hu.2⟩
  | inr i =>
    rw [hb] at h
    cases h
    exact hu

/-! ### the transform extension operations -/

theorem TExt.inv_setTField {x x' : TExt} {k : Bytes} {vs : List Bytes} (hx : x.inv = true)
    (h : x.setTField k vs = .ok x') : x'.inv = true := by
  unfold TExt.setTField at h
  obtain ⟨kk, hk, h⟩ := Res.bind_eq_ok h
  obtain ⟨t, ht, rfl⟩ := Res.map_eq_ok h
  simp only [TExt.inv, Bool.and_eq_true] at *
  exact ⟨hx.1, okMap_insert hx.2 (okTKey_of_parse hk)
    (all_okType_of_collect (fun _ _ => okType_of_parseTValue) vs t ht)⟩

theorem TExt.inv_removeTField {x x' : TExt} {k : Bytes} {b : Bool} (hx : x.inv = true)
    (h : x.removeTField k = .ok (x', b)) : x'.inv = true := by
  unfold TExt.removeTField at h
  obtain ⟨kk, _, h⟩ := Res.map_eq_ok h
  cases h
  simp only [TExt.inv, Bool.and_eq_true] at *
  exact ⟨hx.1, okMap_remove hx.2⟩

theorem TExt.inv_clearTFields {x : TExt} (hx : x.inv = true) : x.clearTFields.inv = true := by
  simp only [TExt.inv, TExt.clearTFields, Bool.and_eq_true] at *
  exact ⟨hx.1, rfl⟩

theorem TExt.inv_setTLang {x : TExt} {l : LangId} (hx : x.inv = true) (hl : l.inv = true) :
    (x.setTLang l).inv = true := by
  simp only [TExt.inv, TExt.setTLang, Bool.and_eq_true] at *
  exact ⟨hl, hx.2⟩

theorem TExt.inv_clearTLang {x : TExt} (hx : x.inv = true) : x.clearTLang.inv = true := by
  simp only [TExt.inv, TExt.clearTLang, Bool.and_eq_true] at *
  exact ⟨trivial, hx.2⟩

/-! ### the private-use operations -/

theorem PExt.inv_addTag {p p' : PExt} {t : Bytes} (hp : PExt.inv p = true)
    (h : PExt.addTag p t = .ok p') : PExt.inv p' = true := by
  unfold PExt.addTag at h
  obtain ⟨v, hv, rfl⟩ := Res.map_eq_ok h
  simp only [PExt.inv, Bool.and_eq_true] at *
  refine ⟨weakSorted_sortBytes _, all_sortBytes ?_⟩
  simp only [List.all_append, hp.2, List.all_cons, okTag_of_parse hv, List.all_nil, Bool.and_self]

theorem PExt.inv_removeTag {p p' : PExt} {t : Bytes} {b : Bool} (hp : PExt.inv p = true)
    (h : PExt.removeTag p t = .ok (p', b)) : PExt.inv p' = true := by
  unfold PExt.removeTag at h
  obtain ⟨v, _, h⟩ := Res.map_eq_ok h
  cases hb : binarySearchBy p (cmpBytes v) with
  | inl idx =>
    rw [hb] at h
    cases h
    simp only [PExt.inv, Bool.and_eq_true] at *
    exact ⟨weakSorted_eraseIdx idx hp.1, all_eraseIdx idx hp.2⟩
  | inr i =>
    rw [hb] at h
    cases h
    exact hp

/-! ### every operation preserves the invariant -/

/-- the operations that do not consult the likely-subtags tables: no hypothesis on `T` -/
theorem step_inv_noTables (T : Tables) (x : Locale) (o : Op) (hx : x.inv = true)
    (ho : o ≠ .maximize ∧ o ≠ .minimize) : (step T x o).1.inv = true := by
  have hid := Locale.inv_id hx
  have hu := Locale.inv_u hx
  have ht := Locale.inv_t hx
  have hp := Locale.inv_p hx
  cases o with
  | setLanguage v =>
    exact outOfUnit_inv hx fun l hl =>
      inv_setId hx (LangId.inv_setLanguage hid (okLanguage_of_fromBytes hl))
  | setScript v =>
    cases v with
    | none => exact inv_setId hx (LangId.inv_setScript hid rfl)
    | some v =>
      exact outOfUnit_inv hx fun s hs =>
        inv_setId hx (LangId.inv_setScript hid (okScript_of_fromBytes hs))
  | setRegion v =>
    cases v with
    | none => exact inv_setId hx (LangId.inv_setRegion hid rfl)
    | some v =>
      exact outOfUnit_inv hx fun r hr =>
        inv_setId hx (LangId.inv_setRegion hid (okRegion_of_fromBytes hr))
  | setVariants vs =>
    exact outOfUnit_inv hx fun l hl =>
      inv_setId hx (LangId.inv_setVariants hid
        (all_ok_of_collectRes (fun _ _ => okVariant_of_fromBytes) vs l hl))
  | clearVariants => exact inv_setId hx (LangId.inv_clearVariants hid)
  | hasVariant v => show (outOfQuery x _).1.inv = true; rw [outOfQuery_fst]; exact hx
  | setKeyword k vs => exact outOfUnit_inv hx fun u h => inv_setU hx (UExt.inv_setKeyword hu h)
  | removeKeyword k => exact outOfBool_inv hx fun u b h => inv_setU hx (UExt.inv_removeKeyword hu h)
  | clearKeywords => exact inv_setU hx (UExt.inv_clearKeywords hu)
  | keyword k => show (outOfList x _).1.inv = true; rw [outOfList_fst]; exact hx
  | setAttribute a => exact outOfUnit_inv hx fun u h => inv_setU hx (UExt.inv_setAttribute hu h)
  | removeAttribute a =>
    exact outOfBool_inv hx fun u b h => inv_setU hx (UExt.inv_removeAttribute hu h)
  | clearAttributes => exact inv_setU hx (UExt.inv_clearAttributes hu)
  | hasAttribute a => show (outOfQuery x _).1.inv = true; rw [outOfQuery_fst]; exact hx
  | setTLang l =>
    exact outOfUnit_inv hx fun li h =>
      inv_setT hx (TExt.inv_setTLang ht (LangId.inv_of_fromBytes h))
  | clearTLang => exact inv_setT hx (TExt.inv_clearTLang ht)
  | setTField k vs => exact outOfUnit_inv hx fun t h => inv_setT hx (TExt.inv_setTField ht h)
  | removeTField k => exact outOfBool_inv hx fun t b h => inv_setT hx (TExt.inv_removeTField ht h)
  | clearTFields => exact inv_setT hx (TExt.inv_clearTFields ht)
  | tfield k => show (outOfList x _).1.inv = true; rw [outOfList_fst]; exact hx
  | addTag t => exact outOfUnit_inv hx fun p h => inv_setP hx (PExt.inv_addTag hp h)
  | removeTag t => exact outOfBool_inv hx fun p b h => inv_setP hx (PExt.inv_removeTag hp h)
  | clearTags => exact inv_setP hx rfl
  | hasTag t => show (outOfQuery x _).1.inv = true; rw [outOfQuery_fst]; exact hx
  | maximize => exact absurd rfl ho.1
  | minimize => exact absurd rfl ho.2

/-- every public API call preserves the representation invariant -/
theorem step_inv (T : Tables) (x : Locale) (o : Op) (hT : tablesWF T = true) (hx : x.inv = true) :
    (step T x o).1.inv = true := by
  by_cases h1 : o = .maximize
  · subst h1
    exact outOfBool_inv hx fun i b h => inv_setId hx (LangId.inv_maximize hT (Locale.inv_id hx) h)
  · by_cases h2 : o = .minimize
    · subst h2
      exact outOfBool_inv hx fun i b h => inv_setId hx (LangId.inv_minimize hT (Locale.inv_id hx) h)
    · exact step_inv_noTables T x o hx ⟨h1, h2⟩

theorem runState_inv (T : Tables) (x : Locale) (os : List Op) (hT : tablesWF T = true)
    (hx : x.inv = true) : (runState T x os).inv = true := by
  unfold runState
  induction os generalizing x with
  | nil => exact hx
  | cons o os ih => exact ih (step T x o).1 (step_inv T x o hT hx)

theorem run_inv (T : Tables) (x : Locale) (os : List Op) (hT : tablesWF T = true)
    (hx : x.inv = true) : ∀ p ∈ run T x os, p.1.inv = true := by
  induction os generalizing x with
  | nil => intro p hp; cases hp
  | cons o os ih =>
    intro p hp
    unfold run at hp
    rcases List.mem_cons.1 hp with rfl | hp
    · exact step_inv T x o hT hx
    · exact ih (step T x o).1 (step_inv T x o hT hx) p hp

/-! ### non-vacuity: a tiny well-formed table and a concrete history -/

namespace ReachOpsExamples

/-- one `langOnly` row `en → en-Latn-US`; integers are `pack` of the byte strings, values `n+1` -/
def tinyT : Tables :=
  { langOnly := #[⟨pack [101, 110], pack [101, 110] + 1, pack [76, 97, 116, 110] + 1, pack [85, 83] + 1⟩]
    langRegion := #[], langScript := #[], scriptRegion := #[], scriptOnly := #[], regionOnly := #[] }

theorem tinyT_wf : tablesWF tinyT = true := by decide

/-- "en-Latn-US-macos-t-es-AR-h0-hybrid-u-attr-ca-buddhist-x-priv" -/
def sampleBytes : Bytes :=
  [101,110,45,76,97,116,110,45,85,83,45,109,97,99,111,115,45,116,45,101,115,45,65,82,45,104,48,45,
   104,121,98,114,105,100,45,117,45,97,116,116,114,45,99,97,45,98,117,100,100,104,105,115,116,45,
   120,45,112,114,105,118]

def sample : Locale :=
  match Locale.fromBytes sampleBytes with
  | .ok x => x
  | _ => {}

theorem sample_inv : sample.inv = true := by decide

-- `lookupBy_mem`: the lookup does find the row
example : lookup1 tinyT.langOnly (pack [101, 110]) =
    some ⟨pack [101, 110], pack [101, 110] + 1, pack [76, 97, 116, 110] + 1, pack [85, 83] + 1⟩ := by
  decide

-- `Likely.maximize_ok_valid` / `minimize_ok_valid`: the hypotheses hold for `en` and the calls
-- do return a triple
example : okLanguage (some [101, 110]) = true ∧ okScript none = true ∧ okRegion none = true ∧
    Likely.maximize tinyT (some [101, 110]) none none =
      .ok (some (some [101, 110], some [76, 97, 116, 110], some [85, 83])) := by decide
example : okLanguage (some [101, 110]) = true ∧ okScript (some [76, 97, 116, 110]) = true ∧
    okRegion (some [85, 83]) = true ∧
    Likely.minimize tinyT (some [101, 110]) (some [76, 97, 116, 110]) (some [85, 83]) =
      .ok (some (some [101, 110], none, none)) := by decide
example : okLanguage (some [101, 110]) = true ∧ okScript (some [76, 97, 116, 110]) = true ∧
    okRegion (some [85, 83]) = true :=
  Likely.maximize_ok_valid (T := tinyT) (l := some [101, 110]) (s := none) (r := none) tinyT_wf
    rfl rfl rfl (by decide)

/-- `attr2`, `abc` -/
def ops : List Op :=
  [.setScript none, .setRegion none, .maximize, .setAttribute [97, 116, 116, 114, 50],
   .addTag [97, 98, 99], .removeTag [112, 114, 105, 118], .removeAttribute [97, 116, 116, 114],
   .setKeyword [104, 99] [[104, 50, 51]], .setTField [109, 48] [[116, 114, 117, 101, 50]],
   .setVariants [[118, 97, 108, 101, 110, 99, 105, 97], [109, 97, 99, 111, 115]],
   .setTLang [100, 101, 45, 65, 84], .hasTag [97, 98, 99], .minimize]

-- each single step, directly
example : (step tinyT sample .maximize).1.inv = true := by decide
example : (step tinyT sample (.setAttribute [97, 116, 116, 114, 50])).1.inv = true ∧
    (step tinyT sample (.setAttribute [97, 116, 116, 114, 50])).1 ≠ sample := by decide
example : (step tinyT sample (.addTag [97, 98, 99])).1.inv = true ∧
    (step tinyT sample (.addTag [97, 98, 99])).1.ext.priv = [[97, 98, 99], [112, 114, 105, 118]] := by
  decide
example : (step tinyT sample (.removeTag [112, 114, 105, 118])) = (setP sample [], .bool true) ∧
    (setP sample []).inv = true := by decide

-- a whole history: the invariant holds at the end (by evaluation, and by the theorem), the
-- history is effective (`maximize` after clearing script and region reports `true`; the final
-- `minimize` leaves `en` alone)
example : (runState tinyT sample ops).inv = true := by decide
example : (runState tinyT sample ops).inv = true := runState_inv tinyT sample ops tinyT_wf sample_inv
example : (run tinyT sample ops).map (·.2) =
    [.unit, .unit, .bool true, .unit, .unit, .bool true, .bool true, .unit, .unit, .unit, .unit,
     .bool true, .bool true] := by decide
example : (runState tinyT sample ops).id =
    { language := some [101, 110], script := none, region := none,
      variants := some [[109, 97, 99, 111, 115], [118, 97, 108, 101, 110, 99, 105, 97]] } := by decide
example : ∀ p ∈ run tinyT sample ops, p.1.inv = true := run_inv tinyT sample ops tinyT_wf sample_inv

-- `step_inv_noTables` needs no table hypothesis: it applies to the empty (or any) tables
example : (step ⟨#[], #[], #[], #[], #[], #[]⟩ sample (.setAttribute [97, 116, 116, 114, 50])).1.inv = true :=
  step_inv_noTables _ sample _ sample_inv ⟨by decide, by decide⟩

end ReachOpsExamples

end UL.Reach
