/-
  Lemmas/GenDataDerive1.lean — data fact (C18): LANG_ONLY is exactly the table CLDR determines:
  one row per CLDR key without script and region (the bare `und` key under the integer of "und"),
  carrying the CLDR value, in increasing key order.  Kernel-decided over all 8,219 CLDR entries and
  all 7,143 rows through the certificate of `GenDataSort`.
-/
import UnicLocale.Lemmas.GenDataSort
import UnicLocale.Gen.Tables
import UnicLocale.Gen.Cldr

namespace UL.Gen

theorem langOnly_chk : Fast.chkSort Fast.lt1 Fast.eqRows1 langOnlyL (Fast.imgLangOnly cldr) = true := by
  unfold langOnlyL cldr
  try simp only [List.append_assoc]
  decide +kernel

theorem langOnly_derived : langOnlyL = Spec.deriveLangOnly cldr := by
  rw [Fast.deriveLangOnly_eq]
  exact Fast.derive1_of_chk langOnly_chk

end UL.Gen
