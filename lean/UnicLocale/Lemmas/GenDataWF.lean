/-
  Lemmas/GenDataWF.lean — `tablesWF Gen.tables`: the compiled tables satisfy every condition the
  lookup code relies on silently.  Assembled from the per-table kernel-decided facts
  (`GenDataWF1`, `GenDataWF2`) through the soundness of the arithmetic checkers (`GenDataFast`).
-/
import UnicLocale.Lemmas.GenDataWF1
import UnicLocale.Lemmas.GenDataWF2

namespace UL.Gen

theorem tables_wf : tablesWF Gen.tables = true :=
  Fast.tablesWF_of_lists langOnlyL langRegionL langScriptL scriptRegionL scriptOnlyL regionOnlyL
    langOnly_sorted langRegion_sorted langScript_sorted scriptRegion_sorted scriptOnly_sorted regionOnly_sorted
    langOnly_rows langRegion_rows langScript_rows scriptRegion_rows scriptOnly_rows regionOnly_rows

/-- the same through the fast predicate -/
theorem tables_fastWF : Fast.tablesWF Gen.tables = true := by
  show Fast.listsWF langOnlyL langRegionL langScriptL scriptRegionL scriptOnlyL regionOnlyL = true
  simp only [Fast.listsWF, Bool.and_eq_true]
  exact ⟨⟨⟨⟨⟨⟨⟨⟨⟨⟨⟨langOnly_sorted, langRegion_sorted⟩, langScript_sorted⟩, scriptRegion_sorted⟩,
    scriptOnly_sorted⟩, regionOnly_sorted⟩, langOnly_rows⟩, langRegion_rows⟩, langScript_rows⟩,
    scriptRegion_rows⟩, scriptOnly_rows⟩, regionOnly_rows⟩

end UL.Gen
