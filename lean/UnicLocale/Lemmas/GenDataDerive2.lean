/-
  Lemmas/GenDataDerive2.lean — data facts (C18): LANG_REGION, LANG_SCRIPT, SCRIPT_REGION, SCRIPT_ONLY
  and REGION_ONLY are exactly the tables CLDR determines (one row per CLDR key of the matching shape,
  carrying the CLDR value, in increasing key order), and no CLDR entry is left without a table.
  Kernel-decided over all 8,219 CLDR entries.
-/
import UnicLocale.Lemmas.GenDataSort
import UnicLocale.Gen.Tables
import UnicLocale.Gen.Cldr

namespace UL.Gen

theorem langRegion_chk : Fast.chkSort Fast.lt2 Fast.eqRows2 langRegionL (Fast.imgLangRegion cldr) = true := by
  unfold langRegionL cldr
  try simp only [List.append_assoc]
  decide +kernel
theorem langScript_chk : Fast.chkSort Fast.lt2 Fast.eqRows2 langScriptL (Fast.imgLangScript cldr) = true := by
  unfold langScriptL cldr
  try simp only [List.append_assoc]
  decide +kernel
theorem scriptRegion_chk :
    Fast.chkSort Fast.lt2 Fast.eqRows2 scriptRegionL (Fast.imgScriptRegion cldr) = true := by
  unfold scriptRegionL cldr
  try simp only [List.append_assoc]
  decide +kernel
theorem scriptOnly_chk : Fast.chkSort Fast.lt1 Fast.eqRows1 scriptOnlyL (Fast.imgScriptOnly cldr) = true := by
  unfold scriptOnlyL cldr
  try simp only [List.append_assoc]
  decide +kernel
theorem regionOnly_chk : Fast.chkSort Fast.lt1 Fast.eqRows1 regionOnlyL (Fast.imgRegionOnly cldr) = true := by
  unfold regionOnlyL cldr
  try simp only [List.append_assoc]
  decide +kernel
theorem unplaced_chk : Fast.unplacedF cldr = [] := by
  unfold cldr
  try simp only [List.append_assoc]
  decide +kernel

theorem langRegion_derived : langRegionL = Spec.deriveLangRegion cldr := by
  rw [Fast.deriveLangRegion_eq]; exact Fast.derive2_of_chk langRegion_chk
theorem langScript_derived : langScriptL = Spec.deriveLangScript cldr := by
  rw [Fast.deriveLangScript_eq]; exact Fast.derive2_of_chk langScript_chk
theorem scriptRegion_derived : scriptRegionL = Spec.deriveScriptRegion cldr := by
  rw [Fast.deriveScriptRegion_eq]; exact Fast.derive2_of_chk scriptRegion_chk
theorem scriptOnly_derived : scriptOnlyL = Spec.deriveScriptOnly cldr := by
  rw [Fast.deriveScriptOnly_eq]; exact Fast.derive1_of_chk scriptOnly_chk
theorem regionOnly_derived : regionOnlyL = Spec.deriveRegionOnly cldr := by
  rw [Fast.deriveRegionOnly_eq]; exact Fast.derive1_of_chk regionOnly_chk
theorem unplaced_nil : Spec.unplaced cldr = [] := by
  rw [Fast.unplaced_eq]; exact unplaced_chk

end UL.Gen
