/-
  Lemmas/GenDataWF1.lean — data fact (kernel-decided over the complete generated table):
  every row of LANG_ONLY (7,143 rows) has a full, well-formed value that extends its key.
  The table is a `++` of 256-row chunks; re-associating to the right first makes the kernel's
  traversal linear.   (C18, C06)
-/
import UnicLocale.Lemmas.GenDataFast
import UnicLocale.Gen.Tables

namespace UL.Gen

theorem langOnly_rows : langOnlyL.all Fast.rowLangOnly = true := by
  unfold langOnlyL
  try simp only [List.append_assoc]
  decide +kernel

end UL.Gen
