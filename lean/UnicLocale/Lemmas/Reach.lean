/-
  Lemmas/Reach.lean — reachability, part 1: every value returned by a constructor, a parser or
  `from_parts` satisfies the representation invariant of `Spec/Inv.lean`.
  (Part 2, preservation by every operation of `Model/Ops.lean`, is `Lemmas/ReachOps.lean`.)
-/
import UnicLocale.Spec.Inv
import UnicLocale.Lemmas.LiLoop

namespace UL.Reach
open Props.C15

/-! ### the subtag constructors return valid stored subtags -/

theorem okLanguage_canon {v : Bytes} (hs : Spec.isLanguage v = true) :
    okLanguage (Spec.canonLanguage v) = true := by
  unfold Spec.canonLanguage
  split
  · rfl
  · rename_i hne
    simp only [okLanguage, isLanguage_lower, hs, lower_lower, beq_self_eq_true, Bool.and_self,
      Bool.true_and, bne_iff_ne, ne_eq]
    intro he
    exact hne (by rw [he]; exact beq_self_eq_true _)

theorem okLanguage_of_fromBytes {v : Bytes} {l : Language} (h : Language.fromBytes v = .ok l) :
    okLanguage l = true := by
  obtain ⟨hs, rfl⟩ := language_ok_inv h
  exact okLanguage_canon hs

theorem okScript_title {v : Bytes} (hs : Spec.isScript v = true) : okScript (some (title v)) = true := by
  simp [okScript, hs]

theorem okScript_of_fromBytes {v s : Bytes} (h : Script.fromBytes v = .ok s) : okScript (some s) = true := by
  obtain ⟨hs, rfl⟩ := script_ok_inv h
  exact okScript_title hs

theorem okRegion_upper {v : Bytes} (hs : Spec.isRegion v = true) : okRegion (some (upper v)) = true := by
  simp [okRegion, hs]

theorem okRegion_of_fromBytes {v s : Bytes} (h : Region.fromBytes v = .ok s) : okRegion (some s) = true := by
  obtain ⟨hs, rfl⟩ := region_ok_inv h
  exact okRegion_upper hs

theorem okVariant_lower {v : Bytes} (hs : Spec.isVariant v = true) : okVariant (lower v) = true := by
  simp [okVariant, hs]

theorem okVariant_of_fromBytes {v s : Bytes} (h : Variant.fromBytes v = .ok s) : okVariant s = true := by
  obtain ⟨hs, rfl⟩ := variant_ok_inv h
  exact okVariant_lower hs

theorem isAttr_lower (t : Bytes) : Spec.isAttr (lower t) = Spec.isAttr t :=
  rep_lower isAlnum_toLower 3 8 t
theorem isPrivate_lower (t : Bytes) : Spec.isPrivate (lower t) = Spec.isPrivate t :=
  rep_lower isAlnum_toLower 1 8 t

theorem isAttr_of_guard {t : Bytes}
    (h : (!(decide (3 ≤ t.length) && decide (t.length ≤ 8)) || !allAlnum t) = false) :
    Spec.isAttr t = true := by
  simp only [Bool.or_eq_false_iff, Bool.not_eq_false', Bool.and_eq_true, decide_eq_true_eq] at h
  simp only [Spec.isAttr, Spec.rep, Bool.and_eq_true, decide_eq_true_eq]
  exact ⟨h.1, h.2⟩

theorem okAttr_of_parse {t a : Bytes} (h : parseAttribute t = .ok a) : okAttr a = true := by
  unfold parseAttribute at h
  split at h
  · cases h
  · split at h
    · cases h
    · rename_i _ hg
      cases h
      have := isAttr_of_guard (Bool.eq_false_iff.2 hg)
      simp [okAttr, isAttr_lower, this]

theorem okType_of_parseType {t s : Bytes} (h : parseType t = .ok (some s)) : okType s = true := by
  unfold parseType at h
  split at h
  · cases h
  · split at h
    · cases h
    · rename_i _ hg
      have := isAttr_of_guard (Bool.eq_false_iff.2 hg)
      simp only at h
      split at h
      · cases h
      · rename_i hne
        cases h
        simp only [okType, isAttr_lower, this, lower_lower, beq_self_eq_true, Bool.and_self,
          Bool.true_and, bne_iff_ne, ne_eq]
        intro he
        exact hne (by rw [he]; rfl)

theorem okType_of_parseTValue {t s : Bytes} (h : parseTValue t = .ok (some s)) : okType s = true := by
  unfold parseTValue at h
  split at h
  · cases h
  · split at h
    · cases h
    · rename_i _ hg
      have hattr : Spec.isAttr t = true := by
        simp only [Bool.or_eq_true, decide_eq_true_eq, Bool.not_eq_true', not_or, Nat.not_lt,
          Bool.not_eq_false] at hg
        simp only [Spec.isAttr, Spec.rep, Bool.and_eq_true, decide_eq_true_eq]
        exact ⟨⟨hg.1.1, hg.1.2⟩, hg.2⟩
      simp only at h
      split at h
      · cases h
      · rename_i hne
        cases h
        simp only [okType, isAttr_lower, hattr, lower_lower, beq_self_eq_true, Bool.and_self,
          Bool.true_and, bne_iff_ne, ne_eq]
        intro he
        exact hne (by rw [he]; rfl)

theorem okKey_of_parse {t k : Bytes} (h : parseKey t = .ok k) : okKey k = true := by
  unfold parseKey at h
  split at h
  · cases h
  · split at h
    · rename_i a b
      split at h
      · cases h
      · rename_i hg
        split at h
        · cases h
        · cases h
          simp only [Bool.or_eq_true, Bool.not_eq_true', not_or, Bool.not_eq_false] at hg
          simp [okKey, Spec.isKey, lower, hg.1, hg.2]
    · cases h

theorem okTKey_of_parse {t k : Bytes} (h : parseTKey t = .ok k) : okTKey k = true := by
  unfold parseTKey at h
  split at h
  · cases h
  · split at h
    · rename_i a b
      split at h
      · cases h
      · rename_i hg
        split at h
        · cases h
        · cases h
          simp only [Bool.or_eq_true, Bool.not_eq_true', not_or, Bool.not_eq_false] at hg
          simp [okTKey, Spec.isTKey, lower, hg.1, hg.2]
    · cases h

theorem okTag_of_parse {t v : Bytes} (h : parsePrivate t = .ok v) : okTag v = true := by
  unfold parsePrivate at h
  split at h
  · cases h
  · split at h
    · cases h
    · rename_i _ hg
      cases h
      simp only [Bool.or_eq_true, List.isEmpty_iff, decide_eq_true_eq, Bool.not_eq_true', not_or,
        Nat.not_lt, Bool.not_eq_false] at hg
      have hp : Spec.isPrivate t = true := by
        simp only [Spec.isPrivate, Spec.rep, Bool.and_eq_true, decide_eq_true_eq]
        refine ⟨⟨?_, hg.1.2⟩, hg.2⟩
        cases t with
        | nil => exact absurd rfl hg.1.1
        | cons a r => simp
      simp [okTag, isPrivate_lower, hp]

theorem all_okType_of_collect {p : Bytes → Res (Option Bytes)}
    (hp : ∀ t s, p t = .ok (some s) → okType s = true) :
    ∀ (vs l : List Bytes), collectTypes p vs = .ok l → l.all okType = true := by
  intro vs
  induction vs with
  | nil => intro l h; cases h; rfl
  | cons t ts ih =>
    intro l h
    unfold collectTypes at h
    split at h
    · cases h
    · cases h
    · rename_i o ho
      split at h
      · cases h
      · cases h
      · rename_i r hr
        cases h
        rw [List.all_append, ih r hr, Bool.and_true]
        cases o with
        | none => rfl
        | some s => simp [hp t s ho]

theorem all_ok_of_collectAll {p : Bytes → Res Bytes} {q : Bytes → Bool}
    (hp : ∀ t s, p t = .ok s → q s = true) :
    ∀ (vs l : List Bytes), collectAll p vs = .ok l → l.all q = true := by
  intro vs
  induction vs with
  | nil => intro l h; cases h; rfl
  | cons t ts ih =>
    intro l h
    unfold collectAll at h
    split at h
    · cases h
    · cases h
    · rename_i a ha
      split at h
      · cases h
      · cases h
      · rename_i r hr
        cases h
        rw [List.all_cons, ih r hr, hp t a ha]; rfl

/-! ### sort + dedup, sorted maps -/

theorem all_dedup_sort {q : Bytes → Bool} {l : List Bytes} (h : l.all q = true) :
    (dedupAdj (sortBytes l)).all q = true := by
  rw [List.all_eq_true] at *
  intro x hx
  exact h x (mem_dedup_sort.1 hx)

theorem all_sortBytes {q : Bytes → Bool} {l : List Bytes} (h : l.all q = true) :
    (sortBytes l).all q = true := by
  rw [List.all_eq_true] at *
  intro x hx
  exact h x (mem_sortBytes.1 hx)

theorem okVariants_finish {vs : List Bytes} (h : vs.all okVariant = true) :
    okVariants (LangId.finishVariants vs) = true := by
  unfold LangId.finishVariants
  split
  · rfl
  · rename_i hne
    simp only [okVariants, strictSorted_dedup_sort, all_dedup_sort h, Bool.and_true,
      Bool.not_eq_true', List.isEmpty_eq_false_iff]
    cases vs with
    | nil => simp at hne
    | cons a r =>
      intro he
      have : a ∈ dedupAdj (sortBytes (a :: r)) := mem_dedup_sort.2 (List.mem_cons_self ..)
      rw [he] at this
      cases this

theorem okMap_nil (okK : Bytes → Bool) : okMap okK [] = true := rfl

theorem okMap_iff {okK : Bytes → Bool} {m : AMap} :
    okMap okK m = true ↔
      AMap.sortedKeys m = true ∧ ∀ kv ∈ m, okK kv.1 = true ∧ kv.2.all okType = true := by
  simp only [okMap, AMap.sortedKeys, Bool.and_eq_true, List.all_eq_true]

theorem AMap.mem_insert {k : Bytes} {v : List Bytes} {m : AMap} {kv : Bytes × List Bytes}
    (h : kv ∈ AMap.insert k v m) : kv = (k, v) ∨ kv ∈ m := by
  induction m with
  | nil => simpa [AMap.insert] using h
  | cons p m ih =>
    obtain ⟨k', v'⟩ := p
    unfold AMap.insert at h
    split at h
    · rcases List.mem_cons.1 h with h | h
      · exact Or.inl h
      · exact Or.inr (List.mem_cons_of_mem _ h)
    · split at h
      · rcases List.mem_cons.1 h with h | h
        · exact Or.inl h
        · exact Or.inr h
      · rcases List.mem_cons.1 h with h | h
        · exact Or.inr (h ▸ List.mem_cons_self ..)
        · rcases ih h with h | h
          · exact Or.inl h
          · exact Or.inr (List.mem_cons_of_mem _ h)

theorem AMap.remove_sublist (k : Bytes) (m : AMap) : (AMap.remove k m).Sublist m := by
  induction m with
  | nil => exact List.Sublist.refl _
  | cons p m ih =>
    obtain ⟨k', v'⟩ := p
    unfold AMap.remove
    split
    · exact List.Sublist.cons _ (List.Sublist.refl _)
    · exact List.Sublist.cons_cons _ ih

theorem okMap_insert {okK : Bytes → Bool} {m : AMap} {k : Bytes} {v : List Bytes}
    (hm : okMap okK m = true) (hk : okK k = true) (hv : v.all okType = true) :
    okMap okK (AMap.insert k v m) = true := by
  rw [okMap_iff] at *
  refine ⟨AMap.sortedKeys_insert hm.1, ?_⟩
  intro kv hkv
  rcases AMap.mem_insert hkv with rfl | h
  · exact ⟨hk, hv⟩
  · exact hm.2 kv h

theorem okMap_remove {okK : Bytes → Bool} {m : AMap} {k : Bytes} (hm : okMap okK m = true) :
    okMap okK (AMap.remove k m) = true := by
  rw [okMap_iff] at *
  exact ⟨AMap.sortedKeys_remove hm.1, fun kv hkv => hm.2 kv ((AMap.remove_sublist k m).subset hkv)⟩

/-! ### `LanguageIdentifier` -/

theorem Spec.takeOpt_fst {p : Bytes → Bool} {xs : List Bytes} {t : Bytes}
    (h : (Spec.takeOpt p xs).1 = some t) : p t = true := by
  cases xs with
  | nil => simp [Spec.takeOpt] at h
  | cons x xs =>
    simp only [Spec.takeOpt] at h
    by_cases hp : p x = true
    · rw [if_pos hp] at h
      cases h
      exact hp
    · rw [if_neg hp] at h
      cases h

theorem LangId.inv_concreteLi_of_read {ts rest : List Bytes} {v : Spec.LangIdV}
    (h : Spec.readLangIdPrefix ts = some (v, rest)) : (concreteLi v).inv = true := by
  cases ts with
  | nil => simp [Spec.readLangIdPrefix, Spec.readLangIdPrefixD] at h
  | cons l r0 =>
    by_cases hl : Spec.isLanguage l = true
    · simp only [Spec.readLangIdPrefix, Spec.readLangIdPrefixD, hl, Bool.not_true, Bool.false_eq_true,
        if_false, Option.map_some, Option.some.injEq, Prod.mk.injEq] at h
      obtain ⟨hv, _⟩ := h
      subst hv
      simp only [LangId.inv, concreteLi, Bool.and_eq_true]
      refine ⟨⟨⟨okLanguage_canon hl, ?_⟩, ?_⟩, ?_⟩
      · cases hs : (Spec.takeOpt Spec.isScript r0).1 with
        | none => rfl
        | some s => exact okScript_title (Spec.takeOpt_fst hs)
      · cases hr : (Spec.takeOpt Spec.isRegion (Spec.takeOpt Spec.isScript r0).2).1 with
        | none => rfl
        | some r => exact okRegion_upper (Spec.takeOpt_fst hr)
      · split
        · rfl
        · rename_i hne
          simp only [okVariants, hne, Bool.not_false, strictSorted_toSet, Bool.true_and,
            List.all_eq_true]
          intro x hx
          rw [mem_toSet, List.mem_map] at hx
          obtain ⟨y, hy, rfl⟩ := hx
          exact okVariant_lower (List.all_eq_true.mp List.all_takeWhile y hy)
    · simp [Spec.readLangIdPrefix, Spec.readLangIdPrefixD, hl] at h

/-- `parse_language_identifier_from_iter` returns a valid identifier -/
theorem LangId.inv_of_parseIter {ts rest : List Bytes} {a : Bool} {x : LangId}
    (h : LangId.parseIter ts a = .ok (x, rest)) : x.inv = true := by
  cases ts with
  | nil =>
    rw [LangId.parseIter_nil] at h
    cases h
    rfl
  | cons t ts =>
    rw [LangId.parseIter_char] at h
    cases hread : Spec.readLangIdPrefix (t :: ts) with
    | none => rw [hread] at h; cases h
    | some p =>
      obtain ⟨v, rest'⟩ := p
      rw [hread] at h
      simp only at h
      split at h
      · cases h
      · cases h
        exact LangId.inv_concreteLi_of_read hread

/-- `LanguageIdentifier::from_bytes` returns a valid identifier -/
theorem LangId.inv_of_fromBytes {bs : Bytes} {x : LangId} (h : LangId.fromBytes bs = .ok x) :
    x.inv = true := by
  unfold LangId.fromBytes at h
  cases hp : LangId.parseIter (splitSep bs) false with
  | ok p =>
    rw [hp] at h
    cases h
    exact LangId.inv_of_parseIter (rest := p.2) hp
  | err e => rw [hp] at h; cases h
  | panic => rw [hp] at h; cases h

/-- `LanguageIdentifier::from_parts` on valid subtags -/
theorem LangId.inv_fromParts {l : Language} {s r : Option Bytes} {vs : List Bytes}
    (hl : okLanguage l = true) (hs : okScript s = true) (hr : okRegion r = true)
    (hv : ∀ v ∈ vs, okVariant v = true) : (LangId.fromParts l s r vs).inv = true := by
  simp only [LangId.inv, LangId.fromParts, hl, hs, hr, Bool.true_and]
  exact okVariants_finish (List.all_eq_true.2 hv)

/-! ### unicode extension -/

theorem UExt.loop_inv : ∀ (ts : List Bytes) (u : UExt) (ck : Option Bytes) (ct : List Bytes)
    {u' : UExt} {rest : List Bytes},
    UExt.loop ts u ck ct = .ok (u', rest) →
    u.attributes.all okAttr = true → okMap okKey u.keywords = true →
    (∀ k, ck = some k → okKey k = true) → ct.all okType = true → u'.inv = true := by
  have hfin : ∀ (u : UExt) (ck : Option Bytes) (ct : List Bytes),
      u.attributes.all okAttr = true → okMap okKey u.keywords = true →
      (∀ k, ck = some k → okKey k = true) → ct.all okType = true →
      (UExt.finish u ck ct).inv = true := by
    intro u ck ct ha hm hk ht
    unfold UExt.finish UExt.flush UExt.inv
    cases ck with
    | none => simp only [strictSorted_dedup_sort, all_dedup_sort ha, hm, Bool.and_self]
    | some k =>
      simp only [strictSorted_dedup_sort, all_dedup_sort ha, okMap_insert hm (hk k rfl) ht,
        Bool.and_self]
  intro ts
  induction ts with
  | nil =>
    intro u ck ct u' rest h ha hm hk ht
    unfold UExt.loop at h
    cases h
    exact hfin u ck ct ha hm hk ht
  | cons t ts ih =>
    intro u ck ct u' rest h ha hm hk ht
    unfold UExt.loop at h
    split at h
    · -- key
      split at h
      · cases h
      · cases h
      · rename_i k hpk
        refine ih _ _ _ h ?_ ?_ ?_ ?_
        · cases ck <;> exact ha
        · cases ck with
          | none => exact hm
          | some k0 => exact okMap_insert hm (hk k0 rfl) ht
        · intro k' hk'
          cases hk'
          exact okKey_of_parse hpk
        · cases ck with
          | none => exact ht
          | some k0 => rfl
    · split at h
      · -- type
        split at h
        · cases h
        · cases h
        · rename_i ty hpt
          refine ih _ _ _ h ha hm hk ?_
          rw [List.all_append, ht]
          simp [okType_of_parseType hpt]
        · exact ih _ _ _ h ha hm hk ht
      · split at h
        · -- attribute
          split at h
          · cases h
          · cases h
          · rename_i a hpa
            refine ih _ _ _ h ?_ hm hk ht
            simp only [List.all_append, ha, List.all_cons, okAttr_of_parse hpa, List.all_nil,
              Bool.and_self]
        · cases h
          exact hfin u ck ct ha hm hk ht

theorem UExt.inv_of_parseIter {ts rest : List Bytes} {u : UExt}
    (h : UExt.parseIter ts = .ok (u, rest)) : u.inv = true :=
  UExt.loop_inv ts {} none [] h rfl rfl (fun _ hk => by cases hk) rfl

/-! ### transform extension -/

theorem TExt.fieldLoop_inv : ∀ (ts : List Bytes) (x : TExt) (ck : Option Bytes) (cv : List Bytes)
    {x' : TExt} {rest : List Bytes},
    TExt.fieldLoop ts x ck cv = .ok (x', rest) → x.inv = true →
    (∀ k, ck = some k → okTKey k = true) → cv.all okType = true → x'.inv = true := by
  have hfl : ∀ (x : TExt) (ck : Option Bytes) (cv : List Bytes), x.inv = true →
      (∀ k, ck = some k → okTKey k = true) → cv.all okType = true →
      (TExt.flush x ck cv).inv = true := by
    intro x ck cv hx hk hv
    unfold TExt.flush
    cases ck with
    | none => exact hx
    | some k =>
      simp only [TExt.inv, Bool.and_eq_true] at hx ⊢
      exact ⟨hx.1, okMap_insert hx.2 (hk k rfl) hv⟩
  intro ts
  induction ts with
  | nil =>
    intro x ck cv x' rest h hx hk hv
    unfold TExt.fieldLoop at h
    cases h
    exact hfl x ck cv hx hk hv
  | cons t ts ih =>
    intro x ck cv x' rest h hx hk hv
    unfold TExt.fieldLoop at h
    split at h
    · split at h
      · cases h
      · cases h
      · rename_i k hpk
        refine ih _ _ _ h (hfl x ck cv hx hk hv) ?_ ?_
        · intro k' hk'
          cases hk'
          exact okTKey_of_parse hpk
        · cases ck with
          | none => exact hv
          | some k0 => rfl
    · split at h
      · cases h
        exact hfl x ck cv hx hk hv
      · split at h
        · split at h
          · cases h
          · cases h
          · rename_i v hpv
            refine ih _ _ _ h hx hk ?_
            rw [List.all_append, hv]
            simp [okType_of_parseTValue hpv]
          · exact ih _ _ _ h hx hk hv
        · cases h
          exact hfl x ck cv hx hk hv

theorem TExt.inv_of_parseIter {ts rest : List Bytes} {x : TExt}
    (h : TExt.parseIter ts = .ok (x, rest)) : x.inv = true := by
  unfold TExt.parseIter at h
  split at h
  · cases h; rfl
  · rename_i t ts'
    split at h
    · exact TExt.fieldLoop_inv _ _ _ _ h rfl (fun _ hk => by cases hk) rfl
    · split at h
      · cases h; rfl
      · split at h
        · split at h
          · cases h
          · cases h
          · rename_i li rest' hli
            refine TExt.fieldLoop_inv _ _ _ _ h ?_ (fun _ hk => by cases hk) rfl
            simp only [TExt.inv, LangId.inv_of_parseIter hli, Bool.true_and]
            rfl
        · cases h; rfl

/-! ### private use, the extensions map, `Locale` -/

theorem PExt.inv_of_parseIter {ts : List Bytes} {p : PExt} (h : PExt.parseIter ts = .ok p) :
    PExt.inv p = true := by
  unfold PExt.parseIter at h
  cases hc : collectAll parsePrivate ts with
  | ok l =>
    rw [hc] at h
    cases h
    simp only [PExt.inv, weakSorted_sortBytes, Bool.true_and]
    exact all_sortBytes (all_ok_of_collectAll (fun _ _ => okTag_of_parse) ts l hc)
  | err e => rw [hc] at h; cases h
  | panic => rw [hc] at h; cases h

theorem ExtMap.loop_inv : ∀ (fuel : Nat) (ts : List Bytes) (m : ExtMap) (sU sT : Bool) {m' : ExtMap},
    ExtMap.loop fuel ts m sU sT = .ok m' → m.inv = true → m'.inv = true := by
  intro fuel
  induction fuel with
  | zero => intro ts m sU sT m' h; cases h
  | succ fuel ih =>
    intro ts m sU sT m' h hm
    cases ts with
    | nil => unfold ExtMap.loop at h; cases h; exact hm
    | cons t ts =>
      unfold ExtMap.loop at h
      split at h
      · cases h
      · split at h
        · exact ih _ _ _ _ h hm
        · rename_i b tl
          simp only [ExtMap.inv, Bool.and_eq_true] at hm
          split at h
          · split at h
            · cases h
            · split at h
              · cases h
              · cases h
              · rename_i u rest hu
                refine ih _ _ _ _ h ?_
                simp only [ExtMap.inv, UExt.inv_of_parseIter hu, hm.1.2, hm.2, Bool.and_self]
          · split at h
            · cases h
            · split at h
              · cases h
              · cases h
              · rename_i x rest hx
                refine ih _ _ _ _ h ?_
                simp only [ExtMap.inv, TExt.inv_of_parseIter hx, hm.1.1, hm.2, Bool.and_self]
          · split at h
            · cases h
            · cases h
            · rename_i p hp
              cases h
              simp only [ExtMap.inv, PExt.inv_of_parseIter hp, hm.1.1, hm.1.2, Bool.and_self]
          · cases h

theorem ExtMap.inv_of_parseIter {ts : List Bytes} {m : ExtMap} (h : ExtMap.parseIter ts = .ok m) :
    m.inv = true :=
  ExtMap.loop_inv _ ts {} false false h rfl

theorem ExtMap.inv_of_fromBytes {bs : Bytes} {m : ExtMap} (h : ExtMap.fromBytes bs = .ok m) :
    m.inv = true :=
  ExtMap.inv_of_parseIter h

theorem Locale.inv_of_parse {ts : List Bytes} {x : Locale} (h : Locale.parse ts = .ok x) :
    x.inv = true := by
  unfold Locale.parse at h
  split at h
  · cases h
  · cases h
  · rename_i id rest hid
    split at h
    · cases h
    · cases h
    · rename_i ext hext
      cases h
      simp only [Locale.inv, LangId.inv_of_parseIter hid, ExtMap.inv_of_parseIter hext, Bool.and_self]

/-- `Locale::from_bytes` returns a valid locale -/
theorem Locale.inv_of_fromBytes {bs : Bytes} {x : Locale} (h : Locale.fromBytes bs = .ok x) :
    x.inv = true :=
  Locale.inv_of_parse h

/-- `Locale::from_parts` on valid subtags and a valid extensions map -/
theorem Locale.inv_fromParts {l : Language} {s r : Option Bytes} {vs : List Bytes} {e : Option ExtMap}
    (hl : okLanguage l = true) (hs : okScript s = true) (hr : okRegion r = true)
    (hv : ∀ v ∈ vs, okVariant v = true) (he : ∀ m, e = some m → m.inv = true) :
    (Locale.fromParts l s r vs e).inv = true := by
  simp only [Locale.inv, Locale.fromParts, LangId.inv_fromParts hl hs hr hv, Bool.true_and]
  cases e with
  | none => rfl
  | some m => exact he m rfl

/-! ### non-vacuity: the hypotheses are satisfiable by non-trivial values -/

/-- "en-Latn-US-macos-t-es-AR-h0-hybrid-u-attr-ca-buddhist-x-priv" -/
def sampleBytes : Bytes :=
  [101,110,45,76,97,116,110,45,85,83,45,109,97,99,111,115,45,116,45,101,115,45,65,82,45,104,48,45,
   104,121,98,114,105,100,45,117,45,97,116,116,114,45,99,97,45,98,117,100,100,104,105,115,116,45,
   120,45,112,114,105,118]

-- `Locale.fromBytes` succeeds on it with all three extensions present (`Locale.inv_of_fromBytes`,
-- `Locale.inv_of_parse`, `ExtMap.loop_inv`, `UExt/TExt/PExt.inv_of_parseIter` all fire)
example : (match Locale.fromBytes sampleBytes with
    | .ok x => x.inv && !x.ext.unicode.isEmpty && !x.ext.transform.isEmpty && !x.ext.priv.isEmpty
    | _ => false) = true := by decide
-- `LangId.fromBytes` on "DE_latn_at_1996-1996"; `ExtMap.fromBytes` on "u-ca-buddhist-x-b-a"
example : (LangId.fromBytes [68,69,95,108,97,116,110,95,97,116,95,49,57,57,54,45,49,57,57,54]).isOk = true := by
  decide
example : (ExtMap.fromBytes [117,45,99,97,45,98,117,100,100,104,105,115,116,45,120,45,98,45,97]).isOk = true := by
  decide
-- the constructors: "EN", "lATN", "us", "1AbC", attribute "ATTR", key "CA", type "Buddhist",
-- tkey "H0", private tag "A"
example : Language.fromBytes [69,78] = .ok (some [101,110]) ∧ Script.fromBytes [108,65,84,78] = .ok [76,97,116,110] ∧
    Region.fromBytes [117,115] = .ok [85,83] ∧ Variant.fromBytes [49,65,98,67] = .ok [49,97,98,99] ∧
    parseAttribute [65,84,84,82] = .ok [97,116,116,114] ∧ parseKey [67,65] = .ok [99,97] ∧
    parseType [66,117,100,100,104,105,115,116] = .ok (some [98,117,100,100,104,105,115,116]) ∧
    parseTKey [72,48] = .ok [104,48] ∧ parsePrivate [65] = .ok [97] := by decide
-- `from_parts` hypotheses
example : okLanguage (some [101,110]) = true ∧ okScript (some [76,97,116,110]) = true ∧
    okRegion (some [85,83]) = true ∧ okVariant [49,57,57,54] = true := by decide

end UL.Reach
