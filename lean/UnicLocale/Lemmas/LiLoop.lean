/-
  Lemmas/LiLoop.lean — characterisation of the language-identifier state machine
  (`LangId.loop`, `LangId.parseIter`) by the declarative reader of the spec.
-/
import UnicLocale.Lemmas.Order
import UnicLocale.Props.C15

namespace UL
open Props.C15

/-- the concrete value for an abstract language identifier (`None` for an empty variant list) -/
def concreteLi (v : Spec.LangIdV) : LangId :=
  { language := v.language, script := v.script, region := v.region,
    variants := if v.variants.isEmpty then none else some v.variants }

/-! ### the state machine, position by position -/

theorem LangId.loop_pos3 (pos : Nat) (h1 : pos ≠ 1) (h2 : pos ≠ 2) (ts : List Bytes)
    (s r : Option Bytes) (vs : List Bytes) :
    LangId.loop pos ts s r vs =
      .ok (s, r, vs ++ (ts.takeWhile Spec.isVariant).map lower, ts.dropWhile Spec.isVariant) := by
  induction ts generalizing vs with
  | nil => simp [LangId.loop]
  | cons t ts ih =>
    rw [LangId.loop]
    simp only [beq_iff_eq, h1, h2, if_false, variant_exact]
    by_cases hv : Spec.isVariant t = true
    · simp [hv, ih]
    · simp [hv]

theorem LangId.loop_pos2 (ts : List Bytes) (s : Option Bytes) (vs : List Bytes) :
    LangId.loop 2 ts s none vs =
      .ok (s, (Spec.takeOpt Spec.isRegion ts).1.map upper,
           vs ++ ((Spec.takeOpt Spec.isRegion ts).2.takeWhile Spec.isVariant).map lower,
           (Spec.takeOpt Spec.isRegion ts).2.dropWhile Spec.isVariant) := by
  cases ts with
  | nil => simp [LangId.loop, Spec.takeOpt]
  | cons t ts =>
    rw [LangId.loop]
    simp only [beq_iff_eq, region_exact, variant_exact, Spec.takeOpt]
    by_cases hr : Spec.isRegion t = true
    · simp [hr, LangId.loop_pos3]
    · by_cases hv : Spec.isVariant t = true
      · simp [hr, hv, LangId.loop_pos3]
      · simp [hr, hv]

theorem LangId.loop_pos1 (ts : List Bytes) :
    LangId.loop 1 ts none none [] =
      .ok (let p1 := Spec.takeOpt Spec.isScript ts
           let p2 := Spec.takeOpt Spec.isRegion p1.2
           (p1.1.map title, p2.1.map upper, (p2.2.takeWhile Spec.isVariant).map lower,
            p2.2.dropWhile Spec.isVariant)) := by
  cases ts with
  | nil => simp [LangId.loop, Spec.takeOpt]
  | cons t ts =>
    rw [LangId.loop]
    simp only [beq_iff_eq, if_true, script_exact, region_exact, variant_exact]
    by_cases hs : Spec.isScript t = true
    · simp [hs, Spec.takeOpt, LangId.loop_pos2]
    · by_cases hr : Spec.isRegion t = true
      · simp [hs, hr, Spec.takeOpt, LangId.loop_pos3]
      · by_cases hv : Spec.isVariant t = true
        · simp [hs, hr, hv, Spec.takeOpt, LangId.loop_pos3]
        · simp [hs, hr, hv, Spec.takeOpt]

/-! ### the parser as a whole -/

theorem splitSep_ne_nil (bs : Bytes) : splitSep bs ≠ [] := by
  induction bs with
  | nil => simp [splitSep]
  | cons b t ih =>
    unfold splitSep
    split
    · simp
    · split
      · simp
      · simp

theorem Spec.toSet_isEmpty (vs : List Bytes) : (Spec.toSet vs).isEmpty = vs.isEmpty := by
  cases vs with
  | nil => rfl
  | cons a l =>
    have h : a ∈ Spec.toSet (a :: l) := mem_toSet.mpr (List.mem_cons_self)
    cases hs : Spec.toSet (a :: l) with
    | nil => rw [hs] at h; cases h
    | cons _ _ => rfl

theorem LangId.finishVariants_eq (vs : List Bytes) :
    LangId.finishVariants vs = (if (Spec.toSet vs).isEmpty then none else some (Spec.toSet vs)) := by
  unfold LangId.finishVariants
  rw [Spec.toSet_isEmpty, dedup_sort_eq_toSet]

theorem LangId.parseIter_char (t : Bytes) (ts : List Bytes) (allowExt : Bool) :
    LangId.parseIter (t :: ts) allowExt =
      match Spec.readLangIdPrefix (t :: ts) with
      | none => .err .invalidLanguage
      | some (v, rest) =>
        if !allowExt && !rest.isEmpty then .err .invalidSubtag else .ok (concreteLi v, rest) := by
  unfold LangId.parseIter Spec.readLangIdPrefix Spec.readLangIdPrefixD
  simp only [language_exact, LangId.loop_pos1, LangId.finishVariants_eq]
  by_cases hl : Spec.isLanguage t = true
  · simp [hl, Res.map, concreteLi]
  · simp [hl, Res.map]

theorem LangId.parseIter_nil (allowExt : Bool) : LangId.parseIter [] allowExt = .ok ({}, []) := by
  simp [LangId.parseIter, LangId.loop, LangId.finishVariants, Language.default]


/-! ### the declarative prefix reader -/

theorem Spec.takeOpt_split {p : Bytes → Bool} {xs a b : List Bytes} {o : Option Bytes}
    (h : Spec.takeOpt p xs = (o, a ++ b)) :
    Spec.takeOpt p (o.toList ++ a) = (o, a) ∧ xs = o.toList ++ a ++ b ∧ (∀ t ∈ o.toList, p t = true) := by
  cases xs with
  | nil =>
    simp only [Spec.takeOpt, Prod.mk.injEq] at h
    obtain ⟨rfl, h⟩ := h
    have := List.append_eq_nil_iff.mp h.symm
    obtain ⟨rfl, rfl⟩ := this
    simp [Spec.takeOpt]
  | cons t ts =>
    simp only [Spec.takeOpt] at h
    by_cases hp : p t = true
    · rw [if_pos hp] at h
      have h1 : some t = o := congrArg Prod.fst h
      have h2 : ts = a ++ b := congrArg Prod.snd h
      subst h1; subst h2
      simp [Spec.takeOpt, hp]
    · rw [if_neg hp] at h
      have h1 : none = o := congrArg Prod.fst h
      have h2 : t :: ts = a ++ b := congrArg Prod.snd h
      subst h1
      cases a with
      | nil => simp [Spec.takeOpt, h2]
      | cons a0 a' =>
        simp only [List.cons_append, List.cons.injEq] at h2
        obtain ⟨rfl, rfl⟩ := h2
        simp [Spec.takeOpt, hp]

theorem Spec.takeOpt_append {p : Bytes → Bool} {xs r : List Bytes} {o : Option Bytes} {y : Bytes}
    (ys : List Bytes) (h : Spec.takeOpt p xs = (o, r)) (hy : p y = false) :
    Spec.takeOpt p (xs ++ y :: ys) = (o, r ++ y :: ys) := by
  cases xs with
  | nil =>
    simp only [Spec.takeOpt, Prod.mk.injEq] at h
    obtain ⟨rfl, rfl⟩ := h
    simp [Spec.takeOpt, hy]
  | cons t ts =>
    simp only [Spec.takeOpt] at h
    by_cases hp : p t = true
    · rw [if_pos hp] at h
      have h1 : some t = o := congrArg Prod.fst h
      have h2 : ts = r := congrArg Prod.snd h
      subst h1; subst h2
      simp [Spec.takeOpt, hp]
    · rw [if_neg hp] at h
      have h1 : none = o := congrArg Prod.fst h
      have h2 : t :: ts = r := congrArg Prod.snd h
      subst h1; subst h2
      simp [Spec.takeOpt, hp]

theorem takeWhile_takeWhile_self {α} (p : α → Bool) (l : List α) :
    (l.takeWhile p).takeWhile p = l.takeWhile p := by
  induction l with
  | nil => rfl
  | cons a l ih =>
    by_cases h : p a = true
    · simp [h, ih]
    · simp [h]

theorem dropWhile_takeWhile_self {α} (p : α → Bool) (l : List α) :
    (l.takeWhile p).dropWhile p = [] := by
  induction l with
  | nil => rfl
  | cons a l ih =>
    by_cases h : p a = true
    · simp [h, ih]
    · simp [h]

theorem takeWhile_dropWhile_append {α} (p : α → Bool) {l : List α} {y : α} (ys : List α)
    (hl : l.dropWhile p = []) (hy : p y = false) :
    (l ++ y :: ys).takeWhile p = l.takeWhile p ∧ (l ++ y :: ys).dropWhile p = y :: ys := by
  induction l with
  | nil => simp [hy]
  | cons a l ih =>
    by_cases h : p a = true
    · simp only [List.dropWhile_cons, h, if_true] at hl
      simp [h, ih hl]
    · simp [h] at hl

theorem Spec.isLanguage_length {t : Bytes} (h : Spec.isLanguage t = true) : 2 ≤ t.length := by
  simp only [Spec.isLanguage, Spec.rep, Bool.or_eq_true, Bool.and_eq_true, decide_eq_true_eq] at h
  omega
theorem Spec.isScript_length {t : Bytes} (h : Spec.isScript t = true) : 2 ≤ t.length := by
  simp only [Spec.isScript, Spec.rep, Bool.and_eq_true, decide_eq_true_eq] at h
  omega
theorem Spec.isRegion_length {t : Bytes} (h : Spec.isRegion t = true) : 2 ≤ t.length := by
  simp only [Spec.isRegion, Spec.rep, Bool.or_eq_true, Bool.and_eq_true, decide_eq_true_eq] at h
  omega
theorem Spec.isVariant_length {t : Bytes} (h : Spec.isVariant t = true) : 2 ≤ t.length := by
  unfold Spec.isVariant at h
  cases t with
  | nil => simp [Spec.rep] at h
  | cons d r =>
    simp only [Spec.rep, Bool.or_eq_true, Bool.and_eq_true, decide_eq_true_eq, List.length_cons] at h
    simp only [List.length_cons]
    omega

theorem Spec.readLangIdPrefix_consumed {ts rest : List Bytes} {v : Spec.LangIdV}
    (h : Spec.readLangIdPrefix ts = some (v, rest)) :
    ∃ pre, ts = pre ++ rest ∧ pre ≠ [] ∧ (∀ t ∈ pre, 2 ≤ t.length) ∧
      Spec.readLangIdPrefix pre = some (v, []) := by
  cases ts with
  | nil => simp [Spec.readLangIdPrefix, Spec.readLangIdPrefixD] at h
  | cons l r0 =>
    by_cases hl : Spec.isLanguage l = true
    · simp only [Spec.readLangIdPrefix, Spec.readLangIdPrefixD, hl, Bool.not_true, Bool.false_eq_true,
        if_false, Option.map_some, Option.some.injEq, Prod.mk.injEq] at h
      obtain ⟨hv, hrest⟩ := h
      generalize hs : Spec.takeOpt Spec.isScript r0 = p1 at hv hrest
      obtain ⟨s, r1⟩ := p1
      generalize hr : Spec.takeOpt Spec.isRegion r1 = p2 at hv hrest
      obtain ⟨r, r2⟩ := p2
      simp only at hv hrest
      have h2 : r2 = r2.takeWhile Spec.isVariant ++ rest := by
        rw [← hrest]; exact (List.takeWhile_append_dropWhile).symm
      rw [h2] at hr
      obtain ⟨hr1, hr2, hr3⟩ := Spec.takeOpt_split hr
      rw [hr2, List.append_assoc] at hs
      rw [← List.append_assoc] at hs
      obtain ⟨hs1, hs2, hs3⟩ := Spec.takeOpt_split hs
      refine ⟨l :: (s.toList ++ (r.toList ++ r2.takeWhile Spec.isVariant)), ?_, by simp, ?_, ?_⟩
      · rw [hs2]; simp
      · intro t ht
        simp only [List.mem_cons, List.mem_append] at ht
        rcases ht with rfl | ht | ht | ht
        · exact Spec.isLanguage_length hl
        · exact Spec.isScript_length (hs3 t ht)
        · exact Spec.isRegion_length (hr3 t ht)
        · exact Spec.isVariant_length (List.all_eq_true.mp List.all_takeWhile t ht)
      · simp only [Spec.readLangIdPrefix, Spec.readLangIdPrefixD, hl, Bool.not_true,
          Bool.false_eq_true, if_false, hs1, hr1, takeWhile_takeWhile_self, dropWhile_takeWhile_self,
          Option.map_some, hv]
    · simp [Spec.readLangIdPrefix, Spec.readLangIdPrefixD, hl] at h

theorem Spec.isVariant_short {sg : Bytes} (h : sg.length ≤ 1) : Spec.isVariant sg = false := by
  cases hv : Spec.isVariant sg with
  | false => rfl
  | true => have := Spec.isVariant_length hv; omega
theorem Spec.isRegion_short {sg : Bytes} (h : sg.length ≤ 1) : Spec.isRegion sg = false := by
  cases hv : Spec.isRegion sg with
  | false => rfl
  | true => have := Spec.isRegion_length hv; omega
theorem Spec.isScript_short {sg : Bytes} (h : sg.length ≤ 1) : Spec.isScript sg = false := by
  cases hv : Spec.isScript sg with
  | false => rfl
  | true => have := Spec.isScript_length hv; omega

theorem Spec.readLangIdPrefix_append {pre rest : List Bytes} {v : Spec.LangIdV} {sg : Bytes}
    (h : Spec.readLangIdPrefix pre = some (v, [])) (hsg : sg.length ≤ 1) :
    Spec.readLangIdPrefix (pre ++ sg :: rest) = some (v, sg :: rest) := by
  cases pre with
  | nil => simp [Spec.readLangIdPrefix, Spec.readLangIdPrefixD] at h
  | cons l r0 =>
    by_cases hl : Spec.isLanguage l = true
    · simp only [Spec.readLangIdPrefix, Spec.readLangIdPrefixD, hl, Bool.not_true, Bool.false_eq_true,
        if_false, Option.map_some, Option.some.injEq, Prod.mk.injEq] at h
      obtain ⟨hv, hrest⟩ := h
      generalize hs : Spec.takeOpt Spec.isScript r0 = p1 at hv hrest
      obtain ⟨s, r1⟩ := p1
      generalize hr : Spec.takeOpt Spec.isRegion r1 = p2 at hv hrest
      obtain ⟨r, r2⟩ := p2
      simp only at hv hrest
      have hs' := Spec.takeOpt_append rest hs (Spec.isScript_short hsg)
      have hr' := Spec.takeOpt_append rest hr (Spec.isRegion_short hsg)
      obtain ⟨ht, hd⟩ := takeWhile_dropWhile_append Spec.isVariant rest hrest (Spec.isVariant_short hsg)
      simp only [Spec.readLangIdPrefix, Spec.readLangIdPrefixD, List.cons_append, hl, Bool.not_true,
          Bool.false_eq_true, if_false, hs', hr', ht, hd, Option.map_some, hv]
    · simp [Spec.readLangIdPrefix, Spec.readLangIdPrefixD, hl] at h


/-- what is handed back is a proper suffix: the parser consumes at least the language subtag -/
theorem LangId.parseIter_suffix {ts rest : List Bytes} {x : LangId} {a : Bool} (hne : ts ≠ [])
    (h : LangId.parseIter ts a = .ok (x, rest)) : ∃ pre, pre ≠ [] ∧ ts = pre ++ rest := by
  cases ts with
  | nil => exact absurd rfl hne
  | cons t ts =>
    rw [LangId.parseIter_char] at h
    cases hread : Spec.readLangIdPrefix (t :: ts) with
    | none => rw [hread] at h; cases h
    | some p =>
      obtain ⟨v, rest'⟩ := p
      rw [hread] at h
      simp only at h
      split at h
      · cases h
      · have h2 : rest' = rest := by injection h with h; exact congrArg Prod.snd h
        subst h2
        obtain ⟨pre, h1, h2, _, _⟩ := Spec.readLangIdPrefix_consumed hread
        exact ⟨pre, h2, h1⟩

theorem LangId.parseIter_rest_length {ts rest : List Bytes} {x : LangId} {a : Bool}
    (h : LangId.parseIter ts a = .ok (x, rest)) : rest.length ≤ ts.length := by
  by_cases hne : ts = []
  · subst hne
    rw [LangId.parseIter_nil] at h
    have h2 : [] = rest := by injection h with h; exact congrArg Prod.snd h
    subst h2
    exact Nat.le_refl _
  · obtain ⟨pre, _, h2⟩ := LangId.parseIter_suffix hne h
    rw [h2, List.length_append]
    exact Nat.le_add_left _ _

/-! ### consequences used by C13 -/

/-- without extensions allowed, success means everything was consumed; the same input is then
    accepted with extensions allowed -/
theorem LangId.parseIter_false_ok {ts rest : List Bytes} {x : LangId}
    (h : LangId.parseIter ts false = .ok (x, rest)) :
    rest = [] ∧ LangId.parseIter ts true = .ok (x, []) := by
  cases ts with
  | nil =>
    rw [LangId.parseIter_nil] at h
    rw [LangId.parseIter_nil]
    have h1 : ({} : LangId) = x := by injection h with h; exact congrArg Prod.fst h
    have h2 : [] = rest := by injection h with h; exact congrArg Prod.snd h
    subst h1; subst h2
    exact ⟨rfl, rfl⟩
  | cons t ts =>
    rw [LangId.parseIter_char] at h
    rw [LangId.parseIter_char]
    cases hread : Spec.readLangIdPrefix (t :: ts) with
    | none => rw [hread] at h; cases h
    | some p =>
      obtain ⟨v, rest'⟩ := p
      rw [hread] at h
      cases rest' with
      | nil =>
        have h1 : concreteLi v = x := by injection h with h; exact congrArg Prod.fst h
        have h2 : [] = rest := by injection h with h; exact congrArg Prod.snd h
        subst h1; subst h2
        exact ⟨rfl, rfl⟩
      | cons r rs => cases h

/-- the extension parser accepts only a singleton (or empty) subtag at its head -/
theorem ExtMap.parseIter_ok_head {sg : Bytes} {rest : List Bytes} {m : ExtMap}
    (h : ExtMap.parseIter (sg :: rest) = .ok m) : sg.length ≤ 1 := by
  unfold ExtMap.parseIter at h
  simp only [List.length_cons] at h
  unfold ExtMap.loop at h
  by_cases hlen : sg.length > 1
  · simp [hlen] at h
  · omega

theorem ExtMap.parseIter_nil : ExtMap.parseIter [] = .ok {} := rfl

/-- the subtags before the first singleton: the consumed prefix, when what follows starts with a
    singleton (or is empty) -/
theorem takeWhile_length_ne_one {pre rest : List Bytes} (hpre : ∀ t ∈ pre, 2 ≤ t.length)
    (hrest : ∀ sg rs, rest = sg :: rs → sg.length = 1) :
    (pre ++ rest).takeWhile (fun t => t.length != 1) = pre := by
  rw [List.takeWhile_append_of_pos]
  · cases rest with
    | nil => simp
    | cons sg rs => simp [hrest sg rs rfl]
  · intro t ht
    have := hpre t ht
    simp only [bne_iff_ne, ne_eq]
    omega

end UL
