/-
  Lemmas/LikelySpec.lean — for EVERY table set satisfying `tablesWF` and every valid
  (language, script, region), the model of `likelysubtags::maximize` (binary searches, integer
  packing, `from_raw_unchecked`, `.unwrap()`) returns `Ok` of the dictionary specification
  `Spec.maximize` over the association view `Spec.findTables T`; likewise `minimize`.   (C06, C07, C08)
-/
import UnicLocale.Lemmas.BinSearchA
import UnicLocale.Lemmas.Raw

set_option linter.unusedSimpArgs false

namespace UL
open Props.C15

/-! ### what `tablesWF` provides -/

structure WF (T : Tables) : Prop where
  s1 : sorted1 T.langOnly.toList = true
  s2 : sorted2 T.langRegion.toList = true
  s3 : sorted2 T.langScript.toList = true
  s4 : sorted2 T.scriptRegion.toList = true
  s5 : sorted1 T.scriptOnly.toList = true
  s6 : sorted1 T.regionOnly.toList = true
  a1 : ∀ row ∈ T.langOnly.toList, valOk row.l row.s row.r = true ∧
        (row.k = Spec.undInt ∨ (validLangInt row.k = true ∧ row.l = row.k + 1))
  a2 : ∀ row ∈ T.langRegion.toList, valOk row.l row.s row.r = true ∧ validLangInt row.k1 = true ∧
        validRegionInt row.k2 = true ∧ row.l = row.k1 + 1 ∧ row.r = row.k2 + 1
  a3 : ∀ row ∈ T.langScript.toList, valOk row.l row.s row.r = true ∧ validLangInt row.k1 = true ∧
        validScriptInt row.k2 = true ∧ row.l = row.k1 + 1 ∧ row.s = row.k2 + 1
  a4 : ∀ row ∈ T.scriptRegion.toList, valOk row.l row.s row.r = true ∧ validScriptInt row.k1 = true ∧
        validRegionInt row.k2 = true ∧ row.s = row.k1 + 1 ∧ row.r = row.k2 + 1
  a5 : ∀ row ∈ T.scriptOnly.toList, valOk row.l row.s row.r = true ∧ validScriptInt row.k = true ∧
        row.s = row.k + 1
  a6 : ∀ row ∈ T.regionOnly.toList, valOk row.l row.s row.r = true ∧ validRegionInt row.k = true ∧
        row.r = row.k + 1

theorem tablesWF_iff (T : Tables) : tablesWF T = true ↔ WF T := by
  constructor
  · intro h
    simp only [tablesWF, Bool.and_eq_true, List.all_eq_true, Bool.or_eq_true, beq_iff_eq] at h
    obtain ⟨⟨⟨⟨⟨⟨⟨⟨⟨⟨⟨s1, s2⟩, s3⟩, s4⟩, s5⟩, s6⟩, a1⟩, a2⟩, a3⟩, a4⟩, a5⟩, a6⟩ := h
    exact ⟨s1, s2, s3, s4, s5, s6, a1,
      fun row hr => by have := a2 row hr; exact ⟨this.1.1.1.1, this.1.1.1.2, this.1.1.2, this.1.2, this.2⟩,
      fun row hr => by have := a3 row hr; exact ⟨this.1.1.1.1, this.1.1.1.2, this.1.1.2, this.1.2, this.2⟩,
      fun row hr => by have := a4 row hr; exact ⟨this.1.1.1.1, this.1.1.1.2, this.1.1.2, this.1.2, this.2⟩,
      fun row hr => by have := a5 row hr; exact ⟨this.1.1, this.1.2, this.2⟩,
      fun row hr => by have := a6 row hr; exact ⟨this.1.1, this.1.2, this.2⟩⟩
  · intro w
    simp only [tablesWF, Bool.and_eq_true, List.all_eq_true, Bool.or_eq_true, beq_iff_eq]
    exact ⟨⟨⟨⟨⟨⟨⟨⟨⟨⟨⟨w.s1, w.s2⟩, w.s3⟩, w.s4⟩, w.s5⟩, w.s6⟩, w.a1⟩,
      fun row hr => by have := w.a2 row hr; exact ⟨⟨⟨⟨this.1, this.2.1⟩, this.2.2.1⟩, this.2.2.2.1⟩, this.2.2.2.2⟩⟩,
      fun row hr => by have := w.a3 row hr; exact ⟨⟨⟨⟨this.1, this.2.1⟩, this.2.2.1⟩, this.2.2.2.1⟩, this.2.2.2.2⟩⟩,
      fun row hr => by have := w.a4 row hr; exact ⟨⟨⟨⟨this.1, this.2.1⟩, this.2.2.1⟩, this.2.2.2.1⟩, this.2.2.2.2⟩⟩,
      fun row hr => by have := w.a5 row hr; exact ⟨⟨this.1, this.2.1⟩, this.2.2⟩⟩,
      fun row hr => by have := w.a6 row hr; exact ⟨⟨this.1, this.2.1⟩, this.2.2⟩⟩

/-! ### valid subtags and their integers -/

theorem validLang_some {lb : Bytes} (h : validLang (some lb) = true) : Language.fromBytes lb = .ok (some lb) := by
  simpa [validLang] using h
theorem validScript_some {sb : Bytes} (h : validScript (some sb) = true) : Script.fromBytes sb = .ok sb := by
  simpa [validScript] using h
theorem validRegion_some {rb : Bytes} (h : validRegion (some rb) = true) : Region.fromBytes rb = .ok rb := by
  simpa [validRegion] using h

theorem und_bytes_pack : pack undBytes = Spec.undInt := by decide

theorem lang_facts {lb : Bytes} (h : validLang (some lb) = true) :
    pack lb ≠ 0 ∧ unpack (pack lb) = lb ∧ pack lb ≠ Spec.undInt := by
  have hf := validLang_some h
  obtain ⟨h2, h8, hb⟩ := language_bytes_ok lb lb hf
  have hb' : ∀ b ∈ lb, 1 ≤ b ∧ b ≤ 255 := fun b hm => by have := hb b hm; omega
  refine ⟨?_, raw_roundtrip_language lb lb hf, ?_⟩
  · have := pack_pos lb (by intro e; subst e; simp at h2) (fun b hm => (hb b hm).1)
    omega
  · intro e
    rw [← und_bytes_pack] at e
    have := pack_injective lb undBytes h8 (by decide) hb' (by decide) e
    exact language_some_ne_und lb lb hf this

theorem script_facts {sb : Bytes} (h : validScript (some sb) = true) :
    pack sb ≠ 0 ∧ unpack (pack sb) = sb := by
  have hf := validScript_some h
  obtain ⟨h4, hb⟩ := script_bytes_ok sb sb hf
  refine ⟨?_, raw_roundtrip_script sb sb hf⟩
  have := pack_pos sb (by intro e; subst e; simp at h4) (fun b hm => (hb b hm).1)
  omega

theorem region_facts {rb : Bytes} (h : validRegion (some rb) = true) :
    pack rb ≠ 0 ∧ unpack (pack rb) = rb := by
  have hf := validRegion_some h
  obtain ⟨h2, _, hb⟩ := region_bytes_ok rb rb hf
  refine ⟨?_, raw_roundtrip_region rb rb hf⟩
  have := pack_pos rb (by intro e; subst e; simp at h2) (fun b hm => (hb b hm).1)
  omega

theorem validLangInt_ne_zero {n : Nat} (h : validLangInt n = true) : n ≠ 0 := by
  intro e; subst e; revert h; decide
theorem validScriptInt_ne_zero {n : Nat} (h : validScriptInt n = true) : n ≠ 0 := by
  intro e; subst e; revert h; decide
theorem validRegionInt_ne_zero {n : Nat} (h : validRegionInt n = true) : n ≠ 0 := by
  intro e; subst e; revert h; decide

/-- a stored integer decodes to a subtag the checked constructor would have produced -/
theorem validLangInt_decodes {n : Nat} (h : validLangInt n = true) : validLang (some (unpack n)) = true := by
  simp only [validLangInt, Bool.and_eq_true] at h
  simpa [validLang] using h.1
theorem validScriptInt_decodes {n : Nat} (h : validScriptInt n = true) : validScript (some (unpack n)) = true := by
  simp only [validScriptInt, Bool.and_eq_true] at h
  simpa [validScript] using h.1
theorem validRegionInt_decodes {n : Nat} (h : validRegionInt n = true) : validRegion (some (unpack n)) = true := by
  simp only [validRegionInt, Bool.and_eq_true] at h
  simpa [validRegion] using h.1

/-! ### the shape of `Spec.maximize` -/

namespace Spec

/-- the candidate keys, most specific first -/
def cands (l : Language) (s r : Option Bytes) : List Key :=
  let L := packOpt l
  let S := packOpt s
  let R := packOpt r
  if l.isSome then
    (if r.isSome then [(L, 0, R)] else []) ++ (if s.isSome then [(L, S, 0)] else []) ++ [(L, 0, 0)]
  else if s.isSome then
    (if r.isSome then [(0, S, R)] else []) ++ [(0, S, 0)]
  else if r.isSome then [(0, 0, R)]
  else []

/-- every given subtag is kept; the missing ones come from the entry's value -/
def fill (l : Language) (s r : Option Bytes) (v : Key) : Triple :=
  (match l with
   | some x => some x
   | none => unpackOpt v.1,
   match s with
   | some x => some x
   | none => unpackOpt v.2.1,
   match r with
   | some x => some x
   | none => unpackOpt v.2.2)

theorem maximize_shape (find : Find) (l : Language) (s r : Option Bytes) :
    maximize find l s r =
      if l.isSome && s.isSome && r.isSome then none else (firstHit find (cands l s r)).map (fill l s r) := by
  unfold maximize
  split
  · rfl
  · simp only
    show (match firstHit find (cands l s r) with
          | none => none
          | some (vl, vs, vr) => some _) = _
    cases firstHit find (cands l s r) with
    | none => rfl
    | some v => obtain ⟨vl, vs, vr⟩ := v; rfl

theorem findTables_L (T : Tables) {L : Nat} (hL : L ≠ 0) :
    findTables T (L, 0, 0) =
      (T.langOnly.toList.find? (fun row => row.k == L)).map fun row => (dec row.l, dec row.s, dec row.r) := by
  simp [findTables, hL]
theorem findTables_LR (T : Tables) {L R : Nat} (hL : L ≠ 0) (hR : R ≠ 0) :
    findTables T (L, 0, R) =
      (T.langRegion.toList.find? (fun row => row.k1 == L && row.k2 == R)).map
        fun row => (dec row.l, dec row.s, dec row.r) := by
  simp [findTables, hL, hR]
theorem findTables_LS (T : Tables) {L S : Nat} (hL : L ≠ 0) (hS : S ≠ 0) :
    findTables T (L, S, 0) =
      (T.langScript.toList.find? (fun row => row.k1 == L && row.k2 == S)).map
        fun row => (dec row.l, dec row.s, dec row.r) := by
  simp [findTables, hL, hS]
theorem findTables_SR (T : Tables) {S R : Nat} (hS : S ≠ 0) (hR : R ≠ 0) :
    findTables T (0, S, R) =
      (T.scriptRegion.toList.find? (fun row => row.k1 == S && row.k2 == R)).map
        fun row => (dec row.l, dec row.s, dec row.r) := by
  simp [findTables, hS, hR]
theorem findTables_S (T : Tables) {S : Nat} (hS : S ≠ 0) :
    findTables T (0, S, 0) =
      (T.scriptOnly.toList.find? (fun row => row.k == S)).map fun row => (dec row.l, dec row.s, dec row.r) := by
  simp [findTables, hS]
theorem findTables_R (T : Tables) {R : Nat} (hR : R ≠ 0) :
    findTables T (0, 0, R) =
      (T.regionOnly.toList.find? (fun row => row.k == R)).map fun row => (dec row.l, dec row.s, dec row.r) := by
  simp [findTables, hR]

end Spec

/-! ### a table hit -/

theorem unpackOpt_dec {x : Nat} (h0 : x - 1 ≠ 0) : Spec.unpackOpt (Spec.dec x) = some (unpack (x - 1)) := by
  simp [Spec.unpackOpt, Spec.dec, h0]

/-- on a full, valid value `lang_from_parts` does not panic and yields the filled triple -/
theorem langFromParts_fill {l s r : Nat} (hv : valOk l s r = true) (sc rg : Option Bytes) :
    Likely.langFromParts l s r sc rg = .ok (some (Spec.fill none sc rg (Spec.dec l, Spec.dec s, Spec.dec r))) := by
  simp only [valOk, Bool.and_eq_true, bne_iff_ne, ne_eq] at hv
  obtain ⟨⟨⟨⟨⟨hl, hs⟩, hr⟩, vl⟩, vs⟩, vr⟩ := hv
  have ol : optOf l = some (l - 1) := by simp [optOf, hl]
  have os : optOf s = some (s - 1) := by simp [optOf, hs]
  have or' : optOf r = some (r - 1) := by simp [optOf, hr]
  unfold Likely.langFromParts Spec.fill
  simp only [ol, os, or', Option.map_some, unpackOpt_dec (validLangInt_ne_zero vl),
    unpackOpt_dec (validScriptInt_ne_zero vs), unpackOpt_dec (validRegionInt_ne_zero vr)]
  cases sc <;> cases rg <;> rfl

theorem fill_lang {lb : Bytes} {sc rg : Option Bytes} {v : Spec.Key} (h : Spec.unpackOpt v.1 = some lb) :
    Spec.fill none sc rg v = Spec.fill (some lb) sc rg v := by
  simp only [Spec.fill, h]
theorem fill_script {l : Language} {sb : Bytes} {rg : Option Bytes} {v : Spec.Key}
    (h : Spec.unpackOpt v.2.1 = some sb) : Spec.fill l none rg v = Spec.fill l (some sb) rg v := by
  simp only [Spec.fill, h]
theorem fill_region {l : Language} {sc : Option Bytes} {rb : Bytes} {v : Spec.Key}
    (h : Spec.unpackOpt v.2.2 = some rb) : Spec.fill l sc none v = Spec.fill l sc (some rb) v := by
  simp only [Spec.fill, h]

/-- a stored component that equals a packed valid subtag decodes to that subtag -/
theorem unpackOpt_dec_key {x : Nat} {b : Bytes} (hx : x = pack b + 1) (h0 : pack b ≠ 0) (hu : unpack (pack b) = b) :
    Spec.unpackOpt (Spec.dec x) = some b := by
  subst hx
  simp [Spec.unpackOpt, Spec.dec, h0, hu]

theorem find?_mem_pred {α} {p : α → Bool} {l : List α} {x : α} (h : l.find? p = some x) : x ∈ l ∧ p x = true :=
  ⟨List.mem_of_find?_eq_some h, List.find?_some h⟩

/-! ### the theorem -/

theorem maximize_eq_spec_of_WF (T : Tables) (w : WF T) (l : Language) (s r : Option Bytes)
    (hv : validTriple l s r = true) :
    Likely.maximize T l s r = .ok (Spec.maximize (Spec.findTables T) l s r) := by
  simp only [validTriple, Bool.and_eq_true] at hv
  obtain ⟨⟨hl, hs⟩, hr⟩ := hv
  rw [Spec.maximize_shape]
  cases l with
  | some lb =>
    obtain ⟨hL0, hLu, hLund⟩ := lang_facts hl
    -- the LANG_ONLY step, common to all sub-cases
    have step3 :
        (lookup1 T.langOnly (pack lb) = none ∧ Spec.findTables T (pack lb, 0, 0) = none) ∨
        (∃ row, lookup1 T.langOnly (pack lb) = some row ∧
          Spec.findTables T (pack lb, 0, 0) = some (Spec.dec row.l, Spec.dec row.s, Spec.dec row.r) ∧
          ∀ sc rg, Likely.langFromParts row.l row.s row.r sc rg =
            .ok (some (Spec.fill (some lb) sc rg (Spec.dec row.l, Spec.dec row.s, Spec.dec row.r)))) := by
      rw [lookup1_eq_find? _ _ w.s1, Spec.findTables_L T hL0]
      cases hf : T.langOnly.toList.find? (fun row => row.k == pack lb) with
      | none => exact Or.inl ⟨rfl, rfl⟩
      | some row =>
        obtain ⟨hm, hp⟩ := find?_mem_pred hf
        have hk : row.k = pack lb := by simpa using hp
        obtain ⟨hval, hkey⟩ := w.a1 row hm
        have hrl : row.l = pack lb + 1 := by
          rcases hkey with e | ⟨_, e⟩
          · exact absurd (hk ▸ e) hLund
          · rw [e, hk]
        refine Or.inr ⟨row, rfl, rfl, fun sc rg => ?_⟩
        rw [langFromParts_fill hval, fill_lang (unpackOpt_dec_key hrl hL0 hLu)]
    cases r with
    | some rb =>
      obtain ⟨hR0, hRu⟩ := region_facts hr
      cases s with
      | some sb => simp [Likely.maximize]
      | none =>
        simp only [Likely.maximize, Option.isSome_some, Option.isSome_none, Bool.and_false, Bool.false_and,
          Bool.false_eq_true, if_false, Spec.cands, Spec.packOpt, if_true, List.append_nil, List.nil_append,
          List.cons_append, Spec.firstHit, Bool.and_true]
        rw [lookup2_eq_find? _ _ _ w.s2, Spec.findTables_LR T hL0 hR0]
        cases hf : T.langRegion.toList.find? (fun row => row.k1 == pack lb && row.k2 == pack rb) with
        | none =>
          rcases step3 with ⟨e1, e2⟩ | ⟨row, e1, e2, e3⟩
          · simp only [Option.map_none, e1, e2]
          · simp only [Option.map_none, e1, e2, e3, Option.map_some]
        | some row =>
          obtain ⟨hm, hp⟩ := find?_mem_pred hf
          simp only [Bool.and_eq_true, beq_iff_eq] at hp
          obtain ⟨hval, _, _, e1, e2⟩ := w.a2 row hm
          simp only [Option.map_some]
          rw [langFromParts_fill hval, fill_lang (unpackOpt_dec_key (by rw [e1, hp.1]) hL0 hLu),
            fill_region (unpackOpt_dec_key (by rw [e2, hp.2]) hR0 hRu)]
    | none =>
      cases s with
      | some sb =>
        obtain ⟨hS0, hSu⟩ := script_facts hs
        simp only [Likely.maximize, Option.isSome_some, Option.isSome_none, Bool.and_false, Bool.false_and,
          Bool.false_eq_true, if_false, Spec.cands, Spec.packOpt, if_true, List.append_nil, List.nil_append,
          List.cons_append, Spec.firstHit, Bool.and_true]
        rw [lookup2_eq_find? _ _ _ w.s3, Spec.findTables_LS T hL0 hS0]
        cases hf : T.langScript.toList.find? (fun row => row.k1 == pack lb && row.k2 == pack sb) with
        | none =>
          rcases step3 with ⟨e1, e2⟩ | ⟨row, e1, e2, e3⟩
          · simp only [Option.map_none, e1, e2]
          · simp only [Option.map_none, e1, e2, e3, Option.map_some]
        | some row =>
          obtain ⟨hm, hp⟩ := find?_mem_pred hf
          simp only [Bool.and_eq_true, beq_iff_eq] at hp
          obtain ⟨hval, _, _, e1, e2⟩ := w.a3 row hm
          simp only [Option.map_some]
          rw [langFromParts_fill hval, fill_lang (unpackOpt_dec_key (by rw [e1, hp.1]) hL0 hLu),
            fill_script (unpackOpt_dec_key (by rw [e2, hp.2]) hS0 hSu)]
      | none =>
        simp only [Likely.maximize, Option.isSome_some, Option.isSome_none, Bool.and_false, Bool.false_and,
          Bool.false_eq_true, if_false, Spec.cands, Spec.packOpt, if_true, List.append_nil, List.nil_append,
          List.cons_append, Spec.firstHit, Bool.and_true]
        rcases step3 with ⟨e1, e2⟩ | ⟨row, e1, e2, e3⟩
        · simp only [Option.map_none, e1, e2]
        · simp only [Option.map_none, e1, e2, e3, Option.map_some]
  | none =>
    cases s with
    | some sb =>
      obtain ⟨hS0, hSu⟩ := script_facts hs
      have stepS :
          (lookup1 T.scriptOnly (pack sb) = none ∧ Spec.findTables T (0, pack sb, 0) = none) ∨
          (∃ row, lookup1 T.scriptOnly (pack sb) = some row ∧
            Spec.findTables T (0, pack sb, 0) = some (Spec.dec row.l, Spec.dec row.s, Spec.dec row.r) ∧
            ∀ rg, Likely.langFromParts row.l row.s row.r none rg =
              .ok (some (Spec.fill none (some sb) rg (Spec.dec row.l, Spec.dec row.s, Spec.dec row.r)))) := by
        rw [lookup1_eq_find? _ _ w.s5, Spec.findTables_S T hS0]
        cases hf : T.scriptOnly.toList.find? (fun row => row.k == pack sb) with
        | none => exact Or.inl ⟨rfl, rfl⟩
        | some row =>
          obtain ⟨hm, hp⟩ := find?_mem_pred hf
          have hk : row.k = pack sb := by simpa using hp
          obtain ⟨hval, _, e⟩ := w.a5 row hm
          refine Or.inr ⟨row, rfl, rfl, fun rg => ?_⟩
          rw [langFromParts_fill hval, fill_script (unpackOpt_dec_key (by rw [e, hk]) hS0 hSu)]
      cases r with
      | some rb =>
        obtain ⟨hR0, hRu⟩ := region_facts hr
        simp only [Likely.maximize, Option.isSome_some, Option.isSome_none, Bool.and_false, Bool.false_and,
          Bool.false_eq_true, if_false, Spec.cands, Spec.packOpt, if_true, List.append_nil, List.nil_append,
          List.cons_append, Spec.firstHit, Bool.and_true]
        rw [lookup2_eq_find? _ _ _ w.s4, Spec.findTables_SR T hS0 hR0]
        cases hf : T.scriptRegion.toList.find? (fun row => row.k1 == pack sb && row.k2 == pack rb) with
        | none =>
          rcases stepS with ⟨e1, e2⟩ | ⟨row, e1, e2, e3⟩
          · simp only [Option.map_none, e1, e2]
          · simp only [Option.map_none, e1, e2, e3, Option.map_some]
        | some row =>
          obtain ⟨hm, hp⟩ := find?_mem_pred hf
          simp only [Bool.and_eq_true, beq_iff_eq] at hp
          obtain ⟨hval, _, _, e1, e2⟩ := w.a4 row hm
          simp only [Option.map_some]
          rw [langFromParts_fill hval, fill_script (unpackOpt_dec_key (by rw [e1, hp.1]) hS0 hSu),
            fill_region (unpackOpt_dec_key (by rw [e2, hp.2]) hR0 hRu)]
      | none =>
        simp only [Likely.maximize, Option.isSome_some, Option.isSome_none, Bool.and_false, Bool.false_and,
          Bool.false_eq_true, if_false, Spec.cands, Spec.packOpt, if_true, List.append_nil, List.nil_append,
          List.cons_append, Spec.firstHit, Bool.and_true]
        rcases stepS with ⟨e1, e2⟩ | ⟨row, e1, e2, e3⟩
        · simp only [Option.map_none, e1, e2]
        · simp only [Option.map_none, e1, e2, e3, Option.map_some]
    | none =>
      cases r with
      | some rb =>
        obtain ⟨hR0, hRu⟩ := region_facts hr
        simp only [Likely.maximize, Option.isSome_some, Option.isSome_none, Bool.and_false, Bool.false_and,
          Bool.false_eq_true, if_false, Spec.cands, Spec.packOpt, if_true, List.append_nil, List.nil_append,
          List.cons_append, Spec.firstHit, Bool.and_true]
        rw [lookup1_eq_find? _ _ w.s6, Spec.findTables_R T hR0]
        cases hf : T.regionOnly.toList.find? (fun row => row.k == pack rb) with
        | none => rfl
        | some row =>
          obtain ⟨hm, hp⟩ := find?_mem_pred hf
          have hk : row.k = pack rb := by simpa using hp
          obtain ⟨hval, _, e⟩ := w.a6 row hm
          simp only [Option.map_some]
          rw [langFromParts_fill hval, fill_region (unpackOpt_dec_key (by rw [e, hk]) hR0 hRu)]
      | none =>
        simp [Likely.maximize, Spec.cands, Spec.firstHit]

/-- C06 (generic form): on well-formed tables `maximize` never fails or panics and returns the
    dictionary specification's answer. -/
theorem maximize_eq_spec (T : Tables) (h : tablesWF T = true) (l : Language) (s r : Option Bytes)
    (hv : validTriple l s r = true) :
    Likely.maximize T l s r = .ok (Spec.maximize (Spec.findTables T) l s r) :=
  maximize_eq_spec_of_WF T ((tablesWF_iff T).1 h) l s r hv

/-! ### `minimize` -/

theorem firstHit_some {find : Spec.Find} {ks : List Spec.Key} {v : Spec.Key}
    (h : Spec.firstHit find ks = some v) : ∃ k ∈ ks, find k = some v := by
  induction ks with
  | nil => simp [Spec.firstHit] at h
  | cons k ks ih =>
    unfold Spec.firstHit at h
    cases hk : find k with
    | some v' =>
      rw [hk] at h
      exact ⟨k, List.mem_cons_self .., by rw [hk, ← Option.some.inj h]⟩
    | none =>
      rw [hk] at h
      obtain ⟨k', hm, hf⟩ := ih h
      exact ⟨k', List.mem_cons_of_mem _ hm, hf⟩

/-- every value of the association view is a full valid value of some row -/
theorem findTables_val {T : Tables} (w : WF T) {k v : Spec.Key} (h : Spec.findTables T k = some v) :
    ∃ l s r, valOk l s r = true ∧ v = (Spec.dec l, Spec.dec s, Spec.dec r) := by
  obtain ⟨kl, ks, kr⟩ := k
  simp only [Spec.findTables] at h
  split at h
  · obtain ⟨row, hf, rfl⟩ := Option.map_eq_some_iff.1 h
    exact ⟨_, _, _, (w.a1 row (find?_mem_pred hf).1).1, rfl⟩
  split at h
  · obtain ⟨row, hf, rfl⟩ := Option.map_eq_some_iff.1 h
    exact ⟨_, _, _, (w.a2 row (find?_mem_pred hf).1).1, rfl⟩
  split at h
  · obtain ⟨row, hf, rfl⟩ := Option.map_eq_some_iff.1 h
    exact ⟨_, _, _, (w.a3 row (find?_mem_pred hf).1).1, rfl⟩
  split at h
  · obtain ⟨row, hf, rfl⟩ := Option.map_eq_some_iff.1 h
    exact ⟨_, _, _, (w.a4 row (find?_mem_pred hf).1).1, rfl⟩
  split at h
  · obtain ⟨row, hf, rfl⟩ := Option.map_eq_some_iff.1 h
    exact ⟨_, _, _, (w.a5 row (find?_mem_pred hf).1).1, rfl⟩
  split at h
  · obtain ⟨row, hf, rfl⟩ := Option.map_eq_some_iff.1 h
    exact ⟨_, _, _, (w.a6 row (find?_mem_pred hf).1).1, rfl⟩
  · cases h

/-- the answer of `maximize` on well-formed tables consists of valid subtags, all three present -/
theorem maximize_valid {T : Tables} (w : WF T) {l : Language} {s r : Option Bytes}
    (hv : validTriple l s r = true) {mx : Triple} (h : Spec.maximize (Spec.findTables T) l s r = some mx) :
    validTriple mx.1 mx.2.1 mx.2.2 = true ∧ mx.1.isSome = true ∧ mx.2.1.isSome = true ∧ mx.2.2.isSome = true := by
  rw [Spec.maximize_shape] at h
  split at h
  · cases h
  · obtain ⟨v, hv', rfl⟩ := Option.map_eq_some_iff.1 h
    obtain ⟨k, _, hk⟩ := firstHit_some hv'
    obtain ⟨vl, vs, vr, hval, rfl⟩ := findTables_val w hk
    simp only [valOk, Bool.and_eq_true] at hval
    obtain ⟨⟨⟨_, h1⟩, h2⟩, h3⟩ := hval
    simp only [validTriple, Bool.and_eq_true] at hv ⊢
    simp only [Spec.fill, unpackOpt_dec (validLangInt_ne_zero h1), unpackOpt_dec (validScriptInt_ne_zero h2),
      unpackOpt_dec (validRegionInt_ne_zero h3)]
    have d1 := validLangInt_decodes h1
    have d2 := validScriptInt_decodes h2
    have d3 := validRegionInt_decodes h3
    cases l <;> cases s <;> cases r <;> simp_all

theorem maxOf_valid {T : Tables} (w : WF T) {l : Language} {s r : Option Bytes}
    (hv : validTriple l s r = true) {mx : Triple} (h : Spec.maxOf (Spec.findTables T) l s r = some mx) :
    validTriple mx.1 mx.2.1 mx.2.2 = true := by
  unfold Spec.maxOf at h
  split at h
  · cases h; exact hv
  · exact (maximize_valid w hv h).1

theorem trial_eq {T : Tables} (w : WF T) (mx : Triple) (s r : Option Bytes)
    (hv : validTriple mx.1 s r = true) :
    Likely.trial T mx s r = .ok (Spec.maximize (Spec.findTables T) mx.1 s r == some mx) := by
  unfold Likely.trial
  rw [maximize_eq_spec_of_WF T w mx.1 s r hv]
  cases Spec.maximize (Spec.findTables T) mx.1 s r with
  | none => rfl
  | some t => simp

theorem validTriple_parts {l : Language} {s r : Option Bytes} (h : validTriple l s r = true) :
    validTriple l none none = true ∧ validTriple l none r = true ∧ validTriple l s none = true := by
  simp only [validTriple, Bool.and_eq_true] at h ⊢
  simp only [validScript, validRegion, and_true]
  exact ⟨h.1.1, ⟨h.1.1, h.2⟩, h.1⟩

theorem minimize_eq_spec_of_WF (T : Tables) (w : WF T) (l : Language) (s r : Option Bytes)
    (hv : validTriple l s r = true) :
    Likely.minimize T l s r = .ok (Spec.minimize (Spec.findTables T) l s r) := by
  have hmax : (if l.isSome && s.isSome && r.isSome then Res.ok (some (l, s, r)) else Likely.maximize T l s r) =
      .ok (Spec.maxOf (Spec.findTables T) l s r) := by
    unfold Spec.maxOf
    split
    · rfl
    · exact maximize_eq_spec_of_WF T w l s r hv
  unfold Likely.minimize Spec.minimize
  simp only [hmax]
  cases hm : Spec.maxOf (Spec.findTables T) l s r with
  | none => rfl
  | some mx =>
    have hvm := maxOf_valid w hv hm
    obtain ⟨v1, v2, v3⟩ := validTriple_parts hvm
    obtain ⟨ml, ms, mr⟩ := mx
    simp only at v1 v2 v3 ⊢
    rw [trial_eq w (ml, ms, mr) none none v1, trial_eq w (ml, ms, mr) none mr v2,
      trial_eq w (ml, ms, mr) ms none v3]
    simp only
    cases Spec.maximize (Spec.findTables T) ml none none == some (ml, ms, mr) <;>
      cases Spec.maximize (Spec.findTables T) ml none mr == some (ml, ms, mr) <;>
      cases Spec.maximize (Spec.findTables T) ml ms none == some (ml, ms, mr) <;>
      cases ms <;> cases mr <;> simp

/-- C08 (generic form): on well-formed tables `minimize` never fails or panics and returns the
    first of language, language-region, language-script that maximizes back. -/
theorem minimize_eq_spec (T : Tables) (h : tablesWF T = true) (l : Language) (s r : Option Bytes)
    (hv : validTriple l s r = true) :
    Likely.minimize T l s r = .ok (Spec.minimize (Spec.findTables T) l s r) :=
  minimize_eq_spec_of_WF T ((tablesWF_iff T).1 h) l s r hv

/-! ### consequences of the shape of `Spec.maximize` (used by the C06 corollaries) -/

theorem firstHit_eq_none_iff {find : Spec.Find} {ks : List Spec.Key} :
    Spec.firstHit find ks = none ↔ ∀ k ∈ ks, find k = none := by
  induction ks with
  | nil => simp [Spec.firstHit]
  | cons k ks ih =>
    unfold Spec.firstHit
    cases hk : find k with
    | some v => simp [hk]
    | none => simp [hk, ih]

/-- `firstHit` returns the value of the first key, in list order, that has an entry -/
theorem firstHit_eq_some_iff {find : Spec.Find} {ks : List Spec.Key} {v : Spec.Key} :
    Spec.firstHit find ks = some v ↔
      ∃ pre k post, ks = pre ++ k :: post ∧ (∀ k' ∈ pre, find k' = none) ∧ find k = some v := by
  induction ks with
  | nil => simp [Spec.firstHit]
  | cons k ks ih =>
    unfold Spec.firstHit
    cases hk : find k with
    | some v' =>
      simp only [Option.some.injEq]
      constructor
      · rintro rfl
        exact ⟨[], k, ks, rfl, by simp, hk⟩
      · rintro ⟨pre, k', post, he, hpre, hf⟩
        cases pre with
        | nil =>
          simp only [List.nil_append, List.cons.injEq] at he
          rw [← he.1, hk] at hf
          exact Option.some.inj hf
        | cons p pre =>
          simp only [List.cons_append, List.cons.injEq] at he
          have := hpre p (List.mem_cons_self ..)
          rw [← he.1, hk] at this
          cases this
    | none =>
      simp only
      rw [ih]
      constructor
      · rintro ⟨pre, k', post, he, hpre, hf⟩
        refine ⟨k :: pre, k', post, by rw [he]; rfl, ?_, hf⟩
        intro k'' hm
        rcases List.mem_cons.1 hm with rfl | hm
        · exact hk
        · exact hpre k'' hm
      · rintro ⟨pre, k', post, he, hpre, hf⟩
        cases pre with
        | nil =>
          simp only [List.nil_append, List.cons.injEq] at he
          rw [← he.1, hk] at hf
          cases hf
        | cons p pre =>
          simp only [List.cons_append, List.cons.injEq] at he
          exact ⟨pre, k', post, he.2, fun k'' hm => hpre k'' (List.mem_cons_of_mem _ hm), hf⟩

theorem fill_given (l : Language) (s r : Option Bytes) (v : Spec.Key) :
    (l.isSome = true → (Spec.fill l s r v).1 = l) ∧ (s.isSome = true → (Spec.fill l s r v).2.1 = s) ∧
    (r.isSome = true → (Spec.fill l s r v).2.2 = r) := by
  cases l <;> cases s <;> cases r <;> simp [Spec.fill]

/-- everything `tablesWF` says about a hit of the association view: the value is full and valid,
    and it extends the key (the `und` row of LANG_ONLY apart) -/
theorem findTables_hit {T : Tables} (w : WF T) {kl ks kr vl vs vr : Nat}
    (h : Spec.findTables T (kl, ks, kr) = some (vl, vs, vr)) :
    validLangInt vl = true ∧ validScriptInt vs = true ∧ validRegionInt vr = true ∧
    (kl ≠ 0 → (kl = Spec.undInt ∧ ks = 0 ∧ kr = 0) ∨ (validLangInt kl = true ∧ vl = kl)) ∧
    (ks ≠ 0 → validScriptInt ks = true ∧ vs = ks) ∧ (kr ≠ 0 → validRegionInt kr = true ∧ vr = kr) ∧
    ¬(kl = 0 ∧ ks = 0 ∧ kr = 0) ∧ ¬(kl ≠ 0 ∧ ks ≠ 0 ∧ kr ≠ 0) := by
  have hval : ∀ {l s r : Nat}, valOk l s r = true →
      validLangInt (Spec.dec l) = true ∧ validScriptInt (Spec.dec s) = true ∧ validRegionInt (Spec.dec r) = true := by
    intro l s r hv
    simp only [valOk, Bool.and_eq_true] at hv
    exact ⟨hv.1.1.2, hv.1.2, hv.2⟩
  simp only [Spec.findTables] at h
  split at h
  · rename_i hc
    simp only [Bool.and_eq_true, bne_iff_ne, ne_eq, beq_iff_eq] at hc
    obtain ⟨row, hf, he⟩ := Option.map_eq_some_iff.1 h
    obtain ⟨hm, hp⟩ := find?_mem_pred hf
    have hk : row.k = kl := by simpa using hp
    obtain ⟨hv, hkey⟩ := w.a1 row hm
    obtain ⟨h1, h2, h3⟩ := hval hv
    simp only [Prod.mk.injEq] at he
    obtain ⟨rfl, rfl, rfl⟩ := he
    refine ⟨h1, h2, h3, ?_, fun h0 => absurd hc.1.2 h0, fun h0 => absurd hc.2 h0, fun h0 => hc.1.1 h0.1,
      fun h0 => h0.2.1 hc.1.2⟩
    intro _
    rcases hkey with e | ⟨e1, e2⟩
    · exact Or.inl ⟨hk ▸ e, hc.1.2, hc.2⟩
    · exact Or.inr ⟨hk ▸ e1, by rw [e2, hk]; rfl⟩
  split at h
  · rename_i _ hc
    simp only [Bool.and_eq_true, bne_iff_ne, ne_eq, beq_iff_eq] at hc
    obtain ⟨row, hf, he⟩ := Option.map_eq_some_iff.1 h
    obtain ⟨hm, hp⟩ := find?_mem_pred hf
    simp only [Bool.and_eq_true, beq_iff_eq] at hp
    obtain ⟨hv, k1, k2, e1, e2⟩ := w.a2 row hm
    obtain ⟨h1, h2, h3⟩ := hval hv
    simp only [Prod.mk.injEq] at he
    obtain ⟨rfl, rfl, rfl⟩ := he
    refine ⟨h1, h2, h3, fun _ => Or.inr ⟨hp.1 ▸ k1, by rw [e1, hp.1]; rfl⟩, fun h0 => absurd hc.1.2 h0,
      fun _ => ⟨hp.2 ▸ k2, by rw [e2, hp.2]; rfl⟩, fun h0 => hc.1.1 h0.1, fun h0 => h0.2.1 hc.1.2⟩
  split at h
  · rename_i _ _ hc
    simp only [Bool.and_eq_true, bne_iff_ne, ne_eq, beq_iff_eq] at hc
    obtain ⟨row, hf, he⟩ := Option.map_eq_some_iff.1 h
    obtain ⟨hm, hp⟩ := find?_mem_pred hf
    simp only [Bool.and_eq_true, beq_iff_eq] at hp
    obtain ⟨hv, k1, k2, e1, e2⟩ := w.a3 row hm
    obtain ⟨h1, h2, h3⟩ := hval hv
    simp only [Prod.mk.injEq] at he
    obtain ⟨rfl, rfl, rfl⟩ := he
    refine ⟨h1, h2, h3, fun _ => Or.inr ⟨hp.1 ▸ k1, by rw [e1, hp.1]; rfl⟩,
      fun _ => ⟨hp.2 ▸ k2, by rw [e2, hp.2]; rfl⟩, fun h0 => absurd hc.2 h0, fun h0 => hc.1.1 h0.1,
      fun h0 => h0.2.2 hc.2⟩
  split at h
  · rename_i _ _ _ hc
    simp only [Bool.and_eq_true, bne_iff_ne, ne_eq, beq_iff_eq] at hc
    obtain ⟨row, hf, he⟩ := Option.map_eq_some_iff.1 h
    obtain ⟨hm, hp⟩ := find?_mem_pred hf
    simp only [Bool.and_eq_true, beq_iff_eq] at hp
    obtain ⟨hv, k1, k2, e1, e2⟩ := w.a4 row hm
    obtain ⟨h1, h2, h3⟩ := hval hv
    simp only [Prod.mk.injEq] at he
    obtain ⟨rfl, rfl, rfl⟩ := he
    refine ⟨h1, h2, h3, fun h0 => absurd hc.1.1 h0, fun _ => ⟨hp.1 ▸ k1, by rw [e1, hp.1]; rfl⟩,
      fun _ => ⟨hp.2 ▸ k2, by rw [e2, hp.2]; rfl⟩, fun h0 => hc.1.2 h0.2.1, fun h0 => h0.1 hc.1.1⟩
  split at h
  · rename_i _ _ _ _ hc
    simp only [Bool.and_eq_true, bne_iff_ne, ne_eq, beq_iff_eq] at hc
    obtain ⟨row, hf, he⟩ := Option.map_eq_some_iff.1 h
    obtain ⟨hm, hp⟩ := find?_mem_pred hf
    have hk : row.k = ks := by simpa using hp
    obtain ⟨hv, k1, e1⟩ := w.a5 row hm
    obtain ⟨h1, h2, h3⟩ := hval hv
    simp only [Prod.mk.injEq] at he
    obtain ⟨rfl, rfl, rfl⟩ := he
    refine ⟨h1, h2, h3, fun h0 => absurd hc.1.1 h0, fun _ => ⟨hk ▸ k1, by rw [e1, hk]; rfl⟩,
      fun h0 => absurd hc.2 h0, fun h0 => hc.1.2 h0.2.1, fun h0 => h0.1 hc.1.1⟩
  split at h
  · rename_i _ _ _ _ _ hc
    simp only [Bool.and_eq_true, bne_iff_ne, ne_eq, beq_iff_eq] at hc
    obtain ⟨row, hf, he⟩ := Option.map_eq_some_iff.1 h
    obtain ⟨hm, hp⟩ := find?_mem_pred hf
    have hk : row.k = kr := by simpa using hp
    obtain ⟨hv, k1, e1⟩ := w.a6 row hm
    obtain ⟨h1, h2, h3⟩ := hval hv
    simp only [Prod.mk.injEq] at he
    obtain ⟨rfl, rfl, rfl⟩ := he
    refine ⟨h1, h2, h3, fun h0 => absurd hc.1.1 h0, fun h0 => absurd hc.1.2 h0,
      fun _ => ⟨hk ▸ k1, by rw [e1, hk]; rfl⟩, fun h0 => hc.2 h0.2.2, fun h0 => h0.1 hc.1.1⟩
  · cases h

/-! non-vacuity of the hypotheses: a two-row table set and "en" -/
example : tablesWF ⟨#[⟨28261, 28262, 1853120845, 21334⟩], #[], #[], #[], #[], #[]⟩ = true := by decide
example : validTriple (some [101, 110]) none none = true := by decide
example : validTriple (some [101, 110]) (some [76, 97, 116, 110]) (some [85, 83]) = true := by decide

end UL
