/-
  Lemmas/Route5.lean — the remove-and-set-again history of route 5 (`route5Ops`, Model/Routes.lean) is the
  identity on the set / map reference model of `Spec/AbsOps.lean`, for every value with the representation
  invariant:

      Spec.absRunState L (abs x) (route5Ops x) = abs x

  The history is cut into its segments (attributes removed, attributes set again in reverse order, keywords,
  tfields, tlang, tags) with `absRunState_append`; each segment is a small fact about the containers.
-/
import UnicLocale.Lemmas.RefineStep
import UnicLocale.Lemmas.Parts
import UnicLocale.Model.Routes

namespace UL.R5
open UL UL.Spec UL.Rf

/-! ### histories -/

theorem absRunState_append (L : LikelyFns) (a : AbsLoc) (os os' : List Op) :
    absRunState L a (os ++ os') = absRunState L (absRunState L a os) os' := by
  unfold absRunState
  rw [List.foldl_append]

theorem absRunState_cons (L : LikelyFns) (a : AbsLoc) (o : Op) (os : List Op) :
    absRunState L a (o :: os) = absRunState L (absStep L a o).1 os := rfl

theorem absRunState_nil (L : LikelyFns) (a : AbsLoc) : absRunState L a [] = a := rfl

/-! ### what the invariant says about one stored subtag -/

theorem okAttr_parts {t : Bytes} (h : okAttr t = true) : isAttr t = true ∧ lower t = t := by
  simpa [okAttr] using h

theorem okKey_parts {t : Bytes} (h : okKey t = true) : isKey t = true ∧ lower t = t := by
  simpa [okKey] using h

theorem okTKey_parts {t : Bytes} (h : okTKey t = true) : isTKey t = true ∧ lower t = t := by
  simpa [okTKey] using h

theorem okTag_parts {t : Bytes} (h : okTag t = true) : isPrivate t = true ∧ lower t = t := by
  simpa [okTag] using h

theorem okType_parts {t : Bytes} (h : okType t = true) : isAttr t = true ∧ lower t = t ∧ t ≠ trueWord := by
  simpa [okType, and_assoc] using h

/-- stored value lists are already in normal form -/
theorem normValues_of_okType {vs : List Bytes} (h : vs.all okType = true) : normValues vs = some vs := by
  have hall : ∀ t ∈ vs, okType t = true := by simpa using h
  have h1 : vs.all isAttr = true := by
    rw [List.all_eq_true]
    intro t ht
    exact (okType_parts (hall t ht)).1
  have h2 : vs.map lower = vs := by
    conv => rhs; rw [← List.map_id vs]
    apply List.map_congr_left
    intro t ht
    exact (okType_parts (hall t ht)).2.1
  have h3 : vs.filter (· != trueWord) = vs := by
    rw [List.filter_eq_self]
    intro t ht
    simpa using (okType_parts (hall t ht)).2.2
  unfold normValues
  rw [if_pos h1, h2, h3]

/-! ### single calls with stored arguments -/

theorem step_removeAttribute (L : LikelyFns) (a : AbsLoc) {t : Bytes} (h : okAttr t = true) :
    (absStep L a (.removeAttribute t)).1 = { a with attrs := setErase t a.attrs } := by
  obtain ⟨h1, h2⟩ := okAttr_parts h
  simp only [absStep, h1, if_true, h2]

theorem step_setAttribute (L : LikelyFns) (a : AbsLoc) {t : Bytes} (h : okAttr t = true) :
    (absStep L a (.setAttribute t)).1 = { a with attrs := insertSet t a.attrs } := by
  obtain ⟨h1, h2⟩ := okAttr_parts h
  simp only [absStep, h1, if_true, h2]

theorem step_addTag (L : LikelyFns) (a : AbsLoc) {t : Bytes} (h : okTag t = true) :
    (absStep L a (.addTag t)).1 = { a with tags := sortInsert t a.tags } := by
  obtain ⟨h1, h2⟩ := okTag_parts h
  simp only [absStep, h1, if_true, h2]

theorem step_removeKeyword (L : LikelyFns) (a : AbsLoc) {k : Bytes} (h : okKey k = true) :
    (absStep L a (.removeKeyword k)).1 = { a with keywords := mapRemove k a.keywords } := by
  obtain ⟨h1, h2⟩ := okKey_parts h
  simp only [absStep, h1, if_true, h2]

theorem step_setKeyword (L : LikelyFns) (a : AbsLoc) {k : Bytes} {vs : List Bytes} (h : okKey k = true)
    (hv : vs.all okType = true) :
    (absStep L a (.setKeyword k vs)).1 = { a with keywords := mapInsert k vs a.keywords } := by
  obtain ⟨h1, h2⟩ := okKey_parts h
  simp only [absStep, h1, if_true, h2, normValues_of_okType hv]

theorem step_removeTField (L : LikelyFns) (a : AbsLoc) {k : Bytes} (h : okTKey k = true) :
    (absStep L a (.removeTField k)).1 = { a with tfields := mapRemove k a.tfields } := by
  obtain ⟨h1, h2⟩ := okTKey_parts h
  simp only [absStep, h1, if_true, h2]

theorem step_setTField (L : LikelyFns) (a : AbsLoc) {k : Bytes} {vs : List Bytes} (h : okTKey k = true)
    (hv : vs.all okType = true) :
    (absStep L a (.setTField k vs)).1 = { a with tfields := mapInsert k vs a.tfields } := by
  obtain ⟨h1, h2⟩ := okTKey_parts h
  simp only [absStep, h1, if_true, h2, normValues_of_okType hv]

/-! ### sets: erase everything, insert everything -/

theorem run_removeAttributes (L : LikelyFns) (a : AbsLoc) (l : List Bytes) (hl : ∀ t ∈ l, okAttr t = true) :
    absRunState L a (l.map .removeAttribute) =
      { a with attrs := l.foldl (fun s t => setErase t s) a.attrs } := by
  induction l generalizing a with
  | nil => rfl
  | cons t l ih =>
    rw [List.map_cons, absRunState_cons, step_removeAttribute L a (hl t (List.mem_cons_self ..)),
      ih _ (fun u hu => hl u (List.mem_cons_of_mem _ hu))]
    rfl

theorem run_setAttributes (L : LikelyFns) (a : AbsLoc) (l : List Bytes) (hl : ∀ t ∈ l, okAttr t = true) :
    absRunState L a (l.map .setAttribute) =
      { a with attrs := l.foldl (fun s t => insertSet t s) a.attrs } := by
  induction l generalizing a with
  | nil => rfl
  | cons t l ih =>
    rw [List.map_cons, absRunState_cons, step_setAttribute L a (hl t (List.mem_cons_self ..)),
      ih _ (fun u hu => hl u (List.mem_cons_of_mem _ hu))]
    rfl

theorem run_addTags (L : LikelyFns) (a : AbsLoc) (l : List Bytes) (hl : ∀ t ∈ l, okTag t = true) :
    absRunState L a (l.map .addTag) =
      { a with tags := l.foldl (fun s t => sortInsert t s) a.tags } := by
  induction l generalizing a with
  | nil => rfl
  | cons t l ih =>
    rw [List.map_cons, absRunState_cons, step_addTag L a (hl t (List.mem_cons_self ..)),
      ih _ (fun u hu => hl u (List.mem_cons_of_mem _ hu))]
    rfl

/-- erasing every element of a list that contains the whole set leaves nothing -/
theorem foldl_setErase_nil (l s : List Bytes) (h : ∀ y ∈ s, y ∈ l) :
    l.foldl (fun s t => setErase t s) s = [] := by
  induction l generalizing s with
  | nil =>
    cases s with
    | nil => rfl
    | cons y ys => exact absurd (h y (List.mem_cons_self ..)) List.not_mem_nil
  | cons t l ih =>
    rw [List.foldl_cons]
    apply ih
    intro y hy
    unfold setErase at hy
    rw [List.mem_filter] at hy
    have hne : y ≠ t := by simpa using hy.2
    rcases List.mem_cons.1 (h y hy.1) with e | e
    · exact absurd e hne
    · exact e

/-- inserting the elements of a strictly increasing list, last one first, into the empty set gives the list -/
theorem foldl_insertSet_reverse {l : List Bytes} (hs : strictSorted l = true) :
    l.reverse.foldl (fun s t => insertSet t s) [] = l := by
  rw [List.foldl_reverse]
  show toSet l = l
  exact strictSorted_ext (strictSorted_toSet l) hs (fun x => mem_toSet)

/-- inserting the elements of a non-decreasing list, last one first, into the empty multiset gives the list -/
theorem foldl_sortInsert_reverse {l : List Bytes} (hs : weakSorted l = true) :
    l.reverse.foldl (fun s t => sortInsert t s) [] = l := by
  rw [List.foldl_reverse]
  show sortMulti l = l
  rw [← sortBytes_eq_sortMulti, sortBytes_of_weakSorted hs]

/-! ### maps: remove a stored entry and set it again -/

theorem AMap.get_of_mem {k : Bytes} {v : List Bytes} {m : AMap} (hs : AMap.sortedKeys m = true)
    (h : (k, v) ∈ m) : AMap.get k m = some v := by
  induction m with
  | nil => exact absurd h List.not_mem_nil
  | cons p m ih =>
    obtain ⟨k₀, v₀⟩ := p
    have h' := AMap.sortedKeys_cons.1 hs
    rcases List.mem_cons.1 h with e | e
    · injection e with e1 e2
      subst e1; subst e2
      simp [AMap.get]
    · have hk : k ∈ AMap.keys m := List.mem_map_of_mem (f := (·.1)) e
      have hne : k ≠ k₀ := (bLt_ne (h'.1 k hk)).symm
      simp [AMap.get, hne, ih h'.2 e]

theorem mapInsert_mapRemove {k : Bytes} {v : List Bytes} {m : KMap} (hs : AMap.sortedKeys m = true)
    (h : (k, v) ∈ m) : mapInsert k v (mapRemove k m) = m := by
  rw [← AMap.remove_eq_mapRemove hs, ← AMap.insert_eq_mapInsert]
  apply AMap.ext (AMap.sortedKeys_insert (AMap.sortedKeys_remove hs)) hs
  intro k'
  rw [AMap.get_insert, AMap.get_remove hs]
  by_cases e : k' = k
  · subst e
    rw [if_pos rfl, AMap.get_of_mem hs h]
  · rw [if_neg e, if_neg e]

theorem run_keywords (L : LikelyFns) (a : AbsLoc) (l : List (Bytes × List Bytes))
    (hs : AMap.sortedKeys a.keywords = true)
    (hl : ∀ kv ∈ l, kv ∈ a.keywords ∧ okKey kv.1 = true ∧ kv.2.all okType = true) :
    absRunState L a (l.map fun kv => [Op.removeKeyword kv.1, Op.setKeyword kv.1 kv.2]).flatten = a := by
  induction l with
  | nil => rfl
  | cons kv l ih =>
    obtain ⟨hm, hk, hv⟩ := hl kv (List.mem_cons_self ..)
    have two : absRunState L a [Op.removeKeyword kv.1, Op.setKeyword kv.1 kv.2] = a := by
      rw [absRunState_cons, absRunState_cons, absRunState_nil, step_removeKeyword L a hk,
        step_setKeyword L _ hk hv]
      show { a with keywords := mapInsert kv.1 kv.2 (mapRemove kv.1 a.keywords) } = a
      rw [mapInsert_mapRemove hs hm]
    rw [List.map_cons, List.flatten_cons, absRunState_append, two]
    exact ih (fun u hu => hl u (List.mem_cons_of_mem _ hu))

theorem run_tfields (L : LikelyFns) (a : AbsLoc) (l : List (Bytes × List Bytes))
    (hs : AMap.sortedKeys a.tfields = true)
    (hl : ∀ kv ∈ l, kv ∈ a.tfields ∧ okTKey kv.1 = true ∧ kv.2.all okType = true) :
    absRunState L a (l.map fun kv => [Op.removeTField kv.1, Op.setTField kv.1 kv.2]).flatten = a := by
  induction l with
  | nil => rfl
  | cons kv l ih =>
    obtain ⟨hm, hk, hv⟩ := hl kv (List.mem_cons_self ..)
    have two : absRunState L a [Op.removeTField kv.1, Op.setTField kv.1 kv.2] = a := by
      rw [absRunState_cons, absRunState_cons, absRunState_nil, step_removeTField L a hk,
        step_setTField L _ hk hv]
      show { a with tfields := mapInsert kv.1 kv.2 (mapRemove kv.1 a.tfields) } = a
      rw [mapInsert_mapRemove hs hm]
    rw [List.map_cons, List.flatten_cons, absRunState_append, two]
    exact ih (fun u hu => hl u (List.mem_cons_of_mem _ hu))

/-! ### the tlang: the spec reads the printed identifier back -/

theorem langIdResult_display {tl : LangId} (h : tl.inv = true) :
    langIdResult (LangId.display tl) = .ok (absLi tl) := by
  have h1 := Props.C02.fromBytes_exact (LangId.display tl)
  rw [Parts.langid_roundtrip h] at h1
  cases hr : langIdResult (LangId.display tl) with
  | ok v =>
    rw [hr] at h1
    have e : tl = concreteLi v := by injection h1
    rw [e, absLi_concreteLi]
  | invalidLanguage => rw [hr] at h1; cases h1
  | invalidSubtag => rw [hr] at h1; cases h1

theorem run_tlang (L : LikelyFns) (a : AbsLoc) (tl : Option LangId) :
    (match tl with | none => true | some l => l.inv) = true → a.tlang = tl.map absLi →
    absRunState L a (match tl with
      | some tl => [Op.clearTLang, Op.setTLang tl.display]
      | none => []) = a := by
  intro h ha
  cases tl with
  | none => rfl
  | some l =>
    have hr := langIdResult_display (tl := l) h
    have ha' : a.tlang = some (absLi l) := ha
    simp only [absRunState_cons, absRunState_nil, absStep, hr]
    rw [← ha']

/-! ### the whole history -/

theorem route5_abs (L : LikelyFns) (x : Locale) (h : x.inv = true) :
    absRunState L (abs x) (route5Ops x) = abs x := by
  obtain ⟨_, hu, ht, hp⟩ := Locale.inv_parts h
  obtain ⟨hattrS, hattrOk, hkwS, hkwOk⟩ := UExt.inv_parts hu
  obtain ⟨htl, htfS, htfOk⟩ := TExt.inv_parts ht
  obtain ⟨htagS, htagOk⟩ := PExt.inv_parts hp
  have hA : ∀ t ∈ x.ext.unicode.attributes, okAttr t = true := by simpa using hattrOk
  have hAr : ∀ t ∈ x.ext.unicode.attributes.reverse, okAttr t = true :=
    fun t ht => hA t (List.mem_reverse.1 ht)
  have hP : ∀ t ∈ x.ext.priv.reverse, okTag t = true := by
    have : ∀ t ∈ x.ext.priv, okTag t = true := by simpa [PExt] using htagOk
    exact fun t ht => this t (List.mem_reverse.1 ht)
  have hK : ∀ kv ∈ x.ext.unicode.keywords.reverse,
      kv ∈ (abs x).keywords ∧ okKey kv.1 = true ∧ kv.2.all okType = true := by
    intro kv hkv
    have hm : kv ∈ x.ext.unicode.keywords := List.mem_reverse.1 hkv
    have := (List.all_eq_true.1 hkwOk) kv hm
    rw [Bool.and_eq_true] at this
    exact ⟨hm, this.1, this.2⟩
  have hF : ∀ kv ∈ x.ext.transform.tfields.reverse,
      kv ∈ (abs x).tfields ∧ okTKey kv.1 = true ∧ kv.2.all okType = true := by
    intro kv hkv
    have hm : kv ∈ x.ext.transform.tfields := List.mem_reverse.1 hkv
    have := (List.all_eq_true.1 htfOk) kv hm
    rw [Bool.and_eq_true] at this
    exact ⟨hm, this.1, this.2⟩
  -- the attributes: all removed, all set again
  have s12 : absRunState L (abs x) (x.ext.unicode.attributes.map .removeAttribute ++
      x.ext.unicode.attributes.reverse.map .setAttribute) = abs x := by
    rw [absRunState_append, run_removeAttributes L _ _ hA, run_setAttributes L _ _ hAr]
    have e1 : List.foldl (fun s t => insertSet t s)
        (List.foldl (fun s t => setErase t s) (abs x).attrs x.ext.unicode.attributes)
        x.ext.unicode.attributes.reverse = x.ext.unicode.attributes := by
      rw [foldl_setErase_nil x.ext.unicode.attributes (abs x).attrs (fun y hy => hy),
        foldl_insertSet_reverse hattrS]
    dsimp only
    rw [e1]
    rfl
  -- the tags: cleared, all added again
  have s6 : absRunState L (abs x) ([Op.clearTags] ++ x.ext.priv.reverse.map .addTag) = abs x := by
    rw [absRunState_append, run_addTags L _ _ hP]
    show { abs x with tags := List.foldl (fun s t => sortInsert t s) [] x.ext.priv.reverse } = abs x
    rw [foldl_sortInsert_reverse htagS]
    rfl
  unfold route5Ops
  simp only [List.append_assoc]
  rw [← List.append_assoc (x.ext.unicode.attributes.map _), absRunState_append, s12,
    absRunState_append, run_keywords L _ _ hkwS hK,
    absRunState_append, run_tfields L _ _ htfS hF,
    absRunState_append]
  exact (congrArg (fun a => absRunState L a ([Op.clearTags] ++ x.ext.priv.reverse.map .addTag))
    (run_tlang L (abs x) x.ext.transform.tlang htl rfl)).trans s6

end UL.R5
