/-
  Lemmas/RefineStep.lean — one API call refines one step of the reference model (C10), the
  observation functions agree, and the calls other than `maximize` / `minimize` preserve the
  representation invariant.
-/
import UnicLocale.Lemmas.Refine

namespace UL.Rf

/-! ### the pieces of the invariant the proofs use -/

theorem Locale.inv_parts {x : Locale} (h : x.inv = true) :
    x.id.inv = true ∧ x.ext.unicode.inv = true ∧ x.ext.transform.inv = true ∧ PExt.inv x.ext.priv = true := by
  simpa [Locale.inv, ExtMap.inv, and_assoc] using h

theorem UExt.inv_parts {u : UExt} (h : u.inv = true) :
    strictSorted u.attributes = true ∧ u.attributes.all okAttr = true ∧
      AMap.sortedKeys u.keywords = true ∧
      u.keywords.all (fun kv => okKey kv.1 && kv.2.all okType) = true := by
  simpa [UExt.inv, okMap, AMap.sortedKeys, and_assoc] using h

theorem TExt.inv_parts {t : TExt} (h : t.inv = true) :
    (match t.tlang with | none => true | some l => l.inv) = true ∧
      AMap.sortedKeys t.tfields = true ∧
      t.tfields.all (fun kv => okTKey kv.1 && kv.2.all okType) = true := by
  simp only [TExt.inv, okMap, Bool.and_eq_true] at h
  exact ⟨h.1, h.2.1, h.2.2⟩

theorem PExt.inv_parts {p : PExt} (h : PExt.inv p = true) :
    weakSorted p = true ∧ p.all okTag = true := by
  simpa [PExt.inv] using h

theorem finishVariants_getD (vs : List Bytes) : (LangId.finishVariants vs).getD [] = Spec.toSet vs := by
  rw [LangId.finishVariants_eq]
  cases h : (Spec.toSet vs).isEmpty with
  | true => simp only [↓reduceIte, Option.getD_none]; exact (List.isEmpty_iff.1 h).symm
  | false => simp

/-! ### one call refines one step -/

/-- `L` agrees with the model's likely-subtags functions on stored triples -/
def LikelyAgrees (T : Tables) (L : Spec.LikelyFns) : Prop :=
  ∀ i : LangId, i.inv = true →
    Likely.maximize T i.language i.script i.region = L.maxi i.language i.script i.region ∧
    Likely.minimize T i.language i.script i.region = L.mini i.language i.script i.region

theorem modelLikely_agrees (T : Tables) : LikelyAgrees T (modelLikely T) := fun _ _ => ⟨rfl, rfl⟩

theorem step_refines_pair (T : Tables) (L : Spec.LikelyFns) (hL : LikelyAgrees T L)
    (x : Locale) (o : Op) (hx : x.inv = true) :
    (abs (step T x o).1, (step T x o).2) = Spec.absStep L (abs x) o := by
  obtain ⟨hid, hu, ht, hp⟩ := Locale.inv_parts hx
  obtain ⟨hattrS, _, hkwS, _⟩ := UExt.inv_parts hu
  obtain ⟨_, htfS, _⟩ := TExt.inv_parts ht
  obtain ⟨htagS, _⟩ := PExt.inv_parts hp
  cases o with
  | setLanguage v =>
    simp only [step, Spec.absStep, Props.C15.language_exact]
    by_cases h : Spec.isLanguage v = true <;> simp only [h, ↓reduceIte, outOfUnit, Bool.false_eq_true] <;> rfl
  | setScript v =>
    cases v with
    | none => rfl
    | some v =>
      simp only [step, Spec.absStep, Props.C15.script_exact]
      by_cases h : Spec.isScript v = true <;> simp only [h, ↓reduceIte, outOfUnit, Bool.false_eq_true] <;> rfl
  | setRegion v =>
    cases v with
    | none => rfl
    | some v =>
      simp only [step, Spec.absStep, Props.C15.region_exact]
      by_cases h : Spec.isRegion v = true <;> simp only [h, ↓reduceIte, outOfUnit, Bool.false_eq_true] <;> rfl
  | setVariants vs =>
    simp only [step, Spec.absStep, collectRes_variant_exact]
    by_cases h : vs.all Spec.isVariant = true
    · simp only [h, ↓reduceIte, outOfUnit]
      have : (abs (setId x (x.id.setVariants (vs.map lower)))).variants = Spec.toSet (vs.map lower) :=
        finishVariants_getD _
      rw [← this]; rfl
    · simp only [h, ↓reduceIte, outOfUnit, Bool.false_eq_true]
  | clearVariants => rfl
  | hasVariant v =>
    simp only [step, Spec.absStep, Props.C15.variant_exact]
    by_cases h : Spec.isVariant v = true
    · simp only [h, ↓reduceIte, Res.map, outOfQuery]
      have : x.id.hasVariant (lower v) = (abs x).variants.contains (lower v) := by
        unfold LangId.hasVariant abs LangId.variantList
        cases x.id.variants <;> rfl
      rw [this]
    · simp only [h, ↓reduceIte, Res.map, outOfQuery, Bool.false_eq_true]
  | setKeyword k vs =>
    simp only [step, Spec.absStep, UExt.setKeyword, parseKey_exact, collectTypes_exact parseType_exact]
    by_cases h : Spec.isKey k = true
    · simp only [h, ↓reduceIte, Res.bind]
      cases hv : Spec.normValues vs with
      | none => rfl
      | some l =>
        simp only [Res.map, outOfUnit, AMap.insert_eq_mapInsert]
        rfl
    · simp only [h, ↓reduceIte, Res.bind, outOfUnit, Bool.false_eq_true]
  | removeKeyword k =>
    simp only [step, Spec.absStep, UExt.removeKeyword, parseKey_exact]
    by_cases h : Spec.isKey k = true
    · simp only [h, ↓reduceIte, Res.map, outOfBool, AMap.remove_eq_mapRemove hkwS, AMap.get_isSome_eq_mapHas]
      rfl
    · simp only [h, ↓reduceIte, Res.map, outOfBool, Bool.false_eq_true]
  | clearKeywords => rfl
  | keyword k =>
    simp only [step, Spec.absStep, UExt.keyword, parseKey_exact]
    by_cases h : Spec.isKey k = true
    · simp only [h, ↓reduceIte, Res.map, outOfList, AMap.get_getD_eq_mapGet]
      rfl
    · simp only [h, ↓reduceIte, Res.map, outOfList, Bool.false_eq_true]
  | setAttribute a =>
    simp only [step, Spec.absStep, UExt.setAttribute, parseAttribute_exact]
    by_cases h : Spec.isAttr a = true
    · simp only [h, ↓reduceIte, Res.map, outOfUnit]
      cases hb : binarySearchBy x.ext.unicode.attributes (cmpBytes (lower a)) with
      | inl i =>
        have hm : lower a ∈ x.ext.unicode.attributes :=
          (binarySearch_found_iff (weakSorted_of_strictSorted hattrS)).1 ⟨i, hb⟩
        have : Spec.insertSet (lower a) (abs x).attrs = (abs x).attrs := insertSet_of_mem hattrS hm
        rw [this]; rfl
      | inr i =>
        have : Spec.insertSet (lower a) (abs x).attrs =
            x.ext.unicode.attributes.take i ++ lower a :: x.ext.unicode.attributes.drop i :=
          (insert_at_err_eq_insertSet hattrS hb).symm
        rw [this]; rfl
    · simp only [h, ↓reduceIte, Res.map, outOfUnit, Bool.false_eq_true]
  | removeAttribute a =>
    simp only [step, Spec.absStep, UExt.removeAttribute, parseAttribute_exact]
    by_cases h : Spec.isAttr a = true
    · simp only [h, ↓reduceIte, Res.map, outOfBool]
      cases hb : binarySearchBy x.ext.unicode.attributes (cmpBytes (lower a)) with
      | inl i =>
        have hm : lower a ∈ x.ext.unicode.attributes :=
          (binarySearch_found_iff (weakSorted_of_strictSorted hattrS)).1 ⟨i, hb⟩
        have h1 : Spec.setErase (lower a) (abs x).attrs = x.ext.unicode.attributes.eraseIdx i :=
          (erase_at_ok_eq_setErase hattrS hb).symm
        have h2 : (abs x).attrs.contains (lower a) = true := List.contains_iff_mem.2 hm
        rw [h1, h2]; rfl
      | inr i =>
        have hm : lower a ∉ x.ext.unicode.attributes :=
          (binarySearch_err (weakSorted_of_strictSorted hattrS) hb).1
        have h1 : Spec.setErase (lower a) (abs x).attrs = (abs x).attrs := setErase_of_not_mem hm
        have h2 : (abs x).attrs.contains (lower a) = false := by
          rw [← Bool.not_eq_true, List.contains_iff_mem]; exact hm
        rw [h1, h2]; rfl
    · simp only [h, ↓reduceIte, Res.map, outOfBool, Bool.false_eq_true]
  | clearAttributes => rfl
  | hasAttribute a =>
    simp only [step, Spec.absStep, UExt.hasAttribute, parseAttribute_exact]
    by_cases h : Spec.isAttr a = true
    · simp only [h, ↓reduceIte, Res.map, outOfQuery]; rfl
    · simp only [h, ↓reduceIte, Res.map, outOfQuery, Bool.false_eq_true]
  | setTLang l =>
    simp only [step, Spec.absStep, Props.C02.fromBytes_exact]
    cases hr : Spec.langIdResult l with
    | ok v =>
      simp only [outOfUnit]
      have : (abs (setT x (x.ext.transform.setTLang (concreteLi v)))).tlang = some v := by
        show some (absLi (concreteLi v)) = some v
        rw [absLi_concreteLi]
      rw [← this]; rfl
    | invalidLanguage => rfl
    | invalidSubtag => rfl
  | clearTLang => rfl
  | setTField k vs =>
    simp only [step, Spec.absStep, TExt.setTField, parseTKey_exact, collectTypes_exact parseTValue_exact]
    by_cases h : Spec.isTKey k = true
    · simp only [h, ↓reduceIte, Res.bind]
      cases hv : Spec.normValues vs with
      | none => rfl
      | some l =>
        simp only [Res.map, outOfUnit, AMap.insert_eq_mapInsert]
        rfl
    · simp only [h, ↓reduceIte, Res.bind, outOfUnit, Bool.false_eq_true]
  | removeTField k =>
    simp only [step, Spec.absStep, TExt.removeTField, parseTKey_exact]
    by_cases h : Spec.isTKey k = true
    · simp only [h, ↓reduceIte, Res.map, outOfBool, AMap.remove_eq_mapRemove htfS, AMap.get_isSome_eq_mapHas]
      rfl
    · simp only [h, ↓reduceIte, Res.map, outOfBool, Bool.false_eq_true]
  | clearTFields => rfl
  | tfield k =>
    simp only [step, Spec.absStep, TExt.tfield, parseTKey_exact]
    by_cases h : Spec.isTKey k = true
    · simp only [h, ↓reduceIte, Res.map, outOfList, AMap.get_getD_eq_mapGet]
      rfl
    · simp only [h, ↓reduceIte, Res.map, outOfList, Bool.false_eq_true]
  | addTag t =>
    simp only [step, Spec.absStep, PExt.addTag, parsePrivate_exact]
    by_cases h : Spec.isPrivate t = true
    · simp only [h, ↓reduceIte, Res.map, outOfUnit, sort_push_eq_sortInsert (lower t) htagS]
      rfl
    · simp only [h, ↓reduceIte, Res.map, outOfUnit, Bool.false_eq_true]
  | removeTag t =>
    simp only [step, Spec.absStep, PExt.removeTag, parsePrivate_exact]
    by_cases h : Spec.isPrivate t = true
    · simp only [h, ↓reduceIte, Res.map, outOfBool]
      cases hb : binarySearchBy x.ext.priv (cmpBytes (lower t)) with
      | inl i =>
        have hm : lower t ∈ x.ext.priv := (binarySearch_found_iff htagS).1 ⟨i, hb⟩
        have h1 : (abs x).tags.erase (lower t) = x.ext.priv.eraseIdx i := (erase_at_ok_eq_erase htagS hb).symm
        have h2 : (abs x).tags.contains (lower t) = true := List.contains_iff_mem.2 hm
        rw [h1, h2]; rfl
      | inr i =>
        have hm : lower t ∉ x.ext.priv := (binarySearch_err htagS hb).1
        have h1 : (abs x).tags.erase (lower t) = (abs x).tags := List.erase_of_not_mem hm
        have h2 : (abs x).tags.contains (lower t) = false := by
          rw [← Bool.not_eq_true, List.contains_iff_mem]; exact hm
        rw [h1, h2]; rfl
    · simp only [h, ↓reduceIte, Res.map, outOfBool, Bool.false_eq_true]
  | clearTags => rfl
  | hasTag t =>
    simp only [step, Spec.absStep, PExt.hasTag, parsePrivate_exact]
    by_cases h : Spec.isPrivate t = true
    · simp only [h, ↓reduceIte, Res.map, outOfQuery]; rfl
    · simp only [h, ↓reduceIte, Res.map, outOfQuery, Bool.false_eq_true]
  | maximize =>
    simp only [step, Spec.absStep, LangId.maximize]
    rw [(hL x.id hid).1]
    show _ = Spec.applyLikely (abs x) (L.maxi x.id.language x.id.script x.id.region)
    cases L.maxi x.id.language x.id.script x.id.region with
    | ok r =>
      cases r with
      | none => rfl
      | some t => obtain ⟨l, s, r⟩ := t; rfl
    | err e => rfl
    | panic => rfl
  | minimize =>
    simp only [step, Spec.absStep, LangId.minimize]
    rw [(hL x.id hid).2]
    show _ = Spec.applyLikely (abs x) (L.mini x.id.language x.id.script x.id.region)
    cases L.mini x.id.language x.id.script x.id.region with
    | ok r =>
      cases r with
      | none => rfl
      | some t => obtain ⟨l, s, r⟩ := t; rfl
    | err e => rfl
    | panic => rfl

theorem step_refines (T : Tables) (L : Spec.LikelyFns) (hL : LikelyAgrees T L)
    (x : Locale) (o : Op) (hx : x.inv = true) :
    abs (step T x o).1 = (Spec.absStep L (abs x) o).1 ∧ (step T x o).2 = (Spec.absStep L (abs x) o).2 := by
  have h := step_refines_pair T L hL x o hx
  exact ⟨congrArg Prod.fst h, congrArg Prod.snd h⟩

/-! ### the getters agree (no invariant needed: the getters do not search) -/

theorem keyword_out (L : Spec.LikelyFns) (x : Locale) (k : Bytes) :
    resListOut (x.ext.unicode.keyword k) = (Spec.absStep L (abs x) (.keyword k)).2 := by
  simp only [Spec.absStep, UExt.keyword, parseKey_exact]
  by_cases h : Spec.isKey k = true
  · simp only [h, ↓reduceIte, Res.map, resListOut, AMap.get_getD_eq_mapGet]; rfl
  · simp only [h, ↓reduceIte, Res.map, resListOut, Bool.false_eq_true]

theorem tfield_out (L : Spec.LikelyFns) (x : Locale) (k : Bytes) :
    resListOut (x.ext.transform.tfield k) = (Spec.absStep L (abs x) (.tfield k)).2 := by
  simp only [Spec.absStep, TExt.tfield, parseTKey_exact]
  by_cases h : Spec.isTKey k = true
  · simp only [h, ↓reduceIte, Res.map, resListOut, AMap.get_getD_eq_mapGet]; rfl
  · simp only [h, ↓reduceIte, Res.map, resListOut, Bool.false_eq_true]

theorem obs_eq (L : Spec.LikelyFns) (x : Locale) : obs x = Spec.absObs L (abs x) := by
  unfold obs Spec.absObs
  simp only [keyword_out L, tfield_out L, display_eq_canon]
  have hu : x.ext.unicode.isEmpty = ((abs x).attrs.isEmpty && (abs x).keywords.isEmpty) := by
    unfold UExt.isEmpty; rw [Bool.and_comm]; rfl
  have ht : x.ext.transform.isEmpty = ((abs x).tlang.isNone && (abs x).tfields.isEmpty) := by
    unfold TExt.isEmpty abs
    cases x.ext.transform.tlang <;> rfl
  have he : x.ext.isEmpty = (((abs x).attrs.isEmpty && (abs x).keywords.isEmpty) &&
      ((abs x).tlang.isNone && (abs x).tfields.isEmpty) && (abs x).tags.isEmpty) := by
    unfold ExtMap.isEmpty; rw [hu, ht]; rfl
  rw [hu, ht, he]
  rfl

/-! ### a call that reports an error (or a panic) leaves the value unchanged -/

theorem outOfUnit_unchanged {α} (x : Locale) (r : Res α) (f : α → Locale)
    (h : (outOfUnit x r f).2 ≠ .unit) : (outOfUnit x r f).1 = x := by
  cases r <;> simp_all [outOfUnit]
theorem outOfBool_unchanged {α} (x : Locale) (r : Res (α × Bool)) (f : α → Locale)
    (h : (outOfBool x r f).2 = .err ∨ (outOfBool x r f).2 = .panic) : (outOfBool x r f).1 = x := by
  cases r with
  | ok p => obtain ⟨a, b⟩ := p; simp [outOfBool] at h
  | err e => rfl
  | panic => rfl
theorem outOfQuery_unchanged (x : Locale) (r : Res Bool) : (outOfQuery x r).1 = x := by
  cases r <;> rfl
theorem outOfList_unchanged (x : Locale) (r : Res (List Bytes)) : (outOfList x r).1 = x := by
  cases r <;> rfl

theorem step_fail_unchanged (T : Tables) (x : Locale) (o : Op)
    (h : (step T x o).2 = .err ∨ (step T x o).2 = .panic) : (step T x o).1 = x := by
  have hu : ∀ {α} (r : Res α) (f : α → Locale),
      ((outOfUnit x r f).2 = .err ∨ (outOfUnit x r f).2 = .panic) → (outOfUnit x r f).1 = x := by
    intro α r f h
    apply outOfUnit_unchanged
    rcases h with h | h <;> rw [h] <;> simp
  cases o with
  | setLanguage v => exact hu _ _ h
  | setScript v =>
    cases v with
    | none => simp [step] at h
    | some v => exact hu _ _ h
  | setRegion v =>
    cases v with
    | none => simp [step] at h
    | some v => exact hu _ _ h
  | setVariants vs => exact hu _ _ h
  | clearVariants => simp [step] at h
  | hasVariant v => exact outOfQuery_unchanged _ _
  | setKeyword k vs => exact hu _ _ h
  | removeKeyword k => exact outOfBool_unchanged _ _ _ h
  | clearKeywords => simp [step] at h
  | keyword k => exact outOfList_unchanged _ _
  | setAttribute a => exact hu _ _ h
  | removeAttribute a => exact outOfBool_unchanged _ _ _ h
  | clearAttributes => simp [step] at h
  | hasAttribute a => exact outOfQuery_unchanged _ _
  | setTLang l => exact hu _ _ h
  | clearTLang => simp [step] at h
  | setTField k vs => exact hu _ _ h
  | removeTField k => exact outOfBool_unchanged _ _ _ h
  | clearTFields => simp [step] at h
  | tfield k => exact outOfList_unchanged _ _
  | addTag t => exact hu _ _ h
  | removeTag t => exact outOfBool_unchanged _ _ _ h
  | clearTags => simp [step] at h
  | hasTag t => exact outOfQuery_unchanged _ _
  | maximize => exact outOfBool_unchanged _ _ _ h
  | minimize => exact outOfBool_unchanged _ _ _ h

end UL.Rf
