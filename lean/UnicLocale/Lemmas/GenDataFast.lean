/-
  Lemmas/GenDataFast.lean — purely arithmetic versions of the table well-formedness checks
  (bytes by `% 256` and `/ 256`, comparisons by `Nat.ble`/`Nat.beq`: the kernel evaluates these
  with GMP), and the proofs, once and for all, that they imply the list-based checks of
  `Spec/TablesWF.lean`.  `decide +kernel` is then run on the fast predicates only.   (C18, C06)
-/
import UnicLocale.Spec.TablesWF
import UnicLocale.Lemmas.Raw

namespace UL.Fast
open UL

def isLowerF (b : Nat) : Bool := Nat.ble 97 b && Nat.ble b 122
def isUpperF (b : Nat) : Bool := Nat.ble 65 b && Nat.ble b 90
def isDigitF (b : Nat) : Bool := Nat.ble 48 b && Nat.ble b 57

theorem isLowerF_iff {b : Nat} : isLowerF b = true ↔ 97 ≤ b ∧ b ≤ 122 := by
  simp [isLowerF, Nat.ble_eq]
theorem isUpperF_iff {b : Nat} : isUpperF b = true ↔ 65 ≤ b ∧ b ≤ 90 := by
  simp [isUpperF, Nat.ble_eq]
theorem isDigitF_iff {b : Nat} : isDigitF b = true ↔ 48 ≤ b ∧ b ≤ 57 := by
  simp [isDigitF, Nat.ble_eq]

/-- language: 2–3 or 5–8 lower-case letters (then zero bytes), not the text `und` -/
def validLangInt (n : Nat) : Bool :=
  isLowerF (n % 256) && isLowerF (n / 256 % 256) &&
  (Nat.beq (n / 65536) 0 ||
    (isLowerF (n / 65536 % 256) &&
      (Nat.beq (n / 16777216) 0 ||
        (isLowerF (n / 16777216 % 256) && isLowerF (n / 4294967296 % 256) &&
          (Nat.beq (n / 1099511627776) 0 ||
            (isLowerF (n / 1099511627776 % 256) &&
              (Nat.beq (n / 281474976710656) 0 ||
                (isLowerF (n / 281474976710656 % 256) &&
                  (Nat.beq (n / 72057594037927936) 0 || isLowerF (n / 72057594037927936)))))))))) &&
  !Nat.beq n Spec.undInt

/-- script: one upper-case and three lower-case letters -/
def validScriptInt (n : Nat) : Bool :=
  isUpperF (n % 256) && isLowerF (n / 256 % 256) && isLowerF (n / 65536 % 256) && isLowerF (n / 16777216)

/-- region: two upper-case letters or three digits -/
def validRegionInt (n : Nat) : Bool :=
  (isUpperF (n % 256) && isUpperF (n / 256)) ||
  (isDigitF (n % 256) && isDigitF (n / 256 % 256) && isDigitF (n / 65536))

def valOk (l s r : Nat) : Bool :=
  !Nat.beq l 0 && !Nat.beq s 0 && !Nat.beq r 0 &&
    validLangInt (l - 1) && validScriptInt (s - 1) && validRegionInt (r - 1)

/-! the key subtags equal the value subtags (`row.l == row.k + 1` …), so their validity follows from
    the value's; only the `und` row of LANG_ONLY has a key that is not in its value -/
def rowLangOnly (row : Row1) : Bool :=
  valOk row.l row.s row.r && (Nat.beq row.k Spec.undInt || Nat.beq row.l (row.k + 1))
def rowLangRegion (row : Row2) : Bool :=
  valOk row.l row.s row.r && Nat.beq row.l (row.k1 + 1) && Nat.beq row.r (row.k2 + 1)
def rowLangScript (row : Row2) : Bool :=
  valOk row.l row.s row.r && Nat.beq row.l (row.k1 + 1) && Nat.beq row.s (row.k2 + 1)
def rowScriptRegion (row : Row2) : Bool :=
  valOk row.l row.s row.r && Nat.beq row.s (row.k1 + 1) && Nat.beq row.r (row.k2 + 1)
def rowScriptOnly (row : Row1) : Bool :=
  valOk row.l row.s row.r && Nat.beq row.s (row.k + 1)
def rowRegionOnly (row : Row1) : Bool :=
  valOk row.l row.s row.r && Nat.beq row.r (row.k + 1)

/-- strict sortedness, with `Nat.blt`/`Nat.beq` -/
def sorted1 : List Row1 → Bool
  | [] => true
  | [_] => true
  | a :: b :: r => Nat.blt a.k b.k && sorted1 (b :: r)
def sorted2 : List Row2 → Bool
  | [] => true
  | [_] => true
  | a :: b :: r => (Nat.blt a.k1 b.k1 || (Nat.beq a.k1 b.k1 && Nat.blt a.k2 b.k2)) && sorted2 (b :: r)

/-- the fast form of `tablesWF`, on the row lists -/
def listsWF (lo : List Row1) (lr ls sr : List Row2) (so ro : List Row1) : Bool :=
  sorted1 lo && sorted2 lr && sorted2 ls && sorted2 sr && sorted1 so && sorted1 ro &&
  lo.all rowLangOnly && lr.all rowLangRegion && ls.all rowLangScript && sr.all rowScriptRegion &&
  so.all rowScriptOnly && ro.all rowRegionOnly

def tablesWF (T : Tables) : Bool :=
  listsWF T.langOnly.toList T.langRegion.toList T.langScript.toList T.scriptRegion.toList
    T.scriptOnly.toList T.regionOnly.toList

/-! ### soundness -/

theorem sorted1_sound {l : List Row1} (h : sorted1 l = true) : UL.sorted1 l = true := by
  induction l with
  | nil => rfl
  | cons a t ih =>
    cases t with
    | nil => rfl
    | cons b r =>
      simp only [sorted1, Bool.and_eq_true, Nat.blt_eq] at h
      simp only [UL.sorted1, Bool.and_eq_true, decide_eq_true_eq]
      exact ⟨h.1, ih h.2⟩

theorem sorted2_sound {l : List Row2} (h : sorted2 l = true) : UL.sorted2 l = true := by
  induction l with
  | nil => rfl
  | cons a t ih =>
    cases t with
    | nil => rfl
    | cons b r =>
      simp only [sorted2, Bool.and_eq_true, Bool.or_eq_true, Nat.blt_eq, Nat.beq_eq] at h
      simp only [UL.sorted2, Spec.lt2, Bool.and_eq_true, Bool.or_eq_true, decide_eq_true_eq, beq_iff_eq]
      exact ⟨h.1, ih h.2⟩

theorem lower_of_all_lower {s : Bytes} (h : ∀ b ∈ s, 97 ≤ b ∧ b ≤ 122) : lower s = s := by
  induction s with
  | nil => rfl
  | cons a t ih =>
    have ha := h a (List.mem_cons_self ..)
    have : toLower a = a := by
      simp only [toLower, isUpper, Bool.and_eq_true, decide_eq_true_eq]
      split <;> omega
    simp only [lower, List.map_cons, this] at ih ⊢
    rw [ih (fun b hb => h b (List.mem_cons_of_mem _ hb))]

theorem und_pack : pack undBytes = Spec.undInt := by decide

/-- 2–3 or 5–8 lower-case letters other than `und` pack to a valid language integer -/
theorem lang_of_bytes (s : Bytes) (hlen : (2 ≤ s.length ∧ s.length ≤ 3) ∨ (5 ≤ s.length ∧ s.length ≤ 8))
    (hb : ∀ b ∈ s, 97 ≤ b ∧ b ≤ 122) (hund : pack s ≠ Spec.undInt) : UL.validLangInt (pack s) = true := by
  have hu : unpack (pack s) = s :=
    unpack_pack s (by omega) (fun b hbm => by have := hb b hbm; omega)
  unfold UL.validLangInt
  rw [hu]
  have hlow := lower_of_all_lower hb
  have halpha : s.all isAlpha = true := by
    rw [List.all_eq_true]
    intro b hbm
    have := hb b hbm
    simp only [isAlpha, isUpper, isLower, Bool.or_eq_true, Bool.and_eq_true, decide_eq_true_eq]
    omega
  have hlang : Spec.isLanguage s = true := by
    simp only [Spec.isLanguage, Spec.rep, halpha, Bool.and_true, Bool.or_eq_true, Bool.and_eq_true,
      decide_eq_true_eq]
    omega
  have hne : (s == Spec.und) = false := by
    rw [beq_eq_false_iff_ne]
    intro e
    apply hund
    rw [e]
    exact und_pack
  rw [Props.C15.language_exact, if_pos hlang]
  simp only [Spec.canonLanguage, hlow, hne, Bool.false_eq_true, if_false, beq_self_eq_true,
    Bool.and_self]

theorem validLangInt_sound {n : Nat} (h : validLangInt n = true) : UL.validLangInt n = true := by
  simp only [validLangInt, Bool.and_eq_true, Bool.or_eq_true, Nat.beq_eq, isLowerF_iff,
    Bool.not_eq_true'] at h
  obtain ⟨⟨⟨h0, h1⟩, hrest⟩, hund⟩ := h
  have hund' : n ≠ Spec.undInt := by
    intro e; rw [e] at hund; exact absurd hund (by decide)
  rcases hrest with h2 | ⟨h2, hrest⟩
  · have hn : n = pack [n % 256, n / 256 % 256] := by
      simp only [pack, List.foldr]; omega
    rw [hn]
    refine lang_of_bytes _ (by simp) ?_ (by rw [← hn]; exact hund')
    intro b hb
    simp only [List.mem_cons, List.not_mem_nil, or_false] at hb
    rcases hb with rfl | rfl <;> assumption
  rcases hrest with h3 | ⟨⟨h3, h4⟩, hrest⟩
  · have hn : n = pack [n % 256, n / 256 % 256, n / 65536 % 256] := by
      simp only [pack, List.foldr]; omega
    rw [hn]
    refine lang_of_bytes _ (by simp) ?_ (by rw [← hn]; exact hund')
    intro b hb
    simp only [List.mem_cons, List.not_mem_nil, or_false] at hb
    rcases hb with rfl | rfl | rfl <;> assumption
  rcases hrest with h5 | ⟨h5, hrest⟩
  · have hn : n = pack [n % 256, n / 256 % 256, n / 65536 % 256, n / 16777216 % 256, n / 4294967296 % 256] := by
      simp only [pack, List.foldr]; omega
    rw [hn]
    refine lang_of_bytes _ (by simp) ?_ (by rw [← hn]; exact hund')
    intro b hb
    simp only [List.mem_cons, List.not_mem_nil, or_false] at hb
    rcases hb with rfl | rfl | rfl | rfl | rfl <;> assumption
  rcases hrest with h6 | ⟨h6, hrest⟩
  · have hn : n = pack [n % 256, n / 256 % 256, n / 65536 % 256, n / 16777216 % 256, n / 4294967296 % 256,
        n / 1099511627776 % 256] := by
      simp only [pack, List.foldr]; omega
    rw [hn]
    refine lang_of_bytes _ (by simp) ?_ (by rw [← hn]; exact hund')
    intro b hb
    simp only [List.mem_cons, List.not_mem_nil, or_false] at hb
    rcases hb with rfl | rfl | rfl | rfl | rfl | rfl <;> assumption
  rcases hrest with h7 | h7
  · have hn : n = pack [n % 256, n / 256 % 256, n / 65536 % 256, n / 16777216 % 256, n / 4294967296 % 256,
        n / 1099511627776 % 256, n / 281474976710656 % 256] := by
      simp only [pack, List.foldr]; omega
    rw [hn]
    refine lang_of_bytes _ (by simp) ?_ (by rw [← hn]; exact hund')
    intro b hb
    simp only [List.mem_cons, List.not_mem_nil, or_false] at hb
    rcases hb with rfl | rfl | rfl | rfl | rfl | rfl | rfl <;> assumption
  · have hn : n = pack [n % 256, n / 256 % 256, n / 65536 % 256, n / 16777216 % 256, n / 4294967296 % 256,
        n / 1099511627776 % 256, n / 281474976710656 % 256, n / 72057594037927936] := by
      simp only [pack, List.foldr]; omega
    rw [hn]
    refine lang_of_bytes _ (by simp) ?_ (by rw [← hn]; exact hund')
    intro b hb
    simp only [List.mem_cons, List.not_mem_nil, or_false] at hb
    rcases hb with rfl | rfl | rfl | rfl | rfl | rfl | rfl | rfl <;> assumption

theorem validScriptInt_sound {n : Nat} (h : validScriptInt n = true) : UL.validScriptInt n = true := by
  simp only [validScriptInt, Bool.and_eq_true, isUpperF_iff, isLowerF_iff] at h
  obtain ⟨⟨⟨h0, h1⟩, h2⟩, h3⟩ := h
  have hn : n = pack [n % 256, n / 256 % 256, n / 65536 % 256, n / 16777216] := by
    simp only [pack, List.foldr]; omega
  generalize n % 256 = b0 at *
  generalize n / 256 % 256 = b1 at *
  generalize n / 65536 % 256 = b2 at *
  generalize n / 16777216 = b3 at *
  have hu : unpack n = [b0, b1, b2, b3] := by
    rw [hn]
    apply unpack_pack _ (by simp)
    intro b hb
    simp only [List.mem_cons, List.not_mem_nil, or_false] at hb
    rcases hb with rfl | rfl | rfl | rfl <;> omega
  unfold UL.validScriptInt
  rw [hu, ← hn]
  have ht : title [b0, b1, b2, b3] = [b0, b1, b2, b3] := by
    have e0 : toUpper b0 = b0 := by
      simp only [toUpper, isLower, Bool.and_eq_true, decide_eq_true_eq]; split <;> omega
    have e1 : toLower b1 = b1 := by
      simp only [toLower, isUpper, Bool.and_eq_true, decide_eq_true_eq]; split <;> omega
    have e2 : toLower b2 = b2 := by
      simp only [toLower, isUpper, Bool.and_eq_true, decide_eq_true_eq]; split <;> omega
    have e3 : toLower b3 = b3 := by
      simp only [toLower, isUpper, Bool.and_eq_true, decide_eq_true_eq]; split <;> omega
    simp only [title, lower, List.map_cons, List.map_nil, e0, e1, e2, e3]
  have hs : Spec.isScript [b0, b1, b2, b3] = true := by
    simp [Spec.isScript, Spec.rep, isAlpha, isUpper, isLower]
    omega
  rw [Props.C15.script_exact, if_pos hs, ht]
  simp

theorem validRegionInt_sound {n : Nat} (h : validRegionInt n = true) : UL.validRegionInt n = true := by
  simp only [validRegionInt, Bool.or_eq_true, Bool.and_eq_true, isUpperF_iff, isDigitF_iff] at h
  rcases h with ⟨h0, h1⟩ | ⟨⟨h0, h1⟩, h2⟩
  · have hn : n = pack [n % 256, n / 256] := by
      simp only [pack, List.foldr]; omega
    generalize n % 256 = b0 at *
    generalize n / 256 = b1 at *
    have hu : unpack n = [b0, b1] := by
      rw [hn]
      apply unpack_pack _ (by simp)
      intro b hb
      simp only [List.mem_cons, List.not_mem_nil, or_false] at hb
      rcases hb with rfl | rfl <;> omega
    unfold UL.validRegionInt
    rw [hu, ← hn]
    have ht : upper [b0, b1] = [b0, b1] := by
      have e0 : toUpper b0 = b0 := by
        simp only [toUpper, isLower, Bool.and_eq_true, decide_eq_true_eq]; split <;> omega
      have e1 : toUpper b1 = b1 := by
        simp only [toUpper, isLower, Bool.and_eq_true, decide_eq_true_eq]; split <;> omega
      simp only [upper, List.map_cons, List.map_nil, e0, e1]
    have hs : Spec.isRegion [b0, b1] = true := by
      simp [Spec.isRegion, Spec.rep, isAlpha, isUpper, isLower, isDigit]
      omega
    rw [Props.C15.region_exact, if_pos hs, ht]
    simp
  · have hn : n = pack [n % 256, n / 256 % 256, n / 65536] := by
      simp only [pack, List.foldr]; omega
    generalize n % 256 = b0 at *
    generalize n / 256 % 256 = b1 at *
    generalize n / 65536 = b2 at *
    have hu : unpack n = [b0, b1, b2] := by
      rw [hn]
      apply unpack_pack _ (by simp)
      intro b hb
      simp only [List.mem_cons, List.not_mem_nil, or_false] at hb
      rcases hb with rfl | rfl | rfl <;> omega
    unfold UL.validRegionInt
    rw [hu, ← hn]
    have ht : upper [b0, b1, b2] = [b0, b1, b2] := by
      have e0 : toUpper b0 = b0 := by
        simp only [toUpper, isLower, Bool.and_eq_true, decide_eq_true_eq]; split <;> omega
      have e1 : toUpper b1 = b1 := by
        simp only [toUpper, isLower, Bool.and_eq_true, decide_eq_true_eq]; split <;> omega
      have e2 : toUpper b2 = b2 := by
        simp only [toUpper, isLower, Bool.and_eq_true, decide_eq_true_eq]; split <;> omega
      simp only [upper, List.map_cons, List.map_nil, e0, e1, e2]
    have hs : Spec.isRegion [b0, b1, b2] = true := by
      simp [Spec.isRegion, Spec.rep, isAlpha, isUpper, isLower, isDigit]
      omega
    rw [Props.C15.region_exact, if_pos hs, ht]
    simp

theorem valOk_sound {l s r : Nat} (h : valOk l s r = true) : UL.valOk l s r = true := by
  simp only [valOk, Bool.and_eq_true, Bool.not_eq_true'] at h
  obtain ⟨⟨⟨⟨⟨hl, hs⟩, hr⟩, h1⟩, h2⟩, h3⟩ := h
  have e : ∀ x : Nat, Nat.beq x 0 = false → (x != 0) = true := by
    intro x hx
    rw [bne_iff_ne]
    intro e; subst e; exact absurd hx (by decide)
  simp only [UL.valOk, Bool.and_eq_true]
  exact ⟨⟨⟨⟨⟨e _ hl, e _ hs⟩, e _ hr⟩, validLangInt_sound h1⟩, validScriptInt_sound h2⟩, validRegionInt_sound h3⟩

theorem beq_of_natbeq {a b : Nat} (h : Nat.beq a b = true) : (a == b) = true := by
  rw [Nat.eq_of_beq_eq_true h]; simp

theorem valOk_key_l {l s r k : Nat} (h : UL.valOk l s r = true) (e : Nat.beq l (k + 1) = true) :
    UL.validLangInt k = true := by
  have := Nat.eq_of_beq_eq_true e
  subst this
  simp only [UL.valOk, Bool.and_eq_true] at h
  simpa using h.1.1.2
theorem valOk_key_s {l s r k : Nat} (h : UL.valOk l s r = true) (e : Nat.beq s (k + 1) = true) :
    UL.validScriptInt k = true := by
  have := Nat.eq_of_beq_eq_true e
  subst this
  simp only [UL.valOk, Bool.and_eq_true] at h
  simpa using h.1.2
theorem valOk_key_r {l s r k : Nat} (h : UL.valOk l s r = true) (e : Nat.beq r (k + 1) = true) :
    UL.validRegionInt k = true := by
  have := Nat.eq_of_beq_eq_true e
  subst this
  simp only [UL.valOk, Bool.and_eq_true] at h
  simpa using h.2

theorem rowLangOnly_sound {row : Row1} (h : rowLangOnly row = true) :
    (UL.valOk row.l row.s row.r &&
      (row.k == Spec.undInt || (UL.validLangInt row.k && row.l == row.k + 1))) = true := by
  simp only [rowLangOnly, Bool.and_eq_true, Bool.or_eq_true] at h
  simp only [Bool.and_eq_true, Bool.or_eq_true]
  have hv := valOk_sound h.1
  refine ⟨hv, ?_⟩
  rcases h.2 with h2 | h2
  · exact Or.inl (beq_of_natbeq h2)
  · exact Or.inr ⟨valOk_key_l hv h2, beq_of_natbeq h2⟩

theorem rowLangRegion_sound {row : Row2} (h : rowLangRegion row = true) :
    (UL.valOk row.l row.s row.r && UL.validLangInt row.k1 && UL.validRegionInt row.k2 &&
      row.l == row.k1 + 1 && row.r == row.k2 + 1) = true := by
  simp only [rowLangRegion, Bool.and_eq_true] at h
  simp only [Bool.and_eq_true]
  obtain ⟨⟨h1, h4⟩, h5⟩ := h
  have hv := valOk_sound h1
  exact ⟨⟨⟨⟨hv, valOk_key_l hv h4⟩, valOk_key_r hv h5⟩, beq_of_natbeq h4⟩, beq_of_natbeq h5⟩

theorem rowLangScript_sound {row : Row2} (h : rowLangScript row = true) :
    (UL.valOk row.l row.s row.r && UL.validLangInt row.k1 && UL.validScriptInt row.k2 &&
      row.l == row.k1 + 1 && row.s == row.k2 + 1) = true := by
  simp only [rowLangScript, Bool.and_eq_true] at h
  simp only [Bool.and_eq_true]
  obtain ⟨⟨h1, h4⟩, h5⟩ := h
  have hv := valOk_sound h1
  exact ⟨⟨⟨⟨hv, valOk_key_l hv h4⟩, valOk_key_s hv h5⟩, beq_of_natbeq h4⟩, beq_of_natbeq h5⟩

theorem rowScriptRegion_sound {row : Row2} (h : rowScriptRegion row = true) :
    (UL.valOk row.l row.s row.r && UL.validScriptInt row.k1 && UL.validRegionInt row.k2 &&
      row.s == row.k1 + 1 && row.r == row.k2 + 1) = true := by
  simp only [rowScriptRegion, Bool.and_eq_true] at h
  simp only [Bool.and_eq_true]
  obtain ⟨⟨h1, h4⟩, h5⟩ := h
  have hv := valOk_sound h1
  exact ⟨⟨⟨⟨hv, valOk_key_s hv h4⟩, valOk_key_r hv h5⟩, beq_of_natbeq h4⟩, beq_of_natbeq h5⟩

theorem rowScriptOnly_sound {row : Row1} (h : rowScriptOnly row = true) :
    (UL.valOk row.l row.s row.r && UL.validScriptInt row.k && row.s == row.k + 1) = true := by
  simp only [rowScriptOnly, Bool.and_eq_true] at h
  simp only [Bool.and_eq_true]
  have hv := valOk_sound h.1
  exact ⟨⟨hv, valOk_key_s hv h.2⟩, beq_of_natbeq h.2⟩

theorem rowRegionOnly_sound {row : Row1} (h : rowRegionOnly row = true) :
    (UL.valOk row.l row.s row.r && UL.validRegionInt row.k && row.r == row.k + 1) = true := by
  simp only [rowRegionOnly, Bool.and_eq_true] at h
  simp only [Bool.and_eq_true]
  have hv := valOk_sound h.1
  exact ⟨⟨hv, valOk_key_r hv h.2⟩, beq_of_natbeq h.2⟩

theorem all_mono {α} {p q : α → Bool} {l : List α} (hpq : ∀ x, p x = true → q x = true)
    (h : l.all p = true) : l.all q = true := by
  rw [List.all_eq_true] at *
  exact fun x hx => hpq x (h x hx)

/-- the fast check implies the specification's check, for every table set -/
theorem tablesWF_sound {T : Tables} (h : tablesWF T = true) : UL.tablesWF T = true := by
  simp only [tablesWF, listsWF, Bool.and_eq_true] at h
  obtain ⟨⟨⟨⟨⟨⟨⟨⟨⟨⟨⟨s1, s2⟩, s3⟩, s4⟩, s5⟩, s6⟩, a1⟩, a2⟩, a3⟩, a4⟩, a5⟩, a6⟩ := h
  simp only [UL.tablesWF, Bool.and_eq_true]
  exact ⟨⟨⟨⟨⟨⟨⟨⟨⟨⟨⟨sorted1_sound s1, sorted2_sound s2⟩, sorted2_sound s3⟩, sorted2_sound s4⟩,
    sorted1_sound s5⟩, sorted1_sound s6⟩,
    all_mono (fun _ => rowLangOnly_sound) a1⟩, all_mono (fun _ => rowLangRegion_sound) a2⟩,
    all_mono (fun _ => rowLangScript_sound) a3⟩, all_mono (fun _ => rowScriptRegion_sound) a4⟩,
    all_mono (fun _ => rowScriptOnly_sound) a5⟩, all_mono (fun _ => rowRegionOnly_sound) a6⟩

/-- assembling the per-table facts -/
theorem tablesWF_of_lists (lo : List Row1) (lr ls sr : List Row2) (so ro : List Row1)
    (s1 : sorted1 lo = true) (s2 : sorted2 lr = true) (s3 : sorted2 ls = true) (s4 : sorted2 sr = true)
    (s5 : sorted1 so = true) (s6 : sorted1 ro = true)
    (a1 : lo.all rowLangOnly = true) (a2 : lr.all rowLangRegion = true) (a3 : ls.all rowLangScript = true)
    (a4 : sr.all rowScriptRegion = true) (a5 : so.all rowScriptOnly = true) (a6 : ro.all rowRegionOnly = true) :
    UL.tablesWF ⟨lo.toArray, lr.toArray, ls.toArray, sr.toArray, so.toArray, ro.toArray⟩ = true := by
  apply tablesWF_sound
  simp only [tablesWF, listsWF, Bool.and_eq_true]
  exact ⟨⟨⟨⟨⟨⟨⟨⟨⟨⟨⟨s1, s2⟩, s3⟩, s4⟩, s5⟩, s6⟩, a1⟩, a2⟩, a3⟩, a4⟩, a5⟩, a6⟩

/-! non-vacuity: "en", "Latn", "US", "419" -/
example : validLangInt 28261 = true := by decide
example : validScriptInt 1853120844 = true := by decide
example : validRegionInt 21333 = true := by decide
example : validRegionInt 3748148 = true := by decide
example : validLangInt Spec.undInt = false := by decide
example : UL.validLangInt 28261 = true := validLangInt_sound (by decide)

end UL.Fast
