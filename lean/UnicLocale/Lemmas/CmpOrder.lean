/-
  Lemmas/CmpOrder.lean — the derived `Ord` (`Model/Cmp.lean`) is a strict total order compatible
  with `=`, proved once generically (options with `none` first, lexicographic lists, `then`-products,
  pull-back along an injection) and instantiated for `cmpB`, `cmpLi`, `cmpKV`, `cmpLoc`;
  the word stream of the derived `Hash` determines the value (`hashLi`, `hashLoc` injective).
-/
import UnicLocale.Model.Cmp
import UnicLocale.Lemmas.Order

namespace UL

/-- A three-way comparison that is a strict total order compatible with equality:
    `.eq` exactly on equal arguments, swapping the arguments swaps the result, `.lt` is transitive. -/
structure IsStrictTotal {α : Type} (c : α → α → Ordering) : Prop where
  eq_iff : ∀ a b, c a b = .eq ↔ a = b
  swap : ∀ a b, c b a = (c a b).swap
  lt_trans : ∀ a b d, c a b = .lt → c b d = .lt → c a d = .lt

namespace IsStrictTotal
variable {α : Type} {c : α → α → Ordering}

theorem refl (h : IsStrictTotal c) (a : α) : c a a = .eq := (h.eq_iff a a).2 rfl

/-- antisymmetry: `a < b` iff `b > a` -/
theorem lt_iff_gt (h : IsStrictTotal c) (a b : α) : c a b = .lt ↔ c b a = .gt := by
  rw [h.swap a b, Ordering.swap_eq_gt]

theorem gt_iff_lt (h : IsStrictTotal c) (a b : α) : c a b = .gt ↔ c b a = .lt := by
  rw [h.swap a b, Ordering.swap_eq_lt]

theorem gt_trans (h : IsStrictTotal c) (a b d : α) (h1 : c a b = .gt) (h2 : c b d = .gt) : c a d = .gt := by
  rw [h.gt_iff_lt] at h1 h2 ⊢
  exact h.lt_trans d b a h2 h1

/-- irreflexive -/
theorem not_lt_self (h : IsStrictTotal c) (a : α) : c a a ≠ .lt := by
  rw [h.refl a]; decide

/-- asymmetric -/
theorem lt_asymm (h : IsStrictTotal c) (a b : α) (h1 : c a b = .lt) : c b a ≠ .lt := by
  rw [(h.lt_iff_gt a b).1 h1]; decide

/-- totality (trichotomy): exactly one of `a < b`, `a = b`, `b < a` -/
theorem trichotomy (h : IsStrictTotal c) (a b : α) : c a b = .lt ∨ a = b ∨ c b a = .lt := by
  cases hc : c a b with
  | lt => exact Or.inl rfl
  | eq => exact Or.inr (Or.inl ((h.eq_iff a b).1 hc))
  | gt => exact Or.inr (Or.inr ((h.gt_iff_lt a b).1 hc))

theorem total_of_ne (h : IsStrictTotal c) (a b : α) (hne : a ≠ b) : c a b = .lt ∨ c b a = .lt := by
  rcases h.trichotomy a b with h1 | h1 | h1
  · exact Or.inl h1
  · exact absurd h1 hne
  · exact Or.inr h1

/-- equal values compare `Equal` -/
theorem eq_of_eq (h : IsStrictTotal c) {a b : α} (hab : a = b) : c a b = .eq := (h.eq_iff a b).2 hab

/-- `.lt` is compatible with equality on either side (congruence is trivial, stated for reference) -/
theorem lt_of_lt_of_eq (h : IsStrictTotal c) {a b d : α} (h1 : c a b = .lt) (h2 : c b d = .eq) : c a d = .lt := by
  rw [← (h.eq_iff b d).1 h2]; exact h1

end IsStrictTotal

/-! ### generic liftings -/

/-- the `then`-combination of two comparisons on the components of a pair (derived `Ord` of a struct) -/
def cmpProd {α β} (c1 : α → α → Ordering) (c2 : β → β → Ordering) (p q : α × β) : Ordering :=
  (c1 p.1 q.1).then (c2 p.2 q.2)

/-- the core of every lexicographic transitivity argument -/
theorem then_lt_trans {α} {c1 : α → α → Ordering} (h1 : IsStrictTotal c1) {a b d : α} {x y z : Ordering}
    (hx : (c1 a b).then x = .lt) (hy : (c1 b d).then y = .lt)
    (hxy : x = .lt → y = .lt → z = .lt) : (c1 a d).then z = .lt := by
  rw [Ordering.then_eq_lt] at hx hy ⊢
  rcases hx with hx | ⟨hx, hx'⟩
  · rcases hy with hy | ⟨hy, _⟩
    · exact Or.inl (h1.lt_trans a b d hx hy)
    · rw [← (h1.eq_iff b d).1 hy]; exact Or.inl hx
  · rw [(h1.eq_iff a b).1 hx]
    rcases hy with hy | ⟨hy, hy'⟩
    · exact Or.inl hy
    · exact Or.inr ⟨hy, hxy hx' hy'⟩

theorem IsStrictTotal.prod {α β} {c1 : α → α → Ordering} {c2 : β → β → Ordering}
    (h1 : IsStrictTotal c1) (h2 : IsStrictTotal c2) : IsStrictTotal (cmpProd c1 c2) where
  eq_iff := by
    rintro ⟨a1, a2⟩ ⟨b1, b2⟩
    simp only [cmpProd, Ordering.then_eq_eq, h1.eq_iff, h2.eq_iff, Prod.mk.injEq]
  swap := by
    rintro ⟨a1, a2⟩ ⟨b1, b2⟩
    simp only [cmpProd]
    rw [Ordering.swap_then, ← h1.swap, ← h2.swap]
  lt_trans := by
    rintro ⟨a1, a2⟩ ⟨b1, b2⟩ ⟨d1, d2⟩ hx hy
    exact then_lt_trans h1 hx hy (h2.lt_trans a2 b2 d2)

/-- `Option`, with `None` first -/
theorem IsStrictTotal.opt {α} {c : α → α → Ordering} (h : IsStrictTotal c) : IsStrictTotal (cmpOpt c) where
  eq_iff := by
    intro a b
    cases a <;> cases b <;> simp [cmpOpt, h.eq_iff]
  swap := by
    intro a b
    cases a <;> cases b <;> simp [cmpOpt, ← h.swap]
  lt_trans := by
    intro a b d h1 h2
    cases a <;> cases b <;> cases d <;> simp_all [cmpOpt]
    exact h.lt_trans _ _ _ h1 h2

/-- lists, lexicographically (a proper prefix sorts first) -/
theorem IsStrictTotal.list {α} {c : α → α → Ordering} (h : IsStrictTotal c) : IsStrictTotal (cmpList c) where
  eq_iff := by
    intro a
    induction a with
    | nil => intro b; cases b <;> simp [cmpList]
    | cons x s ih =>
      intro b
      cases b with
      | nil => simp [cmpList]
      | cons y t => simp only [cmpList, Ordering.then_eq_eq, h.eq_iff, ih, List.cons.injEq]
  swap := by
    intro a
    induction a with
    | nil => intro b; cases b <;> simp [cmpList]
    | cons x s ih =>
      intro b
      cases b with
      | nil => simp [cmpList]
      | cons y t =>
        simp only [cmpList]
        rw [Ordering.swap_then, ← h.swap, ← ih]
  lt_trans := by
    intro a
    induction a with
    | nil =>
      intro b d h1 h2
      cases b with
      | nil => simp [cmpList] at h1
      | cons y t =>
        cases d with
        | nil => simp [cmpList] at h2
        | cons z u => simp [cmpList]
    | cons x s ih =>
      intro b d h1 h2
      cases b with
      | nil => simp [cmpList] at h1
      | cons y t =>
        cases d with
        | nil => simp [cmpList] at h2
        | cons z u =>
          simp only [cmpList] at h1 h2 ⊢
          exact then_lt_trans h h1 h2 (ih t u)

/-- pull-back along an injection (a struct compared through the tuple of its fields) -/
theorem IsStrictTotal.comap {α β} {c : β → β → Ordering} (h : IsStrictTotal c) (f : α → β)
    (hf : ∀ a b, f a = f b → a = b) : IsStrictTotal (fun a b => c (f a) (f b)) where
  eq_iff := by
    intro a b
    rw [h.eq_iff]
    exact ⟨hf a b, congrArg f⟩
  swap := fun a b => h.swap (f a) (f b)
  lt_trans := fun a b d => h.lt_trans (f a) (f b) (f d)

theorem IsStrictTotal.of_eq {α} {c c' : α → α → Ordering} (h : IsStrictTotal c) (he : ∀ a b, c' a b = c a b) :
    IsStrictTotal c' := by
  have : c' = c := funext fun a => funext fun b => he a b
  rw [this]; exact h

/-! ### instances -/

theorem cmpB_lt_iff (a b : Bytes) : cmpB a b = .lt ↔ bLt a b = true := by
  unfold cmpB
  by_cases he : a = b
  · subst he; simp [bLt_irrefl]
  · have : (a == b) = false := by simpa using he
    rw [this]
    cases bLt a b <;> simp

theorem cmpB_eq_iff (a b : Bytes) : cmpB a b = .eq ↔ a = b := by
  unfold cmpB
  by_cases he : a = b
  · subst he; simp
  · have : (a == b) = false := by simpa using he
    rw [this]
    cases bLt a b <;> simp [he]

theorem cmpB_gt_iff (a b : Bytes) : cmpB a b = .gt ↔ bLt b a = true := by
  unfold cmpB
  by_cases he : a = b
  · subst he; simp [bLt_irrefl]
  · have : (a == b) = false := by simpa using he
    rw [this]
    rcases bLt_trichotomy a b with h | h | h
    · simp [h, bLt_asymm h]
    · exact absurd h he
    · simp [h, bLt_asymm h]

/-- `TinyAsciiStr`'s derived order: byte-wise lexicographic -/
theorem cmpB_strictTotal : IsStrictTotal cmpB where
  eq_iff := cmpB_eq_iff
  swap := by
    intro a b
    cases hc : cmpB a b with
    | lt => exact (cmpB_gt_iff b a).2 ((cmpB_lt_iff a b).1 hc)
    | eq => rw [(cmpB_eq_iff a b).1 hc]; exact (cmpB_eq_iff b b).2 rfl
    | gt => exact (cmpB_lt_iff b a).2 ((cmpB_gt_iff a b).1 hc)
  lt_trans := by
    intro a b d h1 h2
    rw [cmpB_lt_iff] at h1 h2 ⊢
    exact bLt_trans h1 h2

/-- the fields of a `LanguageIdentifier` in declaration order -/
def LangId.fields (x : LangId) : Option Bytes × Option Bytes × Option Bytes × Option (List Bytes) :=
  (x.language, x.script, x.region, x.variants)

theorem LangId.fields_injective (a b : LangId) (h : LangId.fields a = LangId.fields b) : a = b := by
  obtain ⟨al, as, ar, av⟩ := a
  obtain ⟨bl, bs, br, bv⟩ := b
  simp only [LangId.fields, Prod.mk.injEq] at h
  obtain ⟨rfl, rfl, rfl, rfl⟩ := h
  rfl

theorem cmpLi_eq_fields (a b : LangId) :
    cmpLi a b =
      cmpProd (cmpOpt cmpB) (cmpProd (cmpOpt cmpB) (cmpProd (cmpOpt cmpB) (cmpOpt (cmpList cmpB))))
        (LangId.fields a) (LangId.fields b) := rfl

theorem cmpLi_strictTotal : IsStrictTotal cmpLi :=
  (((cmpB_strictTotal.opt.prod (cmpB_strictTotal.opt.prod
      (cmpB_strictTotal.opt.prod cmpB_strictTotal.list.opt))).comap LangId.fields
      LangId.fields_injective)).of_eq cmpLi_eq_fields

theorem cmpKV_strictTotal : IsStrictTotal cmpKV :=
  (cmpB_strictTotal.prod cmpB_strictTotal.list).of_eq (fun _ _ => rfl)

/-- the fields of a `Locale` in the order the derived `Ord` visits them -/
def Locale.fields (x : Locale) :
    LangId × AMap × List Bytes × Option LangId × AMap × List Bytes :=
  (x.id, x.ext.unicode.keywords, x.ext.unicode.attributes, x.ext.transform.tlang,
   x.ext.transform.tfields, x.ext.priv)

theorem Locale.fields_injective (a b : Locale) (h : Locale.fields a = Locale.fields b) : a = b := by
  obtain ⟨ai, ⟨⟨ak, aa⟩, ⟨atl, atf⟩, ap⟩⟩ := a
  obtain ⟨bi, ⟨⟨bk, ba⟩, ⟨btl, btf⟩, bp⟩⟩ := b
  simp only [Locale.fields, Prod.mk.injEq] at h
  obtain ⟨rfl, rfl, rfl, rfl, rfl, rfl⟩ := h
  rfl

theorem cmpLoc_eq_fields (a b : Locale) :
    cmpLoc a b =
      cmpProd cmpLi (cmpProd (cmpList cmpKV) (cmpProd (cmpList cmpB) (cmpProd (cmpOpt cmpLi)
        (cmpProd (cmpList cmpKV) (cmpList cmpB))))) (Locale.fields a) (Locale.fields b) := rfl

theorem cmpLoc_strictTotal : IsStrictTotal cmpLoc :=
  ((cmpLi_strictTotal.prod (cmpKV_strictTotal.list.prod (cmpB_strictTotal.list.prod
      (cmpLi_strictTotal.opt.prod (cmpKV_strictTotal.list.prod cmpB_strictTotal.list))))).comap
      Locale.fields Locale.fields_injective).of_eq cmpLoc_eq_fields

/-! ### the derived `Hash`: the word stream is uniquely decodable -/

/-- `h` writes a self-delimiting code: from `h a ++ rest` both `a` and `rest` can be recovered -/
def Decodable {α} (h : α → List Nat) : Prop :=
  ∀ a b r r', h a ++ r = h b ++ r' → a = b ∧ r = r'

theorem Decodable.injective {α} {h : α → List Nat} (hd : Decodable h) (a b : α) (he : h a = h b) : a = b := by
  have := hd a b [] [] (by rw [he])
  exact this.1

theorem decodable_hashB : Decodable hashB := by
  intro a b r r' h
  simp only [hashB, List.cons_append, List.cons.injEq] at h
  obtain ⟨hl, h⟩ := h
  exact List.append_inj h hl

theorem Decodable.opt {α} {h : α → List Nat} (hd : Decodable h) : Decodable (hashOpt h) := by
  intro a b r r' he
  cases a <;> cases b <;> simp only [hashOpt, List.cons_append, List.cons.injEq, List.nil_append] at he
  · exact ⟨rfl, he.2⟩
  · exact absurd he.1 (by decide)
  · exact absurd he.1 (by decide)
  · obtain ⟨h1, h2⟩ := hd _ _ _ _ he.2
    exact ⟨by rw [h1], h2⟩

theorem Decodable.flatten {α} {h : α → List Nat} (hd : Decodable h) :
    ∀ (a b : List α) (r r' : List Nat), a.length = b.length →
      (a.map h).flatten ++ r = (b.map h).flatten ++ r' → a = b ∧ r = r' := by
  intro a
  induction a with
  | nil =>
    intro b r r' hl he
    cases b with
    | nil => exact ⟨rfl, by simpa using he⟩
    | cons _ _ => simp at hl
  | cons x s ih =>
    intro b r r' hl he
    cases b with
    | nil => simp at hl
    | cons y t =>
      simp only [List.map_cons, List.flatten_cons, List.append_assoc] at he
      obtain ⟨h1, h2⟩ := hd _ _ _ _ he
      obtain ⟨h3, h4⟩ := ih t r r' (by simpa using hl) h2
      exact ⟨by rw [h1, h3], h4⟩

theorem Decodable.list {α} {h : α → List Nat} (hd : Decodable h) : Decodable (hashList h) := by
  intro a b r r' he
  simp only [hashList, List.cons_append, List.cons.injEq] at he
  exact hd.flatten a b r r' he.1 he.2

theorem Decodable.prod {α β} {h1 : α → List Nat} {h2 : β → List Nat} (hd1 : Decodable h1) (hd2 : Decodable h2) :
    Decodable (fun p : α × β => h1 p.1 ++ h2 p.2) := by
  rintro ⟨a1, a2⟩ ⟨b1, b2⟩ r r' he
  simp only [List.append_assoc] at he
  obtain ⟨e1, he⟩ := hd1 _ _ _ _ he
  obtain ⟨e2, he⟩ := hd2 _ _ _ _ he
  exact ⟨by rw [e1, e2], he⟩

theorem Decodable.comap {α β} {h : β → List Nat} (hd : Decodable h) (f : α → β)
    (hf : ∀ a b, f a = f b → a = b) : Decodable (fun a => h (f a)) := by
  intro a b r r' he
  obtain ⟨e, he⟩ := hd _ _ _ _ he
  exact ⟨hf a b e, he⟩

theorem Decodable.of_eq {α} {h h' : α → List Nat} (hd : Decodable h) (he : ∀ a, h' a = h a) : Decodable h' := by
  have : h' = h := funext he
  rw [this]; exact hd

theorem decodable_hashLi : Decodable hashLi :=
  (((decodable_hashB.opt.prod (decodable_hashB.opt.prod
      (decodable_hashB.opt.prod decodable_hashB.list.opt))).comap LangId.fields
      LangId.fields_injective)).of_eq (by
        intro a; simp only [hashLi, LangId.fields, List.append_assoc])

theorem decodable_hashKV : Decodable hashKV :=
  (decodable_hashB.prod decodable_hashB.list).of_eq (fun _ => rfl)

theorem decodable_hashLoc : Decodable hashLoc :=
  ((decodable_hashLi.prod (decodable_hashKV.list.prod (decodable_hashB.list.prod
      (decodable_hashLi.opt.prod (decodable_hashKV.list.prod decodable_hashB.list))))).comap
      Locale.fields Locale.fields_injective).of_eq (by
        intro a; simp only [hashLoc, Locale.fields, List.append_assoc])

end UL
